module verif/translate/c20

go 1.25
