// translate/c20: regenerates coq/theories/GenAccess.v (and a JSON side table with source
// positions) from internal/index/{manager,builder,converters}.
//
// Every access to a field of the tracked structs is recorded with
//   - the location  (struct type, field),
//   - read / write,
//   - the goroutine class ("context") of the code it sits in: init (manager.New before the
//     service goroutine exists), loop (closures sent on mgr.jobs and what only they call),
//     one class per `go` statement, api (exported entry points of package manager, called from
//     arbitrary goroutines), any (methods reachable through an interface from other packages),
//     fresh (through a local variable that holds an object allocated in the same function,
//     before it is handed to another goroutine),
//   - the mutexes of the same object held at that point (Lock/RLock ... Unlock/RUnlock,
//     defer Unlock), including locks that every caller of the enclosing method holds on the
//     receiver.
// Contexts flow along the static call graph (go/types), closures are classified by their
// syntactic position (sent on jobs / go / called in place / passed to a known synchronous
// callee).  What cannot be classified is a hard failure (exit 2), never a default.
package main

import (
	"encoding/json"
	"flag"
	"fmt"
	"go/ast"
	"go/importer"
	"go/parser"
	"go/token"
	"go/types"
	"io"
	"os"
	"os/exec"
	"path/filepath"
	"sort"
	"strings"
)

const modPath = "github.com/spq/pkappa2"

var (
	fset    = token.NewFileSet()
	pkgDirs = []string{"internal/index/converters", "internal/index/builder", "internal/index/manager"}
	// struct types whose fields are tracked, by package-local name
	tracked = map[string]bool{
		"manager.Manager": true, "manager.pcapOverIPEndpoint": true, "manager.PcapOverIPEndpointInfo": true,
		"builder.Builder":     true,
		"manager.tag":         true, "query.TagDetails": true,
		"converters.Converter": true, "converters.CachedConverter": true, "converters.Process": true,
	}
	// `go` statements whose goroutine class is ordered with itself:
	//   single  = started exactly once per Manager (from the first closure New posts)
	//   serial  = at most one instance at a time; the next one is started by the service loop
	//             after it received the completion closure of the previous one (guarded by
	//             mergeJobRunning / taggingJobRunning / converterJobRunning / len(importJobs));
	//             the stress harness checks this with the verif gates
	selfOrdered = map[string]string{
		"pcapOverIPPacketHandler": "single", "tagUpdateEventWorker": "single",
		"importPcapJob": "serial", "mergeIndexesJob": "serial", "updateTagJob": "serial", "convertStreamJob": "serial",
	}
	// callees that run a function argument on a goroutine of its own
	asyncCallees = map[string]bool{"time.AfterFunc": true}
	// callees that invoke a function argument synchronously on the calling goroutine
	syncCallees = map[string]bool{
		"sort.Slice": true, "sort.SliceStable": true, "sort.Search": true, "slices.IndexFunc": true, "slices.SortFunc": true,
		"slices.ContainsFunc": true, "slices.DeleteFunc": true, "strings.Map": true, "strings.FieldsFunc": true,
		"index.SearchStreams": true, "sync.Once.Do": true,
	}
)

func die(pos token.Pos, f string, a ...any) {
	where := ""
	if pos.IsValid() {
		where = fset.Position(pos).String() + ": "
	}
	fmt.Fprintf(os.Stderr, "translate/c20: %s%s\n", where, fmt.Sprintf(f, a...))
	os.Exit(2)
}

type pkgInfo struct {
	path  string
	name  string
	files []*ast.File
	info  *types.Info
	pkg   *types.Package
}

type ctxT struct {
	ID          int    `json:"id"`
	Name        string `json:"name"`
	Kind        string `json:"kind"` // init loop go api any fresh
	SelfOrdered bool   `json:"self_ordered"`
	Early       bool   `json:"early"` // goroutine started while manager.New still runs
}

type fnode struct {
	name     string
	pkg      *pkgInfo
	decl     *ast.FuncDecl
	lit      *ast.FuncLit
	obj      *types.Func
	parent   *fnode
	role     string // decl | loop | go | inline | deferred | sync-arg
	ctxs     map[int]bool
	callees  map[*fnode]bool
	recv     string           // receiver identifier
	entry    map[string]bool  // lock keys ("Type.field/x" or "/s") every caller holds on the receiver; nil = not yet known
	fresh    map[types.Object]token.Pos // local variables holding a fresh object -> position where it is published (NoPos = never)
	external bool
	async    bool // started by time.AfterFunc and the like
}

type lockT struct {
	base string // receiver / variable expression text
	key  string // "Type.field"
	excl bool
}

type access struct {
	File  string   `json:"file"`
	Line  int      `json:"line"`
	Loc   string   `json:"loc"`
	Write bool     `json:"write"`
	Ctx   int      `json:"ctx"`
	Locks []string `json:"locks"` // "Type.field/x" exclusive, "/s" shared
	Func  string   `json:"func"`
}

var (
	pkgs     = map[string]*pkgInfo{}
	ctxs     []*ctxT
	ctxByKey = map[string]*ctxT{}
	fnodes   []*fnode
	byDecl   = map[*types.Func]*fnode{}
	byLit    = map[*ast.FuncLit]*fnode{}
	parents  = map[ast.Node]ast.Node{}
	rows     []access
)

func newCtx(key, kind string, self, early bool) *ctxT {
	if c, ok := ctxByKey[key]; ok {
		return c
	}
	c := &ctxT{ID: len(ctxs), Name: key, Kind: kind, SelfOrdered: self, Early: early}
	ctxs = append(ctxs, c)
	ctxByKey[key] = c
	return c
}

// ---------------------------------------------------------------- loading
type exportImporter struct {
	exports map[string]string
	gc      types.Importer
}

func (e *exportImporter) Import(path string) (*types.Package, error) {
	if p, ok := pkgs[path]; ok && p.pkg != nil {
		return p.pkg, nil
	}
	return e.gc.Import(path)
}

func load(repo string) {
	cmd := exec.Command("go", append([]string{"list", "-export", "-deps", "-f", "{{.ImportPath}}\t{{.Export}}"}, func() []string {
		l := []string{}
		for _, d := range pkgDirs {
			l = append(l, "./"+d)
		}
		return l
	}()...)...)
	cmd.Dir = repo
	cmd.Stderr = os.Stderr
	out, err := cmd.Output()
	if err != nil {
		die(token.NoPos, "go list -export failed: %v", err)
	}
	exports := map[string]string{}
	for _, l := range strings.Split(string(out), "\n") {
		if p, e, ok := strings.Cut(l, "\t"); ok && e != "" {
			exports[p] = e
		}
	}
	imp := &exportImporter{exports: exports}
	imp.gc = importer.ForCompiler(fset, "gc", func(path string) (io.ReadCloser, error) {
		f, ok := exports[path]
		if !ok {
			return nil, fmt.Errorf("no export data for %q", path)
		}
		return os.Open(f)
	})
	for _, d := range pkgDirs {
		path := modPath + "/" + d
		pi := &pkgInfo{path: path, name: filepath.Base(d)}
		ents, err := os.ReadDir(filepath.Join(repo, d))
		if err != nil {
			die(token.NoPos, "%v", err)
		}
		for _, e := range ents {
			n := e.Name()
			if !strings.HasSuffix(n, ".go") || strings.HasSuffix(n, "_test.go") || n == "verif_gate_on.go" {
				continue
			}
			f, err := parser.ParseFile(fset, filepath.Join(repo, d, n), nil, parser.ParseComments)
			if err != nil {
				die(token.NoPos, "parse: %v", err)
			}
			pi.files = append(pi.files, f)
		}
		pi.info = &types.Info{Types: map[ast.Expr]types.TypeAndValue{}, Defs: map[*ast.Ident]types.Object{}, Uses: map[*ast.Ident]types.Object{},
			Selections: map[*ast.SelectorExpr]*types.Selection{}}
		conf := types.Config{Importer: imp}
		pkgs[path] = pi
		p, err := conf.Check(path, fset, pi.files, pi.info)
		if err != nil {
			die(token.NoPos, "type check %s: %v", path, err)
		}
		pi.pkg = p
	}
}

// ---------------------------------------------------------------- helpers
func exprStr(e ast.Expr) string {
	switch v := e.(type) {
	case *ast.Ident:
		return v.Name
	case *ast.SelectorExpr:
		return exprStr(v.X) + "." + v.Sel.Name
	case *ast.StarExpr:
		return "*" + exprStr(v.X)
	case *ast.ParenExpr:
		return exprStr(v.X)
	case *ast.IndexExpr:
		return exprStr(v.X) + "[...]"
	case *ast.UnaryExpr:
		return v.Op.String() + exprStr(v.X)
	case *ast.CallExpr:
		return exprStr(v.Fun) + "(...)"
	}
	return fmt.Sprintf("<%T>", e)
}

func namedOf(t types.Type) *types.Named {
	for {
		switch v := t.(type) {
		case *types.Pointer:
			t = v.Elem()
		case *types.Named:
			return v
		default:
			return nil
		}
	}
}

func typeKey(n *types.Named) string {
	if n == nil || n.Obj().Pkg() == nil {
		return ""
	}
	return n.Obj().Pkg().Name() + "." + n.Obj().Name()
}

func isMutex(t types.Type) (bool, bool) { // (is mutex, is rwmutex)
	n := namedOf(t)
	if n == nil || n.Obj().Pkg() == nil || n.Obj().Pkg().Path() != "sync" {
		return false, false
	}
	switch n.Obj().Name() {
	case "Mutex":
		return true, false
	case "RWMutex":
		return true, true
	}
	return false, false
}

func enclosing(n ast.Node) *fnode {
	for p := parents[n]; p != nil; p = parents[p] {
		switch v := p.(type) {
		case *ast.FuncLit:
			return byLit[v]
		case *ast.FuncDecl:
			for _, f := range fnodes {
				if f.decl == v {
					return f
				}
			}
		}
	}
	return nil
}

func calleeName(pi *pkgInfo, c *ast.CallExpr) string {
	switch f := c.Fun.(type) {
	case *ast.SelectorExpr:
		if id, ok := f.X.(*ast.Ident); ok {
			if pn, ok := pi.info.Uses[id].(*types.PkgName); ok {
				return pn.Imported().Name() + "." + f.Sel.Name
			}
		}
		if s := pi.info.Selections[f]; s != nil {
			if n := namedOf(s.Recv()); n != nil && n.Obj().Pkg() != nil {
				return n.Obj().Pkg().Name() + "." + n.Obj().Name() + "." + f.Sel.Name
			}
		}
		return f.Sel.Name
	case *ast.Ident:
		return f.Name
	}
	return ""
}

func calleeFunc(pi *pkgInfo, c *ast.CallExpr) *types.Func {
	switch f := c.Fun.(type) {
	case *ast.SelectorExpr:
		if s := pi.info.Selections[f]; s != nil {
			if fn, ok := s.Obj().(*types.Func); ok {
				return fn
			}
			return nil
		}
		if fn, ok := pi.info.Uses[f.Sel].(*types.Func); ok {
			return fn
		}
	case *ast.Ident:
		if fn, ok := pi.info.Uses[f].(*types.Func); ok {
			return fn
		}
	}
	return nil
}

// is e the jobs channel of a Manager?
func isJobsChan(pi *pkgInfo, e ast.Expr) bool {
	s, ok := e.(*ast.SelectorExpr)
	if !ok || s.Sel.Name != "jobs" {
		return false
	}
	sel := pi.info.Selections[s]
	return sel != nil && typeKey(namedOf(sel.Recv())) == "manager.Manager"
}

// ---------------------------------------------------------------- pass 1: functions, roles, contexts
func collect() {
	loopCtx := newCtx("loop", "loop", true, false)
	for _, d := range pkgDirs {
		pi := pkgs[modPath+"/"+d]
		for _, f := range pi.files {
			var stack []ast.Node
			ast.Inspect(f, func(n ast.Node) bool {
				if n == nil {
					stack = stack[:len(stack)-1]
					return true
				}
				if len(stack) > 0 {
					parents[n] = stack[len(stack)-1]
				}
				stack = append(stack, n)
				return true
			})
			for _, dcl := range f.Decls {
				fd, ok := dcl.(*ast.FuncDecl)
				if !ok || fd.Body == nil {
					continue
				}
				obj := pi.info.Defs[fd.Name].(*types.Func)
				fn := &fnode{pkg: pi, decl: fd, obj: obj, role: "decl", ctxs: map[int]bool{}, callees: map[*fnode]bool{}}
				fn.name = pi.name + "." + fd.Name.Name
				if fd.Recv != nil && len(fd.Recv.List) == 1 {
					fn.name = pi.name + "." + typeKeyOfRecv(pi, fd) + "." + fd.Name.Name
					if len(fd.Recv.List[0].Names) == 1 {
						fn.recv = fd.Recv.List[0].Names[0].Name
					}
				}
				fnodes = append(fnodes, fn)
				byDecl[obj] = fn
			}
		}
	}
	// function literals
	for _, top := range append([]*fnode(nil), fnodes...) {
		pi := top.pkg
		ast.Inspect(top.decl.Body, func(n ast.Node) bool {
			lit, ok := n.(*ast.FuncLit)
			if !ok {
				return true
			}
			fn := &fnode{pkg: pi, lit: lit, ctxs: map[int]bool{}, callees: map[*fnode]bool{}}
			fn.name = fmt.Sprintf("%s$%d", top.name, fset.Position(lit.Pos()).Line)
			fnodes = append(fnodes, fn)
			byLit[lit] = fn
			return true
		})
	}
	for _, fn := range fnodes {
		if fn.lit == nil {
			continue
		}
		pi := fn.pkg
		fn.parent = enclosing(fn.lit)
		p := parents[fn.lit]
		switch v := p.(type) {
		case *ast.SendStmt:
			if v.Value == fn.lit && isJobsChan(pi, v.Chan) {
				fn.role = "loop"
				fn.ctxs[loopCtx.ID] = true
			} else {
				die(fn.lit.Pos(), "function literal sent on a channel that is not Manager.jobs")
			}
		case *ast.CallExpr:
			if v.Fun == fn.lit {
				switch parents[v].(type) {
				case *ast.GoStmt:
					fn.role = "go"
				case *ast.DeferStmt:
					fn.role = "deferred"
				default:
					fn.role = "inline"
				}
			} else {
				cn := calleeName(pi, v)
				if asyncCallees[cn] {
					fn.role = "go"
					fn.async = true
					break
				}
				if !syncCallees[cn] && !syncCallees[strings.TrimPrefix(cn, pi.name+".")] {
					if hasTracked(pi, fn.lit) {
						die(fn.lit.Pos(), "function literal with accesses to tracked state is passed to %q: cannot tell which goroutine runs it", cn)
					}
				}
				fn.role = "sync-arg"
			}
		case *ast.AssignStmt:
			// f := func(){...} used only as f(...) inside the same function: runs in place
			if localOnlyCalled(pi, v, fn.lit, fn.parent) {
				fn.role = "sync-arg"
				break
			}
			if hasTracked(pi, fn.lit) {
				die(fn.lit.Pos(), "function literal with accesses to tracked state is stored in a variable that is not only called locally")
			}
			fn.role = "sync-arg"
		case *ast.ReturnStmt:
			// handed to the caller: runs on any goroutine, at any time
			fn.role = "returned"
		default:
			// stored, composite literal element: runs wherever the value is called
			if hasTracked(pi, fn.lit) {
				die(fn.lit.Pos(), "function literal with accesses to tracked state escapes (%T): cannot tell which goroutine runs it", p)
			}
			fn.role = "sync-arg"
		}
	}
}

func localOnlyCalled(pi *pkgInfo, as *ast.AssignStmt, lit *ast.FuncLit, encl *fnode) bool {
	if (as.Tok != token.DEFINE && as.Tok != token.ASSIGN) || len(as.Lhs) != len(as.Rhs) || encl == nil {
		return false
	}
	var obj types.Object
	for i, r := range as.Rhs {
		if r == lit {
			if id, ok := as.Lhs[i].(*ast.Ident); ok {
				obj = pi.info.Defs[id]
				if obj == nil {
					// f = func(){...} after `f := (func())(nil)`: a local that can call itself
					if v, isVar := pi.info.Uses[id].(*types.Var); isVar && !v.IsField() && v.Parent() != pi.pkg.Scope() {
						obj = v
					}
				}
			}
		}
	}
	if obj == nil {
		return false
	}
	var body ast.Node = encl.lit
	if encl.decl != nil {
		body = encl.decl
	}
	ok := true
	ast.Inspect(body, func(n ast.Node) bool {
		id, isID := n.(*ast.Ident)
		if !isID || pi.info.Uses[id] != obj {
			return true
		}
		if a, isAs := parents[id].(*ast.AssignStmt); isAs {
			for _, l := range a.Lhs {
				if l == ast.Expr(id) {
					return true // the assignment of the literal itself
				}
			}
		}
		c, isCall := parents[id].(*ast.CallExpr)
		if !isCall || c.Fun != id {
			ok = false
			return true
		}
		if _, isGo := parents[c].(*ast.GoStmt); isGo {
			ok = false
		}
		return true
	})
	return ok
}

func typeKeyOfRecv(pi *pkgInfo, fd *ast.FuncDecl) string {
	t := pi.info.TypeOf(fd.Recv.List[0].Type)
	if n := namedOf(t); n != nil {
		return n.Obj().Name()
	}
	return "?"
}

func hasTracked(pi *pkgInfo, n ast.Node) bool {
	found := false
	ast.Inspect(n, func(x ast.Node) bool {
		if l, ok := x.(*ast.FuncLit); ok && x != n {
			_ = l
			return false // judged on its own
		}
		if s, ok := x.(*ast.SelectorExpr); ok {
			if loc, _ := fieldLoc(pi, s); loc != "" {
				found = true
			}
		}
		return !found
	})
	return found
}

// location of a field selection on a tracked struct ("" when not tracked); the second result
// lists the embedded tracked structs read as a whole
func fieldLoc(pi *pkgInfo, s *ast.SelectorExpr) (string, *types.Var) {
	sel := pi.info.Selections[s]
	if sel == nil || sel.Kind() != types.FieldVal {
		return "", nil
	}
	v := sel.Obj().(*types.Var)
	// owner struct: walk the embedding path
	t := sel.Recv()
	var owner *types.Named
	for _, idx := range sel.Index() {
		owner = namedOf(t)
		st, ok := underlyingStruct(t)
		if !ok {
			return "", nil
		}
		t = st.Field(idx).Type()
	}
	k := typeKey(owner)
	if !tracked[k] {
		return "", nil
	}
	if m, _ := isMutex(v.Type()); m {
		return "", nil
	}
	// sync/atomic values are synchronisation objects themselves (only reachable through
	// their atomic methods; go vet rejects copies)
	if n := namedOf(v.Type()); n != nil && n.Obj().Pkg() != nil && n.Obj().Pkg().Path() == "sync/atomic" {
		return "", nil
	}
	return strings.SplitN(k, ".", 2)[1] + "." + v.Name(), v
}

// Bitmask values of tags are shared by copy (same backing array) with tagging jobs and views; the
// code's rule is "never change in place, replace by a modified Copy()".  bitField recognises those
// fields; an in-place mutation through one of them is a write to the shared words unless the field
// was assigned a fresh value on every path to that point.
var bitOwners = map[string]bool{"manager.tag": true, "query.TagDetails": true}

func isLongBitmask(t types.Type) bool {
	n := namedOf(t)
	return n != nil && n.Obj().Name() == "LongBitmask" && n.Obj().Pkg() != nil && strings.HasSuffix(n.Obj().Pkg().Path(), "/tools/bitmask")
}

func bitField(pi *pkgInfo, e ast.Expr) string {
	s, ok := e.(*ast.SelectorExpr)
	if !ok {
		return ""
	}
	sel := pi.info.Selections[s]
	if sel == nil || sel.Kind() != types.FieldVal || !isLongBitmask(sel.Obj().Type()) {
		return ""
	}
	t := sel.Recv()
	var owner *types.Named
	for _, idx := range sel.Index() {
		owner = namedOf(t)
		st, ok := underlyingStruct(t)
		if !ok {
			return ""
		}
		t = st.Field(idx).Type()
	}
	if !bitOwners[typeKey(owner)] {
		return ""
	}
	return "bits:" + owner.Obj().Name() + "." + sel.Obj().Name()
}

// an expression that yields a bitmask with storage of its own
func freshBits(pi *pkgInfo, e ast.Expr) bool {
	switch v := e.(type) {
	case *ast.ParenExpr:
		return freshBits(pi, v.X)
	case *ast.CompositeLit:
		return isLongBitmask(pi.info.TypeOf(v))
	case *ast.CallExpr:
		if se, ok := v.Fun.(*ast.SelectorExpr); ok {
			switch se.Sel.Name {
			case "Copy", "OrCopy", "AndCopy", "XorCopy", "SubCopy":
				return isLongBitmask(pi.info.TypeOf(se.X))
			case "MakeLongBitmask":
				return true
			}
		}
	}
	return false
}

const freshKey = "#fresh"

func underlyingStruct(t types.Type) (*types.Struct, bool) {
	if p, ok := t.Underlying().(*types.Pointer); ok {
		t = p.Elem()
	}
	st, ok := t.Underlying().(*types.Struct)
	return st, ok
}

func assignContexts() {
	initCtx := newCtx("init", "init", true, false)
	apiCtx := newCtx("api", "api", false, false)
	anyCtx := newCtx("any", "any", false, false)
	// static call edges, go statements
	type goSite struct {
		from   *fnode
		callee *fnode
		key    string
		self   bool
	}
	var gos []goSite
	called := map[*fnode]bool{}
	for _, fn := range fnodes {
		pi := fn.pkg
		var body ast.Node
		if fn.decl != nil {
			body = fn.decl.Body
		} else {
			body = fn.lit.Body
		}
		ast.Inspect(body, func(n ast.Node) bool {
			if l, ok := n.(*ast.FuncLit); ok && l != fn.lit {
				return false // handled as its own node
			}
			c, ok := n.(*ast.CallExpr)
			if !ok {
				return true
			}
			_, isGo := parents[c].(*ast.GoStmt)
			if lit, ok := c.Fun.(*ast.FuncLit); ok {
				if isGo {
					key := fmt.Sprintf("go:%s", byLit[lit].name)
					gos = append(gos, goSite{fn, byLit[lit], key, false})
				}
				return true
			}
			tf := calleeFunc(pi, c)
			if tf == nil {
				return true
			}
			var targets []*fnode
			if t, ok := byDecl[tf]; ok {
				targets = append(targets, t)
			} else if recv := tf.Type().(*types.Signature).Recv(); recv != nil {
				if it, ok := recv.Type().Underlying().(*types.Interface); ok {
					// dynamic dispatch: every method of our packages that can be the target
					for obj, t := range byDecl {
						r := obj.Type().(*types.Signature).Recv()
						if r == nil || obj.Name() != tf.Name() {
							continue
						}
						if types.Implements(r.Type(), it) || types.Implements(types.NewPointer(r.Type()), it) {
							targets = append(targets, t)
						}
					}
				}
			}
			for _, t := range targets {
				called[t] = true
				if isGo {
					_, self := selfOrdered[tf.Name()]
					// go v.m() right where v was allocated: one goroutine per object, and the
					// method reaches the object's fields through its receiver only
					if se, ok := c.Fun.(*ast.SelectorExpr); ok {
						if id, ok := se.X.(*ast.Ident); ok && fn.fresh != nil {
							if _, fresh := fn.fresh[pi.info.Uses[id]]; fresh {
								self = true
							}
						}
					}
					gos = append(gos, goSite{fn, t, "go:" + t.name, self})
				} else {
					fn.callees[t] = true
				}
			}
			return true
		})
	}
	for _, fn := range fnodes {
		if fn.async {
			gos = append(gos, goSite{fn.parent, fn, "go:" + fn.name, false})
		}
	}
	// literals that run on the goroutine of their parent
	for _, fn := range fnodes {
		if fn.lit != nil && (fn.role == "inline" || fn.role == "deferred" || fn.role == "sync-arg") {
			fn.parent.callees[fn] = true
		}
	}
	// seeds
	for _, fn := range fnodes {
		if fn.role == "returned" {
			fn.ctxs[anyCtx.ID] = true
		}
		if fn.decl == nil {
			continue
		}
		exported := fn.decl.Name.IsExported()
		if fn.pkg.name == "manager" {
			if fn.name == "manager.New" {
				fn.ctxs[initCtx.ID] = true
			} else if exported {
				fn.ctxs[apiCtx.ID] = true
			}
		} else if exported && !called[fn] {
			// builder / converters: an exported function nobody in the three packages calls
			// statically is reached from elsewhere (interfaces of package index): any goroutine
			fn.ctxs[anyCtx.ID] = true
			fn.external = true
		}
	}
	// the service goroutine itself: go func() { for f := range mgr.jobs { f() } }() in New
	var pending []goSite
	for _, g := range gos {
		if g.callee.lit != nil && isLoopBody(g.callee) {
			g.callee.ctxs[ctxByKey["loop"].ID] = true
			continue
		}
		pending = append(pending, g)
	}
	propagate := func() {
		for changed := true; changed; {
			changed = false
			for _, fn := range fnodes {
				for c := range fn.callees {
					for id := range fn.ctxs {
						if !c.ctxs[id] {
							c.ctxs[id] = true
							changed = true
						}
					}
				}
			}
		}
	}
	propagate()
	// goroutine classes; "early" when the spawning code can run inside manager.New
	for _, g := range pending {
		early := g.from.ctxs[initCtx.ID]
		c := newCtx(g.key, "go", g.self, early)
		if early {
			c.Early = true
		}
		g.callee.ctxs[c.ID] = true
	}
	propagate()
}

func isLoopBody(fn *fnode) bool {
	if len(fn.lit.Body.List) != 1 {
		return false
	}
	r, ok := fn.lit.Body.List[0].(*ast.RangeStmt)
	return ok && isJobsChan(fn.pkg, r.X)
}

// ---------------------------------------------------------------- pass 2: accesses with locksets
type walker struct {
	fn    *fnode
	pi    *pkgInfo
	held  []lockT
	emit   bool
	target ast.Expr // the assignment target being walked
	addr   ast.Expr // operand of & being walked
	calls  map[*fnode][][]lockT // callee -> lock sets held (on the call's receiver) at each call site
}

func lockKeyOf(l lockT) string {
	if l.excl {
		return l.key + "/x"
	}
	return l.key + "/s"
}

func (w *walker) lockCall(c *ast.CallExpr) (lockT, string, bool) {
	s, ok := c.Fun.(*ast.SelectorExpr)
	if !ok {
		return lockT{}, "", false
	}
	switch s.Sel.Name {
	case "Lock", "Unlock", "RLock", "RUnlock":
	default:
		return lockT{}, "", false
	}
	if id, ok := s.X.(*ast.Ident); ok {
		// a mutex held in a local variable guards the captured locals of the same function
		if v := localVar(w.pi, id); v != nil {
			if m, _ := isMutex(v.Type()); m {
				return lockT{base: "<local>", key: fmt.Sprintf("local.%s@%d", id.Name, fset.Position(v.Pos()).Line),
					excl: s.Sel.Name == "Lock" || s.Sel.Name == "Unlock"}, s.Sel.Name, true
			}
		}
		return lockT{}, "", false
	}
	ms, ok := s.X.(*ast.SelectorExpr)
	if !ok {
		return lockT{}, "", false
	}
	if m, _ := isMutex(w.pi.info.TypeOf(ms)); !m {
		return lockT{}, "", false
	}
	sel := w.pi.info.Selections[ms]
	if sel == nil {
		return lockT{}, "", false
	}
	owner := namedOf(sel.Recv())
	l := lockT{base: exprStr(ms.X), key: owner.Obj().Name() + "." + ms.Sel.Name, excl: s.Sel.Name == "Lock" || s.Sel.Name == "Unlock"}
	return l, s.Sel.Name, true
}

func (w *walker) acquire(l lockT) { w.held = append(w.held, l) }
func (w *walker) release(l lockT) {
	for i := len(w.held) - 1; i >= 0; i-- {
		if w.held[i] == l {
			w.held = append(w.held[:i:i], w.held[i+1:]...)
			return
		}
	}
	// released without a visible acquire: the entry locks of the method cover it
}

func intersect(a, b []lockT) []lockT {
	out := []lockT{}
	for _, x := range a {
		for _, y := range b {
			if x == y {
				out = append(out, x)
				break
			}
		}
	}
	return out
}

func terminates(b *ast.BlockStmt) bool {
	if b == nil || len(b.List) == 0 {
		return false
	}
	switch v := b.List[len(b.List)-1].(type) {
	case *ast.ReturnStmt:
		return true
	case *ast.BranchStmt:
		return v.Tok == token.BREAK || v.Tok == token.CONTINUE || v.Tok == token.GOTO
	case *ast.ExprStmt:
		if c, ok := v.X.(*ast.CallExpr); ok {
			if id, ok := c.Fun.(*ast.Ident); ok && id.Name == "panic" {
				return true
			}
		}
	}
	return false
}

func (w *walker) block(b *ast.BlockStmt) {
	if b == nil {
		return
	}
	for _, s := range b.List {
		w.stmt(s)
	}
}

// a nested block that may or may not run: afterwards only locks held on both paths count
func (w *walker) branch(bodies ...*ast.BlockStmt) {
	entry := append([]lockT(nil), w.held...)
	res := entry
	for _, b := range bodies {
		if b == nil {
			continue
		}
		w.held = append([]lockT(nil), entry...)
		w.block(b)
		if !terminates(b) {
			res = intersect(res, w.held)
		}
	}
	w.held = res
}

func (w *walker) stmt(s ast.Stmt) {
	switch v := s.(type) {
	case nil:
	case *ast.BlockStmt:
		w.block(v)
	case *ast.ExprStmt:
		w.expr(v.X, false)
		if c, ok := v.X.(*ast.CallExpr); ok {
			if l, op, ok := w.lockCall(c); ok {
				if op == "Lock" || op == "RLock" {
					w.acquire(l)
				} else {
					w.release(l)
				}
			}
		}
	case *ast.DeferStmt:
		if _, _, ok := w.lockCall(v.Call); ok {
			return // defer x.Unlock(): held until the function returns
		}
		if lit, ok := v.Call.Fun.(*ast.FuncLit); ok {
			// runs at return: locks unknown
			saved := w.held
			w.held = nil
			w.inlineLit(lit)
			w.held = saved
			for _, a := range v.Call.Args {
				w.expr(a, false)
			}
			return
		}
		w.expr(v.Call, false)
	case *ast.GoStmt:
		for _, a := range v.Call.Args {
			w.expr(a, false)
		}
		if lit, ok := v.Call.Fun.(*ast.FuncLit); ok {
			w.handoff(lit)
		} else {
			w.expr(v.Call.Fun, false)
		}
	case *ast.AssignStmt:
		for _, r := range v.Rhs {
			w.expr(r, false)
		}
		for i, l := range v.Lhs {
			if v.Tok != token.ASSIGN && v.Tok != token.DEFINE {
				w.expr(l, false) // x op= y reads x
			}
			w.target = l
			w.expr(l, true)
			w.target = nil
			if bitField(w.pi, l) != "" {
				mark := lockT{base: exprStr(l), key: freshKey, excl: true}
				w.release(mark)
				if len(v.Lhs) == len(v.Rhs) && freshBits(w.pi, v.Rhs[i]) {
					w.acquire(mark)
				}
			} else if id, ok := l.(*ast.Ident); ok {
				// x = ... / x := ... : whatever was known about x.<field> is gone
				for k := len(w.held) - 1; k >= 0; k-- {
					if w.held[k].key == freshKey && strings.HasPrefix(w.held[k].base, id.Name+".") {
						w.held = append(w.held[:k:k], w.held[k+1:]...)
					}
				}
			}
		}
	case *ast.IncDecStmt:
		w.expr(v.X, false)
		w.expr(v.X, true)
	case *ast.SendStmt:
		w.expr(v.Chan, false)
		if lit, ok := v.Value.(*ast.FuncLit); ok {
			w.handoff(lit)
		} else {
			w.expr(v.Value, false)
		}
	case *ast.ReturnStmt:
		for _, r := range v.Results {
			w.expr(r, false)
		}
	case *ast.IfStmt:
		w.stmt(v.Init)
		w.expr(v.Cond, false)
		var els *ast.BlockStmt
		switch e := v.Else.(type) {
		case *ast.BlockStmt:
			els = e
		case *ast.IfStmt:
			els = &ast.BlockStmt{List: []ast.Stmt{e}}
		}
		if els == nil {
			els = &ast.BlockStmt{}
		}
		w.branch(v.Body, els)
	case *ast.ForStmt:
		w.stmt(v.Init)
		if v.Cond != nil {
			w.expr(v.Cond, false)
		}
		entry := append([]lockT(nil), w.held...)
		w.block(v.Body)
		w.stmt(v.Post)
		w.held = intersect(entry, w.held)
	case *ast.RangeStmt:
		w.expr(v.X, false)
		if v.Key != nil && v.Tok == token.ASSIGN {
			w.expr(v.Key, true)
		}
		if v.Value != nil && v.Tok == token.ASSIGN {
			w.expr(v.Value, true)
		}
		entry := append([]lockT(nil), w.held...)
		w.block(v.Body)
		w.held = intersect(entry, w.held)
	case *ast.SwitchStmt:
		w.stmt(v.Init)
		if v.Tag != nil {
			w.expr(v.Tag, false)
		}
		w.clauses(v.Body)
	case *ast.TypeSwitchStmt:
		w.stmt(v.Init)
		w.stmt(v.Assign)
		w.clauses(v.Body)
	case *ast.SelectStmt:
		w.clauses(v.Body)
	case *ast.LabeledStmt:
		w.stmt(v.Stmt)
	case *ast.DeclStmt:
		if gd, ok := v.Decl.(*ast.GenDecl); ok {
			for _, sp := range gd.Specs {
				if vs, ok := sp.(*ast.ValueSpec); ok {
					for _, e := range vs.Values {
						w.expr(e, false)
					}
				}
			}
		}
	case *ast.BranchStmt, *ast.EmptyStmt:
	default:
		die(s.Pos(), "statement %T not handled", s)
	}
}

func (w *walker) clauses(b *ast.BlockStmt) {
	bodies := []*ast.BlockStmt{{}}
	for _, c := range b.List {
		switch v := c.(type) {
		case *ast.CaseClause:
			for _, e := range v.List {
				w.expr(e, false)
			}
			bodies = append(bodies, &ast.BlockStmt{List: v.Body})
		case *ast.CommClause:
			bodies = append(bodies, &ast.BlockStmt{List: append([]ast.Stmt{v.Comm}, v.Body...)})
		}
	}
	w.branch(bodies...)
}

// freshness marks on local variables survive into a closure that is sent / started right there:
// the closure runs after that point and the enclosing function is the only other holder
var litEntry = map[*ast.FuncLit][]lockT{}

func (w *walker) handoff(lit *ast.FuncLit) {
	var marks []lockT
	for _, l := range w.held {
		if l.key == freshKey {
			marks = append(marks, l)
		}
	}
	litEntry[lit] = marks
}

func (w *walker) inlineLit(lit *ast.FuncLit) {
	sub := &walker{fn: byLit[lit], pi: w.pi, held: append([]lockT(nil), w.held...), emit: w.emit, calls: w.calls}
	sub.block(lit.Body)
}

// expr walks e; write tells that e is the target of an assignment / inc-dec
func (w *walker) expr(e ast.Expr, write bool) {
	switch v := e.(type) {
	case nil:
	case *ast.BasicLit:
	case *ast.Ident:
		w.localAccess(v, write)
	case *ast.ParenExpr:
		w.expr(v.X, write)
	case *ast.SelectorExpr:
		w.selector(v, write)
	case *ast.IndexExpr:
		// x.f[i] = v writes the container x.f
		w.expr(v.X, write)
		w.expr(v.Index, false)
	case *ast.IndexListExpr:
		w.expr(v.X, false)
	case *ast.SliceExpr:
		w.expr(v.X, write)
		w.expr(v.Low, false)
		w.expr(v.High, false)
		w.expr(v.Max, false)
	case *ast.StarExpr:
		w.expr(v.X, false)
	case *ast.UnaryExpr:
		if v.Op == token.AND {
			// &x.f: whoever holds the pointer may write the field; for the shared words of a tag
			// bitmask the callee is not followed (index.SearchStreams only reads its limit mask)
			w.addr = v.X
			w.expr(v.X, isFieldSel(w.pi, v.X))
			w.addr = nil
		} else {
			w.expr(v.X, false)
		}
	case *ast.BinaryExpr:
		w.expr(v.X, false)
		w.expr(v.Y, false)
	case *ast.KeyValueExpr:
		w.expr(v.Key, false)
		w.expr(v.Value, false)
	case *ast.CompositeLit:
		for _, el := range v.Elts {
			if kv, ok := el.(*ast.KeyValueExpr); ok {
				w.expr(kv.Value, false)
			} else {
				w.expr(el, false)
			}
		}
	case *ast.TypeAssertExpr:
		w.expr(v.X, false)
	case *ast.FuncLit:
		fn := byLit[v]
		switch fn.role {
		case "inline", "sync-arg":
			w.inlineLit(v)
		}
		// loop / go / deferred literals are walked as their own functions
	case *ast.CallExpr:
		w.call(v)
	case *ast.ArrayType, *ast.MapType, *ast.ChanType, *ast.FuncType, *ast.StructType, *ast.InterfaceType, *ast.Ellipsis:
	default:
		die(e.Pos(), "expression %T not handled", e)
	}
}

func isFieldSel(pi *pkgInfo, e ast.Expr) bool {
	s, ok := e.(*ast.SelectorExpr)
	if !ok {
		return false
	}
	loc, _ := fieldLoc(pi, s)
	return loc != ""
}

func (w *walker) call(c *ast.CallExpr) {
	// builtin delete(m, k) / clear(m) write the container; append / len / cap / copy(dst, src)
	if id, ok := c.Fun.(*ast.Ident); ok {
		if _, isB := w.pi.info.Uses[id].(*types.Builtin); isB {
			for i, a := range c.Args {
				wr := (id.Name == "delete" || id.Name == "clear" || id.Name == "copy") && i == 0
				w.expr(a, wr)
			}
			return
		}
	}
	if lit, ok := c.Fun.(*ast.FuncLit); ok {
		for _, a := range c.Args {
			w.expr(a, false)
		}
		w.inlineLit(lit)
		return
	}
	// method call on a field value: a pointer-receiver method may change the field in place
	if s, ok := c.Fun.(*ast.SelectorExpr); ok {
		sel := w.pi.info.Selections[s]
		recvWrite := false
		if sel != nil && sel.Kind() == types.MethodVal {
			fn := sel.Obj().(*types.Func)
			sig := fn.Type().(*types.Signature)
			if _, isPtr := sig.Recv().Type().(*types.Pointer); isPtr {
				if _, argPtr := w.pi.info.TypeOf(s.X).(*types.Pointer); !argPtr {
					recvWrite = true // addressable value, method gets &x.f
				}
			}
			if m, _ := isMutex(w.pi.info.TypeOf(s.X)); m {
				recvWrite = false
			}
			// every pointer-receiver method of LongBitmask changes the words, also when it is
			// reached through a pointer (x[i].Unset(...) on a []*LongBitmask)
			if _, isPtr := sig.Recv().Type().(*types.Pointer); isPtr && isLongBitmask(sig.Recv().Type()) {
				recvWrite = true
			}
		}
		w.expr(s.X, recvWrite)
		// record the locks held on the receiver for the callee
		if tf := calleeFunc(w.pi, c); tf != nil {
			if t, ok := byDecl[tf]; ok && w.calls != nil {
				base := exprStr(s.X)
				var on []lockT
				for _, l := range w.effective(base) {
					on = append(on, lockT{base: "", key: l.key, excl: l.excl})
				}
				w.calls[t] = append(w.calls[t], on)
			}
		}
	} else {
		w.expr(c.Fun, false)
		if tf := calleeFunc(w.pi, c); tf != nil {
			if t, ok := byDecl[tf]; ok && w.calls != nil {
				w.calls[t] = append(w.calls[t], nil)
			}
		}
	}
	for _, a := range c.Args {
		w.expr(a, false)
	}
}

// locks that protect fields reached through `base`: held on the same expression, plus the
// entry locks of the method when base is its receiver
func (w *walker) effective(base string) []lockT {
	out := []lockT{}
	for _, l := range w.held {
		if l.base == base && l.key != freshKey {
			out = append(out, l)
		}
	}
	top := w.fn
	for top.lit != nil && (top.role == "inline" || top.role == "sync-arg") && top.parent != nil {
		top = top.parent
	}
	if top.decl != nil && top.recv != "" && base == top.recv {
		for k := range top.entry {
			out = append(out, lockT{base: base, key: k[:len(k)-2], excl: strings.HasSuffix(k, "/x")})
		}
	}
	return out
}

func (w *walker) selector(s *ast.SelectorExpr, write bool) {
	if bl := bitField(w.pi, s); bl != "" {
		w.expr(s.X, false)
		if !w.emit {
			return
		}
		if ast.Expr(s) == w.target {
			w.emitField(s, true) // x.f = v replaces the slice header of x, the shared words are untouched
			return
		}
		inPlace := write && ast.Expr(s) != w.addr
		if inPlace {
			for _, l := range w.held {
				if l.key == freshKey && l.base == exprStr(s) {
					inPlace = false
				}
			}
		}
		pos := fset.Position(s.Sel.Pos())
		ids := []int{}
		for id := range w.fn.ctxs {
			ids = append(ids, id)
		}
		sort.Ints(ids)
		if len(ids) == 0 {
			ids = []int{newCtx("dead", "dead", true, false).ID}
		}
		for _, id := range ids {
			rows = append(rows, access{File: pos.Filename, Line: pos.Line, Loc: bl, Write: inPlace, Ctx: id, Locks: []string{}, Func: w.fn.name})
		}
		w.emitField(s, write) // and the field itself (the slice header; Or/Set may reallocate it)
		return
	}
	loc, _ := fieldLoc(w.pi, s)
	if loc == "" {
		// not a tracked field: a write to x.f.g where x.f is a tracked struct-valued field writes x.f
		sel := w.pi.info.Selections[s]
		if sel != nil && sel.Kind() == types.FieldVal {
			if _, isPtr := w.pi.info.TypeOf(s.X).Underlying().(*types.Pointer); isPtr {
				w.expr(s.X, false)
			} else {
				w.expr(s.X, write)
			}
		} else {
			w.expr(s.X, false)
		}
		return
	}
	w.expr(s.X, false)
	if !w.emit {
		return
	}
	w.emitField(s, write)
}

// emitField records the access to the tracked field selected by s
func (w *walker) emitField(s *ast.SelectorExpr, write bool) {
	loc, fv := fieldLoc(w.pi, s)
	if loc == "" {
		return
	}
	base := exprStr(s.X)
	ctxIDs := w.contextsFor(s, base)
	locks := []string{}
	seen := map[string]bool{}
	for _, l := range w.effective(base) {
		if k := lockKeyOf(l); !seen[k] {
			seen[k] = true
			locks = append(locks, k)
		}
	}
	sort.Strings(locks)
	pos := fset.Position(s.Sel.Pos())
	locs := []string{loc}
	// a whole embedded tracked struct read or written as a value touches all of its fields
	if st, ok := fv.Type().Underlying().(*types.Struct); ok && tracked[typeKey(namedOf(fv.Type()))] {
		locs = nil
		for i := 0; i < st.NumFields(); i++ {
			locs = append(locs, namedOf(fv.Type()).Obj().Name()+"."+st.Field(i).Name())
		}
	}
	for _, id := range ctxIDs {
		for _, l := range locs {
			rows = append(rows, access{File: pos.Filename, Line: pos.Line, Loc: l, Write: write, Ctx: id, Locks: locks, Func: w.fn.name})
		}
	}
}

func (w *walker) contextsFor(s *ast.SelectorExpr, base string) []int {
	// fresh object: accessed through the local variable it was allocated into, before publication
	if id, ok := s.X.(*ast.Ident); ok {
		top := w.fn
		for top.lit != nil && (top.role == "inline" || top.role == "sync-arg") && top.parent != nil {
			top = top.parent
		}
		if obj := w.pi.info.Uses[id]; obj != nil && top.fresh != nil {
			if pub, ok := top.fresh[obj]; ok && (pub == token.NoPos || s.Pos() < pub) {
				if top.name == "manager.New" {
					return []int{ctxByKey["init"].ID}
				}
				return []int{newCtx("fresh", "fresh", true, false).ID}
			}
		}
	}
	ids := []int{}
	for id := range w.fn.ctxs {
		ids = append(ids, id)
	}
	sort.Ints(ids)
	if len(ids) == 0 {
		ids = []int{newCtx("dead", "dead", true, false).ID}
	}
	return ids
}

// local variables initialised with a fresh object of a tracked type; published at the first go
// statement / channel send that mentions them
func findFresh(fn *fnode) {
	if fn.lit != nil && (fn.role == "inline" || fn.role == "sync-arg") {
		return // part of its parent
	}
	pi := fn.pkg
	var body *ast.BlockStmt
	var ftype *ast.FuncType
	if fn.decl != nil {
		body, ftype = fn.decl.Body, fn.decl.Type
	} else {
		body, ftype = fn.lit.Body, fn.lit.Type
	}
	// literals that run in place belong to this function, the others are functions of their own
	descend := func(n ast.Node) bool {
		if l, ok := n.(*ast.FuncLit); ok && l != fn.lit {
			r := byLit[l].role
			return r == "inline" || r == "sync-arg"
		}
		return true
	}
	fn.fresh = map[types.Object]token.Pos{}
	isAlloc := func(e ast.Expr) bool {
		switch v := e.(type) {
		case *ast.CompositeLit:
			return true
		case *ast.UnaryExpr:
			_, ok := v.X.(*ast.CompositeLit)
			return ok && v.Op == token.AND
		case *ast.CallExpr:
			if id, ok := v.Fun.(*ast.Ident); ok && id.Name == "new" {
				return true
			}
		}
		return false
	}
	ast.Inspect(body, func(n ast.Node) bool {
		if !descend(n) {
			return false
		}
		if as, ok := n.(*ast.AssignStmt); ok && as.Tok == token.DEFINE && len(as.Lhs) == len(as.Rhs) {
			for i, l := range as.Lhs {
				if id, ok := l.(*ast.Ident); ok && isAlloc(as.Rhs[i]) {
					if obj := pi.info.Defs[id]; obj != nil && tracked[typeKey(namedOf(obj.Type()))] {
						fn.fresh[obj] = token.NoPos
					}
				}
			}
		}
		return true
	})
	// a variable that HOLDS a tracked struct by value is storage of its own (a private copy)
	ownCopy := func(id *ast.Ident) {
		if id == nil || id.Name == "_" {
			return
		}
		obj := pi.info.Defs[id]
		if obj == nil {
			return
		}
		if _, isPtr := obj.Type().(*types.Pointer); isPtr {
			return
		}
		if n, ok := obj.Type().(*types.Named); ok && tracked[typeKey(n)] {
			fn.fresh[obj] = token.NoPos
		}
	}
	if ftype.Params != nil {
		for _, f := range ftype.Params.List {
			for _, n := range f.Names {
				ownCopy(n)
			}
		}
	}
	ast.Inspect(body, func(n ast.Node) bool {
		if !descend(n) {
			return false
		}
		switch v := n.(type) {
		case *ast.AssignStmt:
			if v.Tok == token.DEFINE {
				for _, l := range v.Lhs {
					if id, ok := l.(*ast.Ident); ok {
						ownCopy(id)
					}
				}
			}
		case *ast.RangeStmt:
			if v.Tok == token.DEFINE {
				if id, ok := v.Key.(*ast.Ident); ok {
					ownCopy(id)
				}
				if id, ok := v.Value.(*ast.Ident); ok {
					ownCopy(id)
				}
			}
		case *ast.ValueSpec:
			for _, id := range v.Names {
				ownCopy(id)
			}
		}
		return true
	})
	if len(fn.fresh) == 0 {
		return
	}
	mentions := func(n ast.Node, obj types.Object) bool {
		found := false
		ast.Inspect(n, func(x ast.Node) bool {
			if id, ok := x.(*ast.Ident); ok && pi.info.Uses[id] == obj {
				found = true
			}
			return !found
		})
		return found
	}
	ast.Inspect(body, func(n ast.Node) bool {
		switch n.(type) {
		case *ast.GoStmt, *ast.SendStmt:
			for obj, pub := range fn.fresh {
				if mentions(n, obj) && (pub == token.NoPos || n.Pos() < pub) {
					fn.fresh[obj] = n.Pos()
				}
			}
		}
		return true
	})
}

// ---------------------------------------------------------------- captured local variables
// A local variable (or parameter) that a `go` closure refers to is shared between the goroutine
// that declared it and the started one(s).  Its accesses become rows of location "local:<func>.<name>":
// inside closures that are functions of their own (go / loop / deferred / returned) with the
// context of that closure; in the declaring function only where they can overlap with a started
// goroutine: after the go statement, or anywhere inside a loop that contains it.  A write is an
// assignment, ++/--, an element assignment, or a mutating bitmask method reached through the
// variable (x[i].Unset(...)).
type capture struct {
	goPos, loopStart, loopEnd token.Pos
}

var sharedLocals = map[types.Object][]capture{}

func unit(fn *fnode) *fnode {
	for fn.lit != nil && (fn.role == "inline" || fn.role == "sync-arg") && fn.parent != nil {
		fn = fn.parent
	}
	return fn
}

func unitNode(fn *fnode) ast.Node {
	if fn.decl != nil {
		return fn.decl
	}
	return fn.lit
}

func localVar(pi *pkgInfo, id *ast.Ident) *types.Var {
	v, ok := pi.info.Uses[id].(*types.Var)
	if !ok || v.IsField() || v.Parent() == nil || v.Parent() == pi.pkg.Scope() || v.Parent() == types.Universe {
		return nil
	}
	return v
}

func findCaptures() {
	for _, g := range fnodes {
		if g.lit == nil || g.role != "go" {
			continue
		}
		pi := g.pkg
		owner := unitNode(unit(g.parent))
		c := capture{goPos: g.lit.Pos()}
		for n := parents[g.lit]; n != nil && n != owner; n = parents[n] {
			switch n.(type) {
			case *ast.GoStmt:
				c.goPos = n.Pos()
			case *ast.ForStmt, *ast.RangeStmt:
				c.loopStart, c.loopEnd = n.Pos(), n.End() // outermost wins (assigned last)
			}
		}
		ast.Inspect(g.lit.Body, func(n ast.Node) bool {
			id, ok := n.(*ast.Ident)
			if !ok {
				return true
			}
			v := localVar(pi, id)
			if v == nil || (g.lit.Pos() <= v.Pos() && v.Pos() < g.lit.End()) {
				return true
			}
			sharedLocals[v] = append(sharedLocals[v], c)
			return true
		})
	}
}

func (w *walker) localAccess(id *ast.Ident, write bool) {
	if !w.emit {
		return
	}
	v := localVar(w.pi, id)
	if v == nil {
		return
	}
	caps := sharedLocals[v]
	if caps == nil {
		return
	}
	if m, _ := isMutex(v.Type()); m {
		return
	}
	if _, isChan := v.Type().Underlying().(*types.Chan); isChan && !write {
		return // channel operations synchronise
	}
	root := unit(w.fn)
	rn := unitNode(root)
	if rn.Pos() <= v.Pos() && v.Pos() < rn.End() {
		// the declaring function: only what can overlap with a started goroutine
		overlap := false
		for _, c := range caps {
			if id.Pos() > c.goPos || (c.loopStart <= id.Pos() && id.Pos() < c.loopEnd) {
				overlap = true
			}
		}
		if !overlap {
			return
		}
	}
	// owner of the variable, for the name of the location
	name := "local:" + v.Name()
	for _, fn := range fnodes {
		if fn.decl != nil && fn.decl.Pos() <= v.Pos() && v.Pos() < fn.decl.End() {
			name = "local:" + fn.name + "." + v.Name()
		}
	}
	ids := []int{}
	for c := range w.fn.ctxs {
		ids = append(ids, c)
	}
	sort.Ints(ids)
	if len(ids) == 0 {
		ids = []int{newCtx("dead", "dead", true, false).ID}
	}
	pos := fset.Position(id.Pos())
	locks := []string{}
	for _, l := range w.held {
		if l.base == "<local>" {
			locks = append(locks, lockKeyOf(l))
		}
	}
	sort.Strings(locks)
	for _, c := range ids {
		rows = append(rows, access{File: pos.Filename, Line: pos.Line, Loc: name, Write: write, Ctx: c, Locks: locks, Func: w.fn.name})
	}
}

func walkAll(emit bool) map[*fnode][][]lockT {
	calls := map[*fnode][][]lockT{}
	for _, fn := range fnodes {
		if fn.lit != nil && (fn.role == "inline" || fn.role == "sync-arg") {
			continue // walked in place
		}
		w := &walker{fn: fn, pi: fn.pkg, emit: emit, calls: calls}
		if fn.lit != nil {
			w.held = append([]lockT(nil), litEntry[fn.lit]...)
		}
		if fn.decl != nil {
			w.block(fn.decl.Body)
		} else {
			w.block(fn.lit.Body)
		}
	}
	return calls
}

func main() {
	repo := flag.String("repo", "/repo", "pkappa2 tree")
	out := flag.String("out", "", "GenAccess.v")
	jout := flag.String("json", "", "side table with positions")
	flag.Parse()
	load(*repo)
	collect()
	for _, fn := range fnodes {
		findFresh(fn)
	}
	assignContexts()
	findCaptures()
	// entry locks: what every caller holds on the receiver (greatest fixpoint, a few rounds)
	for round := 0; round < 4; round++ {
		calls := walkAll(false)
		for _, fn := range fnodes {
			if fn.decl == nil || fn.recv == "" {
				continue
			}
			sites := calls[fn]
			if len(sites) == 0 || fn.external || fn.ctxs[ctxByKey["api"].ID] && fn.decl.Name.IsExported() {
				fn.entry = map[string]bool{}
				continue
			}
			cur := map[string]bool{}
			for k, site := range sites {
				m := map[string]bool{}
				for _, l := range site {
					m[lockKeyOf(l)] = true
				}
				if k == 0 {
					cur = m
				} else {
					for x := range cur {
						if !m[x] {
							delete(cur, x)
						}
					}
				}
			}
			fn.entry = cur
		}
	}
	walkAll(true)

	// ---- output
	sort.SliceStable(rows, func(i, j int) bool {
		a, b := rows[i], rows[j]
		if a.Loc != b.Loc {
			return a.Loc < b.Loc
		}
		if a.File != b.File {
			return a.File < b.File
		}
		if a.Line != b.Line {
			return a.Line < b.Line
		}
		if a.Ctx != b.Ctx {
			return a.Ctx < b.Ctx
		}
		return !a.Write && b.Write
	})
	locIDs, lockIDs := map[string]int{}, map[string]int{}
	var locNames, lockNames []string
	for _, r := range rows {
		if _, ok := locIDs[r.Loc]; !ok {
			locIDs[r.Loc] = len(locNames)
			locNames = append(locNames, r.Loc)
		}
		for _, l := range r.Locks {
			k := l[:len(l)-2]
			if _, ok := lockIDs[k]; !ok {
				lockIDs[k] = len(lockNames)
				lockNames = append(lockNames, k)
			}
		}
	}
	var b strings.Builder
	w := func(f string, a ...any) { fmt.Fprintf(&b, f, a...) }
	w("(* GENERATED by translate/c20 from internal/index/{manager,builder,converters} -- do not edit.\n")
	w("   Regenerated by checks/c20.py on every run; rewritten only when the content changes. *)\n")
	w("From Coq Require Import List NArith Bool.\nImport ListNotations.\nRequire Import Pk.Ownership.\nLocal Open Scope N_scope.\n\n")
	w("(* contexts: id, kind, ordered with itself, started while New still runs *)\n")
	w("Definition gen_ctxs : list ctxinfo := [\n")
	for i, c := range ctxs {
		sep := ";"
		if i == len(ctxs)-1 {
			sep = ""
		}
		w("  mkCtx %d %s %v %v%s  (* %s *)\n", c.ID, kindCoq(c.Kind), c.SelfOrdered, c.Early, sep, c.Name)
	}
	w("].\n\n(* locations *)\n")
	for i, n := range locNames {
		w("(* %d = %s *)\n", i, n)
	}
	w("(* locks *)\n")
	for i, n := range lockNames {
		w("(* %d = %s *)\n", i, n)
	}
	w("\n(* rows: location, write, context, locks held on the same object (id, exclusive) *)\nDefinition gen_table : list access := [\n")
	type key struct {
		loc, ctx int
		wr     bool
		locks  string
	}
	seen := map[key]bool{}
	first := true
	for _, r := range rows {
		ls := []string{}
		for _, l := range r.Locks {
			ls = append(ls, fmt.Sprintf("(%d, %v)", lockIDs[l[:len(l)-2]], strings.HasSuffix(l, "/x")))
		}
		k := key{locIDs[r.Loc], r.Ctx, r.Write, strings.Join(ls, "; ")}
		if seen[k] {
			continue
		}
		seen[k] = true
		if !first {
			w(";\n")
		}
		first = false
		w("  mkAcc %d %v %d [%s]  (* %s %s:%d *)", k.loc, r.Write, r.Ctx, k.locks, r.Loc, filepath.Base(r.File), r.Line)
	}
	w("\n].\n")
	if *jout != "" {
		j, _ := json.MarshalIndent(map[string]any{"contexts": ctxs, "rows": rows, "locs": locNames, "locks": lockNames}, "", " ")
		if err := os.WriteFile(*jout, j, 0644); err != nil {
			die(token.NoPos, "%v", err)
		}
	}
	if *out == "" {
		fmt.Print(b.String())
		return
	}
	old, _ := os.ReadFile(*out)
	if string(old) != b.String() {
		if err := os.WriteFile(*out, []byte(b.String()), 0644); err != nil {
			die(token.NoPos, "%v", err)
		}
		fmt.Println("rewritten")
	} else {
		fmt.Println("unchanged")
	}
}

func kindCoq(k string) string {
	switch k {
	case "init":
		return "KInit"
	case "loop":
		return "KLoop"
	case "go":
		return "KGo"
	case "api":
		return "KApi"
	case "any":
		return "KAny"
	case "fresh":
		return "KFresh"
	case "dead":
		return "KDead"
	}
	return "KAny"
}
