// translate/c19: regenerates coq/theories/GenRoutes.v from cmd/pkappa2/main.go.
//
// Extracted (go/ast, no type information needed):
//   - the route patterns of the upload and the capture-download endpoint: static prefix, parameter
//     key, segment regexp (parsed with regexp/syntax and turned into the `re` type of Upload.v);
//   - the guard in front of the path construction (`filename != filepath.Base(filename)` -> reject);
//   - the arguments of the filepath.Join call that builds the target;
//   - the flags of os.OpenFile and the action lists of the four branches of the upload handler.
//
// STRICT: every statement of the two handlers must be of a recognised shape, every other
// route handler in setupRouter must be free of file-system calls except the whitelisted ones.
// Anything else is a hard failure (exit 2): the theorems of props/C19.v then no longer
// apply to the tree and the check reports that.
package main

import (
	"flag"
	"fmt"
	"go/ast"
	"go/parser"
	"go/token"
	"os"
	"regexp/syntax"
	"sort"
	"strconv"
	"strings"
)

var fset = token.NewFileSet()

func die(pos token.Pos, f string, a ...any) {
	where := ""
	if pos.IsValid() {
		where = fset.Position(pos).String() + ": "
	}
	fmt.Fprintf(os.Stderr, "translate/c19: %s%s\n", where, fmt.Sprintf(f, a...))
	os.Exit(2)
}

// ---------------------------------------------------------------- small AST helpers
func selName(e ast.Expr) string { // "pkg.Name" for a selector on an identifier
	if s, ok := e.(*ast.SelectorExpr); ok {
		if x, ok := s.X.(*ast.Ident); ok {
			return x.Name + "." + s.Sel.Name
		}
	}
	return ""
}

func callTo(e ast.Expr) (string, *ast.CallExpr) {
	if c, ok := e.(*ast.CallExpr); ok {
		return selName(c.Fun), c
	}
	return "", nil
}

func isIdent(e ast.Expr, name string) bool {
	i, ok := e.(*ast.Ident)
	return ok && i.Name == name
}

func strLit(e ast.Expr) (string, bool) {
	b, ok := e.(*ast.BasicLit)
	if !ok || b.Kind != token.STRING {
		return "", false
	}
	s, err := strconv.Unquote(b.Value)
	return s, err == nil
}

func isErrNotNil(e ast.Expr) bool {
	b, ok := e.(*ast.BinaryExpr)
	return ok && b.Op == token.NEQ && isIdent(b.X, "err") && isIdent(b.Y, "nil")
}

// body consists of log.Printf calls only
func onlyLogs(b *ast.BlockStmt) bool {
	for _, s := range b.List {
		es, ok := s.(*ast.ExprStmt)
		if !ok {
			return false
		}
		if n, _ := callTo(es.X); n != "log.Printf" && n != "log.Println" && n != "log.Print" {
			return false
		}
	}
	return true
}

// ---------------------------------------------------------------- regexp -> Coq term
func coqBytes(s string) string {
	p := []string{}
	for i := 0; i < len(s); i++ {
		p = append(p, strconv.Itoa(int(s[i])))
	}
	return "[" + strings.Join(p, "; ") + "]"
}

// a class as explicit ASCII members, or as the ASCII members of its complement
func classTerm(pos token.Pos, r *syntax.Regexp) (term string, wide bool) {
	in := []int{}
	size := 0
	for i := 0; i+1 < len(r.Rune); i += 2 {
		size += int(r.Rune[i+1]-r.Rune[i]) + 1
	}
	if size <= 64 {
		for i := 0; i+1 < len(r.Rune); i += 2 {
			for c := r.Rune[i]; c <= r.Rune[i+1]; c++ {
				if c > 127 {
					die(pos, "character class with a non-ASCII member U+%04X: not translated", c)
				}
				in = append(in, int(c))
			}
		}
		return "(OneOf " + coqInts(in) + ")", false
	}
	// complement
	out := []int{}
	next := rune(0)
	for i := 0; i+1 < len(r.Rune); i += 2 {
		for c := next; c < r.Rune[i]; c++ {
			out = append(out, int(c))
		}
		next = r.Rune[i+1] + 1
	}
	if next <= 0x10FFFF {
		die(pos, "negated class does not extend to U+10FFFF: not translated")
	}
	for _, c := range out {
		if c > 127 {
			die(pos, "negated class excludes a non-ASCII rune: not translated")
		}
	}
	if len(out) > 64 {
		die(pos, "character class too irregular: not translated")
	}
	return "(NotIn " + coqInts(out) + ")", true
}

func coqInts(l []int) string {
	p := []string{}
	for _, c := range l {
		p = append(p, strconv.Itoa(c))
	}
	return "[" + strings.Join(p, "; ") + "]"
}

// underRep: the node is the direct operand of * or +.  Atoms that match bytes >= 0x80
// (`.` and negated classes) are only equivalent on bytes and on runes in that position.
func reTerm(pos token.Pos, r *syntax.Regexp, underRep bool) string {
	if r.Flags&syntax.FoldCase != 0 {
		die(pos, "case-folding regexp: not translated")
	}
	switch r.Op {
	case syntax.OpEmptyMatch:
		return "Eps"
	case syntax.OpLiteral:
		b := []int{}
		for _, c := range r.Rune {
			if c > 127 {
				die(pos, "non-ASCII literal in route regexp: not translated")
			}
			b = append(b, int(c))
		}
		return "(Lit " + coqInts(b) + ")"
	case syntax.OpCharClass:
		t, wide := classTerm(pos, r)
		if wide && !underRep {
			die(pos, "negated class outside of * / +: byte and rune semantics differ, not translated")
		}
		return t
	case syntax.OpAnyCharNotNL:
		if !underRep {
			die(pos, "`.` outside of * / +: byte and rune semantics differ, not translated")
		}
		return "AnyNoNL"
	case syntax.OpCapture:
		return reTerm(pos, r.Sub[0], underRep)
	case syntax.OpStar:
		return "(Star " + reTerm(pos, r.Sub[0], true) + ")"
	case syntax.OpPlus:
		return "(Plus " + reTerm(pos, r.Sub[0], true) + ")"
	case syntax.OpQuest:
		return "(Opt " + reTerm(pos, r.Sub[0], false) + ")"
	case syntax.OpConcat:
		t := reTerm(pos, r.Sub[len(r.Sub)-1], false)
		for i := len(r.Sub) - 2; i >= 0; i-- {
			t = "(Seq " + reTerm(pos, r.Sub[i], false) + " " + t + ")"
		}
		return t
	case syntax.OpAlternate:
		t := reTerm(pos, r.Sub[len(r.Sub)-1], false)
		for i := len(r.Sub) - 2; i >= 0; i-- {
			t = "(Alt " + reTerm(pos, r.Sub[i], false) + " " + t + ")"
		}
		return t
	}
	die(pos, "regexp operator %v in a route pattern: not translated", r.Op)
	return ""
}

type route struct {
	method, pattern string
	prefix, key, rex string
	term            string
	fn              *ast.FuncLit
	pos             token.Pos
}

// "<static>{key:regexp}" with the parameter last
func splitPattern(pos token.Pos, pat string) (prefix, key, rex string) {
	i := strings.IndexByte(pat, '{')
	if i < 0 || !strings.HasSuffix(pat, "}") {
		die(pos, "route pattern %q: expected <static prefix>{name:regexp} with the parameter last", pat)
	}
	prefix = pat[:i]
	inner := pat[i+1 : len(pat)-1]
	depth := 0
	for _, c := range inner { // chi allows nested braces in the regexp only if balanced
		if c == '{' {
			depth++
		} else if c == '}' {
			depth--
			if depth < 0 {
				die(pos, "route pattern %q has more than one parameter", pat)
			}
		}
	}
	k, rx, ok := strings.Cut(inner, ":")
	if !ok || rx == "" {
		die(pos, "route pattern %q: parameter without a regexp", pat)
	}
	if strings.ContainsAny(prefix, "{}*") {
		die(pos, "route pattern %q: prefix is not static", pat)
	}
	return prefix, k, rx
}

// ---------------------------------------------------------------- handler shapes
type handlerInfo struct {
	guard   string
	join    []string
	flags   []string
	openErr []string
	copyErr []string
	closeErr []string
	ok      []string
	serve   bool
}

var fileVar, pathVar = "", ""

// if <fileVar> != filepath.Base(<fileVar>) { http.Error(...); return }
func isBaseGuard(s ast.Stmt) bool {
	is, ok := s.(*ast.IfStmt)
	if !ok || is.Init != nil || is.Else != nil {
		return false
	}
	b, ok := is.Cond.(*ast.BinaryExpr)
	if !ok || b.Op != token.NEQ {
		return false
	}
	x, y := b.X, b.Y
	if !isIdent(x, fileVar) {
		x, y = y, x
	}
	n, c := callTo(y)
	if !isIdent(x, fileVar) || n != "filepath.Base" || len(c.Args) != 1 || !isIdent(c.Args[0], fileVar) {
		return false
	}
	if len(is.Body.List) != 2 {
		return false
	}
	es, ok := is.Body.List[0].(*ast.ExprStmt)
	if !ok {
		return false
	}
	if n, _ := callTo(es.X); n != "http.Error" {
		return false
	}
	rs, ok := is.Body.List[1].(*ast.ReturnStmt)
	return ok && len(rs.Results) == 0
}

// <pathVar> := filepath.Join(*baseDir, *pcapDir, <fileVar>)
func joinArgs(s ast.Stmt) ([]string, bool) {
	as, ok := s.(*ast.AssignStmt)
	if !ok || as.Tok != token.DEFINE || len(as.Lhs) != 1 || len(as.Rhs) != 1 {
		return nil, false
	}
	n, c := callTo(as.Rhs[0])
	if n != "filepath.Join" {
		return nil, false
	}
	id, ok := as.Lhs[0].(*ast.Ident)
	if !ok {
		return nil, false
	}
	pathVar = id.Name
	out := []string{}
	for _, a := range c.Args {
		switch {
		case isIdent(a, fileVar):
			out = append(out, "JFilename")
		case isStar(a, "baseDir"):
			out = append(out, "JBaseDir")
		case isStar(a, "pcapDir"):
			out = append(out, "JPcapDir")
		default:
			die(a.Pos(), "filepath.Join argument of an unknown shape")
		}
	}
	return out, true
}

func isStar(e ast.Expr, name string) bool {
	s, ok := e.(*ast.StarExpr)
	return ok && isIdent(s.X, name)
}

func flagList(e ast.Expr) []string {
	switch v := e.(type) {
	case *ast.BinaryExpr:
		if v.Op != token.OR {
			die(e.Pos(), "os.OpenFile flags: operator %v", v.Op)
		}
		return append(flagList(v.X), flagList(v.Y)...)
	case *ast.ParenExpr:
		return flagList(v.X)
	}
	n := selName(e)
	known := map[string]bool{"os.O_RDONLY": true, "os.O_WRONLY": true, "os.O_RDWR": true, "os.O_APPEND": true,
		"os.O_CREATE": true, "os.O_EXCL": true, "os.O_SYNC": true, "os.O_TRUNC": true}
	if !known[n] {
		die(e.Pos(), "os.OpenFile flag of an unknown shape")
	}
	return []string{strings.TrimPrefix(n, "os.")}
}

// the statements of an error / success branch as abstract actions
func actions(list []ast.Stmt, dstVar string) []string {
	out := []string{}
	for _, s := range list {
		switch v := s.(type) {
		case *ast.ReturnStmt:
			if len(v.Results) != 0 {
				die(s.Pos(), "return with a value in a handler")
			}
			out = append(out, "AReturn")
		case *ast.ExprStmt:
			n, c := callTo(v.X)
			switch n {
			case "http.Error":
				out = append(out, "ARespond")
			case "log.Printf", "log.Println", "log.Print":
			case "mgr.ImportPcaps":
				cl, ok := c.Args[0].(*ast.CompositeLit)
				if len(c.Args) != 1 || !ok || len(cl.Elts) != 1 || !isIdent(cl.Elts[0], fileVar) {
					die(s.Pos(), "mgr.ImportPcaps is not called with exactly []string{%s}", fileVar)
				}
				out = append(out, "AImportName")
			default:
				die(s.Pos(), "unrecognised call %q in the upload handler", n)
			}
		case *ast.IfStmt:
			// if err := dst.Close(); err != nil {log}   |   if err := os.Remove(path); err != nil {log}
			as, ok := v.Init.(*ast.AssignStmt)
			if !ok || v.Else != nil || !isErrNotNil(v.Cond) || !onlyLogs(v.Body) || len(as.Rhs) != 1 {
				die(s.Pos(), "unrecognised if statement in an upload branch")
			}
			n, c := callTo(as.Rhs[0])
			switch {
			case n == dstVar+".Close" && len(c.Args) == 0:
				out = append(out, "ACloseDst")
			case n == "os.Remove" && len(c.Args) == 1 && isIdent(c.Args[0], pathVar):
				out = append(out, "ARemoveTarget")
			default:
				die(s.Pos(), "unrecognised call %q in an upload branch", n)
			}
		default:
			die(s.Pos(), "unrecognised statement in an upload branch")
		}
	}
	return out
}

// filename := chi.URLParam(r, "<key>")
func paramStmt(s ast.Stmt, key string) bool {
	as, ok := s.(*ast.AssignStmt)
	if !ok || as.Tok != token.DEFINE || len(as.Lhs) != 1 || len(as.Rhs) != 1 {
		return false
	}
	n, c := callTo(as.Rhs[0])
	if n != "chi.URLParam" || len(c.Args) != 2 {
		return false
	}
	k, ok := strLit(c.Args[1])
	id, ok2 := as.Lhs[0].(*ast.Ident)
	if !ok || !ok2 || k != key {
		return false
	}
	fileVar = id.Name
	return true
}

func uploadShape(rt *route) handlerInfo {
	h := handlerInfo{guard: "GuardNone"}
	l := rt.fn.Body.List
	i := 0
	next := func() ast.Stmt {
		if i >= len(l) {
			die(rt.fn.Body.Rbrace, "upload handler ends early")
		}
		i++
		return l[i-1]
	}
	if !paramStmt(next(), rt.key) {
		die(l[0].Pos(), "upload handler does not start with <name> := chi.URLParam(r, %q)", rt.key)
	}
	s := next()
	if isBaseGuard(s) {
		h.guard = "GuardNeBase"
		s = next()
	}
	if es, ok := s.(*ast.ExprStmt); ok {
		if n, _ := callTo(es.X); n == "tools.AssertFolderRWXPermissions" {
			s = next()
		}
	}
	var ok bool
	if h.join, ok = joinArgs(s); !ok {
		die(s.Pos(), "expected <path> := filepath.Join(...)")
	}
	// dst, err := os.OpenFile(path, FLAGS, perm)
	s = next()
	as, ok := s.(*ast.AssignStmt)
	if !ok || len(as.Lhs) != 2 || len(as.Rhs) != 1 || !isIdent(as.Lhs[1], "err") {
		die(s.Pos(), "expected dst, err := os.OpenFile(...)")
	}
	n, c := callTo(as.Rhs[0])
	if n != "os.OpenFile" || len(c.Args) != 3 || !isIdent(c.Args[0], pathVar) {
		die(s.Pos(), "the upload target is not opened with os.OpenFile(%s, flags, perm) but with %q", pathVar, n)
	}
	dst := as.Lhs[0].(*ast.Ident).Name
	h.flags = flagList(c.Args[1])
	// if err != nil { ... }
	s = next()
	is, ok := s.(*ast.IfStmt)
	if !ok || is.Init != nil || is.Else != nil || !isErrNotNil(is.Cond) {
		die(s.Pos(), "expected if err != nil {...} after os.OpenFile")
	}
	h.openErr = actions(is.Body.List, dst)
	// if _, err := io.Copy(dst, r.Body); err != nil { ... }
	s = next()
	is, ok = s.(*ast.IfStmt)
	if !ok || is.Else != nil || !isErrNotNil(is.Cond) {
		die(s.Pos(), "expected if _, err := io.Copy(dst, r.Body); err != nil {...}")
	}
	ias, ok := is.Init.(*ast.AssignStmt)
	if !ok || len(ias.Rhs) != 1 {
		die(s.Pos(), "expected io.Copy in the if initialiser")
	}
	n, c = callTo(ias.Rhs[0])
	if n != "io.Copy" || len(c.Args) != 2 || !isIdent(c.Args[0], dst) || selName(c.Args[1]) != "r.Body" {
		die(s.Pos(), "expected io.Copy(%s, r.Body)", dst)
	}
	h.copyErr = actions(is.Body.List, dst)
	// if err := dst.Close(); err != nil { ... }
	s = next()
	is, ok = s.(*ast.IfStmt)
	if !ok || is.Else != nil || !isErrNotNil(is.Cond) {
		die(s.Pos(), "expected if err := dst.Close(); err != nil {...}")
	}
	ias, ok = is.Init.(*ast.AssignStmt)
	if !ok || len(ias.Rhs) != 1 {
		die(s.Pos(), "expected dst.Close() in the if initialiser")
	}
	if n, c = callTo(ias.Rhs[0]); n != dst+".Close" || len(c.Args) != 0 {
		die(s.Pos(), "expected %s.Close()", dst)
	}
	h.closeErr = actions(is.Body.List, dst)
	h.ok = actions(l[i:], dst)
	return h
}

func downloadShape(rt *route) handlerInfo {
	h := handlerInfo{guard: "GuardNone"}
	l := rt.fn.Body.List
	if len(l) < 3 || !paramStmt(l[0], rt.key) {
		die(rt.fn.Pos(), "download handler does not start with <name> := chi.URLParam(r, %q)", rt.key)
	}
	i := 1
	if isBaseGuard(l[i]) {
		h.guard = "GuardNeBase"
		i++
	}
	var ok bool
	if h.join, ok = joinArgs(l[i]); !ok {
		die(l[i].Pos(), "expected <path> := filepath.Join(...)")
	}
	i++
	if i != len(l)-1 {
		die(l[i].Pos(), "unexpected statements in the download handler")
	}
	es, ok := l[i].(*ast.ExprStmt)
	if !ok {
		die(l[i].Pos(), "expected http.ServeFile(w, r, %s)", pathVar)
	}
	n, c := callTo(es.X)
	if n != "http.ServeFile" || len(c.Args) != 3 || !isIdent(c.Args[2], pathVar) {
		die(l[i].Pos(), "expected http.ServeFile(w, r, %s)", pathVar)
	}
	h.serve = true
	return h
}

// file-system entry points; a route handler other than the two above may use only the
// whitelisted (pattern, call) pairs
var fsCalls = map[string]bool{
	"os.OpenFile": true, "os.Open": true, "os.Create": true, "os.ReadFile": true, "os.WriteFile": true,
	"os.Remove": true, "os.RemoveAll": true, "os.Rename": true, "os.Mkdir": true, "os.MkdirAll": true,
	"os.ReadDir": true, "os.Stat": true, "os.Lstat": true, "os.Symlink": true, "os.Link": true, "os.Truncate": true,
	"os.Chmod": true, "os.CreateTemp": true, "os.MkdirTemp": true, "os.DirFS": true, "os.CopyFS": true, "os.OpenRoot": true,
	"ioutil.ReadFile": true, "ioutil.WriteFile": true, "ioutil.ReadDir": true, "ioutil.TempFile": true,
	"http.ServeFile": true, "http.ServeContent": true, "http.Dir": true, "http.FileServer": true, "http.ServeFileFS": true,
	"pcap.OpenOffline": true, "pcapgo.NewReader": true, "filepath.Walk": true, "filepath.WalkDir": true, "filepath.Glob": true,
	"exec.Command": true,
}

func fsCallsIn(n ast.Node) []string {
	out := []string{}
	ast.Inspect(n, func(x ast.Node) bool {
		if c, ok := x.(*ast.CallExpr); ok {
			if s := selName(c.Fun); fsCalls[s] {
				out = append(out, s)
			}
		}
		return true
	})
	return out
}

// text safe inside a Coq comment
func cmt(s string) string {
	s = strings.ReplaceAll(s, "*)", "* )")
	s = strings.ReplaceAll(s, "(*", "( *")
	return strings.ReplaceAll(s, "\"", "'")
}

func main() {
	src := flag.String("src", "/repo/cmd/pkappa2/main.go", "main.go of pkappa2")
	out := flag.String("out", "", "output .v file (stdout when empty)")
	flag.Parse()
	f, err := parser.ParseFile(fset, *src, nil, 0)
	if err != nil {
		die(token.NoPos, "parse: %v", err)
	}
	var setup *ast.FuncDecl
	for _, d := range f.Decls {
		if fd, ok := d.(*ast.FuncDecl); ok && fd.Name.Name == "setupRouter" && fd.Recv == nil {
			setup = fd
		}
	}
	if setup == nil {
		die(token.NoPos, "func setupRouter not found")
	}
	// route registrations: top-level statements <router>.<Verb>(pattern, handler)
	verbs := map[string]string{"Get": "GET", "Post": "POST", "Put": "PUT", "Delete": "DELETE", "Patch": "PATCH",
		"Head": "HEAD", "Options": "OPTIONS", "Connect": "CONNECT", "Trace": "TRACE", "HandleFunc": "*"}
	routes := []*route{}
	covered := map[ast.Node]bool{}
	for _, s := range setup.Body.List {
		es, ok := s.(*ast.ExprStmt)
		if !ok {
			continue
		}
		c, ok := es.X.(*ast.CallExpr)
		if !ok {
			continue
		}
		se, ok := c.Fun.(*ast.SelectorExpr)
		if !ok {
			continue
		}
		if _, ok := se.X.(*ast.Ident); !ok {
			continue
		}
		name := se.Sel.Name
		if m, ok := verbs[name]; ok {
			pat, ok := strLit(c.Args[0])
			if !ok || len(c.Args) != 2 {
				die(s.Pos(), "route registration with a non-literal pattern")
			}
			rt := &route{method: m, pattern: pat, pos: s.Pos()}
			rt.fn, _ = c.Args[1].(*ast.FuncLit)
			routes = append(routes, rt)
			covered[s] = true
			if rt.fn == nil {
				// the only non-literal handler accepted: the embedded web UI
				if !(m == "GET" && pat == "/*") {
					die(s.Pos(), "route %s %q: handler is not a function literal", m, pat)
				}
			}
		} else if name == "Mount" || name == "Handle" || name == "Method" || name == "MethodFunc" || name == "Route" || name == "Group" || name == "NotFound" {
			pat, _ := strLit(c.Args[0])
			if !(name == "Mount" && pat == "/debug") {
				die(s.Pos(), "route registration %s(%q, ...) is not modelled", name, pat)
			}
			covered[s] = true
		} else if name == "Use" {
			covered[s] = true
		}
	}
	// file-system calls anywhere else in setupRouter (helpers, closures assigned to variables)
	for _, s := range setup.Body.List {
		if covered[s] {
			continue
		}
		if l := fsCallsIn(s); len(l) > 0 {
			die(s.Pos(), "file-system call %v in setupRouter outside of a route handler: not modelled", l)
		}
	}
	var up, down *route
	others := []string{}
	for _, rt := range routes {
		var calls []string
		if rt.fn != nil {
			calls = fsCallsIn(rt.fn)
		}
		has := func(n string) bool {
			for _, c := range calls {
				if c == n {
					return true
				}
			}
			return false
		}
		switch {
		case has("os.OpenFile") || has("os.Create") || has("os.WriteFile"):
			if up != nil {
				die(rt.pos, "second route that writes files: %s %q", rt.method, rt.pattern)
			}
			up = rt
		case has("http.ServeFile"):
			if down != nil {
				die(rt.pos, "second route that serves files by name: %s %q", rt.method, rt.pattern)
			}
			down = rt
		case rt.fn == nil:
			others = append(others, fmt.Sprintf("%s %s: http.FileServer(http.FS(&web.FS{})) (embedded assets, no OS file access)", rt.method, rt.pattern))
		case len(calls) > 0:
			// the per-stream capture export opens captures the builder imported: names from the
			// service state, never from the request
			if rt.method == "GET" && rt.pattern == `/api/download/{stream:\d+}.pcap` && len(calls) == 1 && calls[0] == "pcap.OpenOffline" {
				others = append(others, fmt.Sprintf("%s %s: pcap.OpenOffline(filepath.Join(mgr.PcapDir, <name of an imported capture>))", rt.method, rt.pattern))
			} else {
				die(rt.pos, "route %s %q uses file-system calls %v: not modelled", rt.method, rt.pattern, calls)
			}
		}
	}
	if up == nil || down == nil {
		die(setup.Pos(), "upload or download route not found")
	}
	if up.method != "POST" || down.method != "GET" {
		die(up.pos, "unexpected verbs: upload %s, download %s", up.method, down.method)
	}
	for _, rt := range []*route{up, down} {
		rt.prefix, rt.key, rt.rex = splitPattern(rt.pos, rt.pattern)
		rx := rt.rex
		// chi anchors the expression; anchors written in the source are accepted at the ends only
		rx = strings.TrimSuffix(strings.TrimPrefix(rx, "^"), "$")
		p, err := syntax.Parse(rx, syntax.Perl)
		if err != nil {
			die(rt.pos, "regexp %q: %v", rx, err)
		}
		rt.term = reTerm(rt.pos, p, false)
	}
	uh := uploadShape(up)
	dh := downloadShape(down)

	var b strings.Builder
	w := func(f string, a ...any) { fmt.Fprintf(&b, f, a...) }
	w("(* GENERATED by translate/c19 from cmd/pkappa2/main.go -- do not edit.\n")
	w("   Regenerated by checks/c19.py on every run; rewritten only when the content changes. *)\n")
	w("From Coq Require Import List NArith.\nImport ListNotations.\nRequire Import Pk.Upload.\nOpen Scope N_scope.\n\n")
	w("(* %s %s *)\n", up.method, cmt(up.pattern))
	w("Definition gen_upload_prefix : str := %s.\n", coqBytes(up.prefix))
	w("Definition gen_upload_re : re := %s.\n", up.term)
	w("(* %s %s *)\n", down.method, cmt(down.pattern))
	w("Definition gen_download_prefix : str := %s.\n", coqBytes(down.prefix))
	w("Definition gen_download_re : re := %s.\n\n", down.term)
	lst := func(l []string) string { return "[" + strings.Join(l, "; ") + "]" }
	w("Definition gen_upload : upload_handler := {|\n  uh_guard := %s;\n  uh_join := %s;\n  uh_flags := %s;\n  uh_open_err := %s;\n  uh_copy_err := %s;\n  uh_close_err := %s;\n  uh_ok := %s |}.\n\n",
		uh.guard, lst(uh.join), lst(uh.flags), lst(uh.openErr), lst(uh.copyErr), lst(uh.closeErr), lst(uh.ok))
	w("(* download: guard, Join arguments; the file is handed to http.ServeFile *)\n")
	w("Definition gen_download_guard : guard := %s.\nDefinition gen_download_join : list jarg := %s.\n\n", dh.guard, lst(dh.join))
	sort.Strings(others)
	w("(* other routes that touch files (whitelisted shapes, not part of the model):\n")
	for _, o := range others {
		w("   %s\n", cmt(o))
	}
	w("*)\n")
	if *out == "" {
		fmt.Print(b.String())
		return
	}
	old, _ := os.ReadFile(*out)
	if string(old) != b.String() {
		if err := os.WriteFile(*out, []byte(b.String()), 0644); err != nil {
			die(token.NoPos, "write: %v", err)
		}
		fmt.Println("rewritten")
	} else {
		fmt.Println("unchanged")
	}
}
