module verif/translate/c19

go 1.23
