(* Extraction of the C04 model. ExtrOcamlBasic only. *)
Require Import Pk.RegexProg Pk.Regex Pk.DataFilter.
Require Extraction.
Require Import ExtrOcamlBasic.
Extraction "c04_model.ml"
  mkInst mkProg mkFacts mkRx mkElem mkCond mkStream EFixed ESubst
  stream_selected stream_spec first_err search prog_prefix accepted_length_cached constant_suffix_b assertion_free wf find.
