(* Extraction of the C08 model (same functions as C05: the import pipeline) (import pipeline: ordering, UDP/TCP reassembly models, attribution,
   snapshot/id logic).  ExtrOcamlBasic only: bool, option, unit, list, prod, sumbool, sumor map to the
   OCaml types; numbers stay positive/N/nat. *)
Require Import Pk.BuilderOrder Pk.Attrib Pk.Udp Pk.Tcp Pk.Import.
Require Extraction.
Require Import ExtrOcamlBasic.
Extraction "c08_model.ml"
  import import_and_publish visible stream_packets stream_data feed sort_packets udp_run flow_runs reasm coalesce.
