(* Extraction of the C15 model. ExtrOcamlBasic only: bool, option, unit, list, prod,
   sumbool, sumor map to the OCaml types; numbers stay positive/N/Z/nat. *)
Require Import Pk.CacheFile.
Require Extraction.
Require Import ExtrOcamlBasic.
Extraction "c15_model.ml"
  mkFixes fx_all fx_none mkChunk
  reset_state contains stream_count data data_for_search
  set_data invalidate truncate_file new_cache_file reopen crash should_compact
  st_file st_fileSize st_freeSize st_freeStart
  N.add N.mul Z.of_N Z.opp.
