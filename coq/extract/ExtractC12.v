(* Extraction of the C12 model. ExtrOcamlBasic only. *)
Require Import Pk.Persist.
Require Extraction.
Require Import ExtrOcamlBasic.
Extraction "c12_model.ml" recover_streams recover_state run_m mem_view restart_view.
