(* Extraction of the C11 model. ExtrOcamlBasic only: bool, option, unit, list, prod,
   sumbool, sumor map to the OCaml types; strings stay Coq's String/Ascii, numbers positive/N/nat. *)
Require Import Pk.TagApi.
Require Extraction.
Require Import ExtrOcamlBasic.
Extraction "c11_model.ml" step step_orig init_state tags convs next_id get complete_job.
