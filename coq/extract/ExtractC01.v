(* Extraction of the C01 model. ExtrOcamlBasic only: bool, option, unit, list, prod,
   sumbool, sumor map to the OCaml types; numbers stay positive/N/nat. *)
Require Import Pk.IndexFormat Pk.IndexFormatPop.
Require Extraction.
Require Import ExtrOcamlBasic.
Extraction "c01_model.ml"
  new_writer add_streams add_streams_pop finalize_reader new_reader_gen finalize encode_file decode_file
  all_streams stream_by_id stream_by_source observe r_ids r_min r_max assoc.
