(* Extraction of the C18 model. ExtrOcamlBasic only: bool, option, unit, list, prod,
   sumbool, sumor map to the OCaml types; numbers stay positive/N/nat. *)
Require Import Pk.RegexProg.
Require Extraction.
Require Import ExtrOcamlBasic.
Extraction "c18_model.ml"
  mkInst mkProg accepted_length accepted_length_cached accepted_length_cached_v0 constant_suffix constant_suffix_b wf sat assertion_free accepts_b.
