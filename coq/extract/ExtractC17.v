(* Extraction of the C17 model. ExtrOcamlBasic only: bool, option, unit, list, prod,
   sumbool, sumor map to the OCaml types; numbers stay positive/N/nat. *)
Require Import Pk.Bitmask.
Require Extraction.
Require Import ExtrOcamlBasic.
Extraction "c17_model.ml"
  c_make c_isset c_count c_len c_iszero c_set c_unset c_flip c_equal c_or c_and c_xor c_sub
  c_copy c_inject c_extract
  w_isset w_count w_len w_iszero w_set w_flip l_unset s_unset w_equal w_or w_xor w_and w_sub
  l_shrink s_shrink l_next w_inject s_extract.
