(* Extraction of the C07 model (C01 file model + merge). ExtrOcamlBasic only. *)
Require Import Pk.IndexFormat Pk.IndexFormatPop Pk.Merge.
Require Extraction.
Require Import ExtrOcamlBasic.
Extraction "c07_model.ml"
  new_writer add_streams add_streams_pop finalize_reader new_reader_gen finalize encode_file decode_file
  all_streams stream_by_id stream_by_source observe r_ids r_min r_max assoc
  add_index merge_files visible.
