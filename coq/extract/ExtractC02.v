(* Extraction of the C02 model. ExtrOcamlBasic only: bool, option, unit, list, prod map to
   the OCaml types; numbers stay positive/N/Z/nat. *)
Require Import Pk.Search.
Require Extraction.
Require Import ExtrOcamlBasic.
Extraction "c02_model.ml" search_algo v_orig v_fixed idok_of key_lt sub_search entry_matches_part sel_remove sel_empty number_filter group_values host_filter flag_filter inline_conj_with mkStream mkFile mkQpart.
