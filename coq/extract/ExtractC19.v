(* Extraction of the C19 model. ExtrOcamlBasic only; numbers stay positive/N/nat. *)
Require Import Pk.Upload Pk.GenRoutes.
Require Extraction.
Require Import ExtrOcamlBasic.
Extraction "c19_model.ml"
  base clean join re_match guard_ok accept target route_match exclusive_create skeleton_ok outcomes
  gen_upload gen_upload_re gen_upload_prefix gen_download_re gen_download_prefix gen_download_guard gen_download_join.
