(* Extraction of the C10/C13 model (theories/Indexes.v). ExtrOcamlBasic only: bool, option, unit,
   list, prod map to the OCaml types; numbers stay positive/N/nat. *)
Require Import Pk.Indexes.
Require Extraction.
Require Import ExtrOcamlBasic.
Extraction "c10_model.ml" init step_impl step_legacy enabled all_streams restart_impl.
