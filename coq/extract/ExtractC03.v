(* Extraction of the C03/C14 model. ExtrOcamlBasic only: bool, option, unit, list, prod, sumbool, sumor map
   to the OCaml types; numbers stay positive/N/Z/nat. *)
Require Import Pk.Query.
Require Extraction.
Require Import ExtrOcamlBasic.
Extraction "c03_model.ml" parse_conditions eval_set sem semL wf_seq strip mkVal mkStream.
