(* Extraction of the manager tag/converter model shared by C06, C16 and C09.
   ExtrOcamlBasic only; numbers stay positive/N/nat. *)
Require Import Pk.Tags Pk.TagsC16P.
Require Extraction.
Require Import ExtrOcamlBasic.
Extraction "c06_model.ml" init step faithful repaired mkKf mkDef mkIresp elems popcount tget merge_eligible all request answer.
