(* C12 -- state survives restart and a crash at any point.

   Model: theories/Persist.v.  Files are abstract (index file = name, magic written?, stream id ->
   version; state file = name, complete JSON?, Saved stamp, content); names are (tick, generation)
   in byte order; a process kill keeps the directory as it is after any prefix of the atomic file
   steps, the step in progress leaves its file incomplete.  recover_streams / recover_state follow
   manager.New.  ASSUMED (not modelled): the OS applies create / write / close / remove of a process
   atomically and in program order; the wall clock used for file names is monotone. *)
From Coq Require Import List NArith.
Require Import Pk.Persist Pk.PersistProofs Pk.PersistIndexProofs.
Import ListNotations.
Open Scope N_scope.

(* 1. Half-written files are ignored: a restart sees exactly what the complete files show. *)
Theorem c12_torn_index_files_ignored :
  forall (V : Type) (d : list (ifile V)) (id : N), recover_streams d id = recover_streams (readable d) id.
Proof. intros V. exact recover_ignores_torn. Qed.

Theorem c12_torn_state_files_ignored :
  forall (S : Type) (d : list (sfile S)), recover_state d = recover_state (filter s_ok d).
Proof. exact recover_state_ignores_torn. Qed.

(* 1b. A state file is taken all-or-nothing.  [s_ok f] = manager.New accepts f (it parses AND passes the validation of
       tags, references, marks and endpoints).  A rejected file - torn, or parsable but invalid, older or NEWER than the
       others, carrying whatever settings - contributes nothing: tags, config, webhooks and pcap list all come from the
       file that is selected. *)
Theorem c12_rejected_state_file_contributes_nothing :
  forall (S : Type) (d1 d2 : list (sfile S)) (f : sfile S),
    s_ok f = false -> recover_state (d1 ++ f :: d2) = recover_state (d1 ++ d2).
Proof. intros S. exact rejected_state_file_contributes_nothing. Qed.

(* 2. STATE (tags, settings, endpoints): for EVERY sequence of state saves ss (save k = create file k,
      write+close it, remove file k-1) and EVERY crash point (any prefix of the step list), a restart
      loads the newest save whose file was closed.  A save whose steps are all in the prefix (= it was
      acknowledged) has been closed, so its content or a newer closed one is loaded; with no closed
      file nothing is loaded. *)
Theorem c12_state_survives_every_crash_point :
  forall (S : Type) (ss : list S) (pre post : list (sstep S)),
    all_save_steps 1 ss = pre ++ post ->
    view S (recover_state (run_ssteps pre)) =
      (if closes S pre =? 0 then None
       else option_map (fun s => (closes S pre, s)) (nth_error ss (N.to_nat (closes S pre - 1)))).
Proof. exact state_recovery. Qed.

(* 3. STREAMS.  The machine of Persist.v: import job (create file named by the next clock tick with
      content newer than everything on disk, write magic, publish = append to mgr.indexes), merge job
      over a suffix mgr.indexes[offset:] (create file named after its newest input -- fixes/C12-1 --
      with the content the stack of inputs shows, write magic, publish = replace the inputs, then
      remove the inputs one by one), restart (mgr.indexes := complete files in name order; jobs
      gone); one import and one merge in flight at most, as in the code.  Every event is one atomic
      file step or one service-loop closure, so every prefix of a history is a crash point.

      For EVERY event history, stopped at ANY point: a restart shows every stream the running
      manager shows, under the same id, in that or a newer version ... *)
Theorem c12_streams_survive_every_crash_point :
  forall (es : list ev) (id v : N),
    mem_view (run_m true es) id = Some v ->
    exists w, restart_view (run_m true es) id = Some w /\ v <= w.
Proof. exact restart_shows_memory_or_newer_all. Qed.

(* ... namely the newest version that any complete index file holds. *)
Theorem c12_restart_shows_newest_version_on_disk :
  forall (es : list ev) (f : ifile N) (id v : N),
    In f (disk (run_m true es)) -> i_magic f = true -> lookup (i_streams f) id = Some v ->
    exists w, restart_view (run_m true es) id = Some w /\ v <= w.
Proof. exact restart_shows_newest_on_disk. Qed.

(* The invariant behind it (PersistIndexProofs.inv): the listing is strictly sorted by name; along the
   name order the versions of a stream never decrease among complete files; mgr.indexes is sorted by
   name and all its files are complete; the import's file is the newest name and holds newer versions;
   the merge output sits directly above its newest input and holds exactly what its inputs show; every
   complete unpublished file is covered by a published file above it. *)
Theorem c12_invariant_every_history : forall es, inv (run_m true es).
Proof. exact run_inv. Qed.

(* The ordering condition in isolation, for any state (patched or not): *)
Theorem c12_restart_shows_memory_or_newer_if_ordered :
  forall (st : mstate) (id v : N),
    mono (map i_streams (readable (disk st))) ->
    (forall n, In n (mem st) -> is_complete (disk st) n = true) ->
    mem_view st id = Some v ->
    exists w, restart_view st id = Some w /\ v <= w.
Proof. exact restart_shows_memory_or_newer. Qed.

(* 4. The unpatched naming of merged files (by creation time) violates that ordering: reproduced on
      the Go code before fixes/C12-1 (scenario merge-shadow of checks/c12.py). *)
Theorem c12_unpatched_merge_name_shadows_import_refuted :
  mem_view (run_m false shadow_history) 0 = Some 2 /\ restart_view (run_m false shadow_history) 0 = Some 1.
Proof. exact unpatched_restart_shows_old_version. Qed.

Example c12_ex_patched_merge_name :
  mem_view (run_m true shadow_history) 0 = Some 2 /\ restart_view (run_m true shadow_history) 0 = Some 2.
Proof. exact patched_restart_shows_new_version. Qed.

Example c12_ex_state_crash_inside_second_save :
  view nat (recover_state (run_ssteps [SCreate (1, 0) 1 7%nat; SClose (1, 0); SCreate (2, 0) 2 8%nat])) = Some (1, 7%nat).
Proof. vm_compute. reflexivity. Qed.
