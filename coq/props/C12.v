(* C12 -- state survives restart and a crash at any point (work in progress). *)
From Coq Require Import List NArith.
Require Import Pk.Persist Pk.PersistProofs.

Theorem c12_torn_index_files_ignored :
  forall (V : Type) (d : list (ifile V)) (id : N), recover_streams d id = recover_streams (readable d) id.
Proof. intros V. exact recover_ignores_torn. Qed.
