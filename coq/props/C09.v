(* C09 -- background work always settles.
   Model: theories/Tags.v; proofs: theories/TagsC09.v (pending work is covered by a job) and
   theories/TagsC09T.v (termination).  Proved for the repaired instance (= the Go code after 56f3838, d1a158c,
   94a00a7): from every state that satisfies the invariant Tinv, every schedule of job bodies and completions
   is finite and ends in a quiescent state; Tinv holds initially and is preserved by every job step AND by every
   API action (theories/TagsC09A.v), hence in every state reachable by an arbitrary history. *)
From Coq Require Import List NArith Bool.
From Pk Require Import Tags TagsC16 TagsC06 TagsC09 TagsC09T TagsC09A TagsC09M.
Import ListNotations.
Open Scope N_scope.

(* Every completion of a background job (import, tagging, converter, merge) that fires leaves a state in
   which pending tagging work, queued converter work and queued imports have a job in flight and no merge
   is eligible-but-unstarted -- for every choice p of the tagging job, for the repaired switch
   kf_mergeconv (the Go code after 56f3838), the other switches arbitrary. *)
Theorem C09_completion_covers_pending_work :
  forall k p j st, kf_mergeconv k = false -> fires j st -> Pinv st -> covered (step k p (AComplete j) st).
Proof. exact completion_covers. Qed.

(* `covered` is an invariant of the job-step subsystem (job bodies and completions, no API call), whatever
   the environment answers: once API calls stop, every schedule of the background jobs keeps it *)
Theorem C09_covered_under_every_schedule :
  forall k l st, kf_mergeconv k = false -> job_actions l -> covered st -> covered (run k l st).
Proof. exact covered_job_run. Qed.

(* at rest (no job in flight) every reachable state is quiescent: import queue empty, no tag eligible for
   re-evaluation, nothing queued for a converter, no eligible merge (corollary of the invariant of every reachable
   state, C09_invariant_in_every_reachable_state below in its theory form; the schedule form is
   C09_every_schedule_from_every_reachable_state_ends_quiescent) *)
Theorem C09_reachable_rest_is_quiescent :
  forall cs l, NoDup cs -> valid_history (init cs) l ->
  no_job (run repaired l (init cs)) -> quiescent (run repaired l (init cs)).
Proof.
  intros cs l ND V NJ. apply rest_quiescent; [|exact NJ].
  exact (proj1 (proj2 (proj1 (Tinv_split _) (Tinv_reachable cs l ND V)))).
Qed.

(* no tag eligible => no tag uncertain, on well-formed tag sets (sorted slots, references to smaller live
   names -- both part of the C06 invariant --, dead slots clean): with the previous theorem, at rest no
   stream is pending re-evaluation *)
Theorem C09_uncertain_implies_eligible :
  forall ts, sorted ts -> ranked ts -> dead_clean ts -> all_certain ts = false -> first_eligible ts <> None.
Proof. exact eligible_exists. Qed.

(* ---- termination (theories/TagsC09T.v).  jstep st st' : some job body or completion that is enabled in st fires
   (any choice of the tagging job, any well-formed importer response with processedFiles >= 1, any search result).
   mu : state -> list nat is the measure [import queue/phase; cache potential (uncached / doomed converter
   outputs); pending converted set; stale tagging job; masks non-empty; uncertain tags; tagging phase; converter
   queue/phase; index files/merge phase], compared lexicographically. *)
Theorem C09_measure_decreases :
  forall st st', Tinv st -> jstep st st' -> lexlt (mu st') (mu st).
Proof. exact jstep_decreases. Qed.

Theorem C09_invariant_preserved_by_job_steps :
  forall st st', Tinv st -> jstep st st' -> Tinv st'.
Proof. exact Tinv_jstep. Qed.

(* every schedule of job steps from a Tinv state is finite ... *)
Theorem C09_every_schedule_terminates :
  forall st, Tinv st -> Acc (fun b a => jstep a b) st.
Proof. exact jstep_terminates. Qed.

(* ... and where it stops nothing is in flight and nothing is pending: queue empty, no tag eligible and in fact
   no tag uncertain, nothing queued for a converter, no eligible merge *)
Theorem C09_schedules_end_quiescent :
  forall st st', Tinv st -> jsteps st st' -> (forall st'', ~ jstep st' st'') ->
  quiescent st' /\ all_certain (tags st') = true.
Proof. exact schedules_end_quiescent. Qed.

Theorem C09_initial_state_invariant : forall cs, NoDup cs -> Tinv (init cs).
Proof. exact Tinv_init. Qed.

(* ---- every reachable state (theories/TagsC09A.v).  A history is any list of actions (API calls with any
   arguments the API layer lets through -- api_ok: parsed definitions are well formed, mark definitions have no
   references and name existing streams -- job bodies with any well-formed importer response, completions, in
   any order, enabled or not). *)
Theorem C09_invariant_preserved_by_every_action :
  forall p a st, Tinv st -> valid st a -> Tinv (step repaired p a st).
Proof. exact Tinv_step. Qed.

Theorem C09_invariant_in_every_reachable_state :
  forall cs l, NoDup cs -> valid_history (init cs) l -> Tinv (run repaired l (init cs)).
Proof. exact Tinv_reachable. Qed.

(* the property: for every finite history of API calls (interleaved with any job steps) and every order of the
   remaining completions, the schedule is finite ... *)
Theorem C09_every_schedule_from_every_reachable_state_terminates :
  forall cs l, NoDup cs -> valid_history (init cs) l -> Acc (fun b a => jstep a b) (run repaired l (init cs)).
Proof. exact reachable_schedules_terminate. Qed.

(* ... and ends quiescent *)
Theorem C09_every_schedule_from_every_reachable_state_ends_quiescent :
  forall cs l st', NoDup cs -> valid_history (init cs) l ->
  jsteps (run repaired l (init cs)) st' -> (forall st'', ~ jstep st' st'') ->
  quiescent st' /\ all_certain (tags st') = true.
Proof. exact reachable_schedules_end_quiescent. Qed.

(* ---- error paths of the jobs (round 4).
   An import job that fails (unreadable capture: builder.FromPcap reports processedFiles with no index) still takes
   its files out of the queue and, when captures are queued behind it, the completion starts the next import job. *)
Theorem C09_failed_import_does_not_block_the_queue :
  forall k p st nf r, jimp st = Some (mkImp nf (Some r)) -> ir_idx r = [] ->
  let st' := step k p (AComplete JImport) st in
  queue st' = skipn (ir_proc r) (queue st) /\ (queue st' <> [] -> jimp st' <> None).
Proof.
  intros k p st nf r J E. simpl. rewrite J, E.
  assert (forall s, qframe s (start_merge (start_converter (start_tagging p s)))) as QF.
  { intros s. eapply qframe_trans; [apply start_tagging_q|]. eapply qframe_trans; [apply start_converter_q|].
    unfold start_merge. destruct (merge_eligible _); split; reflexivity. }
  match goal with |- context[start_merge (start_converter (start_tagging p ?s))] => destruct (QF s) as (Q1 & Q2) end.
  rewrite Q1, Q2. destruct (skipn (ir_proc r) (queue st)) eqn:SK; simpl; rewrite SK; simpl.
  - split; [reflexivity|intros H; exfalso; apply H; reflexivity].
  - split; [reflexivity|intros _; discriminate].
Qed.

(* witness: two captures queued, the first is unreadable: the second is taken by the next job *)
Example C09_failed_import_witness :
  let st := run repaired [(0, AImport [1; 2]); (0, ABodyImport (mkIresp 1 0 0 0 0 [])); (0, AComplete JImport)] (init [0]) in
  queue st = [2] /\ jimp st = Some (mkImp 1 None).
Proof. vm_compute. split; reflexivity. Qed.

(* A tagging job whose evaluation fails (a data filter on a converter that does not exist: the search returns an error
   and updateTagJob clears Matches and Uncertain) = a job whose evaluation matches nothing: the tag is decided, the
   other work goes on.  Witness: stream 0 imported, tag 5 with a data definition added, its job evaluates to nothing and
   completes: no job left, every tag certain, quiescent.  (Every schedule terminates: C09_every_schedule_..., which
   holds because the completion stores the job's result with Uncertain reduced to what changed during the job.) *)
Example C09_failed_tag_evaluation_settles :
  let st := run repaired [(0, AImport [0]); (0, ABodyImport (mkIresp 1 0 0 1 1 [1])); (0, AComplete JImport);
                          (0, AAddTag 5 (mkDef 1 false false true true [] [] false) 0);
                          (5, ABodyTag []); (5, AComplete JTag)] (init [0]) in
  jtag st = None /\ all_certain (tags st) = true /\ queue st = [] /\ jimp st = None.
Proof. vm_compute. repeat split; reflexivity. Qed.

(* Failing merges (theories/TagsC09M.v; the manager model itself merges successfully, a failing merge is exercised by the
   harness with the direct oracles): the completion of a failed merge increments nUnmergeableIndexes and a merge only starts
   at or behind that prefix with at least two indexes, so every failure strictly decreases `length idx - unmergeable`: at
   most length idx - 1 merges fail in a row. *)
Theorem C09_failed_merge_decreases_the_measure :
  forall unm idx off, merge_start unm idx = Some off ->
  (unm <= off)%nat /\ (off + 2 <= length idx)%nat /\ (length idx - S unm < length idx - unm)%nat.
Proof.
  intros unm idx off H. destruct (merge_start_bounds _ _ _ H) as (A & B).
  split; [exact A|split; [exact B|exact (failed_merge_decreases _ _ _ H)]].
Qed.

Theorem C09_no_merge_behind_the_end :
  forall unm idx, (length idx <= unm + 1)%nat -> merge_start unm idx = None.
Proof. exact nothing_to_merge_behind_the_end. Qed.

(* seeded change C09-r7a-n1: unmergeable := max(unmergeable, offset) leaves the state as it is when the failing run starts at
   the prefix: the same merge is eligible again *)
Theorem C09_max_rule_restarts_forever_refuted :
  let idx := [1; 1; 1] in
  merge_start 0 idx = Some 0%nat /\ Nat.max 0 0 = 0%nat /\ merge_start (Nat.max 0 0) idx = Some 0%nat.
Proof. exact max_rule_refuted. Qed.

(* The unrepaired code (56f3838; corpus/C09/merge-not-restarted-after-convert.json): at rest with an eligible
   merge that nothing will start *)
Theorem C09_merge_not_restarted_refuted :
  rest_with_eligible_merge (run faithful w_merge (init [0])) = true.
Proof. vm_compute. reflexivity. Qed.

Example C09_witness_repaired : rest_with_eligible_merge (run repaired w_merge (init [0])) = false.
Proof. vm_compute. reflexivity. Qed.

(* non-vacuity: the initial state is covered; the witness consists of... API calls and job steps *)
Example C09_init_covered : covered (init [0]).
Proof. vm_compute. repeat split; try discriminate; intros; try discriminate; congruence. Qed.
