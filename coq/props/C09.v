(* C09 -- background work always settles.
   Model: theories/Tags.v; proofs: theories/TagsC09.v (pending work is covered by a job) and
   theories/TagsC09T.v (termination).  Proved for the repaired instance (= the Go code after 56f3838, d1a158c,
   94a00a7): from every state that satisfies the invariant Tinv, every schedule of job bodies and completions
   is finite and ends in a quiescent state.  What remains: Tinv is shown for the initial state and preserved by
   every job step, but its preservation by the API calls themselves is not proved (see notes/C09.md). *)
From Coq Require Import List NArith Bool.
From Pk Require Import Tags TagsC16 TagsC06 TagsC09 TagsC09T.
Import ListNotations.
Open Scope N_scope.

(* Every completion of a background job (import, tagging, converter, merge) that fires leaves a state in
   which pending tagging work, queued converter work and queued imports have a job in flight and no merge
   is eligible-but-unstarted -- for every choice p of the tagging job, for the repaired switch
   kf_mergeconv (the Go code after 56f3838), the other switches arbitrary. *)
Theorem C09_completion_covers_pending_work :
  forall k p j st, kf_mergeconv k = false -> fires j st -> Pinv st -> covered (step k p (AComplete j) st).
Proof. exact completion_covers. Qed.

(* `covered` is an invariant of the job-step subsystem (job bodies and completions, no API call), whatever
   the environment answers: once API calls stop, every schedule of the background jobs keeps it *)
Theorem C09_covered_under_every_schedule :
  forall k l st, kf_mergeconv k = false -> job_actions l -> covered st -> covered (run k l st).
Proof. exact covered_job_run. Qed.

(* at rest (no job in flight) a covered state is quiescent: import queue empty, no tag eligible for
   re-evaluation, nothing queued for a converter, no eligible merge *)
Theorem C09_rest_is_quiescent_partial :
  forall k l st, kf_mergeconv k = false -> job_actions l -> covered st ->
  no_job (run k l st) -> quiescent (run k l st).
Proof. intros k l st K Hl H NJ. apply rest_quiescent; [apply covered_job_run; assumption|exact NJ]. Qed.
(* partial: (1) `covered st` is assumed for the state in which the API calls stop (it is a post-condition of
   every completion and of the start*JobIfNeeded calls, its preservation by the API calls is not proved);
   (2) superseded by C09_every_schedule_terminates / C09_schedules_end_quiescent below, which need Tinv instead. *)

(* no tag eligible => no tag uncertain, on well-formed tag sets (sorted slots, references to smaller live
   names -- both part of the C06 invariant --, dead slots clean): with the previous theorem, at rest no
   stream is pending re-evaluation *)
Theorem C09_uncertain_implies_eligible :
  forall ts, sorted ts -> ranked ts -> dead_clean ts -> all_certain ts = false -> first_eligible ts <> None.
Proof. exact eligible_exists. Qed.

(* ---- termination (theories/TagsC09T.v).  jstep st st' : some job body or completion that is enabled in st fires
   (any choice of the tagging job, any well-formed importer response with processedFiles >= 1, any search result).
   mu : state -> list nat is the measure [import queue/phase; cache potential (uncached / doomed converter
   outputs); pending converted set; stale tagging job; masks non-empty; uncertain tags; tagging phase; converter
   queue/phase; index files/merge phase], compared lexicographically. *)
Theorem C09_measure_decreases :
  forall st st', Tinv st -> jstep st st' -> lexlt (mu st') (mu st).
Proof. exact jstep_decreases. Qed.

Theorem C09_invariant_preserved_by_job_steps :
  forall st st', Tinv st -> jstep st st' -> Tinv st'.
Proof. exact Tinv_jstep. Qed.

(* every schedule of job steps from a Tinv state is finite ... *)
Theorem C09_every_schedule_terminates :
  forall st, Tinv st -> Acc (fun b a => jstep a b) st.
Proof. exact jstep_terminates. Qed.

(* ... and where it stops nothing is in flight and nothing is pending: queue empty, no tag eligible and in fact
   no tag uncertain, nothing queued for a converter, no eligible merge *)
Theorem C09_schedules_end_quiescent :
  forall st st', Tinv st -> jsteps st st' -> (forall st'', ~ jstep st' st'') ->
  quiescent st' /\ all_certain (tags st') = true.
Proof. exact schedules_end_quiescent. Qed.

Theorem C09_initial_state_invariant : forall cs, NoDup cs -> Tinv (init cs).
Proof. exact Tinv_init. Qed.

(* The unrepaired code (56f3838; corpus/C09/merge-not-restarted-after-convert.json): at rest with an eligible
   merge that nothing will start *)
Theorem C09_merge_not_restarted_refuted :
  rest_with_eligible_merge (run faithful w_merge (init [0])) = true.
Proof. vm_compute. reflexivity. Qed.

Example C09_witness_repaired : rest_with_eligible_merge (run repaired w_merge (init [0])) = false.
Proof. vm_compute. reflexivity. Qed.

(* non-vacuity: the initial state is covered; the witness consists of... API calls and job steps *)
Example C09_init_covered : covered (init [0]).
Proof. vm_compute. repeat split; try discriminate; intros; try discriminate; congruence. Qed.
