(* C01 -- index files return every stored stream exactly as written.
   Model: Pk.IndexFormat (writer.go / reader.go / format.go with the four C01 fix patches).
   Only statements here; proofs in Pk.IndexFormatCodec (byte image), Pk.IndexFormatHosts (host tables),
   Pk.IndexFormatWriter (writer invariant over every AddStream sequence, NewReader, StreamByID).

   Reading guide.  [add_streams gcap new_writer L = Some w] : the AddStream calls for the list L of
   (id, stream) succeeded (the code refuses only beyond 2^32 streams/packets/imports or 2^16 host groups).
   [new_reader (finalize w) = Some r] : NewReader on the sections Finalize produced;  theorem 4 says
   that going through the byte image changes nothing ([finalize_reader]). *)
From Coq Require Import NArith List Lia.
Require Import Pk.IndexFormat Pk.IndexFormatCodec Pk.IndexFormatHosts Pk.IndexFormatWriter Pk.IndexFormatData Pk.IndexFormatPackets Pk.IndexFormatLookup Pk.IndexFormatScan Pk.IndexFormatAccepts Pk.IndexFormatTimes Pk.IndexFormatChunks Pk.IndexFormatFits Pk.IndexFormatPop Pk.IndexFormatRefuted.
Import ListNotations.
Open Scope N_scope.

(* ---------------- 0. which inputs AddStream takes ---------------- *)
(* accepts_stream gcap s (decidable): at least one packet, the first packet has a pcap source, both addresses of the
   same length, and that length below the group capacity (the code: 4 or 16 < 65535).  The model's add_stream is
   None exactly where the Go code cannot continue: empty s.Packets (index out of range), no packet with a source
   (the has-next flag of the PREVIOUS stream's last record would be cleared), no host group for the two addresses
   (the code appends groups until 2^16 and refuses).  The refusals at 2^32 streams / packets / imports are the
   explicit bounds lenN (w_packets w) < 2^32 etc. of the theorems below. *)
Theorem C01_accepted_input_is_written : forall gcap L w,
  accepts_input gcap L = true -> exists w', add_streams gcap w L = Some w'.
Proof. exact add_streams_accepts. Qed.

Theorem C01_written_stream_had_packets_and_a_source : forall gcap w id s w',
  add_stream gcap w (id, s) = Some w' -> s_packets s <> [] /\ exists p, In p (s_packets s) /\ p_srcs p <> [].
Proof. exact add_stream_some_inv. Qed.

(* ---------------- 4. the byte image ---------------- *)
(* fits_file f: every record field is below its width (uint8/16/32/64) and the file is shorter than 2^64 *)
Theorem C01_decode_encode_file : forall f, fits_file f -> decode_file (encode_file f) = Some f.
Proof. exact decode_encode_file. Qed.

Theorem C01_finalize_through_bytes : forall w, fits_file (finalize w) -> finalize_reader w = new_reader (finalize w).
Proof. intros w H. unfold finalize_reader. now rewrite (decode_encode_file _ H). Qed.

(* fits_file of a written file from explicit bounds: the limits of the format at which the Go code refuses
   (2^32 imports / streams, 2^16 host groups) and sizes below 2^64; input ids < 2^64, ports < 2^16, packet indexes < 2^64 *)
Theorem C01_written_file_fits : forall gcap L w,
  16 < gcap <= 4 * P16 ->
  Forall (fun ids => wf_meta (snd ids)) L -> Forall (fun ids => fst ids < P64 /\ input_ok (snd ids)) L ->
  add_streams gcap new_writer L = Some w ->
  lenN (w_imports w) <= P32 -> lenN (w_streams w) <= P32 -> lenN (w_groups w) <= P16 -> w_ref w < P64 ->
  lenN (w_data w) < P64 -> lenN (f_names (finalize w)) < P64 -> lenN (encode_file (finalize w)) < P64 ->
  fits_file (finalize w).
Proof. exact finalize_fits. Qed.

(* ---------------- 5. host tables, for every group capacity ---------------- *)
(* group_ok gcap g: not empty, no duplicates, all hosts of the group's size, size * (count-1) < gcap *)
Theorem C01_host_placement : forall gcap c s gs gs' k ci si,
  0 < gcap -> Forall (group_ok gcap) gs ->
  place_hosts gcap gs 0 c s = Some (gs', k, ci, si) ->
  Forall (group_ok gcap) gs' /\ groups_extend gs gs' /\ host_at gs' k ci = Some c /\ host_at gs' k si = Some s.
Proof. exact place_hosts_host_at. Qed.

(* the undo path of the host-group loop (writer.go: the client was pushed, the server does not fit -> `if added { g.pop() }`).
   hg_pop drops the last host of a group; place_hosts_pop / add_streams_pop are AddStream with that explicit pop - the
   writer the extracted model runs.  A pop takes back exactly the host this call pushed (never a host of another stream),
   so the writer with pops IS the writer of all theorems, for every input list: *)
Theorem C01_pop_undoes_only_its_own_add : forall gcap g h i g1,
  hg_hosts g <> [] -> hg_add gcap g h = Some (i, true, g1) -> hg_pop g1 = g.
Proof. exact pop_undoes_add. Qed.

Theorem C01_writer_with_pops_is_the_writer : forall gcap L, add_streams_pop gcap new_writer L = add_streams gcap new_writer L.
Proof. exact add_streams_pop_new. Qed.

(* the host tables hold exactly the addresses of the streams written: nothing is lost by an undo, nothing else appears *)
Theorem C01_host_tables_exact : forall gcap L w,
  16 < gcap -> Forall (fun ids => wf_meta (snd ids)) L -> add_streams gcap new_writer L = Some w ->
  forall x, In x (table_hosts (w_groups w)) <-> In x (addresses L).
Proof. exact host_tables_exact. Qed.

(* the (Start, Count, Flags) entries and the two host sections decode to the writer's tables *)
Theorem C01_host_sections_decode : forall gcap w,
  gcap <= 4 * P16 ->
  Forall (group_ok gcap) (w_groups w) -> Forall size_ok (w_groups w) ->
  total_hosts 4 (w_groups w) < P32 -> total_hosts 16 (w_groups w) < P32 ->
  map (decode_group false (f_v4 (finalize w)) (f_v6 (finalize w))) (f_groups (finalize w))
  = map (fun g => (hg_size g, hg_hosts g)) (w_groups w).
Proof. exact reader_groups_of_writer. Qed.

(* ---------------- 1. lookups by id and metadata ---------------- *)
(* wf_meta s: both addresses 4 or both 16 bytes, first timestamp <= last timestamp < 2^64 ns.
   meta_matches r rec id s: id, client/server address, ports, protocol, first/last packet time (absolute ns),
   byte counts per direction of the read-back record equal those of the input stream. *)
Theorem C01_stream_by_id_finds_stored : forall gcap L w r,
  16 < gcap <= 4 * P16 ->
  Forall (fun ids => wf_meta (snd ids)) L -> NoDup (ids_of L) ->
  add_streams gcap new_writer L = Some w ->
  total_hosts 4 (w_groups w) < P32 /\ total_hosts 16 (w_groups w) < P32 ->
  new_reader (finalize w) = Some r ->
  forall k id s, nth_error L k = Some (id, s) ->
  exists rec, stream_by_id r id = Some (rec, N.of_nat k) /\ nth_error (all_streams r) k = Some rec /\ meta_matches r rec id s.
Proof. exact stream_by_id_stored. Qed.

Theorem C01_stream_by_id_nothing_else : forall gcap L w r,
  16 < gcap <= 4 * P16 ->
  Forall (fun ids => wf_meta (snd ids)) L ->
  add_streams gcap new_writer L = Some w ->
  total_hosts 4 (w_groups w) < P32 /\ total_hosts 16 (w_groups w) < P32 ->
  new_reader (finalize w) = Some r ->
  forall id, ~ In id (ids_of L) -> stream_by_id r id = None.
Proof. exact stream_by_id_other. Qed.

Theorem C01_all_streams_enumerate : forall gcap L w r,
  16 < gcap <= 4 * P16 ->
  Forall (fun ids => wf_meta (snd ids)) L ->
  add_streams gcap new_writer L = Some w ->
  total_hosts 4 (w_groups w) < P32 /\ total_hosts 16 (w_groups w) < P32 ->
  new_reader (finalize w) = Some r ->
  map st_id (all_streams r) = ids_of L /\ (forall id, In id (ids_of L) -> r_min r <= id <= r_max r).
Proof. intros gcap L w r H1 H2 H3 H4 H5. split; [exact (all_streams_ids gcap L w r H1 H2 H3 H4 H5)|exact (min_max_ids gcap L w r H1 H2 H3 H4 H5)]. Qed.

(* ---------------- 1b. lookups by the source of the first packet ---------------- *)
(* first_src s: the source (capture name, packet index) of the first packet record of s (AllFromPacketMetadata
   order).  Hypotheses: every stream has one, they are pairwise distinct, names without NUL, < 2^32 packet records.
   The by-source section is the merge-sorted list of stream numbers; the reader runs sort.Search (bsearch) with the
   predicate of reader.go:379-388 and compares the hit. *)
Theorem C01_stream_by_first_packet_source_finds_stored : forall gcap L w r,
  16 < gcap <= 4 * P16 ->
  Forall (fun ids => wf_meta (snd ids)) L -> Forall (fun ids => names_ok (snd ids)) L ->
  Forall (fun ids => first_src (snd ids) <> None) L -> NoDup (map (fun ids => first_src_or (snd ids)) L) ->
  add_streams gcap new_writer L = Some w -> new_reader (finalize w) = Some r -> lenN (w_packets w) < P32 ->
  forall k id s s0, nth_error L k = Some (id, s) -> first_src s = Some s0 ->
  exists rec, stream_by_source r (fst s0) (snd s0) = Some (rec, N.of_nat k) /\ nth_error (all_streams r) k = Some rec.
Proof. exact stream_by_source_stored. Qed.

Theorem C01_stream_by_first_packet_source_nothing_else : forall gcap L w r,
  16 < gcap <= 4 * P16 ->
  Forall (fun ids => wf_meta (snd ids)) L -> Forall (fun ids => names_ok (snd ids)) L ->
  Forall (fun ids => first_src (snd ids) <> None) L ->
  add_streams gcap new_writer L = Some w -> new_reader (finalize w) = Some r -> lenN (w_packets w) < P32 ->
  forall name idx, (forall ids, In ids L -> first_src (snd ids) <> Some (name, idx)) -> stream_by_source r name idx = None.
Proof. exact stream_by_source_other. Qed.

(* ---------------- 2. source-packet references ---------------- *)
(* wf_packets s: at least one packet, every packet has a source, no source is directly repeated, timestamps in
   whole microseconds after the first packet do not decrease and consecutive gaps are below 2^32 us (streams of ANY
   duration: the uint32 offset may wrap any number of times).  names_ok s: capture names contain no NUL byte.
   expect_packets t0 ps: for every packet and every one of its sources (AllFromPacketMetadata order) the capture
   name, the full 64-bit packet index, the direction, and the timestamp t0 + floor((ts - t0) / 1us) * 1us. *)
Theorem C01_packets_of_stored_stream : forall gcap L w r,
  16 < gcap <= 4 * P16 ->
  Forall (fun ids => wf_meta (snd ids)) L -> Forall (fun ids => names_ok (snd ids)) L ->
  add_streams gcap new_writer L = Some w ->
  new_reader (finalize w) = Some r ->
  lenN (w_packets w) < P32 ->
  forall k id s rec, nth_error L k = Some (id, s) -> wf_packets s -> nth_error (all_streams r) k = Some rec ->
  packets r rec = Some (expect_packets (first_ts s) (s_packets s)).
Proof.
  intros gcap L w r H1 H2 H3 H4 H5 H6.
  exact (packets_stored gcap L w r H1 H2 H4 H5 (add_streams_names gcap L new_writer w (Forall_nil _) H3 H4) H6).
Qed.

(* ---------------- 3. payload per direction and direction runs ---------------- *)
(* the segmentation varint: every size below 2^64 is read back, whatever follows *)
Theorem C01_varint_roundtrip : forall sz rest, sz < P64 -> read_varint (varint sz ++ rest) 0 = Some (sz, rest).
Proof. exact read_varint_varint. Qed.

(* Stream.Data() of a stored stream, for EVERY list of streams: the chunks' bytes concatenated per direction are the
   stored payload of that direction, and the chunk directions change exactly where the non-empty stored data
   changes direction (compress drops repeats; nz_dirs (data_runs ..) = directions of the non-empty maximal runs).
   Covers: 64 KiB split records, SkipPacketsForData as written by AddStream (0..254, 255 = "255+"; proved sound:
   the records jumped over carry no data and are never the last), skipping switched off while time wraps are
   expected, the 50 ms group merge (any grouping), the segmentation varints incl. zero-length runs.
   wf_data s: data items name existing packets in strictly increasing packet order (one item per packet), every
   packet has a source.  Not stated: the Time field of the chunks (compared on every correspondence run). *)
Theorem C01_data_of_stored_stream : forall gcap L w r,
  16 < gcap <= 4 * P16 ->
  Forall (fun ids => wf_meta (snd ids)) L ->
  add_streams gcap new_writer L = Some w -> new_reader (finalize w) = Some r -> lenN (w_packets w) < P32 ->
  forall k id s rec, nth_error L k = Some (id, s) -> s_packets s <> [] -> wf_data s ->
    lenN (stream_payload s false) + lenN (stream_payload s true) < P64 ->
    nth_error (all_streams r) k = Some rec ->
    exists cks, data r rec = Some cks /\
                payload_dir false cks = stream_payload s false /\ payload_dir true cks = stream_payload s true /\
                compress (map c_dir cks) = compress (nz_dirs (data_runs (s_packets s) (s_data s))).
Proof. exact data_stored. Qed.

(* ---- the complete Data(), Time field included ----
   groups_of s: computed from the INPUT packets alone: per direction the list of (time, bytes) of the 50 ms merge
   groups; a data packet joins the newest group of its direction iff the previous data packet has the same direction
   and is less than 50 ms older (microsecond-truncated times), else it opens a group whose time is its own.
   data_spec s: the stored segmentation replayed over these groups and the stored payload.
   Proved for streams of any duration: expectWraps / lastRelPacketTimeMS bookkeeping, skipping only after the last
   wrap, 64 KiB split records and extra sources merged into their packet. *)
Theorem C01_data_is_replay_over_input_groups : forall gcap L w r,
  16 < gcap <= 4 * P16 ->
  Forall (fun ids => wf_meta (snd ids)) L ->
  add_streams gcap new_writer L = Some w -> new_reader (finalize w) = Some r -> lenN (w_packets w) < P32 ->
  forall k id s rec, nth_error L k = Some (id, s) -> wf_packets s -> wf_data s ->
    lenN (stream_payload s false) + lenN (stream_payload s true) < P64 ->
    nth_error (all_streams r) k = Some rec -> data r rec = data_spec s.
Proof. exact data_is_spec. Qed.

(* WHICH packet's time a chunk carries, and the order of chunk times.
   Pstart s d t : s_packets s = pre ++ q :: post where q carries data (packet_size <> 0), has direction d and
   microsecond-truncated time t, and q OPENS a merge group: the last data packet before it (last_data .. pre) does not
   exist, or has the other direction, or is at least 50 ms older.  Since a chunk takes the time of the group its bytes
   are cut from (emit), this is the first data packet of the chunk's 50 ms merge group in its direction.
   nondec 0 (times_of d cks): the chunk times of direction d do not decrease along Data(). *)
Theorem C01_data_chunk_times : forall gcap L w r,
  16 < gcap <= 4 * P16 ->
  Forall (fun ids => wf_meta (snd ids)) L ->
  add_streams gcap new_writer L = Some w -> new_reader (finalize w) = Some r -> lenN (w_packets w) < P32 ->
  forall k id s rec cks, nth_error L k = Some (id, s) -> wf_packets s -> wf_data s ->
    lenN (stream_payload s false) + lenN (stream_payload s true) < P64 ->
    nth_error (all_streams r) k = Some rec -> data r rec = Some cks ->
    Forall (fun c => Pstart s (c_dir c) (c_ts c)) cks /\ nondec 0 (times_of false cks) /\ nondec 0 (times_of true cks).
Proof. exact data_chunk_times_stored. Qed.

(* the groups themselves: every group of direction d starts at a group-opening data packet of direction d, group times
   do not decrease *)
Theorem C01_input_groups : forall s, wf_packets s ->
  Forall (fun tz => Pstart s false (fst tz)) (fst (groups_of s)) /\ Forall (fun tz => Pstart s true (fst tz)) (snd (groups_of s)) /\
  nondec 0 (map fst (fst (groups_of s))) /\ nondec 0 (map fst (snd (groups_of s))).
Proof. exact groups_of_spec. Qed.

(* weaker, kept: every chunk time is the time of a data-carrying packet of its direction *)
Theorem C01_data_chunk_times_carrying_packet : forall gcap L w r,
  16 < gcap <= 4 * P16 ->
  Forall (fun ids => wf_meta (snd ids)) L ->
  add_streams gcap new_writer L = Some w -> new_reader (finalize w) = Some r -> lenN (w_packets w) < P32 ->
  forall k id s rec cks, nth_error L k = Some (id, s) -> wf_packets s -> wf_data s ->
    nth_error (all_streams r) k = Some rec -> data r rec = Some cks ->
    Forall (fun c => exists q, In q (s_packets s) /\ p_dir q = c_dir c /\ carries s q /\
                               c_ts c = first_ts s + ((p_ts q - first_ts s) / 1000) * 1000) cks.
Proof. exact data_chunk_times. Qed.

(* component: the first loop of Data() with sound skip counters collects exactly the data sizes per direction *)
Theorem C01_data_scan_totals : forall fuel ps expect reft lastrel prev ptc pts,
  sound ps -> (length ps < fuel)%nat -> pos_sizes ptc -> pos_sizes pts ->
  exists ptc' pts', data_scan fuel ps expect reft lastrel prev ptc pts = Some (ptc', pts') /\
                    total ptc' = total ptc + dsum false ps /\ total pts' = total pts + dsum true ps /\
                    pos_sizes ptc' /\ pos_sizes pts'.
Proof. exact data_scan_totals. Qed.

(* component: the skip counters AddStream writes are sound, for every record list *)
Theorem C01_written_skip_counters_sound : forall later R, R <> [] -> Forall flags_ok R ->
  sound (blockify R later) /\ forall d, dsum d (blockify R later) = rsum d R.
Proof. exact blockify_sound. Qed.

(* ---------------- the reader before fix afb9f18, on the model ---------------- *)
(* [new_reader_gen true] uses hostGroupEntry.Start as a byte offset. Capacity 20 (5 IPv4 hosts per group),
   4 streams with hosts 10.0.0.1 .. 10.0.0.8: stream 4 was written with client 10.0.0.7 and reads back 10.0.0.4.
   Reproduced on the Go code before the fix with 16390 streams (corpus regime big_v4_cs / big_v6_cs). *)
Theorem C01_prefix_reader_start_as_bytes_refuted :
  rf_client true 4 = Some [10; 0; 0; 4] /\ rf_client false 4 = Some [10; 0; 0; 7].
Proof. exact (conj rf_unpatched rf_patched). Qed.
