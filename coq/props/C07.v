(* C07 -- merging index files is invisible.
   Model: Pk.Merge (Writer.AddIndex, index.Merge) on the C01 file model Pk.IndexFormat.
   Only statements here; proofs in Pk.MergeProofs (re-basing mod 2^64, host-group merge) and
   Pk.MergeVisible (AddIndex invariant, newest-first fold, visible).

   Reading guide.
   visible rs id      : what a stack of index files (oldest first) shows for a stream id: the observation
                        (C01: observe) of the newest file that holds it.
   ometa o            : the metadata part of an observation: id, client/server address, ports, protocol,
                        ABSOLUTE first/last packet time, byte counts per direction.
   rgood gcap r       : r is a well-formed reader: proper host tables, distinct ids, StreamByID finds exactly
                        the stored records, host references and times in range.  Files written by AddStream
                        calls are rgood (C07_written_files_are_good) and so is every merge result
                        (first half of C07_merge_shows_newest): the statement is closed under repetition.
   merge_writer gcap rs = Some w, new_reader (finalize w) = Some m : index.Merge(rs) produced the file m.
   The two total_hosts bounds: fewer than 2^32 hosts per address family in the merged file. *)
From Coq Require Import NArith List Lia.
Require Import Pk.IndexFormat Pk.IndexFormatCodec Pk.IndexFormatHosts Pk.IndexFormatWriter Pk.IndexFormatData Pk.IndexFormatPackets Pk.IndexFormatScan Pk.Merge Pk.MergeProofs Pk.MergeVisible Pk.MergeCopy Pk.MergeFull.
Import ListNotations.
Open Scope N_scope.

(* the uint64 re-basing of AddIndex (subtraction may wrap, added back) keeps absolute times *)
Theorem C07_rebase_keeps_absolute_time : forall ref nref f,
  nref * NS <= ref * NS + f -> ref * NS + f < P64 ->
  nref * NS + u64 (f + u64 (u64 (ref + P64 - nref) * NS)) = ref * NS + f.
Proof. exact rebase_abs. Qed.

(* one AddIndex call: old records keep their metadata, records of ids the writer does not hold yet are
   copied with the metadata they have in the merged reader, nothing else appears *)
Theorem C07_add_index : forall gcap, 0 < gcap <= 4 * P16 -> forall w r w',
  wgood gcap w -> rgood gcap r -> add_index gcap w r = Some w' ->
  wgood gcap w' /\
  (forall rec, In rec (w_streams w) -> exists rec', In rec' (w_streams w') /\ wmeta w' rec' = wmeta w rec) /\
  (forall s, In s (f_streams (r_file r)) -> ~ In (st_id s) (map st_id (w_streams w)) ->
             exists rec', In rec' (w_streams w') /\ wmeta w' rec' = rmeta r s) /\
  (forall id, In id (map st_id (w_streams w')) <-> In id (map st_id (w_streams w)) \/ In id (map st_id (f_streams (r_file r)))).
Proof. exact add_index_good. Qed.

(* Merge(rs) is a good file and shows, for every id, what the newest of rs shows *)
Theorem C07_merge_shows_newest : forall gcap, 0 < gcap <= 4 * P16 -> forall rs w m,
  Forall (rgood gcap) rs -> merge_writer gcap rs = Some w ->
  total_hosts 4 (w_groups w) < P32 /\ total_hosts 16 (w_groups w) < P32 ->
  new_reader (finalize w) = Some m ->
  rgood gcap m /\ forall id, option_map ometa (visible [m] id) = option_map ometa (visible rs id).
Proof. exact merge_visible_meta. Qed.

(* metadata level, under the weaker file invariant rgood *)
Theorem C07_merge_invisible_metadata : forall gcap, 0 < gcap <= 4 * P16 -> forall pre rs w m,
  Forall (rgood gcap) rs -> merge_writer gcap rs = Some w ->
  total_hosts 4 (w_groups w) < P32 /\ total_hosts 16 (w_groups w) < P32 ->
  new_reader (finalize w) = Some m ->
  forall id, option_map ometa (visible (pre ++ [m]) id) = option_map ometa (visible (pre ++ rs) id).
Proof. exact merge_invisible_meta. Qed.

(* ---------------- the full statement: everything a stream shows ---------------- *)
(* rholds r rec s : the file r carries, at the offsets of record rec, exactly the packet block AddStream writes for
   the input stream s (relative to r's import table) and s's payload block (payload c2s, payload s2c, segmentation
   varints of a prefix of the direction runs whose dropped tail is empty - AddIndex stops copying the segmentation
   once the byte count is used up), and rec's byte counts and absolute first/last time are those of s.
   wf_stream s : the C01 input hypotheses (>= 1 packet, wf_packets, wf_data, names without NUL, payload < 2^64).
   rgood2 gcap r : rgood + import names without NUL + every record of r holds some well-formed input stream.
   Packets() and Data() of a record that holds s are functions of s alone (C07_packets_of_held_stream,
   C07_data_of_held_stream): Data() does not read beyond the stream's own records and segmentation. *)
Theorem C07_packets_of_held_stream : forall r rec s,
  rholds r rec s -> packets r rec = Some (expect_packets (first_ts s) (s_packets s)).
Proof. exact holds_packets. Qed.

Theorem C07_data_of_held_stream : forall r rec s, rholds r rec s -> data r rec = data_canon s.
Proof. exact holds_data. Qed.

(* one AddIndex call keeps what old records hold and makes every copied record hold what its source holds *)
Theorem C07_add_index_full : forall gcap, 0 < gcap <= 4 * P16 -> forall w r w',
  wgood2 gcap w -> rgood2 gcap r -> add_index gcap w r = Some w' -> lenN (w_packets w') < P32 ->
  wgood2 gcap w' /\
  (forall rec s, In rec (w_streams w) -> wholds w rec s ->
                 exists rec', In rec' (w_streams w') /\ wmeta w' rec' = wmeta w rec /\ wholds w' rec' s) /\
  (forall srec s, In srec (f_streams (r_file r)) -> ~ In (st_id srec) (map st_id (w_streams w)) -> rholds r srec s ->
                  exists rec', In rec' (w_streams w') /\ wmeta w' rec' = rmeta r srec /\ wholds w' rec' s).
Proof. exact add_index_full. Qed.

(* Merge(rs) is again a good file and shows for every id EXACTLY the observation of the newest version:
   metadata, Packets() and Data() (chunks with directions, bytes and times) *)
Theorem C07_merge_shows_newest_full : forall gcap, 0 < gcap <= 4 * P16 -> forall rs w m,
  Forall (rgood2 gcap) rs -> merge_writer gcap rs = Some w ->
  total_hosts 4 (w_groups w) < P32 /\ total_hosts 16 (w_groups w) < P32 -> lenN (w_packets w) < P32 ->
  new_reader (finalize w) = Some m ->
  rgood2 gcap m /\ forall id, visible [m] id = visible rs id.
Proof. exact merge_visible_full. Qed.

(* THE PROPERTY: replacing any suffix of the stack by its merge changes nothing that is visible; closed under
   repetition because the merge result is rgood2 again (above) and written files are rgood2 (below) *)
Theorem C07_merge_invisible : forall gcap, 0 < gcap <= 4 * P16 -> forall pre rs w m,
  Forall (rgood2 gcap) rs -> merge_writer gcap rs = Some w ->
  total_hosts 4 (w_groups w) < P32 /\ total_hosts 16 (w_groups w) < P32 -> lenN (w_packets w) < P32 ->
  new_reader (finalize w) = Some m ->
  forall id, visible (pre ++ [m]) id = visible (pre ++ rs) id.
Proof. exact merge_invisible_full. Qed.

Theorem C07_written_files_hold_their_streams : forall gcap, 0 < gcap <= 4 * P16 -> forall L w r,
  16 < gcap -> Forall (fun ids => wf_meta (snd ids)) L -> Forall (fun ids => wf_stream (snd ids)) L -> NoDup (ids_of L) ->
  add_streams gcap new_writer L = Some w ->
  total_hosts 4 (w_groups w) < P32 /\ total_hosts 16 (w_groups w) < P32 -> lenN (w_packets w) < P32 ->
  new_reader (finalize w) = Some r -> rgood2 gcap r.
Proof. exact written_reader_good2. Qed.

(* base case of the repetition for the metadata statement: files produced by AddStream calls are good *)
Theorem C07_written_files_are_good : forall gcap, 0 < gcap <= 4 * P16 -> forall L w r,
  16 < gcap -> Forall (fun ids => wf_meta (snd ids)) L -> NoDup (ids_of L) ->
  add_streams gcap new_writer L = Some w ->
  total_hosts 4 (w_groups w) < P32 /\ total_hosts 16 (w_groups w) < P32 ->
  new_reader (finalize w) = Some r -> rgood gcap r.
Proof. exact written_reader_good. Qed.

(* through the byte image (C01 theorem 4) *)
Theorem C07_merge_files_is_merge_writer : forall gcap rs w,
  merge_writer gcap rs = Some w -> fits_file (finalize w) -> merge_files gcap rs = new_reader (finalize w).
Proof. intros gcap rs w H F. unfold merge_files, finalize_reader. now rewrite H, (decode_encode_file _ F). Qed.
