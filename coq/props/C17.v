(* C17 -- Bitmask containers behave like sets of integers.
   Only statements; every proof is `exact` of a lemma from theories/Bitmask*.v.
   Model: theories/Bitmask.v (ConnectedBitmask = run list, Short/LongBitmask = word lists),
   histories = lists of [bop] over a register file, run in parallel on the three
   representations ([bstep]) and on plain integer sets N -> bool ([sstep]). *)
From Coq Require Import NArith List Bool.
Require Import Pk.Bitmask Pk.BitmaskProofs Pk.BitmaskWordProofs Pk.BitmaskHistory.
Open Scope N_scope.

(* (1) For EVERY operation history (set, unset, flip, or/and/xor/sub in place and as copy,
   copy, shrink, inject, extract; any operands, any registers) and every register:
   the representation invariants hold and membership in each of the three
   representations equals membership in the integer-set model. *)
Theorem C17_history_membership : forall (ops : list bop) (r : nat) (b : N),
  let st := fold_left bstep ops binit in
  let sp := fold_left sstep ops sinit in
  wf_c (rc st r) /\ wf_w (rs st r) /\ wf_w (rl st r) /\ rs st r <> [] /\
  c_isset (rc st r) b = sp r b /\ w_isset (rs st r) b = sp r b /\ w_isset (rl st r) b = sp r b.
Proof. exact history_membership_proof. Qed.

(* (2) ... and every observer agrees with the set model and across representations:
   IsZero, Equal (between any two registers), Len (= 1 + largest member), OnesCount
   (= number of members), Next (least member >= b). *)
Theorem C17_history_observers : forall (ops : list bop) (r r' : nat) (b : N) (n : nat),
  let st := fold_left bstep ops binit in
  let sp := fold_left sstep ops sinit in
  (* IsZero *)
  ((c_iszero (rc st r) = true <-> forall i, sp r i = false) /\
   w_iszero (rs st r) = c_iszero (rc st r) /\ w_iszero (rl st r) = c_iszero (rc st r)) /\
  (* Equal *)
  ((c_equal (rc st r) (rc st r') = true <-> forall i, sp r i = sp r' i) /\
   w_equal (rs st r) (rs st r') = c_equal (rc st r) (rc st r') /\
   w_equal (rl st r) (rl st r') = c_equal (rc st r) (rc st r')) /\
  (* Len *)
  ((forall i, sp r i = true -> i < c_len (rc st r)) /\
   (c_len (rc st r) = 0 \/ sp r (c_len (rc st r) - 1) = true) /\
   w_len (rs st r) = c_len (rc st r) /\ w_len (rl st r) = c_len (rc st r)) /\
  (* OnesCount, counted below any bound n that covers the mask *)
  (c_len (rc st r) <= N.of_nat n ->
   c_count (rc st r) = count_upto (sp r) n /\ w_count (rs st r) = count_upto (sp r) n /\
   w_count (rl st r) = count_upto (sp r) n) /\
  (* Next *)
  match l_next (rl st r) b with
  | Some p => b <= p /\ sp r p = true /\ forall i, b <= i -> i < p -> sp r i = false
  | None => forall i, b <= i -> sp r i = false
  end.
Proof. exact history_observers_proof. Qed.

(* (3) the bit returned by Extract is the membership of the removed position *)
Theorem C17_extract_returns_member : forall (ops : list bop) (r : nat) (b : N),
  let st := fold_left bstep ops binit in
  let sp := fold_left sstep ops sinit in
  snd (c_extract (rc st r) b) = sp r b /\ snd (s_extract (rs st r) b) = sp r b.
Proof. exact extract_returns_member_proof. Qed.

(* (4) MakeConnectedBitmask(min,max) is the interval, for min <= max *)
Theorem C17_make : forall mn mx, mn <= mx ->
  wf_c (c_make mn mx) /\ forall i, mem_c (c_make mn mx) i = (mn <=? i) && (i <=? mx).
Proof. exact make_proof. Qed.

(* (5) the two defects repaired by the fix: commits, as refutations of the pre-fix code *)
Theorem C17_xor_prefix_refuted :
  exists a b, wf_c a /\ wf_c b /\ c_equal (c_xor_prefix a b) (c_make 1 10) = false /\
              forall i, mem_c (c_xor_prefix a b) i = mem_c (c_make 1 10) i.
Proof. exact xor_prefix_refuted_proof. Qed.

Theorem C17_extract_wrap_refuted :
  exists l b, wf_c l /\ mem_c l 5 = false /\
              mem_c (fst (c_extract_rev_gen true l b)) 5 = true.
Proof. exact extract_wrap_refuted_proof. Qed.

(* (6) non-vacuity: a concrete history reaching a non-trivial state in all three representations *)
Example C17_history_example :
  let ops := [OSet 0 5; OSet 0 64; OInject 0 3 true; OOr 1 0 0; OFlip 1 65; OXor 2 0 1; OExtract 0 6;
              OSet 3 1; OSet 3 2; OSet 3 4; OXor 3 3 2] in
  let st := fold_left bstep ops binit in
  rc st 0 = [(3, 3); (64, 64)] /\ rc st 3 = [(1, 2); (4, 4); (65, 65)] /\ rs st 0 = [8; 1] /\ rl st 2 = [0; 2].
Proof. exact history_example_proof. Qed.

Print Assumptions C17_history_membership.
Print Assumptions C17_history_observers.
Print Assumptions C17_extract_returns_member.
