Require Import Pk.Bitmask Pk.BitmaskProofs.
