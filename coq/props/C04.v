(* C04 -- payload filters agree with plain regular-expression matching (theorems follow) *)
From Coq Require Import List NArith.
Require Import Pk.RegexProg.
Example c04_placeholder : MAXU = 18446744073709551615%N.
Proof. reflexivity. Qed.
