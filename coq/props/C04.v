(* C04 -- payload filters agree with plain regular-expression matching.

   Model: theories/RegexProg.v (compiled programs), Regex.v (leftmost-first matcher of binaryregexp on programs, captures,
   empty-width assertions), DataFilter.v (search_data.go without sub-query variants: progressVariant.find with its
   shortcuts as fixed by fixes/C04-1, sequence progress with per-direction offsets and the chunk-boundary rule, the
   re-check loop over shared expressions, success/fail accounting over data sources, negation) and the specification
   (plain scan in conversation order: seq_spec, cond_holds_spec, conj_spec, stream_spec).
   F is the recursion depth of the matcher, one value for a whole evaluation; every statement holds for every F. *)
From Coq Require Import List NArith Bool.
Import ListNotations.
Require Import Pk.RegexProg Pk.RegexProgProofs Pk.Regex Pk.RegexProofs Pk.DataFilter Pk.DataFilterProofs Pk.DataFilterSeqProofs.

(* ---- A. the shortcuts of progressVariant.find do not change the scan.
   facts_sound r: every accepted word starts with the prefix, ends with the suffix and has a length within [min,max].
   find_agrees: the offset only moves forward inside the data; a reported match is the match the plain scan finds from the
   old offset (same captures, indices shifted by the move of the offset; an empty match at the offset leaves the offset); no match reported = the plain scan finds none
   from the old offset and none from the new one.
   All branches of find are covered, including the fixed-length window loop; the side condition says that the common
   value of min and max the window loop computes with is a length, not the code's "infinite" 2^64-1. *)
Theorem c04_find_shortcut_plain : forall F guard r data off res off',
  assertion_free (r_prog r) = true -> facts_sound r -> 2 <= r_ncap r -> off <= length data ->
  (f_min (r_facts r) = f_max (r_facts r) -> (f_max (r_facts r) < MAXU)%N) ->
  find F guard r data off = (res, off') -> find_agrees F r data off res off'.
Proof. exact find_shortcut_plain. Qed.

(* the facts finalize() computes (LiteralPrefix of a program that is not one-pass, AcceptedLength, ConstantSuffix; for a
   complete literal the literal itself) are sound: this is where C18 is used *)
Theorem c04_facts_sound : forall r P compl,
  wf (r_prog r) = true -> prog_prefix (r_prog r) = (P, compl) -> f_prefix (r_facts r) = P ->
  (if compl
   then f_suffix (r_facts r) = P /\ f_min (r_facts r) = len P /\ f_max (r_facts r) = len P
   else accepted_length_cached (r_prog r) = Some (f_min (r_facts r), f_max (r_facts r)) /\
        constant_suffix_b (r_prog r) = Some (f_suffix (r_facts r))) ->
  facts_sound r.
Proof. exact facts_sound_model. Qed.

(* expressions with empty-width assertions: scanned as they are, offset untouched (the fix) *)
Theorem c04_find_guard_plain : forall F r data off, context_sensitive r = true ->
  find F true r data off = (plain F r (skipn off data), off).
Proof. exact find_guard_plain. Qed.

(* without the guard the shortcuts change the answer: foo3$ on "foo3 bar" (replayed on the Go code before the fix) *)
Theorem c04_find_unguarded_refuted :
  plain 100 rx_foo3_dollar payload_foo3_bar = None /\
  fst (find 100 false rx_foo3_dollar payload_foo3_bar 0) = Some [Some 0; Some 4] /\
  fst (find 100 true rx_foo3_dollar payload_foo3_bar 0) = None.
Proof. exact find_unguarded_refuted. Qed.

(* ---- the matcher: a reported match is a path of the program (link to C18), and for programs without assertions
   the search neither sees what lies before its start nor what lies behind the last possible match end *)
Theorem c04_search_sound : forall F p ncap t c, search F p ncap t = Some c ->
  exists j e, j <= e /\ e <= length t /\ accepts p (slice t j e).
Proof. exact search_sound. Qed.

Theorem c04_search_skip : forall F p ncap pre t, assertion_free p = true ->
  (forall j, j < length pre -> match_at F p ncap (pre ++ t) j = None) ->
  search F p ncap (pre ++ t) = option_map (shift (length pre)) (search F p ncap t).
Proof. exact search_skip. Qed.

Theorem c04_search_truncate : forall F p ncap t cut, assertion_free p = true -> cut <= length t ->
  (forall i e, i <= e -> e <= length t -> accepts p (slice t i e) -> e <= cut) ->
  search F p ncap (firstn cut t) = search F p ncap t.
Proof. exact search_truncate. Qed.

Theorem c04_literal_prefix_sound : forall p P compl w, wf p = true -> prog_prefix p = (P, compl) -> accepts p w ->
  (exists rest, w = P ++ rest) /\ (compl = true -> w = P).
Proof. exact prog_prefix_sound. Qed.

(* ---- D. data sources and negation: if on every evaluated source the loop leaves every condition in the state the
   plain scan prescribes, a non-inverted condition holds iff it holds in some evaluated representation, an inverted one
   iff it holds in all, and without any representation only inverted conditions hold (conj_spec). *)
Theorem c04_sources_and_negation : forall F guard tbl cn cs st,
  (forall s ci c, In s (sources_of cn st) -> nth_error cs ci = Some c ->
     match nth_error (source_eval F guard tbl cs s) ci with
     | Some p => cond_success c p = cond_holds_spec F tbl c s
     | None => False
     end) ->
  conj_selected F guard tbl cn cs st = conj_spec F tbl cn cs st.
Proof. exact conj_accounting. Qed.

(* ---- B and C. sequence progress, variables and sharing.
   An element is a fixed expression of the table or uses variables captured (named groups) by earlier elements of its
   sequence; then it has a precondition (every use replaced by "any bytes") and, per tuple of captured values, the compiled
   substitution of QuoteMeta(value) (the compiler is not modelled: the table of substitutions is an input).
   find_ok F guard r: at least the two capture slots of the whole match, and find agrees with the plain scan (find_agrees) on
   every buffer and offset. pre_ok pre ex: where the precondition finds nothing the substituted expression finds nothing, and
   moving the offset to where the precondition's find stopped loses no match of it. tbl_ok c: every expression an element of c
   can resolve to is find_ok, every precondition/substitution pair is pre_ok.
   If that holds for all conditions evaluated together (whatever expressions they share, in whatever order the loop visits
   them), then for every condition whose evaluation did not end in an error ("variable not defined / already seen") the
   re-check loop leaves exactly seq_spec matched elements: each element was searched -- with the expression in which the
   variables captured so far are substituted -- in its own direction, in the data that follows the previous match in
   conversation order, and the other conditions had no influence. *)
Theorem c04_sequence_and_sharing : forall F guard tbl s cs,
  (forall c, In c cs -> tbl_ok F guard tbl c) ->
  forall ci c, nth_error cs ci = Some c ->
  exists p, nth_error (source_eval F guard tbl cs s) ci = Some p /\ p_n p <= length (c_elems c) /\
            (p_err p = 0 -> p_n p = seq_spec F tbl s (c_elems c) 0 0 []).
Proof. exact source_eval_spec. Qed.

(* the chunk-boundary rule as coded (backward scan over the cumulative sizes) is the rule of the specification *)
Theorem c04_chunk_boundary_rule : forall s d off, 0 < off -> off <= length (dir_data d s) ->
  exists o, boundary s d off = Some o /\ boundary_spec s d off 0 0 = Some o.
Proof. exact boundary_eq. Qed.

(* ---- end to end: where the filter returns without error it selects exactly the streams of the plain-scan specification *)
Theorem c04_filter_is_plain_scan : forall F guard tbl cn ors st,
  (forall cs c, In cs ors -> In c cs -> tbl_ok F guard tbl c) ->
  (forall cs, In cs ors -> no_error F guard tbl cn cs st) ->
  stream_selected F guard tbl cn ors st = stream_spec F tbl cn ors st.
Proof. exact stream_selected_spec. Qed.

(* where find_ok comes from: expressions with assertions (guard), expressions without (theorem A + C18 facts) *)
Theorem c04_find_ok_guarded : forall F r, context_sensitive r = true -> 2 <= r_ncap r -> find_ok F true r.
Proof. exact find_ok_guarded. Qed.

Theorem c04_find_ok_shortcuts : forall F guard r,
  assertion_free (r_prog r) = true -> facts_sound r -> 2 <= r_ncap r ->
  (f_min (r_facts r) = f_max (r_facts r) -> (f_max (r_facts r) < MAXU)%N) ->
  find_ok F guard r.
Proof. exact find_ok_shortcuts. Qed.

(* ---- the whole chain. prepared r: the program is well-formed, has the two slots of the whole match, and either contains
   an empty-width assertion (then the fixed code scans plainly) or carries the facts finalize()/prepare() compute: Prog.Prefix,
   AcceptedLength (with its memo table), ConstantSuffix (with its budget), or the literal itself for a complete literal.
   elem_prepared: for an element with variables, its precondition is pre_ok for each of its substitutions (two separately
   compiled programs: this relation is an input; for a precondition with assertions it reduces to the inclusion, below).
   For every table of prepared expressions, every converter selection, every disjunction of conjunctions of (possibly negated,
   possibly expression-sharing) THEN-sequences with captures and variable uses, and every stream on which the filter returns
   without error: it selects the stream exactly when the plain left-to-right scan in conversation order does. *)
Theorem c04_payload_filters_agree_with_plain_matching : forall F tbl cn ors st,
  Forall prepared tbl ->
  (forall cs c e, In cs ors -> In c cs -> In e (c_elems c) -> elem_prepared F tbl e) ->
  (forall cs, In cs ors -> no_error F true tbl cn cs st) ->
  stream_selected F true tbl cn ors st = stream_spec F tbl cn ors st.
Proof. exact filter_is_plain_scan_prepared. Qed.

Theorem c04_pre_ok_guarded : forall F pre ex, context_sensitive pre = true ->
  (forall buffer, plain F pre buffer = None -> plain F ex buffer = None) -> pre_ok F true pre ex.
Proof. exact pre_ok_guarded. Qed.

(* ---- non-vacuity *)
Definition rx_ab_c : rx := mkRx          (* ab+c : prefix "ab", no suffix (a loop in front empties it), min 3 *)
  (mkProg [ mkInst IFail 0 0 [] []; mkInst IRune1 2 0 [97%N] []; mkInst IRune1 3 0 [98%N] []; mkInst IAlt 2 4 [] [];
            mkInst IRune1 5 0 [99%N] []; mkInst IMatch 0 0 [] [] ] 1)
  2 (mkFacts [97; 98]%N [] 3%N MAXU) [None].
Example c04_ex_facts : wf (r_prog rx_ab_c) = true /\ assertion_free (r_prog rx_ab_c) = true /\
  prog_prefix (r_prog rx_ab_c) = ([97; 98]%N, false) /\
  accepted_length_cached (r_prog rx_ab_c) = Some (3%N, MAXU) /\ constant_suffix_b (r_prog rx_ab_c) = Some [].
Proof. vm_compute. auto 10. Qed.
Example c04_ex_find :
  find 200 true rx_ab_c [120; 97; 98; 120; 97; 98; 98; 99; 120; 99]%N 0 = (Some [Some 3; Some 7], 1) /\
  plain 200 rx_ab_c [120; 97; 98; 120; 97; 98; 98; 99; 120; 99]%N = Some [Some 4; Some 8].
Proof. vm_compute. auto. Qed.
Definition rx_a_c : rx := mkRx           (* a.c : prefix "a", suffix "c", length 3 *)
  (mkProg [ mkInst IFail 0 0 [] []; mkInst IRune1 2 0 [97%N] []; mkInst IRuneAnyNotNL 3 0 [0; 9; 11; 1114111]%N [];
            mkInst IRune1 4 0 [99%N] []; mkInst IMatch 0 0 [] [] ] 1)
  2 (mkFacts [97]%N [99]%N 3%N 3%N) [None].
Example c04_ex_facts2 : wf (r_prog rx_a_c) = true /\ assertion_free (r_prog rx_a_c) = true /\
  prog_prefix (r_prog rx_a_c) = ([97]%N, false) /\
  accepted_length_cached (r_prog rx_a_c) = Some (3%N, 3%N) /\ constant_suffix_b (r_prog rx_a_c) = Some [99%N].
Proof. vm_compute. auto 10. Qed.
Example c04_ex_find2 :
  find 200 true rx_a_c [120; 97; 120; 99; 99; 120]%N 0 = (Some [Some 0; Some 3], 1) /\
  plain 200 rx_a_c [120; 97; 120; 99; 99; 120]%N = Some [Some 1; Some 4].
Proof. vm_compute. auto. Qed.
Example c04_ex_prepared : prepared rx_ab_c /\ prepared rx_a_c.
Proof.
  split; unfold prepared; (split; [vm_compute; reflexivity|]); (split; [vm_compute; auto|]);
    (split; [intros H; vm_compute in H |- *; try discriminate; reflexivity|]); right.
  - exists [97; 98]%N, false. vm_compute. auto.
  - exists [97]%N, false. vm_compute. auto.
Qed.
Definition rx_dot_b : rx := mkRx         (* .b : no prefix, suffix "b", length 2: the fixed-length window loop *)
  (mkProg [ mkInst IFail 0 0 [] []; mkInst IRuneAnyNotNL 2 0 [0; 9; 11; 1114111]%N []; mkInst IRune1 3 0 [98%N] [];
            mkInst IMatch 0 0 [] [] ] 1)
  2 (mkFacts [] [98]%N 2%N 2%N) [None].
Example c04_ex_window : prepared rx_dot_b /\
  find 200 true rx_dot_b [98; 10; 98; 120; 98; 98]%N 0 = (Some [Some 0; Some 2], 3) /\
  plain 200 rx_dot_b [98; 10; 98; 120; 98; 98]%N = Some [Some 3; Some 5].
Proof.
  split; [|vm_compute; auto].
  unfold prepared. split; [vm_compute; reflexivity|]. split; [vm_compute; auto|].
  split; [intros _; vm_compute; reflexivity|]. right. exists [], false. vm_compute. auto.
Qed.

(* a sequence with a capture and a use: cdata:"(?P<v>[a-z])" then cdata:" @v@x" on the payload "q qx"
   (programs and facts as dumped from the Go code; table: value "q" -> the compiled " (?:q)x") *)
Definition tbl_var : list rx :=
  [ mkRx (mkProg [ mkInst IFail 0 0 [] []; mkInst ICapture 2 2 [] []; mkInst IRune 3 0 [97; 122]%N []; mkInst ICapture 4 3 [] [];
                   mkInst IMatch 0 0 [] [] ] 1) 4 (mkFacts [] [] 1%N 1%N) [None; Some 0];
    mkRx (mkProg [ mkInst IFail 0 0 [] []; mkInst IRune1 2 0 [32%N] []; mkInst IRune1 3 0 [113%N] []; mkInst IRune1 4 0 [120%N] [];
                   mkInst IMatch 0 0 [] [] ] 1) 2 (mkFacts [32; 113; 120]%N [32; 113; 120]%N 3%N 3%N) [None];
    mkRx (mkProg [ mkInst IFail 0 0 [] []; mkInst IRune1 3 0 [32%N] []; mkInst IRuneAny 3 0 [0; 1114111]%N []; mkInst IAlt 2 4 [] [];
                   mkInst IRune1 5 0 [120%N] []; mkInst IMatch 0 0 [] [] ] 1) 2 (mkFacts [32%N] [] 2%N MAXU) [None] ].
Definition cond_var : cond :=
  mkCond false [ mkElem false (EFixed 0); mkElem false (ESubst 2 [0] [([[113%N]], 1)]) ].
Definition stream_var : stream := mkStream [(false, [113; 32; 113; 120]%N)] [].
Example c04_ex_variables :
  stream_selected 100 true tbl_var CAny [[cond_var]] stream_var = true /\
  stream_spec 100 tbl_var CAny [[cond_var]] stream_var = true /\
  first_err 100 true tbl_var CAny [cond_var] stream_var = 0 /\
  map p_n (source_eval 100 true tbl_var [cond_var] (s_raw stream_var)) = [2] /\
  map p_vars (source_eval 100 true tbl_var [cond_var] (s_raw stream_var)) = [[(0, [113%N])]].
Proof. vm_compute. auto 10. Qed.
