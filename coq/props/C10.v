(* C10 -- a view is a complete and stable snapshot of everything imported.
   Statements over EVERY action sequence of the model in theories/Indexes.v (imports, also queued while
   another import runs; views opened at any moment; any interleaving with merge, tagging and converter jobs,
   tag add / delete / redefinition, converter attach / detach / removal; from the empty directory or after a restart).
   The merge function is a Section variable constrained by exactly what property C07 establishes for
   index.Merge ("merging is invisible"); theories/Indexes.v's concrete merge_ents meets the hypotheses
   (C10_concrete_merge_meets_hypotheses), so the corollaries at the end are closed theorems. *)
From Coq Require Import List NArith Bool.
Require Import Pk.Indexes Pk.IndexesProofs Pk.IndexesViewProofs.
Import ListNotations.
Open Scope N_scope.

Section C10.
Variable capdb : N -> capture.               (* contents of the capture files ([] for an unreadable one) *)
Variable bad : N -> bool.                    (* which capture files cannot be read *)
Variable merge : list file -> list entry.    (* what index.Merge writes *)
Hypothesis merge_lookup : forall fs id, find_ent id (merge fs) = lookup_vis fs id.
Hypothesis merge_sub : forall fs e, In e (merge fs) -> In e (ents_of fs).
Hypothesis merge_nodup : forall fs, files_ok fs -> NoDup (map e_id (merge fs)).
(* Start state: any state that satisfies the three invariants -- the empty directory (init) and what manager.New loads
   from an index directory whose files represent the captures processed so far (C10_start_states_are_valid below). *)
Variable junk : list N.
Variable st0 : state.
Hypothesis start13 : inv13 junk st0.
Hypothesis start10 : inv10 capdb bad merge st0.
Hypothesis startF : files_ok (indexes st0).
Hypothesis startQ : caps_prefix st0.

Let run (rf : bool) (acts : list action) : state := fold_left (step capdb bad rf merge) acts st0.
Let I10 (rf : bool) (acts : list action) := run_inv10_st0 capdb bad merge merge_lookup merge_sub junk st0 start13 start10 rf acts.
Let F10 (rf : bool) (acts : list action) :=
  run_files_ok_st0 capdb bad merge merge_lookup merge_sub merge_nodup junk st0 start13 start10 startF rf acts.

(* The newest-version-wins map of the service list = every stream of every processed capture, in the
   version that all processed captures together give it -- whatever merges have happened. *)
Theorem C10_service_list_is_newest_version_of_everything_processed : forall rf acts,
  let st := run rf acts in
  (forall id e, lookup_vis (indexes st) id = Some e ->
     in_caps capdb (processed st) (e_flow e) = true /\
     e_ver e = total_bytes capdb (processed st) (e_flow e)) /\
  (forall fl, in_caps capdb (processed st) fl = true ->
     exists e, lookup_vis (indexes st) (e_id e) = Some e /\ e_flow e = fl).
Proof. intros rf acts. exact (v_spec _ _ _ _ (I10 rf acts)). Qed.

(* ... exactly once: two visible entries never belong to the same stream *)
Theorem C10_every_stream_exactly_once : forall rf acts id1 id2 e1 e2,
  let st := run rf acts in
  lookup_vis (indexes st) id1 = Some e1 -> lookup_vis (indexes st) id2 = Some e2 ->
  e_flow e1 = e_flow e2 -> id1 = id2.
Proof.
  intros rf acts id1 id2 e1 e2.
  exact (visible_once _ id1 id2 e1 e2 (v_ids _ _ _ _ (I10 rf acts))).
Qed.

(* View.AllStreams enumerates exactly that map, every stream id once *)
Theorem C10_AllStreams_enumerates_the_visible_map : forall rf acts e,
  let st := run rf acts in
  (In e (all_streams (indexes st)) <-> lookup_vis (indexes st) (e_id e) = Some e) /\
  NoDup (map e_id (all_streams (indexes st))).
Proof.
  intros rf acts e. split.
  - exact (all_streams_lookup _ e (F10 rf acts)).
  - exact (merge_ents_nodup _ (F10 rf acts)).
Qed.

(* A view opened at any moment holds the service list of that moment (hence, by the theorems above,
   everything processed until then), keeps exactly that snapshot whatever happens until its own Release
   (code with the fetched flag, /repo 7300a1b), and every file of the snapshot stays in the directory. *)
Theorem C10_view_is_complete_and_stable_snapshot : forall acts1 acts2 v,
  let st1 := run false acts1 in
  let st2 := run false (acts1 ++ AView v :: acts2) in
  view_of v (views st1) = None -> (forall a, In a acts2 -> a <> ARelease v) ->
  view_of v (views st2) = Some (indexes st1) /\
  (forall f, In f (indexes st1) -> In (f_uid f) (disk st2)).
Proof. intros acts1 acts2 v. exact (view_snapshot capdb bad merge junk st0 start13 acts1 acts2 v). Qed.

(* "Reported processed": the completion of an import job reports (pcap-processed event / webhook; model field `processed`)
   exactly the captures it takes off the front of the import queue -- never a capture that is still queued. Together
   with the first theorem: everything reported processed is in the service list from that closure on. *)
Theorem C10_import_reports_exactly_what_leaves_the_queue : forall rf acts j,
  let st := run rf acts in
  ijob st = Some j -> ij_phase j = AtDone ->
  let st' := step capdb bad rf merge st (AComplete KImport) in
  exists reported, processed st' = processed st ++ reported /\ queue st = reported ++ queue st'.
Proof.
  intros rf acts j.
  exact (report_names_queue_front capdb bad merge merge_lookup merge_sub junk st0 start13 start10 startQ rf acts j).
Qed.

(* The view's own copy of the tag details (ghost field vtags: stamp of the manager's tag table copied at fetch, flag "lazily
   evaluated"): nothing but the view's own Release removes it, nothing changes its stamp -- not tag changes, not the
   environment, not OTHER views evaluating tags lazily (PrefetchTags) -- and only the view's own prefetch sets its flag. *)
Theorem C10_view_tag_copy_is_private : forall acts st v stamp b,
  vtag_of v (vtags st) = Some (stamp, b) -> (forall a, In a acts -> a <> ARelease v) ->
  exists b', vtag_of v (vtags (fold_left (step capdb bad false merge) acts st)) = Some (stamp, b') /\
             ((forall a, In a acts -> a <> APrefetch v) -> b' = b).
Proof. intros acts st v stamp b. exact (vtag_run_stable capdb bad merge false acts st v stamp b eq_refl). Qed.

(* The property in one statement: whatever happens between opening a view and releasing it, AllStreams
   through the view returns every stream of every capture processed before it was opened, exactly once, in the
   version those captures give it -- and the files it reads are still there. *)
Theorem C10_view_answers_complete_exactly_once_newest_and_constant : forall acts1 acts2 v,
  let st1 := run false acts1 in
  let st2 := run false (acts1 ++ AView v :: acts2) in
  view_of v (views st1) = None -> (forall a, In a acts2 -> a <> ARelease v) ->
  exists s, view_of v (views st2) = Some s /\
    (forall e, In e (all_streams s) ->
       in_caps capdb (processed st1) (e_flow e) = true /\
       e_ver e = total_bytes capdb (processed st1) (e_flow e)) /\
    (forall fl, in_caps capdb (processed st1) fl = true -> exists e, In e (all_streams s) /\ e_flow e = fl) /\
    NoDup (map e_flow (all_streams s)) /\
    (forall f, In f s -> In (f_uid f) (disk st2)).
Proof.
  intros acts1 acts2 v.
  exact (view_answers capdb bad merge merge_lookup merge_sub merge_nodup junk st0 start13 start10 startF acts1 acts2 v).
Qed.

End C10.

(* The hypotheses are satisfiable: the model's own merge (newest entry of every id) meets them. *)
Theorem C10_concrete_merge_meets_hypotheses :
  (forall fs id, find_ent id (merge_ents fs) = lookup_vis fs id) /\
  (forall fs e, In e (merge_ents fs) -> In e (ents_of fs)) /\
  (forall fs, files_ok fs -> NoDup (map e_id (merge_ents fs))).
Proof. exact (conj merge_ents_lookup (conj merge_ents_sub merge_ents_nodup)). Qed.

(* The two start states satisfy the hypotheses of the section: the empty directory, and manager.New on a directory
   whose loadable files fs (in name order) hold exactly the newest versions of the captures P (what restart/crash
   recovery must guarantee is property C12), with distinct file names, unloadable files junk left in place. *)
Theorem C10_start_states_are_valid : forall capdb bad merge,
  ((inv13 [] init /\ inv10 capdb bad merge init /\ files_ok (indexes init)) /\ caps_prefix init) /\
  (forall fs junk P, NoDup (map f_uid fs ++ junk) -> spec_ok capdb P fs -> ids_ok fs -> files_ok fs ->
     (inv13 junk (init_from capdb fs junk P) /\ inv10 capdb bad merge (init_from capdb fs junk P) /\
      files_ok (indexes (init_from capdb fs junk P))) /\ caps_prefix (init_from capdb fs junk P)).
Proof.
  intros. split.
  - split; [exact (start_init capdb bad merge)|]. intros j H. discriminate.
  - intros fs junk P H1 H2 H3 H4. split; [exact (start_from capdb bad merge fs junk P H1 H2 H3 H4)|]. intros j H. discriminate.
Qed.

(* Closed corollary for the instance that is extracted and run against the Go code. *)
Theorem C10_extracted_model_service_list_complete : forall capdb bad acts,
  let st := fold_left (step_impl capdb bad) acts init in
  (forall id e, lookup_vis (indexes st) id = Some e ->
     in_caps capdb (processed st) (e_flow e) = true /\
     e_ver e = total_bytes capdb (processed st) (e_flow e)) /\
  (forall fl, in_caps capdb (processed st) fl = true ->
     exists e, lookup_vis (indexes st) (e_id e) = Some e /\ e_flow e = fl).
Proof.
  intros capdb bad acts.
  destruct (start_init capdb bad merge_ents) as (A & B & _).
  exact (C10_service_list_is_newest_version_of_everything_processed capdb bad merge_ents merge_ents_lookup merge_ents_sub [] init A B false acts).
Qed.

Theorem C10_extracted_model_view_answers : forall capdb bad acts1 acts2 v,
  let st1 := fold_left (step_impl capdb bad) acts1 init in
  let st2 := fold_left (step_impl capdb bad) (acts1 ++ AView v :: acts2) init in
  view_of v (views st1) = None -> (forall a, In a acts2 -> a <> ARelease v) ->
  exists s, view_of v (views st2) = Some s /\
    (forall e, In e (all_streams s) ->
       in_caps capdb (processed st1) (e_flow e) = true /\
       e_ver e = total_bytes capdb (processed st1) (e_flow e)) /\
    (forall fl, in_caps capdb (processed st1) fl = true -> exists e, In e (all_streams s) /\ e_flow e = fl) /\
    NoDup (map e_flow (all_streams s)) /\
    (forall f, In f s -> In (f_uid f) (disk st2)).
Proof.
  intros capdb bad acts1 acts2 v.
  destruct (start_init capdb bad merge_ents) as (A & B & C).
  exact (C10_view_answers_complete_exactly_once_newest_and_constant capdb bad merge_ents
           merge_ents_lookup merge_ents_sub merge_ents_nodup [] init A B C acts1 acts2 v).
Qed.

(* The code before /repo 7300a1b (View.fetch tested `len(v.indexes) != 0`): a view opened on an empty
   service list did NOT keep its snapshot.  Witness replayed on the Go code: corpus/C10/view-refetch-empty.json *)
Definition legacy_capdb (k : N) : capture := match k with 0 => [(0, 3); (1, 2)] | _ => [] end.

Theorem C10_view_stable_with_len_test_refuted :
  exists acts2 v,
    let st1 := fold_left (step_legacy legacy_capdb (fun _ => false)) [] init in
    let st2 := fold_left (step_legacy legacy_capdb (fun _ => false)) ([] ++ AView v :: acts2) init in
    view_of v (views st1) = None /\ (forall a, In a acts2 -> a <> ARelease v) /\
    view_of v (views st2) <> Some (indexes st1).
Proof.
  exists [AImport [0]; AStart KImport; AComplete KImport; ARead 0], 0.
  split; [reflexivity|]. split.
  - intros a H. simpl in H. repeat (destruct H as [H|H]; [subst; discriminate|]). tauto.
  - vm_compute. discriminate.
Qed.

(* Non-vacuity of the view theorem: a history in which a merge replaces the files a view holds. *)
Definition ex_capdb (k : N) : capture :=
  match k with 0 => [(0, 3)] | 1 => [(1, 2)] | 2 => [(0, 4); (2, 1)] | _ => [] end.

Example ex_view_survives_merge :
  let acts1 := [AImport [0]; AStart KImport; AComplete KImport; AImport [1]; AStart KImport; AComplete KImport] in
  let acts2 := [AImport [2]; AStart KImport; AComplete KImport; AStart KMerge; AComplete KMerge] in
  let st2 := fold_left (step_impl ex_capdb (fun _ => false)) (acts1 ++ AView 7 :: acts2) init in
  map f_uid (indexes st2) = [3] /\
  map (fun e => (e_flow e, e_ver e)) (all_streams (indexes st2)) = [(0, 7); (2, 1); (1, 2)] /\
  option_map (fun s => map (fun e => (e_flow e, e_ver e)) (all_streams s)) (view_of 7 (views st2)) = Some [(1, 2); (0, 3)] /\
  disk st2 = [3; 1; 0].
Proof. vm_compute. repeat split. Qed.
