(* C18 -- regex length and suffix analysis is exact and safe. *)
From Coq Require Import List NArith.
Import ListNotations.
Require Import Pk.RegexProg.

(* placeholder sanity example, replaced by the theorems of RegexProgProofs.v *)
Example c18_model_runs :
  accepted_length (mkProg [mkInst IFail 0 0 [] []; mkInst IRune1 2 0 [97%N] []; mkInst IMatch 0 0 [] []] 1) = Some (1%N, 1%N).
Proof. vm_compute. reflexivity. Qed.
