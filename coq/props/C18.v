(* C18 -- regex length and suffix analysis is exact and safe.

   Model: theories/RegexProg.v (programs of rsc.io/binaryregexp/syntax as dumped by the harness, the walks of
   internal/tools/regexAnalysis/regexAnalysis.go). `accepts p w`: some path of p from its start to a Match
   instruction consumes exactly the bytes w (empty-width assertions pass: exact for assertion-free programs,
   an over-approximation otherwise; tied to the real matcher by enumeration in checks/c18.py).
   `len w` is the length as N, MAXU = 2^64-1 is the code's "infinite".
   accepted_length_cached is AcceptedLength as written (memo table, after fixes/C18-cache-context.patch),
   accepted_length the same walk without the table, accepted_length_cached_v0 the table before the fix. *)
From Coq Require Import List NArith Bool.
Import ListNotations.
Require Import Pk.RegexProg Pk.RegexProgProofs.
Local Open Scope N_scope.

(* ---- the analyses return a result on every well-formed program (no fuel exhaustion, no index out of range) *)
Theorem c18_accepted_length_total : forall p, wf p = true -> exists r, accepted_length_cached p = Some r.
Proof. exact accepted_length_cached_total. Qed.

Theorem c18_accepted_length_nocache_total : forall p, wf p = true -> exists r, accepted_length p = Some r.
Proof. exact accepted_length_total. Qed.

Theorem c18_constant_suffix_total : forall p, wf p = true -> exists s, constant_suffix p = Some s.
Proof. exact constant_suffix_total. Qed.

(* ---- AcceptedLength (with its memo table): safe and exact, for every program *)
Theorem c18_length_sound : forall p mn mx w,
  accepted_length_cached p = Some (mn, mx) -> accepts p w ->
  mn <= len w /\ (mx < MAXU -> len w <= mx).
Proof. exact cached_length_sound. Qed.

Theorem c18_min_attained : forall p mn mx,
  accepted_length_cached p = Some (mn, mx) -> sat p = true -> mn < MAXU ->
  exists w, accepts p w /\ len w = mn.
Proof. exact cached_min_attained. Qed.

Theorem c18_max_attained : forall p mn mx,
  accepted_length_cached p = Some (mn, mx) -> sat p = true -> mx < MAXU ->
  exists w, accepts p w /\ len w = mx.
Proof. exact cached_max_attained. Qed.

(* ---- the same for the walk without the memo table *)
Theorem c18_nocache_length_sound : forall p mn mx w,
  accepted_length p = Some (mn, mx) -> accepts p w ->
  mn <= len w /\ (mx < MAXU -> len w <= mx).
Proof. exact nocache_length_sound. Qed.

Theorem c18_nocache_min_attained : forall p mn mx,
  accepted_length p = Some (mn, mx) -> sat p = true -> mn < MAXU -> exists w, accepts p w /\ len w = mn.
Proof. exact nocache_min_attained. Qed.

Theorem c18_nocache_max_attained : forall p mn mx,
  accepted_length p = Some (mn, mx) -> sat p = true -> mx < MAXU -> exists w, accepts p w /\ len w = mx.
Proof. exact nocache_max_attained. Qed.

(* ---- cache transparency: the memo table changes neither bound. For the maximum no side condition is needed: a finite
   maximum (of either walk) comes from a finite, Fail-free unfolding of the program, and on such a tree neither walk can
   meet an alternation of its path again, so both compute the tree's value; otherwise both report "infinite". *)
Theorem c18_cache_transparent_min : forall p r rc, sat p = true ->
  accepted_length p = Some r -> accepted_length_cached p = Some rc -> fst rc = fst r.
Proof. exact cache_transparent_min. Qed.

Theorem c18_cache_transparent_max : forall p r rc,
  accepted_length p = Some r -> accepted_length_cached p = Some rc -> snd rc = snd r.
Proof. exact cache_transparent_max. Qed.

(* ---- ConstantSuffix: every accepted word ends with the computed suffix *)
Theorem c18_suffix_sound : forall p s w,
  wf p = true -> constant_suffix p = Some s -> accepts p w -> exists pre, w = pre ++ s.
Proof. exact constant_suffix_sound. Qed.

(* ConstantSuffix as written (with its call budget, fixes/C18-suffix-budget.patch): returns on every well-formed program,
   and what it returns -- the walk's result, or no suffix when the budget is used up -- ends every accepted word *)
Theorem c18_suffix_budget_total : forall p, wf p = true -> exists s, constant_suffix_b p = Some s.
Proof. exact constant_suffix_b_total. Qed.

Theorem c18_suffix_budget_sound : forall p s w,
  wf p = true -> constant_suffix_b p = Some s -> accepts p w -> exists pre, w = pre ++ s.
Proof. exact constant_suffix_b_sound. Qed.

(* out of budget = "unknown": no suffix is claimed; a non-empty claimed suffix is the one the walk without budget computes.
   (AcceptedLength and Prog.Prefix have no budget: c18_accepted_length_total, the prefix walk is structural.) *)
Theorem c18_suffix_budget_exhausted : forall p,
  sufwalkB p (alt_fuel p) SUFFIX_BUDGET (start p) [] [] = SBudget -> constant_suffix_b p = Some [].
Proof. exact constant_suffix_b_exhausted. Qed.

Theorem c18_suffix_budget_within : forall p s, constant_suffix_b p = Some s -> s <> [] -> constant_suffix p = Some s.
Proof. exact constant_suffix_b_within. Qed.

(* ---- the acceptor used by the correspondence check only accepts accepted words *)
Theorem c18_acceptor_sound : forall p w, accepts_b p w = true -> accepts p w.
Proof. exact accepts_b_sound. Qed.

(* ---- the memo table as it was before the fix is unsound: b?b+ (program as compiled by binaryregexp)
   gets minimum 2 although the one-byte word "b" is accepted. Replayed on the Go code: corpus/C18/opt-then-plus-1.json *)
Definition prog_bqbp : prog := mkProg
  [ mkInst IFail 0 0 [] []; mkInst IRune1 3 0 [98] []; mkInst IAlt 1 3 [] [];
    mkInst IRune1 4 0 [98] []; mkInst IAlt 3 5 [] []; mkInst IMatch 0 0 [] [] ] 2.

Theorem c18_cache_v0_refuted :
  wf prog_bqbp = true /\ sat prog_bqbp = true /\
  accepted_length_cached_v0 prog_bqbp = Some (2, MAXU) /\ accepts prog_bqbp [98] /\
  accepted_length_cached prog_bqbp = Some (1, MAXU) /\ accepted_length prog_bqbp = Some (1, MAXU).
Proof.
  repeat split; try (vm_compute; reflexivity).
  apply accepts_b_sound. vm_compute. reflexivity.
Qed.

(* ---- non-vacuity of the hypotheses *)
(* (?:a|bb){2}c? : finite bounds, both attained *)
Definition prog_ex : prog := mkProg
  [ mkInst IFail 0 0 [] []; mkInst IRune1 5 0 [97] []; mkInst IRune1 3 0 [98] []; mkInst IRune1 5 0 [98] [];
    mkInst IAlt 1 2 [] []; mkInst IAlt 6 7 [] []; mkInst IRune1 9 0 [97] []; mkInst IRune1 8 0 [98] [];
    mkInst IRune1 9 0 [98] []; mkInst IAlt 10 11 [] []; mkInst IRune1 11 0 [99] []; mkInst IMatch 0 0 [] [] ] 4.

Example c18_ex_wf : wf prog_ex = true /\ sat prog_ex = true /\ assertion_free prog_ex = true.
Proof. vm_compute. auto. Qed.
Example c18_ex_len : accepted_length_cached prog_ex = Some (2, 5) /\ accepted_length prog_ex = Some (2, 5).
Proof. vm_compute. auto. Qed.
Example c18_ex_accepts : accepts prog_ex [97; 97] /\ accepts prog_ex [98; 98; 98; 98; 99].
Proof. split; apply accepts_b_sound; vm_compute; reflexivity. Qed.
(* foo.*bar has the suffix "bar"... no: a loop in front empties it; abc|bc has "bc" *)
Definition prog_suf : prog := mkProg
  [ mkInst IFail 0 0 [] []; mkInst IRune1 2 0 [97] []; mkInst IRune1 3 0 [98] []; mkInst IRune1 7 0 [99] [];
    mkInst IRune1 5 0 [98] []; mkInst IRune1 7 0 [99] []; mkInst IAlt 1 4 [] []; mkInst IMatch 0 0 [] [] ] 6.
Example c18_ex_suffix : wf prog_suf = true /\ constant_suffix prog_suf = Some [98; 99] /\ constant_suffix_b prog_suf = Some [98; 99].
Proof. vm_compute. auto. Qed.
