(* C06 -- tag answers are never silently stale.
   Model: theories/Tags.v (state machine of the manager's service loop, written after manager.go);
   proofs: theories/TagsC06.v.  `truth h d rho id` is the environment: the value of definition d on
   stream id after the completed imports h, with referenced tags valued by rho (query evaluation,
   internal/query + internal/index/search.go, properties C02/C03/C04). *)
From Coq Require Import List NArith Bool.
From Pk Require Import Tags TagsC16 TagsC06 TagsC06V.
Import ListNotations.
Open Scope N_scope.

(* The invariant Sinv contains: for every tag, every existing stream that is not in Uncertain is in
   Matches iff the tag's current definition is true on the stream's current data (`inv`), plus what is
   needed to carry it through a parked tagging job (the job's snapshot, the *DuringTaggingJob masks).

   Step theorem: for the repaired instance of the model (= the Go code after 840ee41 and edb657b; the other
   switches are arbitrary), EVERY action (ImportPcaps, AddTag, DelTag, UpdateTag query / mark add / mark
   del / set converters, the body and the completion of an import, tagging, converter or merge job, view
   open / data / close) with EVERY choice p of the tag picked by startTaggingJobIfNeeded preserves it,
   provided the responses of the environment are right (act_ok_all: importer masks, search result of
   the tagging job = truth on the job's snapshot, mark definitions denote their match sets). *)
Theorem C06_invariant_step :
  forall truth, env_ext truth -> env_local truth ->
  forall k p a st, repaired_c06 k -> act_ok_all truth st a -> Sinv truth st -> Sinv truth (step k p a st).
Proof. exact sinv_step. Qed.

(* ... hence after every history, i.e. every interleaving of API calls with job bodies and completions *)
Theorem C06_invariant_history :
  forall truth, env_ext truth -> env_local truth ->
  forall k l cs, repaired_c06 k -> acts_ok_all truth k (init cs) l -> Sinv truth (run k l (init cs)).
Proof. intros truth E1 E2 k l cs K H. apply (sinv_run truth E1 E2 k l (init cs) K H). apply sinv_init. Qed.

(* The property itself: in every reachable state, for every tag and every existing stream that the service
   reports as decided, membership in Matches equals the truth of the tag's current definition on the current
   data, referenced tags taken at their truth (tv = truth of every tag, by recursion along the references). *)
Theorem C06_decided_membership_is_truth :
  forall truth, env_ext truth -> env_local truth ->
  forall k l cs, repaired_c06 k -> acts_ok_all truth k (init cs) l ->
  let st := run k l (init cs) in
  forall n t, tget n (tags st) = Some t ->
  forall id, id < next st -> mem id (t_u t) = false ->
  mem id (t_m t) = tv truth (hist st) (tags st) n id.
Proof.
  intros truth E1 E2 k l cs K H st n t T id Hid Hu.
  apply (sinv_decided truth st n t); try assumption.
  apply (sinv_run truth E1 E2 k l (init cs) K H). apply sinv_init.
Qed.

(* ---- what a user sees (theories/TagsC06V.v).  `search h ts q id` is index.SearchStreams on a view's snapshot (indexes
   after the imports h, tagDetails ts) for a query or tag definition q.  C02's inlining theorem enters BY STATEMENT as
   the hypothesis search_inlines: the search evaluates q with every tag filter replaced by Matches where the tag is
   decided and by its (recursively inlined) definition where it is not (view_val), provided no absolute-time
   condition occurs in q or in an inlined definition -- the known finding C06 view-time-reftime is exactly the failure
   of this proviso in the code. *)
Definition search_inlines (truth : list iresp -> defn -> (N -> N -> bool) -> N -> bool)
           (search : list iresp -> tags_t -> defn -> N -> bool) (notime : defn -> Prop) : Prop :=
  forall h ts q id, notime q -> all_notime notime ts -> search h ts q id = truth h q (view_val truth h ts) id.

(* a search with tag / service / mark / generated filters issued in any reachable state returns exactly the streams
   on which the query holds with every tag at its truth, although tags may be undecided at that moment *)
Theorem C06_search_with_tag_filters_is_truth :
  forall truth search notime, env_ext truth -> env_local truth -> search_inlines truth search notime ->
  forall k l cs, repaired_c06 k -> acts_ok_all truth k (init cs) l ->
  let st := run k l (init cs) in
  forall q id, notime q -> all_notime notime (tags st) -> id < next st ->
  search (hist st) (tags st) q id = truth (hist st) q (tv truth (hist st) (tags st)) id.
Proof.
  intros truth search notime E1 E2 HS k l cs K H st q id NQ NT Hid.
  pose proof (sinv_run truth E1 E2 k l (init cs) K H (sinv_init truth cs)) as (HI & Hn & _). fold st in HI, Hn.
  apply (search_is_truth truth E1 search notime HS (hist st) (next st) (tags st) q id); auto.
Qed.

(* View.AllStreams / SearchStreams with PrefetchAllTags, then StreamContext.HasTag (and AllTags, which filters the
   tags by HasTag): the tags shown for a stream are the truth at the moment the view was taken *)
Theorem C06_view_hastag_is_truth :
  forall truth search notime, env_ext truth -> env_local truth -> search_inlines truth search notime ->
  forall k l cs, repaired_c06 k -> acts_ok_all truth k (init cs) l ->
  let st := run k l (init cs) in
  all_notime notime (tags st) ->
  forall n id, id < next st -> (exists t, tget n (tags st) = Some t) ->
  has_tag (prefetch search (hist st) (next st) (tags st)) n id = tv truth (hist st) (tags st) n id.
Proof.
  intros truth search notime E1 E2 HS k l cs K H st NT n id Hid T.
  pose proof (sinv_run truth E1 E2 k l (init cs) K H (sinv_init truth cs)) as (HI & Hn & _). fold st in HI, Hn.
  apply (has_tag_is_truth truth E1 search notime HS (hist st) (next st) (tags st) n id); auto.
Qed.
(* not modelled: prefetchTags for a subset of tags / of streams (the web UI prefetches the tags of the result page
   only), grouping, sorting and limits of SearchStreams (C02). *)

(* The unrepaired code violated it.  Witness 1 (edb657b; corpus/C06/lost-inherited-invalidation.json): tag/a =
   `mark:m sport:4321` is being evaluated against mark/m = {0}; stream 1 is marked; the job publishes
   Uncertain = {} : tag/a is decided without stream 1 although its definition holds on it. *)
Theorem C06_lost_inherited_invalidation_refuted :
  bad_decided (run faithful w_lost (init [0])) 3 1 = true.
Proof. vm_compute. reflexivity. Qed.

(* Witness 2 (840ee41; corpus/C06/idonly-added-streams.json): tag/b = `id:0,1` decided while only stream 0
   exists; the import that adds stream 1 did not invalidate id-only tags. *)
Theorem C06_idonly_added_streams_refuted :
  bad_decided (run faithful w_idonly (init [0])) 4 1 = true.
Proof. vm_compute. reflexivity. Qed.

(* Witness 3 (corpus/C06/detach-reset-data-tags.json): detaching a converter from its last tag resets the converter's
   cache; a tag that filters on stream data (it may have matched that output) has to be evaluated again.  The repaired
   detach re-opens every such tag for every stream (and the API call ends with startTaggingJobIfNeeded); the
   unrepaired one left them decided.  (The truth environment of this file is a function of the imported data only, so
   the staleness itself is outside `inv`; it is checked by the direct oracle with the converter cache as ground truth.) *)
Theorem C06_detach_reset_reopens_data_tags :
  forall st n t id, has_data_tag (tags st) = true -> In (n, t) (tags (after_detach repaired true st)) ->
  d_data (t_def t) = true -> id < next st -> mem id (t_u t) = true.
Proof. exact after_detach_reopens. Qed.

Theorem C06_detach_reset_keeps_data_tags_refuted :
  forall b st, after_detach faithful b st = st.
Proof. reflexivity. Qed.

(* the same histories on the repaired model *)
Example C06_witnesses_repaired :
  bad_decided (run repaired w_lost (init [0])) 3 1 = false /\
  bad_decided (run repaired w_idonly (init [0])) 4 1 = false.
Proof. vm_compute. split; reflexivity. Qed.

(* the hypotheses are satisfiable: the environment of the witnesses satisfies both *)
Example C06_environment_satisfiable : env_ext truth_w /\ env_local truth_w.
Proof. split; [exact truth_w_ext|exact truth_w_local]. Qed.

Example C06_repaired_is_repaired : repaired_c06 repaired.
Proof. split; reflexivity. Qed.
