(* C15 -- the converter cache behaves like a map from stream to latest output.
   Model: Pk.CacheFile (cachefile.go with the three C15 repairs, fx_all).  Only statements here;
   the proofs are in Pk.CacheFileProofs / Record / Cts / Roundtrip (codec, one record) and
   Pk.CacheFileState / Ops / Open / Refine (the object, NewCacheFile, refinement). *)
From Coq Require Import NArith ZArith List Permutation Lia ZifyN.
Require Import Pk.CacheFile Pk.CacheFileProofs Pk.CacheFileRecord Pk.CacheFileCts Pk.CacheFileRoundtrip
               Pk.CacheFileState Pk.CacheFileOps Pk.CacheFileOpen Pk.CacheFileRefine.
Import ListNotations.
Open Scope N_scope.

(* ---------------- 1. codec round trips ---------------- *)
Theorem C15_varint_roundtrip : forall n r, n < W64 -> read_varint (write_varint n ++ r) = Some (n, r).
Proof. exact varint_roundtrip. Qed.

Theorem C15_varbytes_roundtrip : forall data r, Forall (fun b => b < 256) data ->
  read_varbytes (write_varbytes data ++ r) = Some (data, r).
Proof. exact varbytes_roundtrip. Qed.

Theorem C15_string_roundtrip : forall s r, len s < W64 -> read_string (write_string s ++ r) = Some (s, r).
Proof. exact string_roundtrip. Qed.

(* ---------------- 2. one record ---------------- *)
(* chunk_ok c  : content not empty, content and content-type lengths < 2^64
   times_ok t0 : every step first-packet -> chunk 1 -> chunk 2 ... is less than 2^63 ns (Time.Sub exact)
   record_bytes t0 cs m : the bytes setData writes when Go iterates its content-type map in order m
   trunc_us t0 cs : same chunks, chunk i gets time  t0 + 1000 * sum_{j<=i} quot (T_j - T_{j-1}) 1000 *)

(* self-delimiting, for every iteration order of the content-type map *)
Theorem C15_record_self_delimiting : forall t0 cs m rest,
  Forall chunk_ok cs -> times_ok t0 cs -> Permutation m (collect_cts 0 cs []) ->
  skip_stream (record_bytes t0 cs m ++ rest) = Some rest.
Proof. exact skip_record_bytes. Qed.

(* Data(): directions, bytes, content types exactly; times as stated by trunc_us *)
Theorem C15_record_roundtrip_any_ct_order : forall t0 cs m rest,
  Forall chunk_ok cs -> times_ok t0 cs -> Permutation m (collect_cts 0 cs []) ->
  decode_record t0 (record_bytes t0 cs m ++ rest)
  = Some (trunc_us t0 cs, len (enc_data false cs), len (enc_data true cs)).
Proof. exact decode_record_bytes. Qed.

(* DataForSearch(): both concatenations and the running totals *)
Theorem C15_record_search_roundtrip : forall t0 cs m rest,
  Forall chunk_ok cs ->
  decode_search (record_bytes t0 cs m ++ rest)
  = Some (enc_data false cs, enc_data true cs, (0, 0) :: totals 0 0 cs,
          len (enc_data false cs), len (enc_data true cs)).
Proof. exact decode_search_bytes. Qed.

(* the exact microsecond statement: microsecond-granular input is returned unchanged ... *)
Theorem C15_times_exact_for_microsecond_input : forall t0 cs,
  (t0 mod 1000 = 0)%Z -> Forall (fun c => (c_time c mod 1000 = 0)%Z) cs -> trunc_us t0 cs = cs.
Proof. exact trunc_us_exact. Qed.

(* ... and nanosecond input (non-decreasing times) loses less than one microsecond per chunk, never gains *)
Theorem C15_times_drift_for_nanosecond_input : forall t0 cs,
  nondecreasing t0 cs ->
  Forall2 (fun c o => same_but_time c o /\ (0 <= c_time c - c_time o <= 999 * Z.of_nat (length cs))%Z)
          cs (trunc_us t0 cs).
Proof. exact trunc_us_drift. Qed.

(* non-vacuity of the hypotheses: the record of TestCachefile's shape *)
Example C15_record_hypotheses_satisfiable :
  let cs := [mkChunk false [49] 1000%Z []; mkChunk false [50] 1000%Z []; mkChunk true [51] 1000001000%Z [102; 111; 111]] in
  Forall chunk_ok cs /\ times_ok 1000%Z cs /\
  decode_record 1000%Z (encode_record 1000%Z cs) = Some (cs, 2, 1).
Proof.
  cbv zeta. split; [|split].
  - repeat constructor; cbn; try congruence; try (unfold W64; reflexivity).
  - cbn. unfold Z63. repeat split; reflexivity.
  - vm_compute. reflexivity.
Qed.

(* ---------------- 3. every history refines a map ---------------- *)
(* op       : OStore id t0 chunks | OInval ids | OReset | OCompact (truncateFile) | OReopen (Close + NewCacheFile)
              | OCrash n (Close, file cut to n bytes, NewCacheFile)
   run ops  : the model object after the history (None = some call returned an error)
   s_run ops: the specification, an association list  id -> (t0, chunks with non-empty content)  with
              store = replace, invalidate = remove, reset = empty, compact/reopen = identity
   op_ok    : stream id < 2^64-1, lengths < 2^64, time steps < 2^63 ns; empty chunks are allowed (dropped)
   Inv st rs: layout invariant -- the file is header ++ records rs, fileSize = |file|, the index maps every live
              stream to the offset/size of its record, freeSize = bytes of tombstoned records, no tombstone
              before freeStart, freeStart is a record boundary *)
Theorem C15_history_refines_map : forall ops,
  Forall op_ok ops -> Forall crash_free ops ->
  exists st rs,
    run ops = Some st /\ Inv st rs /\
    let m := s_run ops in
    stream_count st = N.of_nat (length m) /\
    forall id,
      contains st id = (match s_lookup m id with Some _ => true | None => false end) /\
      match s_lookup m id with
      | None => (forall t0, data st id t0 = Absent) /\ data_for_search st id = Absent
      | Some (t0, cs) =>
          data st id t0 = Ok (trunc_us t0 cs, len (enc_data false cs), len (enc_data true cs)) /\
          data_for_search st id = Ok (enc_data false cs, enc_data true cs, (0, 0) :: totals 0 0 cs,
                                      len (enc_data false cs), len (enc_data true cs))
      end.
Proof. exact history_refines_map. Qed.

(* the accounting invariant in plain terms *)
Theorem C15_accounting : forall st rs, Inv st rs ->
  st_fileSize st = len (st_file st) /\
  st_freeSize st = tomb_bytes rs /\
  st_freeStart st <= st_fileSize st /\
  forall id off sz, lookup (st_infos st) id = Some (off, sz) ->
    16 <= off /\ off + sz <= st_fileSize st /\
    exists a body b, rs = a ++ (id, body) :: b /\ off = 16 + len (flat a) /\ sz = len body /\
                     section st off sz = body.
Proof. exact inv_accounting. Qed.

(* compaction and reopening leave no free space and keep exactly the live records *)
Theorem C15_compaction : forall st rs, Inv st rs ->
  exists st', truncate_file st = Some st' /\ Inv st' (live rs) /\ st_freeSize st' = 0.
Proof. exact truncate_file_inv. Qed.

Theorem C15_reopen : forall st rs, Inv st rs ->
  exists st', reopen fx_all st = Some st' /\ Inv st' (live rs) /\ st_freeSize st' = 0.
Proof. exact reopen_inv. Qed.

(* InvalidateChangedStreams returns exactly the requested streams that were cached *)
Theorem C15_invalidate_reports_cached : forall ids st id,
  In id (snd (invalidate fx_all st ids)) <-> In id ids /\ contains st id = true.
Proof. exact (invalidate_reports_cached fx_all). Qed.

(* ---------------- 4. torn tail ---------------- *)
(* histories may contain crashes at any byte offset: no call ever fails and the invariant holds *)
Theorem C15_history_with_crashes_never_fails : forall ops,
  Forall op_ok ops -> exists st rs, run ops = Some st /\ Inv st rs.
Proof. exact history_never_fails. Qed.

(* every truncation point n >= 8: the file opens and serves exactly the k complete records, k maximal *)
Theorem C15_torn_tail_serves_complete_records : forall ops n,
  Forall op_ok ops -> 8 <= n ->
  exists st rs k st',
    run ops = Some st /\ Inv st rs /\
    crash fx_all st n = Some st' /\
    len (flat (firstn k rs)) <= n - 8 /\ (k = length rs \/ n - 8 < len (flat (firstn (S k) rs))) /\
    (forall id t0, data st' id t0 = dec_result t0 (body_at (firstn k rs) id)) /\
    (forall id, data_for_search st' id = search_result (body_at (firstn k rs) id)) /\
    (forall id, contains st' id = match body_at (firstn k rs) id with Some _ => true | None => false end) /\
    stream_count st' = N.of_nat (length (live (firstn k rs))).
Proof. exact torn_tail_serves_complete_records. Qed.

(* ... and the state after the crash satisfies the invariant for those records *)
Theorem C15_torn_tail_state : forall st rs n, Inv st rs -> 8 <= n ->
  exists k st',
    crash fx_all st n = Some st' /\ Inv st' (live (firstn k rs)) /\ st_freeSize st' = 0 /\
    len (flat (firstn k rs)) <= n - 8 /\
    (k = length rs \/ n - 8 < len (flat (firstn (S k) rs))).
Proof. exact crash_inv. Qed.

(* fewer than 8 bytes left: an empty cache *)
Theorem C15_crash_below_header_gives_empty_cache : forall ops n, Forall op_ok ops -> n < 8 ->
  exists st, run ops = Some st /\ crash fx_all st n = Some reset_state.
Proof. exact crash_below_header. Qed.

(* a record cut anywhere is never mistaken for a complete one *)
Theorem C15_cut_record_is_rejected : forall body q s, sd body -> body = q ++ s -> s <> [] -> skip_stream q = None.
Proof. exact sd_prefix_fails. Qed.

(* ---------------- the code before the three repairs (fx_none = /repo 913d8a0) ---------------- *)
Definition c1 : list chunk := [mkChunk false [120] 1000%Z []].
Definition st1 (fx : fixes) : state := match set_data fx reset_state 1 0%Z c1 with Some s => s | None => reset_state end.

(* a file cut inside its last record did not open *)
Theorem C15_unpatched_torn_tail_refuted : crash fx_none (st1 fx_none) 17 = None /\ crash fx_all (st1 fx_all) 17 = Some reset_state.
Proof. split; vm_compute; reflexivity. Qed.

(* invalidation was forgotten by a restart *)
Theorem C15_unpatched_invalidate_refuted :
  option_map (fun s => contains s 1) (reopen fx_none (fst (invalidate fx_none (st1 fx_none) [1]))) = Some true /\
  option_map (fun s => contains s 1) (reopen fx_all (fst (invalidate fx_all (st1 fx_all) [1]))) = Some false.
Proof. split; vm_compute; reflexivity. Qed.

(* a chunk without content corrupted the record: here the following chunk "x" is lost (no error is reported) *)
Definition c_empty_first : list chunk := [mkChunk true [] 1000%Z []; mkChunk false [120] 2000%Z []].
Theorem C15_unpatched_empty_chunk_refuted :
  option_map (fun s => data s 1 0%Z) (set_data fx_none reset_state 1 0%Z c_empty_first) = Some (Ok ([], 0, 0)) /\
  option_map (fun s => data s 1 0%Z) (set_data fx_all reset_state 1 0%Z c_empty_first)
  = Some (Ok ([mkChunk false [120] 2000%Z []], 1, 0)).
Proof. split; vm_compute; reflexivity. Qed.

(* ---------------- non-vacuity ---------------- *)
Definition ex_ops : list op :=
  [OStore 1 0%Z c1; OStore 2 0%Z [mkChunk true [1; 2] 2000%Z [97]; mkChunk true [] 2000%Z []];
   OInval [1; 7]; OStore 2 0%Z c1; OCompact; OReopen; OStore 1 5000%Z c1].

Example C15_history_hypotheses_satisfiable :
  Forall op_ok ex_ops /\ Forall crash_free ex_ops /\
  s_run ex_ops = [(1, (5000%Z, c1)); (2, (0%Z, c1))] /\
  option_map (fun s => (stream_count s, data s 1 5000%Z, st_fileSize s, st_freeSize s)) (run ex_ops)
  = Some (2, Ok ([mkChunk false [120] 1000%Z []], 1, 0), 45, 0).
Proof.
  split; [|split; [|split]].
  - unfold ex_ops, c1. repeat constructor; cbn; try congruence; try (unfold invalid_id, W64, Z63; lia); try reflexivity.
  - repeat constructor.
  - reflexivity.
  - vm_compute. reflexivity.
Qed.

Example C15_crash_example :
  option_map (fun s => (contains s 1, contains s 2, st_fileSize s))
             (match run ex_ops with Some s => crash fx_all s 43 | None => None end) = Some (false, true, 22).
Proof. vm_compute. reflexivity. Qed.
