(* C15 -- the converter cache behaves like a map from stream to latest output.
   Model: Pk.CacheFile (cachefile.go with the three C15 repairs, fx_all).  Only statements here;
   the proofs are in Pk.CacheFileProofs / CacheFileRecord / CacheFileCts / CacheFileRoundtrip. *)
From Coq Require Import NArith ZArith List Permutation.
Require Import Pk.CacheFile Pk.CacheFileProofs Pk.CacheFileRecord Pk.CacheFileCts Pk.CacheFileRoundtrip.
Import ListNotations.
Open Scope N_scope.

(* ---------------- 1. codec round trips ---------------- *)
Theorem C15_varint_roundtrip : forall n r, n < W64 -> read_varint (write_varint n ++ r) = Some (n, r).
Proof. exact varint_roundtrip. Qed.

Theorem C15_varbytes_roundtrip : forall data r, Forall (fun b => b < 256) data ->
  read_varbytes (write_varbytes data ++ r) = Some (data, r).
Proof. exact varbytes_roundtrip. Qed.

Theorem C15_string_roundtrip : forall s r, len s < W64 -> read_string (write_string s ++ r) = Some (s, r).
Proof. exact string_roundtrip. Qed.

(* ---------------- 2. one record ---------------- *)
(* chunk_ok c  : content not empty, content and content-type lengths < 2^64
   times_ok t0 : every step first-packet -> chunk 1 -> chunk 2 ... is less than 2^63 ns (Time.Sub exact)
   record_bytes t0 cs m : the bytes setData writes when Go iterates its content-type map in order m
   trunc_us t0 cs : same chunks, chunk i gets time  t0 + 1000 * sum_{j<=i} quot (T_j - T_{j-1}) 1000 *)

(* self-delimiting, for every iteration order of the content-type map *)
Theorem C15_record_self_delimiting : forall t0 cs m rest,
  Forall chunk_ok cs -> times_ok t0 cs -> Permutation m (collect_cts 0 cs []) ->
  skip_stream (record_bytes t0 cs m ++ rest) = Some rest.
Proof. exact skip_record_bytes. Qed.

(* Data(): directions, bytes, content types exactly; times as stated by trunc_us *)
Theorem C15_record_roundtrip_any_ct_order : forall t0 cs m rest,
  Forall chunk_ok cs -> times_ok t0 cs -> Permutation m (collect_cts 0 cs []) ->
  decode_record t0 (record_bytes t0 cs m ++ rest)
  = Some (trunc_us t0 cs, len (enc_data false cs), len (enc_data true cs)).
Proof. exact decode_record_bytes. Qed.

(* DataForSearch(): both concatenations and the running totals *)
Theorem C15_record_search_roundtrip : forall t0 cs m rest,
  Forall chunk_ok cs ->
  decode_search (record_bytes t0 cs m ++ rest)
  = Some (enc_data false cs, enc_data true cs, (0, 0) :: totals 0 0 cs,
          len (enc_data false cs), len (enc_data true cs)).
Proof. exact decode_search_bytes. Qed.

(* the exact microsecond statement: microsecond-granular input is returned unchanged ... *)
Theorem C15_times_exact_for_microsecond_input : forall t0 cs,
  (t0 mod 1000 = 0)%Z -> Forall (fun c => (c_time c mod 1000 = 0)%Z) cs -> trunc_us t0 cs = cs.
Proof. exact trunc_us_exact. Qed.

(* ... and nanosecond input (non-decreasing times) loses less than one microsecond per chunk, never gains *)
Theorem C15_times_drift_for_nanosecond_input : forall t0 cs,
  nondecreasing t0 cs ->
  Forall2 (fun c o => same_but_time c o /\ (0 <= c_time c - c_time o <= 999 * Z.of_nat (length cs))%Z)
          cs (trunc_us t0 cs).
Proof. exact trunc_us_drift. Qed.

(* non-vacuity of the hypotheses: the record of TestCachefile's shape *)
Example C15_record_hypotheses_satisfiable :
  let cs := [mkChunk false [49] 1000%Z []; mkChunk false [50] 1000%Z []; mkChunk true [51] 1000001000%Z [102; 111; 111]] in
  Forall chunk_ok cs /\ times_ok 1000%Z cs /\
  decode_record 1000%Z (encode_record 1000%Z cs) = Some (cs, 2, 1).
Proof.
  cbv zeta. split; [|split].
  - repeat constructor; cbn; try congruence; try (unfold W64; reflexivity).
  - cbn. unfold Z63. repeat split; reflexivity.
  - vm_compute. reflexivity.
Qed.
