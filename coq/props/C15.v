Require Import Pk.CacheFile.
Open Scope N_scope.

(* smoke test of the model on the record of TestCachefile-like input; the theorems follow *)
Example C15_model_smoke :
  decode_record 0%Z (encode_record 0%Z [mkChunk false [49] 0%Z []; mkChunk true [51] 1000000000%Z [102;111;111]])
  = Some ([mkChunk false [49] 0%Z []; mkChunk true [51] 1000000000%Z [102;111;111]], 1, 1).
Proof. vm_compute. reflexivity. Qed.
