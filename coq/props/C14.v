(* C14 -- the query parser is total (model side: the normaliser).
   Every function of theories/Query.v is a structural recursion accepted by Coq's termination checker except the
   downward search for a common factor, which carries fuel. Lexer / grammar / value parsers / regexp compile are
   library code and are covered by the watched input stream of checks/c14.py only. *)
From Coq Require Import List NArith ZArith Bool Permutation.
From Pk Require Import Query QuerySort QueryClean QueryOps QueryTotal.
Import ListNotations.
Open Scope Z_scope.

(* the search `for commonFactor--; commonFactor > 1; commonFactor--` never runs out of its fuel (= old) *)
Theorem c14_common_factor_search_within_fuel :
  forall old f : Z, 1 <= old -> exists r, cf_search (Z.to_nat old) (old - 1) old f = Some r.
Proof. exact cf_down_within_fuel. Qed.

(* the summand loop (index now advancing, fixes/C14-common-factor-loop) is a fold over the summands and
   yields a non-negative common divisor of all factors *)
Theorem c14_common_factor_loop_total :
  forall (facs : list Z) (f0 : Z),
    let cf := fold_left cf_step facs (Z.abs f0) in 0 <= cf /\ Forall (fun g => (cf | g)) (f0 :: facs).
Proof. exact common_factor_divides. Qed.

(* parsing twice: the model is a function; what can differ between two runs of the Go code is the order in which
   conditions reach the sorts (map iteration, unstable sort). The meaning of the cleaned conjunct does not depend
   on that order. *)
Theorem c14_meaning_independent_of_arrival_order :
  forall (v : valuation) (c c' : conj),
    val_ok v -> conj_wf c -> Permutation c c' -> eval_conj v (conj_clean c) = eval_conj v (conj_clean c').
Proof. exact clean_order_independent. Qed.

(* _partial: that the division by the common factor never divides by zero and that the sub-query index of
   cleanFlagConditions never underflows needs the invariants "no zero factor / distinct sub-queries" for every
   reachable condition; they are checked by the correspondence runs, not proved. The model takes a sound
   fall-back on those branches (Query.num_norm1), so C03's theorems do not depend on them. *)
Theorem c14_no_division_by_zero_partial :
  forall c : numc, n_sums c = [] -> num_norm1 c = mkNum [] (n_num c).
Proof. exact num_norm1_nosums. Qed.

Example c14_fuel_example : cf_search (Z.to_nat 12) 11 12 18 = Some 6.
Proof. reflexivity. Qed.
