(* C14 -- the query parser is total (model side: the normaliser).
   Every function of theories/Query.v is a structural recursion accepted by Coq's termination checker except the
   downward search for a common factor, which carries fuel. Lexer / grammar / value parsers / regexp compile are
   library code and are covered by the watched input stream of checks/c14.py only. *)
From Coq Require Import List NArith ZArith Bool Permutation.
From Pk Require Import Query QuerySort QueryClean QueryOps QueryTotal QueryInv.
Import ListNotations.
Open Scope Z_scope.

(* the search `for commonFactor--; commonFactor > 1; commonFactor--` never runs out of its fuel (= old) *)
Theorem c14_common_factor_search_within_fuel :
  forall old f : Z, 1 <= old -> exists r, cf_search (Z.to_nat old) (old - 1) old f = Some r.
Proof. exact cf_down_within_fuel. Qed.

(* the summand loop (index now advancing, fixes/C14-common-factor-loop) is a fold over the summands and
   yields a non-negative common divisor of all factors *)
Theorem c14_common_factor_loop_total :
  forall (facs : list Z) (f0 : Z),
    let cf := fold_left cf_step facs (Z.abs f0) in 0 <= cf /\ Forall (fun g => (cf | g)) (f0 :: facs).
Proof. exact common_factor_divides. Qed.

(* parsing twice: the model is a function; what can differ between two runs of the Go code is the order in which
   conditions reach the sorts (map iteration, unstable sort). The meaning of the cleaned conjunct does not depend
   on that order. *)
Theorem c14_meaning_independent_of_arrival_order :
  forall (v : valuation) (c c' : conj),
    val_ok v -> conj_wf c -> Permutation c c' -> eval_conj v (conj_clean c) = eval_conj v (conj_clean c').
Proof. exact clean_order_independent. Qed.

(* no division by zero in cleanNumberConditions. (a) Invariant of every number condition in every set the normaliser
   builds, for EVERY expression (THEN included): the summands have pairwise different (sub-query, type) keys and no
   zero factor. (b) On such a condition the merge loop changes nothing and the common factor is positive at every
   step, so every `%` and `/` of the function has a positive right operand. *)
Theorem c14_number_conditions_invariant :
  forall (e : expr) (cs : cset), norm e = Some cs -> cset_num_ok cs.
Proof. exact norm_num_ok. Qed.

Theorem c14_common_factor_positive :
  forall c : numc, num_ok c ->
    match isort nsum_key (n_sums c) with
    | [] => True
    | a :: r =>
        nsum_merge a r = a :: r /\
        0 < fold_left cf_step (map ns_fac r) (Z.abs (ns_fac a)) /\
        Forall (fun s => 0 < Z.abs (ns_fac s)) (a :: r)
    end.
Proof. exact common_factor_positive. Qed.

(* cleaning keeps the invariant (so it also holds for what And hands to the next clean) *)
Theorem c14_clean_keeps_invariant :
  forall c : conj, conj_num_ok c -> conj_num_ok (conj_clean c).
Proof. exact conj_clean_ok. Qed.

(* no index underflow in cleanFlagConditions (`i -= 2` after removing a duplicate sub-query). (a) Every flag condition
   in every set the normaliser builds, for EVERY expression, names each sub-query at most once. (b) On such a condition
   the duplicate loop removes nothing, so the index is never decremented. *)
Theorem c14_flag_subqueries_distinct :
  forall (e : expr) (cs : cset), norm e = Some cs -> Forall (Forall flag_subs_ok) cs.
Proof. exact norm_flag_subs. Qed.

Theorem c14_flag_duplicate_loop_idle :
  forall l : list N, NoDup l -> subs_cancel (nsort l) = nsort l.
Proof. exact flag_subs_loop_idle. Qed.

(* Promptness of ConditionsSet.Clean's fast path for id lists: its work is a function of the NUMBER of conjuncts, never of the
   magnitudes of the numerals. The fast path is only taken when every conjunct admits exactly one id (a range with two
   different ends makes it give up and leaves the set to the general loop); it then collects one id per conjunct, and its
   result has at most as many conjuncts as the set had, of two conditions each. A fast path that walks through the ids of
   a range (seeded change C14-r4a-n2) is not this function; the check's input stream carries ranges up to 2^63 wide. *)
Theorem c14_id_fast_path_one_id_per_conjunct :
  forall (cs : cset) (ids : list Z), simple_ids cs = Some ids ->
    Forall (fun cc => exists i, extract_simple_id (conj_clean cc) = Some (i, i)) cs.
Proof. exact simple_ids_single. Qed.
Theorem c14_id_fast_path_work_bounded_by_conjunct_count :
  forall cs : cset,
    (forall ids, simple_ids cs = Some ids -> length ids = length cs) /\
    (forall out, clean_simple_id cs = Some out ->
       (length out <= length cs)%nat /\ Forall (fun c => length c = 2%nat) out).
Proof. exact simple_id_work_bounded. Qed.

Example c14_fuel_example : cf_search (Z.to_nat 12) 11 12 18 = Some 6.
Proof. reflexivity. Qed.
