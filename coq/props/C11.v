(* C11 -- tag management calls are total, atomic and keep the tag graph well-formed.

   Model: theories/TagApi.v (AddTag, DelTag, UpdateTag with its six exported operations,
   inheritTagUncertainty, written after internal/index/manager/manager.go with
   fixes/C11-1..4 applied).  [parse] is query.Parse as an arbitrary function: every theorem
   holds for every parser.  Results: Ok | Err e | Crash (nil dereference in the service
   loop) | Hang (a loop of the service goroutine that does not end).  *)
From Coq Require Import List String NArith.
Require Import Pk.TagApi Pk.TagApiProofs.
Import ListNotations.
Open Scope string_scope.

(* The tag graph invariant (TagApiProofs.wf_tags): keys unique (NoDup (keys ts)); references
   closed (closed ts: every referenced name is a key); referencedBy = inverse of the references
   (mirror ts); a rank function strictly decreasing along references (acyclic ts), which excludes
   every reference cycle (theorem c11_no_reference_cycle, over the inductive [reach]). *)

(* 1. TOTAL + ATOMIC + INVARIANT, one call: on a well-formed table every API call is either
      applied (Ok, table again well-formed, converters / stream count untouched) or rejected
      (Err e) with the state unchanged.  Crash and Hang do not occur. *)
Theorem c11_call_total_atomic_wf :
  forall (parse : string -> parse_result) (st : state) (c : call),
    wf_tags (tags st) ->
    (fst (step parse st c) = Ok /\ wf_tags (tags (snd (step parse st c)))
       /\ convs (snd (step parse st c)) = convs st /\ next_id (snd (step parse st c)) = next_id st)
    \/ (exists e, fst (step parse st c) = Err e /\ snd (step parse st c) = st).
Proof. exact step_good. Qed.

(* 2. ATOMIC for every state, well-formed or not: whatever is not Ok leaves the state unchanged. *)
Theorem c11_not_ok_unchanged :
  forall parse st c r st', step parse st c = (r, st') -> r <> Ok -> st' = st.
Proof. exact step_atomic. Qed.

(* 3. EVERY HISTORY: after any finite sequence of calls (arbitrary names, definitions, ids,
      converter names) from the empty table the table is well-formed ... *)
Theorem c11_history_wf :
  forall parse cv next (cs : list call), wf_tags (tags (run parse (init_state cv next) cs)).
Proof. exact history_wf. Qed.

(* ... and the next call is answered with nil or with an error that changes nothing. *)
Theorem c11_history_total_atomic :
  forall parse cv next (cs : list call) (c : call),
    let st := run parse (init_state cv next) cs in
    fst (step parse st c) = Ok \/ exists e, fst (step parse st c) = Err e /\ snd (step parse st c) = st.
Proof. exact history_total_atomic. Qed.

(* 4. What the invariant means. *)
Theorem c11_no_missing_reference :
  forall ts k t r, wf_tags ts -> get ts k = Some t -> In r (refs t) -> exists tr, get ts r = Some tr.
Proof. exact wf_no_dangling. Qed.

Theorem c11_no_reference_cycle : forall ts a, wf_tags ts -> ~ reach ts a a.
Proof. exact wf_no_cycle. Qed.

Theorem c11_referenced_flag_mirrors_definitions :
  forall ts a ta, wf_tags ts -> get ts a = Some ta ->
    (referenced ta = true <-> exists b tb, get ts b = Some tb /\ In a (refs tb)).
Proof. exact wf_referenced_mirrors. Qed.

(* 5. A tag that others reference cannot be deleted or renamed. *)
Theorem c11_referenced_tag_not_deletable :
  forall st nm st' b tb, wf_tags (tags st) -> del_tag st nm = (Ok, st') ->
    get (tags st) b = Some tb -> ~ In nm (refs tb).
Proof. exact del_guard. Qed.

Theorem c11_referenced_tag_not_renamable :
  forall st nm nn st' b tb, wf_tags (tags st) -> nn <> "" -> update_name st nm nn = (Ok, st') ->
    get (tags st) b = Some tb -> ~ In nm (refs tb).
Proof. exact rename_guard. Qed.

(* 5b. Converters are only attached to tags that attachConverterToTag accepts (no data filter, no tag
       reference) -- after EVERY history, so manager.New can attach every saved converter again
       (fixes/C11-4 closed the query-update path). *)
Theorem c11_converters_only_on_attachable_tags :
  forall parse cv next (cs : list call) k t,
    get (tags (run parse (init_state cv next) cs)) k = Some t ->
    nonempty (t_convs t) = true -> complex t = false.
Proof. exact history_conv_ok. Qed.

(* 5c. A TAGGING JOB IN FLIGHT.  startTaggingJobIfNeeded hands a copy of a tag to updateTagJob; API calls
       go on while it runs; the completion closure stores the copy back (unless the tag is gone or has
       another definition) with colour, converters and referencedBy taken from the stored tag.  For EVERY
       interleaving of API calls, job starts (for any tag) and job completions the graph invariant holds. *)
Theorem c11_job_completion_keeps_graph_wf_every_interleaving :
  forall parse cv next (es : list jev), wf_tags (tags (js (jrun parse cv next es))).
Proof. exact jrun_wf. Qed.

(* the completion that keeps the job's own referencedBy (seeded change C11-r4c-n1): delete + re-create with
   the same definition + add a referrer while the job runs, then the completion: the referrer is forgotten
   and the referenced tag can be deleted *)
Theorem c11_completion_without_refby_takeover_refuted :
  let s := fold_left (jstep_seeded demo_parse) seeded_history (mkJ (init_state [] 4%N) None) in
  option_map t_refby (get (tags (js s)) "tag/a") = Some [] /\
  fst (step demo_parse (js s) (CDel "tag/a")) = Ok.
Proof. exact seeded_completion_loses_referrer. Qed.

Example c11_ex_faithful_completion_keeps_referrer :
  let s := fold_left (jstep demo_parse) seeded_history (mkJ (init_state [] 4%N) None) in
  option_map t_refby (get (tags (js s)) "tag/a") = Some ["tag/b"] /\
  fst (step demo_parse (js s) (CDel "tag/a")) = Err EReferenced.
Proof. exact faithful_completion_keeps_referrer. Qed.

(* 5d. The definition of a mark tag (all that a restart rebuilds its matches from) denotes exactly its matches after
       every sequence of MarkAddStream / MarkDelStream operations - at the level of the id list that the text
       denotes; the step from the decimal text to that list is checked on the real code through the real parser. *)
Theorem c11_mark_definition_denotes_matches :
  forall (ids : list N) (ops : list markop) (x : N),
    In x (md_ids (fold_left md_step ops (md_init ids))) <-> In x (md_matches (fold_left md_step ops (md_init ids))).
Proof. exact mark_definition_denotes_matches. Qed.

(* 6. inheritTagUncertainty terminates on every well-formed table within |tags| passes and
      only changes the uncertain sets. *)
Theorem c11_inherit_uncertainty_terminates :
  forall all ts, wf_tags ts ->
    exists ts' res', inherit_uncertainty all ts = Some (ts', res') /\ same_graph ts ts' /\ keys ts' = keys ts.
Proof. exact inherit_terminates. Qed.

(* 6b. ... for ANY order in which the passes visit the map (Go's range order is unspecified and may
       differ from pass to pass): [ords k] is the order of pass k and only has to contain every key. *)
Theorem c11_inherit_uncertainty_terminates_any_order :
  forall (ords : nat -> list name) all ts, wf_tags ts ->
    (forall k n, In n (keys ts) -> In n (ords k)) ->
    exists ts' res', inherit_loop_ord (List.length ts) ords all ts [] = Some (ts', res') /\ same_graph ts ts' /\ keys ts' = keys ts.
Proof. exact inherit_terminates_any_order. Qed.

(* 7. The reference walk added by the patch never runs out of its fuel (the fuel is a proof
      device, the Go loop has none). *)
Theorem c11_reference_walk_fuel_suffices :
  forall ts nm todo, dfs (dfs_fuel ts todo) ts nm todo [] <> DFuel.
Proof. exact dfs_initial_fuel. Qed.

(* 8. The UNPATCHED UpdateTag (update_query_orig): reproduced on the Go code before the patches,
      corpus/C11/01 and 02. *)
Theorem c11_unpatched_update_crashes_refuted :
  fst (step_orig demo_parse (run_orig [CAdd "tag/b" "red" "sport:80"]) (CUpd "tag/b" (UQuery "tag:zz"))) = Crash.
Proof. exact orig_unknown_reference_crashes. Qed.

Theorem c11_unpatched_update_hangs_refuted :
  fst (step_orig demo_parse (run_orig [CAdd "tag/a" "red" "sport:80"; CAdd "tag/b" "red" "tag:a"])
                 (CUpd "tag/a" (UQuery "tag:b"))) = Hang.
Proof. exact orig_cycle_hangs. Qed.

Theorem c11_cyclic_table_never_resolves_refuted :
  forall fuel all, inherit_loop fuel all cyc_tags [] = None.
Proof. exact cycle_never_resolves. Qed.

(* 9. LIMIT of theorems 1-3: they are about a state directory that can be written.  When saveState
      fails the call returns the error but keeps the change (no rollback): witness below, reproduced on
      the Go code by fault injection (corpus/C11/iofail/savestate-failure.json, replay only).  The graph
      invariant is kept even then. *)
Theorem c11_save_failure_leaves_change_refuted :
  let st := init_state [] 4%N in
  fst (step_savefail demo_parse st (CAdd "tag/a" "red" "sport:80")) = Err ESaveState /\
  tags (snd (step_savefail demo_parse st (CAdd "tag/a" "red" "sport:80"))) <> tags st.
Proof. exact savefail_keeps_change. Qed.

Theorem c11_save_failure_keeps_graph_wf :
  forall parse st c, wf_tags (tags st) -> wf_tags (tags (snd (step_savefail parse st c))).
Proof. exact savefail_wf. Qed.

(* Non-vacuity: the hypotheses are satisfiable and the interesting branches are taken. *)
Example c11_ex_wf_nonempty :
  let st := run demo_parse (init_state [] 4%N) [CAdd "tag/a" "red" "sport:80"; CAdd "tag/b" "red" "tag:a"] in
  wf_tags (tags st) /\ List.length (tags st) = 2.
Proof. split; [apply history_wf|vm_compute; reflexivity]. Qed.

Example c11_ex_patched_rejects_unknown :
  let st := run demo_parse (init_state [] 4%N) [CAdd "tag/b" "red" "sport:80"] in
  step demo_parse st (CUpd "tag/b" (UQuery "tag:zz")) = (Err EUnknownRef, st).
Proof. exact fixed_unknown_reference_rejected. Qed.

Example c11_ex_patched_rejects_cycle :
  let st := run demo_parse (init_state [] 4%N) [CAdd "tag/a" "red" "sport:80"; CAdd "tag/b" "red" "tag:a"] in
  step demo_parse st (CUpd "tag/a" (UQuery "tag:b")) = (Err ECycle, st).
Proof. exact fixed_cycle_rejected. Qed.

Example c11_ex_delete_referenced_rejected :
  let st := run demo_parse (init_state [] 4%N) [CAdd "tag/a" "red" "sport:80"; CAdd "tag/b" "red" "tag:a"] in
  step demo_parse st (CDel "tag/a") = (Err EReferenced, st)
  /\ fst (step demo_parse st (CUpd "tag/a" (UName "tag/c"))) = Err EReferenced
  /\ fst (step demo_parse st (CUpd "tag/b" (UName "tag/c"))) = Ok
  /\ fst (step demo_parse st (CUpd "tag/b" (UQuery "sport:80"))) = Ok.
Proof. vm_compute. repeat split; reflexivity. Qed.
