(* C11 -- tag management calls are total, atomic and keep the tag graph well-formed. *)
From Coq Require Import List String NArith.
Require Import Pk.TagApi Pk.TagApiProofs.

Theorem c11_del_error_unchanged_partial :
  forall st nm e st', del_tag st nm = (Err e, st') -> st' = st.
Proof. exact del_tag_error_unchanged. Qed.
