(* placeholder, replaced below *)
