(* C05 -- indexed payload equals what the endpoints exchanged on the wire.
   Level: proof of pkappa2's own logic (packet ordering across captures, UDP assembler, attribution);
   gopacket / libpcap are modelled by the ideal reassembler Tcp.v, whose round-trip theorem is the
   specification the correspondence check holds the library to. *)
From Pk Require Import BuilderOrder BuilderOrderProofs Attrib AttribProofs Udp UdpProofs UdpInterleave Tcp TcpProofs.
From Pk Require Import Import ImportIndex.
Require Pk.IndexFormat Pk.IndexFormatWriter Pk.IndexFormatData.
From Coq Require Import Sorting.Sorted Sorting.Permutation.

(* (1) The lazy multi-capture loop feeds the reassemblers the sorted list of all needed packets, each once. *)
Theorem C05_feed_sorted_each_packet_once : forall pcaps newPackets,
  Forall pcap_ok pcaps -> mins_sorted pcaps ->
  StronglySorted kle (feed pcaps newPackets) /\
  Permutation (feed pcaps newPackets) (newPackets ++ flat_map snd pcaps).
Proof. exact feed_sorted_permutation. Qed.

Theorem C05_feed_is_the_global_sort : forall pcaps newPackets,
  Forall pcap_ok pcaps -> mins_sorted pcaps ->
  keys_identify (newPackets ++ flat_map snd pcaps) ->
  feed pcaps newPackets = sort_packets (newPackets ++ flat_map snd pcaps).
Proof. exact feed_is_global_sort. Qed.

(* hypotheses are satisfiable: two replayed captures and one new one, interleaved timestamps *)
Example C05_feed_example :
  let mk ts f i := mkPacket ts f i (1, 1) (2, 2) false false false false false 0 [] in
  let pcaps := [(10, [mk 10 0 0; mk 30 0 1]); (20, [mk 20 1 0; mk 20 1 1])] in
  Forall pcap_ok pcaps /\ mins_sorted pcaps /\
  map (fun p => (p_ts p, p_file p, p_idx p)) (feed pcaps [mk 25 2 0; mk 5 2 1]) =
  [(5, 2, 1); (10, 0, 0); (20, 1, 0); (20, 1, 1); (25, 2, 0); (30, 0, 1)].
Proof.
  split; [repeat constructor; vm_compute; discriminate|].
  split; [repeat constructor; vm_compute; discriminate|].
  vm_compute. reflexivity.
Qed.

(* (2) UDP assembler: non-interference of flows.  For EVERY feed with non-decreasing timestamps (what (1) delivers),
   every hash function (bucket collisions included) and every flow {a,b}: the streams of that flow in the
   factory are exactly [flow_runs] of the flow's own packets -- a new stream for the first packet and after every
   gap above the timeout, client = first sender of the run, datagrams appended in order with their sender's
   direction.  [forget] clears the Complete flag only (another flow's packet may trigger the flush earlier; the flag
   is not written to the index). *)
Theorem C05_udp_flows_do_not_interfere : forall (a b : endpoint), a <> b ->
  forall (hashf : N -> N) (l : list packet),
  tsorted 0 l ->
  map forget (filter (sflow a b) (fst (udp_run hashf l))) = map forget (flow_runs None (filter (same_flow a b) l)).
Proof. exact udp_flows_do_not_interfere. Qed.

Theorem C05_feed_timestamps_nondecreasing : forall pcaps newPackets,
  Forall pcap_ok pcaps -> mins_sorted pcaps -> tsorted 0 (feed pcaps newPackets).
Proof. exact feed_tsorted. Qed.

(* one flow alone: exact, Complete flag included, no hypothesis on the timestamps *)
Theorem C05_udp_one_flow_alone : forall (hashf : N -> N) (a b : endpoint) (l : list packet),
  a <> b ->
  Forall (fun p => (p_src p = a /\ p_dst p = b) \/ (p_src p = b /\ p_dst p = a)) l ->
  fst (udp_run hashf l) = flow_runs None l.
Proof. intros hashf a b l Hab Hl. exact (one_flow_streams hashf a b Hab l Hl). Qed.

(* hypotheses satisfiable + the statement at work: two flows colliding in one bucket, one swapping roles after the timeout *)
Example C05_udp_interleaving_example :
  let A := (1, 1000) in let B := (2, 2000) in let C := (3, 1000) in
  let feed := [exU 0 A B [1]; exU 1 C B [9]; exU 2 B A [2]; exU 3 B C [8]; exU 400000000 B A [3]; exU 400000001 C B [7]] in
  tsorted 0 feed /\
  map (fun s => (s_client s, coalesce (stream_data s))) (filter (sflow A B) (fst (udp_run (fun _ => 0) feed))) =
  [(A, [(false, [1]); (true, [2])]); (B, [(false, [3])])].
Proof. split; [vm_compute; intuition discriminate|vm_compute; reflexivity]. Qed.

Theorem C05_udp_client_is_first_sender : forall p l s rest,
  flow_runs None (p :: l) = s :: rest -> s_client s = p_src p /\ s_server s = p_dst p.
Proof. exact flow_runs_first_client. Qed.

(* (3) Every UDP datagram's bytes are attributed to the packet that carried them (hence its direction). *)
Theorem C05_udp_payload_attributed_to_its_packet : forall s r dir b,
  b <> [] ->
  s_data (add_udp_packet s r dir b) = (s_npk s, b) :: s_data s /\
  dir_of_index (add_udp_packet s r dir b) (s_npk s) = dir.
Proof. exact udp_payload_attributed_to_its_packet. Qed.

(* (4) Ideal TCP reassembly: every segmentation, duplication (exact, coalesced, partial) and reordering
   of a direction's byte stream is inverted -- the specification of the gopacket Section. *)
Theorem C05_tcp_ideal_reassembly_inverts_every_perturbation : forall (data : list N) (l : list seg),
  Forall (slice data) l -> covers data l -> reasm l = data.
Proof. exact reasm_perturbed_segments. Qed.

(* hypotheses are satisfiable: "abcdefgh" as b|cdefgh first, then a, then a coalesced retransmission *)
Example C05_reasm_example :
  let data := [97; 98; 99; 100; 101; 102; 103; 104] in
  let l := [(2, [99; 100; 101; 102; 103; 104]); (1, [98]); (0, [97]); (0, [97; 98; 99]); (5, [102; 103; 104])] in
  Forall (slice data) l /\ reasm l = data.
Proof. split; [repeat constructor; vm_compute; discriminate|vm_compute; reflexivity]. Qed.

(* (5) Composition with C01 (the index format model Pk.IndexFormat and its round-trip theorem are owned by C01 and only
   imported): every stream the UDP assembler hands to the writer is well formed for it, and Stream.Data() of the stored
   stream returns, per direction, exactly the payload the import model attributes to that direction, changing
   direction exactly where the model's runs do.  [to_istream] is the streams.Stream a model stream stands for
   (addresses, file names and the time base are parameters).  The remaining hypotheses are C01's own side conditions
   (AddStream sequence succeeded, reader opened, sizes below the field widths). *)
Theorem C05_udp_streams_well_formed : forall hashf l, Forall swf (fst (udp_run hashf l)).
Proof. exact udp_streams_well_formed. Qed.

Theorem C05_written_stream_data_reads_back :
  forall (addr_bytes file_name : N -> list N) (ts_ns : N -> N) gcap (L : list (N * stream)) w r,
  16 < gcap <= 4 * Pk.IndexFormat.P16 ->
  Forall (fun ids => Pk.IndexFormatWriter.wf_meta (snd ids)) (to_L addr_bytes file_name ts_ns L) ->
  Pk.IndexFormat.add_streams gcap Pk.IndexFormat.new_writer (to_L addr_bytes file_name ts_ns L) = Some w ->
  Pk.IndexFormat.new_reader (Pk.IndexFormat.finalize w) = Some r ->
  Pk.IndexFormat.lenN (Pk.IndexFormat.w_packets w) < Pk.IndexFormat.P32 ->
  forall k id s rec, nth_error L k = Some (id, s) -> swf s -> s_pkts s <> [] ->
    Pk.IndexFormat.lenN (Pk.IndexFormat.stream_payload (to_istream addr_bytes file_name ts_ns s) false) +
    Pk.IndexFormat.lenN (Pk.IndexFormat.stream_payload (to_istream addr_bytes file_name ts_ns s) true) < Pk.IndexFormat.P64 ->
    nth_error (Pk.IndexFormat.all_streams r) k = Some rec ->
    exists cks, Pk.IndexFormat.data r rec = Some cks /\
      (forall d, Pk.IndexFormatData.payload_dir d cks =
                 concat (map snd (filter (fun x => Bool.eqb (fst x) d) (stream_data s)))) /\
      Pk.IndexFormatData.compress (map Pk.IndexFormat.c_dir cks) =
      Pk.IndexFormatData.compress (map fst (filter (fun x => negb (lenN (snd x) =? 0)) (coalesce (stream_data s)))).
Proof. exact written_stream_data_reads_back. Qed.
