(* C19 -- file endpoints stay inside the capture directory and never overwrite.

   The statements below are about the definitions of theories/GenRoutes.v, which
   translate/c19 regenerates from cmd/pkappa2/main.go on every run: route regexps, guard,
   filepath.Join arguments, os.OpenFile flags and the branch skeleton of the upload handler.
   If the source changes so that one of the side conditions (proved here by computation on
   the generated terms) no longer holds, this file stops compiling. *)
From Coq Require Import List NArith Bool.
Import ListNotations.
Require Import Pk.Upload Pk.UploadProofs Pk.UploadRegexProofs Pk.GenRoutes.
Open Scope N_scope.

(* ---- side conditions on the generated definitions (finite computations) *)
Theorem gen_upload_route_excludes_special : route_excludes_special gen_upload_re = true.
Proof. vm_compute. reflexivity. Qed.

Theorem gen_download_route_excludes_special : route_excludes_special gen_download_re = true.
Proof. vm_compute. reflexivity. Qed.

Theorem gen_guards : uh_guard gen_upload = GuardNeBase /\ gen_download_guard = GuardNeBase.
Proof. split; reflexivity. Qed.

Theorem gen_joins : uh_join gen_upload = [JBaseDir; JPcapDir; JFilename] /\ gen_download_join = [JBaseDir; JPcapDir; JFilename].
Proof. split; reflexivity. Qed.

Theorem gen_open_exclusive : exclusive_create (uh_flags gen_upload) = true.
Proof. vm_compute. reflexivity. Qed.

Theorem gen_skeleton : skeleton_ok gen_upload = true.
Proof. vm_compute. reflexivity. Qed.

(* ---- 1. every parameter value that gets past route regexp and guard is a plain name, and
        the path built from it is that name directly below the capture directory
        Join(base_dir, pcap_dir) -- for every byte string f and every pair of directories *)
Theorem upload_name_is_safe : forall f,
  accept (uh_guard gen_upload) gen_upload_re f = true ->
  f <> [] /\ f <> [DOT] /\ f <> [DOT; DOT] /\ ~ In SLASH f.
Proof. intros f H. exact (accept_safe gen_upload_re f gen_upload_route_excludes_special H). Qed.

Theorem upload_target_is_direct_child : forall bd pd f,
  accept (uh_guard gen_upload) gen_upload_re f = true ->
  target (uh_join gen_upload) bd pd f = child (join [bd; pd]) f.
Proof.
  intros bd pd f H. apply join3_child.
  exact (accept_safe gen_upload_re f gen_upload_route_excludes_special H).
Qed.

Theorem download_name_is_safe : forall f,
  accept gen_download_guard gen_download_re f = true ->
  f <> [] /\ f <> [DOT] /\ f <> [DOT; DOT] /\ ~ In SLASH f.
Proof. intros f H. exact (accept_safe gen_download_re f gen_download_route_excludes_special H). Qed.

Theorem download_target_is_direct_child : forall bd pd f,
  accept gen_download_guard gen_download_re f = true ->
  target gen_download_join bd pd f = child (join [bd; pd]) f.
Proof.
  intros bd pd f H. apply join3_child.
  exact (accept_safe gen_download_re f gen_download_route_excludes_special H).
Qed.

(* `child d f` really is d, a separator, f: the name is the last component *)
Theorem child_shape : forall d f, safe_name f ->
  exists pre, child d f = pre ++ f /\ (pre = [] \/ exists d', pre = d' ++ [SLASH]).
Proof. exact child_split. Qed.

(* the model of chi's matching hands over one non-empty segment without '/' *)
Theorem route_param_is_one_segment : forall pre r path seg,
  route_match pre r path = Some seg -> seg <> [] /\ ~ In SLASH seg /\ re_match r seg = true.
Proof. exact route_match_no_slash. Qed.

(* the matcher used above decides the usual language of the regular expression (bytes; `.` is
   not newline; anchored), for every expression the translator can produce and every string *)
Theorem route_regexp_matcher_decides_language : forall s r, re_match r s = true <-> lang r s.
Proof. exact re_match_spec. Qed.

(* ---- 2. two uploads of one name, flags as in the source: for every schedule (any list of
        thread choices), every failure plan of either upload (copy fails after any number of
        chunks, close fails, remove fails), all bodies, file absent or present before *)
Definition gen_setup (b1 b2 : list N) (p1 p2 : plan) : setup :=
  {| s_excl := exclusive_create (uh_flags gen_upload); s_body1 := b1; s_body2 := b2; s_plan1 := p1; s_plan2 := p2 |}.

Theorem upload_never_touches_foreign_file : forall b1 b2 p1 p2 pre sched,
  bad (w_sh (run (gen_setup b1 b2 p1 p2) pre sched)) = false.
Proof. intros. apply never_touches_foreign_file. exact gen_open_exclusive. Qed.

Theorem upload_existing_file_untouched : forall b1 b2 p1 p2 c0 sched,
  let w := run (gen_setup b1 b2 p1 p2) (Some c0) sched in
  file (w_sh w) = Some (c0, None) /\ queued (w_sh w) = [] /\ w_pc1 w <> PDone true /\ w_pc2 w <> PDone true.
Proof. intros. apply existing_file_untouched. exact gen_open_exclusive. Qed.

Theorem upload_queued_iff_success : forall b1 b2 p1 p2 pre sched,
  let su := gen_setup b1 b2 p1 p2 in
  let w := run su pre sched in
  (In true (queued (w_sh w)) <-> w_pc1 w = PDone true) /\
  (In false (queued (w_sh w)) <-> w_pc2 w = PDone true) /\
  (w_pc1 w = PDone true -> file (w_sh w) = Some (b1, Some true)) /\
  (w_pc2 w = PDone true -> file (w_sh w) = Some (b2, Some false)).
Proof. intros. apply (queued_iff_success su pre sched). exact gen_open_exclusive. Qed.

Theorem upload_queued_at_most_once : forall b1 b2 p1 p2 pre sched,
  (length (queued (w_sh (run (gen_setup b1 b2 p1 p2) pre sched))) <= 1)%nat.
Proof. intros. apply queued_at_most_once. exact gen_open_exclusive. Qed.

Theorem upload_at_most_one_winner : forall b1 b2 p1 p2 pre sched,
  let w := run (gen_setup b1 b2 p1 p2) pre sched in
  ~ (w_pc1 w = PDone true /\ w_pc2 w = PDone true).
Proof. intros. apply at_most_one_winner. exact gen_open_exclusive. Qed.

Theorem upload_owner_is_creator : forall b1 b2 p1 p2 pre sched,
  let w := run (gen_setup b1 b2 p1 p2) pre sched in
  (owns (w_pc1 w) = true -> exists c, file (w_sh w) = Some (c, Some true)) /\
  (owns (w_pc2 w) = true -> exists c, file (w_sh w) = Some (c, Some false)).
Proof. intros. apply (owner_is_creator (gen_setup b1 b2 p1 p2) pre sched). exact gen_open_exclusive. Qed.

(* ---- non-vacuity and contrast *)
Definition a_pcap : str := [97; 46; 112; 99; 97; 112].                 (* "a.pcap" *)
Definition no_fail : plan := {| copy_fail := None; close_fail := false; remove_fail := false |}.
Definition copy_fails1 : plan := {| copy_fail := Some 1%nat; close_fail := false; remove_fail := false |}.

Example accept_satisfiable : accept (uh_guard gen_upload) gen_upload_re a_pcap = true.
Proof. vm_compute. reflexivity. Qed.

Example accept_download_satisfiable : accept gen_download_guard gen_download_re a_pcap = true.
Proof. vm_compute. reflexivity. Qed.

(* "/data" "pcaps" "a.pcap" -> "/data/pcaps/a.pcap" *)
Example target_example :
  target (uh_join gen_upload) [47; 100] [112] a_pcap = [47; 100; 47; 112; 47; 97; 46; 112; 99; 97; 112].
Proof. vm_compute. reflexivity. Qed.

(* the guard alone does not exclude "..", the regexp does *)
Example guard_alone_passes_dotdot : guard_ok GuardNeBase [DOT; DOT] = true /\ re_match gen_upload_re [DOT; DOT] = false.
Proof. vm_compute. split; reflexivity. Qed.

(* a loosened regexp `.+` would not satisfy the side condition *)
Example loosened_regexp_fails_side_condition : route_excludes_special (Plus AnyNoNL) = false.
Proof. vm_compute. reflexivity. Qed.

(* a run in which upload 1 wins and upload 2 loses: both finish, one queued *)
Example one_winner_run :
  let w := run (gen_setup [1; 2] [3; 4] no_fail no_fail) None
               [true; false; true; true; true; true; true] in
  w_pc1 w = PDone true /\ w_pc2 w = PDone false /\ queued (w_sh w) = [true] /\ file (w_sh w) = Some ([1; 2], Some true).
Proof. vm_compute. repeat split; reflexivity. Qed.

(* upload 1 fails midway and removes its file, afterwards upload 2 creates it anew and wins *)
Example failed_then_second_wins :
  let w := run (gen_setup [1; 2] [3; 4] copy_fails1 no_fail) None
               [true; true; true; true; true; false; false; false; false; false; false] in
  w_pc1 w = PDone false /\ w_pc2 w = PDone true /\ queued (w_sh w) = [false] /\ file (w_sh w) = Some ([3; 4], Some false).
Proof. vm_compute. repeat split; reflexivity. Qed.

(* without O_EXCL (e.g. O_TRUNC) the model loses the property: the hypothesis is needed *)
Example without_excl_refuted :
  let su := {| s_excl := false; s_body1 := [1; 2]; s_body2 := [3; 4]; s_plan1 := no_fail; s_plan2 := no_fail |} in
  let w := run su (Some [9; 9; 9]) [true; true] in
  bad (w_sh w) = true /\ file (w_sh w) = Some ([1], None).
Proof. vm_compute. split; reflexivity. Qed.
