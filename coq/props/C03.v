(* C03 -- query normalisation never changes what a query means.
   Model: theories/Query.v (internal/query/conditions.go after fixes/C03-*.patch, C14-*.patch).
   Proofs: QuerySort, QueryClean, QueryFlags, QueryHosts, QueryOps, QuerySet, QueryAtoms, QueryMain, QuerySeq, QueryThen,
   QueryGroup, QueryChain, QueryMulti (the judged fragment), QueryTotal (witnesses). *)
From Coq Require Import List NArith ZArith Bool Permutation.
From Pk Require Import Query QuerySort QueryClean QueryFlags QueryHosts QueryOps QuerySet QueryAtoms QueryMain QueryTotal QuerySeq QueryThen QueryGroup QueryChain QueryMulti.
Import ListNotations.

(* (1) Meaning is preserved. For every valuation (one stream per sub-query name with ids, ports, byte counts >= 0,
   ftime <= ltime, tag states; an ARBITRARY payload oracle, matching started at any position) and every well-formed
   expression of the judged fragment `wf_seq true` (notes/C03.md), the conditions returned by query.Parse evaluate to
   the meaning of the text as written. The judged fragment: AND, OR, NOT, parentheses, sort/limit/group directives in any
   nesting over every filter kind (value lists, ranges, open ranges, masks, variables, sub-queries), and THEN in any
   nesting where, inside a non-last operand of a THEN, (1) NOT is over AND/OR groups of filters, (2) AND is over THEN-free
   operands, (3) to the right of an operand that can end at several payload positions (an AND group with several payload
   filters) NOT is over OR groups of filters. This includes AND groups with several payload filters on the left of a THEN
   (`(cdata:x cdata:y) then cdata:z`), groups and parenthesised THENs in the middle of a chain
   (`cdata:w then (cdata:x -cdata:y) then cdata:z`, `(cdata:w then (cdata:x then cdata:y)) then cdata:z`), directives
   inside sequences, and anything (negated sequences, AND over sequences) in the last operand. *)
Theorem c03_normalisation_preserves_meaning :
  forall (v : valuation) (e : expr),
    val_ok v -> ids_ok v -> wf_seq true e = true -> expr_wf e ->
    eval_set v (parse_conditions e) = sem v e.
Proof. exact normalisation_preserves_meaning_judged. Qed.

(* (2) "matches nothing" (Parse returns the empty set) only for expressions no stream can satisfy. *)
Theorem c03_impossible_only_if_unsatisfiable :
  forall e : expr,
    wf_seq true e = true -> expr_wf e -> parse_conditions e = [] ->
    forall v : valuation, val_ok v -> ids_ok v -> sem v e = false.
Proof. exact impossible_only_if_unsatisfiable_judged. Qed.

(* every expression without THEN is in the judged fragment *)
Theorem c03_judged_contains_then_free : forall e : expr, then_free e = true -> wf_seq true e = true.
Proof. exact then_free_judged. Qed.

(* non-last operands of a THEN: every conjunct of the normal form belongs to a reading of the text that holds wherever
   the conjunct holds and ends at the same payload positions (the matched parts Ms of the conjunct form an antichain);
   every reading has such a conjunct, one and the same for several start positions when rule (3) applies *)
Theorem c03_sequence_operands_sound :
  forall a : expr, sf a = true -> wf_seq false a = true -> expr_wf a ->
    exists cs, norm a = Some cs /\ cs <> [] /\ cset_wf cs /\ (then_free a = true -> Forall data_flat cs) /\ sim_m a cs.
Proof. exact multi_sound. Qed.

(* Conditions.then on a conjunct with several matched parts: the right side holds behind every one of them *)
Theorem c03_conj_then_sound_multi :
  forall (v : valuation) (c1 : conj) (Ms : list (list N)) (c2 : conj),
    mal c1 Ms -> conj_wf c2 ->
    eval_conj v (conj_then c1 c2) = eval_conj v c1 && at_all v Ms (fun w => eval_conj w c2).
Proof. exact conj_then_semN. Qed.
Theorem c03_conj_then_keeps_invariant :
  forall (c1 : conj) (Ms1 : list (list N)) (c2 : conj) (Ms2 : list (list N)),
    mal c1 Ms1 -> mal c2 Ms2 -> mal (conj_then c1 c2) (mprod Ms1 Ms2).
Proof. exact mal_then. Qed.

(* directives drop out of the normal form exactly as they drop out of the meaning *)
Theorem c03_directives_drop_out :
  forall e : expr, norm e = match strip e with Some e' => norm e' | None => None end.
Proof. exact strip_norm. Qed.

(* the classes of the earlier rounds lie inside the judged fragment *)
Theorem c03_class_inside_judged_fragment : forall e : expr, class3 e = true -> wf_seq true e = true.
Proof. exact class3_judged. Qed.

(* chains: conjuncts and readings agree, the payload position they end at included; every conjunct of the normal
   form keeps the invariant Conditions.then relies on (the filters it has matched so far form one sequence) *)
Theorem c03_chain_sound :
  forall a : expr, chain a = true -> expr_wf a ->
    exists cs, norm a = Some cs /\ chain_ok a cs /\ ends_le1 a /\ strip a = Some a /\
               wf_seq false a = true /\ multi_end a = false.
Proof. exact chain_sound. Qed.

(* groups: conjuncts and readings agree, the payload position they end at included *)
Theorem c03_group_sound :
  forall a : expr, nots_plain a = true -> (data_ends a <= 1)%nat -> expr_wf a ->
    exists cs, norm a = Some cs /\ group_ok a cs.
Proof. exact group_sound. Qed.

(* Conditions.then: a sequence conjunct followed by ANY conjunct, from any position *)
Theorem c03_conj_then_sound :
  forall (v : valuation) (c1 : conj) (M : list N) (c2 : conj),
    (sel_data c1 = [] /\ M = []) \/ seq_inv (sel_data c1) M -> conj_wf c2 ->
    eval_conj v (conj_then c1 c2) =
    eval_conj v c1 && match pos_of v M with Some q => eval_conj (at_pos v q) c2 | None => false end.
Proof. exact conj_then_sem2. Qed.

(* (1') THEN on sequences of plain and negated payload filters of any length,
   `l1 then l2 then ... then ln` with li ::= [cs]data:x | -[cs]data:x : the normal form built by Conditions.then
   (with the rule of fixes/C03-then-after-negated-filter) means what the text says, for every payload oracle. *)
Theorem c03_then_sequences_preserve_meaning :
  forall (v : valuation) (first : lit) (rest : list lit),
    val_ok v -> ids_ok v ->
    eval_set v (parse_conditions (seq_expr first rest)) = sem v (seq_expr first rest).
Proof. exact sequences_preserve_meaning. Qed.

(* The building blocks hold at full strength, sequences of any length included. *)

(* Conditions.clean (all six clean* functions): same truth value, "impossible" only for false conjuncts *)
Theorem c03_conj_clean_sound :
  forall (v : valuation), val_ok v -> forall c : conj, conj_wf c ->
    eval_conj v (conj_clean c) = eval_conj v c /\ conj_wf (conj_clean c).
Proof. exact conj_clean_sound. Qed.

(* cleanHostConditions on filters between two host VARIABLES (no literal address): `chost:@shost@/40` and
   `-chost:@shost@/48` have equal IPv4 masks and different IPv6 masks; both hold on an IPv6 stream whose addresses differ
   first in bit 40, and the cleaned conjunct keeps both (also when both are negated). c03_conj_clean_sound above covers
   every such pair; this is the instance a clean that compares only the IPv4 mask gets wrong (seeded change C03-r5a-n1). *)
Theorem c03_host_variable_filters_keep_both_masks :
  val_ok ex_v6 /\ host_wf (ex_hv 5 false) /\ host_wf (ex_hv 6 true) /\
  h_m4 (ex_hv 5 false) = h_m4 (ex_hv 6 true) /\ h_m6 (ex_hv 5 false) <> h_m6 (ex_hv 6 true) /\
  eval_host ex_v6 (ex_hv 5 false) = true /\ eval_host ex_v6 (ex_hv 6 true) = true /\
  clean_host [ex_hv 5 false; ex_hv 6 true] = Some [ex_hv 5 false; ex_hv 6 true] /\
  clean_host [ex_hv 5 true; ex_hv 6 true] = Some [ex_hv 5 true; ex_hv 6 true].
Proof. exact host_variable_masks_witness. Qed.

(* Condition.invert, for every kind of condition: !(a > b > c) = !a | a > !b | a > b > !c included *)
Theorem c03_cond_invert_sound :
  forall (v : valuation), val_ok v -> forall c : cond, cond_wf c ->
    eval_set v (cond_invert c) = negb (eval_cond v c) /\ cset_wf (cond_invert c) /\ cond_invert c <> [].
Proof. exact cond_invert_sound. Qed.

(* ConditionsSet.And / invert on (uncleaned or cleaned) non-empty sets; NOT of the empty conjunct is FALSE *)
Theorem c03_cs_and_sound :
  forall (v : valuation), val_ok v -> forall a b : cset, a <> [] -> b <> [] -> cset_wf a -> cset_wf b ->
    eval_set v (cs_and a b) = eval_set v a && eval_set v b /\ cset_wf (cs_and a b) /\ cs_and a b <> [].
Proof. exact cs_and_sound. Qed.
Theorem c03_cs_invert_sound :
  forall (v : valuation), val_ok v -> forall cs : cset, cs <> [] -> cset_wf cs ->
    eval_set v (cs_invert cs) = negb (eval_set v cs) /\ cset_wf (cs_invert cs) /\ cs_invert cs <> [].
Proof. exact cs_invert_sound. Qed.

(* ConditionsSet.Clean: absorption loop and the simple-ID fast path *)
Theorem c03_set_clean_sound :
  forall (v : valuation), val_ok v -> ids_ok v -> forall cs : cset, cset_wf cs ->
    eval_set v (set_clean cs) = eval_set v cs.
Proof. exact set_clean_sound. Qed.

(* queryTerm.QueryConditions: every filter kind means what it says *)
Theorem c03_conds_of_atom_sound :
  forall (v : valuation), val_ok v -> forall a : atom, atom_wf a ->
    eval_set v (conds_of_atom a) = atom_holds v a (v_start v) /\ cset_wf (conds_of_atom a) /\ conds_of_atom a <> [].
Proof. exact conds_of_atom_sound. Qed.

(* sequences: cleanDataConditions (duplicate / prefix elimination, contradictions) on sequences of any length *)
Theorem c03_clean_data_sequences :
  forall (v : valuation) (l : list datac), Forall data_wf l ->
    match clean_data l with
    | Some l' => forallb (eval_data v) l' = forallb (eval_data v) l
    | None => forallb (eval_data v) l = false
    end.
Proof. exact clean_data_sound. Qed.

(* The continuation reading of DESIGN.md (NOT as look-ahead) is not the reference: a witness in the judged
   fragment where it differs from sem while the normal form agrees with sem. *)
Theorem c03_lookahead_reading_refuted :
  exists (v : valuation) (e : expr),
    val_ok v /\ wf_seq true e = true /\ expr_wf e /\
    sem v e = true /\ semL v e = false /\ eval_set v (parse_conditions e) = true.
Proof. exact lookahead_reading_refuted. Qed.

(* Outside the fragment with a defined meaning (notes/C03.md): `--x then z` is normalised like `x then z`,
   the reference reading says otherwise. Not judged by the check; recorded here as a fact about the model. *)
Theorem c03_negated_group_in_sequence_refuted :
  exists (v : valuation) (e : expr),
    val_ok v /\ wf_seq true e = false /\ sem v e = true /\ eval_set v (parse_conditions e) = false.
Proof. exact negated_group_in_sequence_refuted. Qed.

(* the hypotheses are satisfiable *)
Example c03_hypotheses_satisfiable :
  (val_ok ex_val /\ ids_ok ex_val) /\ (wf_seq true ex_judged = true /\ expr_wf ex_judged).
Proof. exact hypotheses_satisfiable_judged. Qed.
Example c03_example_value_then : eval_set ex_val (parse_conditions ex_judged) = sem ex_val ex_judged.
Proof. vm_compute. reflexivity. Qed.
Example c03_example_value : eval_set ex_val (parse_conditions ex_tf) = sem ex_val ex_tf.
Proof. vm_compute. reflexivity. Qed.
