(* C13 -- index files live exactly as long as they are needed.
   Statements over EVERY action sequence of the model in theories/Indexes.v (API calls incl. tag add / delete /
   redefinition and converter attach / detach / removal; arbitrary environment inputs for tag uncertainty and
   converter work; API calls and
   job steps in any order, any captures, readable or not, either View.fetch variant, ANY merge function):
   the theorems do not depend on what a merge writes, only on the lock/release discipline.
   C13_startup_*: the same for a service started by manager.New on an existing index directory. *)
From Coq Require Import List NArith Bool.
Require Import Pk.Indexes Pk.IndexesProofs.
Import ListNotations.
Open Scope N_scope.

Section C13.
Variable capdb : N -> capture.               (* contents of the capture files *)
Variable bad : N -> bool.                    (* which capture files cannot be read *)
Variable refetch_empty : bool.               (* which View.fetch the code has *)
Variable merge : list file -> list entry.    (* what index.Merge writes *)
(* Start state = what manager.New builds from the index directory: the files index.NewReader accepts are served
   (fs, in file name order), the files it rejects stay in the directory untouched (junk); P = captures known.
   The empty directory is fs = junk = P = []  (theorems C13_*; init = init_from [] [] [] by computation). *)
Variable fs : list file.
Variable junk : list N.
Variable P : list N.
Hypothesis distinct_files : NoDup (map f_uid fs ++ junk).

Let run (acts : list action) : state := fold_left (step capdb bad refetch_empty merge) acts (init_from capdb fs junk P).
Let I13 (acts : list action) := run_inv13_start junk capdb bad refetch_empty merge fs P acts distinct_files.
Let U13 (acts : list action) := run_uniq_start junk capdb bad refetch_empty merge fs P acts distinct_files.

(* usedIndexes[u] = (1 if u is in the service list) + number of views and import / merge / tagging / converter jobs holding u *)
Theorem C13_startup_use_count_is_number_of_holders : forall acts u,
  cnt (used (run acts)) u =
    occ u (indexes (run acts)) + occ_views u (views (run acts))
    + occ u (ij_files (ijob (run acts))) + occ u (mj_files (mjob (run acts))) + occ u (tj_files (tjob (run acts)))
    + occ u (cj_files (cjob (run acts))).
Proof. intros. exact (inv13_count junk _ u (I13 acts)). Qed.

(* ... and a file occurs at most once in the service list, so the first summand is 0 or 1 *)
Theorem C13_startup_service_list_without_duplicates : forall acts,
  NoDup (map f_uid (indexes (run acts))).
Proof. intros. exact (uniq_nodup _ (U13 acts)). Qed.

(* no holder ever references a closed-and-removed file *)
Theorem C13_startup_held_files_exist : forall acts f,
  In f (indexes (run acts)) \/ held_by_view (run acts) f \/ held_by_job (run acts) f ->
  In (f_uid f) (disk (run acts)).
Proof. intros acts f. exact (inv13_holder_on_disk junk _ f (I13 acts)). Qed.

(* a file is in the directory exactly while its count is non-zero, or its writer has not completed, or it is one of
   the files manager.New could not load *)
Theorem C13_startup_file_exists_iff_in_use : forall acts u,
  In u (disk (run acts)) <-> 0 < cnt (used (run acts)) u \/ being_written (run acts) u \/ In u junk.
Proof. intros acts u. exact (inv13_disk_iff junk _ u (I13 acts)). Qed.

Theorem C13_startup_file_being_written_is_not_counted : forall acts u,
  being_written (run acts) u -> cnt (used (run acts)) u = 0.
Proof. intros acts u. exact (inv13_written_unused junk _ u (I13 acts)). Qed.

(* a file manager.New could not load is never counted, never served and never removed: it stays for ever *)
Theorem C13_startup_unloadable_file_stays : forall acts u,
  In u junk ->
  cnt (used (run acts)) u = 0 /\ ~ In u (map f_uid (indexes (run acts))) /\ In u (disk (run acts)).
Proof. intros acts u. exact (inv13_junk junk _ u (I13 acts)). Qed.

(* at quiescence the directory is the service list plus the unloadable files, and every count is 1 *)
Theorem C13_startup_quiescent_directory : forall acts u,
  quiescent (run acts) ->
  (In u (disk (run acts)) <-> In u (map f_uid (indexes (run acts))) \/ In u junk) /\
  cnt (used (run acts)) u = (if existsb (N.eqb u) (map f_uid (indexes (run acts))) then 1 else 0).
Proof. intros acts u. exact (inv13_quiescent junk _ u (I13 acts) (U13 acts)). Qed.

End C13.

(* ---------------------------------------------------------------- the service started on an empty directory *)
Section C13_empty.
Variable capdb : N -> capture.
Variable bad : N -> bool.
Variable refetch_empty : bool.
Variable merge : list file -> list entry.

Let run (acts : list action) : state := fold_left (step capdb bad refetch_empty merge) acts init.

Theorem C13_use_count_is_number_of_holders : forall acts u,
  cnt (used (run acts)) u =
    occ u (indexes (run acts)) + occ_views u (views (run acts))
    + occ u (ij_files (ijob (run acts))) + occ u (mj_files (mjob (run acts))) + occ u (tj_files (tjob (run acts)))
    + occ u (cj_files (cjob (run acts))).
Proof. exact (C13_startup_use_count_is_number_of_holders capdb bad refetch_empty merge [] [] [] (NoDup_nil N)). Qed.

Theorem C13_service_list_without_duplicates : forall acts,
  NoDup (map f_uid (indexes (run acts))).
Proof. exact (C13_startup_service_list_without_duplicates capdb bad refetch_empty merge [] [] [] (NoDup_nil N)). Qed.

Theorem C13_held_files_exist : forall acts f,
  In f (indexes (run acts)) \/ held_by_view (run acts) f \/ held_by_job (run acts) f ->
  In (f_uid f) (disk (run acts)).
Proof. exact (C13_startup_held_files_exist capdb bad refetch_empty merge [] [] [] (NoDup_nil N)). Qed.

(* a file is in the directory exactly while its count is non-zero or its writer has not completed *)
Theorem C13_file_exists_iff_in_use : forall acts u,
  In u (disk (run acts)) <-> 0 < cnt (used (run acts)) u \/ being_written (run acts) u.
Proof.
  intros acts u.
  pose proof (C13_startup_file_exists_iff_in_use capdb bad refetch_empty merge [] [] [] (NoDup_nil N) acts u) as H.
  simpl in H. unfold run. tauto.
Qed.

Theorem C13_file_being_written_is_not_counted : forall acts u,
  being_written (run acts) u -> cnt (used (run acts)) u = 0.
Proof. exact (C13_startup_file_being_written_is_not_counted capdb bad refetch_empty merge [] [] [] (NoDup_nil N)). Qed.

(* at quiescence the directory is exactly the service list and every count is 1 *)
Theorem C13_quiescent_directory_is_service_list : forall acts u,
  quiescent (run acts) ->
  (In u (disk (run acts)) <-> In u (map f_uid (indexes (run acts)))) /\
  cnt (used (run acts)) u = (if existsb (N.eqb u) (map f_uid (indexes (run acts))) then 1 else 0).
Proof.
  intros acts u Q.
  destruct (C13_startup_quiescent_directory capdb bad refetch_empty merge [] [] [] (NoDup_nil N) acts u Q) as [A B].
  split; [|exact B]. simpl in A. unfold run. tauto.
Qed.

End C13_empty.

(* Non-vacuity: a concrete history in which a view and an import job hold files across the merge that
   replaces them; the replaced files stay on disk until the last holder lets go, then disappear. *)
Definition ex_capdb (k : N) : capture :=
  match k with 0 => [(0, 3)] | 1 => [(1, 2)] | 2 => [(2, 1)] | 3 => [(0, 4); (3, 1)] | _ => [] end.

Definition ex_history : list action :=
  [AImport [0]; AStart KImport; AComplete KImport;
   AImport [1]; AStart KImport; AComplete KImport;
   AView 0;
   AImport [2]; AStart KImport; AComplete KImport;       (* three files of one stream each: a merge starts *)
   AImport [3];                                           (* import job holds the three files *)
   AStart KMerge; AComplete KMerge].

Example ex_merge_under_holders :
  let st := fold_left (step_impl ex_capdb (fun _ => false)) ex_history init in
  map f_uid (indexes st) = [3] /\ used st = [(0, 2); (1, 2); (2, 1); (3, 1)] /\ disk st = [3; 2; 1; 0].
Proof. vm_compute. repeat split. Qed.

Example ex_released_then_removed :
  let st := fold_left (step_impl ex_capdb (fun _ => false)) (ex_history ++ [ARelease 0; AStart KImport; AComplete KImport]) init in
  map f_uid (indexes st) = [3; 4] /\ disk st = [4; 3] /\ quiescent st.
Proof. vm_compute. repeat split. Qed.

(* Non-vacuity of the error path: capture 1 of the batch [0;1;2] cannot be read. The first job accounts for
   [0] only, the second for the unreadable file alone (nothing created, snapshot released), the third for [2]. *)
Example ex_unreadable_capture :
  let bad := fun k => k =? 1 in
  let capdb := fun k : N => match k with 0 => [(0, 3)] | 2 => [(0, 1); (1, 1)] | _ => [] end in
  let st := fold_left (step_impl capdb bad)
              [AImport [0; 1; 2]; AView 0; AStart KImport; AComplete KImport; AStart KImport; AComplete KImport;
               AStart KImport; AComplete KImport; ARelease 0; AStart KMerge; AComplete KMerge] init in
  processed st = [0; 1; 2] /\ map f_uid (indexes st) = [2] /\ used st = [(2, 1)] /\ disk st = [2] /\ quiescent st.
Proof. vm_compute. repeat split. Qed.

(* Non-vacuity of the converter path: the converter scheduler finds work when a converter is attached; the converter
   job holds the list and blocks merges; the converter is removed while its job is parked; at its completion the
   snapshot is released and the merge that was waiting starts. *)
Example ex_converter_job_holds_list :
  let capdb := fun k : N => match k with 0 => [(0, 3)] | 1 => [(1, 2)] | 2 => [(2, 1)] | _ => [] end in
  let acts := [AImport [0]; AStart KImport; AComplete KImport; AEnvConvWork true; AConvSet;
               AImport [1]; AStart KImport; AComplete KImport; AImport [2]; AStart KImport; AComplete KImport] in
  let st1 := fold_left (step_impl capdb (fun _ => false)) acts init in
  let st2 := fold_left (step_impl capdb (fun _ => false)) (acts ++ [AStart KConvert; AConvRemove; AComplete KConvert]) init in
  (used st1 = [(0, 2); (1, 1); (2, 1)] /\ mjob st1 = None /\ map f_uid (cj_files (cjob st1)) = [0]) /\
  (used st2 = [(0, 2); (1, 2); (2, 2)] /\ cjob st2 = None /\ map f_uid (mj_files (mjob st2)) = [0; 1; 2]).
Proof. vm_compute. repeat split. Qed.

(* Non-vacuity of the start-up hypotheses: a directory with two loadable files (uids 3 and 5) and one file
   index.NewReader rejects (uid 4). One more import, the merge it triggers: the unloadable file is still there. *)
Example ex_startup_with_unloadable_file :
  let capdb := fun k : N => match k with 0 => [(0, 3)] | 1 => [(1, 2)] | 2 => [(2, 1)] | _ => [] end in
  let fs := [mkFile 3 [mkEntry 0 0 3]; mkFile 5 [mkEntry 1 1 2]] in
  let st0 := init_from capdb fs [4] [0; 1] in
  let st := fold_left (step_impl capdb (fun _ => false))
              [AImport [2]; AStart KImport; AComplete KImport; AStart KMerge; AComplete KMerge] st0 in
  NoDup (map f_uid fs ++ [4]) /\
  used st0 = [(3, 1); (5, 1)] /\ disk st0 = [3; 5; 4] /\
  map f_uid (indexes st) = [7] /\ used st = [(7, 1)] /\ disk st = [7; 4] /\ quiescent st.
Proof.
  vm_compute. split; [|repeat split].
  repeat constructor; simpl; intuition discriminate.
Qed.

(* Non-vacuity of the failed-merge path: the merge of three files fails; nothing is left on disk, the inputs stay served,
   the first file becomes unmergeable, the next eligible run (files 1,2 would need 1 < 1: none) is not merged. *)
Example ex_failed_merge_leaves_nothing :
  let capdb := fun k : N => match k with 0 => [(0, 3)] | 1 => [(1, 2)] | 2 => [(2, 1)] | _ => [] end in
  let st := fold_left (step_impl capdb (fun _ => false))
              [AImport [0]; AStart KImport; AComplete KImport; AImport [1]; AStart KImport; AComplete KImport;
               AImport [2]; AStart KImport; AComplete KImport; AMergeFail; AComplete KMerge] init in
  map f_uid (indexes st) = [0; 1; 2] /\ used st = [(0, 1); (1, 1); (2, 1)] /\ disk st = [2; 1; 0] /\
  nunm st = 1%nat /\ quiescent st.
Proof. vm_compute. repeat split. Qed.
