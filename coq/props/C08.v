(* C08 -- the import result does not depend on how and when captures arrive.
   The reassemblers are abstracted by the stream lists W_1 ... W_n they produce in the successive
   FromPcap calls; `chain [] steps` says each list EXTENDS its predecessor (what chronological arrival
   gives an online, append-only assembler).  Proved for the id-reuse / classification / visibility logic
   of FromPcap (Import.dump, Import.classify, reader stack); the extension property itself is proved for
   no assembler here (UDP: one flow alone, see C05) and is what the correspondence runs check. *)
From Pk Require Import Import ImportProofs ImportExamples ImportSnapshot ImportSnapshotUdp ImportRestart ImportBatchUdp BuilderOrder Udp UdpInterleave UdpReplay UdpSnapshotValid TcpReplayRefuted Attrib.
From Pk Require Import ImportIndex.
Require Pk.IndexFormat Pk.IndexFormatWriter Pk.IndexFormatPackets Pk.IndexFormatLookup.
From Coq Require Import Sorting.Permutation.

(* (2a) after any such sequence of imports a view shows under id j exactly the j-th assembled stream *)
Theorem C08_batches_visible : forall steps id,
  chain [] steps ->
  newest (run_batches [] steps) id = nth_error (last_factory [] steps) (N.to_nat id).
Proof. exact batches_visible. Qed.

(* (2b) every partition into chronological batches shows the map of the one-shot import, same ids *)
Theorem C08_batched_equals_oneshot : forall steps allfiles id,
  chain [] steps ->
  wf_factory (last_factory [] steps) -> extends allfiles [] (last_factory [] steps) ->
  newest (run_batches [] steps) id = newest (run_batches [] [(allfiles, last_factory [] steps)]) id.
Proof. exact batched_equals_oneshot. Qed.

(* (2c) an id once assigned stays on the same connection *)
Theorem C08_ids_stable : forall steps1 steps2 id s,
  chain [] (steps1 ++ steps2) ->
  newest (run_batches [] steps1) id = Some s ->
  exists s', newest (run_batches [] (steps1 ++ steps2)) id = Some s' /\ first_source s' = first_source s.
Proof. exact ids_stable. Qed.

(* (2d) no connection has two visible ids *)
Theorem C08_ids_unique : forall steps id1 id2 s1 s2,
  chain [] steps -> wf_factory (last_factory [] steps) ->
  newest (run_batches [] steps) id1 = Some s1 -> newest (run_batches [] steps) id2 = Some s2 ->
  first_source s1 = first_source s2 -> id1 = id2.
Proof. exact ids_unique. Qed.

(* (2e) the extension hypothesis is DISCHARGED for the UDP assembler.  [W F] = the stream list the UDP assembler builds from
   feed F (for every hash function: [Wr F = fst (udp_run hashf F)]), Complete flags cleared (never written to the index).
   [batches_ok]: every batch brings packets of its own new capture files only, after all earlier packets (the feed of
   import k+1 is the feed of import k followed by the new packets = chronological arrival), and (file, index) identifies a
   packet.  Then every batching shows the streams one import of everything assembles, same ids -- no assembler hypothesis. *)
Theorem C08_udp_assemblies_extend : forall nf F G,
  Forall (fun p => mem_file (p_file p) nf = false) F -> Forall (fun p => mem_file (p_file p) nf = true) G ->
  extends nf (W F) (W (F ++ G)).
Proof. exact udp_extends. Qed.

Theorem C08_udp_batches_visible : forall bs id, batches_ok [] bs ->
  newest (run_batches [] (usteps [] bs)) id = nth_error (W (flat_map snd bs)) (N.to_nat id).
Proof. exact udp_batches_visible. Qed.

Theorem C08_udp_batched_equals_oneshot : forall bs allfiles id, batches_ok [] bs ->
  batches_ok [] [(allfiles, flat_map snd bs)] ->
  newest (run_batches [] (usteps [] bs)) id = newest (run_batches [] (usteps [] [(allfiles, flat_map snd bs)])) id.
Proof. exact udp_batched_equals_oneshot. Qed.

(* with the factories as the run leaves them (Complete flags included): what is written differs only in that flag *)
Theorem C08_udp_real_batches_visible : forall bs id, batches_ok [] bs ->
  option_map forget (newest (run_batches [] (rsteps [] bs)) id) = nth_error (W (flat_map snd bs)) (N.to_nat id).
Proof. exact udp_real_batches_visible. Qed.

Theorem C08_udp_factory_is_model_factory : forall hashf F, Wr F = fst (udp_run hashf F).
Proof. exact Wr_udp_run. Qed.

(* the steps of [run_batches] ARE FromPcap calls: without a usable snapshot and below the snapshot interval,
   Import.import = assemble the feed of all known and new captures (C05: the global sort), then [dump] *)
Theorem C08_import_without_snapshot_is_dump : forall hashf thr final_flush b st newfiles stack i0 rest,
  b_snaps b = [] ->
  flat_map (fun f => match store_get st f with [] => [] | l => [info_of f l] end) newfiles = i0 :: rest ->
  let newfiles' := map pi_file (i0 :: rest) in
  let fed := feed (needed_pcaps b None newfiles' st) (flat_map (store_get st) newfiles') in
  N.of_nat (length fed) <= thr ->
  forall res nx', dump (written hashf final_flush fed) newfiles' stack (next_stream_id stack) (mkResult [] 0 [] [] []) = (res, nx') ->
  import hashf thr final_flush b st newfiles stack =
    (mkBuilder (b_known b ++ i0 :: rest) [],
     Some (mkResult (r_index res) (nx' - next_stream_id stack) (r_upd res) (r_reset res) (r_added res))).
Proof. exact import_without_snapshot_is_dump. Qed.

(* the hypotheses are satisfiable (a UDP flow continued in a second capture) *)
Example C08_chain_example : extends [1] [s_p1] [s_p12] /\ wf_factory [s_p1] /\ wf_factory [s_p12] /\
                            chain [] [([0], [s_p1]); ([1], [s_p12])].
Proof. exact extends_example. Qed.

(* (1) WITH OR WITHOUT SNAPSHOTS.
   (1a) the choice: stored, not younger than the oldest new packet, youngest such; none chosen only if none usable *)
Theorem C08_snapshot_choice_sound : forall snaps oldest b,
  best_snapshot snaps oldest None = Some b ->
  In b snaps /\ sn_ts b <= oldest /\ (forall s, In s snaps -> sn_ts s <= oldest -> sn_ts s <= sn_ts b).
Proof. exact snapshot_choice_sound. Qed.

Theorem C08_snapshot_choice_complete : forall snaps oldest,
  best_snapshot snaps oldest None = None -> forall s, In s snaps -> oldest < sn_ts s.
Proof. exact snapshot_choice_complete. Qed.

(* (1b) pkappa2's bookkeeping (needed captures, referenced packets, packets not older than the snapshot, lazy merge):
   with snapshot s the reassemblers are fed exactly the kept sub-sequence of the feed they get without a snapshot *)
Theorem C08_feed_with_snapshot_is_filter : forall (b : builder) (st : store) (nf : list N) (s : snapshot),
  store_wf st (b_known b) -> refs_before s st ->
  let newP := flat_map (store_get st) nf in
  (forall p, In p newP -> sn_ts s <= p_ts p) ->
  feed (needed_pcaps b (Some s) nf st) newP = filter (keepb s) (feed (needed_pcaps b None nf st) newP).
Proof. exact feed_with_snapshot_is_filter. Qed.

(* (1a') the oldest time of an import BATCH is the minimum over ALL captures of the batch (whatever their order inside the
   batch); the snapshot choice and transparency depend on it *)
Theorem C08_batch_oldest_is_min_over_all_captures : forall (i0 : pcapinfo) rest i,
  In i (i0 :: rest) -> fold_left (fun m i => N.min m (pi_min i)) (i0 :: rest) (pi_min i0) <= pi_min i.
Proof. exact batch_oldest_is_min_over_all_captures. Qed.

Theorem C08_snapshot_choice_with_first_capture_only_refuted :
  let snaps := [mkSnap 50 []; mkSnap 1000 []] in
  let batch := [mkPcap 3 1200 1300; mkPcap 1 100 200] in
  option_map sn_ts (best_snapshot snaps (fold_left (fun m i => N.min m (pi_min i)) batch 1200) None) = Some 50 /\
  option_map sn_ts (best_snapshot snaps 1200 None) = Some 1000.
Proof. exact snapshot_choice_with_first_capture_only_refuted. Qed.

(* (1b') PacketTimestampMin/Max of a capture are the minimum/maximum over ALL its records (Import.info_of = readPackets);
   the replay order depends on it: with the first record's time a capture with unsorted records is loaded too late *)
Theorem C08_capture_info_is_min_max : forall f l p, In p l -> pi_min (info_of f l) <= p_ts p /\ p_ts p <= pi_max (info_of f l).
Proof. exact capture_info_is_min_max. Qed.

Theorem C08_replay_order_with_first_record_time_refuted :
  map p_ts (feed [(20, unsorted_capture)] later_packet) = [15; 10; 20] /\
  map p_ts (feed [(pi_min (info_of 0 unsorted_capture), unsorted_capture)] later_packet) = [10; 15; 20].
Proof. exact replay_order_with_first_record_time_refuted. Qed.

(* (1c) transparency, modulo the NAMED ASSEMBLER HYPOTHESIS [replay_ok]: for a snapshot recorded on the history F,
   replaying only the kept packets reproduces every stream that contains a packet of the new captures (up to the
   Complete flag).  Then FromPcap with the chosen snapshot = FromPcap with all snapshots dropped: same written
   streams, ids, added/updated/reset sets, id counter, known captures.  The hypothesis is discharged for no assembler in
   general (Example replay_hypothesis_instance: it holds in a concrete run of the model's own snapshot); it is what the
   correspondence runs with snapshot points every 1..30 packets check, and where defect ca95540 was found. *)
Theorem C08_snapshot_transparency : forall (hashf : N -> N) (thr : N) (final_flush : bool)
    (valid : snapshot -> list N -> list packet -> Prop),
  (forall s nf kept F, valid s nf F ->
     map forget (filter (touchedb nf) (loop_fac hashf thr final_flush (Some (sn_ts s)) kept (filter (keepb s) F))) =
     map forget (filter (touchedb nf) (loop_fac hashf thr final_flush None [] F))) ->
  forall (b : builder) (st : store) (nf : list N) (stack : list index) (s : snapshot) i0 rest,
  store_wf st (b_known b) ->
  new_infos st nf = i0 :: rest ->
  let nf' := map pi_file (i0 :: rest) in
  let oldest := fold_left (fun m i => N.min m (pi_min i)) (i0 :: rest) (pi_min i0) in
  best_snapshot (b_snaps b) oldest None = Some s ->
  refs_before s st ->
  valid s nf' (feed (needed_pcaps b None nf' st) (flat_map (store_get st) nf')) ->
  import_view (import hashf thr final_flush b st nf stack) =
  import_view (import hashf thr final_flush (mkBuilder (b_known b) []) st nf stack).
Proof. exact snapshot_transparency. Qed.

(* (1d) the assembler hypothesis is DISCHARGED for the UDP assembler (every hash function, every snapshot interval): for
   UDP-only feeds FromPcap with the chosen snapshot = FromPcap without snapshots, assuming only a property of the
   snapshot, [valid_udp]: the feed is UDP and time-ordered, and the keep set is consistent with stream membership along
   the full run (whenever a packet joins an open stream both have the same keep status -- a snapshot references whole
   open streams and keeps everything not older than itself) and keeps the packets of the new captures.
   Proof: UdpReplay.two_runs (the kept run's slots are the full run's slots minus the all-unkept ones, up to Complete
   and to connections that one run flushed earlier). *)
Theorem C08_replay_hypothesis_holds_for_udp : forall hashf thr ff s nf kept F, valid_udp s nf F ->
  map forget (filter (touchedb nf) (loop_fac hashf thr ff (Some (sn_ts s)) kept (filter (keepb s) F))) =
  map forget (filter (touchedb nf) (loop_fac hashf thr ff None [] F)).
Proof. exact replay_ok_udp. Qed.

Theorem C08_snapshot_transparency_udp : forall hashf thr ff (b : builder) (st : store) (nf : list N) (stack : list index) (s : snapshot) i0 rest,
  store_wf st (b_known b) ->
  new_infos st nf = i0 :: rest ->
  let nf' := map pi_file (i0 :: rest) in
  let oldest := fold_left (fun m i => N.min m (pi_min i)) (i0 :: rest) (pi_min i0) in
  best_snapshot (b_snaps b) oldest None = Some s ->
  refs_before s st ->
  valid_udp s nf' (feed (needed_pcaps b None nf' st) (flat_map (store_get st) nf')) ->
  import_view (import hashf thr ff b st nf stack) =
  import_view (import hashf thr ff (mkBuilder (b_known b) []) st nf stack).
Proof. exact snapshot_transparency_udp. Qed.

(* (1e) the snapshots the Builder really makes are valid.  [snap_at T pre] = the snapshot the packet loop records at time T
   on the history pre (Import.referenced on the flushed state): CANONICAL.  Canonical snapshots are [valid_udp] for every
   later feed pre ++ rest that agrees with their history; the loop of an import that starts without a snapshot creates
   canonical snapshots; and so does the loop of an import that itself replays from a canonical snapshot (what it
   references, computed on the kept run, is what the full history references) -- so the Builder's snapshots stay canonical
   from import to import, for every hash function and every snapshot interval >= 1. *)
Theorem C08_canonical_snapshot_valid : forall T pre rest nf,
  Forall (fun p => p_ts p < T) pre -> Forall (fun p => T <= p_ts p) rest ->
  NoDup (map packet_key (pre ++ rest)) -> Forall (fun p => mem_file (p_file p) nf = false) pre ->
  Forall (fun p => p_tcp p = false) (pre ++ rest) -> tsorted 0 (pre ++ rest) ->
  valid_udp (snap_at T pre) nf (pre ++ rest).
Proof. exact canonical_snapshot_valid. Qed.

Theorem C08_created_snapshots_valid : forall hashf thr, 1 <= thr -> forall fed s,
  Forall (fun p => p_tcp p = false) fed -> tsorted 0 fed ->
  In s (l_snaps (fold_left (loop_step hashf thr None) fed (mkLoop asm0 0 None []))) ->
  exists pre q post, fed = pre ++ q :: post /\ sn_ts s = p_ts q /\
    forall rest nf,
      Forall (fun p => sn_ts s <= p_ts p) rest -> Forall (fun p => p_tcp p = false) rest ->
      NoDup (map packet_key (pre ++ rest)) -> Forall (fun p => mem_file (p_file p) nf = false) pre ->
      tsorted 0 (pre ++ rest) ->
      valid_udp s nf (pre ++ rest).
Proof. exact created_snapshot_valid. Qed.

Theorem C08_next_generation_snapshots : forall hashf thr, 1 <= thr -> forall T0 pre0 rest0 nf kept s,
  Forall (fun p => p_ts p < T0) pre0 -> Forall (fun p => T0 <= p_ts p) rest0 ->
  NoDup (map packet_key (pre0 ++ rest0)) -> Forall (fun p => mem_file (p_file p) nf = false) pre0 ->
  tsorted 0 (pre0 ++ rest0) -> Forall (fun p => p_tcp p = false) (pre0 ++ rest0) ->
  In s (l_snaps (fold_left (loop_step hashf thr (Some T0))
                           (filter (keepb (snap_at T0 pre0)) (pre0 ++ rest0)) (mkLoop asm0 0 None kept))) ->
  In s kept \/
  exists mid q post, rest0 = mid ++ q :: post /\ Forall (fun p => p_ts p < p_ts q) (pre0 ++ mid) /\
                     s = snap_at (p_ts q) (pre0 ++ mid).
Proof. exact next_generation_snapshots. Qed.

(* (1f) for the TCP reassembler model the assembler hypothesis is REFUTED on captures with gaps in both directions of one
   connection: with the snapshot the payload queued behind the two gaps is emitted by one flush (server half first),
   without it a foreign packet's flush emits the client payload earlier.  Same witness on the code:
   corpus/C08/kf-double-gap.json (proposed known finding snapshot-changes-flush-order-double-gap). *)
Theorem C08_replay_hypothesis_tcp_refuted :
  views (hist ++ newp) None = [[(false, [67]); (true, [83])]] /\
  views (filter (keepb snapX) (hist ++ newp)) (Some Tsnap) = [[(true, [83]); (false, [67])]].
Proof. exact replay_ok_tcp_refuted. Qed.

Example C08_valid_udp_instance : valid_udp snap0 [1] F0.
Proof. exact valid_udp_instance. Qed.

(* all hypotheses hold together in a run where the model itself recorded the snapshot *)
Example C08_snapshot_transparency_applies :
  import_view (import (fun a => a) 1 false b_after_first st2 [1] []) =
  import_view (import (fun a => a) 1 false (mkBuilder (b_known b_after_first) []) st2 [1] []).
Proof. exact snapshot_transparency_applies. Qed.

(* (4) RESTART: a new Builder on the same directories re-derives the known captures from the pcap directory (in name
   order) and loads the saved snapshot list; it then behaves like the running Builder for every later import *)
Theorem C08_restart_known : forall st known dir,
  store_wf st known -> (forall pi, In pi known -> store_get st (pi_file pi) <> []) ->
  Permutation dir (map pi_file known) ->
  Permutation (b_known (restart st dir nil)) known.
Proof. exact restart_known. Qed.

Theorem C08_restart_import : forall (hashf : N -> N) (thr : N) (final_flush : bool)
    (b' b : builder) (st : store) (nf : list N) (stack : list index),
  same_builder b' b -> store_wf st (b_known b) ->
  (forall s, In s (b_snaps b) -> refs_before s st) ->
  snd (import hashf thr final_flush b' st nf stack) = snd (import hashf thr final_flush b st nf stack) /\
  same_builder (fst (import hashf thr final_flush b' st nf stack)) (fst (import hashf thr final_flush b st nf stack)).
Proof. exact restart_import. Qed.

(* (3) arbitrary arrival order: refuted on the faithful model; same witness on the code
   (corpus/C08/kf-stale-id.json, known finding stale-id-after-bridging-capture) *)
Theorem C08_arrival_order_independence_refuted :
  exists (order oneshot : list (list N)),
    concat order = [0; 2; 1] /\ concat oneshot = [0; 1; 2] /\
    visible_payloads (snd (run3 false order)) =
      [(0, [(false, [112; 49; 112; 50; 112; 51])]); (1, [(false, [112; 51])])] /\
    visible_payloads (snd (run3 false oneshot)) = [(0, [(false, [112; 49; 112; 50; 112; 51])])].
Proof. exact arrival_order_independence_refuted. Qed.

(* chronological batches of the same captures agree with the one-shot import on the faithful model *)
Example C08_chronological_example :
  visible_payloads (snd (run3 false [[0]; [1]; [2]])) = visible_payloads (snd (run3 false [[0; 1; 2]])) /\
  visible_payloads (snd (run3 false [[0; 1]; [2]])) = visible_payloads (snd (run3 false [[0; 1; 2]])).
Proof. exact chronological_batches_example. Qed.

(* the lookup [Import.index_lookup] abstracts IS Reader.StreamByFirstPacketSource (C01's theorem, imported): a stored
   model stream is found under the source of its first packet *)
Theorem C08_written_stream_found_by_first_packet_source :
  forall (addr_bytes file_name : N -> list N) (ts_ns : N -> N) gcap (L : list (N * stream)) w r,
  16 < gcap <= 4 * Pk.IndexFormat.P16 ->
  Forall (fun ids => Pk.IndexFormatWriter.wf_meta (snd ids)) (to_L addr_bytes file_name ts_ns L) ->
  Forall (fun ids => Pk.IndexFormatPackets.names_ok (snd ids)) (to_L addr_bytes file_name ts_ns L) ->
  Forall (fun ids => Pk.IndexFormatLookup.first_src (snd ids) <> None) (to_L addr_bytes file_name ts_ns L) ->
  NoDup (map (fun ids => Pk.IndexFormatLookup.first_src_or (snd ids)) (to_L addr_bytes file_name ts_ns L)) ->
  Pk.IndexFormat.add_streams gcap Pk.IndexFormat.new_writer (to_L addr_bytes file_name ts_ns L) = Some w ->
  Pk.IndexFormat.new_reader (Pk.IndexFormat.finalize w) = Some r ->
  Pk.IndexFormat.lenN (Pk.IndexFormat.w_packets w) < Pk.IndexFormat.P32 ->
  forall k id s f i, nth_error L k = Some (id, s) -> first_source s = Some (f, i) ->
  exists rec, Pk.IndexFormat.stream_by_source r (file_name f) i = Some (rec, N.of_nat k) /\
              nth_error (Pk.IndexFormat.all_streams r) k = Some rec.
Proof. exact written_stream_found_by_first_packet_source. Qed.
