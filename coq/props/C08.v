(* placeholder *)
