(* C20 -- no data races on shared service state.

   gen_ctxs / gen_table (theories/GenAccess.v) are regenerated from
   internal/index/{manager,builder,converters} by translate/c20 on every run: one row per access
   to a field of Manager, Builder, pcapOverIPEndpoint(+Info), Converter, CachedConverter, Process
   with its goroutine class and the locks held on the same object.  If the source changes so
   that two conflicting rows are neither ordered by their classes nor under a common lock,
   `gen_table_discipline` stops compiling. *)
From Coq Require Import List NArith Bool Arith Lia.
Import ListNotations.
Require Import Pk.Ownership Pk.OwnershipProofs Pk.GenAccess.
Local Open Scope nat_scope.

(* ---- the translated table satisfies the discipline (finite computation over all pairs) *)
Theorem gen_table_discipline : discipline gen_ctxs gen_table = true.
Proof. vm_compute. reflexivity. Qed.

(* ---- the rules, each for every trace: conflicting accesses that are
        (a) in one goroutine, (b) before a goroutine (or an ancestor of it) was started,
        (c) inside critical sections of one mutex (not both shared), (d) separated by the send and
        the receive of a closure -- are ordered by happens-before *)
Theorem rule_a_same_goroutine : forall tr i j t a b,
  i < j -> at_ tr i t a -> at_ tr j t b -> hb tr i j.
Proof. exact rule_same_thread. Qed.

Theorem rule_b_before_start : forall tr i s t a c j b,
  spawn_first tr -> i < s -> at_ tr i t a -> (exists c0, at_ tr s t (Spawn c0)) ->
  descends tr s c -> at_ tr j c b -> hb tr i j.
Proof. exact rule_before_start. Qed.

Theorem rule_c_common_mutex : forall tr i j t t' ai aj k x y,
  mutex_sem tr -> i < j -> t <> t' -> at_ tr i t ai -> at_ tr j t' aj ->
  (forall kk xx, ai <> Unlock kk xx) ->
  in_cs tr i t k x -> in_cs tr j t' k y -> x || y = true -> hb tr i j.
Proof. exact rule_common_mutex. Qed.

Theorem rule_d_send_receive : forall tr i s r j t t' a m b,
  i < s -> s < r -> r < j ->
  at_ tr i t a -> at_ tr s t (Send m) -> at_ tr r t' (Recv m) -> at_ tr j t' b -> hb tr i j.
Proof. exact rule_send_receive. Qed.

Theorem rule_d_serial_jobs : forall tr i s r p j tA tL tB a m b,
  spawn_first tr -> i < s -> s < r -> r < p ->
  at_ tr i tA a -> at_ tr s tA (Send m) -> at_ tr r tL (Recv m) -> at_ tr p tL (Spawn tB) ->
  at_ tr j tB b -> hb tr i j.
Proof. exact rule_serial_jobs. Qed.

Theorem ordered_pairs_have_no_race : forall tbl tr,
  (forall i j t1 t2 r1 r2 a1 a2, i < j -> at_ tr i t1 (Acc r1) -> at_ tr j t2 (Acc r2) -> t1 <> t2 ->
     nth_error tbl r1 = Some a1 -> nth_error tbl r2 = Some a2 -> conflicting a1 a2 = true -> hb tr i j) ->
  forall i j, ~ race tbl tr i j.
Proof. exact ordered_pairs_no_race. Qed.

(* ---- no execution whose accesses are instances of the translated rows has a data race.
        Hypotheses = what the runtime guarantees (mutex_sem) and what the translator's
        classification means (trusted): locks, dead code, self-ordered classes, New before
        everything it did not start, fresh objects. *)
Theorem no_data_race_in_any_execution : forall tr : trace,
  mutex_sem tr ->
  (forall i t r a k x, at_ tr i t (Acc r) -> nth_error gen_table r = Some a ->
     In (k, x) (a_locks a) -> in_cs tr i t k x) ->
  (forall i t r a c, at_ tr i t (Acc r) -> nth_error gen_table r = Some a ->
     ctx_of gen_ctxs a = Some c -> is_dead c = false) ->
  (forall i j t1 t2 r1 r2 a1 a2 c, i < j ->
     at_ tr i t1 (Acc r1) -> at_ tr j t2 (Acc r2) -> t1 <> t2 ->
     nth_error gen_table r1 = Some a1 -> nth_error gen_table r2 = Some a2 ->
     ctx_of gen_ctxs a1 = Some c -> ctx_of gen_ctxs a2 = Some c -> c_self c = true -> hb tr i j) ->
  (forall x y t1 t2 r1 r2 a1 a2 c1 c2,
     at_ tr x t1 (Acc r1) -> at_ tr y t2 (Acc r2) -> t1 <> t2 ->
     nth_error gen_table r1 = Some a1 -> nth_error gen_table r2 = Some a2 ->
     ctx_of gen_ctxs a1 = Some c1 -> ctx_of gen_ctxs a2 = Some c2 ->
     is_init c1 = true -> c_early c2 = false -> c_id c1 <> c_id c2 -> hb tr x y) ->
  (forall x y t1 t2 r1 r2 a1 a2 c1,
     at_ tr x t1 (Acc r1) -> at_ tr y t2 (Acc r2) -> t1 <> t2 ->
     nth_error gen_table r1 = Some a1 -> nth_error gen_table r2 = Some a2 ->
     ctx_of gen_ctxs a1 = Some c1 -> is_fresh c1 = true -> conflicting a1 a2 = true -> hb tr x y) ->
  forall i j, ~ race gen_table tr i j.
Proof.
  intros tr HM HL HD HS HI HF. eapply discipline_sound; eauto using gen_table_discipline.
Qed.

(* ---- non-vacuity and contrast *)
Definition ex_ctxs : list ctxinfo := [mkCtx 0 KLoop true false; mkCtx 1 KGo true false; mkCtx 2 KApi false false].

(* the shape of the ticker defect: the loop writes, another goroutine reads, no lock *)
Example unsynchronised_pair_rejected :
  discipline ex_ctxs [mkAcc 7 true 0 []; mkAcc 7 false 1 []] = false.
Proof. vm_compute. reflexivity. Qed.

(* the same pair under one mutex, or both in the loop, is accepted *)
Example mutex_pair_accepted :
  discipline ex_ctxs [mkAcc 7 true 0 [(3%N, true)]; mkAcc 7 false 1 [(3%N, true)]] = true.
Proof. vm_compute. reflexivity. Qed.

Example two_readers_under_rlock_and_a_writer :
  discipline ex_ctxs [mkAcc 7 false 2 [(3%N, false)]; mkAcc 7 false 1 [(3%N, false)]; mkAcc 7 true 0 [(3%N, true)]] = true
  /\ discipline ex_ctxs [mkAcc 7 true 2 [(3%N, false)]; mkAcc 7 false 1 [(3%N, false)]] = false.
Proof. vm_compute. split; reflexivity. Qed.

(* a racy trace exists: two goroutines, one location, a write and a read, no synchronisation *)
Example racy_trace :
  race [mkAcc 7 true 0 []; mkAcc 7 false 1 []] [mkEv 1 (Acc 0); mkEv 2 (Acc 1)] 0 1.
Proof.
  split. lia. exists 1%N, 2%N, 0, 1, (mkAcc 7 true 0 []), (mkAcc 7 false 1 []).
  repeat split; try reflexivity. discriminate.
  intro H.
  assert (G : forall i j, hb [mkEv 1%N (Acc 0); mkEv 2%N (Acc 1)] i j -> i = 0 -> j = 1 -> False).
  { intros i j HB. induction HB; intros; subst.
    - inversion H0; subst; unfold at_ in *; simpl in *;
        repeat match goal with H : Some _ = Some _ |- _ => inversion H; clear H; subst end; try discriminate.
    - apply hb_lt in HB1. apply hb_lt in HB2. lia. }
  eapply G; eauto.
Qed.

(* the same two accesses under one mutex, in a trace that respects the mutex, are ordered *)
Example locked_trace_ordered :
  let tr := [mkEv 1 (Lock 3 true); mkEv 1 (Acc 0); mkEv 1 (Unlock 3 true);
             mkEv 2 (Lock 3 true); mkEv 2 (Acc 1); mkEv 2 (Unlock 3 true)] in
  hb tr 1 4.
Proof.
  intro tr. apply hb_trans with 2. { apply hb_edge. eapply E_po with (t := 1%N); try reflexivity. lia. }
  apply hb_trans with 3. { apply hb_edge. eapply E_lock with (k := 3%N) (x := true) (y := true); try reflexivity. lia. }
  apply hb_edge. eapply E_po with (t := 2%N); try reflexivity. lia.
Qed.
