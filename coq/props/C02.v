(* C02 -- search returns exactly the streams the query denotes, ordered and paged.

   Statements only; proofs are in theories/SearchProofs.v, the model in theories/Search.v.

   Reading guide.
   [search_algo v fs keys limit skip idok] is the model of index.SearchStreams without grouping and
   sub-queries: [fs] = index files oldest first, each with the query parts compiled for it
   (possible / lookups / filters, as buildSearchObjects delivers them), [v_fixed] = the code with
   fixes/C02-fallthrough-duplicates and C02-early-exit-secondary-keys applied, [v_orig] = the pinned
   commit.  [sat] is the meaning of the (cleaned, tag-inlined) query on one stream: a GIVEN predicate
   (C03/C04 own it).  [file_ok sat] says what the compiled parts and the sorted sections of a file must
   satisfy: OR over the parts of (possible && filters) = sat; every lookup lists every stream its part
   accepts; the id/ftime/ltime sections are permutations of the file sorted by their key.  The
   correspondence check validates these hypotheses on every generated case against the real
   buildSearchObjects and the real index files.
   The specification: [visible] = newest stored version of every stream id, [spec_matching] = visible
   streams satisfying sat and the id restriction, [spec_page] = stable sort, skip, cut,
   [spec_more] = limit <> 0 and more than skip+limit streams match. *)
From Coq Require Import List NArith ZArith Bool Permutation Sorted.
Import ListNotations.
Require Import Pk.Search Pk.SearchProofs Pk.SearchSubProofs Pk.SearchWitness.

(* ---------------------------------------------------------------- comparators *)
(* every sort key list (any keys, any directions, any length) orders result entries by a strict weak
   order: irreflexive, transitive, incomparability transitive *)
Theorem c02_comparator_is_strict_weak_order : forall ks : list sorting, swo (entry_less ks).
Proof. exact swo_entry_less. Qed.

(* sort.Search on a monotone predicate returns the boundary *)
Theorem c02_binary_search_boundary : forall (f : nat -> bool) (n : nat),
  (forall h k, h <= k -> k < n -> f h = true -> f k = true) ->
  let r := bsearch f n in
  r <= n /\ (forall k, k < r -> f k = false) /\ (forall k, r <= k -> k < n -> f k = true).
Proof. exact bsearch_spec. Qed.

(* sorted insertion by binary search keeps the result list sorted and only adds the new entry *)
Theorem c02_sorted_insertion : forall less, swo less -> forall e l,
  sorted less l -> sorted less (insert_sorted less e l) /\ Permutation (insert_sorted less e l) (e :: l).
Proof. exact insert_sorted_spec. Qed.

(* ---------------------------------------------------------------- the search, patched code *)
(* (iii) the returned page is sorted w.r.t. the full comparator *)
Theorem c02_result_sorted : forall fs keys limit skip idok sat,
  Forall (file_ok sat) fs ->
  sorted (entry_less (effective_sorting keys)) (fst (search_algo v_fixed fs keys limit skip idok)).
Proof. exact algo_sorted. Qed.

(* (ii) every returned entry is a visible (newest version) stream that satisfies the query and the
   id restriction *)
Theorem c02_result_subset_of_matching_visible : forall fs keys limit skip idok sat,
  Forall (file_ok sat) fs ->
  forall e, In e (fst (search_algo v_fixed fs keys limit skip idok)) ->
            In e (spec_matching (map fst fs) idok sat).
Proof. exact algo_sound. Qed.

(* (i) no stream id is listed twice (no index file stores an id twice) *)
Theorem c02_result_no_duplicates : forall fs keys limit skip idok sat,
  Forall (file_ok sat) fs ->
  Forall (fun f => NoDup (map s_id (f_streams f))) (map fst fs) ->
  NoDup (map e_id (fst (search_algo v_fixed fs keys limit skip idok))).
Proof. exact algo_nodup. Qed.

(* (iv) the page has min(limit, |matching| - skip) entries (all of them without a limit) *)
Theorem c02_result_length : forall fs keys limit skip idok sat,
  Forall (file_ok sat) fs -> (limit = 0 -> skip = 0) ->
  length (fst (search_algo v_fixed fs keys limit skip idok)) =
  if Nat.eqb limit 0 then length (spec_matching (map fst fs) idok sat) - skip
  else Nat.min limit (length (spec_matching (map fst fs) idok sat) - skip).
Proof. exact algo_length. Qed.

(* (vi) the more flag is set exactly when matching streams exist beyond the page *)
Theorem c02_more_flag : forall fs keys limit skip idok sat,
  Forall (file_ok sat) fs ->
  snd (search_algo v_fixed fs keys limit skip idok) = spec_more (map fst fs) limit skip idok sat.
Proof. exact algo_more. Qed.

(* (v) the matching visible streams split into: [skip] entries in front of the page, none of them after
   a page entry; the page; and the rest, none of them strictly before a page entry (no rest without a limit) *)
Theorem c02_nothing_better_omitted : forall fs keys limit skip idok sat,
  Forall (file_ok sat) fs -> (limit = 0 -> skip = 0) ->
  exists before after,
    Permutation (spec_matching (map fst fs) idok sat)
                (before ++ fst (search_algo v_fixed fs keys limit skip idok) ++ after) /\
    (fst (search_algo v_fixed fs keys limit skip idok) <> [] -> length before = skip) /\
    (forall x y, In x before -> In y (fst (search_algo v_fixed fs keys limit skip idok)) ->
                 entry_less (effective_sorting keys) y x = false) /\
    (forall x y, In x after -> In y (fst (search_algo v_fixed fs keys limit skip idok)) ->
                 entry_less (effective_sorting keys) x y = false) /\
    (limit = 0 -> after = []).
Proof. exact algo_complete. Qed.

(* hence: the page is the specified page, position by position, up to the order inside tie classes *)
Theorem c02_page_equals_spec_up_to_ties : forall fs keys limit skip idok sat,
  Forall (file_ok sat) fs -> (limit = 0 -> skip = 0) ->
  Forall2 (equiv (entry_less (effective_sorting keys)))
          (fst (search_algo v_fixed fs keys limit skip idok))
          (spec_page (map fst fs) keys limit skip idok sat).
Proof. exact algo_page_equiv. Qed.

(* ---------------------------------------------------------------- tag definition inlining *)
(* InlineTagFilters (patched: no slice aliasing): whenever the inlining succeeds within the fuel
   (nesting depth of tag definitions), evaluating the inlined conditions against the match/uncertain
   bitmaps gives the intended meaning: decided streams are judged by their bit, undecided ones by the
   tag's definition.  [invert] is ConditionsSet.invert (C03), the uncertain bitmap is consistent with
   its IsZero.  [invert] only has to negate NON-EMPTY sets: the real invert() maps the empty set (a definition that
   can never match) to the empty set; inlineTagFilter handles that case itself since d05297f and the model follows. *)
Theorem c02_inlining_preserves_meaning :
  forall (atom tagname : Type) (tags : tagname -> option (tagdetails atom tagname))
         (invert : dnf atom tagname -> dnf atom tagname) (eval_atom : atom -> bool) (sid : N),
    (forall d, d <> [] -> eval_dnf tags eval_atom sid (invert d) = negb (eval_dnf tags eval_atom sid d)) ->
    (forall t td, tags t = Some td -> td_uncertain td sid = true -> td_any_uncertain td = true) ->
    forall fuel d d',
      inline_dnf tags invert fuel d = Some d' ->
      eval_dnf tags eval_atom sid d' = sem_dnf tags eval_atom sid fuel d.
Proof. exact inline_preserves. Qed.

(* the two halves together: parts compiled for the INLINED query (evaluated against the bitmaps) are
   sound for the MEANING of the original query, so every theorem above holds with
   sat := fun s => sem_dnf ... d, the meaning in which undecided streams are judged by the definitions *)
Theorem c02_search_of_inlined_query_finds_the_meaning :
  forall (atom tagname : Type) (tags : tagname -> option (tagdetails atom tagname))
         (invert : dnf atom tagname -> dnf atom tagname) (eval_atom : stream -> atom -> bool) fuel d d' fs,
    (forall s dd, dd <> [] -> eval_dnf tags (eval_atom s) (s_id s) (invert dd) = negb (eval_dnf tags (eval_atom s) (s_id s) dd)) ->
    (forall s t td, tags t = Some td -> td_uncertain td (s_id s) = true -> td_any_uncertain td = true) ->
    inline_dnf tags invert fuel d = Some d' ->
    Forall (file_ok (fun s => eval_dnf tags (eval_atom s) (s_id s) d')) fs ->
    Forall (file_ok (fun s => sem_dnf tags (eval_atom s) (s_id s) fuel d)) fs.
Proof. exact file_ok_inlined. Qed.

(* with a correct decided bit, `tag:t` means the definition of t whether the stream is decided or not *)
Theorem c02_tag_means_definition_when_decided_bits_correct :
  forall (atom tagname : Type) (tags : tagname -> option (tagdetails atom tagname))
         (eval_atom : atom -> bool) (sid : N) (fuel : nat) (t : tagname) (td : tagdetails atom tagname),
    tags t = Some td ->
    (td_uncertain td sid = false -> td_matches td sid = sem_dnf tags eval_atom sid fuel (td_conditions td)) ->
    sem_cond_with tags eval_atom sid (sem_dnf tags eval_atom sid fuel) (CTag t tag_plain) =
    sem_dnf tags eval_atom sid fuel (td_conditions td).
Proof. exact tag_means_definition. Qed.

(* ---------------------------------------------------------------- the pinned commit: refuted *)
(* witnesses are the corpus cases corpus/C02/fallthrough-duplicates.json and
   early-exit-secondary-keys.json, replayed on the Go code by the check *)
Theorem c02_result_no_duplicates_refuted : exists fs keys limit skip idok sat,
  Forall (file_ok sat) fs /\
  Forall (fun f => NoDup (map s_id (f_streams f))) (map fst fs) /\
  ~ NoDup (map e_id (fst (search_algo v_orig fs keys limit skip idok))).
Proof. exact orig_duplicates. Qed.

Theorem c02_page_equals_spec_up_to_ties_refuted : exists fs keys limit skip idok sat,
  Forall (file_ok sat) fs /\ (limit = 0 -> skip = 0) /\
  ~ Forall2 (equiv (entry_less (effective_sorting keys)))
            (fst (search_algo v_orig fs keys limit skip idok))
            (spec_page (map fst fs) keys limit skip idok sat).
Proof. exact orig_early_exit. Qed.

(* limit = 0 with skip <> 0 is outside the theorems (the manager computes skip = page * limit): the
   code then treats skip as the limit and returns nothing *)
Theorem c02_result_length_without_limit_but_skip_refuted : exists fs keys skip idok sat,
  Forall (file_ok sat) fs /\
  length (fst (search_algo v_fixed fs keys 0 skip idok)) <> length (spec_matching (map fst fs) idok sat) - skip.
Proof. exact nolimit_skip_refuted. Qed.

(* ---------------------------------------------------------------- the hypotheses are satisfiable *)
Example c02_hypotheses_satisfiable : exists fs sat,
  Forall (file_ok sat) fs /\ length fs = 2 /\
  exists keys limit skip,
    fst (search_algo v_fixed fs keys limit skip (fun _ => true)) <> [] /\
    snd (search_algo v_fixed fs keys limit skip (fun _ => true)) = true.
Proof. exact hypotheses_satisfiable. Qed.

Example c02_inlining_non_vacuous : exists (tags : nat -> option (tagdetails nat nat)) d d',
  inline_dnf tags (fun x => x) 1 d = Some d' /\ length d' = 2.
Proof. exact inlining_non_vacuous. Qed.

(* the inversion hypothesis of c02_inlining_preserves_meaning is satisfiable: De Morgan on the DNF over
   atoms with a polarity negates (on conditions about existing tags), and with it the theorem's
   conclusion is obtained for `tag:0`, undecided, defined as atom 7 *)
Example c02_inversion_hypothesis_satisfiable : forall base sid d,
  Forall (Forall cond_wf) d ->
  eval_dnf wtags (pe base) sid (demorgan d) = negb (eval_dnf wtags (pe base) sid d).
Proof. exact demorgan_ok. Qed.

Example c02_inlining_instance : forall base sid,
  exists d', inline_dnf wtags demorgan 1 [[CTag 0 tag_plain]] = Some d' /\
             eval_dnf wtags (pe base) sid d' = base 7.
Proof. exact inlining_instance. Qed.

(* ---------------------------------------------------------------- sub-queries *)
(* A sub-query is searched first, unsorted, without limit and id restriction ([sub_search]): its result list
   holds exactly the visible streams its parts accept, each stream id once.  (The positions in this list are
   what the main query's searchContext refers to.) *)
Theorem c02_subquery_results_exact : forall fs sat,
  Forall (file_ok sat) fs ->
  Permutation (spec_matching (map fst fs) (fun _ => true) sat) (sub_search v_fixed fs) /\
  (Forall (fun f => NoDup (map s_id (f_streams f))) (map fst fs) -> NoDup (map e_id (sub_search v_fixed fs))).
Proof. exact sub_search_exact. Qed.

(* subQuerySelection.remove: a combination of sub-query result positions is allowed afterwards iff it was
   allowed before and is not forbidden in every listed component *)
Theorem c02_subquery_selection_remove : forall dom c sqs forbidden sel,
  (forall sq, In sq sqs -> In sq dom) -> length sqs = length forbidden ->
  (sel_allows dom c (sel_remove sqs forbidden sel) <->
   sel_allows dom c sel /\ ~ forbidden_by c sqs forbidden).
Proof. exact sel_remove_spec. Qed.

(* The filters of one conjunct on one stream share one searchContext; every relation to sub-queries removes
   its forbidden combinations; the conjunct matches iff something is left.  This is exactly
   "some allowed combination of sub-query results is forbidden by none of the relations", i.e. the
   existential meaning of sub-queries.  How each condition type derives its forbidden sets from the previous
   results is modelled and proved exact in the theorems that follow (number and time: any number of
   sub-queries; host: the two-source form the engine accepts; flag/protocol: the stream and one sub-query, the
   only form the parser builds -- FlagConditions over different sub-query sets are never merged). *)
Theorem c02_subquery_relation_filters : forall dom ops sel,
  sel_wf dom sel -> Forall (op_ok dom) ops ->
  (rel_filters ops sel = true <->
   exists c, sel_allows dom c sel /\ Forall (fun op => ~ forbidden_by c (fst op) (snd op)) ops).
Proof. exact rel_filters_exact. Qed.

Example c02_subquery_selection_non_vacuous :
  sel_wf [0; 1] ws_sel /\ Forall (op_ok [0; 1]) ws_ops /\
  rel_filters ws_ops ws_sel = true /\ rel_filters (ws_ops ++ [([1], [[1]])]) ws_sel = false.
Proof. split; [exact ws_wf|split; [exact ws_ops_ok|exact ws_filters]]. Qed.

(* The values of a sub-query's results are grouped by value, ascending (map + append + sort.Slice): every
   result position is in exactly the group of its value. *)
Theorem c02_subquery_value_grouping : forall vals, data_ok (group_values vals) vals.
Proof. exact group_values_ok. Qed.

(* A NumberCondition or TimeCondition that relates the stream to k+1 sub-queries
     n + sum_i value_i(result chosen for sub-query i) >= 0        (n = constant + the stream's own terms)
   as compiled by buildSearchObjects: grouping and sorting of the sub-query values, cumulative position sets of
   the last sub-query, the minSum/maxSum shortcuts, the odometer over the value combinations of the leading
   sub-queries, the binary search for the last invalid value, and the removes on the shared selection.
   The filter answers true exactly when some allowed combination satisfies the relation, and then the
   selection it leaves allows exactly the previously allowed combinations that satisfy it -- for every n, any
   number of sub-queries, any values (duplicates, negative factors already multiplied in), any selection whose
   positions exist. *)
Theorem c02_subquery_number_time_relation_exact :
  forall (dom : list nat) (n : Z) (sqs : list nat) (sl : nat) (vals : list (list Z)) (vl : list Z),
    length sqs = length vals ->
    (forall sq, In sq (sqs ++ [sl]) -> In sq dom) ->
    forall sel : subsel,
      sel_wf dom sel -> sel <> [] -> sel_in_range sqs sl vals vl sel ->
      let r := number_filter n (sqs ++ [sl]) (map group_values (vals ++ [vl])) sel in
      (snd r = true <->
       exists c, sel_allows dom c sel /\ (0 <= n + csum c (sqs ++ [sl]) (vals ++ [vl]))%Z) /\
      (snd r = true ->
       sel_wf dom (fst r) /\
       forall c, sel_allows dom c (fst r) <->
                 sel_allows dom c sel /\ (0 <= n + csum c (sqs ++ [sl]) (vals ++ [vl]))%Z).
Proof. exact number_filter_exact. Qed.

(* `cport:@a:cport@` for a stream with cport 1001, part ">= ": n = 1001, values -cport of a's results *)
Example c02_number_relation_example :
  let sel := [fun k : nat => match k with 0 => [0; 1; 2] | _ => [] end] in
  snd (number_filter 1001 [0] [group_values [-1000; -1001; -1002]%Z] sel) = true /\
  map (fun m : selmap => m 0) (fst (number_filter 1001 [0] [group_values [-1000; -1001; -1002]%Z] sel)) = [[0; 1]] /\
  snd (number_filter 999 [0] [group_values [-1000; -1001; -1002]%Z] sel) = false.
Proof. vm_compute. repeat split; reflexivity. Qed.

Example c02_negated_reference_to_never_matching_tag : forall base sid,
  exists d', inline_dnf wn_tags demorgan 1 [[CTag 0 (mkAccept false true false true)]] = Some d' /\
             length d' = 2 /\ eval_dnf wn_tags (pe base) sid d' = true.
Proof. exact negated_empty_definition. Qed.

(* HostCondition relating this stream's client/server host to the client/server host of one sub-query stream
   (after 2c56518): byte compare under the mask of this stream's address family; different families never
   match; when both masks are unspecified only the family is compared (the per-host-group sets).  The filter
   answers true iff some allowed sub-query result satisfies  invert xor (same family and equal under the mask),
   and leaves exactly those allowed. *)
Theorem c02_subquery_host_relation_exact : forall dom sq invert masks_zero myh mask others sel,
  In sq dom -> sel_wf dom sel -> sq_in_range sq (length others) sel ->
  (masks_zero = true -> forallb (N.eqb 0) mask = true /\ ip_size myh /\ Forall ip_size others) ->
  let r := host_filter invert masks_zero myh mask sq others sel in
  (snd r = true <-> exists c, sel_allows dom c sel /\ host_cond invert myh mask (nth (c sq) others []) = true) /\
  sel_wf dom (fst r) /\
  (forall c, sel_allows dom c (fst r) <->
             sel_allows dom c sel /\ host_cond invert myh mask (nth (c sq) others []) = true).
Proof. exact host_filter_exact. Qed.

(* FlagCondition (protocol:@a:protocol@ and its negation) over this stream and one sub-query: fulfilled when
   own xor other <> value (all masked).  The xor table, its lookup and the two shortcuts answer true iff some
   allowed sub-query result fulfils it, and then leave exactly those allowed. *)
Theorem c02_subquery_flag_relation_exact : forall dom sq own value flags sel,
  In sq dom -> sel_wf dom sel -> sel <> [] -> sq_in_range sq (length flags) sel ->
  let good := fun p => negb (N.eqb (N.lxor own (nth p flags 0%N)) value) in
  let r := flag_filter own value sq flags sel in
  (snd r = true <-> exists c, sel_allows dom c sel /\ good (c sq) = true) /\
  (snd r = true -> sel_wf dom (fst r) /\
     forall c, sel_allows dom c (fst r) <-> sel_allows dom c sel /\ good (c sq) = true).
Proof. exact flag_filter_exact. Qed.

(* `-chost:@a:chost@/24` for 10.0.0.1 against [10.0.0.7; 10.0.1.5; fe80::1]: the last two differ; and
   the raw flag condition `own xor other <> 0` (protocols differ) for a tcp stream against [tcp; udp; tcp]: the udp result stays *)
Example c02_host_flag_relation_example :
  let sel := [fun k : nat => match k with 0 => [0; 1; 2] | _ => [] end] in
  map (fun m : selmap => m 0)
      (fst (host_filter true false [10; 0; 0; 1]%N [255; 255; 255; 0]%N 0
                        [[10; 0; 0; 7]; [10; 0; 1; 5]; [254; 128; 0; 0; 0; 0; 0; 0; 0; 0; 0; 0; 0; 0; 0; 1]]%N sel)) = [[1; 2]] /\
  map (fun m : selmap => m 0) (fst (flag_filter 1 0 0 [1; 2; 1]%N sel)) = [[1]] /\
  snd (flag_filter 1 0 0 [1; 1; 1]%N sel) = false.
Proof. vm_compute. repeat split; reflexivity. Qed.

(* ---------------------------------------------------------------- per-file shortcut of time filters *)
(* buildSearchObjects evaluates a TimeCondition  d + a*ftime + b*ltime >= 0  on the file's (min ftime, min ltime)
   and (max ftime, max ltime) and, when both agree, drops the filter or skips the file -- but only for filters that
   look at ONE of the two times.  For those the shortcut is sound for every stream between the bounds. *)
Theorem c02_time_filter_file_shortcut_sound : forall a b d fmin fmax lmin lmax ft lt,
  (fmin <= ft <= fmax)%Z -> (lmin <= lt <= lmax)%Z ->
  match time_shortcut true a b d fmin fmax lmin lmax with
  | ScDrop => time_filter a b d ft lt = true
  | ScSkipFile => time_filter a b d ft lt = false
  | ScKeep => True
  end.
Proof. exact time_shortcut_sound. Qed.

(* without the one-time test (seeded change C02-r7d-n1) a duration bound such as ltime - ftime - 5 >= 0 is dropped
   for a file whose synthetic corner points satisfy it although a stream does not *)
Theorem c02_time_filter_file_shortcut_unguarded_refuted : exists a b d fmin fmax lmin lmax ft lt,
  (fmin <= ft <= fmax)%Z /\ (lmin <= lt <= lmax)%Z /\
  time_shortcut false a b d fmin fmax lmin lmax = ScDrop /\ time_filter a b d ft lt = false.
Proof. exact time_shortcut_unguarded_refuted. Qed.
