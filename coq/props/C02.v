(* C02 -- search returns exactly the streams the query denotes, ordered and paged.
   Statements only; proofs are in theories/SearchProofs.v. *)
From Coq Require Import List NArith ZArith Bool.
Import ListNotations.
Require Import Pk.Search.

(* sanity: one stream, one part without lookups, default order *)
Example c02_smoke :
  let s := mkStream 7 10 20 1 2 1000 80 [10;0;0;1]%N [10;0;0;2]%N in
  let f := mkFile [s] [0] [0] [0] in
  search_algo v_fixed [(f, [mkQpart true [] (fun _ => true)])] [] 100 0 (fun _ => true) = ([(0, 0, s)], false).
Proof. vm_compute. reflexivity. Qed.
