(* C16 -- converter output always belongs to the stream's current data.
   Model: theories/Tags.v (state machine of the manager's service loop); proofs: theories/TagsC16.v. *)
From Coq Require Import List NArith Bool.
From Pk Require Import Tags TagsC16 TagsC06 TagsC09 TagsC09T TagsC09A TagsC16C TagsC16S TagsC16P.
Import ListNotations.
Open Scope N_scope.

(* Cache-version invariant.  For the repaired instance of the model (= the Go code after d1a158c and
   ffeb56c) and every action with every choice `p` of the tagging job: a cached output carries the
   current version of its stream, or a converter job is in flight and the stream is recorded as
   changed since the job took its index snapshot (such entries are dropped when the job completes). *)
Theorem C16_cache_version_step :
  forall k p a st, repaired_c16 k -> act_ok st a -> Cinv st -> Cinv (step k p a st).
Proof. exact cinv_step. Qed.

(* ... hence after every history of API calls, job bodies and job completions (importer responses
   well-formed: updated/reset ids exist, added ids are new) *)
Theorem C16_cache_version_history :
  forall k l cs, repaired_c16 k -> acts_ok k (init cs) l -> Cinv (run k l (init cs)).
Proof. intros. apply cinv_run; [assumption|assumption|apply cinv_init]. Qed.

(* whenever no converter job is in flight, whatever is shown or searched is output of the current payload *)
Theorem C16_current_when_no_job :
  forall k l cs, repaired_c16 k -> acts_ok k (init cs) l ->
  let st := run k l (init cs) in
  jconv st = None -> forall c i v, cache st c i = Some v -> v = ver st i.
Proof. intros k l cs K H st J. apply cinv_quiet; [apply cinv_run; [exact K|exact H|apply cinv_init]|exact J]. Qed.

(* ---- completeness (theories/TagsC16C.v; uses the C09 invariant Tinv and termination).  Completeness speaks about
   converters that answer: `nofail_history` / `jstep0` = no conversion fails.  (A conversion that fails -- Converter.Data
   returns an error, the process is killed -- is retried once and then discarded: C16_failed_conversion_is_not_cached;
   the cache-version theorems above and C09's termination hold with failures as well.)
   In every reachable state every existing or future stream id that a live tag with an attached converter matches is
   cached, queued for that converter, or in the set of a converter job whose body has not run yet. *)
Theorem C16_matching_is_cached_queued_or_in_flight :
  forall cs l, NoDup cs -> valid_history (init cs) l -> nofail_history l ->
  let st := run repaired l (init cs) in
  forall n t c id, In (n, t) (tags st) -> t_live t = true -> memN c (t_conv t) = true -> mem id (t_m t) = true ->
  cache st c id <> None \/ mem id (toconv st c) = true \/ inflight st c id.
Proof. intros cs l ND V NF st n t c id I L C M. exact (proj1 (qinv_reachable cs l ND V NF) n t c id I L C M). Qed.

(* "eventually has output": from every reachable state every schedule of the background jobs is finite (C09) and
   where it stops every stream matching a tag with an attached converter has cached output of its CURRENT version *)
Theorem C16_complete_and_current_at_rest :
  forall cs l st', NoDup cs -> valid_history (init cs) l -> nofail_history l ->
  jsteps0 (run repaired l (init cs)) st' -> (forall st'', ~ jstep0 st' st'') ->
  forall n t c id, In (n, t) (tags st') -> t_live t = true -> memN c (t_conv t) = true -> memN c (convs st') = true ->
  mem id (t_m t) = true -> cache st' c id = Some (ver st' id).
Proof. exact reachable_complete. Qed.

(* a conversion that fails leaves no output: the converter job body stores nothing for a (converter, stream) pair on its
   failure list *)
Theorem C16_failed_conversion_is_not_cached :
  forall bad st j c i, existsb (fun p => (fst p =? c) && (snd p =? i)) bad = true -> cache st c i = None ->
  NoDup (map fst (cj_sets j)) -> cache (bconv_state bad st j) c i = None.
Proof. intros bad st j c i B CC ND. apply failed_not_cached; auto. Qed.

(* ---- the converter process pool (theories/TagsC16P.v; internal/index/converters reserveProcess / releaseProcess / Data).
   Rule: a process whose answer could not be read completely (invalid direction, ...) is killed, only a process whose
   answer was read completely goes back to the idle pool.  Then, whatever sequence of streams is converted and whatever
   the converter script answers, every conversion returns the script's answer for THAT stream (or its error). *)
Theorem C16_pool_answers_belong_to_their_requests :
  forall l p, clean p -> requests true l p = map expected l.
Proof. exact requests_kill_rule. Qed.

(* Without the rule (the process goes back to the pool after the error; seeded change C16-r4c-n2): the next stream is
   shown the leftover of the failed answer. *)
Theorem C16_pool_release_after_error_refuted :
  requests false [w_bad; w_good] [] = [None; Some [10]] /\ expected w_good = Some [11].
Proof. exact release_after_error_refuted. Qed.

(* Restarts (Converter.Reset / ResetConverter increment the epoch and empty the cache): a conversion that was started in
   an older epoch is not stored -- releaseProcess reports the stale process and Converter.Data returns an error. *)
Theorem C16_answer_of_an_older_epoch_is_never_stored :
  forall id ans k s, store_current s -> store_current (convert true id ans k s).
Proof. exact convert_store_current. Qed.

(* ignoring the result of releaseProcess (seeded change C16-r6a-n2): after one restart the old answer is in the store *)
Theorem C16_ignored_release_result_refuted :
  store (convert false 0 (answer w_good) 1 (mkC 0 [] [])) = [(0, 0, [11])] /\
  epoch (convert false 0 (answer w_good) 1 (mkC 0 [] [])) = 1.
Proof. exact ignore_release_result_refuted. Qed.

(* Process slots (MAX_PROCESS_COUNT = 8): every conversion, successful or failed while sending or while reading the
   answer, returns or kills its process, so conversions never find the pool exhausted. *)
Theorem C16_every_conversion_returns_its_slot :
  forall o s, can_reserve s -> (started s <= MAXP)%nat ->
  s_busy (conversion false o s) = s_busy s /\ (started (conversion false o s) <= MAXP)%nat.
Proof. exact conversion_returns_its_slot. Qed.

Theorem C16_sequential_conversions_never_block :
  forall l s, s_busy s = O -> (started s <= MAXP)%nat ->
  let s' := fold_left (fun st o => conversion false o st) l s in
  s_busy s' = O /\ (started s' <= MAXP)%nat /\ can_reserve s'.
Proof. exact sequential_conversions_never_block. Qed.

(* seeded change C09-r8d-n1: an error in the read loop leaks the slot; eight malformed answers exhaust the pool *)
Theorem C16_leaked_slots_exhaust_the_pool_refuted :
  let s := fold_left (fun st o => conversion true o st) (repeat ErrorWhileReading 8) (mkS 0 0) in
  s_busy s = 8%nat /\ s_idle s = O /\ ~ can_reserve s.
Proof. exact leaked_slots_exhaust_the_pool_refuted. Qed.

(* Detaching: detachConverterFromTag removes the tag's own streams from the converter's queue; a stream stays queued
   only if another tag that keeps the converter matches it.  This is the whole statement, by design of the code; the
   harness checks it right after every set-converter / delete-tag action (also while a converter job is in flight). *)
Theorem C16_detach_dequeues :
  forall st n c t, tget n (tags st) = Some t ->
  forall id, mem id (toconv (detach st n c) c) = true ->
  mem id (toconv st c) = true /\
  (mem id (t_m t) = false \/ exists k b, In (k, b) (tags (detach st n c)) /\ k <> n /\ tag_has_conv c b = true /\ mem id (t_m b) = true).
Proof. exact detach_dequeues. Qed.

(* The stronger reading "after a detach no stream of the detached tag is converted by that converter any more" is
   false, and meant to be: two marks on stream 0 keep converter 0; the second attach happens while the converter job
   of the first is in flight, so stream 0 is queued; taking the converter from mark 2 leaves stream 0 queued because
   mark 1 still matches it. *)
Definition w_detach : list (N * action) :=
  let md := mkDef 1 true false false false [] [] true in
  [(0, AAddTag 1 md 1); (0, AAddTag 2 md 1); (0, ASetConv 1 [0]); (0, ASetConv 2 [0])].

Theorem C16_detach_stops_all_runs_refuted :
  let st := run repaired w_detach (init [0]) in
  let st' := step repaired 0 (ASetConv 2 []) st in
  (exists t, tget 2 (tags st) = Some t /\ mem 0 (t_m t) = true /\ tag_has_conv 0 t = true) /\
  (exists t', tget 2 (tags st') = Some t' /\ t_conv t' = []) /\
  mem 0 (toconv st' 0) = true.
Proof.
  split; [|split].
  - eexists. split; [vm_compute; reflexivity|split; vm_compute; reflexivity].
  - eexists. split; vm_compute; reflexivity.
  - vm_compute. reflexivity.
Qed.

(* A converter never feeds the tag it is attached to: in every state reached by any history (any switches, any
   schedule) a live tag that keeps converters matches on neither stream data nor other tags.  attachConverterToTag
   refuses such tags; since 7bcf2d3 UpdateTag also refuses to turn the query of a tag with converters into one
   (before, `setconv tag/d [cva]` then `query tag/d "cdata:..."` was accepted and the tag was re-tagged by the
   output of its own converters).  The harness checks the same on every state dump (converter-on-complex-tag). *)
Theorem C16_tag_with_converters_is_simple :
  forall k cs l n t,
  tget n (tags (run k l (init cs))) = Some t -> t_conv t <> [] ->
  d_data (t_def t) = false /\ d_refs (t_def t) = [].
Proof. exact sc_reachable. Qed.

(* The unrepaired code (switches on) violated it: both historical witnesses end with no job in flight,
   nothing queued and a cached output of an old version (reproduced on the Go code before d1a158c:
   corpus/C16/inflight-update.json, corpus/C16/reset-not-invalidated.json). *)
Theorem C16_inflight_update_refuted :
  stale_at_rest (run faithful w_inflight (init [0])) = true.
Proof. vm_compute. reflexivity. Qed.

Theorem C16_reset_not_invalidated_refuted :
  stale_at_rest (run faithful w_resetrun (init [0])) = true.
Proof. vm_compute. reflexivity. Qed.

(* the same histories on the repaired model: non-vacuity of the hypotheses and of the repair *)
Example C16_witnesses_repaired :
  stale_at_rest (run repaired w_inflight (init [0])) = false /\
  stale_at_rest (run repaired w_resetrun (init [0])) = false.
Proof. vm_compute. split; reflexivity. Qed.

Ltac resp_ok :=
  repeat split; try (vm_compute; discriminate);
  try (intros i H; first [rewrite mem_0 in H; discriminate
                         | change 1 with (single 0) in H; rewrite mem_single in H; apply N.eqb_eq in H; subst; vm_compute; first [reflexivity | discriminate]]).

(* the importer responses used by the witnesses satisfy the hypothesis act_ok (non-vacuity) *)
Example C16_witness_responses_ok :
  iresp_ok 0 w_import1 /\ iresp_ok 1 w_extend /\ iresp_ok 1 w_reset.
Proof.
  unfold iresp_ok, w_import1, w_extend, w_reset; simpl. resp_ok;
  intros [|q] H; try discriminate; vm_compute; first [reflexivity|discriminate].
Qed.

Example C16_repaired_is_repaired : repaired_c16 repaired.
Proof. repeat split. Qed.
