(* IndexesProofs.v -- invariants of the model in Indexes.v over every action sequence.
   Part 1 (C13): use counts = number of holders, files on disk = files in use or being written,
   uids fresh and unique.  Part 2 (C10): the visible map of the service list is the newest
   version of every stream of every processed capture; view snapshots are immutable. *)
From Coq Require Import List NArith Bool Arith Lia Permutation.
From Coq Require Import ZifyBool ZifyN ZifyNat.
Require Import Pk.Indexes.
Import ListNotations.
Open Scope N_scope.

(* ================================================================ use counts *)
Fixpoint occ (u : N) (fs : list file) : N :=
  match fs with
  | [] => 0
  | f :: r => (if f_uid f =? u then 1 else 0) + occ u r
  end.

Lemma occ_app : forall u a b, occ u (a ++ b) = occ u a + occ u b.
Proof. induction a; simpl; intros; [reflexivity|rewrite IHa; lia]. Qed.

Lemma occ_firstn_skipn : forall u n fs, occ u fs = occ u (firstn n fs) + occ u (skipn n fs).
Proof. intros. rewrite <- occ_app, firstn_skipn. reflexivity. Qed.

Lemma occ_pos_in : forall u fs, 0 < occ u fs <-> In u (map f_uid fs).
Proof.
  induction fs; simpl; [split; [lia|tauto]|].
  destruct (N.eqb_spec (f_uid a) u); split; intros; try lia; auto.
  - right. apply IHfs. lia.
  - destruct H; [congruence|]. apply IHfs in H. lia.
Qed.

Lemma occ_zero_notin : forall u fs, occ u fs = 0 <-> ~ In u (map f_uid fs).
Proof. intros. rewrite <- occ_pos_in. lia. Qed.

Lemma cnt_incr : forall u m v, cnt (incr u m) v = cnt m v + (if u =? v then 1 else 0).
Proof.
  induction m as [|[k c] r]; simpl; intros.
  - destruct (u =? v); lia.
  - destruct (N.eqb_spec k u); simpl.
    + subst. destruct (N.eqb_spec u v); lia.
    + destruct (N.eqb_spec k v); [|apply IHr].
      subst. destruct (N.eqb_spec u v); [congruence|lia].
Qed.

Lemma cnt_lock : forall fs m v, cnt (lock fs m) v = cnt m v + occ v fs.
Proof.
  unfold lock. induction fs; simpl; intros; [lia|].
  rewrite IHfs, cnt_incr. lia.
Qed.

Lemma cnt_setc : forall u c m v, cnt (setc u c m) v = if u =? v then c else cnt m v.
Proof.
  induction m as [|[k c0] r]; simpl; intros.
  - destruct (u =? v); reflexivity.
  - destruct (N.eqb_spec k u); simpl.
    + subst. destruct (N.eqb_spec u v); reflexivity.
    + destruct (N.eqb_spec k v).
      * subst. destruct (N.eqb_spec u v); [congruence|reflexivity].
      * apply IHr.
Qed.

Lemma cnt_delkey : forall u m v, cnt (delkey u m) v = if u =? v then 0 else cnt m v.
Proof.
  unfold delkey. induction m as [|[k c0] r]; simpl; intros.
  - destruct (u =? v); reflexivity.
  - destruct (N.eqb_spec k u); simpl.
    + subst. rewrite IHr. destruct (N.eqb_spec u v); reflexivity.
    + rewrite IHr. destruct (N.eqb_spec k v); [|reflexivity].
      subst. destruct (N.eqb_spec u v); [congruence|reflexivity].
Qed.

Lemma in_rmdisk : forall u d v, In v (rmdisk u d) <-> In v d /\ v <> u.
Proof.
  unfold rmdisk. intros. rewrite filter_In. destruct (N.eqb_spec v u); simpl; split; intros [? ?]; split; auto; congruence.
Qed.

(* one release step, when the file is in use *)
Lemma release1_spec : forall u m d m' d',
  1 <= cnt m u -> release1 u (m, d) = (m', d') ->
  (forall v, cnt m' v = cnt m v - (if u =? v then 1 else 0)) /\
  (forall v, In v d' <-> In v d /\ ~ (u = v /\ cnt m u = 1)).
Proof.
  unfold release1. intros u m d m' d' H E.
  destruct (N.eqb_spec (cnt m u) 0); [lia|].
  destruct (N.eqb_spec (cnt m u) 1); inversion E; subst; clear E.
  - split; intros.
    + rewrite cnt_delkey. destruct (N.eqb_spec u v); subst; lia.
    + rewrite in_rmdisk. split; intros [A B]; split; auto. intros [? _]; congruence.
  - split; intros.
    + rewrite cnt_setc. destruct (N.eqb_spec u v); subst; lia.
    + intuition.
Qed.

Arguments release1 : simpl never.

Lemma release_spec : forall fs m d m' d',
  (forall v, occ v fs <= cnt m v) -> release fs (m, d) = (m', d') ->
  (forall v, cnt m' v = cnt m v - occ v fs) /\
  (forall v, In v d' <-> In v d /\ (occ v fs = 0 \/ occ v fs < cnt m v)).
Proof.
  unfold release. induction fs as [|f r IH]; simpl; intros m d m' d' H E.
  - inversion E; subst. split; intros; [lia|intuition].
  - destruct (release1 (f_uid f) (m, d)) as [m1 d1] eqn:E1.
    assert (H1 : 1 <= cnt m (f_uid f)).
    { specialize (H (f_uid f)). rewrite N.eqb_refl in H. lia. }
    destruct (release1_spec _ _ _ _ _ H1 E1) as [C1 D1].
    assert (H2 : forall v, occ v r <= cnt m1 v).
    { intros v. rewrite C1. specialize (H v). destruct (f_uid f =? v); lia. }
    destruct (IH _ _ _ _ H2 E) as [C2 D2].
    split; intros v.
    + rewrite C2, C1. specialize (H v). destruct (f_uid f =? v); lia.
    + rewrite D2, D1, C1. specialize (H v).
      destruct (N.eqb_spec (f_uid f) v).
      * subst. clear IH D1 D2 C1 C2 H2 E E1.
        set (c := cnt m (f_uid f)) in *. set (o := occ (f_uid f) r) in *.
        split.
        -- intros [[A B] C]. split; [exact A|]. right.
           assert (c <> 1) by (intro; apply B; auto). lia.
        -- intros [A C]. split; [split; [exact A|intros [_ ?]; lia]|]. lia.
      * split.
        -- intros [[A B] C]. split; [exact A|]. lia.
        -- intros [A C]. split; [split; [exact A|intros [? _]; congruence]|]. lia.
Qed.

(* ================================================================ holders *)
Definition occ_views (u : N) (vs : list (N * list file)) : N :=
  fold_right (fun ws a => occ u (snd ws) + a) 0 vs.

Definition ij_files (o : option import_job) : list file := match o with Some j => ij_snap j | None => [] end.
Definition mj_files (o : option merge_job) : list file := match o with Some j => mj_snap j | None => [] end.
Definition tj_files (o : option tag_job) : list file := match o with Some j => tj_snap j | None => [] end.

(* number of holders of file u: the service list, the views, the jobs *)
Definition holders (st : state) (u : N) : N :=
  occ u (indexes st) + occ_views u (views st) + occ u (ij_files (ijob st))
  + occ u (mj_files (mjob st)) + occ u (tj_files (tjob st)).

(* files written by a job body whose completion has not run yet *)
Definition pending_files (st : state) : list file :=
  (match ijob st with Some j => ij_created j | None => [] end) ++
  (match mjob st with Some j => mj_merged j | None => [] end).

Definition consistent (m : list (N * N)) (d : list N) (h p : N -> N) : Prop :=
  (forall u, cnt m u = h u) /\
  (forall u, In u d <-> 0 < h u \/ 0 < p u) /\
  (forall u, 0 < p u -> h u = 0).

Lemma consistent_ext : forall m d h p h' p',
  (forall u, h u = h' u) -> (forall u, p u = p' u) -> consistent m d h p -> consistent m d h' p'.
Proof.
  intros m d h p h' p' Eh Ep (A & B & C). split; [|split]; intros u.
  - rewrite <- Eh. apply A.
  - rewrite <- Eh, <- Ep. apply B.
  - intros H. rewrite <- Eh. apply C. rewrite Ep. auto.
Qed.

(* locking files that are already held (a copy of (part of) the service list) *)
Lemma lock_ok : forall fs m d h p h' p',
  (forall u, h' u = h u + occ u fs) -> (forall u, p' u = p u) -> (forall u, 0 < occ u fs -> 0 < h u) ->
  consistent m d h p -> consistent (lock fs m) d h' p'.
Proof.
  intros fs m d h p h' p' Eh Ep Hh CC. apply (consistent_ext _ _ h' p); auto. destruct CC as (A & B & C). split; [|split]; intros u; [|split|]; intros.
  - rewrite cnt_lock, Eh, A. reflexivity.
  - rewrite Eh. apply B in H. destruct H; [left; lia|right; auto].
  - apply B. rewrite Eh in H. destruct H; [|right; auto].
    destruct (N.eq_dec (h u) 0); [|left; lia]. left. apply Hh. lia.
  - rewrite Eh. specialize (C u H). destruct (N.eq_dec (occ u fs) 0); [lia|].
    specialize (Hh u). lia.
Qed.

(* locking the files a completed job has written *)
Lemma lock_pending_ok : forall fs m d h p h' p',
  (forall u, h' u = h u + occ u fs) -> (forall u, p u = p' u + occ u fs) ->
  (forall u, 0 < occ u fs -> p' u = 0) ->
  consistent m d h p -> consistent (lock fs m) d h' p'.
Proof.
  intros fs m d h p h' p' Eh Ep Hd (A & B & C). split; [|split]; intros u; [|split|]; intros.
  - rewrite cnt_lock, Eh, A. reflexivity.
  - rewrite Eh. apply B in H. rewrite Ep in H. lia.
  - apply B. rewrite Ep. rewrite Eh in H. lia.
  - rewrite Eh. destruct (N.eq_dec (occ u fs) 0).
    + rewrite e, N.add_0_r. apply C. rewrite Ep. lia.
    + specialize (Hd u). lia.
Qed.

Lemma release_ok : forall fs m d h p h',
  (forall u, h u = h' u + occ u fs) ->
  consistent m d h p -> consistent (fst (release fs (m, d))) (snd (release fs (m, d))) h' p.
Proof.
  intros fs m d h p h' Eh (A & B & C).
  destruct (release fs (m, d)) as [m' d'] eqn:E. simpl.
  assert (P : forall v, occ v fs <= cnt m v) by (intros; rewrite A, Eh; lia).
  destruct (release_spec _ _ _ _ _ P E) as [C1 D1].
  split; [|split]; intros u; [|split|]; intros.
  - rewrite C1, A, Eh. lia.
  - apply D1 in H. destruct H as [H1 H2]. apply B in H1. rewrite A, Eh in H2. rewrite Eh in H1. lia.
  - apply D1. rewrite B, A, Eh. destruct H; [lia|].
    specialize (C u H). rewrite Eh in C. lia.
  - specialize (C u H). rewrite Eh in C. lia.
Qed.

(* a job body writes a new file *)
Lemma create_ok : forall fs m d h p p',
  (forall u, p' u = p u + occ u fs) -> (forall u, 0 < occ u fs -> h u = 0) ->
  consistent m d h p -> consistent m (map f_uid fs ++ d) h p'.
Proof.
  intros fs m d h p p' Ep Hf (A & B & C). split; [|split]; intros u; [|split|]; intros.
  - apply A.
  - rewrite Ep. apply in_app_or in H. destruct H.
    + apply occ_pos_in in H. right. lia.
    + apply B in H. lia.
  - apply in_or_app. rewrite Ep in H.
    destruct (N.eq_dec (occ u fs) 0).
    + right. apply B. lia.
    + left. apply occ_pos_in. lia.
  - rewrite Ep in H. destruct (N.eq_dec (occ u fs) 0).
    + apply C. lia.
    + apply Hf. lia.
Qed.

(* ---------------------------------------------------------------- the invariant *)
Record invx (x : list file) (st : state) : Prop := {
  i_cons : consistent (used st) (disk st) (fun u => holders st u + occ u x) (fun u => occ u (pending_files st));
  i_fresh : forall u, 0 < holders st u + occ u x \/ 0 < occ u (pending_files st) -> u < next_uid st;
  i_pend1 : forall u, occ u (pending_files st) <= 1;
  i_queue : ijob st <> None -> queue st <> [];
  i_ijstart : forall j, ijob st = Some j -> ij_phase j = AtStart -> ij_created j = [];
  i_mjstart : forall j, mjob st = Some j -> mj_phase j = AtStart -> mj_merged j = []
}.

Definition inv13 := invx [].

Lemma occ_views_app : forall u a b, occ_views u (a ++ b) = occ_views u a + occ_views u b.
Proof. induction a; simpl; intros; [reflexivity|rewrite IHa; lia]. Qed.

Lemma occ_views_del : forall u v vs s, view_of v vs = Some s ->
  occ_views u vs = occ u s + occ_views u (del_view v vs).
Proof.
  induction vs as [|[w s0] r]; simpl; intros; [discriminate|].
  destruct (w =? v); [inversion H; subst; reflexivity|].
  simpl. rewrite (IHr _ H). lia.
Qed.

Lemma occ_views_set : forall u v vs s s', view_of v vs = Some s ->
  occ_views u (set_view v s' vs) + occ u s = occ_views u vs + occ u s'.
Proof.
  induction vs as [|[w s0] r]; simpl; intros; [discriminate|].
  destruct (w =? v); simpl; [inversion H; subst; lia|].
  specialize (IHr _ s' H). lia.
Qed.

Lemma occ_skipn_le : forall u n fs, occ u (skipn n fs) <= occ u fs.
Proof. intros. rewrite (occ_firstn_skipn u n fs). lia. Qed.

Lemma occ_firstn_le : forall u n fs, occ u (firstn n fs) <= occ u fs.
Proof. intros. rewrite (occ_firstn_skipn u n fs). lia. Qed.

Ltac hsimpl := repeat progress (unfold holders, pending_files, ij_files, mj_files, tj_files, copy_from in *; simpl in *).

Section Step13.
Variable capdb : N -> capture.
Variable rf : bool.
Variable merge : list file -> list entry.

Lemma launch_import_ok : forall x files st,
  invx x st -> ijob st = None -> queue st <> [] -> invx x (launch_import files st).
Proof.
  intros x files st [C F P1 Q IS MS] Hn Hq.
  constructor; simpl; auto.
  - refine (lock_ok _ _ _ _ _ _ _ _ _ _ C).
    + intros u. hsimpl. rewrite Hn. simpl. lia.
    + intros u. hsimpl. rewrite Hn. reflexivity.
    + intros u. hsimpl. lia.
  - intros u H. apply F. hsimpl. rewrite Hn in *. simpl in *.
    destruct H; [left|right; auto]. lia.
  - hsimpl. rewrite Hn in P1. exact P1.
  - intros j E. inversion E; subst. reflexivity.
Qed.

Lemma start_tagging_ok : forall x st, invx x st -> invx x (start_tagging st).
Proof.
  intros x st I. unfold start_tagging.
  destruct (tjob st) eqn:Ht; [exact I|].
  destruct (unc st =? 0); [exact I|].
  destruct I as [C F P1 Q IS MS].
  constructor; simpl; auto.
  - refine (lock_ok _ _ _ _ _ _ _ _ _ _ C).
    + intros u. hsimpl. rewrite Ht. simpl. lia.
    + intros u. reflexivity.
    + intros u. hsimpl. lia.
  - intros u H. apply F. hsimpl. rewrite Ht in *. simpl in *.
    destruct H; [left|right; auto]. lia.
Qed.

Lemma start_merge_ok : forall x st, invx x st -> invx x (start_merge st).
Proof.
  intros x st I. unfold start_merge.
  destruct (mjob st) eqn:Hm; [exact I|].
  destruct (tjob st) eqn:Ht; [exact I|].
  destruct (unc st =? 0); [|exact I].
  destruct (find_merge (nunm st) (indexes st)) as [i|]; [|exact I].
  destruct I as [C F P1 Q IS MS].
  constructor; simpl; auto.
  - refine (lock_ok _ _ _ _ _ _ _ _ _ _ C).
    + intros u. hsimpl. rewrite Hm, Ht. simpl. lia.
    + intros u. hsimpl. rewrite Hm. reflexivity.
    + intros u. hsimpl. pose proof (occ_skipn_le u i (indexes st)). lia.
  - intros u H. apply F. hsimpl. rewrite Hm, ?Ht in *. simpl in *.
    pose proof (occ_skipn_le u i (indexes st)).
    destruct H; [left|right; auto]. lia.
  - hsimpl. rewrite Hm in P1. exact P1.
  - intros j E. inversion E; subst. reflexivity.
Qed.


Lemma invx_same : forall x st st',
  indexes st' = indexes st -> used st' = used st -> disk st' = disk st -> views st' = views st ->
  ijob st' = ijob st -> mjob st' = mjob st -> tjob st' = tjob st -> next_uid st' = next_uid st ->
  (ijob st' <> None -> queue st' <> []) ->
  invx x st -> invx x st'.
Proof.
  intros x st st' E1 E2 E3 E4 E5 E6 E7 E8 Q [C F P1 _ IS MS].
  constructor; unfold holders, pending_files in *; rewrite ?E1, ?E2, ?E3, ?E4, ?E5, ?E6, ?E7, ?E8; auto.
Qed.

Lemma length_app_eq_nil : forall (A : Type) (q ks : list A), length (q ++ ks) = length ks -> q = [].
Proof. intros A q ks H. rewrite app_length in H. destruct q; [reflexivity|simpl in H; lia]. Qed.

Lemma step_import_ok : forall ks st, inv13 st -> inv13 (step capdb rf merge st (AImport ks)).
Proof.
  intros ks st I. simpl. destruct ks as [|k ks']; [exact I|].
  set (ks := k :: ks') in *.
  destruct (ascending (next_cap st) ks); [|exact I].
  match goal with |- inv13 (if _ then launch_import ?f ?s else _) => set (st1 := s) end.
  assert (I1 : inv13 st1).
  { apply (invx_same [] st); auto. simpl. intros _. destruct (queue st); discriminate. }
  destruct (Nat.eqb_spec (length (queue st ++ ks)) (length ks)); [|exact I1].
  apply launch_import_ok; [exact I1| |].
  - simpl. apply length_app_eq_nil in e.
    destruct (ijob st) eqn:Hj; [|reflexivity].
    exfalso. apply (i_queue _ _ I); [rewrite Hj; discriminate|exact e].
  - simpl. destruct (queue st); discriminate.
Qed.

Lemma step_view_ok : forall v st, inv13 st -> inv13 (step capdb rf merge st (AView v)).
Proof.
  intros v st I. simpl. destruct (view_of v (views st)); [exact I|].
  destruct I as [C F P1 Q IS MS].
  constructor; simpl; auto.
  - refine (lock_ok _ _ _ _ _ _ _ _ _ _ C).
    + intros u. hsimpl. rewrite occ_views_app. simpl. lia.
    + intros u. reflexivity.
    + intros u. hsimpl. lia.
  - intros u H. apply F. hsimpl. rewrite occ_views_app in H. simpl in H.
    destruct H; [left|right; auto]. lia.
Qed.

Lemma step_read_ok : forall v st, inv13 st -> inv13 (step capdb rf merge st (ARead v)).
Proof.
  intros v st I. simpl. destruct (view_of v (views st)) as [[|f s]|] eqn:Hv; try exact I.
  destruct rf; [|exact I].
  destruct I as [C F P1 Q IS MS].
  pose proof (fun u => occ_views_set u v (views st) [] (indexes st) Hv) as OV.
  constructor; simpl; auto.
  - refine (lock_ok _ _ _ _ _ _ _ _ _ _ C).
    + intros u. hsimpl. specialize (OV u). simpl in OV. lia.
    + intros u. reflexivity.
    + intros u. hsimpl. lia.
  - intros u H. apply F. hsimpl. specialize (OV u). simpl in OV.
    destruct H; [left|right; auto]. lia.
Qed.

Lemma step_release_ok : forall v st, inv13 st -> inv13 (step capdb rf merge st (ARelease v)).
Proof.
  intros v st I. simpl. destruct (view_of v (views st)) as [s|] eqn:Hv; [|exact I].
  destruct I as [C F P1 Q IS MS].
  pose proof (fun u => occ_views_del u v (views st) s Hv) as OV.
  constructor; simpl; auto.
  - refine (release_ok s _ _ _ _ _ _ C).
    intros u. hsimpl. rewrite (OV u). lia.
  - intros u H. apply F. hsimpl. rewrite (OV u).
    destruct H; [left|right; auto]. lia.
Qed.

Lemma step_tagadd_ok : forall st, inv13 st -> inv13 (step capdb rf merge st ATagAdd).
Proof.
  intros st I. simpl. apply start_tagging_ok.
  apply (invx_same [] st); auto. simpl. apply (i_queue _ _ I).
Qed.

End Step13.
