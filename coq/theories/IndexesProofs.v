(* IndexesProofs.v -- invariants of the model in Indexes.v over every action sequence.
   Part 1 (C13): use counts = number of holders, files on disk = files in use or being written,
   uids fresh and unique.  Part 2 (C10): the visible map of the service list is the newest
   version of every stream of every processed capture; view snapshots are immutable. *)
From Coq Require Import List NArith Bool Arith Lia Permutation.
From Coq Require Import ZifyBool ZifyN ZifyNat.
Require Import Pk.Indexes.
Import ListNotations.
Open Scope N_scope.

(* ================================================================ use counts *)
Fixpoint occ (u : N) (fs : list file) : N :=
  match fs with
  | [] => 0
  | f :: r => (if f_uid f =? u then 1 else 0) + occ u r
  end.

Lemma occ_app : forall u a b, occ u (a ++ b) = occ u a + occ u b.
Proof. induction a; simpl; intros; [reflexivity|rewrite IHa; lia]. Qed.

Lemma occ_firstn_skipn : forall u n fs, occ u fs = occ u (firstn n fs) + occ u (skipn n fs).
Proof. intros. rewrite <- occ_app, firstn_skipn. reflexivity. Qed.

Lemma occ_pos_in : forall u fs, 0 < occ u fs <-> In u (map f_uid fs).
Proof.
  induction fs; simpl; [split; [lia|tauto]|].
  destruct (N.eqb_spec (f_uid a) u); split; intros; try lia; auto.
  - right. apply IHfs. lia.
  - destruct H; [congruence|]. apply IHfs in H. lia.
Qed.

Lemma occ_zero_notin : forall u fs, occ u fs = 0 <-> ~ In u (map f_uid fs).
Proof. intros. rewrite <- occ_pos_in. lia. Qed.

Lemma cnt_incr : forall u m v, cnt (incr u m) v = cnt m v + (if u =? v then 1 else 0).
Proof.
  induction m as [|[k c] r]; simpl; intros.
  - destruct (u =? v); lia.
  - destruct (N.eqb_spec k u); simpl.
    + subst. destruct (N.eqb_spec u v); lia.
    + destruct (N.eqb_spec k v); [|apply IHr].
      subst. destruct (N.eqb_spec u v); [congruence|lia].
Qed.

Lemma cnt_lock : forall fs m v, cnt (lock fs m) v = cnt m v + occ v fs.
Proof.
  unfold lock. induction fs; simpl; intros; [lia|].
  rewrite IHfs, cnt_incr. lia.
Qed.

Lemma cnt_setc : forall u c m v, cnt (setc u c m) v = if u =? v then c else cnt m v.
Proof.
  induction m as [|[k c0] r]; simpl; intros.
  - destruct (u =? v); reflexivity.
  - destruct (N.eqb_spec k u); simpl.
    + subst. destruct (N.eqb_spec u v); reflexivity.
    + destruct (N.eqb_spec k v).
      * subst. destruct (N.eqb_spec u v); [congruence|reflexivity].
      * apply IHr.
Qed.

Lemma cnt_delkey : forall u m v, cnt (delkey u m) v = if u =? v then 0 else cnt m v.
Proof.
  unfold delkey. induction m as [|[k c0] r]; simpl; intros.
  - destruct (u =? v); reflexivity.
  - destruct (N.eqb_spec k u); simpl.
    + subst. rewrite IHr. destruct (N.eqb_spec u v); reflexivity.
    + rewrite IHr. destruct (N.eqb_spec k v); [|reflexivity].
      subst. destruct (N.eqb_spec u v); [congruence|reflexivity].
Qed.

Lemma in_rmdisk : forall u d v, In v (rmdisk u d) <-> In v d /\ v <> u.
Proof.
  unfold rmdisk. intros. rewrite filter_In. destruct (N.eqb_spec v u); simpl; split; intros [? ?]; split; auto; congruence.
Qed.

(* one release step, when the file is in use *)
Lemma release1_spec : forall u m d m' d',
  1 <= cnt m u -> release1 u (m, d) = (m', d') ->
  (forall v, cnt m' v = cnt m v - (if u =? v then 1 else 0)) /\
  (forall v, In v d' <-> In v d /\ ~ (u = v /\ cnt m u = 1)).
Proof.
  unfold release1. intros u m d m' d' H E.
  destruct (N.eqb_spec (cnt m u) 0); [lia|].
  destruct (N.eqb_spec (cnt m u) 1); inversion E; subst; clear E.
  - split; intros.
    + rewrite cnt_delkey. destruct (N.eqb_spec u v); subst; lia.
    + rewrite in_rmdisk. split; intros [A B]; split; auto. intros [? _]; congruence.
  - split; intros.
    + rewrite cnt_setc. destruct (N.eqb_spec u v); subst; lia.
    + intuition.
Qed.

Arguments release1 : simpl never.

Lemma release_spec : forall fs m d m' d',
  (forall v, occ v fs <= cnt m v) -> release fs (m, d) = (m', d') ->
  (forall v, cnt m' v = cnt m v - occ v fs) /\
  (forall v, In v d' <-> In v d /\ (occ v fs = 0 \/ occ v fs < cnt m v)).
Proof.
  unfold release. induction fs as [|f r IH]; simpl; intros m d m' d' H E.
  - inversion E; subst. split; intros; [lia|intuition].
  - destruct (release1 (f_uid f) (m, d)) as [m1 d1] eqn:E1.
    assert (H1 : 1 <= cnt m (f_uid f)).
    { specialize (H (f_uid f)). rewrite N.eqb_refl in H. lia. }
    destruct (release1_spec _ _ _ _ _ H1 E1) as [C1 D1].
    assert (H2 : forall v, occ v r <= cnt m1 v).
    { intros v. rewrite C1. specialize (H v). destruct (f_uid f =? v); lia. }
    destruct (IH _ _ _ _ H2 E) as [C2 D2].
    split; intros v.
    + rewrite C2, C1. specialize (H v). destruct (f_uid f =? v); lia.
    + rewrite D2, D1, C1. specialize (H v).
      destruct (N.eqb_spec (f_uid f) v).
      * subst. clear IH D1 D2 C1 C2 H2 E E1.
        set (c := cnt m (f_uid f)) in *. set (o := occ (f_uid f) r) in *.
        split.
        -- intros [[A B] C]. split; [exact A|]. right.
           assert (c <> 1) by (intro; apply B; auto). lia.
        -- intros [A C]. split; [split; [exact A|intros [_ ?]; lia]|]. lia.
      * split.
        -- intros [[A B] C]. split; [exact A|]. lia.
        -- intros [A C]. split; [split; [exact A|intros [? _]; congruence]|]. lia.
Qed.

(* ================================================================ holders *)
Definition occ_views (u : N) (vs : list (N * list file)) : N :=
  fold_right (fun ws a => occ u (snd ws) + a) 0 vs.

Definition ij_files (o : option import_job) : list file := match o with Some j => ij_snap j | None => [] end.
Definition mj_files (o : option merge_job) : list file := match o with Some j => mj_snap j | None => [] end.
Definition tj_files (o : option tag_job) : list file := match o with Some j => tj_snap j | None => [] end.
Definition cj_files (o : option conv_job) : list file := match o with Some j => cj_snap j | None => [] end.

(* number of holders of file u: the service list, the views, the jobs *)
Definition holders (st : state) (u : N) : N :=
  occ u (indexes st) + occ_views u (views st) + occ u (ij_files (ijob st))
  + occ u (mj_files (mjob st)) + occ u (tj_files (tjob st)) + occ u (cj_files (cjob st)).

(* files written by a job body whose completion has not run yet *)
Definition pending_files (st : state) : list file :=
  (match ijob st with Some j => ij_created j | None => [] end) ++
  (match mjob st with Some j => mj_merged j | None => [] end).

Definition consistent (m : list (N * N)) (d : list N) (h p : N -> N) : Prop :=
  (forall u, cnt m u = h u) /\
  (forall u, In u d <-> 0 < h u \/ 0 < p u) /\
  (forall u, 0 < p u -> h u = 0).

Lemma consistent_ext : forall m d h p h' p',
  (forall u, h u = h' u) -> (forall u, p u = p' u) -> consistent m d h p -> consistent m d h' p'.
Proof.
  intros m d h p h' p' Eh Ep (A & B & C). split; [|split]; intros u.
  - rewrite <- Eh. apply A.
  - rewrite <- Eh, <- Ep. apply B.
  - intros H. rewrite <- Eh. apply C. rewrite Ep. auto.
Qed.

(* locking files that are already held (a copy of (part of) the service list) *)
Lemma lock_ok : forall fs m d h p h' p',
  (forall u, h' u = h u + occ u fs) -> (forall u, p' u = p u) -> (forall u, 0 < occ u fs -> 0 < h u) ->
  consistent m d h p -> consistent (lock fs m) d h' p'.
Proof.
  intros fs m d h p h' p' Eh Ep Hh CC. apply (consistent_ext _ _ h' p); auto. destruct CC as (A & B & C). split; [|split]; intros u; [|split|]; intros.
  - rewrite cnt_lock, Eh, A. reflexivity.
  - rewrite Eh. apply B in H. destruct H; [left; lia|right; auto].
  - apply B. rewrite Eh in H. destruct H; [|right; auto].
    destruct (N.eq_dec (h u) 0); [|left; lia]. left. apply Hh. lia.
  - rewrite Eh. specialize (C u H). destruct (N.eq_dec (occ u fs) 0); [lia|].
    specialize (Hh u). lia.
Qed.

(* locking the files a completed job has written *)
Lemma lock_pending_ok : forall fs m d h p h' p',
  (forall u, h' u = h u + occ u fs) -> (forall u, p u = p' u + occ u fs) ->
  (forall u, 0 < occ u fs -> p' u = 0) ->
  consistent m d h p -> consistent (lock fs m) d h' p'.
Proof.
  intros fs m d h p h' p' Eh Ep Hd (A & B & C). split; [|split]; intros u; [|split|]; intros.
  - rewrite cnt_lock, Eh, A. reflexivity.
  - rewrite Eh. apply B in H. rewrite Ep in H. lia.
  - apply B. rewrite Ep. rewrite Eh in H. lia.
  - rewrite Eh. destruct (N.eq_dec (occ u fs) 0).
    + rewrite e, N.add_0_r. apply C. rewrite Ep. lia.
    + specialize (Hd u). lia.
Qed.

Lemma release_ok : forall fs m d h p h',
  (forall u, h u = h' u + occ u fs) ->
  consistent m d h p -> consistent (fst (release fs (m, d))) (snd (release fs (m, d))) h' p.
Proof.
  intros fs m d h p h' Eh (A & B & C).
  destruct (release fs (m, d)) as [m' d'] eqn:E. simpl.
  assert (P : forall v, occ v fs <= cnt m v) by (intros; rewrite A, Eh; lia).
  destruct (release_spec _ _ _ _ _ P E) as [C1 D1].
  split; [|split]; intros u; [|split|]; intros.
  - rewrite C1, A, Eh. lia.
  - apply D1 in H. destruct H as [H1 H2]. apply B in H1. rewrite A, Eh in H2. rewrite Eh in H1. lia.
  - apply D1. rewrite B, A, Eh. destruct H; [lia|].
    specialize (C u H). rewrite Eh in C. lia.
  - specialize (C u H). rewrite Eh in C. lia.
Qed.

(* a job body writes a new file *)
Lemma create_ok : forall fs m d h p h' p',
  (forall u, h' u = h u) -> (forall u, p' u = p u + occ u fs) -> (forall u, 0 < occ u fs -> h u = 0) ->
  consistent m d h p -> consistent m (map f_uid fs ++ d) h' p'.
Proof.
  intros fs m d h p h' p' Eh Ep Hf CC. apply (consistent_ext _ _ h p'); auto. destruct CC as (A & B & C). split; [|split]; intros u; [|split|]; intros.
  - apply A.
  - rewrite Ep. apply in_app_or in H. destruct H.
    + apply occ_pos_in in H. right. lia.
    + apply B in H. lia.
  - apply in_or_app. rewrite Ep in H.
    destruct (N.eq_dec (occ u fs) 0).
    + right. apply B. lia.
    + left. apply occ_pos_in. lia.
  - rewrite Ep in H. destruct (N.eq_dec (occ u fs) 0).
    + apply C. lia.
    + apply Hf. lia.
Qed.

Fixpoint occn (u : N) (l : list N) : N :=
  match l with
  | [] => 0
  | x :: r => (if x =? u then 1 else 0) + occn u r
  end.

Lemma occn_pos_in : forall u l, 0 < occn u l <-> In u l.
Proof.
  induction l; simpl; [split; [lia|tauto]|].
  destruct (N.eqb_spec a u); split; intros; try lia; auto.
  - right. apply IHl. lia.
  - destruct H; [congruence|]. apply IHl in H. lia.
Qed.

Lemma occn_app : forall u a b, occn u (a ++ b) = occn u a + occn u b.
Proof. induction a; simpl; intros; [reflexivity|rewrite IHa; lia]. Qed.

Lemma fold_max_gt : forall l u a, In u l \/ u < a -> u < fold_left (fun a u => N.max a (u + 1)) l a.
Proof.
  induction l; simpl; intros u b H; [destruct H; [tauto|exact H]|].
  apply IHl. destruct H as [[H|H]|H]; [subst; right; lia|left; exact H|right; lia].
Qed.

Lemma nodup_app_disj : forall (A : Type) (a b : list A) x, NoDup (a ++ b) -> In x a -> ~ In x b.
Proof.
  induction a; simpl; intros b x N H; [tauto|]. apply NoDup_cons_iff in N. destruct N as [N1 N2]. destruct H.
  - subst. intros X. apply N1. apply in_or_app. auto.
  - apply IHa; auto.
Qed.

Lemma nodup_occn : forall l u, NoDup l -> occn u l <= 1.
Proof.
  induction l; simpl; intros u N; [lia|]. apply NoDup_cons_iff in N. destruct N as [N1 N2]. specialize (IHl u N2).
  destruct (N.eqb_spec a u); [|lia]. subst.
  assert (occn u l = 0). { destruct (N.eq_dec (occn u l) 0); auto. exfalso. apply N1. apply occn_pos_in. lia. }
  lia.
Qed.

Lemma nodup_occ : forall fs u, NoDup (map f_uid fs) -> occ u fs <= 1.
Proof.
  induction fs; simpl; intros u N; [lia|]. apply NoDup_cons_iff in N. destruct N as [N1 N2]. specialize (IHfs u N2).
  destruct (N.eqb_spec (f_uid a) u); [|lia]. subst.
  assert (occ (f_uid a) fs = 0). { apply occ_zero_notin. exact N1. }
  lia.
Qed.

Lemma nodup_app_r : forall (A : Type) (a b : list A), NoDup (a ++ b) -> NoDup b.
Proof. induction a; simpl; intros; auto. apply NoDup_cons_iff in H. apply IHa. tauto. Qed.

Lemma nodup_app_l : forall (A : Type) (a b : list A), NoDup (a ++ b) -> NoDup a.
Proof.
  induction a; simpl; intros; [constructor|]. apply NoDup_cons_iff in H. destruct H as [H1 H2].
  constructor; [|eapply IHa; eauto]. intros X. apply H1. apply in_or_app. auto.
Qed.

(* ---------------------------------------------------------------- the invariant *)
Section Junk.
(* files in the index directory that manager.New could not load: never served, never counted, never removed *)
Variable junk : list N.

Definition pend (st : state) (u : N) : N := occ u (pending_files st) + occn u junk.

Record invx (x : list file) (st : state) : Prop := {
  i_cons : consistent (used st) (disk st) (fun u => holders st u + occ u x) (pend st);
  i_fresh : forall u, 0 < holders st u + occ u x \/ 0 < pend st u -> u < next_uid st;
  i_pend1 : forall u, pend st u <= 1;
  i_queue : ijob st <> None -> queue st <> [];
  i_ijstart : forall j, ijob st = Some j -> ij_phase j = AtStart -> ij_created j = [];
  i_mjstart : forall j, mjob st = Some j -> mj_phase j = AtStart -> mj_merged j = []
}.

Definition inv13 := invx [].

Lemma occ_views_app : forall u a b, occ_views u (a ++ b) = occ_views u a + occ_views u b.
Proof. induction a; simpl; intros; [reflexivity|rewrite IHa; lia]. Qed.

Lemma occ_views_del : forall u v vs s, view_of v vs = Some s ->
  occ_views u vs = occ u s + occ_views u (del_view v vs).
Proof.
  induction vs as [|[w s0] r]; simpl; intros; [discriminate|].
  destruct (w =? v); [inversion H; subst; reflexivity|].
  simpl. rewrite (IHr _ H). lia.
Qed.

Lemma occ_views_set : forall u v vs s s', view_of v vs = Some s ->
  occ_views u (set_view v s' vs) + occ u s = occ_views u vs + occ u s'.
Proof.
  induction vs as [|[w s0] r]; simpl; intros; [discriminate|].
  destruct (w =? v); simpl; [inversion H; subst; lia|].
  specialize (IHr _ s' H). lia.
Qed.

Lemma occ_skipn_le : forall u n fs, occ u (skipn n fs) <= occ u fs.
Proof. intros. rewrite (occ_firstn_skipn u n fs). lia. Qed.

Lemma occ_firstn_le : forall u n fs, occ u (firstn n fs) <= occ u fs.
Proof. intros. rewrite (occ_firstn_skipn u n fs). lia. Qed.

Ltac hsimpl := repeat progress (unfold pend, holders, pending_files, ij_files, mj_files, tj_files, cj_files, copy_from in *; simpl in *).

Lemma skipn_add : forall (A : Type) off n (l : list A), skipn n (skipn off l) = skipn (off + n) l.
Proof.
  induction off; simpl; intros; [reflexivity|].
  destruct l; [destruct n; reflexivity|apply IHoff].
Qed.

Lemma occ_split3 : forall u off n fs,
  occ u fs = occ u (firstn off fs) + occ u (firstn n (skipn off fs)) + occ u (skipn (off + n) fs).
Proof.
  intros. rewrite (occ_firstn_skipn u off fs) at 1.
  rewrite (occ_firstn_skipn u n (skipn off fs)) at 1.
  rewrite skipn_add. lia.
Qed.

Section Step13.
Variable capdb : N -> capture.
Variable bad : N -> bool.
Variable rf : bool.
Variable merge : list file -> list entry.

Lemma launch_import_ok : forall x files st,
  invx x st -> ijob st = None -> queue st <> [] -> invx x (launch_import files st).
Proof.
  intros x files st [C F P1 Q IS MS] Hn Hq.
  constructor; simpl; auto.
  - refine (lock_ok _ _ _ _ _ _ _ _ _ _ C).
    + intros u. hsimpl. rewrite Hn. simpl. lia.
    + intros u. hsimpl. rewrite Hn. reflexivity.
    + intros u. hsimpl. lia.
  - intros u H. apply F. hsimpl. rewrite Hn in *. simpl in *.
    destruct H; [left|right; auto]. lia.
  - hsimpl. rewrite Hn in P1. exact P1.
  - intros j E. inversion E; subst. reflexivity.
Qed.

Lemma start_tagging_ok : forall x st, invx x st -> invx x (start_tagging st).
Proof.
  intros x st I. unfold start_tagging.
  destruct (tjob st) eqn:Ht; [exact I|].
  destruct (unc st =? 0); [exact I|].
  destruct I as [C F P1 Q IS MS].
  constructor; simpl; auto.
  - refine (lock_ok _ _ _ _ _ _ _ _ _ _ C).
    + intros u. hsimpl. rewrite Ht. simpl. lia.
    + intros u. reflexivity.
    + intros u. hsimpl. lia.
  - intros u H. apply F. hsimpl. rewrite Ht in *. simpl in *.
    destruct H; [left|right; auto]. lia.
Qed.

Lemma start_converter_ok : forall x st, invx x st -> invx x (start_converter st).
Proof.
  intros x st I. unfold start_converter.
  destruct (cjob st) eqn:Hc; [exact I|].
  destruct (cwork st); [|exact I].
  destruct I as [C F P1 Q IS MS].
  constructor; simpl; auto.
  - refine (lock_ok _ _ _ _ _ _ _ _ _ _ C).
    + intros u. hsimpl. rewrite Hc. simpl. lia.
    + intros u. reflexivity.
    + intros u. hsimpl. lia.
  - intros u H. apply F. hsimpl. rewrite Hc in *. simpl in *.
    destruct H; [left|right; auto]. lia.
Qed.

Lemma start_merge_ok : forall x st, invx x st -> invx x (start_merge st).
Proof.
  intros x st I. unfold start_merge.
  destruct (mjob st) eqn:Hm; [exact I|].
  destruct (tjob st) eqn:Ht; [exact I|].
  destruct (cjob st) eqn:Hc; [exact I|].
  destruct (unc st =? 0); [|exact I].
  destruct (find_merge (nunm st) (indexes st)) as [i|]; [|exact I].
  destruct I as [C F P1 Q IS MS].
  constructor; simpl; auto.
  - refine (lock_ok _ _ _ _ _ _ _ _ _ _ C).
    + intros u. hsimpl. rewrite Hm, Ht, Hc. simpl. lia.
    + intros u. hsimpl. rewrite Hm. reflexivity.
    + intros u. hsimpl. pose proof (occ_skipn_le u i (indexes st)). lia.
  - intros u H. apply F. hsimpl. rewrite Hm, ?Ht, ?Hc in *. simpl in *.
    pose proof (occ_skipn_le u i (indexes st)).
    destruct H; [left|right; auto]. lia.
  - hsimpl. rewrite Hm in P1. exact P1.
  - intros j E. inversion E; subst. reflexivity.
Qed.


Lemma invx_same : forall x st st',
  indexes st' = indexes st -> used st' = used st -> disk st' = disk st -> views st' = views st ->
  ijob st' = ijob st -> mjob st' = mjob st -> tj_files (tjob st') = tj_files (tjob st) ->
  cj_files (cjob st') = cj_files (cjob st) -> next_uid st' = next_uid st ->
  (ijob st' <> None -> queue st' <> []) ->
  invx x st -> invx x st'.
Proof.
  intros x st st' E1 E2 E3 E4 E5 E6 E7 E9 E8 Q [C F P1 _ IS MS].
  constructor; unfold pend, holders, pending_files in *; rewrite ?E1, ?E2, ?E3, ?E4, ?E5, ?E6, ?E7, ?E8, ?E9; auto.
  intros H. apply Q. rewrite E5. exact H.
Qed.

Lemma length_app_eq_nil : forall (A : Type) (q ks : list A), length (q ++ ks) = length ks -> q = [].
Proof. intros A q ks H. rewrite app_length in H. destruct q; [reflexivity|simpl in H; lia]. Qed.

Lemma step_import_ok : forall ks st, inv13 st -> inv13 (step capdb bad rf merge st (AImport ks)).
Proof.
  intros ks st I. simpl. destruct ks as [|k ks']; [exact I|].
  set (ks := k :: ks') in *.
  destruct (ascending (next_cap st) ks); [|exact I].
  match goal with |- inv13 (if _ then launch_import ?f ?s else _) => set (st1 := s) end.
  assert (I1 : inv13 st1).
  { apply (invx_same [] st); auto. simpl. intros _. destruct (queue st); discriminate. }
  destruct (Nat.eqb_spec (length (queue st ++ ks)) (length ks)); [|exact I1].
  apply launch_import_ok; [exact I1| |].
  - simpl. apply length_app_eq_nil in e.
    destruct (ijob st) eqn:Hj; [|reflexivity].
    exfalso. apply (i_queue _ _ I); [rewrite Hj; discriminate|exact e].
  - simpl. destruct (queue st); discriminate.
Qed.

Lemma step_view_ok : forall v st, inv13 st -> inv13 (step capdb bad rf merge st (AView v)).
Proof.
  intros v st I. simpl. destruct (view_of v (views st)); [exact I|].
  destruct I as [C F P1 Q IS MS].
  constructor; simpl; auto.
  - refine (lock_ok _ _ _ _ _ _ _ _ _ _ C).
    + intros u. hsimpl. rewrite occ_views_app. simpl. lia.
    + intros u. reflexivity.
    + intros u. hsimpl. lia.
  - intros u H. apply F. hsimpl. rewrite occ_views_app in H. simpl in H.
    destruct H; [left|right; auto]. lia.
Qed.

Lemma step_read_ok : forall v st, inv13 st -> inv13 (step capdb bad rf merge st (ARead v)).
Proof.
  intros v st I. simpl. destruct (view_of v (views st)) as [[|f s]|] eqn:Hv; try exact I.
  destruct rf; [|exact I].
  destruct I as [C F P1 Q IS MS].
  pose proof (fun u => occ_views_set u v (views st) [] (indexes st) Hv) as OV.
  constructor; simpl; auto.
  - refine (lock_ok _ _ _ _ _ _ _ _ _ _ C).
    + intros u. hsimpl. specialize (OV u). simpl in OV. lia.
    + intros u. reflexivity.
    + intros u. hsimpl. lia.
  - intros u H. apply F. hsimpl. specialize (OV u). simpl in OV.
    destruct H; [left|right; auto]. lia.
Qed.

Lemma step_release_ok : forall v st, inv13 st -> inv13 (step capdb bad rf merge st (ARelease v)).
Proof.
  intros v st I. simpl. destruct (view_of v (views st)) as [s|] eqn:Hv; [|exact I].
  destruct I as [C F P1 Q IS MS].
  pose proof (fun u => occ_views_del u v (views st) s Hv) as OV.
  constructor; simpl; auto.
  - refine (release_ok s _ _ _ _ _ _ C).
    intros u. hsimpl. rewrite (OV u). lia.
  - intros u H. apply F. hsimpl. rewrite (OV u).
    destruct H; [left|right; auto]. lia.
Qed.

Lemma step_prefetch_ok : forall v st, inv13 st -> inv13 (step capdb bad rf merge st (APrefetch v)).
Proof.
  intros v st I. simpl. destruct (vtag_of v (vtags st)) as [[stamp b]|]; [|exact I].
  apply (invx_same [] st); auto. apply (i_queue _ _ I).
Qed.

Lemma tj_files_invalidate : forall h o, tj_files (invalidate_tj h o) = tj_files o.
Proof. intros h [[snap ph v]|]; reflexivity. Qed.

Lemma step_tagdel_ok : forall h st, inv13 st -> inv13 (step capdb bad rf merge st (ATagDel h)).
Proof.
  intros h st I. simpl. apply start_tagging_ok.
  apply (invx_same [] st); auto; simpl; [apply tj_files_invalidate|apply (i_queue _ _ I)].
Qed.

Lemma step_tagupd_ok : forall h st, inv13 st -> inv13 (step capdb bad rf merge st (ATagUpd h)).
Proof.
  intros h st I. simpl. apply start_converter_ok. apply start_tagging_ok.
  apply (invx_same [] st); auto; simpl; [apply tj_files_invalidate|apply (i_queue _ _ I)].
Qed.

Lemma step_env_ok : forall st a, inv13 st ->
  match a with AMarkNew | AMarkEdit | AConvSet | AConvRemove | AConvAdd | AEnvUnc _ | AEnvConvWork _ | ABoot => True | _ => False end ->
  inv13 (step capdb bad rf merge st a).
Proof.
  intros st a I H. destruct a; try contradiction; simpl; try exact I.
  - apply (invx_same [] st); auto. apply (i_queue _ _ I).
  - apply start_converter_ok. apply start_tagging_ok. apply (invx_same [] st); auto. apply (i_queue _ _ I).
  - apply start_converter_ok. apply start_tagging_ok. exact I.
  - apply start_tagging_ok. exact I.
  - apply (invx_same [] st); auto. apply (i_queue _ _ I).
  - apply (invx_same [] st); auto. apply (i_queue _ _ I).
  - apply start_merge_ok. apply start_converter_ok. apply start_tagging_ok. exact I.
Qed.

Lemma step_tagadd_ok : forall st, inv13 st -> inv13 (step capdb bad rf merge st ATagAdd).
Proof. intros st I. simpl. apply start_tagging_ok. exact I. Qed.


Lemma release_extra_ok : forall x st,
  invx x st -> inv13 (set_used_disk st (release x (used st, disk st))).
Proof.
  intros x st [C F P1 Q IS MS].
  constructor; simpl; auto.
  - refine (release_ok x _ _ _ _ _ _ C). intros u. hsimpl. lia.
  - intros u H. apply F. hsimpl. destruct H; [left|right; auto]. lia.
Qed.

Lemma occ_single : forall u v es, occ u [mkFile v es] = if v =? u then 1 else 0.
Proof. intros. simpl. lia. Qed.

Lemma step_start_import_ok : forall st, inv13 st -> inv13 (step capdb bad rf merge st (AStart KImport)).
Proof.
  intros st I. simpl.
  destruct (ijob st) as [[caps nx snap [|] cr un np]|] eqn:Hj; try exact I.
  destruct (from_pcap capdb bad (known st) caps snap) as [[es usednew] allk].
  pose proof (i_ijstart _ _ I _ Hj eq_refl) as Hcr. simpl in Hcr. subst cr.
  destruct I as [C F P1 Q IS MS].
  set (created := match es with [] => [] | _ => [mkFile (next_uid st) es] end).
  assert (Hc : forall u, 0 < occ u created -> u = next_uid st).
  { intros u. subst created. destruct es; simpl; [lia|]. destruct (N.eqb_spec (next_uid st) u); [auto|lia]. }
  assert (Hnu : next_uid st <= match es with [] => next_uid st | _ => next_uid st + 1 end /\
                (forall u, 0 < occ u created -> u < match es with [] => next_uid st | _ => next_uid st + 1 end)).
  { subst created. destruct es; simpl; split; try lia; intros u. destruct (N.eqb_spec (next_uid st) u); lia. }
  destruct Hnu as [Hn1 Hn2].
  constructor; simpl; auto.
  - refine (create_ok created _ _ _ _ _ _ _ _ _ C).
    + intros u. hsimpl. rewrite Hj. reflexivity.
    + intros u. hsimpl. rewrite Hj. simpl. rewrite occ_app. lia.
    + intros u H. apply Hc in H. subst u.
      destruct (N.eq_dec (holders st (next_uid st) + occ (next_uid st) []) 0) as [E|E]; [exact E|].
      assert (next_uid st < next_uid st) by (apply F; left; lia). lia.
  - intros u H. hsimpl. rewrite Hj in *. simpl in *. rewrite occ_app in H.
    destruct (N.eq_dec (occ u created) 0) as [E|E].
    + assert (u < next_uid st) by (apply F; lia). lia.
    + apply Hn2. lia.
  - intros u. hsimpl. rewrite Hj in *. simpl in *. rewrite occ_app.
    destruct (N.eq_dec (occ u created) 0) as [E|E]; [specialize (P1 u); lia|].
    assert (u = next_uid st) by (apply Hc; lia). subst u.
    destruct (N.eq_dec (occ (next_uid st) match mjob st with Some j => mj_merged j | None => [] end + occn (next_uid st) junk) 0) as [E2|E2].
    * subst created. destruct es; simpl in *; rewrite ?N.eqb_refl in *; lia.
    * assert (next_uid st < next_uid st) by (apply F; right; lia). lia.
  - intros _. apply Q. rewrite Hj. discriminate.
  - intros j E. inversion E; subst. simpl. discriminate.
Qed.

Lemma step_start_merge_ok : forall st, inv13 st -> inv13 (step capdb bad rf merge st (AStart KMerge)).
Proof.
  intros st I. simpl.
  destruct (mjob st) as [[off snap [|] mg]|] eqn:Hj; try exact I.
  pose proof (i_mjstart _ _ I _ Hj eq_refl) as Hcr. simpl in Hcr. subst mg.
  destruct I as [C F P1 Q IS MS].
  set (ic := match ijob st with Some j => ij_created j | None => [] end).
  assert (Ep : forall u, occ u (pending_files st) = occ u ic).
  { intros u. unfold pending_files. rewrite Hj. simpl. rewrite app_nil_r. reflexivity. }
  set (created := match snap with [] => [] | _ => [mkFile (next_uid st) (merge snap)] end).
  assert (Hc : forall u, 0 < occ u created -> u = next_uid st).
  { intros u. subst created. destruct snap; simpl; [lia|]. destruct (N.eqb_spec (next_uid st) u); [auto|lia]. }
  assert (Hnu : next_uid st <= match snap with [] => next_uid st | _ => next_uid st + 1 end /\
                (forall u, 0 < occ u created -> u < match snap with [] => next_uid st | _ => next_uid st + 1 end)).
  { subst created. destruct snap; simpl; split; try lia; intros u. destruct (N.eqb_spec (next_uid st) u); lia. }
  destruct Hnu as [Hn1 Hn2].
  assert (Eh : forall u, holders (mkState (indexes st) (used st) (map f_uid created ++ disk st) (queue st) (known st) (processed st)
                  (next_cap st) (next_id st) (match snap with [] => next_uid st | _ => next_uid st + 1 end) (nunm st) (cwork st)
                  (unc st) (cjob st) (ijob st) (Some (mkMJ off snap AtDone created)) (tjob st) (views st) (tagver st) (vtags st)) u = holders st u).
  { intros u. hsimpl. rewrite Hj. reflexivity. }
  unfold pend in *.
  constructor; simpl; auto; fold created; unfold pend.
  - refine (create_ok created _ _ _ _ _ _ _ _ _ C).
    + intros u. rewrite Eh. reflexivity.
    + intros u. rewrite Ep. unfold pending_files. simpl. fold ic. rewrite occ_app. lia.
    + intros u H. apply Hc in H. subst u.
      destruct (N.eq_dec (holders st (next_uid st) + occ (next_uid st) []) 0) as [E|E]; [exact E|].
      assert (next_uid st < next_uid st) by (apply F; left; lia). lia.
  - intros u H. rewrite Eh in H. unfold pending_files in H. simpl in H. fold ic in H. rewrite occ_app in H.
    destruct (N.eq_dec (occ u created) 0) as [E|E].
    + assert (u < next_uid st) by (apply F; rewrite Ep; lia). lia.
    + apply Hn2. lia.
  - intros u. unfold pending_files. simpl. fold ic. rewrite occ_app.
    destruct (N.eq_dec (occ u created) 0) as [E|E]; [specialize (P1 u); rewrite Ep in P1; lia|].
    assert (u = next_uid st) by (apply Hc; lia). subst u.
    destruct (N.eq_dec (occ (next_uid st) ic + occn (next_uid st) junk) 0) as [E2|E2].
    * subst created. destruct snap; simpl in *; rewrite ?N.eqb_refl in *; lia.
    * assert (next_uid st < next_uid st) by (apply F; right; rewrite Ep; lia). lia.
  - intros j E. inversion E; subst. simpl. discriminate.
Qed.

Lemma step_mergefail_ok : forall st, inv13 st -> inv13 (step capdb bad rf merge st AMergeFail).
Proof.
  intros st I. simpl.
  destruct (mjob st) as [[off snap [|] mg]|] eqn:Hj; try exact I.
  pose proof (i_mjstart _ _ I _ Hj eq_refl) as Hcr. simpl in Hcr. subst mg.
  destruct I as [C F P1 Q IS MS].
  constructor; simpl; auto.
  - refine (consistent_ext _ _ _ _ _ _ _ _ C); intros u; hsimpl; rewrite ?Hj; reflexivity.
  - intros u H. apply F. hsimpl. rewrite Hj in *. exact H.
  - intros u. specialize (P1 u). hsimpl. rewrite Hj in *. exact P1.
  - intros j E. inversion E; subst. simpl. discriminate.
Qed.

Lemma step_start_tag_ok : forall st, inv13 st -> inv13 (step capdb bad rf merge st (AStart KTag)).
Proof.
  intros st I. simpl.
  destruct (tjob st) as [[snap [|] vv]|] eqn:Hj; try exact I.
  destruct I as [C F P1 Q IS MS].
  constructor; simpl; auto.
  - refine (consistent_ext _ _ _ _ _ _ _ _ C); intros u; hsimpl; rewrite ?Hj; reflexivity.
  - intros u H. apply F. hsimpl. rewrite Hj in *. exact H.
Qed.


Lemma step_complete_tag_ok : forall st, inv13 st -> inv13 (step capdb bad rf merge st (AComplete KTag)).
Proof.
  intros st I. simpl.
  destruct (tjob st) as [[snap [|] vv]|] eqn:Hj; try exact I.
  apply release_extra_ok. apply start_merge_ok. apply start_converter_ok. apply start_tagging_ok.
  destruct I as [C F P1 Q IS MS].
  constructor; simpl; auto.
  - refine (consistent_ext _ _ _ _ _ _ _ _ C); intros u; hsimpl; rewrite ?Hj; simpl; lia.
  - intros u H. apply F. hsimpl. rewrite Hj in *. simpl in *. destruct H; [left|right; auto]. lia.
Qed.

Lemma step_start_conv_ok : forall st, inv13 st -> inv13 (step capdb bad rf merge st (AStart KConvert)).
Proof.
  intros st I. simpl.
  destruct (cjob st) as [[snap [|]]|] eqn:Hj; try exact I.
  destruct I as [C F P1 Q IS MS].
  constructor; simpl; auto.
  - refine (consistent_ext _ _ _ _ _ _ _ _ C); intros u; hsimpl; rewrite ?Hj; reflexivity.
  - intros u H. apply F. hsimpl. rewrite Hj in *. exact H.
Qed.

Lemma step_complete_conv_ok : forall st, inv13 st -> inv13 (step capdb bad rf merge st (AComplete KConvert)).
Proof.
  intros st I. simpl.
  destruct (cjob st) as [[snap [|]]|] eqn:Hj; try exact I.
  apply release_extra_ok. apply start_merge_ok. apply start_converter_ok. apply start_tagging_ok.
  destruct I as [C F P1 Q IS MS].
  constructor; simpl; auto.
  - refine (consistent_ext _ _ _ _ _ _ _ _ C); intros u; hsimpl; rewrite ?Hj; simpl; lia.
  - intros u H. apply F. hsimpl. rewrite Hj in *. simpl in *. destruct H; [left|right; auto]. lia.
Qed.

Lemma step_complete_merge_ok : forall st, inv13 st -> inv13 (step capdb bad rf merge st (AComplete KMerge)).
Proof.
  intros st I. simpl.
  destruct (mjob st) as [[off snap [|] mg]|] eqn:Hj; try exact I.
  apply release_extra_ok. apply start_merge_ok.
  destruct I as [C F P1 Q IS MS].
  set (ic := match ijob st with Some j => ij_created j | None => [] end).
  assert (Ep : forall u, occ u (pending_files st) = occ u ic + occ u mg).
  { intros u. unfold pending_files. rewrite Hj. simpl. fold ic. apply occ_app. }
  unfold pend in *.
  destruct mg as [|m0 mg'].
  - (* merge failed *)
    constructor; simpl; auto.
    + refine (consistent_ext _ _ _ _ _ _ _ _ C); intros u; hsimpl; rewrite ?Hj; simpl; lia.
    + intros u H. apply F. hsimpl. rewrite Hj in *. simpl in *. destruct H; [left|right; auto]. lia.
    + intros u. specialize (P1 u). hsimpl. rewrite Hj in P1. exact P1.
    + intros j E. discriminate.
  - set (mg := m0 :: mg') in *.
    set (old := firstn (length snap) (skipn off (indexes st))).
    pose proof (fun u => occ_split3 u off (length snap) (indexes st)) as S3. fold old in S3.
    constructor; simpl; auto.
    + (* release the replaced run, then lock the merged files *)
      set (hA := fun u => occ u (firstn off (indexes st)) + occ u (skipn (off + length snap) (indexes st))
                          + occ_views u (views st) + occ u (ij_files (ijob st)) + occ u (tj_files (tjob st)) + occ u (cj_files (cjob st)) + occ u snap).
      assert (CA : consistent (fst (release old (used st, disk st))) (snd (release old (used st, disk st))) hA
                              (fun u => occ u (pending_files st) + occn u junk)).
      { refine (release_ok old _ _ _ _ _ _ C). intros u. subst hA. hsimpl. rewrite Hj. simpl. specialize (S3 u). lia. }
      refine (lock_pending_ok mg _ _ _ _ _ _ _ _ _ CA).
      * intros u. subst hA. hsimpl. rewrite !occ_app. simpl. rewrite ?occ_app. lia.
      * intros u. rewrite Ep. unfold pend, pending_files. simpl. fold ic. rewrite app_nil_r. lia.
      * intros u H. unfold pend, pending_files. simpl. fold ic. rewrite app_nil_r.
        specialize (P1 u). rewrite Ep in P1. lia.
    + intros u H. apply F. rewrite Ep. subst mg. hsimpl. rewrite Hj in *. simpl in *. fold ic in H.
      rewrite app_nil_r in H. rewrite !occ_app in H. simpl in H. rewrite ?occ_app in H. specialize (S3 u). fold old in S3.
      lia.
    + intros u. specialize (P1 u). rewrite Ep in P1. unfold pend, pending_files. simpl. fold ic. rewrite app_nil_r. lia.
    + intros j E. discriminate.
Qed.

Lemma step_complete_import_ok : forall st, inv13 st -> inv13 (step capdb bad rf merge st (AComplete KImport)).
Proof.
  intros st I. simpl.
  destruct (ijob st) as [[caps nx snap [|] cr un np]|] eqn:Hj; try exact I.
  apply start_merge_ok. apply start_converter_ok. apply start_tagging_ok.
  match goal with |- invx [] (match ?qq with [] => ?s1 | _ => _ end) => set (st1 := s1) end.
  assert (I1 : inv13 st1).
  { destruct I as [C F P1 Q IS MS].
    set (mm := match mjob st with Some j => mj_merged j | None => [] end).
    assert (Ep : forall u, occ u (pending_files st) = occ u cr + occ u mm).
    { intros u. unfold pending_files. rewrite Hj. simpl. fold mm. apply occ_app. }
    unfold pend in *.
    constructor; simpl; auto.
    - set (hA := fun u => occ u (indexes st) + occ_views u (views st) + occ u (mj_files (mjob st)) + occ u (tj_files (tjob st)) + occ u (cj_files (cjob st))).
      assert (CA : consistent (fst (release snap (used st, disk st))) (snd (release snap (used st, disk st))) hA
                              (fun u => occ u (pending_files st) + occn u junk)).
      { refine (release_ok snap _ _ _ _ _ _ C). intros u. subst hA. hsimpl. rewrite Hj. simpl. lia. }
      refine (lock_pending_ok cr _ _ _ _ _ _ _ _ _ CA).
      + intros u. subst hA. hsimpl. rewrite !occ_app. lia.
      + intros u. rewrite Ep. unfold pend, pending_files. simpl. fold mm. lia.
      + intros u H. unfold pend, pending_files. simpl. fold mm. specialize (P1 u). rewrite Ep in P1. lia.
    - intros u H. apply F. rewrite Ep. hsimpl. rewrite Hj in *. simpl in *. fold mm in H.
      rewrite !occ_app in H.
      destruct (N.eq_dec (occ u cr) 0); [|right; lia].
      destruct H; [left|right]; lia.
    - intros u. specialize (P1 u). rewrite Ep in P1. unfold pend, pending_files. simpl. fold mm. lia.
    - intros j E. discriminate. }
  assert (Hq1 : queue st1 = skipn np (queue st)) by reflexivity.
  assert (Hij : ijob st1 = None) by reflexivity.
  clearbody st1.
  destruct (skipn np (queue st)) eqn:Hq; [exact I1|].
  apply launch_import_ok; [exact I1|exact Hij|].
  rewrite Hq1. discriminate.
Qed.

Theorem step_inv13 : forall st a, inv13 st -> inv13 (step capdb bad rf merge st a).
Proof.
  intros st a I. destruct a as [ks|v|v|v|v| |h|h| | | | | |n|b| | |k|k].
  - apply step_import_ok; auto.
  - apply step_view_ok; auto.
  - apply step_read_ok; auto.
  - apply step_release_ok; auto.
  - apply step_prefetch_ok; auto.
  - apply step_tagadd_ok; auto.
  - apply step_tagdel_ok; auto.
  - apply step_tagupd_ok; auto.
  - apply step_env_ok; simpl; auto.
  - apply step_env_ok; simpl; auto.
  - apply step_env_ok; simpl; auto.
  - apply step_env_ok; simpl; auto.
  - apply step_env_ok; simpl; auto.
  - apply step_env_ok; simpl; auto.
  - apply step_env_ok; simpl; auto.
  - apply step_env_ok; simpl; auto.
  - apply step_mergefail_ok; auto.
  - destruct k; [apply step_start_import_ok|apply step_start_merge_ok|apply step_start_tag_ok|apply step_start_conv_ok]; auto.
  - destruct k; [apply step_complete_import_ok|apply step_complete_merge_ok|apply step_complete_tag_ok|apply step_complete_conv_ok]; auto.
Qed.

(* the state manager.New builds from an index directory satisfies the invariant *)
Lemma inv13_init_from : forall fs P, NoDup (map f_uid fs ++ junk) -> inv13 (init_from capdb fs junk P).
Proof.
  intros fs P ND.
  assert (D : forall u, 0 < occn u junk -> occ u fs = 0).
  { intros u H. apply occn_pos_in in H. apply occ_zero_notin. intros X. exact (nodup_app_disj _ _ _ _ ND X H). }
  assert (H0 : forall u, holders (init_from capdb fs junk P) u = occ u fs).
  { intros u. unfold holders. simpl. lia. }
  assert (P0 : forall u, pend (init_from capdb fs junk P) u = occn u junk).
  { intros u. unfold pend, pending_files. simpl. lia. }
  constructor; try (simpl; intros; discriminate); try (simpl; congruence).
  - split; [|split]; intros u.
    + rewrite H0. simpl. rewrite cnt_lock. simpl. lia.
    + rewrite H0, P0. simpl. rewrite in_app_iff, <- occ_pos_in, <- occn_pos_in. lia.
    + rewrite H0, P0. intros H. rewrite (D u H). simpl. lia.
  - intros u H. rewrite H0, P0 in H. simpl. apply fold_max_gt. left. apply in_or_app.
    destruct H as [H|H]; [left; apply occ_pos_in; simpl in H; lia|right; apply occn_pos_in; exact H].
  - intros u. rewrite P0. apply nodup_occn. eapply nodup_app_r. exact ND.
Qed.

Theorem run_inv13_from : forall acts st, inv13 st -> inv13 (fold_left (step capdb bad rf merge) acts st).
Proof. induction acts; simpl; intros; auto. apply IHacts. apply step_inv13. auto. Qed.

Theorem run_inv13_start : forall fs P acts, NoDup (map f_uid fs ++ junk) ->
  inv13 (fold_left (step capdb bad rf merge) acts (init_from capdb fs junk P)).
Proof. intros. apply run_inv13_from. apply inv13_init_from. auto. Qed.

End Step13.

(* ---------------------------------------------------------------- the service list never contains a file twice *)
Lemma indexes_start_tagging : forall st, indexes (start_tagging st) = indexes st.
Proof. intros. unfold start_tagging. destruct (tjob st); auto. destruct (unc st =? 0); auto. Qed.

Lemma indexes_start_merge : forall st, indexes (start_merge st) = indexes st.
Proof.
  intros. unfold start_merge. destruct (mjob st); auto. destruct (tjob st); auto. destruct (cjob st); auto.
  destruct (unc st =? 0); auto. destruct (find_merge (nunm st) (indexes st)); auto.
Qed.

Lemma indexes_start_converter : forall st, indexes (start_converter st) = indexes st.
Proof. intros. unfold start_converter. destruct (cjob st); auto. destruct (cwork st); auto. Qed.

Lemma indexes_launch_import : forall files st, indexes (launch_import files st) = indexes st.
Proof. reflexivity. Qed.

Lemma indexes_set_used_disk : forall st md, indexes (set_used_disk st md) = indexes st.
Proof. reflexivity. Qed.

Section Step13b.
Variable capdb : N -> capture.
Variable bad : N -> bool.
Variable rf : bool.
Variable merge : list file -> list entry.

Definition uniq (st : state) : Prop := forall u, occ u (indexes st) <= 1.

Lemma pending_not_held : forall st u, inv13 st -> 0 < occ u (pending_files st) -> occ u (indexes st) = 0.
Proof.
  intros st u I H. destruct (i_cons _ _ I) as (_ & _ & C). assert (H' : 0 < pend st u) by (unfold pend; lia).
  specialize (C u H'). unfold holders in C. lia.
Qed.

Lemma step_uniq : forall st a, inv13 st -> uniq st -> uniq (step capdb bad rf merge st a).
Proof.
  intros st a I U. destruct a as [ks|v|v|v|v| |h|h| | | | | |n|b| | |k|k]; simpl; auto.
  - destruct ks; auto. destruct (ascending _ _); auto.
    destruct (_ =? _)%nat; auto.
  - destruct (view_of v (views st)); auto.
  - destruct (view_of v (views st)) as [[|]|]; auto. destruct rf; auto.
  - destruct (view_of v (views st)); auto.
  - destruct (vtag_of v (vtags st)) as [[stamp b0]|]; auto.
  - intros u. rewrite indexes_start_tagging. apply U.
  - intros u. rewrite indexes_start_tagging. apply U.
  - intros u. rewrite indexes_start_converter, indexes_start_tagging. apply U.
  - intros u. rewrite indexes_start_converter, indexes_start_tagging. apply U.
  - intros u. rewrite indexes_start_converter, indexes_start_tagging. apply U.
  - intros u. rewrite indexes_start_tagging. apply U.
  - intros u. rewrite indexes_start_merge, indexes_start_converter, indexes_start_tagging. apply U.
  - destruct (mjob st) as [[off snap [|] mg]|]; auto.
  - destruct k.
    + destruct (ijob st) as [[caps nx snap [|] cr un np]|]; auto.
      destruct (from_pcap capdb bad (known st) caps snap) as [[es usednew] allk]. auto.
    + destruct (mjob st) as [[off snap [|] mg]|]; auto.
    + destruct (tjob st) as [[snap [|] vv]|]; auto.
    + destruct (cjob st) as [[snap [|]]|]; auto.
  - destruct k.
    + destruct (ijob st) as [[caps nx snap [|] cr un np]|] eqn:Hj; auto.
      intros u. rewrite indexes_start_merge, indexes_start_converter, indexes_start_tagging.
      assert (E : forall s1 : state, indexes match skipn np (queue st) with [] => s1 | _ :: _ => launch_import (skipn np (queue st)) s1 end = indexes s1).
      { intros. destruct (skipn np (queue st)); reflexivity. }
      rewrite E. simpl. rewrite occ_app.
      destruct (N.eq_dec (occ u cr) 0) as [Z|Z]; [specialize (U u); lia|].
      assert (P : 0 < occ u (pending_files st)).
      { unfold pending_files. rewrite Hj. simpl. rewrite occ_app. lia. }
      rewrite (pending_not_held st u I P).
      pose proof (i_pend1 _ _ I u) as P1. unfold pend, pending_files in P1. rewrite Hj in P1. simpl in P1. rewrite occ_app in P1. lia.
    + destruct (mjob st) as [[off snap [|] mg]|] eqn:Hj; auto.
      intros u. rewrite indexes_set_used_disk, indexes_start_merge.
      destruct mg as [|m0 mg']; [apply U|].
      remember (m0 :: mg') as mg eqn:Emg.
      match goal with |- occ u (indexes ?s) <= 1 => replace (indexes s) with (firstn off (indexes st) ++ mg ++ skipn (off + length snap) (indexes st)) by (subst mg; reflexivity) end.
      rewrite !occ_app.
      pose proof (occ_split3 u off (length snap) (indexes st)) as S3.
      destruct (N.eq_dec (occ u mg) 0) as [Z|Z]; [specialize (U u); lia|].
      assert (P : 0 < occ u (pending_files st)).
      { unfold pending_files. rewrite Hj. simpl. rewrite occ_app. lia. }
      pose proof (pending_not_held st u I P) as Z0.
      pose proof (i_pend1 _ _ I u) as P1. unfold pend, pending_files in P1. rewrite Hj in P1. simpl in P1. rewrite occ_app in P1. lia.
    + destruct (tjob st) as [[snap [|] vv]|]; auto.
      intros u. rewrite indexes_set_used_disk, indexes_start_merge, indexes_start_converter, indexes_start_tagging. apply U.
    + destruct (cjob st) as [[snap [|]]|]; auto.
      intros u. rewrite indexes_set_used_disk, indexes_start_merge, indexes_start_converter, indexes_start_tagging. apply U.
Qed.

Theorem run_uniq_from : forall acts st, inv13 st -> uniq st -> uniq (fold_left (step capdb bad rf merge) acts st).
Proof. induction acts; simpl; intros; auto. apply IHacts; [apply step_inv13|apply step_uniq]; auto. Qed.

Theorem run_uniq_start : forall fs P acts, NoDup (map f_uid fs ++ junk) ->
  uniq (fold_left (step capdb bad rf merge) acts (init_from capdb fs junk P)).
Proof.
  intros fs P acts ND. apply run_uniq_from; [apply inv13_init_from; auto; assumption|].
  intros u. simpl. apply nodup_occ. eapply nodup_app_l. exact ND.
Qed.

End Step13b.

(* ---------------------------------------------------------------- statements of C13 *)
Definition held_by_view (st : state) (f : file) : Prop := exists v s, In (v, s) (views st) /\ In f s.
Definition held_by_job (st : state) (f : file) : Prop :=
  In f (ij_files (ijob st)) \/ In f (mj_files (mjob st)) \/ In f (tj_files (tjob st)) \/ In f (cj_files (cjob st)).
Definition being_written (st : state) (u : N) : Prop := In u (map f_uid (pending_files st)).
Definition quiescent (st : state) : Prop :=
  ijob st = None /\ mjob st = None /\ tjob st = None /\ cjob st = None /\ views st = [].

Lemma in_occ_pos : forall f fs, In f fs -> 0 < occ (f_uid f) fs.
Proof. intros. apply occ_pos_in. apply in_map. auto. Qed.

Lemma in_occ_views_pos : forall f v s vs, In (v, s) vs -> In f s -> 0 < occ_views (f_uid f) vs.
Proof.
  induction vs as [|[w s0] r]; simpl; intros H Hf; [tauto|].
  destruct H as [H|H].
  - inversion H; subst. pose proof (in_occ_pos _ _ Hf). lia.
  - specialize (IHr H Hf). lia.
Qed.

Lemma inv13_count : forall st u, inv13 st -> cnt (used st) u = holders st u.
Proof. intros st u I. destruct (i_cons _ _ I) as (A & _ & _). rewrite A. simpl. lia. Qed.

Lemma inv13_holder_on_disk : forall st f, inv13 st ->
  In f (indexes st) \/ held_by_view st f \/ held_by_job st f -> In (f_uid f) (disk st).
Proof.
  intros st f I H. destruct (i_cons _ _ I) as (_ & B & _). apply B. left. simpl.
  unfold holders. destruct H as [H|[(v & s & H1 & H2)|[H|[H|[H|H]]]]].
  - pose proof (in_occ_pos _ _ H). lia.
  - pose proof (in_occ_views_pos _ _ _ _ H1 H2). lia.
  - pose proof (in_occ_pos _ _ H). lia.
  - pose proof (in_occ_pos _ _ H). lia.
  - pose proof (in_occ_pos _ _ H). lia.
  - pose proof (in_occ_pos _ _ H). lia.
Qed.

Lemma inv13_disk_iff : forall st u, inv13 st ->
  (In u (disk st) <-> 0 < cnt (used st) u \/ being_written st u \/ In u junk).
Proof.
  intros st u I. rewrite (inv13_count st u I). destruct (i_cons _ _ I) as (_ & B & _).
  rewrite B. simpl. unfold being_written, pend. rewrite <- occ_pos_in, <- occn_pos_in. lia.
Qed.

Lemma inv13_written_unused : forall st u, inv13 st -> being_written st u -> cnt (used st) u = 0.
Proof.
  intros st u I H. rewrite (inv13_count st u I). destruct (i_cons _ _ I) as (_ & _ & C).
  unfold being_written in H. rewrite <- occ_pos_in in H.
  assert (H' : 0 < pend st u) by (unfold pend; lia). specialize (C u H'). simpl in C. lia.
Qed.

(* a file manager.New could not load is never counted, never served, never removed *)
Lemma inv13_junk : forall st u, inv13 st -> In u junk ->
  cnt (used st) u = 0 /\ ~ In u (map f_uid (indexes st)) /\ In u (disk st).
Proof.
  intros st u I H. apply occn_pos_in in H.
  assert (H' : 0 < pend st u) by (unfold pend; lia).
  destruct (i_cons _ _ I) as (_ & B & C). pose proof (C u H') as Z. simpl in Z.
  split; [rewrite (inv13_count st u I); lia|]. split.
  - rewrite <- occ_pos_in. unfold holders in Z. lia.
  - apply B. right. exact H'.
Qed.

Lemma inv13_quiescent : forall st u, inv13 st -> uniq st -> quiescent st ->
  (In u (disk st) <-> In u (map f_uid (indexes st)) \/ In u junk) /\
  cnt (used st) u = (if existsb (N.eqb u) (map f_uid (indexes st)) then 1 else 0).
Proof.
  intros st u I U (Q1 & Q2 & Q3 & Q5 & Q4).
  assert (H : holders st u = occ u (indexes st)).
  { unfold holders. rewrite Q1, Q2, Q3, Q4, Q5. simpl. lia. }
  assert (P : pend st u = occn u junk).
  { unfold pend, pending_files. rewrite Q1, Q2. reflexivity. }
  split.
  - destruct (i_cons _ _ I) as (_ & B & _). rewrite B. simpl. rewrite H, P, <- occ_pos_in, <- occn_pos_in. lia.
  - rewrite (inv13_count st u I), H. specialize (U u).
    destruct (existsb (N.eqb u) (map f_uid (indexes st))) eqn:E.
    + apply existsb_exists in E. destruct E as (w & Hw & Ew). apply N.eqb_eq in Ew. subst w.
      apply occ_pos_in in Hw. lia.
    + destruct (N.eq_dec (occ u (indexes st)) 0) as [Z|Z]; [exact Z|].
      assert (Hin : In u (map f_uid (indexes st))) by (apply occ_pos_in; lia).
      assert (existsb (N.eqb u) (map f_uid (indexes st)) = true).
      { apply existsb_exists. exists u. split; [exact Hin|apply N.eqb_refl]. }
      congruence.
Qed.

Lemma uniq_nodup : forall fs, (forall u, occ u fs <= 1) -> NoDup (map f_uid fs).
Proof.
  induction fs; simpl; intros H; constructor.
  - intros Hin. apply occ_pos_in in Hin. specialize (H (f_uid a)). rewrite N.eqb_refl in H. lia.
  - apply IHfs. intros u. specialize (H u). destruct (f_uid a =? u); lia.
Qed.

End Junk.

(* ---------------------------------------------------------------- from the empty directory *)
Lemma init_is_init_from : forall capdb, init = init_from capdb [] [] [].
Proof. reflexivity. Qed.

Theorem run_inv13 : forall capdb bad rf merge acts, inv13 [] (fold_left (step capdb bad rf merge) acts init).
Proof.
  intros. rewrite (init_is_init_from capdb). apply (run_inv13_start [] capdb bad rf merge [] [] acts). constructor.
Qed.

Theorem run_uniq : forall capdb bad rf merge acts, uniq (fold_left (step capdb bad rf merge) acts init).
Proof.
  intros. rewrite (init_is_init_from capdb). apply (run_uniq_start [] capdb bad rf merge [] [] acts). constructor.
Qed.
