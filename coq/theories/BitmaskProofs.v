(* Proofs for the ConnectedBitmask part of the C17 model. *)
From Coq Require Import NArith List Bool Lia ZifyBool ZifyN ZifyNat.
Require Import Pk.Bitmask.
Open Scope N_scope.

Ltac dcmp :=
  repeat match goal with
  | |- context [if ?c then _ else _] => destruct c eqn:?
  | H : context [if ?c then _ else _] |- _ => destruct c eqn:?
  end.

Lemma wfc_weaken lo lo' l : lo' <= lo -> wfc lo l -> wfc lo' l.
Proof. destruct l as [|[mn mx] r]; cbn; intros; intuition lia. Qed.

Lemma mem_c_nil i : mem_c [] i = false.
Proof. reflexivity. Qed.

Lemma mem_c_cons mn mx r i :
  mem_c ((mn, mx) :: r) i = ((mn <=? i) && (i <=? mx)) || mem_c r i.
Proof. reflexivity. Qed.

Lemma mem_c_app a b i : mem_c (a ++ b) i = mem_c a i || mem_c b i.
Proof. unfold mem_c. apply existsb_app. Qed.

Lemma mem_c_below lo l i : wfc lo l -> i < lo -> mem_c l i = false.
Proof.
  revert lo; induction l as [|[mn mx] r IH]; intros lo H Hi; [reflexivity|].
  cbn in H. destruct H as (H1 & H2 & H3).
  rewrite mem_c_cons, (IH (mx + 2)); auto; lia.
Qed.

Lemma c_isset_spec lo l b : wfc lo l -> c_isset l b = mem_c l b.
Proof.
  revert lo; induction l as [|[mn mx] r IH]; intros lo H; [reflexivity|].
  cbn in H. destruct H as (H1 & H2 & H3).
  cbn [c_isset]. rewrite mem_c_cons.
  destruct (b <? mn) eqn:E1.
  - rewrite (mem_c_below (mx + 2) r b) by (auto; lia). lia.
  - destruct (b <=? mx) eqn:E2.
    + lia.
    + rewrite (IH _ H3). lia.
Qed.

(* ---------- Set ---------- *)
Lemma c_set_spec l : forall lo b, wfc lo l ->
  wfc (N.min lo b) (c_set l b) /\ forall i, mem_c (c_set l b) i = (i =? b) || mem_c l i.
Proof.
  induction l as [|[mn mx] r IH]; intros lo b H.
  - cbn. split; [lia|]. intro i. lia.
  - cbn in H. destruct H as (H1 & H2 & H3).
    cbn [c_set].
    destruct (b <? mn) eqn:E1.
    { destruct (b =? mn - 1) eqn:E2.
      - split.
        + cbn. repeat split; try lia. exact H3.
        + intro i. rewrite !mem_c_cons. lia.
      - split.
        + cbn. repeat split; try lia. eapply wfc_weaken; [|exact H3]. lia.
        + intro i. rewrite !mem_c_cons. cbn. lia. }
    destruct (b <=? mx) eqn:E2.
    { split.
      - cbn. repeat split; try lia. exact H3.
      - intro i. rewrite !mem_c_cons. lia. }
    destruct (b =? mx + 1) eqn:E3.
    { destruct r as [|[mn2 mx2] r2].
      - split; [cbn; lia|]. intro i. rewrite !mem_c_cons. cbn. lia.
      - cbn in H3. destruct H3 as (G1 & G2 & G3).
        destruct (b =? mn2 - 1) eqn:E4.
        + split; [cbn; repeat split; try lia; exact G3|].
          intro i. rewrite !mem_c_cons. lia.
        + split; [cbn; repeat split; try lia; exact G3|].
          intro i. rewrite !mem_c_cons. lia. }
    destruct (IH (mx + 2) b H3) as [W M].
    split.
    + cbn. repeat split; try lia. eapply wfc_weaken; [|exact W]. lia.
    + intro i. rewrite !mem_c_cons, M. lia.
Qed.

(* ---------- Unset ---------- *)
Lemma c_unset_spec l : forall lo b, wfc lo l ->
  wfc lo (c_unset l b) /\ forall i, mem_c (c_unset l b) i = negb (i =? b) && mem_c l i.
Proof.
  induction l as [|[mn mx] r IH]; intros lo b H.
  - cbn. split; [exact I|]. intro i. lia.
  - pose proof H as H0. cbn in H. destruct H as (H1 & H2 & H3).
    cbn [c_unset].
    destruct (b <? mn) eqn:E1.
    { split; [exact H0|]. intro i.
      destruct (i =? b) eqn:Ei; [|reflexivity].
      cbn [negb andb]. rewrite mem_c_cons, (mem_c_below (mx + 2) r i) by (auto; lia). lia. }
    assert (Hr: forall i, i <= mx -> mem_c r i = false).
    { intros i Hi. apply (mem_c_below (mx + 2)); auto; lia. }
    destruct ((b =? mn) || (b =? mx)) eqn:E2.
    { destruct (mn =? mx) eqn:E3.
      - split; [eapply wfc_weaken; [|exact H3]; lia|].
        intro i. rewrite mem_c_cons.
        destruct (i =? b) eqn:Ei; cbn [negb andb]; [apply Hr; lia|].
        lia.
      - destruct (b =? mn) eqn:E4.
        + split; [cbn; repeat split; try lia; exact H3|].
          intro i. rewrite !mem_c_cons.
          destruct (i =? b) eqn:Ei; cbn [negb andb]; [rewrite Hr by lia; lia|lia].
        + split; [cbn; repeat split; try lia; eapply wfc_weaken; [|exact H3]; lia|].
          intro i. rewrite !mem_c_cons.
          destruct (i =? b) eqn:Ei; cbn [negb andb]; [rewrite Hr by lia; lia|lia]. }
    destruct (b <? mx) eqn:E3.
    { split; [cbn; repeat split; try lia; exact H3|].
      intro i. rewrite !mem_c_cons.
      destruct (i =? b) eqn:Ei; cbn [negb andb]; [rewrite Hr by lia; lia|lia]. }
    destruct (IH (mx + 2) b H3) as [W M].
    split; [cbn; repeat split; try lia; exact W|].
    intro i. rewrite !mem_c_cons, M. lia.
Qed.

Lemma c_flip_spec l lo b : wfc lo l ->
  wfc (N.min lo b) (c_flip l b) /\
  forall i, mem_c (c_flip l b) i = if i =? b then negb (mem_c l i) else mem_c l i.
Proof.
  intro H. unfold c_flip. rewrite (c_isset_spec lo l b H).
  destruct (mem_c l b) eqn:E.
  - destruct (c_unset_spec l lo b H) as [W M]. split.
    + eapply wfc_weaken; [|exact W]. lia.
    + intro i. rewrite M. destruct (i =? b) eqn:Ei; [|reflexivity].
      assert (i = b) by lia. subst. rewrite E. reflexivity.
  - destruct (c_set_spec l lo b H) as [W M]. split; [exact W|].
    intro i. rewrite M. destruct (i =? b) eqn:Ei; [|reflexivity].
    assert (i = b) by lia. subst. rewrite E. reflexivity.
Qed.

(* ---------- helpers for the two-pointer algebra ---------- *)
Lemma mem_c_lb lo l i : wfc lo l -> mem_c l i = true -> lo <= i.
Proof.
  intros H M. destruct (N.lt_ge_cases i lo) as [L|L]; [|exact L].
  rewrite (mem_c_below lo l i H L) in M. discriminate.
Qed.

Lemma wfc_head lo mn mx r : wfc lo ((mn, mx) :: r) -> wfc mn ((mn, mx) :: r).
Proof. cbn. intuition lia. Qed.

Ltac blia := repeat match goal with |- context [mem_c ?l ?i] => destruct (mem_c l i) end; lia.

(* facts about membership in tails, for a fixed index *)
Ltac tailfact H i :=
  match type of H with
  | wfc ?lo ?l => let F := fresh "F" in pose proof (mem_c_lb lo l i H) as F
  end.

(* ---------- And ---------- *)
Lemma c_and_go_spec : forall fuel a b la lb,
  wfc la a -> wfc lb b -> (length a + length b < fuel)%nat ->
  wfc (N.max la lb) (c_and_go fuel a b) /\
  forall i, mem_c (c_and_go fuel a b) i = mem_c a i && mem_c b i.
Proof.
  induction fuel as [|f IH]; intros a b la lb Ha Hb Hf; [lia|].
  cbn [c_and_go].
  destruct a as [|[amn amx] ar].
  { split; [exact I|]. intro i. reflexivity. }
  destruct b as [|[bmn bmx] br].
  { split; [exact I|]. intro i. rewrite mem_c_nil. lia. }
  pose proof Ha as Ha0. pose proof Hb as Hb0.
  cbn in Ha, Hb. destruct Ha as (A1 & A2 & A3). destruct Hb as (B1 & B2 & B3).
  cbn [length] in Hf.
  destruct (amx <? bmn) eqn:E1.
  { destruct (IH ar ((bmn, bmx) :: br) (amx + 2) lb A3 Hb0 ltac:(cbn [length]; lia)) as [W M].
    split; [eapply wfc_weaken; [|exact W]; lia|].
    intro i. rewrite M, !mem_c_cons. tailfact B3 i.
    destruct (mem_c ar i), (mem_c br i); lia. }
  destruct (bmx <? amn) eqn:E2.
  { destruct (IH ((amn, amx) :: ar) br la (bmx + 2) Ha0 B3 ltac:(cbn [length]; lia)) as [W M].
    split; [eapply wfc_weaken; [|exact W]; lia|].
    intro i. rewrite M, !mem_c_cons. tailfact A3 i.
    destruct (mem_c ar i), (mem_c br i); lia. }
  cbv zeta.
  destruct (N.min amx bmx =? amx) eqn:E3; destruct (N.min amx bmx =? bmx) eqn:E4; try lia.
  - destruct (IH ar br (amx + 2) (bmx + 2) A3 B3 ltac:(lia)) as [W M].
    split; [cbn; repeat split; try lia; eapply wfc_weaken; [|exact W]; lia|].
    intro i. rewrite mem_c_cons, M, !mem_c_cons. tailfact A3 i. tailfact B3 i.
    destruct (mem_c ar i), (mem_c br i); lia.
  - destruct (IH ar ((bmn, bmx) :: br) (amx + 2) lb A3 Hb0 ltac:(cbn [length]; lia)) as [W M].
    split; [cbn; repeat split; try lia; eapply wfc_weaken; [|exact W]; lia|].
    intro i. rewrite mem_c_cons, M, !mem_c_cons. tailfact A3 i. tailfact B3 i.
    destruct (mem_c ar i), (mem_c br i); lia.
  - destruct (IH ((amn, amx) :: ar) br la (bmx + 2) Ha0 B3 ltac:(cbn [length]; lia)) as [W M].
    split; [cbn; repeat split; try lia; eapply wfc_weaken; [|exact W]; lia|].
    intro i. rewrite mem_c_cons, M, !mem_c_cons. tailfact A3 i. tailfact B3 i.
    destruct (mem_c ar i), (mem_c br i); lia.
Qed.

Lemma c_and_spec a b la lb : wfc la a -> wfc lb b ->
  wfc (N.max la lb) (c_and a b) /\ forall i, mem_c (c_and a b) i = mem_c a i && mem_c b i.
Proof. intros. apply c_and_go_spec; auto. lia. Qed.

(* ---------- Sub ---------- *)
Lemma c_sub_go_spec : forall fuel a b la lb,
  wfc la a -> wfc lb b -> (length a + length b < fuel)%nat ->
  wfc la (c_sub_go fuel a b) /\
  forall i, mem_c (c_sub_go fuel a b) i = mem_c a i && negb (mem_c b i).
Proof.
  induction fuel as [|f IH]; intros a b la lb Ha Hb Hf; [lia|].
  cbn [c_sub_go].
  destruct a as [|[amn amx] ar].
  { split; [exact I|]. intro i. reflexivity. }
  destruct b as [|[bmn bmx] br].
  { split; [exact Ha|]. intro i. rewrite mem_c_nil. cbn [negb]. rewrite andb_true_r. reflexivity. }
  pose proof Ha as Ha0. pose proof Hb as Hb0.
  cbn in Ha, Hb. destruct Ha as (A1 & A2 & A3). destruct Hb as (B1 & B2 & B3).
  cbn [length] in Hf.
  destruct (bmx <? amn) eqn:E1.
  { destruct (IH ((amn, amx) :: ar) br la (bmx + 2) Ha0 B3 ltac:(cbn [length]; lia)) as [W M].
    split; [exact W|].
    intro i. rewrite M, !mem_c_cons. tailfact A3 i.
    destruct (mem_c ar i), (mem_c br i); lia. }
  destruct (amx <? bmn) eqn:E2.
  { destruct (IH ar ((bmn, bmx) :: br) (amx + 2) lb A3 Hb0 ltac:(cbn [length]; lia)) as [W M].
    split; [cbn; repeat split; try lia; exact W|].
    intro i. rewrite mem_c_cons, M, !mem_c_cons. tailfact B3 i.
    destruct (mem_c ar i), (mem_c br i); lia. }
  destruct (amx <=? bmx) eqn:E3.
  - destruct (IH ar ((bmn, bmx) :: br) (amx + 2) lb A3 Hb0 ltac:(cbn [length]; lia)) as [W M].
    destruct (amn <? bmn) eqn:E4; cbn [app].
    + split; [cbn; repeat split; try lia; eapply wfc_weaken; [|exact W]; lia|].
      intro i. rewrite mem_c_cons, M, !mem_c_cons. tailfact A3 i. tailfact B3 i.
      destruct (mem_c ar i), (mem_c br i); lia.
    + split; [eapply wfc_weaken; [|exact W]; lia|].
      intro i. rewrite M, !mem_c_cons. tailfact A3 i. tailfact B3 i.
      destruct (mem_c ar i), (mem_c br i); lia.
  - assert (Ha' : wfc (bmx + 1) ((bmx + 1, amx) :: ar)) by (cbn; repeat split; try lia; exact A3).
    destruct (IH ((bmx + 1, amx) :: ar) br (bmx + 1) (bmx + 2) Ha' B3 ltac:(cbn [length]; lia)) as [W M].
    destruct (amn <? bmn) eqn:E4; cbn [app].
    + split; [cbn; repeat split; try lia; eapply wfc_weaken; [|exact W]; lia|].
      intro i. rewrite mem_c_cons, M, !mem_c_cons. tailfact A3 i. tailfact B3 i.
      destruct (mem_c ar i), (mem_c br i); lia.
    + split; [eapply wfc_weaken; [|exact W]; lia|].
      intro i. rewrite M, !mem_c_cons. tailfact A3 i. tailfact B3 i.
      destruct (mem_c ar i), (mem_c br i); lia.
Qed.

Lemma c_sub_spec a b la lb : wfc la a -> wfc lb b ->
  wfc la (c_sub a b) /\ forall i, mem_c (c_sub a b) i = mem_c a i && negb (mem_c b i).
Proof. intros. eapply c_sub_go_spec; eauto. lia. Qed.

(* ---------- Or ---------- *)
Definition or_measure (cur : option run) (a b : cbm) : nat :=
  (2 * (length a + length b) + match cur with Some _ => 1 | None => 0 end)%nat.

Definition in_run (n : run) (i : N) : bool := (fst n <=? i) && (i <=? snd n).

Lemma c_or_go_spec : forall fuel cur a b la lb,
  wfc la a -> wfc lb b -> (or_measure cur a b < fuel)%nat ->
  match cur with
  | None =>
      wfc (N.min la lb) (c_or_go fuel None a b) /\
      forall i, mem_c (c_or_go fuel None a b) i = mem_c a i || mem_c b i
  | Some (nmn, nmx) =>
      nmn <= nmx -> nmn <= la -> nmn <= lb ->
      wfc nmn (c_or_go fuel cur a b) /\
      forall i, mem_c (c_or_go fuel cur a b) i = in_run (nmn, nmx) i || mem_c a i || mem_c b i
  end.
Proof.
  unfold or_measure, in_run.
  induction fuel as [|f IH]; intros cur a b la lb Ha Hb Hf; [lia|].
  destruct cur as [[nmn nmx]|].
  - (* a run is under construction *)
    intros Hn La Lb. cbn [c_or_go fst snd].
    destruct a as [|[amn amx] ar].
    + destruct b as [|[bmn bmx] br].
      * split; [cbn; lia|]. intro i. rewrite mem_c_cons, !mem_c_nil. cbn [fst snd]. blia.
      * pose proof Hb as Hb0. cbn in Hb. destruct Hb as (B1 & B2 & B3).
        destruct (bmn <=? nmx + 1) eqn:E1.
        { pose proof (IH (Some (nmn, N.max nmx bmx)) [] br la (bmx + 2) Ha B3
                         ltac:(cbn [length] in *; lia)) as P.
          cbn beta iota in P. destruct P as [W M]; try lia.
          split; [exact W|]. intro i. rewrite M, !mem_c_cons, !mem_c_nil. cbn [fst snd].
          tailfact B3 i. destruct (mem_c br i); lia. }
        { pose proof (IH None [] ((bmn, bmx) :: br) bmn bmn I (wfc_head _ _ _ _ Hb0)
                         ltac:(cbn [length] in *; lia)) as P.
          cbn beta iota in P. destruct P as [W M].
          split.
          - cbn [wfc]. repeat split; try lia. eapply wfc_weaken; [|exact W]. lia.
          - intro i. rewrite mem_c_cons, M, mem_c_nil. cbn [fst snd]. blia. }
    + pose proof Ha as Ha0. cbn in Ha. destruct Ha as (A1 & A2 & A3).
      destruct (amn <=? nmx + 1) eqn:E1.
      { pose proof (IH (Some (nmn, N.max nmx amx)) ar b (amx + 2) lb A3 Hb
                       ltac:(cbn [length] in *; lia)) as P.
        cbn beta iota in P. destruct P as [W M]; try lia.
        split; [exact W|]. intro i. rewrite M, !mem_c_cons. cbn [fst snd].
        tailfact A3 i. destruct (mem_c ar i); lia. }
      destruct b as [|[bmn bmx] br].
      { pose proof (IH None ((amn, amx) :: ar) [] amn amn (wfc_head _ _ _ _ Ha0) I
                       ltac:(cbn [length] in *; lia)) as P.
        cbn beta iota in P. destruct P as [W M].
        split.
        - cbn [wfc]. repeat split; try lia. eapply wfc_weaken; [|exact W]. lia.
        - intro i. rewrite mem_c_cons, M, mem_c_nil. cbn [fst snd]. blia. }
      pose proof Hb as Hb0. cbn in Hb. destruct Hb as (B1 & B2 & B3).
      destruct (bmn <=? nmx + 1) eqn:E2.
      { pose proof (IH (Some (nmn, N.max nmx bmx)) ((amn, amx) :: ar) br la (bmx + 2) Ha0 B3
                       ltac:(cbn [length] in *; lia)) as P.
        cbn beta iota in P. destruct P as [W M]; try lia.
        split; [exact W|]. intro i. rewrite M, !mem_c_cons. cbn [fst snd].
        tailfact B3 i. destruct (mem_c br i); lia. }
      { pose proof (IH None ((amn, amx) :: ar) ((bmn, bmx) :: br) amn bmn
                       (wfc_head _ _ _ _ Ha0) (wfc_head _ _ _ _ Hb0)
                       ltac:(cbn [length] in *; lia)) as P.
        cbn beta iota in P. destruct P as [W M].
        split.
        - cbn [wfc]. repeat split; try lia. eapply wfc_weaken; [|exact W]. lia.
        - intro i. rewrite mem_c_cons, M. cbn [fst snd]. blia. }
  - (* pick the next run *)
    cbn [c_or_go].
    destruct a as [|[amn amx] ar].
    { split; [eapply wfc_weaken; [|exact Hb]; lia|]. intro i. rewrite mem_c_nil. reflexivity. }
    destruct b as [|[bmn bmx] br].
    { split; [eapply wfc_weaken; [|exact Ha]; lia|]. intro i. rewrite mem_c_nil. lia. }
    pose proof Ha as Ha0. pose proof Hb as Hb0.
    cbn in Ha, Hb. destruct Ha as (A1 & A2 & A3). destruct Hb as (B1 & B2 & B3).
    destruct (amx <? bmn) eqn:E1.
    { pose proof (IH (Some (amn, amx)) ar ((bmn, bmx) :: br) (amx + 2) bmn A3 (wfc_head _ _ _ _ Hb0)
                     ltac:(cbn [length] in *; lia)) as P.
      cbn beta iota in P. destruct P as [W M]; try lia.
      split; [eapply wfc_weaken; [|exact W]; lia|].
      intro i. rewrite M, !mem_c_cons. cbn [fst snd]. blia. }
    destruct (bmx <? amn) eqn:E2.
    { pose proof (IH (Some (bmn, bmx)) ((amn, amx) :: ar) br amn (bmx + 2) (wfc_head _ _ _ _ Ha0) B3
                     ltac:(cbn [length] in *; lia)) as P.
      cbn beta iota in P. destruct P as [W M]; try lia.
      split; [eapply wfc_weaken; [|exact W]; lia|].
      intro i. rewrite M, !mem_c_cons. cbn [fst snd]. blia. }
    pose proof (IH (Some (N.min amn bmn, N.max amx bmx)) ar br (amx + 2) (bmx + 2) A3 B3
                   ltac:(cbn [length] in *; lia)) as P.
    cbn beta iota in P. destruct P as [W M]; try lia.
    split; [eapply wfc_weaken; [|exact W]; lia|].
    intro i. rewrite M, !mem_c_cons. cbn [fst snd]. blia.
Qed.

Lemma c_or_spec a b la lb : wfc la a -> wfc lb b ->
  wfc (N.min la lb) (c_or a b) /\ forall i, mem_c (c_or a b) i = mem_c a i || mem_c b i.
Proof.
  intros Ha Hb. unfold c_or.
  apply (c_or_go_spec _ None a b la lb Ha Hb). unfold or_measure. lia.
Qed.

(* ---------- Xor ---------- *)
Fixpoint wfw (lo : N) (l : cbm) : Prop :=
  match l with
  | [] => True
  | (mn, mx) :: r => lo <= mn /\ mn <= mx /\ wfw (mx + 1) r
  end.

Lemma wfw_weaken lo lo' l : lo' <= lo -> wfw lo l -> wfw lo' l.
Proof. destruct l as [|[mn mx] r]; cbn; intros; intuition lia. Qed.

Lemma wfc_wfw l : forall lo, wfc lo l -> wfw lo l.
Proof.
  induction l as [|[mn mx] r IH]; intros lo H; [exact I|].
  cbn in *. destruct H as (H1 & H2 & H3). repeat split; try lia.
  eapply wfw_weaken; [|apply IH; exact H3]. lia.
Qed.

Lemma c_xor_raw_spec : forall fuel a b la lb,
  wfc la a -> wfc lb b -> (length a + length b < fuel)%nat ->
  wfw (N.min la lb) (c_xor_raw fuel a b) /\
  forall i, mem_c (c_xor_raw fuel a b) i = xorb (mem_c a i) (mem_c b i).
Proof.
  induction fuel as [|f IH]; intros a b la lb Ha Hb Hf; [lia|].
  cbn [c_xor_raw].
  destruct a as [|[amn amx] ar].
  { split; [eapply wfw_weaken; [|apply wfc_wfw; exact Hb]; lia|].
    intro i. rewrite mem_c_nil. destruct (mem_c b i); reflexivity. }
  destruct b as [|[bmn bmx] br].
  { split; [eapply wfw_weaken; [|apply wfc_wfw; exact Ha]; lia|].
    intro i. rewrite mem_c_nil. destruct (mem_c _ i); reflexivity. }
  pose proof Ha as Ha0. pose proof Hb as Hb0.
  cbn in Ha, Hb. destruct Ha as (A1 & A2 & A3). destruct Hb as (B1 & B2 & B3).
  cbn [length] in Hf.
  destruct (amx <? bmn) eqn:E1.
  { destruct (IH ar ((bmn, bmx) :: br) (amx + 2) bmn A3 (wfc_head _ _ _ _ Hb0)
                 ltac:(cbn [length]; lia)) as [W M].
    split; [cbn [wfw]; repeat split; try lia; eapply wfw_weaken; [|exact W]; lia|].
    intro i. rewrite mem_c_cons, M, !mem_c_cons. tailfact A3 i. tailfact B3 i. blia. }
  destruct (bmx <? amn) eqn:E2.
  { destruct (IH ((amn, amx) :: ar) br amn (bmx + 2) (wfc_head _ _ _ _ Ha0) B3
                 ltac:(cbn [length]; lia)) as [W M].
    split; [cbn [wfw]; repeat split; try lia; eapply wfw_weaken; [|exact W]; lia|].
    intro i. rewrite mem_c_cons, M, !mem_c_cons. tailfact A3 i. tailfact B3 i. blia. }
  destruct (amx =? bmx) eqn:E3.
  { destruct (IH ar br (amx + 2) (bmx + 2) A3 B3 ltac:(lia)) as [W M].
    destruct (amn =? bmn) eqn:E4; [|destruct (amn <? bmn) eqn:E5]; cbn [app].
    - split; [eapply wfw_weaken; [|exact W]; lia|].
      intro i. rewrite M, !mem_c_cons. tailfact A3 i. tailfact B3 i. blia.
    - split; [cbn [wfw]; repeat split; try lia; eapply wfw_weaken; [|exact W]; lia|].
      intro i. rewrite mem_c_cons, M, !mem_c_cons. tailfact A3 i. tailfact B3 i. blia.
    - split; [cbn [wfw]; repeat split; try lia; eapply wfw_weaken; [|exact W]; lia|].
      intro i. rewrite mem_c_cons, M, !mem_c_cons. tailfact A3 i. tailfact B3 i. blia. }
  destruct (bmx <? amx) eqn:E6.
  { assert (Ha' : wfc (bmx + 1) ((bmx + 1, amx) :: ar)) by (cbn; repeat split; try lia; exact A3).
    destruct (IH ((bmx + 1, amx) :: ar) br (bmx + 1) (bmx + 2) Ha' B3 ltac:(cbn [length]; lia)) as [W M].
    destruct (amn =? bmn) eqn:E4; [|destruct (amn <? bmn) eqn:E5]; cbn [app].
    - split; [eapply wfw_weaken; [|exact W]; lia|].
      intro i. rewrite M, !mem_c_cons. tailfact A3 i. tailfact B3 i. blia.
    - split; [cbn [wfw]; repeat split; try lia; eapply wfw_weaken; [|exact W]; lia|].
      intro i. rewrite mem_c_cons, M, !mem_c_cons. tailfact A3 i. tailfact B3 i. blia.
    - split; [cbn [wfw]; repeat split; try lia; eapply wfw_weaken; [|exact W]; lia|].
      intro i. rewrite mem_c_cons, M, !mem_c_cons. tailfact A3 i. tailfact B3 i. blia. }
  { assert (Hb' : wfc (amx + 1) ((amx + 1, bmx) :: br)) by (cbn; repeat split; try lia; exact B3).
    destruct (IH ar ((amx + 1, bmx) :: br) (amx + 2) (amx + 1) A3 Hb' ltac:(cbn [length]; lia)) as [W M].
    destruct (amn =? bmn) eqn:E4; [|destruct (amn <? bmn) eqn:E5]; cbn [app].
    - split; [eapply wfw_weaken; [|exact W]; lia|].
      intro i. rewrite M, !mem_c_cons. tailfact A3 i. tailfact B3 i. blia.
    - split; [cbn [wfw]; repeat split; try lia; eapply wfw_weaken; [|exact W]; lia|].
      intro i. rewrite mem_c_cons, M, !mem_c_cons. tailfact A3 i. tailfact B3 i. blia.
    - split; [cbn [wfw]; repeat split; try lia; eapply wfw_weaken; [|exact W]; lia|].
      intro i. rewrite mem_c_cons, M, !mem_c_cons. tailfact A3 i. tailfact B3 i. blia. }
Qed.

Lemma c_join_spec l : forall lo, wfw lo l ->
  wfc lo (c_join l) /\ forall i, mem_c (c_join l) i = mem_c l i.
Proof.
  induction l as [|[mn mx] r IH]; intros lo H; [split; [exact I|reflexivity]|].
  cbn in H. destruct H as (H1 & H2 & H3).
  destruct (IH _ H3) as [W M]. cbn [c_join].
  destruct (c_join r) as [|[mn2 mx2] r2].
  - split; [cbn; lia|]. intro i. rewrite !mem_c_cons, <- M. reflexivity.
  - cbn in W. destruct W as (W1 & W2 & W3).
    destruct (mx + 1 =? mn2) eqn:E.
    + split; [cbn; repeat split; try lia; exact W3|].
      intro i. rewrite (mem_c_cons mn mx r), <- M, !mem_c_cons. blia.
    + split; [cbn; repeat split; try lia; exact W3|].
      intro i. rewrite (mem_c_cons mn mx r), <- M, !mem_c_cons. blia.
Qed.

Lemma c_xor_spec a b la lb : wfc la a -> wfc lb b ->
  wfc (N.min la lb) (c_xor a b) /\ forall i, mem_c (c_xor a b) i = xorb (mem_c a i) (mem_c b i).
Proof.
  intros Ha Hb. unfold c_xor, c_xor_prefix.
  destruct (c_xor_raw_spec (length a + length b + 1) a b la lb Ha Hb ltac:(lia)) as [W M].
  destruct (c_join_spec _ _ W) as [W' M'].
  split; [exact W'|]. intro i. rewrite M', M. reflexivity.
Qed.

(* ---------- Equal / IsZero: canonicity of the run list ---------- *)
Lemma c_equal_eq a : forall b, c_equal a b = true <-> a = b.
Proof.
  induction a as [|[m1 x1] a IH]; intros [|[m2 x2] b]; cbn; try (split; [discriminate|discriminate]);
    try (split; reflexivity).
  unfold run_eqb. cbn [fst snd]. split.
  - intro H. apply andb_true_iff in H. destruct H as [H1 H2].
    apply IH in H2. subst. f_equal. f_equal; lia.
  - intro H. inversion H; subst. apply andb_true_iff. split; [lia|]. apply IH. reflexivity.
Qed.

Lemma wfc_canonical a : forall b lo,
  wfc lo a -> wfc lo b -> (forall i, mem_c a i = mem_c b i) -> a = b.
Proof.
  induction a as [|[m1 x1] a IH]; intros [|[m2 x2] b] lo Ha Hb E.
  - reflexivity.
  - cbn in Hb. specialize (E m2). rewrite mem_c_nil, mem_c_cons in E. lia.
  - cbn in Ha. specialize (E m1). rewrite mem_c_nil, mem_c_cons in E. lia.
  - pose proof Ha as Ha0. pose proof Hb as Hb0.
    cbn in Ha, Hb. destruct Ha as (A1 & A2 & A3). destruct Hb as (B1 & B2 & B3).
    assert (m1 = m2).
    { pose proof (E m1) as E1. pose proof (E m2) as E2. rewrite !mem_c_cons in E1, E2.
      tailfact A3 m2. tailfact B3 m1. destruct (mem_c a m2), (mem_c b m1); lia. }
    subst m2.
    assert (x1 = x2).
    { pose proof (E (x1 + 1)) as E1. pose proof (E (x2 + 1)) as E2. rewrite !mem_c_cons in E1, E2.
      tailfact A3 (x1 + 1). tailfact A3 (x2 + 1). tailfact B3 (x1 + 1). tailfact B3 (x2 + 1).
      destruct (mem_c a (x1 + 1)), (mem_c a (x2 + 1)), (mem_c b (x1 + 1)), (mem_c b (x2 + 1)); lia. }
    subst x2. f_equal.
    apply (IH b (x1 + 2) A3 B3). intro i.
    pose proof (E i) as Ei. rewrite !mem_c_cons in Ei.
    tailfact A3 i. tailfact B3 i. destruct (mem_c a i), (mem_c b i); lia.
Qed.

Theorem c_equal_spec a b : wf_c a -> wf_c b ->
  (c_equal a b = true <-> forall i, mem_c a i = mem_c b i).
Proof.
  intros Ha Hb. rewrite c_equal_eq. split.
  - intros ->. reflexivity.
  - apply (wfc_canonical a b 0 Ha Hb).
Qed.

Theorem c_iszero_spec a : wf_c a -> (c_iszero a = true <-> forall i, mem_c a i = false).
Proof.
  intro Ha. destruct a as [|[mn mx] r]; cbn [c_iszero].
  - split; [reflexivity|reflexivity].
  - split; [discriminate|]. intro E. specialize (E mn). rewrite mem_c_cons in E.
    cbn in Ha. lia.
Qed.

(* Len = 1 + largest member (0 for the empty set) *)
Lemma c_len_app l mn mx : c_len (l ++ [(mn, mx)]) = mx + 1.
Proof. unfold c_len. rewrite rev_app_distr. reflexivity. Qed.

Lemma c_len_spec l : forall lo, wfc lo l ->
  (forall i, mem_c l i = true -> i < c_len l) /\
  (l <> [] -> mem_c l (c_len l - 1) = true /\ 0 < c_len l).
Proof.
  induction l as [|[mn mx] r IH]; intros lo H.
  - split; [intros i; rewrite mem_c_nil; discriminate|]. intro C; contradiction.
  - cbn in H. destruct H as (H1 & H2 & H3). destruct (IH _ H3) as [U V].
    destruct r as [|e r'].
    + unfold c_len. cbn [rev app]. split.
      * intros i. rewrite mem_c_cons, mem_c_nil. lia.
      * intros _. rewrite mem_c_cons, mem_c_nil. split; lia.
    + assert (Hne : e :: r' <> []) by discriminate.
      assert (Hl : c_len ((mn, mx) :: e :: r') = c_len (e :: r')).
      { unfold c_len. cbn [rev]. destruct (rev r' ++ [e]) eqn:R.
        - destruct (rev r'); discriminate.
        - reflexivity. }
      rewrite Hl. destruct (V Hne) as [V1 V2]. split.
      * intros i. rewrite mem_c_cons. intro M.
        destruct (mem_c (e :: r') i) eqn:Mi; [apply U; exact Mi|].
        pose proof (mem_c_lb _ _ _ H3 V1). lia.
      * intros _. rewrite mem_c_cons, V1. split; [lia|exact V2].
Qed.

(* OnesCount = number of members: counted against a run-wise sum over the set model *)
Lemma count_upto_ext s t n : (forall i, i < N.of_nat n -> s i = t i) -> count_upto s n = count_upto t n.
Proof.
  induction n as [|k IH]; intro E; [reflexivity|].
  cbn [count_upto]. rewrite E by lia. rewrite IH; [reflexivity|]. intros i Hi. apply E. lia.
Qed.

Lemma count_upto_false s n : (forall i, i < N.of_nat n -> s i = false) -> count_upto s n = 0.
Proof.
  induction n as [|k IH]; intro E; [reflexivity|].
  cbn [count_upto]. rewrite E by lia. rewrite IH; [reflexivity|]. intros i Hi. apply E. lia.
Qed.

(* number of members of the interval [mn,mx] below n *)
Lemma count_upto_interval_gen mn mx n : mn <= mx ->
  count_upto (fun i => (mn <=? i) && (i <=? mx)) n
  = N.min (N.of_nat n) (mx + 1) - N.min (N.of_nat n) mn.
Proof.
  intros H1. induction n as [|k IH]; [cbn; lia|].
  cbn [count_upto]. rewrite IH.
  destruct ((mn <=? N.of_nat k) && (N.of_nat k <=? mx)) eqn:E; lia.
Qed.

Lemma count_upto_interval mn mx n : mn <= mx -> mx < N.of_nat n ->
  count_upto (fun i => (mn <=? i) && (i <=? mx)) n = 1 + mx - mn.
Proof. intros H1 H2. rewrite count_upto_interval_gen by exact H1. lia. Qed.

Lemma count_upto_or s t n : (forall i, i < N.of_nat n -> s i && t i = false) ->
  count_upto (fun i => s i || t i) n = count_upto s n + count_upto t n.
Proof.
  induction n as [|k IH]; intro D; [reflexivity|].
  cbn [count_upto]. rewrite IH by (intros i Hi; apply D; lia).
  specialize (D (N.of_nat k) ltac:(lia)).
  destruct (s (N.of_nat k)), (t (N.of_nat k)); cbn [orb andb] in *; try discriminate; lia.
Qed.

Theorem c_count_spec l : forall lo n, wfc lo l -> c_len l <= N.of_nat n ->
  c_count l = count_upto (mem_c l) n.
Proof.
  induction l as [|[mn mx] r IH]; intros lo n H Hn.
  - cbn [c_count]. symmetry. apply count_upto_false. intros. apply mem_c_nil.
  - pose proof (c_len_spec _ _ H) as [U V].
    cbn in H. destruct H as (H1 & H2 & H3).
    assert (Hmx : mx < N.of_nat n).
    { assert (M : mem_c ((mn, mx) :: r) mx = true) by (rewrite mem_c_cons; lia).
      specialize (U _ M). lia. }
    assert (Hr : c_len r <= N.of_nat n).
    { destruct r as [|e r']; [unfold c_len; cbn; lia|].
      assert (Hl : c_len ((mn, mx) :: e :: r') = c_len (e :: r')).
      { unfold c_len. cbn [rev]. destruct (rev r' ++ [e]) eqn:R.
        - destruct (rev r'); discriminate.
        - reflexivity. }
      lia. }
    cbn [c_count]. rewrite (IH _ n H3 Hr).
    transitivity (count_upto (fun i => ((mn <=? i) && (i <=? mx)) || mem_c r i) n).
    + rewrite count_upto_or.
      * rewrite count_upto_interval by lia. reflexivity.
      * intros i Hi. tailfact H3 i. destruct (mem_c r i); lia.
    + apply count_upto_ext. intros i Hi. rewrite mem_c_cons. reflexivity.
Qed.

(* ---------- Inject ---------- *)
Lemma c_shift_all l : forall lo b, wfc lo l -> b <= lo -> wfc (lo + 1) (map (c_shift_up b) l).
Proof.
  induction l as [|[mn mx] r IH]; intros lo b H Hb; [exact I|].
  cbn in H. destruct H as (H1 & H2 & H3).
  cbn [map c_shift_up].
  destruct (mx <? b) eqn:E1; [lia|].
  destruct (b <=? mn) eqn:E2; [|lia].
  cbn [wfc]. repeat split; try lia.
  replace (mx + 1 + 2) with (mx + 2 + 1) by lia. apply IH; [exact H3|lia].
Qed.

Lemma c_shift_up_spec l : forall lo b, wfc lo l ->
  wfc lo (map (c_shift_up b) l) /\
  forall i, i <> b ->
    mem_c (map (c_shift_up b) l) i = if i <? b then mem_c l i else mem_c l (i - 1).
Proof.
  induction l as [|[mn mx] r IH]; intros lo b H.
  { split; [exact I|]. intros i _. cbn. destruct (i <? b); reflexivity. }
  cbn in H. destruct H as (H1 & H2 & H3).
  destruct (IH (mx + 2) b H3) as [W M].
  cbn [map c_shift_up].
  destruct (mx <? b) eqn:E1.
  { split; [cbn [wfc]; repeat split; try lia; exact W|].
    intros i Hi. rewrite !mem_c_cons, (M i Hi). destruct (i <? b) eqn:Ei; blia. }
  assert (W' : wfc (mx + 3) (map (c_shift_up b) r)).
  { replace (mx + 3) with (mx + 2 + 1) by lia. apply c_shift_all; [exact H3|lia]. }
  destruct (b <=? mn) eqn:E2.
  { split; [cbn [wfc]; repeat split; try lia; replace (mx + 1 + 2) with (mx + 3) by lia; exact W'|].
    intros i Hi. rewrite !mem_c_cons, (M i Hi). destruct (i <? b) eqn:Ei; blia. }
  { split; [cbn [wfc]; repeat split; try lia; replace (mx + 1 + 2) with (mx + 3) by lia; exact W'|].
    intros i Hi. rewrite !mem_c_cons, (M i Hi). destruct (i <? b) eqn:Ei; blia. }
Qed.

Theorem c_inject_spec l lo b v : wfc lo l ->
  wfc (N.min lo b) (c_inject l b v) /\
  forall i, mem_c (c_inject l b v) i = set_inject (mem_c l) b v i.
Proof.
  intro H. unfold c_inject, set_inject.
  destruct (c_shift_up_spec l lo b H) as [W M].
  destruct v.
  - destruct (c_set_spec _ lo b W) as [W' M']. split; [exact W'|].
    intro i. rewrite M'. destruct (i =? b) eqn:Ei.
    + destruct (i <? b) eqn:E2; [lia|reflexivity].
    + cbn [orb]. apply M. lia.
  - destruct (c_unset_spec _ lo b W) as [W' M']. split; [eapply wfc_weaken; [|exact W']; lia|].
    intro i. rewrite M'. destruct (i =? b) eqn:Ei.
    + destruct (i <? b) eqn:E2; [lia|reflexivity].
    + cbn [negb andb]. apply M. lia.
Qed.

(* ---------- Extract (works on the reversed run list) ---------- *)
Fixpoint wfd (ub : N) (l : cbm) : Prop :=
  match l with
  | [] => True
  | (mn, mx) :: r => mn <= mx /\ mx + 2 <= ub /\ wfd mn r
  end.

Lemma wfd_weaken ub ub' l : ub <= ub' -> wfd ub l -> wfd ub' l.
Proof. destruct l as [|[mn mx] r]; cbn; intros; intuition lia. Qed.

Lemma mem_d_above ub l i : wfd ub l -> ub <= i + 1 -> mem_c l i = false.
Proof.
  revert ub; induction l as [|[mn mx] r IH]; intros ub H Hi; [reflexivity|].
  cbn in H. destruct H as (H1 & H2 & H3).
  rewrite mem_c_cons, (IH mn); auto; lia.
Qed.

Lemma mem_d_ub ub l i : wfd ub l -> mem_c l i = true -> i + 2 <= ub.
Proof.
  intros H M. destruct (N.lt_ge_cases (i + 1) ub) as [L|L]; [lia|].
  rewrite (mem_d_above ub l i H L) in M. discriminate.
Qed.

Ltac tailfactd H i :=
  match type of H with
  | wfd ?ub ?l => let F := fresh "F" in pose proof (mem_d_ub ub l i H) as F
  end.

Lemma c_extract_rev_spec l : forall ub ub' b,
  wfd ub l -> ub <= ub' + 1 -> b + 1 <= ub' ->
  wfd ub' (fst (c_extract_rev l b)) /\
  snd (c_extract_rev l b) = mem_c l b /\
  forall i, mem_c (fst (c_extract_rev l b)) i = set_extract (mem_c l) b i.
Proof.
  unfold c_extract_rev, set_extract.
  induction l as [|[mn mx] r IH]; intros ub ub' b H U1 U2.
  { cbn. repeat split. intro i. destruct (i <? b); reflexivity. }
  pose proof H as H0. cbn in H. destruct H as (H1 & H2 & H3).
  cbn [c_extract_rev_gen negb andb].
  destruct (mx <? b) eqn:E1.
  { cbn [fst snd]. split; [cbn [wfd]; repeat split; try lia; exact H3|].
    split.
    - rewrite mem_c_cons. tailfactd H3 b. blia.
    - intro i. rewrite !mem_c_cons. tailfactd H3 i. tailfactd H3 (i + 1).
      destruct (i <? b) eqn:Ei; blia. }
  destruct ((mn =? b) && (mx =? b)) eqn:E2.
  { cbn [fst snd]. split; [eapply wfd_weaken; [|exact H3]; lia|].
    split.
    - rewrite mem_c_cons. blia.
    - intro i. rewrite !mem_c_cons. tailfactd H3 i. tailfactd H3 (i + 1).
      destruct (i <? b) eqn:Ei; blia. }
  destruct (mn <? b) eqn:E3.
  { cbn [fst snd]. split; [cbn [wfd]; repeat split; try lia; exact H3|].
    split.
    - rewrite mem_c_cons. blia.
    - intro i. rewrite !mem_c_cons. tailfactd H3 i. tailfactd H3 (i + 1).
      destruct (i <? b) eqn:Ei; blia. }
  destruct (mn =? b) eqn:E4.
  { cbn [fst snd]. split; [cbn [wfd]; repeat split; try lia; exact H3|].
    split.
    - rewrite mem_c_cons. blia.
    - intro i. rewrite !mem_c_cons. tailfactd H3 i. tailfactd H3 (i + 1).
      destruct (i <? b) eqn:Ei; blia. }
  cbv zeta.
  destruct (b =? mn - 1) eqn:E5.
  { destruct r as [|[mn2 mx2] r2].
    - cbn [fst snd]. split; [cbn [wfd]; repeat split; lia|].
      split; [rewrite mem_c_cons, mem_c_nil; lia|].
      intro i. rewrite !mem_c_cons, !mem_c_nil. destruct (i <? b) eqn:Ei; lia.
    - cbn in H3. destruct H3 as (G1 & G2 & G3).
      destruct (mx2 + 1 =? mn - 1) eqn:E6; cbn [fst snd].
      + split; [cbn [wfd]; repeat split; try lia; exact G3|].
        split.
        * rewrite !mem_c_cons. tailfactd G3 b. blia.
        * intro i. rewrite !mem_c_cons. tailfactd G3 i. tailfactd G3 (i + 1).
          destruct (i <? b) eqn:Ei; blia.
      + split; [cbn [wfd]; repeat split; try lia; exact G3|].
        split.
        * rewrite !mem_c_cons. tailfactd G3 b. blia.
        * intro i. rewrite !mem_c_cons. tailfactd G3 i. tailfactd G3 (i + 1).
          destruct (i <? b) eqn:Ei; blia. }
  specialize (IH mn (mn - 1) b H3 ltac:(lia) ltac:(lia)).
  destruct (c_extract_rev_gen false r b) as [r' res]. cbn [fst snd] in *.
  destruct IH as (W & R & M).
  split; [cbn [wfd]; repeat split; try lia; exact W|].
  split.
  - rewrite mem_c_cons, R. blia.
  - intro i. rewrite !mem_c_cons, M. destruct (i <? b) eqn:Ei; blia.
Qed.

(* reversal turns an ascending run list into a descending one and back *)
Lemma mem_c_rev l i : mem_c (rev l) i = mem_c l i.
Proof.
  induction l as [|e r IH]; [reflexivity|].
  cbn [rev]. rewrite mem_c_app, IH. destruct e as [mn mx]. rewrite !mem_c_cons, mem_c_nil.
  blia.
Qed.

Lemma wfd_app_end a : forall ub mn mx,
  wfd ub a -> mn <= mx -> (a = [] -> mx + 2 <= ub) ->
  Forall (fun e => mx + 2 <= fst e) a -> wfd ub (a ++ [(mn, mx)]).
Proof.
  induction a as [|[m x] a IH]; intros ub mn mx H Hm He Hf.
  - specialize (He eq_refl). cbn. repeat split; lia.
  - cbn in H. destruct H as (H1 & H2 & H3). inversion Hf as [|? ? F1 F2]; subst. cbn [fst] in F1.
    cbn [app wfd]. repeat split; try lia.
    apply IH; auto; intros; lia.
Qed.

Lemma wfc_mins lo l : wfc lo l -> Forall (fun e => lo <= fst e) l.
Proof.
  revert lo; induction l as [|[mn mx] r IH]; intros lo H; [constructor|].
  cbn in H. destruct H as (H1 & H2 & H3). constructor; [exact H1|].
  eapply Forall_impl; [|apply (IH _ H3)]. intros [a b]; cbn; lia.
Qed.

Lemma wfc_rev_wfd l : forall lo ub, wfc lo l -> Forall (fun e => snd e + 2 <= ub) l -> wfd ub (rev l).
Proof.
  induction l as [|[mn mx] r IH]; intros lo ub H Hu; [exact I|].
  cbn in H. destruct H as (H1 & H2 & H3).
  inversion Hu as [|? ? U1 U2]; subst. cbn [snd] in U1.
  cbn [rev]. apply wfd_app_end.
  - apply (IH (mx + 2)); assumption.
  - exact H2.
  - intros _. exact U1.
  - apply Forall_rev. apply (wfc_mins _ _ H3).
Qed.

Lemma wfc_app_end a : forall lo mn mx,
  wfc lo a -> lo <= mn -> mn <= mx -> Forall (fun e => snd e + 2 <= mn) a ->
  wfc lo (a ++ [(mn, mx)]).
Proof.
  induction a as [|[m x] a IH]; intros lo mn mx H Hl Hm Hf.
  - cbn. lia.
  - cbn in H. destruct H as (H1 & H2 & H3). inversion Hf as [|? ? F1 F2]; subst. cbn [snd] in F1.
    cbn [app wfc]. repeat split; try lia. apply IH; auto.
Qed.

Lemma wfd_maxs ub l : wfd ub l -> Forall (fun e => snd e + 2 <= ub) l.
Proof.
  revert ub; induction l as [|[mn mx] r IH]; intros ub H; [constructor|].
  cbn in H. destruct H as (H1 & H2 & H3). constructor; [exact H2|].
  eapply Forall_impl; [|apply (IH _ H3)]. intros [a b]; cbn; lia.
Qed.

Lemma wfd_rev_wfc l : forall ub, wfd ub l -> wfc 0 (rev l).
Proof.
  induction l as [|[mn mx] r IH]; intros ub H; [exact I|].
  cbn in H. destruct H as (H1 & H2 & H3).
  cbn [rev]. apply wfc_app_end; try lia.
  - apply (IH mn H3).
  - apply Forall_rev. apply (wfd_maxs _ _ H3).
Qed.

Lemma cbm_upper l : exists ub, Forall (fun e : N * N => snd e + 2 <= ub) l /\
                               forall b, exists ub', ub <= ub' + 1 /\ b + 1 <= ub'.
Proof.
  induction l as [|[mn mx] r [ub [F G]]].
  - exists 0. split; [constructor|]. intro b. exists (b + 1). lia.
  - exists (N.max ub (mx + 2)). split.
    + constructor; [cbn; lia|]. eapply Forall_impl; [|exact F]. intros [a c]; cbn; lia.
    + intro b. exists (N.max ub (mx + 2) + b + 1). lia.
Qed.

Theorem c_extract_spec l b : wf_c l ->
  wf_c (fst (c_extract l b)) /\
  snd (c_extract l b) = mem_c l b /\
  forall i, mem_c (fst (c_extract l b)) i = set_extract (mem_c l) b i.
Proof.
  intro H. unfold c_extract.
  destruct (cbm_upper l) as [ub [F G]]. destruct (G b) as [ub' [U1 U2]].
  pose proof (wfc_rev_wfd l 0 ub H F) as D.
  destruct (c_extract_rev_spec (rev l) ub ub' b D U1 U2) as (W & R & M).
  destruct (c_extract_rev (rev l) b) as [r res]. cbn [fst snd] in *.
  split; [apply (wfd_rev_wfc r ub' W)|].
  split; [rewrite R; apply mem_c_rev|].
  intro i. rewrite mem_c_rev, M. unfold set_extract.
  rewrite !mem_c_rev. reflexivity.
Qed.
