From Coq Require Import NArith List Bool Lia ZifyBool ZifyN ZifyNat.
Require Import Pk.Bitmask.
Open Scope N_scope.

Lemma wfc_weaken lo lo' l : lo' <= lo -> wfc lo l -> wfc lo' l.
Proof. destruct l as [|[mn mx] r]; cbn; intros; intuition lia. Qed.
