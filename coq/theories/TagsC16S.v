(* C16, strengthening after the UpdateTag validation (7bcf2d3): a tag that keeps converters never has a
   data / tag-referencing definition -- so a converter's output can never feed the tag it is attached to. *)
From Coq Require Import List NArith Bool Lia.
From Pk Require Import Tags TagsC16 TagsC06.
Import ListNotations.
Open Scope N_scope.

Definition conv_simple (t : tag) : Prop := t_conv t <> [] -> complex (t_def t) = false.
Definition SCt (ts : tags_t) : Prop := Forall (fun nt => conv_simple (snd nt)) ts.
Definition SC (st : state) : Prop := SCt (tags st).

Definition same_dc (t t' : tag) : Prop := t_def t' = t_def t /\ t_conv t' = t_conv t.

Lemma cs_same t t' : same_dc t t' -> conv_simple t -> conv_simple t'.
Proof. intros (D & C) H. unfold conv_simple. rewrite D, C. exact H. Qed.

Lemma sct_map f ts : (forall t, same_dc t (f t)) -> SCt ts -> SCt (map (fun nt => (fst nt, f (snd nt))) ts).
Proof.
  intros Hf H. unfold SCt in *. rewrite Forall_map. eapply Forall_impl; [|exact H].
  intros nt Hs. simpl. apply (cs_same (snd nt)); [apply Hf|exact Hs].
Qed.

Lemma sct_tset n t' ts : conv_simple t' -> SCt ts -> SCt (tset n t' ts).
Proof.
  intros Ht H. unfold SCt, tset in *. rewrite Forall_map. eapply Forall_impl; [|exact H].
  intros nt Hs. destruct (fst nt =? n); [exact Ht|exact Hs].
Qed.

Lemma same_inherit_one a lower t : same_dc t (inherit_one a lower t).
Proof.
  unfold inherit_one. destruct (d_main (t_def t)), (d_subt (t_def t)); try (split; reflexivity);
  destruct (existsb _ _); split; reflexivity.
Qed.

Lemma sct_inherit a ts : SCt ts -> SCt (inherit a ts).
Proof.
  unfold SCt. induction 1 as [|[n t] r Ht Hr IH]; simpl; [constructor|].
  constructor; [|exact IH]. simpl. apply (cs_same t); [apply same_inherit_one|exact Ht].
Qed.

Lemma same_invalidate_one k a u r ad t : same_dc t (invalidate_one k a u r ad t).
Proof.
  unfold invalidate_one. destruct (negb (t_live t)); [split; reflexivity|].
  destruct (d_sub (t_def t)); [split; reflexivity|].
  destruct (d_idonly (t_def t)); [destruct (kf_idonly k); split; reflexivity|split; reflexivity].
Qed.

Lemma sct_invalidate_tags k a u r ad ts : SCt ts -> SCt (invalidate_tags k a u r ad ts).
Proof.
  intros H. unfold invalidate_tags. apply sct_inherit.
  apply (sct_map (invalidate_one k a u r ad)); [intros; apply same_invalidate_one|exact H].
Qed.

Lemma sct_data_tags s ts : SCt ts -> SCt (data_tags_uncertain s ts).
Proof.
  intros H. unfold data_tags_uncertain.
  apply (sct_map (fun t => if d_data (t_def t) then mkTag0 (t_def t) (t_m t) (union (t_u t) s) (t_conv t) (t_live t) else t)); [|exact H].
  intros t. destruct (d_data (t_def t)); split; reflexivity.
Qed.

Lemma sct_get ts n t : SCt ts -> tget n ts = Some t -> conv_simple t.
Proof.
  intros H G. apply tget_In in G. destruct G as (I & _). unfold SCt in H. rewrite Forall_forall in H. exact (H _ I).
Qed.

(* ---- frames: functions that leave the tags alone *)
Lemma tags_start_tagging p st : tags (start_tagging p st) = tags st.
Proof.
  unfold start_tagging. destruct (jtag st); [reflexivity|].
  destruct (if eligible (tags st) p then Some p else first_eligible (tags st)); [|reflexivity].
  destruct (tget n (tags st)); reflexivity.
Qed.

Lemma tags_start_converter st : tags (start_converter st) = tags st.
Proof.
  unfold start_converter. destruct (jconv st); [reflexivity|].
  destruct (filter _ (convs st)); reflexivity.
Qed.

Lemma tags_start_merge st : tags (start_merge st) = tags st.
Proof. unfold start_merge. destruct (merge_eligible st); reflexivity. Qed.

Lemma tags_invalidate_converters st s : tags (invalidate_converters st s) = tags st.
Proof. reflexivity. Qed.

Lemma sc_eq st st' : tags st' = tags st -> SC st -> SC st'.
Proof. unfold SC. intros ->. exact (fun H => H). Qed.

Lemma sc_detach st n c : SC st -> SC (detach st n c).
Proof.
  intros H. unfold detach. destruct (tget n (tags st)) as [t|] eqn:G; [|exact H].
  assert (SCt (tset n (mkTag (t_def t) (t_m t) (t_u t) (filter (fun x => negb (x =? c)) (t_conv t))) (tags st))) as H1.
  { apply sct_tset; [|exact H]. intros Hne. simpl in *. apply (sct_get _ _ _ H G).
    intros E. rewrite E in Hne. apply Hne. reflexivity. }
  match goal with |- SC (if ?b then _ else _) => destruct b end; exact H1.
Qed.

Lemma sc_attach st n c st' : attach st n c = Some st' -> SC st -> SC st'.
Proof.
  unfold attach. intros A H. destruct (tget n (tags st)) as [t|] eqn:G; [|inversion A; subst; exact H].
  destruct (tag_has_conv c t); [inversion A; subst; exact H|].
  destruct (complex (t_def t)) eqn:Cx; [discriminate|]. inversion A; subst. unfold SC. simpl.
  apply sct_tset; [|exact H]. intros _. exact Cx.
Qed.

Lemma sc_attach_all cs : forall st n, SC st -> SC (fst (attach_all st n cs)).
Proof.
  induction cs as [|c r IH]; intros st n H; simpl; [exact H|].
  destruct (memN c (convs st)); [|exact H].
  destruct (attach st n c) as [st'|] eqn:A; [|exact H].
  apply IH. exact (sc_attach _ _ _ _ A H).
Qed.

Lemma sc_fold_detach (f : N -> bool) n l : forall st, SC st -> SC (fold_left (fun s c => if f c then s else detach s n c) l st).
Proof.
  induction l as [|c r IH]; intros st H; simpl; [exact H|].
  apply IH. destruct (f c); [exact H|apply sc_detach; exact H].
Qed.

Lemma sc_fold_detach' n l : forall st, SC st -> SC (fold_left (fun s c => detach s n c) l st).
Proof.
  induction l as [|c r IH]; intros st H; simpl; [exact H|]. apply IH, sc_detach, H.
Qed.

Lemma sc_after_detach k b st : SC st -> SC (after_detach k b st).
Proof.
  intros H. unfold after_detach. destruct (kf_detachreset k); [exact H|].
  destruct (b && has_data_tag (tags st)); [|exact H]. unfold SC, reopen_data. simpl.
  apply sct_inherit, sct_data_tags. exact H.
Qed.

Lemma sc_tag_again k p st : SC st -> SC (tag_again k p st).
Proof.
  intros H. unfold tag_again. destruct (kf_detachreset k); [exact H|].
  apply (sc_eq st); [apply tags_start_tagging|exact H].
Qed.

Lemma complex_with_def_id d i : complex (with_def_id d i) = complex d.
Proof. reflexivity. Qed.

Lemma sc_starts p st : SC st -> SC (start_merge (start_converter (start_tagging p st))).
Proof.
  intros H. apply (sc_eq st); [|exact H].
  rewrite tags_start_merge, tags_start_converter, tags_start_tagging. reflexivity.
Qed.

Lemma sc_starts2 p st : SC st -> SC (start_converter (start_tagging p st)).
Proof.
  intros H. apply (sc_eq st); [|exact H]. rewrite tags_start_converter, tags_start_tagging. reflexivity.
Qed.

Lemma sc_set_tags st ts : SCt ts -> SC (set_tags st ts).
Proof. exact (fun H => H). Qed.

Theorem sc_step k p a st : SC st -> SC (step k p a st).
Proof.
  intros H. destruct a as [files|n d ids|n|n d|n ids did|n ids did|n cs|r|truth| | |j|v|v c i|v].
  - (* AImport *) simpl. destruct files; [exact H|]. match goal with |- SC (if ?b then _ else _) => destruct b end; exact H.
  - (* AAddTag *) simpl. destruct (tget n (tags st)); [exact H|]. destruct (refs_ok n d (tags st)); [|exact H].
    destruct (d_mark d).
    + apply sc_set_tags, sct_tset; [intros E; exfalso; apply E; reflexivity|exact H].
    + apply (sc_eq (set_tags st (tset n (mkTag d 0 (all st) []) (tags st)))); [apply tags_start_tagging|].
      apply sc_set_tags, sct_tset; [intros E; exfalso; apply E; reflexivity|exact H].
  - (* ADelTag *) simpl. destruct (tget n (tags st)) as [t|]; [|exact H].
    destruct (referenced n (tags st)); [exact H|].
    apply sc_tag_again, sc_set_tags. unfold tdel. apply sct_tset; [intros E; exfalso; apply E; reflexivity|].
    apply sc_after_detach, sc_fold_detach'. exact H.
  - (* AQuery *) simpl. destruct (tget n (tags st)) as [t|] eqn:G; [|exact H].
    destruct (complex d) eqn:Cx; simpl.
    + destruct (t_conv t) eqn:Ct; simpl; [|exact H].
      destruct (refs_ok n d (tags st)); [|exact H].
      apply sc_starts2, sc_set_tags, sct_inherit, sct_tset; [intros E; exfalso; apply E; reflexivity|exact H].
    + destruct (refs_ok n d (tags st)); [|exact H].
      apply sc_starts2, sc_set_tags, sct_inherit, sct_tset; [intros _; exact Cx|exact H].
  - (* AMarkAdd *) simpl. destruct (tget n (tags st)) as [t|] eqn:G; [|exact H]. destruct ids as [|i0 ids]; [exact H|].
    destruct (next st <=? maxl (i0 :: ids)); [exact H|].
    apply sc_starts2, sc_set_tags.
    match goal with |- SCt (match tget n ?ts1 with _ => _ end) => assert (SCt ts1) as H1 end.
    { apply sct_inherit, sct_tset; [|exact H]. intros Hne. unfold mkTag in *. cbn [t_def t_conv] in *.
      match goal with |- complex (match ?l with [] => _ | _ => _ end) = false => destruct l end;
        [|rewrite complex_with_def_id]; exact (sct_get _ _ _ H G Hne). }
    match goal with |- SCt (match tget n ?ts1 with _ => _ end) => destruct (tget n ts1) as [x|] eqn:G1 end; [|exact H1].
    apply sct_tset; [|exact H1]. exact (sct_get _ _ _ H1 G1).
  - (* AMarkDel *) simpl. destruct (tget n (tags st)) as [t|] eqn:G; [|exact H]. destruct ids as [|i0 ids]; [exact H|].
    destruct (next st <=? maxl (i0 :: ids)); [exact H|].
    apply sc_starts2, sc_set_tags.
    match goal with |- SCt (match tget n ?ts1 with _ => _ end) => assert (SCt ts1) as H1 end.
    { apply sct_inherit, sct_tset; [|exact H]. intros Hne. simpl in *.
      rewrite complex_with_def_id. exact (sct_get _ _ _ H G Hne). }
    match goal with |- SCt (match tget n ?ts1 with _ => _ end) => destruct (tget n ts1) as [x|] eqn:G1 end; [|exact H1].
    apply sct_tset; [|exact H1]. exact (sct_get _ _ _ H1 G1).
  - (* ASetConv *) simpl. destruct (tget n (tags st)) as [t|]; [|exact H].
    match goal with |- SC (if ?b then _ else _) => destruct b end; [|exact H].
    match goal with |- SC (start_converter ?s) => apply (sc_eq s); [apply tags_start_converter|] end.
    apply sc_tag_again, sc_attach_all, sc_after_detach, sc_fold_detach, H.
  - (* ABodyImport *) simpl. destruct (jimp st) as [j|]; [|exact H]. destruct (ij_resp j); exact H.
  - (* ABodyTag *) simpl. destruct (jtag st) as [j|]; [|exact H]. destruct (tj_res j); exact H.
  - (* ABodyConvert *) simpl. destruct (jconv st) as [j|]; [|exact H]. destruct (cj_done j); exact H.
  - (* ABodyMerge *) simpl. destruct (jmerge st) as [j|]; [|exact H]. destruct (mj_res j); exact H.
  - (* AComplete *) destruct j.
    + (* import *) simpl. destruct (jimp st) as [[nf [r|]]|]; try exact H.
      match goal with |- SC (start_merge (start_converter (start_tagging p ?s))) => apply (sc_starts p s) end.
      destruct (ir_idx r).
      * destruct (skipn (ir_proc r) (queue (set_jimp st None))); exact H.
      * assert (SCt (invalidate_tags k (ones (ir_next r)) (ir_upd r) (ir_rst r) (ir_add r) (tags st))) as H1
          by (apply sct_invalidate_tags; exact H).
        match goal with |- SC (match ?q with _ => _ end) => destruct q end; exact H1.
    + (* tag *) simpl. destruct (jtag st) as [[n d m0 u0 cv snap h [res|]]|]; try exact H.
      apply sc_starts. simpl.
      destruct (tget n (tags st)) as [ot|] eqn:G; [|exact H].
      destruct (defn_eqb (t_def ot) d) eqn:E; [|exact H].
      apply defn_eqb_eq in E. apply sc_set_tags.
      match goal with |- SCt (if ?dirty then invalidate_tags _ _ _ _ _ ?ts1 else _) => assert (SCt ts1) as H1 end.
      { apply sct_tset; [|exact H]. simpl. intros Hne. simpl in Hne. rewrite <- E. exact (sct_get _ _ _ H G Hne). }
      match goal with |- SCt (if ?dirty then _ else _) => destruct dirty end.
      * apply sct_invalidate_tags, H1.
      * destruct (kf_inherit k); [exact H1|apply sct_inherit, H1].
    + (* convert *) simpl. destruct (jconv st) as [[sets v nx [|]]|]; try exact H.
      assert (forall s0, SC s0 -> SC (if kf_mergeconv k then s0 else start_merge s0)) as HM.
      { intros s0 H0. destruct (kf_mergeconv k); [exact H0|]. apply (sc_eq s0); [apply tags_start_merge|exact H0]. }
      apply HM, sc_starts2. unfold SC. simpl.
      apply sct_inherit, sct_data_tags. destruct (kf_inflight k); exact H.
    + (* merge *) simpl. destruct (jmerge st) as [[off snap [merged|]]|]; try exact H.
      apply (sc_eq st); [|exact H]. rewrite tags_start_merge. reflexivity.
  - (* AViewOpen *) exact H.
  - (* AViewData *) simpl. destruct (find _ (views st)) as [[v0 sv]|]; [|exact H].
    destruct (cache st c i); [exact H|].
    match goal with |- SC (if ?b then _ else _) => destruct b end; [exact H|].
    match goal with |- SC (if ?b then _ else _) => destruct b end; [exact H|].
    apply (sc_eq st); [|exact H]. rewrite tags_start_converter. reflexivity.
  - (* AViewClose *) exact H.
Qed.

Lemma sc_init cs : SC (init cs).
Proof. unfold SC, SCt. simpl. repeat constructor; intros E; exfalso; apply E; reflexivity. Qed.

Theorem sc_run k l : forall st, SC st -> SC (run k l st).
Proof.
  unfold run. induction l as [|[p a] r IH]; intros st H; simpl; [exact H|]. apply IH, sc_step, H.
Qed.

(* what a user sees: a live tag that has converters matches on neither stream data nor other tags *)
Theorem sc_reachable k cs l n t :
  tget n (tags (run k l (init cs))) = Some t -> t_conv t <> [] -> d_data (t_def t) = false /\ d_refs (t_def t) = [].
Proof.
  intros G Hne. assert (complex (t_def t) = false) as Cx.
  { exact (sct_get _ _ _ (sc_run k l _ (sc_init cs)) G Hne). }
  unfold complex in Cx. apply orb_false_iff in Cx. destruct Cx as (D & R). split; [exact D|].
  destruct (d_refs (t_def t)); [reflexivity|discriminate].
Qed.
