(* QueryOps.v -- soundness of Conditions.clean, Condition.invert, And / Or / invert on sets and of
   ConditionsSet.Clean (absorption), on uncleaned and cleaned sets alike. *)
From Coq Require Import List NArith ZArith Bool Lia Permutation.
From Pk Require Import Query QuerySort QueryClean QueryFlags QueryHosts.
Import ListNotations.
Open Scope Z_scope.

Definition cond_wf (c : cond) : Prop :=
  match c with CFlag f => flag_wf f | CHost h => host_wf h | CData d => data_wf d | _ => True end.
Definition conj_wf (c : conj) : Prop := Forall cond_wf c.
Definition cset_wf (cs : cset) : Prop := Forall conj_wf cs.

(* ------------------------------------------------------------------ Conditions.clean *)

Lemma eval_conj_parts v c :
  eval_conj v c =
  negb (has_imp c) && forallb (eval_tag v) (sel_tag c) && forallb (eval_flag v) (sel_flag c) &&
  forallb (eval_host v) (sel_host c) && forallb (eval_num v) (sel_num c) &&
  forallb (eval_time v) (sel_time c) && forallb (eval_data v) (sel_data c).
Proof.
  unfold eval_conj. induction c as [|x c IH]; [reflexivity|].
  cbn [forallb has_imp existsb sel_tag sel_flag sel_host sel_num sel_time sel_data flat_map].
  fold (has_imp c) (sel_tag c) (sel_flag c) (sel_host c) (sel_num c) (sel_time c) (sel_data c).
  rewrite IH. destruct x; cbn [eval_cond app forallb orb negb andb];
    repeat match goal with |- context [forallb ?f ?l] => destruct (forallb f l) end;
    repeat match goal with |- context [has_imp ?l] => destruct (has_imp l) end;
    repeat match goal with |- context [eval_tag ?a ?b] => destruct (eval_tag a b) end;
    repeat match goal with |- context [eval_flag ?a ?b] => destruct (eval_flag a b) end;
    repeat match goal with |- context [eval_host ?a ?b] => destruct (eval_host a b) end;
    repeat match goal with |- context [eval_num ?a ?b] => destruct (eval_num a b) end;
    repeat match goal with |- context [eval_time ?a ?b] => destruct (eval_time a b) end;
    repeat match goal with |- context [eval_data ?a ?b] => destruct (eval_data a b) end; reflexivity.
Qed.

Lemma sel_flag_wf c : conj_wf c -> Forall flag_wf (sel_flag c).
Proof. induction 1 as [|x c Hx Hc IH]; simpl; [constructor|]. destruct x; simpl; auto. Qed.
Lemma sel_host_wf c : conj_wf c -> Forall host_wf (sel_host c).
Proof. induction 1 as [|x c Hx Hc IH]; simpl; [constructor|]. destruct x; simpl; auto. Qed.
Lemma sel_data_wf c : conj_wf c -> Forall data_wf (sel_data c).
Proof. induction 1 as [|x c Hx Hc IH]; simpl; [constructor|]. destruct x; simpl; auto. Qed.

Lemma eval_conj_app v a b : eval_conj v (a ++ b) = eval_conj v a && eval_conj v b.
Proof. apply forallb_app. Qed.
Lemma eval_conj_map {A} v (k : A -> cond) (ev : A -> bool) l :
  (forall x, eval_cond v (k x) = ev x) -> eval_conj v (map k l) = forallb ev l.
Proof. intros H. unfold eval_conj. rewrite forallb_map'. apply forallb_ext_in'. intros; apply H. Qed.

Theorem conj_clean_sound v (ok : val_ok v) c :
  conj_wf c -> eval_conj v (conj_clean c) = eval_conj v c /\ conj_wf (conj_clean c).
Proof.
  intros Hw. rewrite (eval_conj_parts v c). unfold conj_clean.
  destruct (has_imp c); [split; [reflexivity|repeat constructor]|]. cbn [negb andb].
  pose proof (clean_tag_sound v ok (sel_tag c)) as Ht.
  pose proof (clean_flag_sound v (sel_flag c) (sel_flag_wf c Hw)) as Hf.
  pose proof (clean_host_sound v (sel_host c) (sel_host_wf c Hw)) as Hh.
  pose proof (clean_num_sound v ok (sel_num c)) as Hn.
  pose proof (clean_time_sound v ok (sel_time c)) as Htm.
  pose proof (clean_data_sound v (sel_data c) (sel_data_wf c Hw)) as Hd.
  pose proof (clean_flag_wf (sel_flag c)) as Wf.
  pose proof (clean_host_wf (sel_host c)) as Wh.
  pose proof (clean_data_wf (sel_data c)) as Wd.
  unfold sound_clean in *.
  destruct (clean_tag (sel_tag c)) as [t|]; [|rewrite Ht; split; [reflexivity|repeat constructor]].
  destruct (clean_flag (sel_flag c)) as [f|]; [|rewrite Hf, andb_false_r; split; [reflexivity|repeat constructor]].
  destruct (clean_host (sel_host c)) as [h|]; [|rewrite Hh, !andb_false_r; split; [reflexivity|repeat constructor]].
  destruct (clean_num (sel_num c)) as [n|]; [|rewrite Hn, !andb_false_r; split; [reflexivity|repeat constructor]].
  destruct (clean_time (sel_time c)) as [tm|]; [|rewrite Htm, !andb_false_r; split; [reflexivity|repeat constructor]].
  destruct (clean_data (sel_data c)) as [d|]; [|rewrite Hd, !andb_false_r; split; [reflexivity|repeat constructor]].
  split.
  - rewrite !eval_conj_app.
    rewrite (eval_conj_map v CTag (eval_tag v)), (eval_conj_map v CFlag (eval_flag v)),
            (eval_conj_map v CHost (eval_host v)), (eval_conj_map v CNum (eval_num v)),
            (eval_conj_map v CTime (eval_time v)), (eval_conj_map v CData (eval_data v)) by reflexivity.
    rewrite Ht, Hf, Hh, Hn, Htm, Hd. rewrite !andb_assoc. reflexivity.
  - unfold conj_wf. repeat (apply Forall_app; split); apply Forall_map;
      try (apply Forall_forall; intros; exact I).
    + apply (Wf f eq_refl).
    + apply (Wh h (sel_host_wf c Hw) eq_refl).
    + apply (Wd d (sel_data_wf c Hw) eq_refl).
Qed.

Lemma conj_and_sound v (ok : val_ok v) a b :
  conj_wf a -> conj_wf b -> eval_conj v (conj_and a b) = eval_conj v a && eval_conj v b /\ conj_wf (conj_and a b).
Proof.
  intros Ha Hb. unfold conj_and.
  destruct (conj_clean_sound v ok (a ++ b)) as [E W]; [apply Forall_app; split; auto|].
  rewrite E, eval_conj_app. auto.
Qed.

(* ------------------------------------------------------------------ Condition.invert *)

Lemma existsb_ext_in {A} (f g : A -> bool) l : (forall x, In x l -> f x = g x) -> existsb f l = existsb g l.
Proof.
  induction l as [|a l IH]; intros H; simpl; auto.
  rewrite (H a) by (left; auto). rewrite IH by (intros; apply H; right; auto). reflexivity.
Qed.

Lemma sums_val_neg v l : sums_val v (map (fun s => mkNs (ns_sub s) (ns_ty s) (- ns_fac s)) l) = - sums_val v l.
Proof. induction l as [|s l IH]; simpl; [reflexivity|]. rewrite IH. unfold nsum_val; simpl. lia. Qed.
Lemma tsums_val_neg v l : tsums_val v (map (fun s => mkTs (ts_sub s) (- ts_f s) (- ts_l s)) l) = - tsums_val v l.
Proof. induction l as [|s l IH]; simpl; [reflexivity|]. rewrite IH. unfold tsum_val; simpl. lia. Qed.

Lemma eval_set_single v c : eval_set v [[c]] = eval_cond v c.
Proof. unfold eval_set, eval_conj. simpl. rewrite andb_true_r, orb_false_r. reflexivity. Qed.

Lemma data_invert_sound nxt els inv : forall p,
  els <> [] ->
  existsb (fun pre => eval_chain nxt pre (if Nat.eqb (length pre) (length els) then negb inv else true) p) (prefixes els)
  = negb (eval_chain nxt els inv p).
Proof.
  induction els as [|x r IH]; intros p Hne; [congruence|].
  destruct r as [|y r'].
  - cbn. rewrite orb_false_r. destruct inv, (nxt x p); reflexivity.
  - cbn [prefixes existsb]. rewrite existsb_map'.
    assert (Hl : Nat.eqb (length [x]) (length (x :: y :: r')) = false) by reflexivity.
    rewrite Hl. cbn [eval_chain].
    assert (Hpre : forall pre, In pre (prefixes (y :: r')) -> pre <> []).
    { intros pre Hin. cbn [prefixes] in Hin. destruct Hin as [<-|Hin]; [discriminate|].
      apply in_map_iff in Hin as (q & <- & _). discriminate. }
    transitivity (negb (is_some (nxt x p)) ||
                  match nxt x p with
                  | Some q => existsb (fun pre => eval_chain nxt pre (if Nat.eqb (length pre) (length (y :: r')) then negb inv else true) q) (prefixes (y :: r'))
                  | None => false
                  end).
    { f_equal. destruct (nxt x p) as [q|].
      - apply existsb_ext_in. intros pre Hin. specialize (Hpre pre Hin).
        destruct pre as [|z pre']; [congruence|]. reflexivity.
      - transitivity (existsb (fun _ : list N => false) (prefixes (y :: r'))).
        + apply existsb_ext_in. intros pre Hin. specialize (Hpre pre Hin).
          destruct pre as [|z pre']; [congruence|]. reflexivity.
        + clear. induction (prefixes (y :: r')); simpl; auto. }
    destruct (nxt x p) as [q|]; [|reflexivity]. cbn [is_some negb orb]. apply IH. discriminate.
Qed.

Lemma prefixes_nonempty {A} (l : list A) pre : In pre (prefixes l) -> pre <> [].
Proof.
  destruct l as [|x r]; [contradiction|]. cbn [prefixes]. intros [<-|Hin]; [discriminate|].
  apply in_map_iff in Hin as (q & <- & _). discriminate.
Qed.

Lemma testbit15 k : (k < 4)%N -> N.testbit 15 k = true.
Proof. intros H. assert (k = 0 \/ k = 1 \/ k = 2 \/ k = 3)%N as [ -> | [ -> | [ -> | -> ] ] ] by lia; reflexivity. Qed.

Theorem cond_invert_sound v (ok : val_ok v) c :
  cond_wf c -> eval_set v (cond_invert c) = negb (eval_cond v c) /\ cset_wf (cond_invert c) /\ cond_invert c <> [].
Proof.
  intros Hw. destruct c as [t|f|h|n|tm|d|]; cbn [cond_invert eval_cond].
  - (* tag *)
    split; [|split; [repeat constructor|discriminate]].
    rewrite eval_set_single. cbn [eval_cond]. unfold eval_tag; cbn.
    destruct (ok (t_sub t)) as (_ & _ & _ & Ht). specialize (Ht (t_name t)).
    destruct Ht as [E|[E|[E|E]]]; rewrite E;
      [change 1%N with (2 ^ 0)%N|change 2%N with (2 ^ 1)%N|change 4%N with (2 ^ 2)%N|change 8%N with (2 ^ 3)%N];
      rewrite !accept_bit, N.lxor_spec, testbit15 by lia; destruct (N.testbit _ _); reflexivity.
  - (* flag *)
    split; [|split; [|discriminate]].
    + unfold eval_set. cbn [existsb]. rewrite orb_false_r. apply flag_invert_sound. exact Hw.
    + constructor; [|constructor]. destruct Hw as [Hm Hv]. unfold flag_invert, conj_wf.
      apply Forall_map. apply Forall_forall. intros u Hu. cbn. split; [exact Hm|]. cbn.
      apply in_app_or in Hu. unfold submasks in Hu.
      destruct Hu as [Hu|Hu]; apply filter_In in Hu as [Hu _]; apply filter_In in Hu as [_ Hu]; apply N.eqb_eq in Hu; auto.
  - (* host *)
    split; [|split; [|discriminate]].
    + rewrite eval_set_single. cbn [eval_cond]. rewrite !eval_host_hev. cbn. unfold hev.
      destruct (hfold _ _) as [[hh|]|]; destruct (h_inv h); try reflexivity; destruct (masked_zero _ _); reflexivity.
    + constructor; [|constructor]. constructor; [|constructor]. exact Hw.
  - (* number *)
    split; [|split; [repeat constructor|discriminate]].
    rewrite eval_set_single. cbn [eval_cond]. unfold eval_num. rewrite !num_value_eq. cbn [n_sums n_num].
    rewrite sums_val_neg. destruct (Z.leb_spec 0 (n_num n + sums_val v (n_sums n))); cbn [negb];
      [apply Z.leb_gt|apply Z.leb_le]; lia.
  - (* time *)
    split; [|split; [repeat constructor|discriminate]].
    rewrite eval_set_single. cbn [eval_cond]. unfold eval_time. rewrite !time_value_eq. cbn [tm_sums tm_dur].
    rewrite tsums_val_neg. destruct (Z.leb_spec 0 (tm_dur tm + tsums_val v (tm_sums tm))); cbn [negb];
      [apply Z.leb_gt|apply Z.leb_le]; lia.
  - (* data *)
    cbn in Hw. unfold data_wf in Hw. split; [|split].
    + unfold data_invert, eval_set. rewrite existsb_map'. unfold eval_data.
      rewrite <- (data_invert_sound (v_nxt v) (d_el d) (d_inv d) (v_start v) Hw).
      apply existsb_ext_in. intros pre Hin. unfold eval_conj. cbn. rewrite andb_true_r. reflexivity.
    + unfold data_invert. apply Forall_map. apply Forall_forall. intros pre Hin.
      constructor; [|constructor]. cbn. unfold data_wf. cbn. eapply prefixes_nonempty; eauto.
    + unfold data_invert. destruct (d_el d); [congruence|]. discriminate.
  - split; [reflexivity|split; [repeat constructor|discriminate]].
Qed.

(* ------------------------------------------------------------------ sets *)

Lemma eval_set_app v a b : eval_set v (a ++ b) = eval_set v a || eval_set v b.
Proof. apply existsb_app. Qed.

Lemma eval_set_flat_map {A} v (f : A -> cset) l : eval_set v (flat_map f l) = existsb (fun x => eval_set v (f x)) l.
Proof. induction l as [|x l IH]; simpl; [reflexivity|]. rewrite eval_set_app, IH. reflexivity. Qed.

Lemma existsb_and2 {A B} (f : A -> bool) (g : B -> bool) a b :
  existsb (fun x => existsb (fun y => f x && g y) b) a = existsb f a && existsb g b.
Proof.
  induction a as [|x a IH]; simpl; [reflexivity|]. rewrite IH.
  assert (existsb (fun y => f x && g y) b = f x && existsb g b) as ->.
  { clear. induction b as [|y b IHb]; simpl; [rewrite andb_false_r; reflexivity|]. rewrite IHb.
    destruct (f x), (g y); reflexivity. }
  destruct (f x), (existsb f a), (existsb g b); reflexivity.
Qed.

Theorem cs_and_sound v (ok : val_ok v) a b :
  a <> [] -> b <> [] -> cset_wf a -> cset_wf b ->
  eval_set v (cs_and a b) = eval_set v a && eval_set v b /\ cset_wf (cs_and a b) /\ cs_and a b <> [].
Proof.
  intros Ha Hb Wa Wb. unfold cs_and.
  destruct a as [|a0 a']; [congruence|]. destruct b as [|b0 b']; [congruence|].
  set (a := a0 :: a') in *. set (b := b0 :: b') in *.
  split; [|split].
  - rewrite eval_set_flat_map.
    transitivity (existsb (fun c1 => existsb (fun c2 => eval_conj v c1 && eval_conj v c2) b) a).
    + apply existsb_ext_in. intros c1 H1. unfold eval_set. rewrite existsb_map'.
      apply existsb_ext_in. intros c2 H2. unfold cset_wf in *. rewrite Forall_forall in Wa, Wb.
      apply (conj_and_sound v ok c1 c2 (Wa c1 H1) (Wb c2 H2)).
    + apply existsb_and2.
  - unfold cset_wf in *. rewrite Forall_forall in *. intros c Hc.
    apply in_flat_map in Hc as (c1 & H1 & Hc). apply in_map_iff in Hc as (c2 & <- & H2).
    apply (conj_and_sound v ok c1 c2 (Wa c1 H1) (Wb c2 H2)).
  - unfold a, b. cbn. discriminate.
Qed.

Lemma cs_or_sound v a b : eval_set v (cs_or a b) = eval_set v a || eval_set v b.
Proof. apply eval_set_app. Qed.

Theorem conj_invert_sound v (ok : val_ok v) c :
  conj_wf c -> eval_set v (conj_invert c) = negb (eval_conj v c) /\ cset_wf (conj_invert c) /\ conj_invert c <> [].
Proof.
  intros Hw. destruct c as [|x c]; [split; [reflexivity|split; [repeat constructor|discriminate]]|].
  unfold conj_invert. set (l := x :: c) in *. split; [|split].
  - rewrite eval_set_flat_map. unfold eval_conj.
    transitivity (existsb (fun y => negb (eval_cond v y)) l).
    + apply existsb_ext_in. intros y Hy. unfold conj_wf in Hw. rewrite Forall_forall in Hw.
      apply (cond_invert_sound v ok y (Hw y Hy)).
    + clear. induction l as [|y l IH]; [reflexivity|]. simpl. rewrite IH. destruct (eval_cond v y); simpl; auto.
  - unfold cset_wf. apply Forall_forall. intros cc Hc. apply in_flat_map in Hc as (y & Hy & Hc).
    unfold conj_wf in Hw. rewrite Forall_forall in Hw.
    destruct (cond_invert_sound v ok y (Hw y Hy)) as (_ & W & _). unfold cset_wf in W. rewrite Forall_forall in W. auto.
  - unfold l. cbn [flat_map]. inversion Hw as [|? ? Hx Hc]; subst.
    destruct (cond_invert_sound v ok x Hx) as (_ & _ & Hn). destruct (cond_invert x); [congruence|discriminate].
Qed.

Lemma cs_invert_fold v (ok : val_ok v) cs : forall acc,
  acc <> [] -> cset_wf acc -> cset_wf cs ->
  let r := fold_left (fun acc cc => cs_and acc (conj_invert cc)) cs acc in
  eval_set v r = eval_set v acc && negb (eval_set v cs) /\ cset_wf r /\ r <> [].
Proof.
  induction cs as [|c cs IH]; intros acc Hn Wa Wc; cbn [fold_left].
  - cbn. rewrite andb_true_r. auto.
  - inversion Wc as [|? ? Hc Hcs]; subst.
    destruct (conj_invert_sound v ok c Hc) as (Ei & Wi & Ni).
    destruct (cs_and_sound v ok acc (conj_invert c) Hn Ni Wa Wi) as (Ea & Wn & Nn).
    destruct (IH _ Nn Wn Hcs) as (E & W & N). split; [|auto].
    rewrite E, Ea, Ei. unfold eval_set at 4. cbn [existsb]. fold (eval_set v cs).
    destruct (eval_set v acc), (eval_conj v c), (eval_set v cs); reflexivity.
Qed.

Theorem cs_invert_sound v (ok : val_ok v) cs :
  cs <> [] -> cset_wf cs ->
  eval_set v (cs_invert cs) = negb (eval_set v cs) /\ cset_wf (cs_invert cs) /\ cs_invert cs <> [].
Proof.
  intros Hn Hw. destruct cs as [|c cs]; [congruence|]. unfold cs_invert. cbn [fold_left cs_and].
  inversion Hw as [|? ? Hc Hcs]; subst.
  destruct (conj_invert_sound v ok c Hc) as (Ei & Wi & Ni).
  destruct (cs_invert_fold v ok cs (conj_invert c) Ni Wi Hcs) as (E & W & N).
  split; [|auto]. rewrite E, Ei. change (eval_set v (c :: cs)) with (eval_conj v c || eval_set v cs).
  destruct (eval_conj v c), (eval_set v cs); reflexivity.
Qed.
