(* The assembler hypothesis [replay_ok] of ImportSnapshot.snapshot_transparency holds for the UDP assembler:
   snapshot transparency for UDP-only feeds, for every hash function and snapshot interval, without any
   assumption on the assembler.  What remains assumed is a property of the SNAPSHOT ([valid_udp]): its keep set is
   consistent with stream membership along the full run (it references whole open streams) and the packets of the
   new captures are kept. *)
From Pk Require Import Udp UdpInterleave UdpReplay Import ImportProofs ImportSnapshot.
From Coq Require Import Lia.

Definition keepr_of (s : snapshot) (r : pref) : bool :=
  (sn_ts s <=? pref_ts r) || existsb (fun x => (fst x =? fst (fst r)) && (snd x =? snd (fst r))) (sn_refs s).

Lemma keepb_keepr s p : keepb s p = keepp (keepr_of s) p.
Proof. reflexivity. Qed.

Definition valid_udp (s : snapshot) (nf : list N) (F : list packet) : Prop :=
  Forall (fun p => p_tcp p = false) F /\ tsorted 0 F /\ consistent (keepr_of s) nf [] F.

Lemma Forall_filter {A} (P : A -> Prop) (f : A -> bool) l : Forall P l -> Forall P (filter f l).
Proof. intros H. apply Forall_forall. intros x Hx. apply filter_In in Hx as [Hx _]. rewrite Forall_forall in H. auto. Qed.

Lemma loop_fac_udp hashf thr ff bts kept fed : Forall (fun p => p_tcp p = false) fed ->
  loop_fac hashf thr ff bts kept fed = map fst (fold_left sstep fed []).
Proof.
  intros Hu. unfold loop_fac.
  destruct (LI_run hashf thr bts fed _ _ Hu (LI_init hashf kept)) as (Hs & _ & Ht).
  rewrite Ht. rewrite (sim_fac _ _ _ _ Hs). destruct ff; reflexivity.
Qed.

Theorem replay_ok_udp hashf thr ff : forall s nf kept F, valid_udp s nf F ->
  map forget (filter (touchedb nf) (loop_fac hashf thr ff (Some (sn_ts s)) kept (filter (keepb s) F))) =
  map forget (filter (touchedb nf) (loop_fac hashf thr ff None [] F)).
Proof.
  intros s nf kept F (Hu & Hs & Hc).
  rewrite !loop_fac_udp by (auto using Forall_filter).
  exact (replay_slots (keepr_of s) nf F Hs Hc).
Qed.

(* C08 theorem (1), UDP: with or without the chosen snapshot, FromPcap writes the same streams *)
Theorem snapshot_transparency_udp : forall hashf thr ff (b : builder) (st : store) (nf : list N) (stack : list index) (s : snapshot) i0 rest,
  store_wf st (b_known b) ->
  new_infos st nf = i0 :: rest ->
  let nf' := map pi_file (i0 :: rest) in
  let oldest := fold_left (fun m i => N.min m (pi_min i)) (i0 :: rest) (pi_min i0) in
  best_snapshot (b_snaps b) oldest None = Some s ->
  refs_before s st ->
  valid_udp s nf' (feed (needed_pcaps b None nf' st) (flat_map (store_get st) nf')) ->
  import_view (import hashf thr ff b st nf stack) =
  import_view (import hashf thr ff (mkBuilder (b_known b) []) st nf stack).
Proof.
  intros hashf thr ff. exact (snapshot_transparency hashf thr ff valid_udp (replay_ok_udp hashf thr ff)).
Qed.

(* the hypotheses are satisfiable: the scenario of ImportSnapshot (snapshot recorded by the model itself) *)
Example valid_udp_instance : valid_udp snap0 [1] F0.
Proof.
  split; [|split].
  - vm_compute. repeat constructor.
  - vm_compute. repeat split; discriminate.
  - vm_compute. repeat split; try discriminate; try (intros; contradiction).
    all: intros x Hx; repeat (destruct Hx as [<-|Hx]; [intros; repeat constructor|]); try contradiction.
Qed.
