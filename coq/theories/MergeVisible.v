(* C07: proofs about the merge model, part 2: what AddIndex does to the streams a user sees.
   Metadata level: id, client/server address, ports, protocol, absolute first/last packet time,
   byte counts.  (Packets()/Data() of a copied stream: see MergeCopy.v.) *)
From Coq Require Import Lia ZifyBool ZifyN ZifyNat Arith.
From Pk Require Import IndexFormat IndexFormatCodec IndexFormatHosts IndexFormatWriter Merge MergeProofs.
Open Scope N_scope.

Record meta := { m_id : N; m_chost : bytes; m_shost : bytes; m_cport : N; m_sport : N; m_proto : N;
                 m_first : N; m_last : N; m_cbytes : N; m_sbytes : N }.

Definition whost (gs : list hostgroup) (g h : N) : bytes := match host_at gs g h with Some x => x | None => [] end.
Definition wmeta (w : writer) (rec : stream_rec) : meta :=
  {| m_id := st_id rec; m_chost := whost (w_groups w) (st_hg rec) (st_chost rec); m_shost := whost (w_groups w) (st_hg rec) (st_shost rec);
     m_cport := st_cport rec; m_sport := st_sport rec; m_proto := st_flags rec mod 4;
     m_first := w_ref w * NS + st_first rec; m_last := w_ref w * NS + st_last rec;
     m_cbytes := st_cbytes rec; m_sbytes := st_sbytes rec |}.
Definition rmeta (r : reader) (rec : stream_rec) : meta :=
  {| m_id := st_id rec; m_chost := client_host r rec; m_shost := server_host r rec;
     m_cport := st_cport rec; m_sport := st_sport rec; m_proto := st_flags rec mod 4;
     m_first := first_packet_time r rec; m_last := last_packet_time r rec;
     m_cbytes := st_cbytes rec; m_sbytes := st_sbytes rec |}.
Definition ometa (o : obs) : meta :=
  {| m_id := ob_id o; m_chost := ob_chost o; m_shost := ob_shost o; m_cport := ob_cport o; m_sport := ob_sport o; m_proto := ob_proto o;
     m_first := ob_first o; m_last := ob_last o; m_cbytes := ob_cbytes o; m_sbytes := ob_sbytes o |}.
Lemma ometa_observe r rec : ometa (observe r rec) = rmeta r rec.
Proof. reflexivity. Qed.

Section Cap.
  Variable gcap : N.
  Hypothesis Hcap : 0 < gcap <= 4 * P16.

  (* a stream record whose host references and times are in order, relative to a table and a reference second *)
  Definition href_ok (tabs : list (list bytes)) (rec : stream_rec) : Prop :=
    exists hosts, nth_error tabs (N.to_nat (st_hg rec)) = Some hosts /\ st_chost rec < lenN hosts /\ st_shost rec < lenN hosts.
  Definition time_ok (ref : N) (rec : stream_rec) : Prop := ref * NS + st_last rec < P64 /\ st_first rec <= st_last rec.

  Record wgood (w : writer) : Prop := {
    wg_groups : Forall (group_ok gcap) (w_groups w);
    wg_sizes : Forall size_ok (w_groups w);
    wg_ids : NoDup (map st_id (w_streams w));
    wg_href : Forall (href_ok (map hg_hosts (w_groups w))) (w_streams w);
    wg_time : Forall (time_ok (w_ref w)) (w_streams w) }.

  Record rgood (r : reader) : Prop := {
    rg_groups : Forall (rgroup_ok gcap) (r_groups r);
    rg_ids : NoDup (map st_id (f_streams (r_file r)));
    rg_byid : forall rec, In rec (f_streams (r_file r)) -> exists k, stream_by_id r (st_id rec) = Some (rec, k);
    rg_none : forall id, ~ In id (map st_id (f_streams (r_file r))) -> stream_by_id r id = None;
    rg_href : Forall (href_ok (map snd (r_groups r))) (f_streams (r_file r));
    rg_time : Forall (time_ok (f_ref (r_file r))) (f_streams (r_file r)) }.

  Lemma new_writer_good : wgood new_writer.
  Proof. constructor; cbn; constructor. Qed.

  (* ---------------------------------------------------------------- *)
  (* Finalize + NewReader of a good writer is a good reader with the same metadata *)
  (* ---------------------------------------------------------------- *)
  Lemma reader_of_good_writer w r :
    wgood w -> total_hosts 4 (w_groups w) < P32 /\ total_hosts 16 (w_groups w) < P32 ->
    new_reader (finalize w) = Some r ->
    rgood r /\ f_streams (r_file r) = w_streams w /\ (forall rec, rmeta r rec = wmeta w rec).
  Proof.
    intros [G1 G2 G3 G4 G5] Ht Hr.
    assert (Hc4 : gcap <= 4 * P16) by lia.
    pose proof (rw_streams w r Hr) as Hs. pose proof (rw_ref w r Hr) as Href.
    pose proof (rw_groups gcap w r Hc4 G1 G2 Ht Hr) as Hg.
    assert (Hmeta : forall rec, rmeta r rec = wmeta w rec).
    { intros rec. unfold rmeta, wmeta, client_host, server_host, first_packet_time, last_packet_time, whost, host_of, host_at.
      rewrite Href, Hg, !nthN_nth_error, nth_error_map.
      destruct (nth_error (w_groups w) (N.to_nat (st_hg rec))) as [g|]; cbn [option_map]; [|reflexivity].
      rewrite !nthN_nth_error. reflexivity. }
    split; [|split; assumption].
    constructor.
    - rewrite Hg. apply Forall_map. apply Forall_forall. intros g Hin. rewrite Forall_forall in G1, G2.
      split; cbn [fst snd]; [|apply (G2 g Hin)]. destruct g; apply (G1 _ Hin).
    - now rewrite Hs.
    - rewrite Hs. intros rec Hin. apply In_nth_error in Hin. destruct Hin as [k Hk]. exists (N.of_nat k).
      apply (rw_stream_by_id gcap w r Hc4 Ht Hr); assumption.
    - rewrite Hs. intros id Hn. now apply (rw_stream_by_id_none w r Hr).
    - rewrite Hs, Hg, map_map. cbn [snd]. exact G4.
    - rewrite Hs, Href. exact G5.
  Qed.

  (* ---------------------------------------------------------------- *)
  (* the stream loop of AddIndex                                        *)
  (* ---------------------------------------------------------------- *)
  Definition remap_host (hmap : list N) (h : N) : N := match nthN hmap h with Some i => i | None => 0 end.
  Definition copied (gmap : list (N * list N)) (s' s : stream_rec) : Prop :=
    st_id s' = st_id s /\ st_first s' = st_first s /\ st_last s' = st_last s /\ st_cbytes s' = st_cbytes s /\ st_sbytes s' = st_sbytes s /\
    st_flags s' = st_flags s /\ st_cport s' = st_cport s /\ st_sport s' = st_sport s /\
    exists g hmap, nthN gmap (st_hg s) = Some (g, hmap) /\ st_hg s' = g /\
                   st_chost s' = remap_host hmap (st_chost s) /\ st_shost s' = remap_host hmap (st_shost s).

  Definition fresh (existing : list stream_rec) (s : stream_rec) : bool := negb (has_id (st_id s) existing).

  Lemma copy_streams_spec r imap gmap existing : forall ss pkts data news minf pkts' data' news' minf',
      copy_streams r imap gmap existing ss pkts data news minf = Some (pkts', data', news', minf') ->
      exists added, news' = news ++ added /\ Forall2 (copied gmap) added (filter (fresh existing) ss) /\
                    minf' <= minf /\ (forall s', In s' added -> minf' <= st_first s').
  Proof.
    induction ss as [|s rest IH]; intros pkts data news minf pkts' data' news' minf' H; cbn [copy_streams] in H.
    - inversion H; subst. exists []. rewrite app_nil_r. repeat split; [constructor|lia|intros ? []].
    - cbn [filter]. unfold fresh at 1.
      destruct (has_id (st_id s) existing) eqn:Eh; cbn [negb].
      + now apply IH in H.
      + destruct (nthN gmap (st_hg s)) as [[g hmap]|] eqn:Eg; [|discriminate].
        destruct (copy_packets imap _) as [ps|]; [|discriminate].
        destruct (copy_data _ s) as [d|]; [|discriminate].
        apply IH in H. destruct H as (added & Hn & HF & Hm & Hall).
        eexists (_ :: added). split; [rewrite Hn, <- app_assoc; reflexivity|]. split; [|split].
        * constructor; [|exact HF]. unfold copied. cbn [st_id st_first st_last st_cbytes st_sbytes st_flags st_cport st_sport st_hg st_chost st_shost].
          repeat (split; [reflexivity|]). exists g, hmap. auto.
        * lia.
        * intros s' [<-|Hin]; [cbn [st_first]; lia|]. apply Hall in Hin. lia.
  Qed.

  Lemma has_id_in id ss : has_id id ss = true <-> In id (map st_id ss).
  Proof.
    unfold has_id. rewrite existsb_exists. split.
    - intros (s & Hin & He). apply N.eqb_eq in He. subst. now apply in_map.
    - intros Hin. apply in_map_iff in Hin. destruct Hin as (s & He & Hin). exists s. split; [assumption|]. now apply N.eqb_eq.
  Qed.

  (* ---------------------------------------------------------------- *)
  (* re-basing a list of records                                        *)
  (* ---------------------------------------------------------------- *)
  Definition same_but_time (rec' rec : stream_rec) : Prop :=
    st_id rec' = st_id rec /\ st_hg rec' = st_hg rec /\ st_chost rec' = st_chost rec /\ st_shost rec' = st_shost rec /\
    st_cport rec' = st_cport rec /\ st_sport rec' = st_sport rec /\ st_flags rec' = st_flags rec /\
    st_cbytes rec' = st_cbytes rec /\ st_sbytes rec' = st_sbytes rec.
  Definition shift (diff : N) (ss : list stream_rec) : list stream_rec := if diff =? 0 then ss else map (rebase diff) ss.
  Definition shifted (ref nref : N) (rec' rec : stream_rec) : Prop :=
    same_but_time rec' rec /\ nref * NS + st_first rec' = ref * NS + st_first rec /\ nref * NS + st_last rec' = ref * NS + st_last rec.

  Lemma shift_spec ref nref ss :
    Forall (time_ok ref) ss -> (forall rec, In rec ss -> nref * NS <= ref * NS + st_first rec) ->
    Forall2 (shifted ref nref) (shift (u64 (u64 (ref + P64 - nref) * NS)) ss) ss.
  Proof.
    intros Ht Hle. unfold shift.
    assert (Hone : forall rec, In rec ss -> shifted ref nref (rebase (u64 (u64 (ref + P64 - nref) * NS)) rec) rec).
    { intros rec Hin. rewrite Forall_forall in Ht. destruct (Ht _ Hin) as [T1 T2]. specialize (Hle _ Hin).
      split; [repeat split|]. cbn [rebase st_first st_last]. split; apply rebase_abs; lia. }
    destruct (N.eqb_spec (u64 (u64 (ref + P64 - nref) * NS)) 0) as [E|_].
    - rewrite E in Hone. clear Hle.
      induction ss as [|rec r IH]; constructor.
      + inversion Ht as [|? ? [T1 T2] Hr]; subst.
        destruct (Hone rec (or_introl eq_refl)) as (_ & H1 & H2). cbn [rebase st_first st_last] in H1, H2.
        rewrite !N.add_0_r in *. rewrite !u64_small in * by lia. split; [repeat split|]. split; assumption.
      + apply IH; [now inversion Ht|]. intros; apply Hone; now right.
    - clear Ht Hle. induction ss as [|rec r IH]; cbn [map]; constructor.
      + apply Hone. now left.
      + apply IH. intros; apply Hone; now right.
  Qed.

  Lemma NoDup_app_intro {A} (a b : list A) : NoDup a -> NoDup b -> (forall x, In x a -> ~ In x b) -> NoDup (a ++ b).
  Proof.
    induction a as [|x r IH]; intros Ha Hb Hd; [assumption|]. inversion Ha; subst. cbn [app]. constructor.
    - intros Hin. apply in_app_or in Hin. destruct Hin as [Hin|Hin]; [contradiction|]. apply (Hd x); [now left|assumption].
    - apply IH; auto. intros y Hy. apply Hd. now right.
  Qed.
  Lemma NoDup_filter_map {A B} (f : A -> B) (p : A -> bool) l : NoDup (map f l) -> NoDup (map f (filter p l)).
  Proof.
    induction l as [|x r IH]; intros H; [constructor|]. cbn [map filter] in *. inversion H; subst.
    destruct (p x); [|now apply IH]. cbn [map]. constructor; [|now apply IH].
    intros Hin. apply H2. apply in_map_iff in Hin. destruct Hin as (y & Hy & Hin). apply filter_In in Hin.
    rewrite <- Hy. apply in_map. tauto.
  Qed.
  Lemma Forall2_map_eq {A B C} (R : A -> B -> Prop) (f : A -> C) (g : B -> C) l1 l2 :
    Forall2 R l1 l2 -> (forall x y, R x y -> f x = g y) -> map f l1 = map g l2.
  Proof. induction 1; intros H1; cbn [map]; [reflexivity|]. f_equal; auto. Qed.
  Lemma Forall2_in_r {A B} (R : A -> B -> Prop) l1 l2 : Forall2 R l1 l2 -> forall y, In y l2 -> exists x, In x l1 /\ R x y.
  Proof.
    induction 1 as [|x y l1 l2 HR HF IH]; intros y0 [].
    - subst. exists x. split; [now left|assumption].
    - destruct (IH _ H) as (x0 & Hx & Hr). exists x0. split; [now right|assumption].
  Qed.
  Lemma Forall2_in_l {A B} (R : A -> B -> Prop) l1 l2 : Forall2 R l1 l2 -> forall x, In x l1 -> exists y, In y l2 /\ R x y.
  Proof.
    induction 1 as [|x y l1 l2 HR HF IH]; intros x0 [].
    - subst. exists y. split; [now left|assumption].
    - destruct (IH _ H) as (y0 & Hy & Hr). exists y0. split; [now right|assumption].
  Qed.

  (* ---------------------------------------------------------------- *)
  (* a copied record names the same hosts in the merged tables          *)
  (* ---------------------------------------------------------------- *)
  Lemma nth_lt_some {A} (l : list A) (i : N) : i < lenN l -> exists x, nth_error l (N.to_nat i) = Some x.
  Proof.
    intros H. destruct (nth_error l (N.to_nat i)) eqn:E; [eauto|]. apply nth_error_None in E. unfold lenN in H. lia.
  Qed.

  Lemma copied_hosts r groups gmap s' s :
    (forall j sg, nth_error (r_groups r) j = Some sg ->
       exists g hmap, nth_error gmap j = Some (g, hmap) /\
         forall h x, nth_error (snd sg) h = Some x -> exists i, nth_error hmap h = Some i /\ host_at groups g i = Some x) ->
    href_ok (map snd (r_groups r)) s -> copied gmap s' s ->
    whost groups (st_hg s') (st_chost s') = client_host r s /\ whost groups (st_hg s') (st_shost s') = server_host r s /\
    href_ok (map hg_hosts groups) s'.
  Proof.
    intros Hmap (hosts & Hn & Hc & Hs) (_ & _ & _ & _ & _ & _ & _ & _ & g & hmap & Hg & E1 & E2 & E3).
    rewrite nth_error_map in Hn. destruct (nth_error (r_groups r) (N.to_nat (st_hg s))) as [[size hs]|] eqn:Er; [|discriminate].
    cbn [option_map snd] in Hn. inversion Hn; subst hs; clear Hn.
    destruct (Hmap _ _ Er) as (g0 & hmap0 & Hg0 & Hh). rewrite nthN_nth_error, Hg0 in Hg. inversion Hg; subst g0 hmap0; clear Hg.
    cbn [snd] in Hh.
    destruct (nth_lt_some _ _ Hc) as (xc & Hxc). destruct (nth_lt_some _ _ Hs) as (xs & Hxs).
    destruct (Hh _ _ Hxc) as (ic & Hic & Hac). destruct (Hh _ _ Hxs) as (is_ & His & Has).
    assert (Rc : remap_host hmap (st_chost s) = ic) by (unfold remap_host; now rewrite nthN_nth_error, Hic).
    assert (Rs : remap_host hmap (st_shost s) = is_) by (unfold remap_host; now rewrite nthN_nth_error, His).
    rewrite E1, E2, E3, Rc, Rs. unfold whost. rewrite Hac, Has.
    unfold client_host, server_host, host_of. rewrite !nthN_nth_error, Er, !nthN_nth_error, Hxc, Hxs.
    split; [reflexivity|]. split; [reflexivity|].
    unfold host_at in Hac, Has. destruct (nth_error groups (N.to_nat g)) as [grp|] eqn:Eg; [|discriminate].
    exists (hg_hosts grp). rewrite E1, E2, E3, Rc, Rs, nth_error_map, Eg. split; [reflexivity|].
    split; unfold lenN.
    - assert (N.to_nat ic < length (hg_hosts grp))%nat by (apply nth_error_Some; congruence). lia.
    - assert (N.to_nat is_ < length (hg_hosts grp))%nat by (apply nth_error_Some; congruence). lia.
  Qed.

  (* an old record keeps its hosts when the tables only grow *)
  Lemma extended_hosts gs gs' rec rec' :
    groups_extend gs gs' -> href_ok (map hg_hosts gs) rec ->
    st_hg rec' = st_hg rec -> st_chost rec' = st_chost rec -> st_shost rec' = st_shost rec ->
    whost gs' (st_hg rec') (st_chost rec') = whost gs (st_hg rec) (st_chost rec) /\
    whost gs' (st_hg rec') (st_shost rec') = whost gs (st_hg rec) (st_shost rec) /\
    href_ok (map hg_hosts gs') rec'.
  Proof.
    intros Hext (hosts & Hn & Hc & Hs) E1 E2 E3. rewrite E1, E2, E3.
    rewrite nth_error_map in Hn. destruct (nth_error gs (N.to_nat (st_hg rec))) as [g|] eqn:Eg; [|discriminate].
    cbn [option_map] in Hn. inversion Hn; subst hosts; clear Hn.
    destruct (nth_lt_some _ _ Hc) as (xc & Hxc). destruct (nth_lt_some _ _ Hs) as (xs & Hxs).
    assert (Ac : host_at gs (st_hg rec) (st_chost rec) = Some xc) by (unfold host_at; now rewrite Eg).
    assert (As : host_at gs (st_hg rec) (st_shost rec) = Some xs) by (unfold host_at; now rewrite Eg).
    unfold whost. rewrite Ac, As, (host_at_extend _ _ _ _ _ Hext Ac), (host_at_extend _ _ _ _ _ Hext As).
    split; [reflexivity|]. split; [reflexivity|].
    destruct (Hext _ _ Eg) as (g' & Eg' & _ & ext & Hx). exists (hg_hosts g'). rewrite E1, E2, E3, nth_error_map, Eg'. split; [reflexivity|].
    rewrite Hx, lenN_app. lia.
  Qed.

  (* ---------------------------------------------------------------- *)
  (* AddIndex                                                           *)
  (* ---------------------------------------------------------------- *)
  Lemma fresh_not_in existing s : fresh existing s = true <-> ~ In (st_id s) (map st_id existing).
  Proof.
    unfold fresh. rewrite <- has_id_in. destruct (has_id (st_id s) existing); cbn [negb]; split; intros H; try discriminate; auto.
    all: try (exfalso; now apply H).
  Qed.

  Lemma add_index_good w r w' :
    wgood w -> rgood r -> add_index gcap w r = Some w' ->
    wgood w' /\
    (forall rec, In rec (w_streams w) -> exists rec', In rec' (w_streams w') /\ wmeta w' rec' = wmeta w rec) /\
    (forall s, In s (f_streams (r_file r)) -> ~ In (st_id s) (map st_id (w_streams w)) ->
               exists rec', In rec' (w_streams w') /\ wmeta w' rec' = rmeta r s) /\
    (forall id, In id (map st_id (w_streams w')) <-> In id (map st_id (w_streams w)) \/ In id (map st_id (f_streams (r_file r)))).
  Proof.
    intros Gw Gr H. unfold add_index in H.
    destruct (merge_imports (w_imports w) (r_imports r)) as [imps imap].
    destruct (merge_groups gcap (w_groups w) (r_groups r)) as [groups gmap] eqn:Emg.
    destruct (copy_streams r imap gmap (w_streams w) (f_streams (r_file r)) (w_packets w) (w_data w) [] (P64 - 1))
      as [[[[pkts data] news] minf]|] eqn:Ecs; [|discriminate].
    destruct (merge_groups_ok gcap (proj1 Hcap) _ _ _ _ (wg_groups _ Gw) (wg_sizes _ Gw) (rg_groups _ Gr) Emg) as (Hg' & Hs' & Hext & Hmap).
    destruct (copy_streams_spec _ _ _ _ _ _ _ _ _ _ _ _ _ Ecs) as (added & Hn & HF & Hm & Hall). cbn [app] in Hn. subst added.
    set (fs := filter (fresh (w_streams w)) (f_streams (r_file r))) in *.
    assert (Hfs_in : forall s, In s (f_streams (r_file r)) -> ~ In (st_id s) (map st_id (w_streams w)) -> In s fs).
    { intros s Hin Hnot. apply filter_In. split; [assumption|]. now apply fresh_not_in. }
    destruct news as [|n0 nr] eqn:En.
    - (* nothing new: undo *)
      inversion H; subst w'. assert (Hnil : fs = []) by (inversion HF; reflexivity).
      split; [assumption|]. split; [intros rec Hin; exists rec; auto|]. split.
      + intros s Hin Hnot. exfalso. specialize (Hfs_in s Hin Hnot). rewrite Hnil in Hfs_in. contradiction.
      + intros id. split; [tauto|]. intros [Hi|Hi]; [assumption|].
        destruct (has_id id (w_streams w)) eqn:E; [now apply has_id_in|]. exfalso.
        apply in_map_iff in Hi. destruct Hi as (s & Hid & Hin). subst id.
        assert (Hnot : ~ In (st_id s) (map st_id (w_streams w))) by (rewrite <- has_id_in; congruence).
        specialize (Hfs_in s Hin Hnot). rewrite Hnil in Hfs_in. contradiction.
    - rewrite <- En in *. assert (Hne : news <> []) by (rewrite En; discriminate). clear En n0 nr.
      set (rref := f_ref (r_file r)) in *. set (nref0 := rref + minf / NS) in *.
      set (nref := if negb (lenN (w_streams w) =? 0) && (w_ref w <? nref0) then w_ref w else nref0) in *.
      fold (shift (u64 (u64 (w_ref w + P64 - nref) * NS)) (w_streams w)) in H.
      fold (shift (u64 (u64 (rref + P64 - nref) * NS)) news) in H.
      inversion H; subst w'; clear H.
      (* the sources of the new records *)
      assert (Hfs_src : forall s, In s fs -> In s (f_streams (r_file r)) /\ ~ In (st_id s) (map st_id (w_streams w))).
      { intros s Hin. apply filter_In in Hin. destruct Hin as [Hin Hf]. split; [assumption|]. now apply fresh_not_in. }
      pose proof (rg_time _ Gr) as Hrt. pose proof (rg_href _ Gr) as Hrh. rewrite Forall_forall in Hrt, Hrh.
      assert (Hnews_time : Forall (time_ok rref) news).
      { apply Forall_forall. intros s' Hin. destruct (Forall2_in_l _ _ _ HF _ Hin) as (s & Hs & Hc).
        destruct Hc as (_ & E1 & E2 & _). unfold time_ok. rewrite E1, E2. apply Hrt. now apply Hfs_src. }
      assert (Hnref0 : nref0 * NS <= rref * NS + minf).
      { unfold nref0. pose proof (N.mul_div_le minf NS ltac:(unfold NS; lia)). lia. }
      assert (Hnref_le0 : nref <= nref0).
      { unfold nref. destruct (negb (lenN (w_streams w) =? 0) && (w_ref w <? nref0)) eqn:E; [|lia].
        apply andb_true_iff in E. destruct E as [_ E]. apply N.ltb_lt in E. lia. }
      assert (Hnew_le : forall rec, In rec news -> nref * NS <= rref * NS + st_first rec).
      { intros rec Hin. specialize (Hall _ Hin). nia. }
      assert (Hold_le : forall rec, In rec (w_streams w) -> nref * NS <= w_ref w * NS + st_first rec).
      { intros rec Hin. assert (nref <= w_ref w); [|nia]. unfold nref.
        destruct (w_streams w) as [|x l]; [destruct Hin|]. rewrite lenN_cons.
        destruct (N.eqb_spec (1 + lenN l) 0); [lia|]. cbn [negb andb].
        destruct (N.ltb_spec (w_ref w) nref0); lia. }
      pose proof (shift_spec (w_ref w) nref (w_streams w) (wg_time _ Gw) Hold_le) as Hso.
      pose proof (shift_spec rref nref news Hnews_time Hnew_le) as Hsn.
      set (olds' := shift (u64 (u64 (w_ref w + P64 - nref) * NS)) (w_streams w)) in *.
      set (news' := shift (u64 (u64 (rref + P64 - nref) * NS)) news) in *.
      pose proof (wg_href _ Gw) as Hwh. pose proof (wg_time _ Gw) as Hwt. rewrite Forall_forall in Hwh, Hwt.
      (* metadata of old and new records in the new writer *)
      assert (Old : forall rec' rec, In rec (w_streams w) -> shifted (w_ref w) nref rec' rec ->
                 wmeta {| w_ref := nref; w_groups := groups; w_imports := imps; w_packets := pkts; w_streams := olds' ++ news'; w_data := data |} rec' = wmeta w rec
                 /\ href_ok (map hg_hosts groups) rec' /\ time_ok nref rec').
      { intros rec' rec Hin ((E1 & E2 & E3 & E4 & E5 & E6 & E7 & E8 & E9) & T1 & T2).
        destruct (extended_hosts _ _ rec rec' Hext (Hwh _ Hin) E2 E3 E4) as (A1 & A2 & A3).
        destruct (Hwt _ Hin) as [B1 B2].
        split; [|split; [assumption|unfold time_ok; lia]].
        unfold wmeta. cbn [w_ref w_groups]. rewrite A1, A2, E1, E5, E6, E7, E8, E9, T1, T2. reflexivity. }
      assert (New : forall rec' s' s, In s fs -> copied gmap s' s -> shifted rref nref rec' s' ->
                 wmeta {| w_ref := nref; w_groups := groups; w_imports := imps; w_packets := pkts; w_streams := olds' ++ news'; w_data := data |} rec' = rmeta r s
                 /\ href_ok (map hg_hosts groups) rec' /\ time_ok nref rec').
      { intros rec' s' s Hin Hc ((E1 & E2 & E3 & E4 & E5 & E6 & E7 & E8 & E9) & T1 & T2).
        destruct (Hfs_src _ Hin) as [Hin' _].
        destruct (copied_hosts r groups gmap s' s Hmap (Hrh _ Hin') Hc) as (A1 & A2 & (hosts & A3 & A4 & A5)).
        destruct Hc as (C1 & C2 & C3 & C4 & C5 & C6 & C7 & C8 & _).
        destruct (Hrt _ Hin') as [B1 B2]. fold rref in B1.
        split; [|split].
        - unfold wmeta, rmeta, first_packet_time, last_packet_time. cbn [w_ref w_groups]. fold rref.
          rewrite E2, E3, E4, A1, A2, E1, E5, E6, E7, E8, E9, T1, T2, C1, C2, C3, C4, C5, C6, C7, C8. reflexivity.
        - exists hosts. rewrite E2, E3, E4. auto.
        - unfold time_ok. rewrite C2, C3 in *. lia. }
      assert (Hids_old : map st_id olds' = map st_id (w_streams w)).
      { apply (Forall2_map_eq _ _ _ _ _ Hso). intros x y Hxy. apply Hxy. }
      assert (Hids_new : map st_id news' = map st_id fs).
      { transitivity (map st_id news).
        - apply (Forall2_map_eq _ _ _ _ _ Hsn). intros x y Hxy. apply Hxy.
        - apply (Forall2_map_eq _ _ _ _ _ HF). intros x y Hxy. apply Hxy. }
      split; [|split; [|split]].
      + constructor; cbn [w_groups w_streams w_ref]; try assumption.
        * rewrite map_app, Hids_old, Hids_new. apply NoDup_app_intro.
          -- apply (wg_ids _ Gw).
          -- apply NoDup_filter_map. apply (rg_ids _ Gr).
          -- intros id Hi Hj. apply in_map_iff in Hj. destruct Hj as (s & <- & Hin). now apply (Hfs_src _ Hin).
        * apply Forall_app. split; apply Forall_forall; intros rec' Hin.
          -- destruct (Forall2_in_l _ _ _ Hso _ Hin) as (rec & Hr & Hsh). now apply (Old rec' rec Hr Hsh).
          -- destruct (Forall2_in_l _ _ _ Hsn _ Hin) as (s' & Hs & Hsh). destruct (Forall2_in_l _ _ _ HF _ Hs) as (s & Hs0 & Hc).
             now apply (New rec' s' s Hs0 Hc Hsh).
        * apply Forall_app. split; apply Forall_forall; intros rec' Hin.
          -- destruct (Forall2_in_l _ _ _ Hso _ Hin) as (rec & Hr & Hsh). now apply (Old rec' rec Hr Hsh).
          -- destruct (Forall2_in_l _ _ _ Hsn _ Hin) as (s' & Hs & Hsh). destruct (Forall2_in_l _ _ _ HF _ Hs) as (s & Hs0 & Hc).
             now apply (New rec' s' s Hs0 Hc Hsh).
      + intros rec Hin. destruct (Forall2_in_r _ _ _ Hso _ Hin) as (rec' & Hr & Hsh). exists rec'. cbn [w_streams].
        split; [apply in_or_app; now left|]. now apply (Old rec' rec Hin Hsh).
      + intros s Hin Hnot. specialize (Hfs_in s Hin Hnot).
        destruct (Forall2_in_r _ _ _ HF _ Hfs_in) as (s' & Hs & Hc). destruct (Forall2_in_r _ _ _ Hsn _ Hs) as (rec' & Hr & Hsh).
        exists rec'. cbn [w_streams]. split; [apply in_or_app; now right|]. now apply (New rec' s' s Hfs_in Hc Hsh).
      + intros id. cbn [w_streams]. rewrite map_app, in_app_iff, Hids_old, Hids_new. split.
        * intros [Hi|Hi]; [now left|]. right. apply in_map_iff in Hi. destruct Hi as (s & <- & Hin). apply in_map. now apply Hfs_src.
        * intros [Hi|Hi]; [now left|].
          destruct (has_id id (w_streams w)) eqn:E; [left; now apply has_id_in|]. right.
          apply in_map_iff in Hi. destruct Hi as (s & <- & Hin). apply in_map. apply Hfs_in; [assumption|].
          rewrite <- has_id_in. congruence.
  Qed.

  (* ---------------------------------------------------------------- *)
  (* Merge: newest first into one writer                                *)
  (* ---------------------------------------------------------------- *)
  (* which file provides an id, files listed newest first *)
  Fixpoint newest (rs : list reader) (id : N) : option (reader * stream_rec) :=
    match rs with
    | [] => None
    | r :: rest => match find (fun s => st_id s =? id) (f_streams (r_file r)) with
                   | Some s => Some (r, s)
                   | None => newest rest id
                   end
    end.
  Lemma newest_app a b id : newest (a ++ b) id = match newest a id with Some x => Some x | None => newest b id end.
  Proof. induction a as [|r rest IH]; cbn [newest app]; [reflexivity|]. now destruct (find _ _). Qed.

  Definition minv (w : writer) (Rs : list reader) : Prop :=
    wgood w /\
    forall id, match newest Rs id with
               | Some (r, s) => exists rec, In rec (w_streams w) /\ st_id rec = id /\ wmeta w rec = rmeta r s
               | None => ~ In id (map st_id (w_streams w))
               end.

  Lemma minv_new : minv new_writer [].
  Proof. split; [apply new_writer_good|]. intros id. cbn. tauto. Qed.

  Lemma minv_step w Rs r w' : minv w Rs -> rgood r -> add_index gcap w r = Some w' -> minv w' (Rs ++ [r]).
  Proof.
    intros [Gw Hv] Gr H. destruct (add_index_good w r w' Gw Gr H) as (Gw' & Hold & Hnew & Hids).
    split; [assumption|]. intros id. rewrite newest_app. specialize (Hv id).
    destruct (newest Rs id) as [[r0 s0]|].
    - destruct Hv as (rec & Hin & Hid & Hm). destruct (Hold _ Hin) as (rec' & Hin' & Hm').
      exists rec'. split; [assumption|]. split; [|congruence].
      assert (E : m_id (wmeta w' rec') = m_id (wmeta w rec)) by now rewrite Hm'. cbn [wmeta m_id] in E. congruence.
    - cbn [newest]. destruct (find (fun s => st_id s =? id) (f_streams (r_file r))) as [s|] eqn:Ef.
      + apply find_some in Ef. destruct Ef as [Hin Hid]. apply N.eqb_eq in Hid. subst id.
        destruct (Hnew _ Hin Hv) as (rec' & Hin' & Hm'). exists rec'. split; [assumption|]. split; [|assumption].
        assert (E : m_id (wmeta w' rec') = m_id (rmeta r s)) by now rewrite Hm'. exact E.
      + intros Hi. apply Hids in Hi. destruct Hi as [Hi|Hi]; [contradiction|].
        apply in_map_iff in Hi. destruct Hi as (s & Hid & Hin). pose proof (find_none _ _ Ef _ Hin) as Hf. cbn in Hf.
        apply N.eqb_neq in Hf. contradiction.
  Qed.

  Lemma minv_fold : forall Rs2 w Rs1 w', minv w Rs1 -> Forall rgood Rs2 -> add_indexes gcap w Rs2 = Some w' -> minv w' (Rs1 ++ Rs2).
  Proof.
    induction Rs2 as [|r rest IH]; intros w Rs1 w' Hm Hg H; cbn [add_indexes] in H.
    - inversion H; subst. now rewrite app_nil_r.
    - destruct (add_index gcap w r) as [w1|] eqn:E; [|discriminate]. inversion Hg; subst.
      replace (Rs1 ++ r :: rest) with ((Rs1 ++ [r]) ++ rest) by now rewrite <- app_assoc.
      eapply IH; eauto. eapply minv_step; eauto.
  Qed.

  (* what a stack of good index files shows (oldest first) is what its newest provider shows *)
  Lemma visible_app a b id : visible (a ++ b) id = match visible b id with Some o => Some o | None => visible a id end.
  Proof.
    induction a as [|r rest IH]; cbn [visible app].
    - now destruct (visible b id).
    - rewrite IH. now destruct (visible b id).
  Qed.
  Lemma visible_newest rs id : Forall rgood rs ->
    visible rs id = match newest (rev rs) id with Some (r, s) => Some (observe r s) | None => None end.
  Proof.
    induction 1 as [|r rest Hr Hrest IH]; [reflexivity|].
    cbn [visible rev]. rewrite newest_app, IH. destruct (newest (rev rest) id) as [[r0 s0]|]; [reflexivity|].
    cbn [newest]. destruct (find (fun s => st_id s =? id) (f_streams (r_file r))) as [s|] eqn:Ef.
    - apply find_some in Ef. destruct Ef as [Hin Hid]. apply N.eqb_eq in Hid. subst id.
      destruct (rg_byid _ Hr _ Hin) as (k & ->). reflexivity.
    - rewrite (rg_none _ Hr); [reflexivity|]. intros Hi. apply in_map_iff in Hi. destruct Hi as (s & Hid & Hin).
      pose proof (find_none _ _ Ef _ Hin) as Hf. cbn in Hf. apply N.eqb_neq in Hf. contradiction.
  Qed.

  (* Merge of good files: a good file that shows, for every id, the metadata of the newest version *)
  Theorem merge_visible_meta rs w m :
    Forall rgood rs -> merge_writer gcap rs = Some w ->
    total_hosts 4 (w_groups w) < P32 /\ total_hosts 16 (w_groups w) < P32 ->
    new_reader (finalize w) = Some m ->
    rgood m /\ forall id, option_map ometa (visible [m] id) = option_map ometa (visible rs id).
  Proof.
    intros Hg Hw Ht Hm. unfold merge_writer in Hw.
    assert (Hgr : Forall rgood (rev rs)) by (apply Forall_rev; assumption).
    destruct (minv_fold _ _ [] _ minv_new Hgr Hw) as [Gw Hv]. cbn [app] in Hv.
    destruct (reader_of_good_writer w m Gw Ht Hm) as (Gm & Hs & Hmeta).
    split; [assumption|]. intros id. rewrite (visible_newest rs id Hg). specialize (Hv id).
    cbn [visible].
    destruct (newest (rev rs) id) as [[r s]|].
    - destruct Hv as (rec & Hin & Hid & Hmr). rewrite <- Hs in Hin. destruct (rg_byid _ Gm _ Hin) as (k & Hk).
      rewrite Hid in Hk. rewrite Hk. cbn [option_map]. now rewrite !ometa_observe, Hmeta, Hmr.
    - rewrite (rg_none _ Gm); [reflexivity|]. now rewrite Hs.
  Qed.

  (* the property: replacing a suffix of the stack by its merge changes nothing that is visible (metadata level) *)
  Corollary merge_invisible_meta pre rs w m :
    Forall rgood rs -> merge_writer gcap rs = Some w ->
    total_hosts 4 (w_groups w) < P32 /\ total_hosts 16 (w_groups w) < P32 ->
    new_reader (finalize w) = Some m ->
    forall id, option_map ometa (visible (pre ++ [m]) id) = option_map ometa (visible (pre ++ rs) id).
  Proof.
    intros Hg Hw Ht Hm id. destruct (merge_visible_meta rs w m Hg Hw Ht Hm) as [_ Hv]. specialize (Hv id).
    rewrite !visible_app. destruct (visible [m] id), (visible rs id); cbn [option_map] in *; try discriminate; auto.
  Qed.

  (* files written by AddStream calls are good: the base case of "closed under repetition" *)
  Lemma written_reader_good L w r :
    16 < gcap -> Forall (fun ids => wf_meta (snd ids)) L -> NoDup (ids_of L) ->
    add_streams gcap new_writer L = Some w ->
    total_hosts 4 (w_groups w) < P32 /\ total_hosts 16 (w_groups w) < P32 ->
    new_reader (finalize w) = Some r -> rgood r.
  Proof.
    intros Hc Hwf Hnd Hadd Ht Hr.
    pose proof (add_streams_winv gcap ltac:(lia) L new_writer [] w (winv_new gcap) Hwf Hadd) as (HF & Hok & Hsz & _). cbn [app] in HF.
    assert (Gw : wgood w).
    { constructor; try assumption.
      - now rewrite (stored_ids _ _ _ _ HF).
      - apply Forall_forall. intros rec Hin. destruct (Forall2_in_l _ _ _ HF _ Hin) as ([id s] & _ & St). cbn [fst snd] in St.
        pose proof (sd_chost _ _ _ _ _ St) as Hc1. pose proof (sd_shost _ _ _ _ _ St) as Hs1. unfold host_at in Hc1, Hs1.
        destruct (nth_error (w_groups w) (N.to_nat (st_hg rec))) as [g|] eqn:Eg; [|discriminate].
        exists (hg_hosts g). rewrite nth_error_map, Eg. split; [reflexivity|]. unfold lenN.
        assert (N.to_nat (st_chost rec) < length (hg_hosts g))%nat by (apply nth_error_Some; congruence).
        assert (N.to_nat (st_shost rec) < length (hg_hosts g))%nat by (apply nth_error_Some; congruence). lia.
      - apply Forall_forall. intros rec Hin. destruct (Forall2_in_l _ _ _ HF _ Hin) as ([id s] & _ & St). cbn [fst snd] in St.
        pose proof (sd_first _ _ _ _ _ St). pose proof (sd_last _ _ _ _ _ St). destruct (sd_wf _ _ _ _ _ St) as (_ & ? & ?).
        unfold time_ok. lia. }
    now destruct (reader_of_good_writer w r Gw Ht Hr).
  Qed.
End Cap.
