(* C01, theorem 1, second half: StreamByFirstPacketSource.
   The lookup section is the stream numbers sorted by (capture name, full packet index) of the first packet
   record; the reader runs sort.Search with the predicate "target <= key" and compares the hit. *)
From Coq Require Import Lia ZifyBool ZifyN ZifyNat Arith Sorting.Sorted Sorting.Permutation Sorting.Mergesort.
From Pk Require Import IndexFormat IndexFormatCodec IndexFormatHosts IndexFormatWriter IndexFormatData IndexFormatPackets.
Open Scope N_scope.

(* ------------------------------------------------------------------ *)
(* the order on capture names (Go string comparison) and on keys        *)
(* ------------------------------------------------------------------ *)
Lemma bytes_ltb_irrefl a : bytes_ltb a a = false.
Proof. induction a as [|x r IH]; cbn [bytes_ltb]; [reflexivity|]. now rewrite N.ltb_irrefl. Qed.
Lemma bytes_ltb_trans a : forall b c, bytes_ltb a b = true -> bytes_ltb b c = true -> bytes_ltb a c = true.
Proof.
  induction a as [|x a IH]; intros [|y b] [|z c] H1 H2; cbn [bytes_ltb] in *; try discriminate; auto.
  destruct (N.ltb_spec x y), (N.ltb_spec y x), (N.ltb_spec y z), (N.ltb_spec z y), (N.ltb_spec x z), (N.ltb_spec z x);
    try discriminate; try lia; auto.
  eapply IH; eauto.
Qed.
Lemma bytes_tricho a : forall b, bytes_ltb a b = false -> bytes_ltb b a = false -> a = b.
Proof.
  induction a as [|x a IH]; intros [|y b] H1 H2; cbn [bytes_ltb] in *; try discriminate; auto.
  destruct (N.ltb_spec x y), (N.ltb_spec y x); try discriminate; try lia.
  assert (x = y) by lia. subst. f_equal. now apply IH.
Qed.
Lemma bytes_ltb_asym a : forall b, bytes_ltb a b = true -> bytes_ltb b a = false.
Proof.
  induction a as [|x a IH]; intros [|y b] H; cbn [bytes_ltb] in *; try discriminate; auto.
  destruct (N.ltb_spec x y), (N.ltb_spec y x); try discriminate; try lia; auto.
Qed.

Lemma skey_leb_refl k : skey_leb k k = true.
Proof. unfold skey_leb. rewrite bytes_ltb_irrefl. apply N.leb_refl. Qed.
Lemma skey_leb_trans a b c : skey_leb a b = true -> skey_leb b c = true -> skey_leb a c = true.
Proof.
  destruct a as [na ka], b as [nb kb], c as [nc kc]. unfold skey_leb. cbn [fst snd].
  destruct (bytes_ltb na nb) eqn:Eab, (bytes_ltb nb na) eqn:Eba, (bytes_ltb nb nc) eqn:Ebc, (bytes_ltb nc nb) eqn:Ecb;
    intros H1 H2; try discriminate.
  all: try (rewrite (bytes_ltb_trans _ _ _ Eab Ebc); reflexivity).
  all: try (pose proof (bytes_tricho _ _ Eab Eba); subst nb).
  all: try (pose proof (bytes_tricho _ _ Ebc Ecb); subst nc).
  all: try (rewrite Ebc; reflexivity).
  all: try (rewrite Eab; reflexivity).
  all: try (rewrite (bytes_ltb_asym _ _ Eab) in Eba; discriminate).
  all: try (rewrite (bytes_ltb_asym _ _ Ebc) in Ecb; discriminate).
  rewrite bytes_ltb_irrefl. apply N.leb_le in H1, H2. apply N.leb_le. lia.
Qed.
Lemma skey_leb_antisym a b : skey_leb a b = true -> skey_leb b a = true -> a = b.
Proof.
  destruct a as [na ka], b as [nb kb]. unfold skey_leb. cbn [fst snd].
  destruct (bytes_ltb na nb) eqn:Eab, (bytes_ltb nb na) eqn:Eba; intros H1 H2; try discriminate.
  - rewrite (bytes_ltb_asym _ _ Eab) in Eba. discriminate.
  - pose proof (bytes_tricho _ _ Eab Eba). apply N.leb_le in H1, H2. f_equal; [assumption|lia].
Qed.

(* the reader's predicate is "target <= key" *)
Lemma reader_pred_is_leb name idx fn k :
  (if negb (bytes_eqb fn name) then bytes_leb name fn else idx <=? k) = skey_leb (name, idx) (fn, k).
Proof.
  unfold skey_leb, bytes_leb. cbn [fst snd].
  destruct (bytes_eqb fn name) eqn:E; cbn [negb].
  - apply bytes_eqb_eq in E. subst. now rewrite bytes_ltb_irrefl.
  - apply bytes_eqb_neq in E. destruct (bytes_ltb name fn) eqn:E1.
    + now rewrite (bytes_ltb_asym _ _ E1).
    + destruct (bytes_ltb fn name) eqn:E2; [reflexivity|]. exfalso. apply E. symmetry. now apply bytes_tricho.
Qed.

(* ------------------------------------------------------------------ *)
(* sort.Search                                                         *)
(* ------------------------------------------------------------------ *)
Lemma bsearch_spec f : forall fuel i j,
    (N.to_nat (j - i) < fuel)%nat -> i <= j ->
    (forall x, x < i -> f x = false) -> (forall x y, f x = true -> x <= y -> y < j -> f y = true) ->
    (forall x, j <= x -> True) ->
    let res := bsearch fuel f i j in
    i <= res <= j /\ (forall x, x < res -> f x = false) /\ (res < j -> f res = true).
Proof.
  induction fuel as [|fu IH]; intros i j Hf Hij Hlow Hmono _; [lia|]. cbn [bsearch].
  destruct (N.ltb_spec i j) as [Hlt|Hge].
  - set (h := (i + j) / 2). assert (Hh : i <= h < j).
    { unfold h. split; [apply N.div_le_lower_bound; lia|apply N.div_lt_upper_bound; lia]. }
    destruct (f h) eqn:Efh.
    + destruct (IH i h) as (A & B & C); try lia; try assumption.
      { intros x y Hx Hxy Hy. apply (Hmono x y Hx Hxy). lia. }
      cbv zeta in *. split; [lia|]. split; [assumption|]. intros Hr.
      destruct (N.lt_ge_cases (bsearch fu f i h) h) as [Hl|Hg]; [now apply C|].
      assert (bsearch fu f i h = h) by lia. congruence.
    + destruct (IH (h + 1) j) as (A & B & C); try lia; try assumption.
      { intros x Hx. destruct (N.lt_ge_cases x i); [now apply Hlow|].
        destruct (f x) eqn:Ex; [|reflexivity]. assert (f h = true) by (apply (Hmono x h Ex); lia). congruence. }
      cbv zeta in *. split; [lia|]. split; assumption.
  - cbv zeta. assert (i = j) by lia. subst. split; [lia|]. split; [assumption|lia].
Qed.

(* ------------------------------------------------------------------ *)
(* a sorted lookup table                                               *)
(* ------------------------------------------------------------------ *)
Definition key_rel (x y : skey * N) : Prop := is_true (skey_leb (fst x) (fst y)).
Lemma key_rel_trans : RelationClasses.Transitive key_rel.
Proof. intros x y z. unfold key_rel, is_true. apply skey_leb_trans. Qed.

Lemma StronglySorted_nth {A} (R : A -> A -> Prop) l : StronglySorted R l ->
  forall i j x y, (i < j)%nat -> nth_error l i = Some x -> nth_error l j = Some y -> R x y.
Proof.
  induction 1 as [|a l Hs IH Hall]; intros i j x y Hij Hi Hj; [destruct i; discriminate|].
  destruct j as [|j]; [lia|]. cbn [nth_error] in Hj. destruct i as [|i]; cbn [nth_error] in Hi.
  - inversion Hi; subst. rewrite Forall_forall in Hall. apply Hall. eapply nth_error_In; eauto.
  - apply (IH i j x y); [lia|assumption|assumption].
Qed.

Section Table.
  Variable key : stream_rec -> skey.
  Variable ss : list stream_rec.
  Let E := KeySort.sort (enumerate 0 (map key ss)).

  Lemma table_sorted : StronglySorted key_rel E.
  Proof. apply KeySort.StronglySorted_sort. exact key_rel_trans. Qed.
  Lemma table_lookup : lookup_by key ss = map snd E.
  Proof. reflexivity. Qed.
  Lemma table_length : length E = length ss.
  Proof.
    unfold E. rewrite <- (Permutation_length (KeySort.Permuted_sort _)).
    assert (H : forall {A} (l : list A) i, length (enumerate i l) = length l) by (induction l; intros; cbn [enumerate length]; auto).
    now rewrite H, map_length.
  Qed.
  Lemma table_entry i k si : nth_error E i = Some (k, si) -> exists s, nth_error ss (N.to_nat si) = Some s /\ key s = k.
  Proof.
    intros H. apply nth_error_In in H. apply (Permutation_in _ (Permutation_sym (KeySort.Permuted_sort _))) in H.
    apply enumerate_in in H. destruct H as [_ H]. rewrite N.sub_0_r, nth_error_map in H.
    destruct (nth_error ss (N.to_nat si)) as [s|]; [|discriminate]. cbn [option_map] in H. inversion H. eauto.
  Qed.
  Lemma table_has j s : nth_error ss j = Some s -> exists i, nth_error E i = Some (key s, N.of_nat j).
  Proof.
    intros H. assert (Hin : In (key s, 0 + N.of_nat j) (enumerate 0 (map key ss))).
    { apply enumerate_nth. now rewrite nth_error_map, H. }
    rewrite N.add_0_l in Hin. apply (Permutation_in _ (KeySort.Permuted_sort _)) in Hin. now apply In_nth_error in Hin.
  Qed.

  (* a reader whose by-source section is this table *)
  Variable r : reader.
  Hypothesis Hstreams : f_streams (r_file r) = ss.
  Hypothesis Hbysrc : f_by_src (r_file r) = lookup_by key ss.
  Hypothesis Hkey : forall s, first_source r s = key s.

  Variables (name : bytes) (idx : N).
  Let target : skey := (name, idx).
  Let tle (i : N) : bool := match nth_error E (N.to_nat i) with Some (k, _) => skey_leb target k | None => false end.
  Let n := lenN ss.

  Lemma pred_is_tle i :
    match nthN (f_by_src (r_file r)) i with
    | Some si => match stream_by_index r si with
                 | Some s => let '(fn, k) := first_source r s in if negb (bytes_eqb fn name) then bytes_leb name fn else idx <=? k
                 | None => false
                 end
    | None => false
    end = tle i.
  Proof.
    unfold tle. rewrite Hbysrc, table_lookup, nthN_nth_error, nth_error_map.
    destruct (nth_error E (N.to_nat i)) as [[k si]|] eqn:Ei; cbn [option_map snd]; [|reflexivity].
    destruct (table_entry _ _ _ Ei) as (s & Hs & Hk). unfold stream_by_index. rewrite Hstreams, nthN_nth_error, Hs, Hkey, Hk.
    destruct k as [fn kk]. apply reader_pred_is_leb.
  Qed.

  Lemma tle_mono x y : tle x = true -> x <= y -> y < n -> tle y = true.
  Proof.
    unfold tle. intros Hx Hxy Hy.
    destruct (nth_error E (N.to_nat x)) as [[kx sx]|] eqn:Ex; [|discriminate].
    assert (Hlt : (N.to_nat y < length E)%nat) by (rewrite table_length; unfold n, lenN in Hy; lia).
    destruct (nth_error E (N.to_nat y)) as [[ky sy]|] eqn:Ey; [|apply nth_error_None in Ey; lia].
    destruct (N.eq_dec x y) as [->|Hne]; [congruence|].
    pose proof (StronglySorted_nth _ _ table_sorted (N.to_nat x) (N.to_nat y) _ _ ltac:(lia) Ex Ey) as Hr.
    unfold key_rel, is_true in Hr. cbn [fst] in Hr. eapply skey_leb_trans; eauto.
  Qed.

  Definition found := bsearch (S (N.to_nat n)) tle 0 n.
  Lemma found_spec : found <= n /\ (forall x, x < found -> tle x = false) /\ (found < n -> tle found = true).
  Proof.
    unfold found.
    assert (H0 : forall x, x < 0 -> tle x = false) by (intros x Hx; lia).
    destruct (bsearch_spec tle (S (N.to_nat n)) 0 n ltac:(lia) ltac:(lia) H0 tle_mono (fun _ _ => I)) as (A & B & C).
    split; [lia|]. split; assumption.
  Qed.

  Lemma stream_by_source_unfold :
    stream_by_source r name idx =
    if n <=? found then None
    else match nth_error E (N.to_nat found) with
         | Some (k, si) => match nth_error ss (N.to_nat si) with
                           | Some s => if bytes_eqb (fst k) name && (snd k =? idx) then Some (s, si) else None
                           | None => None
                           end
         | None => None
         end.
  Proof.
    unfold stream_by_source. rewrite Hstreams. fold n.
    assert (Hb : bsearch (S (N.to_nat n))
                   (fun i => match nthN (f_by_src (r_file r)) i with
                             | Some si => match stream_by_index r si with
                                          | Some s => let '(fn, k) := first_source r s in if negb (bytes_eqb fn name) then bytes_leb name fn else idx <=? k
                                          | None => false end
                             | None => false end) 0 n = found).
    { unfold found. generalize (S (N.to_nat n)) as fuel. intros fuel. generalize 0 as i0. generalize n as j0.
      induction fuel as [|fu IH]; intros j0 i0; cbn [bsearch]; [reflexivity|].
      destruct (i0 <? j0); [|reflexivity]. rewrite pred_is_tle. destruct (tle ((i0 + j0) / 2)); apply IH. }
    rewrite Hb. destruct (n <=? found); [reflexivity|].
    rewrite Hbysrc, table_lookup, nthN_nth_error, nth_error_map.
    destruct (nth_error E (N.to_nat found)) as [[k si]|] eqn:Ef; cbn [option_map snd]; [|reflexivity].
    unfold stream_by_index. rewrite Hstreams, nthN_nth_error.
    destruct (nth_error ss (N.to_nat si)) as [s|] eqn:Es; [|reflexivity].
    destruct (table_entry _ _ _ Ef) as (s' & Hs' & Hk). assert (s' = s) by congruence. subst s'.
    rewrite Hkey, Hk. destruct k as [fn kk]. reflexivity.
  Qed.

  (* hit: the stream whose key is the target, keys being distinct *)
  Lemma stream_by_source_hit j s :
    NoDup (map key ss) -> nth_error ss j = Some s -> key s = target -> stream_by_source r name idx = Some (s, N.of_nat j).
  Proof.
    intros Hnd Hj Hk. destruct (table_has _ _ Hj) as (i0 & Hi0). rewrite Hk in Hi0.
    destruct found_spec as (A & B & C).
    assert (Hi0n : (i0 < length E)%nat) by (apply nth_error_Some; congruence).
    rewrite table_length in Hi0n.
    assert (Ht0 : tle (N.of_nat i0) = true) by (unfold tle; rewrite Nat2N.id, Hi0; apply skey_leb_refl).
    assert (Hle : found <= N.of_nat i0).
    { destruct (N.le_gt_cases found (N.of_nat i0)); [assumption|]. rewrite B in Ht0 by lia. discriminate. }
    assert (Hfn : found < n) by (unfold n, lenN; lia).
    rewrite stream_by_source_unfold. destruct (N.leb_spec n found); [lia|].
    specialize (C Hfn). unfold tle in C.
    destruct (nth_error E (N.to_nat found)) as [[k si]|] eqn:Ef; [|discriminate].
    assert (Hk2 : k = target).
    { apply skey_leb_antisym; [|assumption].
      destruct (N.eq_dec found (N.of_nat i0)) as [Heq|Hne].
      - rewrite Heq, Nat2N.id, Hi0 in Ef. inversion Ef. apply skey_leb_refl.
      - pose proof (StronglySorted_nth _ _ table_sorted (N.to_nat found) i0 _ _ ltac:(lia) Ef Hi0) as Hr. exact Hr. }
    subst k. destruct (table_entry _ _ _ Ef) as (s' & Hs' & Hk'). rewrite Hs'.
    unfold target. cbn [fst snd]. rewrite bytes_eqb_refl, N.eqb_refl. cbn [andb].
    assert (Hsame : N.to_nat si = j).
    { eapply (NoDup_nth_error (map key ss)); eauto.
      - rewrite map_length. apply nth_error_Some. congruence.
      - rewrite !nth_error_map, Hs', Hj. cbn [option_map]. congruence. }
    assert (s' = s) by congruence. subst s'. f_equal. f_equal. lia.
  Qed.

  (* miss: no stream has the target as key *)
  Lemma stream_by_source_miss : ~ In target (map key ss) -> stream_by_source r name idx = None.
  Proof.
    intros Hn. rewrite stream_by_source_unfold. destruct (n <=? found); [reflexivity|].
    destruct (nth_error E (N.to_nat found)) as [[k si]|] eqn:Ef; [|reflexivity].
    destruct (table_entry _ _ _ Ef) as (s & Hs & Hk). rewrite Hs.
    destruct (bytes_eqb (fst k) name) eqn:E1; [|reflexivity]. destruct (N.eqb_spec (snd k) idx) as [E2|]; [|reflexivity].
    exfalso. apply Hn. apply bytes_eqb_eq in E1. replace target with k by (destruct k; cbn [fst snd] in *; subst; reflexivity).
    rewrite <- Hk. apply in_map. eapply nth_error_In; eauto.
  Qed.
End Table.

(* ------------------------------------------------------------------ *)
(* the key of a stored stream is the source of its first packet         *)
(* ------------------------------------------------------------------ *)
Definition first_src (s : istream) : option (bytes * N) :=
  match s_packets s with
  | p0 :: _ => match p_srcs p0 with s0 :: _ => Some s0 | [] => None end
  | [] => None
  end.
Definition first_src_or (s : istream) : bytes * N := match first_src s with Some x => x | None => ([], 0) end.

Lemma block_head x rest : exists x' tl, clear_last_next (fst (set_skips (x :: rest))) = x' :: tl /\ pk_imp x' = pk_imp x /\ pk_idx x' = pk_idx x.
Proof.
  rewrite set_skips_cons. destruct rest as [|y rest'].
  - cbn [set_skips fst clear_last_next]. eexists _, []. split; [reflexivity|]. split; reflexivity.
  - rewrite set_skips_cons. eexists _, _. split; [reflexivity|]. split; reflexivity.
Qed.

Lemma stored_key gcap w rec id s s0 :
  stored gcap w rec id s -> lenN (w_packets w) < P32 -> first_src s = Some s0 ->
  source_key (w_imports w) (w_packets w) rec = s0.
Proof.
  intros St Hcnt Hf. destruct (sd_packets _ _ _ _ _ St) as (pre & post & Hp & Hs).
  assert (Hpre : lenN pre < P32) by (rewrite Hp, lenN_app in Hcnt; lia).
  unfold first_src in Hf. destruct (s_packets s) as [|p0 ps] eqn:Ep; [discriminate|].
  destruct (p_srcs p0) as [|s1 sr] eqn:Es; [discriminate|]. inversion Hf; subst s1; clear Hf.
  assert (Hin : has_import (w_imports w) s0).
  { apply (sd_srcs _ _ _ _ _ St p0 s0); [rewrite Ep; now left|rewrite Es; now left]. }
  unfold source_key. rewrite Hs. unfold u32. rewrite N.mod_small by assumption.
  assert (Hblk : exists x' tl, stream_block (w_imports w) s = x' :: tl /\ pk_imp x' = import_id (w_imports w) s0 /\ pk_idx x' = u32 (snd s0)).
  { unfold stream_block. rewrite Ep. cbn [stream_records]. rewrite Es. cbn [packet_records].
    pose proof (split_sizes_nonempty (N.to_nat ((match data_size_of 0 (s_data s) None with Some z => z | None => 0 end) / 65535))
                                     (match data_size_of 0 (s_data s) None with Some z => z | None => 0 end)) as Hne.
    destruct (split_sizes _ _) as [|z zs]; [contradiction|]. cbn [map app].
    destruct (block_head {| pk_rel := u32 ((p_ts p0 - first_ts s) / 1000); pk_imp := import_id (w_imports w) s0; pk_idx := u32 (snd s0);
                            pk_size := z; pk_skip := 255; pk_flags := flagHasNext + dir_flag (p_dir p0) |}
                         (map (fun z0 => {| pk_rel := u32 ((p_ts p0 - first_ts s) / 1000); pk_imp := import_id (w_imports w) s0; pk_idx := u32 (snd s0);
                                            pk_size := z0; pk_skip := 255; pk_flags := flagHasNext + dir_flag (p_dir p0) |}) zs
                          ++ packet_records (w_imports w) (u32 ((p_ts p0 - first_ts s) / 1000)) (dir_flag (p_dir p0))
                               (match data_size_of 0 (s_data s) None with Some z => z | None => 0 end) false sr
                          ++ stream_records (w_imports w) (first_ts s) (s_data s) (N.succ 0) ps)) as (x' & tl & Hh & H1 & H2).
    exists x', tl. rewrite <- app_assoc. split; [exact Hh|]. split; assumption. }
  destruct Hblk as (x' & tl & Hb & Hi & Hx).
  rewrite Hp, Hb. rewrite nthN_nth_error. unfold lenN. rewrite Nat2N.id, nth_error_app2, Nat.sub_diag by lia. cbn [app nth_error].
  rewrite Hi, (import_id_nth _ _ Hin), Hx, idx_split. now destruct s0.
Qed.

Lemma stored_keys gcap w : forall ss L,
  Forall2 (fun rec ids => stored gcap w rec (fst ids) (snd ids)) ss L -> lenN (w_packets w) < P32 ->
  Forall (fun ids => first_src (snd ids) <> None) L ->
  map (source_key (w_imports w) (w_packets w)) ss = map (fun ids => first_src_or (snd ids)) L.
Proof.
  induction 1 as [|rec [id s] rs L0 St HF IH]; intros Hc Hf; [reflexivity|]. inversion Hf; subst. cbn [map snd fst] in *.
  f_equal; [|now apply IH]. unfold first_src_or. destruct (first_src s) as [s0|] eqn:E; [|contradiction].
  eapply stored_key; eauto.
Qed.

(* ------------------------------------------------------------------ *)
(* Theorem 1, second half                                              *)
(* ------------------------------------------------------------------ *)
Section SourceLookup.
  Variables (gcap : N) (L : list (N * istream)) (w : writer) (r : reader).
  Hypothesis Hcap : 16 < gcap <= 4 * P16.
  Hypothesis Hwf : Forall (fun ids => wf_meta (snd ids)) L.
  Hypothesis Hnames : Forall (fun ids => names_ok (snd ids)) L.
  Hypothesis Hfirst : Forall (fun ids => first_src (snd ids) <> None) L.
  Hypothesis Hdistinct : NoDup (map (fun ids => first_src_or (snd ids)) L).
  Hypothesis Hadd : add_streams gcap new_writer L = Some w.
  Hypothesis Hr : new_reader (finalize w) = Some r.
  Hypothesis Hcnt : lenN (w_packets w) < P32.

  Let key := source_key (w_imports w) (w_packets w).
  Lemma sl_stored : Forall2 (fun rec ids => stored gcap w rec (fst ids) (snd ids)) (w_streams w) L.
  Proof. pose proof (add_streams_winv gcap ltac:(lia) L new_writer [] w (winv_new gcap) Hwf Hadd) as (HF & _). exact HF. Qed.
  Lemma sl_keys : map key (w_streams w) = map (fun ids => first_src_or (snd ids)) L.
  Proof. apply (stored_keys gcap w _ _ sl_stored Hcnt Hfirst). Qed.
  Lemma sl_bysrc : f_by_src (r_file r) = lookup_by key (w_streams w).
  Proof. rewrite (rw_file w r Hr). unfold finalize. now destruct (import_section _ _ _). Qed.
  Lemma sl_key s : first_source r s = key s.
  Proof.
    unfold first_source, key.
    rewrite (reader_imports w r (add_streams_names gcap L new_writer w (Forall_nil _) Hnames Hadd) Hr), (rw_packets w r Hr). reflexivity.
  Qed.

  Theorem stream_by_source_stored k id s s0 :
    nth_error L k = Some (id, s) -> first_src s = Some s0 ->
    exists rec, stream_by_source r (fst s0) (snd s0) = Some (rec, N.of_nat k) /\ nth_error (all_streams r) k = Some rec.
  Proof.
    intros Hk Hf. destruct (Forall2_nth_r _ _ _ sl_stored _ _ Hk) as (rec & Hrec & St). cbn [fst snd] in St.
    exists rec. split; [|unfold all_streams; now rewrite (rw_streams w r Hr)].
    apply (stream_by_source_hit key (w_streams w) r (rw_streams w r Hr) sl_bysrc sl_key (fst s0) (snd s0) k rec).
    - rewrite sl_keys. exact Hdistinct.
    - exact Hrec.
    - unfold key. rewrite (stored_key gcap w rec id s s0 St Hcnt Hf). now destruct s0.
  Qed.

  Theorem stream_by_source_other name idx :
    (forall ids, In ids L -> first_src (snd ids) <> Some (name, idx)) -> stream_by_source r name idx = None.
  Proof.
    intros Hn. apply (stream_by_source_miss key (w_streams w) r (rw_streams w r Hr) sl_bysrc sl_key).
    rewrite sl_keys. intros Hin. apply in_map_iff in Hin. destruct Hin as (ids & He & Hi).
    apply (Hn ids Hi). unfold first_src_or in He. rewrite Forall_forall in Hfirst. specialize (Hfirst ids Hi).
    destruct (first_src (snd ids)); [congruence|contradiction].
  Qed.
End SourceLookup.
