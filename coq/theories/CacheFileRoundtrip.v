(* Round trip and self-delimitation of one cache-file record (C15). *)
From Coq Require Import NArith ZArith List Bool Lia ZifyBool ZifyN ZifyNat Permutation.
Require Import Pk.CacheFile Pk.CacheFileProofs Pk.CacheFileRecord Pk.CacheFileCts.
Import ListNotations.
Open Scope N_scope.

Lemma nth_error_ext : forall A (a b : list A), (forall j, nth_error a j = nth_error b j) -> a = b.
Proof.
  induction a as [|x a IH]; intros [|y b] H.
  - reflexivity.
  - specialize (H 0%nat). discriminate.
  - specialize (H 0%nat). discriminate.
  - pose proof (H 0%nat) as H0. cbn in H0. inversion H0; subst. f_equal. apply IH. intros j. exact (H (S j)).
Qed.

Lemma norm_length : forall cs dl el, length (norm_chunks dl el cs) = length cs.
Proof. induction cs; intros; cbn [norm_chunks length]; [reflexivity|]. rewrite IHcs. reflexivity. Qed.

Lemma norm_nth : forall cs dl el j c',
  nth_error (norm_chunks dl el cs) j = Some c' -> exists c, nth_error cs j = Some c /\ c_ct c' = c_ct c.
Proof.
  induction cs as [|c cs IH]; intros dl el j c' H; [destruct j; discriminate|].
  destruct j as [|j]; cbn [norm_chunks nth_error] in *.
  - inversion H; subst. exists c. split; reflexivity.
  - eapply IH. eassumption.
Qed.

Lemma mark_all_norm : forall cs m dl el,
  cts_inv cs (length cs) m -> mark_all m (map strip_ct (norm_chunks dl el cs)) = norm_chunks dl el cs.
Proof.
  intros cs m dl el (H1 & H2 & H3). apply nth_error_ext. intros j.
  destruct (nth_error (norm_chunks dl el cs) j) as [c'|] eqn:E.
  - rewrite (mark_all_nth m _ j (strip_ct c')) by (apply map_nth_error; assumption).
    destruct (norm_nth _ _ _ _ _ E) as (c & Hc & Hct).
    assert (Hj : (j < length cs)%nat) by (apply nth_error_Some; congruence).
    assert (Hat : ct_at cs j = c_ct c') by (unfold ct_at; rewrite Hc; symmetry; assumption).
    cbn [strip_ct c_ct].
    rewrite (final_ct_unique m j [] (c_ct c')).
    + destruct c'; reflexivity.
    + intros ct bm Hin Hp. destruct (H2 ct bm Hin) as (_ & _ & _ & _ & Hiff). apply Hiff in Hp. destruct Hp. congruence.
    + destruct (list_eq_dec N.eq_dec (c_ct c') []) as [Ec|Ec]; [left; symmetry; assumption|right].
      assert (Hin : In (ct_at cs j) (map fst m)) by (apply H3; [assumption|congruence]).
      apply in_map_iff in Hin. destruct Hin as [[ct bm] [Hf Hin]]. cbn in Hf. subst ct.
      exists (ct_at cs j), bm. split; [assumption|].
      destruct (H2 _ bm Hin) as (_ & _ & _ & _ & Hiff). apply Hiff. split; [assumption|reflexivity].
  - apply nth_error_None. rewrite mark_all_length, map_length. apply nth_error_None. assumption.
Qed.

Lemma cts_inv_entries_ok : forall cs m,
  Forall chunk_ok cs -> cts_inv cs (length cs) m -> Forall (ct_entry_ok (length cs)) m.
Proof.
  intros cs m Hok (H1 & H2 & H3). apply Forall_forall. intros [ct bm] Hin.
  destruct (H2 ct bm Hin) as (Hc & Hb & Hby & [j Hj] & Hiff). unfold ct_entry_ok.
  split; [assumption|]. split; [assumption|]. split.
  - apply Hiff in Hj. destruct Hj as [Hlt Hat]. unfold ct_at in Hat.
    destruct (nth_error cs j) as [c|] eqn:E; [|congruence]. subst ct.
    rewrite Forall_forall in Hok. apply nth_error_In in E. apply Hok in E. destruct E as (_ & _ & E). exact E.
  - intros j' Hj'. apply Hiff in Hj'. tauto.
Qed.

(* the bytes setData writes for a record when Go iterates its content-type map in the order m *)
Definition record_bytes (t0 : Z) (cs : list chunk) (m : list (list N * list N)) : list N :=
  enc_sizes false cs ++ enc_data false cs ++ enc_data true cs ++ enc_times t0 cs ++ enc_cts m.

Lemma record_bytes_encode : forall t0 cs, encode_record t0 cs = record_bytes t0 cs (collect_cts 0 cs []).
Proof. reflexivity. Qed.

Theorem decode_record_bytes : forall t0 cs m rest,
  Forall chunk_ok cs -> times_ok t0 cs -> Permutation m (collect_cts 0 cs []) ->
  decode_record t0 (record_bytes t0 cs m ++ rest)
  = Some (trunc_us t0 cs, len (enc_data false cs), len (enc_data true cs)).
Proof.
  intros t0 cs m rest Hok Ht Hp.
  assert (Hinv : cts_inv cs (length cs) m).
  { eapply cts_inv_perm; [apply Permutation_sym; eassumption | apply collect_cts_spec]. }
  unfold decode_record, record_bytes. rewrite <- !app_assoc.
  rewrite dec_sizes_enc by (assumption || apply le_n).
  rewrite removelast_last. rewrite !sum_dir_entries.
  rewrite take_app. rewrite take_app.
  rewrite dec_chunks_enc by assumption.
  rewrite dec_cts_enc.
  - unfold trunc_us. rewrite mark_all_norm by assumption. reflexivity.
  - rewrite map_length, norm_length. apply cts_inv_entries_ok; assumption.
  - apply le_n.
Qed.

Corollary decode_encode_record : forall t0 cs rest,
  Forall chunk_ok cs -> times_ok t0 cs ->
  decode_record t0 (encode_record t0 cs ++ rest)
  = Some (trunc_us t0 cs, len (enc_data false cs), len (enc_data true cs)).
Proof. intros. rewrite record_bytes_encode. apply decode_record_bytes; auto. Qed.

(* ------------------------------------------------------------------ *)
(* skipStream: a record is self-delimiting                              *)
(* ------------------------------------------------------------------ *)
Ltac tup := repeat match goal with
  | |- Some _ = Some _ => f_equal
  | |- (_, _) = (_, _) => f_equal
  | |- _ :: _ = _ :: _ => f_equal
  end; try reflexivity; try lia.

Lemma skip_sizes_enc : forall cs want fuel rest dsz cnt,
  Forall chunk_ok cs ->
  (length (enc_sizes want cs ++ rest) <= length fuel)%nat ->
  skip_sizes fuel (enc_sizes want cs ++ rest) false dsz cnt
  = Some (dsz + (len (enc_data false cs) + len (enc_data true cs)), cnt + N.of_nat (length cs), rest).
Proof.
  induction cs as [|c cs IH]; intros want fuel rest dsz cnt Hok Hf.
  - cbn [enc_sizes app] in *. destruct fuel as [|x [|y f]]; cbn [length] in Hf; try lia.
    cbn [skip_sizes]. rewrite read_varint_zero. cbn [N.eqb]. rewrite read_varint_zero. cbn [N.eqb enc_data length].
    rewrite len_nil. change (N.of_nat 0) with 0. rewrite !N.add_0_r. reflexivity.
  - inversion Hok as [|? ? [Hne [Hlen _]] Hok']; subst.
    cbn [enc_sizes] in *. pose proof (write_varint_length (len (c_data c))) as Hwl.
    assert (Hsum : len (enc_data false (c :: cs)) + len (enc_data true (c :: cs))
                   = len (c_data c) + (len (enc_data false cs) + len (enc_data true cs))).
    { cbn [enc_data]. rewrite !len_app. destruct (c_dir c); cbn [Bool.eqb]; rewrite ?len_nil; lia. }
    rewrite Hsum. cbn [length].
    destruct (Bool.eqb (c_dir c) want) eqn:Ed.
    + cbn [app] in *. rewrite <- app_assoc in *.
      destruct fuel as [|x f]; [rewrite app_length in Hf; cbn [length] in Hf; lia|].
      cbn [skip_sizes]. rewrite varint_roundtrip by assumption. rewrite (len_nonzero _ Hne).
      rewrite IH; [tup | assumption |]. rewrite !app_length in *. cbn [length] in Hf. lia.
    + rewrite <- !app_assoc in *. cbn [app] in *.
      destruct fuel as [|x [|y f]]; try (cbn [length] in Hf; rewrite !app_length in Hf; cbn [length] in Hf; lia).
      cbn [skip_sizes]. rewrite read_varint_zero. cbn [N.eqb].
      rewrite varint_roundtrip by assumption. rewrite (len_nonzero _ Hne).
      rewrite IH; [tup | assumption |].
      cbn [length] in Hf. rewrite !app_length in *. cbn [length] in Hf. lia.
Qed.

Lemma skip_varints_enc : forall cs el fuel rest,
  times_ok el cs ->
  (length (enc_times el cs ++ rest) <= length fuel)%nat ->
  skip_varints fuel (N.of_nat (length cs)) (enc_times el cs ++ rest) = Some rest.
Proof.
  induction cs as [|c cs IH]; intros el fuel rest Ht Hf.
  - cbn [length N.of_nat enc_times app]. destruct fuel; reflexivity.
  - destruct Ht as [Hd Ht]. destruct (time_delta_roundtrip _ Hd) as [_ Hu].
    cbn [enc_times] in *. rewrite <- app_assoc in *.
    pose proof (write_varint_length (u64_of_Z (Z.quot (c_time c - el) 1000))) as Hwl.
    destruct fuel as [|x f]; [rewrite app_length in Hf; cbn [length] in Hf; lia|].
    cbn [skip_varints].
    assert ((N.of_nat (length (c :: cs)) =? 0) = false) as -> by (apply N.eqb_neq; cbn [length]; lia).
    rewrite varint_roundtrip by assumption.
    replace (N.of_nat (length (c :: cs)) - 1) with (N.of_nat (length cs)) by (cbn [length]; lia).
    replace (el + (c_time c - el))%Z with (c_time c) in * by lia.
    apply IH; [assumption|]. rewrite !app_length in *. cbn [length] in Hf. lia.
Qed.

Lemma skip_cts_enc : forall m n fuel rest,
  Forall (ct_entry_ok n) m ->
  (length (enc_cts m ++ rest) <= length fuel)%nat ->
  skip_cts fuel (enc_cts m ++ rest) = Some rest.
Proof.
  induction m as [|[ct bm] r IH]; intros n fuel rest Hok Hf.
  - cbn [enc_cts app] in *. destruct fuel as [|x f]; [cbn [length] in Hf; lia|]. reflexivity.
  - inversion Hok as [|? ? He Hok']; subst. unfold ct_entry_ok in He. destruct He as (Hne & Hb & Hl & Hin).
    pose proof (write_varbytes_length bm) as Hwl.
    cbn [enc_cts] in *. rewrite <- !app_assoc in *.
    destruct fuel as [|x f]; [rewrite app_length in Hf; cbn [length] in Hf; lia|].
    cbn [skip_cts]. rewrite varbytes_roundtrip by assumption.
    destruct bm as [|b bs]; [congruence|].
    rewrite string_roundtrip by assumption.
    apply (IH n); [assumption|]. rewrite !app_length in *. cbn [length] in Hf. lia.
Qed.

Theorem skip_record_bytes : forall t0 cs m rest,
  Forall chunk_ok cs -> times_ok t0 cs -> Permutation m (collect_cts 0 cs []) ->
  skip_stream (record_bytes t0 cs m ++ rest) = Some rest.
Proof.
  intros t0 cs m rest Hok Ht Hp.
  assert (Hinv : cts_inv cs (length cs) m).
  { eapply cts_inv_perm; [apply Permutation_sym; eassumption | apply collect_cts_spec]. }
  unfold skip_stream, record_bytes. rewrite <- !app_assoc.
  rewrite skip_sizes_enc by (assumption || apply le_n).
  rewrite N.add_0_l. rewrite <- len_app. rewrite app_assoc. rewrite take_app.
  rewrite N.add_0_l. rewrite skip_varints_enc by (assumption || apply le_n).
  apply (skip_cts_enc m (length cs)); [apply cts_inv_entries_ok; assumption | apply le_n].
Qed.

Corollary skip_encode_record : forall t0 cs rest,
  Forall chunk_ok cs -> times_ok t0 cs -> skip_stream (encode_record t0 cs ++ rest) = Some rest.
Proof. intros. rewrite record_bytes_encode. apply skip_record_bytes; auto. Qed.

(* ------------------------------------------------------------------ *)
(* DataForSearch                                                        *)
(* ------------------------------------------------------------------ *)
(* running totals (client bytes, server bytes) after each chunk *)
Fixpoint totals (c s : N) (cs : list chunk) : list (N * N) :=
  match cs with
  | [] => []
  | x :: r => let c' := if c_dir x then c else c + len (c_data x) in
              let s' := if c_dir x then s + len (c_data x) else s in
              (c', s') :: totals c' s' r
  end.

Lemma dfs_sizes_enc : forall cs want fuel rest c s,
  Forall chunk_ok cs ->
  (length (enc_sizes want cs ++ rest) <= length fuel)%nat ->
  dfs_sizes fuel (enc_sizes want cs ++ rest) false want c s
  = Some (totals c s cs, c + len (enc_data false cs), s + len (enc_data true cs), rest).
Proof.
  induction cs as [|x cs IH]; intros want fuel rest c s Hok Hf.
  - cbn [enc_sizes app] in *. destruct fuel as [|a [|b f]]; cbn [length] in Hf; try lia.
    cbn [dfs_sizes]. rewrite read_varint_zero. cbn [N.eqb]. rewrite read_varint_zero. cbn [N.eqb enc_data totals].
    rewrite len_nil. tup.
  - inversion Hok as [|? ? [Hne [Hlen _]] Hok']; subst.
    cbn [enc_sizes] in *. pose proof (write_varint_length (len (c_data x))) as Hwl.
    cbn [totals enc_data]. rewrite !len_app.
    destruct (Bool.eqb (c_dir x) want) eqn:Ed.
    + apply eqb_prop in Ed. subst want. cbn [app] in *. rewrite <- app_assoc in *.
      destruct fuel as [|a f]; [rewrite app_length in Hf; cbn [length] in Hf; lia|].
      cbn [dfs_sizes]. rewrite varint_roundtrip by assumption. rewrite (len_nonzero _ Hne).
      rewrite IH; [| assumption |].
      * destruct (c_dir x); cbn [Bool.eqb]; rewrite ?len_nil; tup.
      * rewrite !app_length in *. cbn [length] in Hf. lia.
    + assert (want = negb (c_dir x)) as -> by (destruct (c_dir x), want; cbn in Ed |- *; congruence).
      rewrite <- !app_assoc in *. cbn [app] in *.
      destruct fuel as [|a [|b f]]; try (cbn [length] in Hf; rewrite !app_length in Hf; cbn [length] in Hf; lia).
      cbn [dfs_sizes]. rewrite read_varint_zero. cbn [N.eqb].
      rewrite varint_roundtrip by assumption. rewrite (len_nonzero _ Hne).
      rewrite !Bool.negb_involutive.
      rewrite IH; [| assumption |].
      * destruct (c_dir x); cbn [Bool.eqb negb]; rewrite ?len_nil; tup.
      * cbn [length] in Hf. rewrite !app_length in *. cbn [length] in Hf. lia.
Qed.

Theorem decode_search_bytes : forall t0 cs m rest,
  Forall chunk_ok cs ->
  decode_search (record_bytes t0 cs m ++ rest)
  = Some (enc_data false cs, enc_data true cs, (0, 0) :: totals 0 0 cs,
          len (enc_data false cs), len (enc_data true cs)).
Proof.
  intros t0 cs m rest Hok. unfold decode_search, record_bytes. rewrite <- !app_assoc.
  rewrite dfs_sizes_enc by (assumption || apply le_n). rewrite !N.add_0_l.
  rewrite take_app, take_app. reflexivity.
Qed.

(* ------------------------------------------------------------------ *)
(* the microsecond truncation, exactly                                  *)
(* ------------------------------------------------------------------ *)
Lemma norm_exact : forall cs el,
  (el mod 1000 = 0)%Z -> Forall (fun c => (c_time c mod 1000 = 0)%Z) cs -> norm_chunks el el cs = cs.
Proof.
  induction cs as [|c cs IH]; intros el He Hall; [reflexivity|].
  inversion Hall as [|? ? Hc Hall']; subst. cbn [norm_chunks].
  assert (Hr : Z.rem (c_time c - el) 1000 = 0%Z).
  { apply Z.rem_mod_eq_0; [lia|]. rewrite Zminus_mod, Hc, He. reflexivity. }
  assert (Hq : (1000 * Z.quot (c_time c - el) 1000 = c_time c - el)%Z).
  { symmetry. apply Z.quot_exact; [lia | assumption]. }
  rewrite Hq. replace (el + (c_time c - el))%Z with (c_time c) by lia.
  rewrite IH by assumption. destruct c; reflexivity.
Qed.

(* microsecond-granular input comes back unchanged *)
Theorem trunc_us_exact : forall t0 cs,
  (t0 mod 1000 = 0)%Z -> Forall (fun c => (c_time c mod 1000 = 0)%Z) cs -> trunc_us t0 cs = cs.
Proof. intros. apply norm_exact; assumption. Qed.

Fixpoint nondecreasing (last : Z) (cs : list chunk) : Prop :=
  match cs with [] => True | c :: r => (last <= c_time c)%Z /\ nondecreasing (c_time c) r end.

Definition same_but_time (c o : chunk) : Prop :=
  c_dir o = c_dir c /\ c_data o = c_data c /\ c_ct o = c_ct c.

Lemma Forall2_weaken : forall A B (P Q : A -> B -> Prop) l l',
  (forall a b, P a b -> Q a b) -> Forall2 P l l' -> Forall2 Q l l'.
Proof. intros A B P Q l l' H F. induction F; constructor; auto. Qed.

Lemma norm_drift : forall cs dl el B,
  (0 <= el - dl <= B)%Z -> nondecreasing el cs ->
  Forall2 (fun c o => same_but_time c o /\ (0 <= c_time c - c_time o <= B + 999 * Z.of_nat (length cs))%Z)
          cs (norm_chunks dl el cs).
Proof.
  induction cs as [|c cs IH]; intros dl el B HB Hs; cbn [norm_chunks]; [constructor|].
  destruct Hs as [Hle Hs].
  pose proof (Z.quot_rem (c_time c - el) 1000 ltac:(lia)) as Hq.
  assert (Hr : (0 <= Z.rem (c_time c - el) 1000 < 1000)%Z) by (apply Z.rem_bound_pos; lia).
  constructor.
  - split; [repeat split|]. cbn [c_time length]. lia.
  - eapply Forall2_weaken; [|apply (IH _ _ (B + 999)%Z)]; [| lia | assumption].
    intros a b [Hsame Hd]. split; [assumption|]. cbn [length]. lia.
Qed.

(* nanosecond input with non-decreasing times: every chunk keeps direction, bytes and content type, its
   time is never later than stored and earlier by less than one microsecond per chunk *)
Theorem trunc_us_drift : forall t0 cs,
  nondecreasing t0 cs ->
  Forall2 (fun c o => same_but_time c o /\ (0 <= c_time c - c_time o <= 999 * Z.of_nat (length cs))%Z)
          cs (trunc_us t0 cs).
Proof. intros t0 cs H. apply (norm_drift cs t0 t0 0 ltac:(lia) H). Qed.
