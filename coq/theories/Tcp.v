(* IDEAL model of the TCP path of builder.FromPcap -- C05/C08.  Definitions only; theorems in TcpProofs.v.

   pkappa2's own part (streams.go): Stream.Accept (record the packet, ask TCPSimpleFSM), ReassembledSG
   (attribute the delivered bytes to a packet), ReassemblyComplete (flag; returns false, so the pool
   keeps the closed connection).  These are modelled as written.

   gopacket's part (reassembly.Assembler, StreamPool, TCPSimpleFSM) is NOT verified: this file is its
   specification as an ideal reassembler -- unbounded sequence numbers (no 2^32 wrap), unbounded
   out-of-order buffer, retransmitted bytes equal the original ones.  It follows the library's main path:
   getConnection / newConnection, lastSeen, the SYN start, contiguous delivery with overlap trimming,
   queueing of segments ahead of nextSeq, FIN/RST closing the sender's half, FlushCloseOlderThan
   (skip gaps of segments queued before t, close idle halves, forget a connection when both halves are
   closed and idle).  One pool stands for the 256 pools selected by a port hash: a 4-tuple always maps to
   the same pool, and pools only differ in when an idle connection is flushed, which is not observable
   (TcpProofs / notes/C05.md). *)
From Pk Require Export Udp.

(* ---- reassembly.TCPSimpleFSM with SupportMissingEstablishment = false ---- *)
Inductive fsm_state := FClosed | FSynSent | FEstablished | FCloseWait | FLastAck | FReset.
Record fsm := mkFsm { f_state : fsm_state; f_dir : bool }.

Definition fsm_check (f : fsm) (p : packet) (dir : bool) : bool * fsm :=
  match f_state f with
  | FClosed =>
      if p_syn p && negb (p_ackf p) then (true, mkFsm FSynSent dir) else (false, f)
  | FSynSent =>
      if p_rst p then (true, mkFsm FReset (f_dir f))
      else if p_syn p && p_ackf p && Bool.eqb dir (negb (f_dir f)) then (true, mkFsm FEstablished (f_dir f))
      else if p_syn p && negb (p_ackf p) && Bool.eqb dir (f_dir f) then (true, f)
      else (false, f)
  | FEstablished =>
      if p_rst p then (true, mkFsm FReset (f_dir f))
      else if p_fin p then (true, mkFsm FCloseWait dir)
      else (true, f)
  | FCloseWait =>
      if p_rst p then (true, mkFsm FReset (f_dir f))
      else if p_fin p && p_ackf p && Bool.eqb dir (negb (f_dir f)) then (true, mkFsm FLastAck (f_dir f))
      else if p_ackf p then (true, f)
      else (false, f)
  | FLastAck =>
      if p_rst p then (true, mkFsm FReset (f_dir f))
      else if p_ackf p && Bool.eqb (f_dir f) dir then (true, mkFsm FClosed (f_dir f))
      else (false, f)
  | FReset => (false, f)
  end.

(* ---- half connections ---- *)
Record page := mkPage { pg_seq : N; pg_bytes : list N; pg_ref : pref; pg_end : bool; pg_seen : N }.

Record half := mkHalf {
  h_next : option N;                  (* nextSeq; None = invalidSequence *)
  h_queue : list page;                (* segments ahead of nextSeq, ascending by sequence number *)
  h_closed : bool;
  h_last : N }.                       (* lastSeen *)

Definition lenN {A} (l : list A) : N := N.of_nat (length l).

(* bytes[k:] ; written so that a huge k never becomes a unary number *)
Definition dropN (k : N) (l : list N) : list N := if lenN l <=? k then [] else skipn (N.to_nat k) l.

Fixpoint insert_page (q : list page) (pg : page) : list page :=
  match q with
  | [] => [pg]
  | x :: r => if pg_seq pg <? pg_seq x then pg :: q else x :: insert_page r pg
  end.

(* addContiguous + overlap trimming: take queued pages that start at or before [next] *)
Fixpoint pull (q : list page) (next : N) (acc : list N) (fin : bool) : list page * N * list N * bool :=
  match q with
  | [] => ([], next, acc, fin)
  | pg :: r =>
      if pg_seq pg <=? next then
        let b := dropN (next - pg_seq pg) (pg_bytes pg) in
        pull r (next + lenN b) (acc ++ b) (pg_end pg)
      else (q, next, acc, fin)
  end.

(* The established path (nextSeq known) for one segment [pg] (sequence number, bytes, source, end flag):
   queue it when it lies ahead of nextSeq, otherwise drop what was already delivered, deliver the rest and
   whatever queued segments became contiguous.  [syn]/[finflag] = SYN / FIN bit of the packet. *)
Definition half_data (h : half) (nx : N) (pg : page) (syn finflag : bool) : half * list N * bool :=
  let deliver (b : list N) :=
      let '(q', nx', bytes, fin) := pull (h_queue h) (nx + lenN b) b (pg_end pg) in
      (mkHalf (Some (if finflag then nx' + 1 else nx')) q' (h_closed h) (h_last h), bytes, fin) in
  if nx <? pg_seq pg then (mkHalf (h_next h) (insert_page (h_queue h) pg) (h_closed h) (h_last h), [], false)
  else
    let b := dropN (nx - pg_seq pg) (pg_bytes pg) in
    match b with
    | [] => if pg_end pg || syn then deliver b else (h, [], false)
    | _ => deliver b
    end.

(* result of handing one accepted packet to an open half: new half, delivered bytes (one ReassembledSG
   call, attributed to the packet that carried the first byte = the current packet), end of this half *)
Definition half_packet (h : half) (p : packet) : half * list N * bool :=
  let e := p_fin p || p_rst p in
  let pg := mkPage (p_seq p) (p_data p) (pref_of p) e (p_ts p) in
  match h_next h with
  | None =>
      if p_syn p then
        (* the SYN consumes one sequence number; nextSeq := seq + 1 *)
        half_data (mkHalf (Some (p_seq p + 1)) (h_queue h) (h_closed h) (h_last h)) (p_seq p + 1)
                  (mkPage (p_seq p + 1) (p_data p) (pref_of p) e (p_ts p)) true (p_fin p)
      else (mkHalf (h_next h) (insert_page (h_queue h) pg) (h_closed h) (h_last h), [], false)
  | Some nx => half_data h nx pg (p_syn p) (p_fin p)
  end.

(* flushClose: segments queued before [ts - timeout] ([old] = that test on the time a page was queued) are
   delivered across the gap (skipFlush); FlushAll uses the same loop with [old] = everything *)
Fixpoint flush_pages (fuel : nat) (h : half) (old : N -> bool) (acc : list (pref * list N)) : half * list (pref * list N) * bool :=
  match fuel with
  | O => (h, acc, false)
  | S f =>
    match h_queue h with
    | [] => (h, acc, false)
    | pg :: r =>
      if old (pg_seen pg) then
        let '(q', nx, bytes, fin) := pull r (pg_seq pg + lenN (pg_bytes pg)) (pg_bytes pg) (pg_end pg) in
        let h' := mkHalf (Some nx) q' (h_closed h) (h_last h) in
        if fin then (h', acc ++ [(pg_ref pg, bytes)], true)
        else flush_pages f h' old (acc ++ [(pg_ref pg, bytes)])
      else (h, acc, false)
    end
  end.

(* ---- connections and the pool ---- *)
Record tconn := mkTconn {
  tc_a : endpoint; tc_b : endpoint;          (* key: source and destination of the first packet *)
  tc_sid : nat;
  tc_fsm : fsm;
  tc_c2s : half; tc_s2c : half }.

Definition close_half (h : half) : half := mkHalf (h_next h) [] true (h_last h).

Fixpoint add_datas (s : stream) (l : list (pref * list N)) : stream :=
  match l with [] => s | (r, b) :: t => add_datas (add_data s r b) t end.

Definition maxN (a b : N) : N := if a <? b then b else a.

(* FlushWithOptions on one connection; returns the updated connection (None = removed from the pool) *)
Definition flush_conn (fac : factory) (c : tconn) (ts : N) : factory * option tconn :=
  let last := maxN (h_last (tc_c2s c)) (h_last (tc_s2c c)) in
  let fl (h : half) :=
      if h_closed h then (h, [])
      else
        let '(h1, ds, closedNow) := flush_pages (S (length (h_queue h))) h (expired ts) [] in
        if closedNow then (close_half h1, ds)
        else match h_queue h1 with
             | [] => if expired ts last then (close_half h1, ds) else (h1, ds)
             | _ => (h1, ds)
             end in
  let '(s2c, d1) := fl (tc_s2c c) in
  let '(c2s, d2) := fl (tc_c2s c) in
  let both := h_closed s2c && h_closed c2s in
  let fac1 := upd_nth fac (tc_sid c) (fun s => let s' := add_datas s (d1 ++ d2) in if both then set_complete s' else s') in
  if both && expired ts (h_last s2c) && expired ts (h_last c2s) then (fac1, None)
  else (fac1, Some (mkTconn (tc_a c) (tc_b c) (tc_sid c) (tc_fsm c) c2s s2c)).

Fixpoint tcp_flush (fac : factory) (pool : list tconn) (ts : N) : factory * list tconn :=
  match pool with
  | [] => (fac, [])
  | c :: r =>
    let '(fac1, oc) := flush_conn fac c ts in
    let '(fac2, r') := tcp_flush fac1 r ts in
    match oc with Some c' => (fac2, c' :: r') | None => (fac2, r') end
  end.

(* Assembler.FlushAll (not called by the unpatched FromPcap; see fixes/C08-flush-queued-at-end.patch):
   every half delivers everything it still has queued, gaps skipped, and is closed *)
Definition flush_all_conn (fac : factory) (c : tconn) : factory :=
  let fl (h : half) :=
      if h_closed h then []
      else let '(_, ds, _) := flush_pages (S (length (h_queue h))) h (fun _ => true) [] in ds in
  upd_nth fac (tc_sid c) (fun s => set_complete (add_datas s (fl (tc_s2c c) ++ fl (tc_c2s c)))).

Definition tcp_flush_all (fac : factory) (pool : list tconn) : factory := fold_left flush_all_conn pool fac.

(* getHalf: the key or the reversed key *)
Fixpoint pool_find (pool : list tconn) (pos : nat) (src dst : endpoint) : option (nat * tconn * bool) :=
  match pool with
  | [] => None
  | c :: r =>
    if ep_eqb (tc_a c) src && ep_eqb (tc_b c) dst then Some (pos, c, false)
    else if ep_eqb (tc_a c) dst && ep_eqb (tc_b c) src then Some (pos, c, true)
    else pool_find r (S pos) src dst
  end.

Definition fresh_half (ts : N) : half := mkHalf None [] false ts.

(* AssembleWithContext for one TCP packet *)
Definition tcp_assemble (fac : factory) (pool : list tconn) (p : packet) : factory * list tconn :=
  let '(fac0, pool0, pos, c, dir) :=
      match pool_find pool O (p_src p) (p_dst p) with
      | Some (pos, c, dir) => (fac, pool, pos, c, dir)
      | None =>
          let c := mkTconn (p_src p) (p_dst p) (length fac) (mkFsm FClosed false) (fresh_half (p_ts p)) (fresh_half (p_ts p)) in
          (fac ++ [new_stream true (p_src p) (p_dst p)], pool ++ [c], length pool, c, false)
      end in
  let h0 := if dir then tc_s2c c else tc_c2s c in
  let h := mkHalf (h_next h0) (h_queue h0) (h_closed h0) (maxN (h_last h0) (p_ts p)) in
  (* Stream.Accept: record the packet, then the state machine *)
  let fac1 := upd_nth fac0 (tc_sid c) (fun s => add_packet s (pref_of p) dir) in
  let '(ok, f') := fsm_check (tc_fsm c) p dir in
  let put (h' : half) := if dir then mkTconn (tc_a c) (tc_b c) (tc_sid c) f' (tc_c2s c) h'
                         else mkTconn (tc_a c) (tc_b c) (tc_sid c) f' h' (tc_s2c c) in
  if negb ok || h_closed h then (fac1, upd_nth pool0 pos (fun _ => put h))
  else
    let '(h1, bytes, fin) := half_packet h p in
    let h2 := if fin then close_half h1 else h1 in
    let c' := put h2 in
    let both := h_closed (tc_c2s c') && h_closed (tc_s2c c') in
    let fac2 := upd_nth fac1 (tc_sid c) (fun s => let s' := add_data s (pref_of p) bytes in
                                                   if fin && both then set_complete s' else s') in
    (fac2, upd_nth pool0 pos (fun _ => c')).

Definition tcp_step (st : factory * list tconn) (p : packet) : factory * list tconn :=
  let '(fac1, pool1) := tcp_flush (fst st) (snd st) (p_ts p) in
  tcp_assemble fac1 pool1 p.

(* ---------------------------------------------------------------------------------------------
   Specification side of the ideal reassembler: one direction of one connection.
   A segment = (offset into the direction's byte stream, bytes).  [reasm] feeds segments (in the
   order they arrive) to a half whose next expected offset starts at 0 and returns all delivered bytes. *)
Definition seg := (N * list N)%type.

Definition seg_page (s : seg) : page := mkPage (fst s) (snd s) (0, 0, 0) false 0.

(* one data segment through the SAME function the import model uses for an established half *)
Definition half_seg (h : half) (s : seg) : half * list N :=
  match h_next h with
  | None => (h, [])
  | Some nx => let '(h', out, _) := half_data h nx (seg_page s) false false in (h', out)
  end.

Fixpoint reasm_from (h : half) (l : list seg) : list N :=
  match l with
  | [] => []
  | s :: r => let '(h', out) := half_seg h s in out ++ reasm_from h' r
  end.

Definition reasm (l : list seg) : list N := reasm_from (mkHalf (Some 0) [] false 0) l.

(* a segment list is a perturbed segmentation of [data]: every segment is a true slice of data *)
Definition slice (data : list N) (s : seg) : Prop :=
  snd s = firstn (length (snd s)) (skipn (N.to_nat (fst s)) data) /\ (fst s + lenN (snd s) <= lenN data)%N.
