(* C04 model, part 1: the matcher of rsc.io/binaryregexp on compiled programs (RegexProg.v).
   Leftmost-first semantics: at every start position in turn, a depth-first search of the program in
   priority order (Alt: Out before Arg), as backtrack.go does it. The search cuts a path that comes back
   to an alternation it already passed without consuming a byte ([seen]); backtrack.go cuts with its
   visited set, which finds the same first path (tied by the three-way comparison of the check).
   Definitions only. *)
From Coq Require Import List NArith Bool Arith.
Import ListNotations.
Require Import Pk.RegexProg.
Local Open Scope N_scope.

Definition caps := list (option nat).

Fixpoint set_nth {A} (n : nat) (x : A) (l : list A) : list A :=
  match l, n with
  | [], _ => []
  | _ :: r, O => x :: r
  | y :: r, S n' => y :: set_nth n' x r
  end.

(* syntax.IsWordChar on the rune before / after a position; None = -1 (begin or end of text) *)
Definition is_word (b : option N) : bool :=
  match b with
  | Some c => ((65 <=? c) && (c <=? 90)) || ((97 <=? c) && (c <=? 122)) || ((48 <=? c) && (c <=? 57)) || (c =? 95)
  | None => false
  end.
Definition is_nl_or_edge (b : option N) : bool := match b with Some c => c =? 10 | None => true end.
Definition is_edge (b : option N) : bool := match b with Some _ => false | None => true end.

(* lazyFlag.match / Inst.MatchEmptyWidth: every requested assertion holds between [before] and [after] *)
Definition empty_ok (flags : nat) (before after : option N) : bool :=
  (negb (Nat.testbit flags 0) || is_nl_or_edge before) &&
  (negb (Nat.testbit flags 1) || is_nl_or_edge after) &&
  (negb (Nat.testbit flags 2) || is_edge before) &&
  (negb (Nat.testbit flags 3) || is_edge after) &&
  (negb (Nat.testbit flags 4) || negb (Bool.eqb (is_word before) (is_word after))) &&
  (negb (Nat.testbit flags 5) || Bool.eqb (is_word before) (is_word after)).

Definition before (t : list N) (pos : nat) : option N :=
  match pos with O => None | S q => nth_error t q end.

Fixpoint bt (p : prog) (t : list N) (fuel : nat) (seen : list nat) (pc pos : nat) (c : caps) : option caps :=
  match fuel with
  | O => None
  | S f =>
    match get p pc with
    | None => None
    | Some i =>
      match op i with
      | IMatch => Some (set_nth 1 (Some pos) c)
      | IFail | IBad => None
      | INop => bt p t f seen (out i) pos c
      | ICapture => bt p t f seen (out i) pos (if (arg i <? length c)%nat then set_nth (arg i) (Some pos) c else c)
      | IEmpty => if empty_ok (arg i) (before t pos) (nth_error t pos) then bt p t f seen (out i) pos c else None
      | IAlt | IAltMatch =>
          if mem pc seen then None
          else match bt p t f (pc :: seen) (out i) pos c with
               | Some r => Some r
               | None => bt p t f (pc :: seen) (arg i) pos c
               end
      | _ => match nth_error t pos with
             | Some b => if inst_matches i b then bt p t f [] (out i) (S pos) c else None
             | None => None
             end
      end
    end
  end.

(* The recursion depth [F] is a parameter of the whole model (one value per evaluated case, chosen by the
   driver above bt_fuel of every program and buffer of the case), so that statements relating runs on a
   buffer and on its slices hold for every F and need no "enough fuel" side condition. *)
Definition bt_fuel (p : prog) (t : list N) : nat := (S (length t)) * (S (size p)) * 2.

Definition match_at (F : nat) (p : prog) (ncap : nat) (t : list N) (i : nat) : option caps :=
  bt p t F [] (start p) i (set_nth 0 (Some i) (repeat None ncap)).

(* Regexp.FindSubmatchIndex: the first start position (0..len) at which the search succeeds *)
Fixpoint search_from (F : nat) (p : prog) (ncap : nat) (t : list N) (n : nat) (i : nat) : option caps :=
  match n with
  | O => None
  | S n' => match match_at F p ncap t i with
            | Some r => Some r
            | None => search_from F p ncap t n' (S i)
            end
  end.

Definition search (F : nat) (p : prog) (ncap : nat) (t : list N) : option caps := search_from F p ncap t (S (length t)) 0.

(* Prog.Prefix (the literal prefix of programs that are not one-pass, i.e. do not start with \A) *)
Fixpoint skip_nop (p : prog) (fuel : nat) (pc : nat) : option inst :=
  match fuel with
  | O => None
  | S f => match get p pc with
           | None => None
           | Some i => match op i with INop | ICapture => skip_nop p f (out i) | _ => Some i end
           end
  end.

Fixpoint prefix_loop (p : prog) (fuel : nat) (i : inst) : list N * bool :=
  match fuel with
  | O => ([], false)
  | S f =>
    if is_rune (op i) then
      match runes i with
      | [r0] => if (r0 <=? 255) && negb (fold_flag i)
                then match skip_nop p (lin_fuel p) (out i) with
                     | Some j => let (l, c) := prefix_loop p f j in (r0 :: l, c)
                     | None => ([r0], false)
                     end
                else ([], false)
      | _ => ([], false)
      end
    else ([], match op i with IMatch => true | _ => false end)
  end.

Definition prog_prefix (p : prog) : list N * bool :=
  match skip_nop p (lin_fuel p) (start p) with
  | Some i => prefix_loop p (lin_fuel p) i
  | None => ([], false)
  end.
