(* Non-interference of flows in pkappa2's UDP assembler (model: Udp.v) -- C05 theorem (2), full form.

   Layer A: the bucketed assembler (hash buckets of connections pointing into the factory by index) is
            simulated by an index-free machine over "slots" (stream, Some lastActivity | None = flushed),
            for EVERY hash function (collisions included).
   Layer B: projecting the slot list onto one flow commutes with a step: a packet of the flow acts on the
            projection like a step, any other packet acts like a mere flush at its time.
   Layer C: one flow under its own packets plus spurious flushes at non-decreasing times produces
            [flow_runs] (modulo the Complete flag, which other flows' packets may set earlier). *)
From Pk Require Import Udp UdpProofs.
From Coq Require Import Lia PeanoNat Arith.
From Coq Require Import ZifyBool ZifyN ZifyNat.

(* ------------------------------------------------------------------ list helpers *)
Lemma nth_error_ext {A} : forall (l1 l2 : list A), (forall i, nth_error l1 i = nth_error l2 i) -> l1 = l2.
Proof.
  induction l1 as [|x l1 IH]; intros [|y l2] H; auto.
  - specialize (H 0%nat). discriminate.
  - specialize (H 0%nat). discriminate.
  - pose proof (H 0%nat) as H0. simpl in H0. inversion H0; subst. f_equal. apply IH. intros i. exact (H (S i)).
Qed.

Lemma nth_error_upd_nth {A} : forall (l : list A) k f i,
  nth_error (upd_nth l k f) i = if Nat.eqb k i then option_map f (nth_error l i) else nth_error l i.
Proof.
  induction l as [|x l IH]; intros k f i.
  - replace (upd_nth [] k f) with (@nil A) by (destruct k; reflexivity).
    replace (nth_error (@nil A) i) with (@None A) by (destruct i; reflexivity).
    destruct (Nat.eqb k i); reflexivity.
  - destruct k as [|k], i as [|i]; simpl; auto.
Qed.

Lemma map_upd_nth {A B} (g : A -> B) : forall (l : list A) k f f',
  (forall x, g (f x) = f' (g x)) -> map g (upd_nth l k f) = upd_nth (map g l) k f'.
Proof. induction l as [|x l IH]; intros [|k] f f' H; simpl; auto; f_equal; auto. Qed.

Lemma upd_nth_length {A} : forall (l : list A) k f, length (upd_nth l k f) = length l.
Proof. induction l; intros [|k] f; simpl; auto. Qed.

Lemma nth_error_Some_lt' {A} (l : list A) n x : nth_error l n = Some x -> (n < length l)%nat.
Proof. intros H. apply nth_error_Some. congruence. Qed.

Lemma NoDup_map_filter {A B} (f : A -> B) (p : A -> bool) : forall l, NoDup (map f l) -> NoDup (map f (filter p l)).
Proof.
  induction l as [|x l IH]; simpl; intros H; auto. inversion H; subst.
  destruct (p x); simpl; auto. constructor; auto.
  intros Hin. apply H2. apply in_map_iff in Hin as (y & E & Hy). apply filter_In in Hy as [Hy _].
  apply in_map_iff. exists y; auto.
Qed.

(* ------------------------------------------------------------------ the slot machine *)
Notation slot := (stream * option N)%type.

Definition sflush1 (ts : N) (x : slot) : slot :=
  match snd x with
  | Some last => if expired ts last then (set_complete (fst x), None) else x
  | None => x
  end.
Definition sflush (ts : N) (sl : list slot) : list slot := map (sflush1 ts) sl.

(* the test of AssembleWithContext: exactly one of isC2S / isS2C *)
Definition smatch (s : stream) (a b : endpoint) : bool :=
  negb (Bool.eqb (ep_eqb (s_client s) a && ep_eqb (s_server s) b) (ep_eqb (s_client s) b && ep_eqb (s_server s) a)).

Definition is_open (o : option N) : bool := match o with Some _ => true | None => false end.

Definition new_slot (p : packet) : slot :=
  (add_udp_packet (new_stream false (p_src p) (p_dst p)) (pref_of p) false (p_data p), Some (p_ts p)).
Definition upd_slot (p : packet) (x : slot) : slot :=
  (add_udp_packet (fst x) (pref_of p) (ep_eqb (s_server (fst x)) (p_src p)) (p_data p), Some (p_ts p)).

Fixpoint sasm (sl : list slot) (p : packet) : list slot :=
  match sl with
  | [] => [new_slot p]
  | x :: r => if is_open (snd x) && smatch (fst x) (p_src p) (p_dst p) then upd_slot p x :: r else x :: sasm r p
  end.

Definition sstep (sl : list slot) (p : packet) : list slot := sasm (sflush (p_ts p) sl) p.

(* positional view of [sasm] *)
Lemma sasm_cases : forall sl p,
  (exists i s last, nth_error sl i = Some (s, Some last) /\ smatch s (p_src p) (p_dst p) = true /\
                    sasm sl p = upd_nth sl i (upd_slot p)) \/
  ((forall k s last, nth_error sl k = Some (s, Some last) -> smatch s (p_src p) (p_dst p) = false) /\
   sasm sl p = sl ++ [new_slot p]).
Proof.
  induction sl as [|[s o] r IH]; intros p; simpl.
  - right. split; auto. intros [|k]; discriminate.
  - destruct o as [last|]; simpl.
    + destruct (smatch s (p_src p) (p_dst p)) eqn:E.
      * left. exists 0%nat, s, last. auto.
      * destruct (IH p) as [(i & s' & l' & Hn & Hm & He)|[Hall He]].
        -- left. exists (S i), s', l'. simpl. rewrite He. auto.
        -- right. split; [|rewrite He; auto]. intros [|k] s' l' H; simpl in H; [inversion H; subst; auto|eauto].
    + destruct (IH p) as [(i & s' & l' & Hn & Hm & He)|[Hall He]].
      * left. exists (S i), s', l'. simpl. rewrite He. auto.
      * right. split; [|rewrite He; auto]. intros [|k] s' l' H; simpl in H; [discriminate|eauto].
Qed.

Lemma smatch_sym s a b : smatch s a b = smatch s b a.
Proof. unfold smatch. f_equal. destruct (ep_eqb (s_client s) a && ep_eqb (s_server s) b), (ep_eqb (s_client s) b && ep_eqb (s_server s) a); reflexivity. Qed.

Lemma add_udp_endpoints s r d b : s_client (add_udp_packet s r d b) = s_client s /\ s_server (add_udp_packet s r d b) = s_server s.
Proof. apply add_udp_client. Qed.

Lemma smatch_upd p x a b : smatch (fst (upd_slot p x)) a b = smatch (fst x) a b.
Proof. unfold smatch, upd_slot. simpl. destruct (add_udp_endpoints (fst x) (pref_of p) (ep_eqb (s_server (fst x)) (p_src p)) (p_data p)) as [-> ->]. reflexivity. Qed.

(* at most one open slot answers to a given endpoint pair *)
Definition suniq (sl : list slot) : Prop :=
  forall i j si sj li lj a b,
    nth_error sl i = Some (si, Some li) -> nth_error sl j = Some (sj, Some lj) ->
    smatch si a b = true -> smatch sj a b = true -> i = j.

Lemma suniq_sflush ts sl : suniq sl -> suniq (sflush ts sl).
Proof.
  intros H i j si sj li lj a b Hi Hj Mi Mj. unfold sflush in *.
  rewrite nth_error_map in Hi, Hj.
  destruct (nth_error sl i) as [[s1 o1]|] eqn:E1; [|discriminate].
  destruct (nth_error sl j) as [[s2 o2]|] eqn:E2; [|discriminate].
  simpl in Hi, Hj. unfold sflush1 in Hi, Hj. simpl in Hi, Hj.
  destruct o1 as [l1|]; [|discriminate]. destruct o2 as [l2|]; [|discriminate].
  destruct (expired ts l1); [discriminate|]. destruct (expired ts l2); [discriminate|].
  inversion Hi; inversion Hj; subst. eapply H; eauto.
Qed.

Lemma smatch_cases s a b : smatch s a b = true ->
  (s_client s = a /\ s_server s = b) \/ (s_client s = b /\ s_server s = a).
Proof.
  unfold smatch.
  destruct (ep_eqb (s_client s) a) eqn:E1, (ep_eqb (s_server s) b) eqn:E2,
           (ep_eqb (s_client s) b) eqn:E3, (ep_eqb (s_server s) a) eqn:E4; simpl; try discriminate; intros _;
    rewrite ?ep_eqb_eq in *; auto.
Qed.

Lemma new_slot_endpoints p : s_client (fst (new_slot p)) = p_src p /\ s_server (fst (new_slot p)) = p_dst p.
Proof. unfold new_slot. simpl. destruct (add_udp_endpoints (new_stream false (p_src p) (p_dst p)) (pref_of p) false (p_data p)) as [-> ->]. auto. Qed.

Lemma smatch_same_endpoints s s' a b : s_client s = s_client s' -> s_server s = s_server s' -> smatch s a b = smatch s' a b.
Proof. unfold smatch. intros -> ->. reflexivity. Qed.

Lemma suniq_sasm sl p : suniq sl -> suniq (sasm sl p).
Proof.
  intros H. destruct (sasm_cases sl p) as [(i0 & s0 & l0 & Hn & Hm & He)|[Hall He]]; rewrite He.
  - intros i j si sj li lj a b Hi Hj Mi Mj. rewrite nth_error_upd_nth in Hi, Hj.
    assert (G : forall k sk lk, (if Nat.eqb i0 k then option_map (upd_slot p) (nth_error sl k) else nth_error sl k) = Some (sk, Some lk) ->
                smatch sk a b = true -> exists s' l', nth_error sl k = Some (s', Some l') /\ smatch s' a b = true).
    { intros k sk lk Hk Mk. revert Hk. destruct (Nat.eqb_spec i0 k); intros Hk.
      - subst i0. rewrite Hn in Hk. simpl in Hk. inversion Hk; subst. exists s0, l0. split; auto.
        rewrite <- Mk. symmetry. apply (smatch_upd p (s0, Some l0)).
      - exists sk, lk. auto. }
    destruct (G _ _ _ Hi Mi) as (s1 & l1 & E1 & M1). destruct (G _ _ _ Hj Mj) as (s2 & l2 & E2 & M2).
    eapply H; eauto.
  - intros i j si sj li lj a b Hi Hj Mi Mj.
    assert (G : forall k sk lk, nth_error (sl ++ [new_slot p]) k = Some (sk, Some lk) -> smatch sk a b = true ->
                (k < length sl)%nat /\ nth_error sl k = Some (sk, Some lk) \/ k = length sl /\ smatch sk (p_src p) (p_dst p) = smatch sk a b /\
                  (forall s', smatch s' a b = smatch s' (p_src p) (p_dst p))).
    { intros k sk lk Hk Mk. destruct (Nat.lt_ge_cases k (length sl)).
      - left. rewrite nth_error_app1 in Hk by auto. auto.
      - right. rewrite nth_error_app2 in Hk by auto. destruct (k - length sl)%nat eqn:E; simpl in Hk; [|destruct n; discriminate].
        split; [lia|]. inversion Hk; subst.
        destruct (new_slot_endpoints p) as [Ec Es]. unfold new_slot in Ec, Es. cbn [fst] in Ec, Es.
        destruct (smatch_cases _ _ _ Mk) as [[A B]|[A B]]; rewrite Ec in A; rewrite Es in B; subst a b.
        + split; auto.
        + split; [apply smatch_sym|]. intros s'. apply smatch_sym. }
    destruct (G _ _ _ Hi Mi) as [[Li Ei]|(Li & _ & Fi)], (G _ _ _ Hj Mj) as [[Lj Ej]|(Lj & _ & Fj)].
    + eapply H; eauto.
    + exfalso. rewrite Fj in Mi. rewrite (Hall _ _ _ Ei) in Mi. discriminate.
    + exfalso. rewrite Fi in Mj. rewrite (Hall _ _ _ Ej) in Mj. discriminate.
    + lia.
Qed.

Lemma suniq_sstep sl p : suniq sl -> suniq (sstep sl p).
Proof. intros H. apply suniq_sasm, suniq_sflush, H. Qed.

(* ------------------------------------------------------------------ Layer A: simulation *)
Section Sim.
  Variable hashf : N -> N.

  Definition ehash (a b : endpoint) : N := N.lxor (N.lxor (hashf (fst a)) (hashf (fst b))) (N.lxor (snd a) (snd b)).
  Definition shash (s : stream) : N := ehash (s_client s) (s_server s).

  Lemma ehash_sym a b : ehash a b = ehash b a.
  Proof. unfold ehash. rewrite (N.lxor_comm (hashf (fst a))), (N.lxor_comm (snd a)). reflexivity. Qed.

  Lemma smatch_hash s a b : smatch s a b = true -> shash s = ehash a b.
  Proof. intros H. unfold shash. destruct (smatch_cases _ _ _ H) as [[-> ->]|[-> ->]]; auto using ehash_sym. Qed.

  Record sim (fac : factory) (m : ubuckets) (sl : list slot) : Prop := {
    sim_fac : fac = map fst sl;
    sim_keys : NoDup (map fst m);
    sim_nodup : forall h cs, In (h, cs) m -> NoDup (map uc_sid cs);
    sim_conn : forall h cs c, In (h, cs) m -> In c cs ->
               exists s, nth_error sl (uc_sid c) = Some (s, Some (uc_last c)) /\ shash s = h;
    sim_open : forall i s last, nth_error sl i = Some (s, Some last) ->
               exists cs, In (shash s, cs) m /\ In (mkUconn last i) cs }.

  (* association list facts *)
  Lemma bucket_get_in m h cs : bucket_get m h = Some cs -> In (h, cs) m.
  Proof.
    induction m as [|[k c0] r IH]; simpl; [discriminate|].
    destruct (N.eqb_spec k h); [intros E; inversion E; subst; auto|auto].
  Qed.

  Lemma in_bucket_get m h cs : NoDup (map fst m) -> In (h, cs) m -> bucket_get m h = Some cs.
  Proof.
    induction m as [|[k c0] r IH]; simpl; intros Hn Hin; [contradiction|].
    inversion Hn; subst. destruct Hin as [E|Hin].
    - inversion E; subst. rewrite N.eqb_refl. reflexivity.
    - destruct (N.eqb_spec k h); [|auto]. subst. exfalso. apply H1. apply in_map_iff. exists (h, cs). auto.
  Qed.

  Lemma bucket_get_none m h : bucket_get m h = None -> forall cs, ~ In (h, cs) m.
  Proof.
    induction m as [|[k c0] r IH]; simpl; intros H cs Hin; [auto|].
    destruct (N.eqb_spec k h); [discriminate|]. destruct Hin as [E|Hin]; [inversion E; congruence|eapply IH; eauto].
  Qed.

  Lemma bucket_set_in m h cs : forall h' cs', NoDup (map fst m) ->
    (In (h', cs') (bucket_set m h cs) <-> (h' = h /\ cs' = cs) \/ (h' <> h /\ In (h', cs') m)).
  Proof.
    induction m as [|[k c0] r IH]; intros h' cs' Hn; simpl.
    - split; [intros [E|[]]; inversion E; auto|intros [[-> ->]|[_ []]]; auto].
    - inversion Hn; subst. destruct (N.eqb_spec k h).
      + subst k. simpl. split.
        * intros [E|Hin]; [inversion E; auto|]. right. split; auto. intros ->. apply H1. apply in_map_iff. exists (h, cs'); auto.
        * intros [[-> ->]|[Hne [E|Hin]]]; auto. inversion E; congruence.
      + simpl. rewrite IH by auto. split.
        * intros [E|[A|[A B]]]; auto. inversion E; subst. auto.
        * intros [A|[A [E|B]]]; auto.
  Qed.

  Lemma bucket_set_same m h cs : NoDup (map fst m) -> In (h, cs) (bucket_set m h cs).
  Proof. intros Hn. apply bucket_set_in; auto. Qed.

  Lemma bucket_set_other m h cs h' cs' : NoDup (map fst m) -> h' <> h -> In (h', cs') m -> In (h', cs') (bucket_set m h cs).
  Proof. intros Hn Hne Hin. apply bucket_set_in; auto. Qed.

  Lemma bucket_set_keys m h cs : NoDup (map fst m) -> NoDup (map fst (bucket_set m h cs)).
  Proof.
    induction m as [|[k c0] r IH]; simpl; intros Hn.
    - constructor; auto; constructor.
    - inversion Hn; subst. destruct (N.eqb_spec k h); simpl; [constructor; auto|].
      constructor; auto. intros Hin. apply in_map_iff in Hin as ([k' c'] & E & Hin). simpl in E. subst k'.
      apply bucket_set_in in Hin; auto. destruct Hin as [[-> _]|[_ Hin]]; [congruence|].
      apply H1. apply in_map_iff. exists (k, c'); auto.
  Qed.

  (* ---- flush ---- *)
  Definition cexp (ts : N) (c : uconn) : bool := expired ts (uc_last c).
  Definition mark (f : factory) (c : uconn) : factory := upd_nth f (uc_sid c) set_complete.
  Definition keep (ts : N) (hc : N * list uconn) : ubuckets :=
    match filter (fun c => negb (cexp ts c)) (snd hc) with [] => [] | cs' => [(fst hc, cs')] end.

  Lemma flush_bucket_eq : forall cs fac ts,
    flush_bucket fac ts cs = (fold_left mark (filter (cexp ts) cs) fac, filter (fun c => negb (cexp ts c)) cs).
  Proof.
    induction cs as [|c cs IH]; intros fac ts; simpl; [reflexivity|].
    assert (Ec : cexp ts c = expired ts (uc_last c)) by reflexivity. rewrite Ec.
    destruct (expired ts (uc_last c)) eqn:E; simpl.
    - rewrite IH. reflexivity.
    - rewrite IH. reflexivity.
  Qed.

  Lemma udp_flush_eq : forall m fac ts,
    udp_flush fac m ts = (fold_left mark (filter (cexp ts) (flat_map snd m)) fac, flat_map (keep ts) m).
  Proof.
    induction m as [|[h cs] r IH]; intros fac ts; simpl; [reflexivity|].
    rewrite flush_bucket_eq, IH. rewrite filter_app, fold_left_app. unfold keep. simpl.
    destruct (filter (fun c => negb (cexp ts c)) cs); reflexivity.
  Qed.

  Lemma nth_mark : forall L fac i,
    nth_error (fold_left mark L fac) i =
    option_map (fun s => if existsb (fun c => Nat.eqb (uc_sid c) i) L then set_complete s else s) (nth_error fac i).
  Proof.
    induction L as [|c L IH]; intros fac i; simpl.
    - destruct (nth_error fac i); reflexivity.
    - rewrite IH. unfold mark. rewrite nth_error_upd_nth.
      destruct (Nat.eqb (uc_sid c) i); simpl; destruct (nth_error fac i); simpl; auto.
      destruct (existsb (fun c0 => Nat.eqb (uc_sid c0) i) L); reflexivity.
  Qed.

  Lemma in_keep ts m h cs' : In (h, cs') (flat_map (keep ts) m) <->
    exists cs, In (h, cs) m /\ cs' = filter (fun c => negb (cexp ts c)) cs /\ cs' <> [].
  Proof.
    rewrite in_flat_map. split.
    - intros ([h0 cs] & Hin & Hk). unfold keep in Hk. simpl in Hk.
      destruct (filter (fun c => negb (cexp ts c)) cs) eqn:E; [destruct Hk|].
      destruct Hk as [Hk|[]]. inversion Hk; subst. exists cs. split; auto. split; auto. discriminate.
    - intros (cs & Hin & -> & Hne). exists (h, cs). split; auto. unfold keep. simpl.
      destruct (filter (fun c => negb (cexp ts c)) cs); [congruence|left; reflexivity].
  Qed.

  Lemma keep_keys ts m : NoDup (map fst m) -> NoDup (map fst (flat_map (keep ts) m)).
  Proof.
    induction m as [|[h cs] r IH]; simpl; intros Hn; [constructor|]. inversion Hn; subst.
    unfold keep at 1. simpl. destruct (filter (fun c => negb (cexp ts c)) cs); simpl; auto.
    constructor; auto. intros Hin. apply in_map_iff in Hin as ([h' c'] & E & Hin). simpl in E; subst h'.
    apply in_keep in Hin as (cs0 & Hin & _). apply H1. apply in_map_iff. exists (h, cs0); auto.
  Qed.

  Lemma sim_flush fac m sl ts :
    sim fac m sl -> sim (fst (udp_flush fac m ts)) (snd (udp_flush fac m ts)) (sflush ts sl).
  Proof.
    intros [Hf Hk Hnd Hc Ho]. rewrite udp_flush_eq. simpl fst; simpl snd. constructor.
    - (* factory *)
      apply nth_error_ext. intros i. rewrite nth_mark. subst fac. unfold sflush. rewrite !nth_error_map.
      destruct (nth_error sl i) as [[s o]|] eqn:E; simpl; [|reflexivity]. f_equal.
      unfold sflush1. simpl.
      destruct (existsb (fun c => Nat.eqb (uc_sid c) i) (filter (cexp ts) (flat_map snd m))) eqn:Ex.
      + apply existsb_exists in Ex as (c & Hin & Hi). apply Nat.eqb_eq in Hi.
        apply filter_In in Hin as [Hin Hexp]. apply in_flat_map in Hin as ([h cs] & Hin & Hcin).
        destruct (Hc _ _ _ Hin Hcin) as (s' & Hs' & _). rewrite Hi, E in Hs'. inversion Hs'; subst.
        unfold cexp in Hexp. rewrite Hexp. reflexivity.
      + destruct o as [last|]; auto. destruct (expired ts last) eqn:Hexp; auto. exfalso.
        destruct (Ho _ _ _ E) as (cs & Hin & Hcin).
        assert (existsb (fun c => Nat.eqb (uc_sid c) i) (filter (cexp ts) (flat_map snd m)) = true); [|congruence].
        apply existsb_exists. exists (mkUconn last i). split; [|simpl; apply Nat.eqb_refl].
        apply filter_In. split; [|exact Hexp]. apply in_flat_map. exists (shash s, cs). auto.
    - apply keep_keys; auto.
    - intros h cs' Hin. apply in_keep in Hin as (cs & Hin & -> & _). apply NoDup_map_filter. eauto.
    - intros h cs' c Hin Hcin. apply in_keep in Hin as (cs & Hin & -> & _).
      apply filter_In in Hcin as [Hcin Hne]. destruct (Hc _ _ _ Hin Hcin) as (s & Hs & Hh).
      exists s. split; auto. unfold sflush. rewrite nth_error_map, Hs. simpl. unfold sflush1. simpl.
      unfold cexp in Hne. destruct (expired ts (uc_last c)); [discriminate|reflexivity].
    - intros i s last Hi. unfold sflush in Hi. rewrite nth_error_map in Hi.
      destruct (nth_error sl i) as [[s0 o0]|] eqn:E; [|discriminate]. simpl in Hi. unfold sflush1 in Hi. simpl in Hi.
      destruct o0 as [l0|]; [|discriminate]. destruct (expired ts l0) eqn:Hexp; [discriminate|]. inversion Hi; subst.
      destruct (Ho _ _ _ E) as (cs & Hin & Hcin).
      assert (Hf : In (mkUconn last i) (filter (fun c => negb (cexp ts c)) cs)).
      { apply filter_In. split; auto. unfold cexp. simpl. rewrite Hexp. reflexivity. }
      exists (filter (fun c => negb (cexp ts c)) cs). split; auto.
      apply in_keep. exists cs. split; auto. split; auto. intros E0. rewrite E0 in Hf. destruct Hf.
  Qed.

  (* ---- assemble ---- *)
  Lemma find_conn_step fac c r pos a b s : nth_error fac (uc_sid c) = Some s ->
    find_conn fac (c :: r) pos a b =
    if smatch s a b then Some (pos, uc_sid c, ep_eqb (s_server s) a) else find_conn fac r (S pos) a b.
  Proof.
    simpl. intros ->. unfold smatch.
    destruct (Bool.eqb (ep_eqb (s_client s) a && ep_eqb (s_server s) b) (ep_eqb (s_client s) b && ep_eqb (s_server s) a)); reflexivity.
  Qed.

  Lemma find_conn_some fac a b : forall cs pos0 pos sid dir,
    find_conn fac cs pos0 a b = Some (pos, sid, dir) ->
    exists k c s, pos = (pos0 + k)%nat /\ nth_error cs k = Some c /\ uc_sid c = sid /\
                  nth_error fac sid = Some s /\ smatch s a b = true /\ dir = ep_eqb (s_server s) a.
  Proof.
    induction cs as [|c r IH]; intros pos0 pos sid dir H; [discriminate|].
    destruct (nth_error fac (uc_sid c)) as [s|] eqn:E.
    - rewrite (find_conn_step _ _ _ _ _ _ _ E) in H. destruct (smatch s a b) eqn:M.
      + inversion H; subst. exists 0%nat, c, s. repeat split; auto; lia.
      + destruct (IH _ _ _ _ H) as (k & c' & s' & -> & A & B & C & D & F).
        exists (S k), c', s'. repeat split; auto; lia.
    - simpl in H. rewrite E in H. destruct (IH _ _ _ _ H) as (k & c' & s' & -> & A & B & C & D & F).
      exists (S k), c', s'. repeat split; auto; lia.
  Qed.

  Lemma find_conn_none fac a b : forall cs pos0,
    find_conn fac cs pos0 a b = None ->
    forall c s, In c cs -> nth_error fac (uc_sid c) = Some s -> smatch s a b = false.
  Proof.
    induction cs as [|c r IH]; intros pos0 H c' s' Hin Hs; [destruct Hin|].
    destruct (nth_error fac (uc_sid c)) as [s|] eqn:E.
    - rewrite (find_conn_step _ _ _ _ _ _ _ E) in H. destruct (smatch s a b) eqn:M; [discriminate|].
      destruct Hin as [<-|Hin]; [congruence|eauto].
    - simpl in H. rewrite E in H. destruct Hin as [<-|Hin]; [congruence|eauto].
  Qed.

  Lemma map_upd_nth_inv {A B} (g : A -> B) : forall (l : list A) k f, (forall x, g (f x) = g x) -> map g (upd_nth l k f) = map g l.
  Proof. induction l as [|x l IH]; intros [|k] f H; simpl; auto; f_equal; auto. Qed.

  Lemma NoDup_snoc {A} (l : list A) x : NoDup l -> ~ In x l -> NoDup (l ++ [x]).
  Proof.
    induction l as [|y l IH]; simpl; intros Hn Hx; [constructor; auto; constructor|].
    inversion Hn; subst. constructor.
    - intros Hin. apply in_app_or in Hin as [Hin|[<-|[]]]; auto.
    - apply IH; auto.
  Qed.

  Lemma NoDup_map_nth {A B} (g : A -> B) (l : list A) i j x y :
    NoDup (map g l) -> nth_error l i = Some x -> nth_error l j = Some y -> g x = g y -> i = j.
  Proof.
    intros Hn Hi Hj E. eapply (proj1 (NoDup_nth_error (map g l)) Hn).
    - apply nth_error_Some_lt' in Hi. rewrite map_length. exact Hi.
    - rewrite !nth_error_map, Hi, Hj. simpl. congruence.
  Qed.

  Lemma shash_upd p x : shash (fst (upd_slot p x)) = shash (fst x).
  Proof. unfold shash, upd_slot. simpl. destruct (add_udp_endpoints (fst x) (pref_of p) (ep_eqb (s_server (fst x)) (p_src p)) (p_data p)) as [-> ->]. reflexivity. Qed.

  Lemma shash_new p : shash (fst (new_slot p)) = ehash (p_src p) (p_dst p).
  Proof. unfold shash. destruct (new_slot_endpoints p) as [-> ->]. reflexivity. Qed.

  Lemma udp_hash_ehash p : udp_hash hashf p = ehash (p_src p) (p_dst p).
  Proof. reflexivity. Qed.

  Lemma same_bucket (m : ubuckets) h cs1 cs2 : NoDup (map fst m) -> In (h, cs1) m -> In (h, cs2) m -> cs1 = cs2.
  Proof. intros Hn H1 H2. apply (in_bucket_get _ _ _ Hn) in H1, H2. congruence. Qed.

  Lemma sim_assemble fac m sl p :
    sim fac m sl -> suniq sl ->
    sim (fst (udp_assemble hashf fac m p)) (snd (udp_assemble hashf fac m p)) (sasm sl p).
  Proof.
    intros Hsim Hu. pose proof Hsim as [Hf Hk Hnd Hc Ho].
    unfold udp_assemble. rewrite udp_hash_ehash. set (h := ehash (p_src p) (p_dst p)).
    assert (Hfac : forall k, nth_error fac k = option_map fst (nth_error sl k)).
    { intros k. subst fac. apply nth_error_map. }
    destruct (sasm_cases sl p) as [(i & s & last & Hn & Hm & He)|[Hall He]]; rewrite He.
    - (* an open connection of this 4-tuple exists *)
      destruct (Ho _ _ _ Hn) as (cs & Hin & Hcin).
      assert (Hh : shash s = h) by (apply smatch_hash; auto). rewrite Hh in Hin.
      rewrite (in_bucket_get _ _ _ Hk Hin).
      destruct (find_conn fac cs 0 (p_src p) (p_dst p)) as [[[pos sid] dir]|] eqn:Efc.
      2:{ exfalso. pose proof (find_conn_none _ _ _ _ _ Efc (mkUconn last i) s Hcin) as Hx.
          simpl in Hx. rewrite Hfac, Hn in Hx. specialize (Hx eq_refl). congruence. }
      destruct (find_conn_some _ _ _ _ _ _ _ _ Efc) as (k & c & s1 & -> & Hck & Hsid & Hs1 & Hm1 & Hdir).
      simpl Nat.add in *.
      assert (Hcin' : In c cs) by (eapply nth_error_In; eauto).
      destruct (Hc _ _ _ Hin Hcin') as (s2 & Hs2 & _). rewrite Hsid in Hs2.
      rewrite Hfac, Hs2 in Hs1. simpl in Hs1. inversion Hs1; subst s2.
      assert (Hi : sid = i) by (symmetry; eapply Hu; eauto).
      rewrite Hi in *. clear Hi sid.
      rewrite Hn in Hs2. inversion Hs2 as [[Es El]]. subst s1. clear Hs1 Hs2.
      assert (Ec : c = mkUconn last i) by (destruct c; simpl in *; congruence). subst c. clear Hsid El.
      cbn [fst snd].
      set (G := fun c : uconn => mkUconn (p_ts p) (uc_sid c)).
      assert (Hk' : forall j, nth_error (upd_nth cs k G) j = if Nat.eqb k j then option_map G (nth_error cs j) else nth_error cs j)
        by (intros; apply nth_error_upd_nth).
      constructor.
      + apply nth_error_ext. intros j. rewrite nth_error_upd_nth, nth_error_map, nth_error_upd_nth, Hfac.
        destruct (Nat.eqb_spec i j); [|reflexivity]. subst j. rewrite Hn. simpl. rewrite Hdir. reflexivity.
      + apply bucket_set_keys; auto.
      + intros h' cs'' Hin'. apply bucket_set_in in Hin'; auto. destruct Hin' as [[-> ->]|[_ Hin']]; [|eauto].
        rewrite map_upd_nth_inv by reflexivity. eauto.
      + intros h' cs'' c' Hin' Hc'. apply bucket_set_in in Hin'; auto. destruct Hin' as [[-> ->]|[Hne Hin']].
        * apply In_nth_error in Hc' as [j Hj]. rewrite Hk' in Hj. destruct (Nat.eqb_spec k j).
          -- subst j. rewrite Hck in Hj. simpl in Hj. inversion Hj; subst c'. simpl.
             exists (fst (upd_slot p (s, Some last))). rewrite nth_error_upd_nth, Nat.eqb_refl, Hn. simpl.
             split; [reflexivity|]. rewrite <- Hh.  apply (shash_upd p (s, Some last)).
          -- assert (Hne : uc_sid c' <> i).
             { intros E. apply n. eapply (NoDup_map_nth uc_sid cs); eauto. }
             destruct (Hc _ _ _ Hin (nth_error_In _ _ Hj)) as (s3 & Hs3 & Hh3). exists s3. split; auto.
             rewrite nth_error_upd_nth. destruct (Nat.eqb_spec i (uc_sid c')); [congruence|auto].
        * destruct (Hc _ _ _ Hin' Hc') as (s3 & Hs3 & Hh3). exists s3. split; auto.
          rewrite nth_error_upd_nth. destruct (Nat.eqb_spec i (uc_sid c')); [|auto].
          exfalso. rewrite <- e, Hn in Hs3. inversion Hs3; subst. congruence.
      + intros j s1 l1 Hj. rewrite nth_error_upd_nth in Hj. destruct (Nat.eqb_spec i j).
        * subst j. rewrite Hn in Hj. simpl in Hj. inversion Hj; subst s1 l1.
          exists (upd_nth cs k G). split.
          -- assert (Eh : shash (add_udp_packet s (pref_of p) (ep_eqb (s_server s) (p_src p)) (p_data p)) = h)
               by (rewrite <- Hh; apply (shash_upd p (s, Some last))).
             rewrite Eh. apply bucket_set_same; auto.
          -- eapply nth_error_In. rewrite Hk', Nat.eqb_refl, Hck. reflexivity.
        * destruct (Ho _ _ _ Hj) as (cs1 & Hin1 & Hc1).
          destruct (N.eq_dec (shash s1) h) as [E|E].
          -- rewrite E in Hin1. rewrite (same_bucket _ _ _ _ Hk Hin1 Hin) in *. rewrite E.
             exists (upd_nth cs k G). split; [apply bucket_set_same; auto|].
             apply In_nth_error in Hc1 as [q Hq]. apply (nth_error_In _ q). rewrite Hk'.
             destruct (Nat.eqb_spec k q); [|exact Hq]. subst q. rewrite Hck in Hq. inversion Hq. congruence.
          -- exists cs1. split; auto. apply bucket_set_other; auto.
    - (* no open connection: a new stream and a new connection *)
      set (cs := match bucket_get m h with Some cs => cs | None => [] end).
      assert (Hcs : forall c, In c cs -> In (h, cs) m).
      { intros c Hcin. unfold cs in *. destruct (bucket_get m h) eqn:E; [apply bucket_get_in; auto|destruct Hcin]. }
      assert (Efc : find_conn fac cs 0 (p_src p) (p_dst p) = None).
      { destruct (find_conn fac cs 0 (p_src p) (p_dst p)) as [[[pos sid] dir]|] eqn:Efc; auto. exfalso.
        destruct (find_conn_some _ _ _ _ _ _ _ _ Efc) as (k & c & s1 & _ & Hck & Hsid & Hs1 & Hm1 & _).
        pose proof (nth_error_In _ _ Hck) as Hcin.
        destruct (Hc _ _ _ (Hcs _ Hcin) Hcin) as (s2 & Hs2 & _). rewrite Hsid in Hs2.
        rewrite Hfac, Hs2 in Hs1. simpl in Hs1. inversion Hs1; subst. rewrite (Hall _ _ _ Hs2) in Hm1. discriminate. }
      rewrite Efc. cbn [fst snd].
      assert (Hlen : length fac = length sl) by (subst fac; apply map_length).
      set (newc := mkUconn (p_ts p) (length fac)).
      assert (Hvalid : forall c, In c cs -> (uc_sid c < length sl)%nat).
      { intros c Hcin. destruct (Hc _ _ _ (Hcs _ Hcin) Hcin) as (s2 & Hs2 & _). eapply nth_error_Some_lt'; eauto. }
      constructor.
      + rewrite map_app. subst fac. reflexivity.
      + apply bucket_set_keys; auto.
      + intros h' cs'' Hin'. apply bucket_set_in in Hin'; auto. destruct Hin' as [[-> ->]|[_ Hin']]; [|eauto].
        rewrite map_app. simpl. apply NoDup_snoc.
        * destruct cs as [|c0 r0] eqn:Ecs; [constructor|]. rewrite <- Ecs in *. apply (Hnd h). apply (Hcs c0). rewrite Ecs. left; auto.
        * intros Hin'. apply in_map_iff in Hin' as (c & E & Hcin). specialize (Hvalid _ Hcin). lia.
      + intros h' cs'' c' Hin' Hc'. apply bucket_set_in in Hin'; auto. destruct Hin' as [[-> ->]|[Hne Hin']].
        * apply in_app_or in Hc' as [Hc'|[<-|[]]].
          -- destruct (Hc _ _ _ (Hcs _ Hc') Hc') as (s3 & Hs3 & Hh3). exists s3. split; auto.
             rewrite nth_error_app1; auto; eapply nth_error_Some_lt'; eauto.
          -- exists (fst (new_slot p)). simpl. rewrite Hlen, nth_error_app2, Nat.sub_diag by lia. simpl.
             split; [reflexivity|apply shash_new].
        * destruct (Hc _ _ _ Hin' Hc') as (s3 & Hs3 & Hh3). exists s3. split; auto.
          rewrite nth_error_app1; auto; eapply nth_error_Some_lt'; eauto.
      + intros j s1 l1 Hj. destruct (Nat.lt_ge_cases j (length sl)) as [Hlt|Hge].
        * rewrite nth_error_app1 in Hj by auto. destruct (Ho _ _ _ Hj) as (cs1 & Hin1 & Hc1).
          destruct (N.eq_dec (shash s1) h) as [E|E].
          -- rewrite E in *. assert (cs1 = cs).
             { unfold cs. rewrite (in_bucket_get _ _ _ Hk Hin1). reflexivity. }
             subst cs1. exists (cs ++ [newc]). split; [apply bucket_set_same; auto|apply in_or_app; auto].
          -- exists cs1. split; auto. apply bucket_set_other; auto.
        * rewrite nth_error_app2 in Hj by auto. destruct (j - length sl)%nat eqn:Ej; simpl in Hj; [|destruct n; discriminate].
          inversion Hj; subst s1 l1. assert (j = length sl) by lia. subst j.
          exists (cs ++ [newc]). split.
          -- assert (Eh : shash (add_udp_packet (new_stream false (p_src p) (p_dst p)) (pref_of p) false (p_data p)) = h)
               by (apply shash_new).
             rewrite Eh. apply bucket_set_same; auto.
          -- apply in_or_app. right. left. unfold newc. rewrite Hlen. reflexivity.
  Qed.

  (* the whole run *)
  Lemma sim_step fac m sl p : sim fac m sl -> suniq sl ->
    sim (fst (udp_step hashf (fac, m) p)) (snd (udp_step hashf (fac, m) p)) (sstep sl p).
  Proof.
    intros Hs Hu. unfold udp_step, sstep. cbn [fst snd].
    pose proof (sim_flush fac m sl (p_ts p) Hs) as Hs'.
    destruct (udp_flush fac m (p_ts p)) as [fac1 m1]. cbn [fst snd] in *.
    apply sim_assemble; auto. apply suniq_sflush; auto.
  Qed.

  Lemma sim_run : forall l fac m sl, sim fac m sl -> suniq sl ->
    fst (fold_left (udp_step hashf) l (fac, m)) = map fst (fold_left sstep l sl).
  Proof.
    induction l as [|p l IH]; intros fac m sl Hs Hu; simpl.
    - apply (sim_fac _ _ _ Hs).
    - pose proof (sim_step fac m sl p Hs Hu) as Hs'.
      destruct (udp_step hashf (fac, m) p) as [fac1 m1]. cbn [fst snd] in Hs'.
      apply IH; auto. apply suniq_sstep; auto.
  Qed.

  Lemma sim_empty : sim [] [] [].
  Proof.
    constructor; simpl; auto; try constructor; try (intros; contradiction).
    intros i s last H. destruct i; discriminate.
  Qed.

  Lemma suniq_empty : suniq [].
  Proof. intros i j si sj li lj a b H. destruct i; discriminate. Qed.

  (* Layer A: the factory of the bucketed assembler is the stream column of the slot machine *)
  Theorem udp_run_slots : forall l, fst (udp_run hashf l) = map fst (fold_left sstep l []).
  Proof. intros l. apply sim_run; auto using sim_empty, suniq_empty. Qed.
End Sim.

(* ------------------------------------------------------------------ Layer B: projection onto one flow *)
Definition forget (s : stream) : stream :=
  mkStream (s_client s) (s_server s) (s_tcp s) false (s_npk s) (s_pkts s) (s_data s).

Section Flow.
  Variables a b : endpoint.
  Hypothesis a_neq_b : a <> b.

  Definition sflow (s : stream) : bool :=
    (ep_eqb (s_client s) a && ep_eqb (s_server s) b) || (ep_eqb (s_client s) b && ep_eqb (s_server s) a).
  Definition pK (x : slot) : bool := sflow (fst x).

  Lemma same_flow_cases p : same_flow a b p = true -> (p_src p = a /\ p_dst p = b) \/ (p_src p = b /\ p_dst p = a).
  Proof.
    unfold same_flow. rewrite Bool.orb_true_iff, !Bool.andb_true_iff, !ep_eqb_eq. tauto.
  Qed.

  Lemma smatch_ab s : smatch s a b = sflow s.
  Proof.
    unfold smatch, sflow.
    destruct (ep_eqb (s_client s) a) eqn:E1, (ep_eqb (s_server s) b) eqn:E2,
             (ep_eqb (s_client s) b) eqn:E3, (ep_eqb (s_server s) a) eqn:E4; simpl; auto.
    exfalso. apply ep_eqb_eq in E1, E3. congruence.
  Qed.

  Lemma smatch_own p s : same_flow a b p = true -> smatch s (p_src p) (p_dst p) = sflow s.
  Proof.
    intros H. destruct (same_flow_cases p H) as [[-> ->]|[-> ->]].
    - apply smatch_ab.
    - rewrite smatch_sym. apply smatch_ab.
  Qed.

  Lemma smatch_foreign p s : same_flow a b p = false -> smatch s (p_src p) (p_dst p) = true -> sflow s = false.
  Proof.
    intros Hf Hm. destruct (sflow s) eqn:E; auto. exfalso.
    unfold sflow in E. rewrite Bool.orb_true_iff, !Bool.andb_true_iff, !ep_eqb_eq in E.
    assert (same_flow a b p = true); [|congruence].
    unfold same_flow. rewrite Bool.orb_true_iff, !Bool.andb_true_iff, !ep_eqb_eq.
    destruct (smatch_cases _ _ _ Hm) as [[A B]|[A B]], E as [[C D]|[C D]]; rewrite <- A, <- B; auto.
  Qed.

  Lemma pK_sflush1 ts x : pK (sflush1 ts x) = pK x.
  Proof. unfold pK, sflush1. destruct (snd x); auto. destruct (expired ts n); auto. Qed.

  Lemma pK_upd p x : pK (upd_slot p x) = pK x.
  Proof. unfold pK, sflow. destruct (add_udp_endpoints (fst x) (pref_of p) (ep_eqb (s_server (fst x)) (p_src p)) (p_data p)) as [A B].
         unfold upd_slot. simpl. rewrite A, B. reflexivity. Qed.

  Lemma pK_new p : pK (new_slot p) = same_flow a b p.
  Proof. unfold pK, sflow, same_flow. destruct (new_slot_endpoints p) as [-> ->]. reflexivity. Qed.

  Lemma proj_sflush ts sl : filter pK (sflush ts sl) = sflush ts (filter pK sl).
  Proof.
    induction sl as [|x sl IH]; simpl; auto. rewrite pK_sflush1. destruct (pK x); simpl; rewrite IH; reflexivity.
  Qed.

  Lemma proj_own p : same_flow a b p = true -> forall sl, filter pK (sasm sl p) = sasm (filter pK sl) p.
  Proof.
    intros Hp. induction sl as [|x sl IH]; simpl.
    - rewrite pK_new, Hp. reflexivity.
    - rewrite (smatch_own p _ Hp). fold (pK x).
      destruct (is_open (snd x)) eqn:Eo, (pK x) eqn:Ek; simpl.
      + rewrite pK_upd, Ek. rewrite Eo. rewrite (smatch_own p _ Hp). fold (pK x). rewrite Ek. reflexivity.
      + rewrite Ek. exact IH.
      + rewrite Ek. simpl. rewrite Eo. simpl. rewrite IH. reflexivity.
      + rewrite Ek. exact IH.
  Qed.

  Lemma proj_foreign p : same_flow a b p = false -> forall sl, filter pK (sasm sl p) = filter pK sl.
  Proof.
    intros Hp. induction sl as [|x sl IH]; simpl.
    - rewrite pK_new, Hp. reflexivity.
    - destruct (is_open (snd x) && smatch (fst x) (p_src p) (p_dst p)) eqn:E; simpl.
      + apply Bool.andb_true_iff in E as [_ E]. pose proof (smatch_foreign p _ Hp E) as Hk.
        assert (Hk' : pK x = false) by exact Hk. rewrite pK_upd, Hk'. reflexivity.
      + rewrite IH. reflexivity.
  Qed.

  Definition pstep (q : list slot) (p : packet) : list slot :=
    if same_flow a b p then sstep q p else sflush (p_ts p) q.

  Lemma proj_run : forall l sl, filter pK (fold_left sstep l sl) = fold_left pstep l (filter pK sl).
  Proof.
    induction l as [|p l IH]; intros sl; simpl; auto. rewrite IH. f_equal.
    unfold pstep, sstep. destruct (same_flow a b p) eqn:E.
    - rewrite proj_own by auto. rewrite proj_sflush. reflexivity.
    - rewrite proj_foreign by auto. apply proj_sflush.
  Qed.

  (* ---------------------------------------------------------------- Layer C: one flow with spurious flushes *)
  Definition fstate := (list stream * option (stream * N))%type.
  Definition fnew (p : packet) : stream := add_udp_packet (new_stream false (p_src p) (p_dst p)) (pref_of p) false (p_data p).
  Definition fstep (st : fstate) (p : packet) : fstate :=
    match snd st with
    | Some (s, last) =>
        if expired (p_ts p) last then (fst st ++ [set_complete s], Some (fnew p, p_ts p))
        else (fst st, Some (add_udp_packet s (pref_of p) (ep_eqb (s_server s) (p_src p)) (p_data p), p_ts p))
    | None => (fst st, Some (fnew p, p_ts p))
    end.
  Definition fout (st : fstate) : list stream := fst st ++ match snd st with Some (s, _) => [s] | None => [] end.

  Lemma flow_runs_fold : forall l closed cur, closed ++ flow_runs cur l = fout (fold_left fstep l (closed, cur)).
  Proof.
    induction l as [|p l IH]; intros closed cur; simpl.
    - destruct cur as [[s last]|]; reflexivity.
    - destruct cur as [[s last]|]; unfold fstep at 2; simpl.
      + destruct (expired (p_ts p) last).
        * rewrite <- IH. rewrite <- app_assoc. reflexivity.
        * apply IH.
      + apply IH.
  Qed.

  Fixpoint tsorted (now : N) (l : list packet) : Prop :=
    match l with [] => True | p :: r => now <= p_ts p /\ tsorted (p_ts p) r end.

  Lemma forget_add s r d bts : forget (add_udp_packet s r d bts) = add_udp_packet (forget s) r d bts.
  Proof.
    unfold add_udp_packet, add_data. destruct bts as [|x bts]; [reflexivity|].
    cbn [s_pkts s_npk add_packet forget].
    destruct (find_back ((r, d) :: s_pkts s) (s_npk s + 1) r); reflexivity.
  Qed.

  Lemma forget_server s s' : forget s = forget s' -> s_server s = s_server s'.
  Proof. intros H. apply (f_equal s_server) in H. exact H. Qed.

  Lemma forget_set_complete s : forget (set_complete s) = forget s.
  Proof. reflexivity. Qed.

  Record Iq (q : list slot) (st : fstate) (now : N) : Prop := {
    iq_out : map (fun x => forget (fst x)) q = map forget (fout st);
    iq_cur : match snd st with
             | None => q = []
             | Some (s, last) =>
                 exists q0 s' o, q = q0 ++ [(s', o)] /\ Forall (fun x => snd x = None) q0 /\
                                 forget s' = forget s /\ sflow s' = true /\
                                 (o = Some last \/ (o = None /\ last + timeout < now))
             end }.

  Lemma sflush_closed ts q0 : Forall (fun x : slot => snd x = None) q0 -> sflush ts q0 = q0.
  Proof.
    induction 1 as [|x q0 Hx _ IH]; simpl; auto. rewrite IH. f_equal. unfold sflush1. rewrite Hx. reflexivity.
  Qed.

  Lemma sasm_closed p q0 r : Forall (fun x : slot => snd x = None) q0 -> sasm (q0 ++ r) p = q0 ++ sasm r p.
  Proof. induction 1 as [|x q0 Hx _ IH]; simpl; auto. rewrite Hx. simpl. rewrite IH. reflexivity. Qed.

  Lemma forget_sflush ts q : map (fun x => forget (fst x)) (sflush ts q) = map (fun x => forget (fst x)) q.
  Proof.
    unfold sflush. rewrite map_map. apply map_ext. intros x. unfold sflush1.
    destruct (snd x); auto. destruct (expired ts n); auto.
  Qed.

  Lemma I_tick q st now t : Iq q st now -> now <= t -> Iq (sflush t q) st t.
  Proof.
    intros [H1 H2] Hle. constructor.
    - rewrite forget_sflush. exact H1.
    - destruct (snd st) as [[s last]|]; [|subst q; reflexivity].
      destruct H2 as (q0 & s' & o & -> & Hc & Hf & Hk & Ho).
      unfold sflush. rewrite map_app. fold (sflush t q0). rewrite sflush_closed by auto. simpl.
      unfold sflush1. simpl. destruct Ho as [->|[-> Hlt]].
      + destruct (expired t last) eqn:E.
        * exists q0, (set_complete s'), None. repeat split; auto. right. split; auto.
          unfold expired in E. apply N.ltb_lt in E. exact E.
        * exists q0, s', (Some last). repeat split; auto.
      + exists q0, s', None. repeat split; auto. right. split; auto. lia.
  Qed.

  Lemma I_own q st now p : Iq q st now -> now <= p_ts p -> same_flow a b p = true ->
    Iq (sstep q p) (fstep st p) (p_ts p).
  Proof.
    intros [H1 H2] Hle Hp. unfold sstep, fstep.
    destruct (snd st) as [[s last]|] eqn:Est.
    - destruct H2 as (q0 & s' & o & -> & Hc & Hf & Hk & Ho).
      unfold sflush. rewrite map_app. fold (sflush (p_ts p) q0). rewrite sflush_closed by auto. simpl map.
      rewrite sasm_closed by auto.
      unfold fout in H1. rewrite Est in H1. rewrite !map_app in H1. simpl in H1.
      assert (Hpre : map (fun x => forget (fst x)) q0 = map forget (fst st)).
      { apply app_inj_tail in H1 as [H1 _]. exact H1. }
      assert (Hnew : Iq (q0 ++ [(if is_open o then set_complete s' else s', None); new_slot p])
                        (fst st ++ [set_complete s], Some (fnew p, p_ts p)) (p_ts p)).
      { constructor.
        - unfold fout. simpl. rewrite !map_app. simpl. rewrite Hpre. rewrite <- app_assoc. simpl. f_equal.
          assert (EX : forget (if is_open o then set_complete s' else s') = forget (set_complete s)).
          { rewrite forget_set_complete. destruct (is_open o); rewrite ?forget_set_complete; exact Hf. }
          rewrite EX. reflexivity.
        - simpl. exists (q0 ++ [(if is_open o then set_complete s' else s', None)]), (fnew p), (Some (p_ts p)).
          split; [rewrite <- app_assoc; reflexivity|]. split; [apply Forall_app; split; auto|].
          split; [reflexivity|]. split; [|left; reflexivity].
          change (pK (new_slot p) = true). rewrite pK_new. exact Hp. }
      unfold sflush1. simpl.
      destruct Ho as [->|[-> Hlt]].
      + destruct (expired (p_ts p) last) eqn:E; simpl.
        * exact Hnew.
        * rewrite (smatch_own p _ Hp), Hk. simpl.
          constructor.
          -- unfold fout. simpl. rewrite !map_app. simpl. rewrite Hpre. f_equal. f_equal.
             rewrite !forget_add. rewrite Hf. rewrite (forget_server _ _ Hf). reflexivity.
          -- simpl. exists q0, (fst (upd_slot p (s', Some last))), (Some (p_ts p)).
             split; [reflexivity|]. split; auto. split.
             ++ unfold upd_slot. simpl. rewrite !forget_add. rewrite Hf. rewrite (forget_server _ _ Hf). reflexivity.
             ++ split; [|left; reflexivity]. change (pK (upd_slot p (s', Some last)) = true). rewrite pK_upd. exact Hk.
      + assert (E : expired (p_ts p) last = true) by (unfold expired; apply N.ltb_lt; lia).
        rewrite E. simpl. exact Hnew.
    - subst q. simpl. constructor.
      + unfold fout in *. rewrite Est in H1. simpl in *. rewrite app_nil_r in H1.
        rewrite map_app. simpl. rewrite <- H1. reflexivity.
      + simpl. exists [], (fnew p), (Some (p_ts p)). split; [reflexivity|]. split; [constructor|].
        split; [reflexivity|]. split; [|left; reflexivity].
        change (pK (new_slot p) = true). rewrite pK_new. exact Hp.
  Qed.

  Lemma run_inv : forall l q st now, Iq q st now -> tsorted now l ->
    map (fun x => forget (fst x)) (fold_left pstep l q) =
    map forget (fout (fold_left fstep (filter (same_flow a b) l) st)).
  Proof.
    induction l as [|p l IH]; intros q st now Hi Hs; simpl.
    - apply (iq_out _ _ _ Hi).
    - destruct Hs as [Hle Hs]. unfold pstep at 2. destruct (same_flow a b p) eqn:E; simpl.
      + apply (IH _ _ (p_ts p)); auto. apply (I_own _ _ now); auto.
      + apply (IH _ _ (p_ts p)); auto. apply (I_tick _ _ now); auto.
  Qed.

  Lemma filter_map_fst (sl : list slot) : filter sflow (map fst sl) = map fst (filter pK sl).
  Proof. induction sl as [|x sl IH]; simpl; auto. unfold pK at 1. destruct (sflow (fst x)); simpl; rewrite IH; reflexivity. Qed.

  (* C05 theorem (2): non-interference of flows in the UDP assembler *)
  Theorem udp_flows_do_not_interfere : forall (hashf : N -> N) (l : list packet),
    tsorted 0 l ->
    map forget (filter sflow (fst (udp_run hashf l))) = map forget (flow_runs None (filter (same_flow a b) l)).
  Proof.
    intros hashf l Hs.
    rewrite udp_run_slots, filter_map_fst, proj_run. simpl filter.
    rewrite map_map.
    assert (H0 : Iq [] ([], None) 0) by (constructor; reflexivity).
    rewrite (run_inv l [] ([], None) 0 H0 Hs).
    rewrite <- flow_runs_fold. reflexivity.
  Qed.
End Flow.

(* the feed of FromPcap satisfies the timing hypothesis (BuilderOrderProofs: it is sorted by (ts, file, index)) *)
From Pk Require Import BuilderOrderProofs.
From Coq Require Import Sorting.Sorted.

Lemma kle_ts x y : kle x y -> p_ts x <= p_ts y.
Proof. rewrite kle_spec. lia. Qed.

Lemma ssorted_tsorted : forall l now, StronglySorted kle l -> Forall (fun p => now <= p_ts p) l -> tsorted now l.
Proof.
  induction l as [|p l IH]; intros now Hs Hall; simpl; auto.
  inversion Hs; subst. inversion Hall; subst. split; auto.
  apply IH; auto. eapply Forall_impl; [|exact H2]. intros q Hq. apply kle_ts. exact Hq.
Qed.

Lemma feed_tsorted pcaps newPackets :
  Forall pcap_ok pcaps -> mins_sorted pcaps -> tsorted 0 (feed pcaps newPackets).
Proof.
  intros Hok Hm. destruct (feed_sorted_permutation pcaps newPackets Hok Hm) as [Hs _].
  apply ssorted_tsorted; auto. apply Forall_forall. intros; lia.
Qed.
