(* C01, theorem 3 (payload and direction runs), the replay half of Stream.Data():
   varint codec, the chunk cutter [emit], and the segmentation replay [replay] against the
   segmentation written by AddStream.  The time groups that Data() collects in its first loop are
   abstracted here as any two lists of (time, size>0) whose sizes add up to the payload per
   direction (IndexFormatScan.v connects the packet scan to this). *)
From Coq Require Import Lia ZifyBool ZifyN ZifyNat Arith.
From Pk Require Import IndexFormat IndexFormatCodec.
Open Scope N_scope.

(* ------------------------------------------------------------------ *)
(* list helpers                                                        *)
(* ------------------------------------------------------------------ *)
Lemma takeN_add {A} (l : list A) : forall a b, takeN (a + b) l = takeN a l ++ takeN b (skipN a l).
Proof.
  induction l as [|x r IH]; intros a b; cbn [takeN skipN]; [reflexivity|].
  destruct (N.eqb_spec a 0) as [->|Ha].
  - cbn [app]. rewrite N.add_0_l. reflexivity.
  - destruct (N.eqb_spec (a + b) 0); [lia|]. cbn [app]. f_equal.
    replace (N.pred (a + b)) with (N.pred a + b) by lia. apply IH.
Qed.
Lemma skipN_add {A} (l : list A) : forall a b, skipN (a + b) l = skipN b (skipN a l).
Proof.
  induction l as [|x r IH]; intros a b; cbn [skipN].
  - reflexivity.
  - destruct (N.eqb_spec a 0) as [->|Ha]; [now rewrite N.add_0_l|].
    destruct (N.eqb_spec (a + b) 0); [lia|].
    replace (N.pred (a + b)) with (N.pred a + b) by lia. apply IH.
Qed.
Lemma skipN_nil {A} n : skipN n (@nil A) = [].
Proof. reflexivity. Qed.
Lemma lenN_skipN {A} (l : list A) n : lenN (skipN n l) = lenN l - n.
Proof. rewrite skipN_skipn. unfold lenN. rewrite skipn_length. lia. Qed.
Lemma lenN_takeN {A} (l : list A) n : n <= lenN l -> lenN (takeN n l) = n.
Proof. intros H. rewrite takeN_firstn. unfold lenN in *. rewrite firstn_length. lia. Qed.
Lemma takeN_all {A} (l : list A) n : lenN l <= n -> takeN n l = l.
Proof. intros H. rewrite takeN_firstn. apply firstn_all2. unfold lenN in H. lia. Qed.
Lemma lenN_0_nil {A} (l : list A) : lenN l = 0 -> l = [].
Proof. destruct l; [reflexivity|]. rewrite lenN_cons. lia. Qed.

(* ------------------------------------------------------------------ *)
(* varint                                                              *)
(* ------------------------------------------------------------------ *)
Lemma varint_aux_read : forall fuel sz flag acc,
    sz < 128 ^ N.of_nat (S fuel) -> (flag = 0 \/ flag = 128) ->
    exists k, forall a0, a0 * 128 ^ k + sz < P64 ->
      read_varint (varint_aux fuel sz flag acc) a0 =
      if flag =? 0 then Some (a0 * 128 ^ k + sz, acc) else read_varint acc (a0 * 128 ^ k + sz).
Proof.
  induction fuel as [|f IH]; intros sz flag acc Hsz Hflag.
  - exists 1. intros a0 Ha. cbn [varint_aux read_varint].
    change (128 ^ N.of_nat 1) with 128 in Hsz. rewrite N.pow_1_r in *.
    assert (Hm : sz mod 128 = sz) by (apply N.mod_small; lia).
    assert (Hb : (sz mod 128 + flag) mod 128 = sz).
    { destruct Hflag as [->| ->]; [rewrite N.add_0_r, N.mod_mod by lia; exact Hm|].
      rewrite <- N.add_mod_idemp_r by lia. change (128 mod 128) with 0. rewrite N.add_0_r, N.mod_mod by lia. exact Hm. }
    rewrite Hb. unfold u64. rewrite (N.mod_small (a0 * 128) P64) by lia. rewrite Hm.
    destruct Hflag as [->| ->]; cbn [N.eqb].
    + rewrite N.add_0_r. destruct (N.ltb_spec sz 128); [reflexivity|lia].
    + destruct (N.ltb_spec (sz + 128) 128); [lia|reflexivity].
  - cbn [varint_aux].
    assert (Hdm : sz = 128 * (sz / 128) + sz mod 128) by (apply N.div_mod; lia).
    assert (Hml : sz mod 128 < 128) by (apply N.mod_lt; lia).
    assert (Hb : (sz mod 128 + flag) mod 128 = sz mod 128).
    { destruct Hflag as [->| ->]; [rewrite N.add_0_r; apply N.mod_mod; lia|].
      rewrite <- N.add_mod_idemp_r by lia. change (128 mod 128) with 0. rewrite N.add_0_r. apply N.mod_mod. lia. }
    destruct (N.eqb_spec (sz / 128) 0) as [Hz|Hnz].
    + exists 1. intros a0 Ha. rewrite N.pow_1_r in *. cbn [read_varint]. rewrite Hb.
      unfold u64. rewrite (N.mod_small (a0 * 128) P64) by lia.
      replace (a0 * 128 + sz mod 128) with (a0 * 128 + sz) by lia.
      destruct Hflag as [->| ->]; cbn [N.eqb].
      * rewrite N.add_0_r. destruct (N.ltb_spec (sz mod 128) 128); [reflexivity|lia].
      * destruct (N.ltb_spec (sz mod 128 + 128) 128); [lia|reflexivity].
    + destruct (IH (sz / 128) 128 ((sz mod 128 + flag) :: acc)) as (k & Hk).
      * rewrite Nat2N.inj_succ, N.pow_succ_r' in Hsz. apply N.div_lt_upper_bound; lia.
      * now right.
      * exists (k + 1). intros a0 Ha.
        assert (Hp : 128 ^ (k + 1) = 128 ^ k * 128) by (rewrite N.pow_add_r, N.pow_1_r; reflexivity).
        rewrite Hp in *.
        rewrite Hk by nia. change (128 =? 0) with false. cbv iota. cbn [read_varint]. rewrite Hb.
        unfold u64. rewrite (N.mod_small ((a0 * 128 ^ k + sz / 128) * 128) P64) by nia.
        replace ((a0 * 128 ^ k + sz / 128) * 128 + sz mod 128) with (a0 * (128 ^ k * 128) + sz) by nia.
        destruct Hflag as [->| ->]; cbn [N.eqb].
        -- rewrite N.add_0_r. destruct (N.ltb_spec (sz mod 128) 128); [reflexivity|lia].
        -- destruct (N.ltb_spec (sz mod 128 + 128) 128); [lia|reflexivity].
Qed.

Lemma read_varint_varint sz rest : sz < P64 -> read_varint (varint sz ++ rest) 0 = Some (sz, rest).
Proof.
  intros H. unfold varint.
  assert (Hgen : forall fuel s flag acc r, varint_aux fuel s flag acc ++ r = varint_aux fuel s flag (acc ++ r)).
  { induction fuel as [|f IHf]; intros s flag acc r; cbn [varint_aux]; [reflexivity|].
    destruct (s / 128 =? 0); [reflexivity|]. now rewrite IHf. }
  rewrite Hgen. cbn [app].
  destruct (varint_aux_read 9 sz 0 rest) as (k & Hk).
  - unfold P64 in H. change (128 ^ N.of_nat 10) with 1180591620717411303424. lia.
  - now left.
  - specialize (Hk 0). rewrite N.mul_0_l, N.add_0_l in Hk. now apply Hk.
Qed.
Lemma varint_nonempty sz : varint sz <> [].
Proof.
  unfold varint. assert (H : forall fuel s flag acc, varint_aux fuel s flag acc <> [] \/ False -> True) by trivial.
  assert (Hg : forall fuel s flag acc, exists x l, varint_aux fuel s flag acc = x :: l).
  { induction fuel as [|f IHf]; intros s flag acc; cbn [varint_aux]; [eauto|]. destruct (s / 128 =? 0); eauto. }
  destruct (Hg 9%nat sz 0 []) as (x & l & ->). discriminate.
Qed.

(* ------------------------------------------------------------------ *)
(* the chunk cutter                                                    *)
(* ------------------------------------------------------------------ *)
Fixpoint total (pt : list (N * N)) : N := match pt with [] => 0 | (_, z) :: r => z + total r end.
Definition pos_sizes (pt : list (N * N)) : Prop := Forall (fun tz => 0 < snd tz) pt.

Lemma emit_spec : forall fuel dir content sz pt,
    0 < sz -> sz <= total pt -> pos_sizes pt -> (length pt < fuel)%nat -> sz <= lenN content ->
    exists cks pt', emit fuel dir content sz pt = Some (cks, skipN sz content, pt') /\
                    concat (map c_bytes cks) = takeN sz content /\ Forall (fun c => c_dir c = dir) cks /\ cks <> [] /\
                    total pt' = total pt - sz /\ pos_sizes pt' /\ (length pt' <= length pt)%nat.
Proof.
  induction fuel as [|fu IH]; intros dir content sz pt Hsz Htot Hpos Hfuel Hlen; [lia|].
  destruct pt as [|[t z] r]; [cbn [total] in Htot; lia|].
  inversion Hpos as [|? ? Hz Hr]; subst. cbn [snd] in Hz. cbn [emit total length] in *.
  destruct (N.le_gt_cases sz z) as [Hle|Hgt].
  - rewrite N.min_l by lia. rewrite N.sub_diag. cbn [N.eqb].
    eexists [_], _. split; [reflexivity|]. cbn [map concat c_bytes]. rewrite app_nil_r.
    split; [reflexivity|]. split; [constructor; [reflexivity|constructor]|]. split; [discriminate|].
    destruct (N.eqb_spec (z - sz) 0) as [E|E].
    + split; [lia|]. split; [assumption|lia].
    + cbn [total length]. split; [lia|]. split; [constructor; [cbn [snd]; lia|assumption]|lia].
  - rewrite N.min_r by lia. rewrite N.sub_diag. cbn [N.eqb].
    destruct (N.eqb_spec (sz - z) 0); [lia|].
    destruct (IH dir (skipN z content) (sz - z) r) as (cks & pt' & He & Hc & Hd & Hne & Ht & Hp & Hl); try lia; try assumption.
    { rewrite lenN_skipN. lia. }
    rewrite He. eexists (_ :: cks), pt'. rewrite <- skipN_add. replace (z + (sz - z)) with sz by lia.
    split; [reflexivity|]. cbn [map concat c_bytes]. rewrite Hc, <- takeN_add. replace (z + (sz - z)) with sz by lia.
    split; [reflexivity|]. split; [constructor; [reflexivity|assumption]|]. split; [discriminate|].
    split; [lia|]. split; [assumption|lia].
Qed.

(* ------------------------------------------------------------------ *)
(* the replay against the written segmentation                         *)
(* ------------------------------------------------------------------ *)
Definition payload_dir (d : bool) (cks : list chunk) : bytes :=
  concat (map c_bytes (filter (fun c => Bool.eqb (c_dir c) d) cks)).
Fixpoint compress (l : list bool) : list bool :=
  match l with
  | [] => []
  | x :: r => match compress r with
              | y :: r' => if Bool.eqb x y then y :: r' else x :: y :: r'
              | [] => [x]
              end
  end.
Fixpoint run_total (d : bool) (runs : list (bool * N)) : N :=
  match runs with [] => 0 | (d', z) :: r => (if Bool.eqb d' d then z else 0) + run_total d r end.
Definition nz_dirs (runs : list (bool * N)) : list bool := map fst (filter (fun r => negb (snd r =? 0)) runs).

Lemma payload_dir_app d a b : payload_dir d (a ++ b) = payload_dir d a ++ payload_dir d b.
Proof. unfold payload_dir. now rewrite filter_app, map_app, concat_app. Qed.
Lemma payload_dir_same d cks : Forall (fun c => c_dir c = d) cks -> payload_dir d cks = concat (map c_bytes cks).
Proof.
  unfold payload_dir. induction 1 as [|c r Hc Hr IH]; [reflexivity|]. cbn [filter]. rewrite Hc, Bool.eqb_reflx. cbn [map concat]. now rewrite IH.
Qed.
Lemma payload_dir_other d cks : Forall (fun c => c_dir c = negb d) cks -> payload_dir d cks = [].
Proof.
  unfold payload_dir. induction 1 as [|c r Hc Hr IH]; [reflexivity|]. cbn [filter]. rewrite Hc.
  destruct d; cbn [negb Bool.eqb]; exact IH.
Qed.

Lemma compress_cons_eq x l1 l2 : compress l1 = compress l2 -> compress (x :: l1) = compress (x :: l2).
Proof. intros H. cbn [compress]. now rewrite H. Qed.
Lemma compress_dup d l : compress (d :: d :: l) = compress (d :: l).
Proof.
  cbn [compress]. destruct (compress l) as [|y r'].
  - now rewrite Bool.eqb_reflx.
  - destruct (Bool.eqb d y) eqn:E.
    + now rewrite E.
    + now rewrite Bool.eqb_reflx.
Qed.

(* directions of a non-empty block of chunks of one direction, compressed in front of anything *)
Lemma compress_block d (cks : list chunk) rest :
  Forall (fun c => c_dir c = d) cks -> cks <> [] ->
  compress (map c_dir (cks ++ rest)) = compress (d :: map c_dir rest).
Proof.
  induction 1 as [|c r Hc Hr IH]; intros Hne; [contradiction|].
  destruct r as [|c2 r2].
  - cbn [app map]. now rewrite Hc.
  - specialize (IH ltac:(discriminate)). change (map c_dir ((c :: c2 :: r2) ++ rest)) with (c_dir c :: map c_dir ((c2 :: r2) ++ rest)).
    rewrite Hc. rewrite (compress_cons_eq d _ _ IH). apply compress_dup.
Qed.

Lemma lenN_seg_pos want runs : runs <> [] -> segmentation want runs <> [].
Proof.
  destruct runs as [|[d z] r]; [contradiction|]. intros _. cbn [segmentation].
  destruct (Bool.eqb d want); [|discriminate].
  pose proof (varint_nonempty z). destruct (varint z); [contradiction|discriminate].
Qed.

Lemma option_map_id {A} (x : option (list A)) : option_map (app []) x = x.
Proof. now destruct x. Qed.

(* one run of direction d when the decoder is in direction d *)
Lemma replay_one fu (d : bool) z seg (cc cs : list N) (ptc pts : list (N * N)) :
  z < P64 -> (cc <> [] \/ cs <> []) ->
  z <= lenN (if d then cs else cc) -> z <= total (if d then pts else ptc) -> pos_sizes ptc -> pos_sizes pts ->
  exists cks pt',
    replay (S fu) d (varint z ++ seg) cc cs ptc pts =
      option_map (app cks) (replay fu (negb d) seg (if d then cc else skipN z cc) (if d then skipN z cs else cs)
                                   (if d then ptc else pt') (if d then pt' else pts)) /\
    concat (map c_bytes cks) = takeN z (if d then cs else cc) /\ Forall (fun c => c_dir c = d) cks /\
    (z <> 0 -> cks <> []) /\ (z = 0 -> cks = []) /\
    total pt' = total (if d then pts else ptc) - z /\ pos_sizes pt'.
Proof.
  intros Hz Hne Hlen Htot Hpc Hps.
  assert (Hstep : replay (S fu) d (varint z ++ seg) cc cs ptc pts =
                  if z =? 0 then replay fu (negb d) seg cc cs ptc pts
                  else if d then match emit (S (length pts)) d cs z pts with
                                 | Some (ch, cs', pts') => match replay fu (negb d) seg cc cs' ptc pts' with Some l => Some (ch ++ l) | None => None end
                                 | None => None end
                       else match emit (S (length ptc)) d cc z ptc with
                            | Some (ch, cc', ptc') => match replay fu (negb d) seg cc' cs ptc' pts with Some l => Some (ch ++ l) | None => None end
                            | None => None end).
  { cbn [replay]. rewrite (read_varint_varint z seg Hz).
    destruct cc as [|c0 ccr], cs as [|s0 csr]; try reflexivity. destruct Hne; congruence. }
  rewrite Hstep. clear Hstep.
  destruct (N.eqb_spec z 0) as [->|Hnz].
  - exists [], (if d then pts else ptc). rewrite option_map_id.
    destruct d; cbn [skipN]; rewrite ?skipN_0; (split; [reflexivity|]); cbn [map concat];
      (split; [now destruct cs + destruct cc|]); (split; [constructor|]); (split; [congruence|]); (split; [reflexivity|]);
      (split; [lia|assumption]).
  - destruct d.
    + destruct (emit_spec (S (length pts)) true cs z pts) as (cks & pt' & He & Hc & Hd & Hn & Ht & Hp & Hl); try lia; try assumption.
      exists cks, pt'. rewrite He. split; [now destruct (replay fu (negb true) seg cc (skipN z cs) ptc pt')|].
      repeat split; auto. congruence.
    + destruct (emit_spec (S (length ptc)) false cc z ptc) as (cks & pt' & He & Hc & Hd & Hn & Ht & Hp & Hl); try lia; try assumption.
      exists cks, pt'. rewrite He. split; [now destruct (replay fu (negb false) seg (skipN z cc) cs pt' pts)|].
      repeat split; auto. congruence.
Qed.

Lemma takeN_skipN_id {A} (l : list A) n : takeN n l ++ skipN n l = l.
Proof. rewrite takeN_firstn, skipN_skipn. apply firstn_skipn. Qed.

Lemma nz_dirs_all_zero runs : run_total false runs = 0 -> run_total true runs = 0 -> nz_dirs runs = [].
Proof.
  unfold nz_dirs. induction runs as [|[d' z'] r' IHr]; intros H1 H2; [reflexivity|]. cbn [run_total filter snd] in *.
  assert (z' = 0) by (destruct d'; cbn [Bool.eqb] in *; lia). subst. cbn [N.eqb negb].
  apply IHr; destruct d'; cbn [Bool.eqb] in *; lia.
Qed.

(* Replay of the segmentation of [runs] (current decoder direction = [want]) over contents and time groups
   that hold exactly the bytes of the runs. *)
Lemma replay_runs : forall runs fuel want tail cc cs ptc pts,
    run_total false runs = lenN cc -> run_total true runs = lenN cs ->
    total ptc = lenN cc -> total pts = lenN cs -> pos_sizes ptc -> pos_sizes pts ->
    Forall (fun r => snd r < P64) runs ->
    (length (segmentation want runs ++ tail) < fuel)%nat ->
    exists cks, replay fuel want (segmentation want runs ++ tail) cc cs ptc pts = Some cks /\
                payload_dir false cks = cc /\ payload_dir true cks = cs /\
                compress (map c_dir cks) = compress (nz_dirs runs).
Proof.
  induction runs as [|[d z] rest IH]; intros fuel want tail cc cs ptc pts Hc Hs Htc Hts Hpc Hps Hb Hfuel.
  - cbn [run_total] in *. symmetry in Hc, Hs. apply lenN_0_nil in Hc, Hs. subst.
    destruct fuel; [cbn [length] in Hfuel; lia|]. exists []. cbn [replay]. auto.
  - inversion Hb as [|? ? Hz Hbr]; subst. cbn [snd] in Hz.
    destruct fuel as [|fu]; [lia|].
    destruct (lenN cc =? 0) eqn:E0c, (lenN cs =? 0) eqn:E0s.
    { (* both contents used up: the loop exits, and every remaining run is empty *)
      apply N.eqb_eq in E0c, E0s. pose proof (lenN_0_nil _ E0c). pose proof (lenN_0_nil _ E0s). subst cc cs.
      exists []. cbn [replay]. repeat split; try reflexivity.
      rewrite nz_dirs_all_zero; [reflexivity| |]; assumption. }
    all: assert (Hne : cc <> [] \/ cs <> []) by
        (apply N.eqb_neq in E0c + apply N.eqb_neq in E0s; destruct cc, cs; try (now left); try (now right); rewrite lenN_nil in *; congruence).
    all: clear E0c E0s.
    all: cbn [segmentation] in *.
    all: destruct (Bool.eqb d want) eqn:Edw.
    all: try (apply Bool.eqb_prop in Edw; subst want).
    (* direction as expected: varint z ++ segmentation (negb d) rest *)
    1,3,5:
      rewrite <- app_assoc in *;
      assert (Hlen : z <= lenN (if d then cs else cc)) by (destruct d; cbn [run_total Bool.eqb] in *; lia);
      assert (Htot : z <= total (if d then pts else ptc)) by (destruct d; lia);
      destruct (replay_one fu d z (segmentation (negb d) rest ++ tail) cc cs ptc pts Hz Hne Hlen Htot Hpc Hps)
        as (cks & pt' & Hr & Hcat & Hdir & Hnz & Hzero & Htot' & Hpos');
      rewrite Hr;
      pose proof (varint_nonempty z) as Hvn;
      assert (Hf2 : (length (segmentation (negb d) rest ++ tail) < fu)%nat)
        by (rewrite !app_length in *; assert (0 < length (varint z))%nat by (destruct (varint z); [congruence|cbn [length]; lia]); lia);
      destruct (IH fu (negb d) tail (if d then cc else skipN z cc) (if d then skipN z cs else cs)
                   (if d then ptc else pt') (if d then pt' else pts)) as (l & Hl & Hp0 & Hp1 & Hcomp);
      try assumption;
      try (destruct d; cbn [run_total Bool.eqb] in *; rewrite ?lenN_skipN; lia);
      try (destruct d; assumption);
      rewrite Hl; cbn [option_map]; exists (cks ++ l); (split; [reflexivity|]);
      rewrite !payload_dir_app;
      (destruct d;
       [ rewrite (payload_dir_other false cks) by (cbn [negb]; exact Hdir);
         rewrite (payload_dir_same true cks Hdir), Hcat, Hp0, Hp1; cbn [app];
         (split; [reflexivity|]); (split; [apply takeN_skipN_id|])
       | rewrite (payload_dir_other true cks) by (cbn [negb]; exact Hdir);
         rewrite (payload_dir_same false cks Hdir), Hcat, Hp0, Hp1; cbn [app];
         (split; [apply takeN_skipN_id|]); (split; [reflexivity|]) ]);
      (unfold nz_dirs; cbn [filter snd];
       destruct (N.eqb_spec z 0) as [Ez|Ez]; cbn [negb map fst];
       [ rewrite (Hzero Ez); cbn [app]; exact Hcomp
       | rewrite (compress_block _ cks l Hdir (Hnz Ez)); apply compress_cons_eq; exact Hcomp ]).
    (* unexpected direction: a zero first, then as above with the decoder flipped *)
    all: assert (Hd : d = negb want) by (destruct d, want; cbn [Bool.eqb negb] in *; congruence).
    all: subst d.
    all: destruct fu as [|fu]; [cbn [app length] in Hfuel; pose proof (varint_nonempty z) as Hvn; destruct (varint z); [contradiction|cbn [app length] in Hfuel; lia]|].
    all: assert (Hzero1 : replay (S (S fu)) want ((0 :: varint z ++ segmentation want rest) ++ tail) cc cs ptc pts
                       = replay (S fu) (negb want) (varint z ++ segmentation want rest ++ tail) cc cs ptc pts)
        by (cbn [replay app read_varint]; rewrite <- app_assoc; destruct cc, cs; try reflexivity; destruct Hne; congruence).
    all: rewrite Hzero1; clear Hzero1.
    all: set (d := negb want) in *.
    all: assert (Hw : want = negb d) by (unfold d; now rewrite Bool.negb_involutive).
    all: rewrite Hw in *; clearbody d; clear Hw want.
    all:
      assert (Hlen : z <= lenN (if d then cs else cc)) by (destruct d; cbn [run_total Bool.eqb negb] in *; lia);
      assert (Htot : z <= total (if d then pts else ptc)) by (destruct d; lia);
      destruct (replay_one fu d z (segmentation (negb d) rest ++ tail) cc cs ptc pts Hz Hne Hlen Htot Hpc Hps)
        as (cks & pt' & Hr & Hcat & Hdir & Hnz & Hzero & Htot' & Hpos');
      rewrite Hr;
      pose proof (varint_nonempty z) as Hvn;
      assert (Hf2 : (length (segmentation (negb d) rest ++ tail) < fu)%nat)
        by (cbn [app length] in Hfuel; rewrite !app_length in *; assert (0 < length (varint z))%nat by (destruct (varint z); [congruence|cbn [length]; lia]); lia);
      destruct (IH fu (negb d) tail (if d then cc else skipN z cc) (if d then skipN z cs else cs)
                   (if d then ptc else pt') (if d then pt' else pts)) as (l & Hl & Hp0 & Hp1 & Hcomp);
      try assumption;
      try (destruct d; cbn [run_total Bool.eqb negb] in *; rewrite ?lenN_skipN; lia);
      try (destruct d; assumption);
      rewrite Hl; cbn [option_map]; exists (cks ++ l); (split; [reflexivity|]);
      rewrite !payload_dir_app;
      (destruct d;
       [ rewrite (payload_dir_other false cks) by (cbn [negb]; exact Hdir);
         rewrite (payload_dir_same true cks Hdir), Hcat, Hp0, Hp1; cbn [app];
         (split; [reflexivity|]); (split; [apply takeN_skipN_id|])
       | rewrite (payload_dir_other true cks) by (cbn [negb]; exact Hdir);
         rewrite (payload_dir_same false cks Hdir), Hcat, Hp0, Hp1; cbn [app];
         (split; [apply takeN_skipN_id|]); (split; [reflexivity|]) ]);
      (unfold nz_dirs; cbn [filter snd];
       destruct (N.eqb_spec z 0) as [Ez|Ez]; cbn [negb map fst];
       [ rewrite (Hzero Ez); cbn [app]; exact Hcomp
       | rewrite (compress_block _ cks l Hdir (Hnz Ez)); apply compress_cons_eq; exact Hcomp ]).
Qed.

(* ------------------------------------------------------------------ *)
(* instantiated to what AddStream writes for a stream                  *)
(* ------------------------------------------------------------------ *)
Lemma run_total_data_runs ps d : forall data, run_total d (data_runs ps data) = lenN (payload_of ps d data).
Proof.
  induction data as [|[pi b] r IH]; [reflexivity|]. cbn [data_runs payload_of].
  destruct (data_runs ps r) as [|[dir2 sz] rs] eqn:E.
  - cbn [run_total] in *. destruct (Bool.eqb (dir_of_packet ps pi) d); rewrite ?lenN_app, <- IH; lia.
  - destruct (Bool.eqb (dir_of_packet ps pi) dir2) eqn:E2.
    + apply Bool.eqb_prop in E2. rewrite E2 in *. cbn [run_total] in *.
      destruct (Bool.eqb dir2 d); rewrite ?lenN_app, <- IH; lia.
    + cbn [run_total] in *. destruct (Bool.eqb (dir_of_packet ps pi) d); rewrite ?lenN_app, <- IH; lia.
Qed.
Lemma run_sizes_bounded ps : forall data B, lenN (payload_of ps false data) + lenN (payload_of ps true data) < B ->
  Forall (fun r => snd r < B) (data_runs ps data).
Proof.
  intros data B H. pose proof (run_total_data_runs ps false data) as H0. pose proof (run_total_data_runs ps true data) as H1.
  rewrite <- H0, <- H1 in H. clear H0 H1. induction (data_runs ps data) as [|[d z] r IH]; constructor.
  - cbn [snd run_total] in *. destruct d; cbn [Bool.eqb] in H; lia.
  - apply IH. cbn [run_total] in H. lia.
Qed.

(* Theorem 3, replay half: whatever time groups the packet scan delivers (sizes positive, adding up to the
   payload of each direction), Data() returns chunks whose bytes, concatenated per direction, are the stored
   payload of that direction, in the stored order of direction changes. *)
Theorem data_replay_stream s tail ptc pts :
  lenN (stream_payload s false) + lenN (stream_payload s true) < P64 ->
  total ptc = lenN (stream_payload s false) -> total pts = lenN (stream_payload s true) -> pos_sizes ptc -> pos_sizes pts ->
  exists cks, replay (S (length (stream_seg s ++ tail))) false (stream_seg s ++ tail)
                     (stream_payload s false) (stream_payload s true) ptc pts = Some cks /\
              payload_dir false cks = stream_payload s false /\ payload_dir true cks = stream_payload s true /\
              compress (map c_dir cks) = compress (nz_dirs (data_runs (s_packets s) (s_data s))).
Proof.
  intros HB Htc Hts Hpc Hps. unfold stream_seg, stream_payload in *.
  apply replay_runs; auto using run_total_data_runs.
  now apply run_sizes_bounded.
Qed.

(* ------------------------------------------------------------------ *)
(* the replay reads nothing beyond the segmentation of the stream      *)
(* ------------------------------------------------------------------ *)
Lemma emit_content : forall fuel dir content sz pt cks c' pt',
    emit fuel dir content sz pt = Some (cks, c', pt') -> c' = skipN sz content.
Proof.
  induction fuel as [|fu IH]; intros dir content sz pt cks c' pt' H; [discriminate|]. cbn [emit] in H.
  destruct pt as [|[t z] r]; [discriminate|].
  destruct (N.eqb_spec (sz - N.min sz z) 0) as [E|E].
  - inversion H; subst. f_equal. lia.
  - destruct (emit fu dir (skipN (N.min sz z) content) (sz - N.min sz z) _) as [[[cs0 c0] p0]|] eqn:Ee; [|discriminate].
    inversion H; subst. rewrite (IH _ _ _ _ _ _ _ Ee), <- skipN_add. f_equal. lia.
Qed.

Lemma replay_unfold fu d z seg (cc cs : list N) (ptc pts : list (N * N)) :
  z < P64 -> (cc <> [] \/ cs <> []) ->
  replay (S fu) d (varint z ++ seg) cc cs ptc pts =
  if z =? 0 then replay fu (negb d) seg cc cs ptc pts
  else if d then match emit (S (length pts)) d cs z pts with
                 | Some (ch, cs', pts') => match replay fu (negb d) seg cc cs' ptc pts' with Some l => Some (ch ++ l) | None => None end
                 | None => None end
       else match emit (S (length ptc)) d cc z ptc with
            | Some (ch, cc', ptc') => match replay fu (negb d) seg cc' cs ptc' pts with Some l => Some (ch ++ l) | None => None end
            | None => None end.
Proof.
  intros Hz Hne. cbn [replay]. rewrite (read_varint_varint z seg Hz).
  destruct cc as [|c0 ccr], cs as [|s0 csr]; try reflexivity. destruct Hne; congruence.
Qed.
Lemma replay_zero fu d seg (cc cs : list N) (ptc pts : list (N * N)) :
  (cc <> [] \/ cs <> []) -> replay (S fu) d (0 :: seg) cc cs ptc pts = replay fu (negb d) seg cc cs ptc pts.
Proof. intros Hne. cbn [replay read_varint]. destruct cc, cs; try reflexivity. destruct Hne; congruence. Qed.
Lemma replay_done fu d seg ptc pts : replay (S fu) d seg [] [] ptc pts = Some [].
Proof. reflexivity. Qed.

(* the replay does not read beyond the segmentation of runs that cover the two contents *)
Lemma replay_tail : forall runs f1 f2 want t1 t2 cc cs ptc pts,
    run_total false runs = lenN cc -> run_total true runs = lenN cs -> Forall (fun r => snd r < P64) runs ->
    (length (segmentation want runs ++ t1) < f1)%nat -> (length (segmentation want runs ++ t2) < f2)%nat ->
    replay f1 want (segmentation want runs ++ t1) cc cs ptc pts = replay f2 want (segmentation want runs ++ t2) cc cs ptc pts.
Proof.
  induction runs as [|[d z] rest IH]; intros f1 f2 want t1 t2 cc cs ptc pts Hc Hs Hb H1 H2.
  - cbn [run_total] in *. symmetry in Hc, Hs. apply lenN_0_nil in Hc, Hs. subst.
    destruct f1; [lia|]. destruct f2; [lia|]. reflexivity.
  - destruct f1 as [|f1]; [lia|]. destruct f2 as [|f2]; [lia|].
    destruct cc as [|c0 ccr] eqn:Ecc, cs as [|s0 csr] eqn:Ecs; [reflexivity| | |].
    all: rewrite <- ?Ecc, <- ?Ecs in *.
    all: assert (Hne : cc <> [] \/ cs <> []) by (subst; (left; discriminate) || (right; discriminate)).
    all: clear Ecc Ecs; inversion Hb as [|? ? Hz Hbr]; subst; cbn [snd] in Hz.
    all: pose proof (varint_nonempty z) as Hvn.
    all: assert (Hvl : (0 < length (varint z))%nat) by (destruct (varint z); [congruence|cbn [length]; lia]).
    all: cbn [segmentation] in *.
    all: destruct (Bool.eqb d want) eqn:Edw.
    all: try (apply Bool.eqb_prop in Edw; subst want).
    all: try (assert (Hd : d = negb want) by (destruct d, want; cbn [Bool.eqb negb] in *; congruence);
              destruct f1 as [|f1]; [cbn [app length] in H1; rewrite !app_length in H1; lia|];
              destruct f2 as [|f2]; [cbn [app length] in H2; rewrite !app_length in H2; lia|];
              cbn [app] in *; rewrite !(replay_zero _ _ _ _ _ _ _ Hne); cbn [length] in H1, H2;
              rewrite <- Hd; assert (Hw : want = negb d) by (subst d; now rewrite Bool.negb_involutive);
              rewrite Hw in *; clear Hd Hw).
    all: rewrite <- !app_assoc in *; rewrite !(replay_unfold _ _ _ _ _ _ _ _ Hz Hne).
    all: rewrite app_length in H1, H2.
    all: destruct (N.eqb_spec z 0) as [Ez|Ez];
      [ apply IH; try assumption; try lia; (destruct d; cbn [run_total Bool.eqb negb] in *; lia) |].
    all: destruct d;
      [ destruct (emit (S (length pts)) true cs z pts) as [[[ch c'] p']|] eqn:Ee; [|reflexivity];
        rewrite (IH f1 f2 (negb true) t1 t2 cc c' ptc p'); try reflexivity; try assumption; try lia;
        cbn [run_total Bool.eqb negb] in *; try lia;
        rewrite (emit_content _ _ _ _ _ _ _ _ Ee), lenN_skipN; lia
      | destruct (emit (S (length ptc)) false cc z ptc) as [[[ch c'] p']|] eqn:Ee; [|reflexivity];
        rewrite (IH f1 f2 (negb false) t1 t2 c' cs p' pts); try reflexivity; try assumption; try lia;
        cbn [run_total Bool.eqb negb] in *; try lia;
        rewrite (emit_content _ _ _ _ _ _ _ _ Ee), lenN_skipN; lia ].
Qed.

(* segmentation of a concatenation *)
Fixpoint want_after (want : bool) (runs : list (bool * N)) : bool :=
  match runs with
  | [] => want
  | (d, _) :: r => if Bool.eqb d want then want_after (negb want) r else want_after want r
  end.
Lemma segmentation_app : forall a want b, segmentation want (a ++ b) = segmentation want a ++ segmentation (want_after want a) b.
Proof.
  induction a as [|[d z] r IH]; intros want b; [reflexivity|]. cbn [app segmentation want_after].
  destruct (Bool.eqb d want); rewrite IH; cbn [app]; now rewrite <- ?app_assoc.
Qed.
