(* C01: which inputs AddStream takes.  The model's [add_stream] answers None exactly where the Go code cannot
   continue: s.Packets[0] of an empty packet list (index out of range), no packet with a pcap source (the code
   would then clear the has-next flag of the previous stream's last record), and no host group that takes both
   addresses (the code appends groups until 2^16 and refuses).  [accepts_stream] is a decidable sufficient
   condition for none of these to happen; for 4/16-byte addresses and gcap > 16 (the code: 65535) the two
   conditions about packets are also necessary. *)
From Coq Require Import Lia ZifyBool ZifyN ZifyNat Arith.
From Pk Require Import IndexFormat IndexFormatCodec IndexFormatHosts IndexFormatWriter IndexFormatData IndexFormatPackets.
Open Scope N_scope.

Definition accepts_stream (gcap : N) (s : istream) : bool :=
  match s_packets s with
  | [] => false
  | p0 :: _ => match p_srcs p0 with [] => false | _ :: _ => true end
  end && (lenN (s_caddr s) =? lenN (s_saddr s)) && (lenN (s_caddr s) <? gcap).
Definition accepts_input (gcap : N) (L : list (N * istream)) : bool := forallb (fun ids => accepts_stream gcap (snd ids)) L.

(* the host-group loop always finds a place: at the latest a fresh group takes both addresses *)
Lemma place_hosts_total gcap c s : lenN c = lenN s -> lenN c < gcap -> forall gs gid, place_hosts gcap gs gid c s <> None.
Proof.
  intros Hl Hc. induction gs as [|g r IH]; intros gid; cbn [place_hosts].
  - unfold hg_add at 1. cbn [hg_hosts]. unfold hg_add. cbn [hg_hosts hg_size]. rewrite Hl, N.eqb_refl. cbn [negb].
    destruct (find_host s [c] 0); [discriminate|].
    rewrite lenN_cons, lenN_nil. destruct (N.leb_spec gcap (lenN s * (1 + 0))); [lia|discriminate].
  - specialize (IH (N.succ gid)). destruct (place_hosts gcap r (N.succ gid) c s) as [[[[r' k] ci] si]|]; [|contradiction].
    destruct (hg_add gcap g c) as [[[ci' a] g1]|]; [|discriminate]. destruct (hg_add gcap g1 s) as [[[si' a2] g2]|]; discriminate.
Qed.

Lemma add_stream_accepts gcap w id s : accepts_stream gcap s = true -> add_stream gcap w (id, s) <> None.
Proof.
  unfold accepts_stream. intros H. apply andb_true_iff in H. destruct H as [H H3]. apply andb_true_iff in H. destruct H as [H1 H2].
  apply N.eqb_eq in H2. apply N.ltb_lt in H3. unfold add_stream.
  destruct (s_packets s) as [|p0 ps] eqn:Ep; [discriminate H1|].
  pose proof (place_hosts_total gcap (s_caddr s) (s_saddr s) H2 H3 (w_groups w) 0) as Hp.
  destruct (place_hosts gcap (w_groups w) 0 (s_caddr s) (s_saddr s)) as [[[[groups gid] ci] si]|]; [|contradiction].
  assert (Hb : stream_block (stream_imports (w_imports w) s) s <> []).
  { unfold stream_block. rewrite Ep. destruct (p_srcs p0) as [|s0 sr] eqn:Es; [discriminate H1|].
    pose proof (stream_records_nonempty (stream_imports (w_imports w) s) (first_ts s) (s_data s) p0 ps 0 ltac:(rewrite Es; discriminate)) as Hr.
    destruct (stream_records _ _ _ 0 (p0 :: ps)) as [|x R]; [contradiction|]. rewrite set_skips_cons.
    match goal with |- clear_last_next (?a :: ?l) <> [] => destruct l; cbn [clear_last_next]; discriminate end. }
  destruct (stream_block (stream_imports (w_imports w) s) s); [contradiction|discriminate].
Qed.

(* progress: an accepted input is written completely, from any writer state *)
Theorem add_streams_accepts gcap : forall L w, accepts_input gcap L = true -> exists w', add_streams gcap w L = Some w'.
Proof.
  induction L as [|[id s] r IH]; intros w H; cbn [add_streams]; [eauto|].
  cbn [accepts_input forallb snd] in H. apply andb_true_iff in H. destruct H as [H1 H2].
  pose proof (add_stream_accepts gcap w id s H1) as Hn. destruct (add_stream gcap w (id, s)) as [w1|]; [|contradiction].
  now apply IH.
Qed.

(* conversely, what every accepted stream looked like *)
Theorem add_stream_some_inv gcap w id s w' :
  add_stream gcap w (id, s) = Some w' -> s_packets s <> [] /\ exists p, In p (s_packets s) /\ p_srcs p <> [].
Proof.
  intros H. destruct (add_stream_inv _ _ _ _ _ H) as (Hne & groups & gid & ci & si & _ & Hb & _). split; [assumption|].
  unfold stream_block in Hb.
  assert (Hr : stream_records (stream_imports (w_imports w) s) (first_ts s) (s_data s) 0 (s_packets s) <> []).
  { intros E. rewrite E in Hb. now apply Hb. }
  clear Hb. revert Hr. generalize 0. induction (s_packets s) as [|p r IH]; intros pi Hr; [now contradiction Hr|].
  destruct (p_srcs p) as [|s0 sr] eqn:Es.
  - cbn [stream_records] in Hr. rewrite Es in Hr. cbn [packet_records app] in Hr.
    destruct (IH ltac:(destruct r; [intros _; cbn in Hr; contradiction|discriminate]) _ Hr) as (q & Hq & Hs).
    exists q. split; [now right|assumption].
  - exists p. split; [now left|]. rewrite Es. discriminate.
Qed.
