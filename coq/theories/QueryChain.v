(* QueryChain.v -- THEN chains whose steps are groups with at most one payload end:
   w then (x -y tag:a) then (u or -v) then ...  on the left of a THEN (groups in the middle of a chain). *)
From Coq Require Import List NArith ZArith Bool Lia Permutation Arith.
From Pk Require Import Query QuerySort QueryClean QueryFlags QueryHosts QueryOps QuerySet QueryAtoms QueryMain QuerySeq QueryThen QueryInv QueryGroup.
Import ListNotations.
Open Scope Z_scope.

(* ------------------------------------------------------------------ the matched filters of an aligned conjunct *)
Definition aligned (c : conj) (M : list N) : Prop := (sel_data c = [] /\ M = []) \/ seq_inv (sel_data c) M.

(* the longest matched part among the sequences of c *)
Definition Mof (c : conj) : list N :=
  fold_right (fun d acc => if Nat.ltb (length acc) (length (matched d)) then matched d else acc) [] (sel_data c).

Lemma Mof_aligned c M : aligned c M -> Mof c = M.
Proof.
  intros [[E ->]|I]; unfold Mof; [rewrite E; reflexivity|].
  assert (Hpre : forall l, (forall d, In d l -> is_prefix (matched d) M = true) ->
                 let r := fold_right (fun d acc => if Nat.ltb (length acc) (length (matched d)) then matched d else acc) [] l in
                 is_prefix r M = true /\ (forall d, In d l -> (length (matched d) <= length r)%nat)).
  { induction l as [|d l IH]; intros Hl; cbn [fold_right].
    - split; [reflexivity|intros d []].
    - destruct (IH (fun d0 H0 => Hl d0 (or_intror H0))) as [P L]. cbn zeta in *.
      destruct (Nat.ltb_spec (length (fold_right (fun d0 acc => if Nat.ltb (length acc) (length (matched d0)) then matched d0 else acc) [] l)) (length (matched d))).
      + split; [apply Hl; left; reflexivity|]. intros d0 [<-|H0]; [lia|specialize (L d0 H0); lia].
      + split; [exact P|]. intros d0 [<-|H0]; [lia|apply L; exact H0]. }
  destruct (Hpre (sel_data c) (si_prefix _ _ I)) as [P L]. cbn zeta in *.
  destruct (si_full _ _ I) as (d & Hd & Hm). specialize (L d Hd). rewrite Hm in L.
  apply is_prefix_same_length; [exact P|]. pose proof (is_prefix_length _ _ P). lia.
Qed.

Definition cpos (v : valuation) (M : list N) : option N := match M with [] => None | _ => pos_of v M end.
Definition opos (v : valuation) (o : option N) : N := match o with Some q => q | None => v_start v end.
Definition merge (o1 o2 : option N) : option N := match o2 with Some r => Some r | None => o1 end.

Lemma pos_of_cpos v M q : pos_of v M = Some q -> opos v (cpos v M) = q.
Proof. unfold cpos, opos. destruct M; [unfold pos_of; cbn; intros H; inversion H; reflexivity|intros ->; reflexivity]. Qed.

Lemma sel_data_app a b : sel_data (a ++ b) = sel_data a ++ sel_data b.
Proof. unfold sel_data. apply flat_map_app. Qed.
Lemma sel_data_nodata c : sel_data (nodata c) = [].
Proof.
  unfold nodata. induction c as [|x c IH]; [reflexivity|]. cbn [filter]. destruct x; cbn [is_data negb]; cbn; auto.
Qed.

Lemma flat1_aligned c : flat1 c -> aligned c (Mc c).
Proof. intros H. destruct (flat1_Mc_cases c H) as [[A B]|I]; [left; auto|right; exact I]. Qed.

(* ------------------------------------------------------------------ Conditions.then keeps conjuncts aligned *)
Lemma then_stepl_inv ds M1 bds M2 :
  seq_inv ds M1 -> bds <> [] -> Forall single bds ->
  (forall bd e, In bd bds -> d_el bd = [e] -> d_inv bd = false -> M2 = [e]) ->
  (M2 = [] -> forall bd, In bd bds -> d_inv bd = true) ->
  (forall e, M2 = [e] -> In (mkData [e] false) bds) ->
  (M2 = [] \/ exists e, M2 = [e]) ->
  seq_inv (then_stepl ds bds) (M1 ++ M2).
Proof.
  intros I Hne Hs Hpos Hneg Hhas Hshape. rewrite Forall_forall in Hs.
  assert (Hactive : forall ad, In ad ds -> matched ad = M1 ->
            forall bd, In bd bds -> In (mkData (M1 ++ d_el bd) (d_inv bd)) (then_stepl ds bds)).
  { intros ad Ha Hm bd Hbd. unfold then_stepl. apply in_flat_map. exists ad. split; [auto|].
    assert (Hin : In (mkData (M1 ++ d_el bd) (d_inv bd)) (map (fun bd0 => mkData (matched ad ++ d_el bd0) (d_inv bd0)) bds)).
    { apply in_map_iff. exists bd. rewrite Hm. auto. }
    destruct (d_inv ad) eqn:Ei; [right|exact Hin].
    rewrite (covered_iff ds M1 ad I Ha).
    replace (list_eqb N.eqb (matched ad) M1) with true by (rewrite Hm; symmetry; apply list_eqb_refl; apply N.eqb_refl).
    cbn [negb]. exact Hin. }
  assert (Hin : forall d', In d' (then_stepl ds bds) ->
            (exists ad, In ad ds /\ d_inv ad = true /\ d' = ad) \/
            (exists bd, In bd bds /\ d' = mkData (M1 ++ d_el bd) (d_inv bd))).
  { intros d' H. unfold then_stepl in H. apply in_flat_map in H as (ad & Ha & H).
    assert (Hc : In d' (map (fun bd => mkData (matched ad ++ d_el bd) (d_inv bd)) bds) -> matched ad = M1 ->
                 exists bd, In bd bds /\ d' = mkData (M1 ++ d_el bd) (d_inv bd)).
    { intros Hm0 Hm. apply in_map_iff in Hm0 as (bd & <- & Hbd). exists bd. rewrite Hm. auto. }
    destruct (d_inv ad) eqn:Ei.
    - destruct H as [<-|H]; [left; eauto|]. rewrite (covered_iff ds M1 ad I Ha) in H.
      destruct (list_eqb N.eqb (matched ad) M1) eqn:E; cbn [negb] in H; [|contradiction].
      apply Nl_eqb_eq in E. right. apply Hc; auto.
    - right. apply Hc; auto. unfold matched. rewrite Ei. apply (si_pos _ _ I ad Ha Ei). }
  destruct (si_full _ _ I) as (ad0 & Ha0 & Hm0).
  constructor.
  - intros d' H. destruct (Hin d' H) as [(ad & Ha & Ei & ->)|(bd & Hbd & ->)].
    + eapply is_prefix_trans; [apply (si_prefix _ _ I ad Ha)|apply is_prefix_app_r].
    + destruct (Hs bd Hbd) as [e He]. unfold matched. cbn [d_el d_inv]. rewrite He. destruct (d_inv bd) eqn:Eb.
      * rewrite removelast_snoc. apply is_prefix_app_r.
      * rewrite (Hpos bd e Hbd He Eb). apply is_prefix_refl.
  - destruct Hshape as [E0|[e Ee]].
    + destruct bds as [|b0 bs]; [congruence|]. pose proof (Hneg E0 b0 (or_introl eq_refl)) as Hi. destruct (Hs b0 (or_introl eq_refl)) as [u Hu].
      exists (mkData (M1 ++ d_el b0) (d_inv b0)). split; [apply (Hactive ad0 Ha0 Hm0); left; reflexivity|].
      unfold matched. cbn [d_el d_inv]. rewrite Hi, Hu, removelast_snoc, E0, app_nil_r. reflexivity.
    + exists (mkData (M1 ++ [e]) false). split.
      * apply (Hactive ad0 Ha0 Hm0 (mkData [e] false)). apply Hhas. exact Ee.
      * unfold matched. cbn. rewrite Ee. reflexivity.
  - intros d' H Hi. destruct (Hin d' H) as [(ad & Ha & Ei & ->)|(bd & Hbd & ->)]; [congruence|].
    cbn [d_inv d_el] in *. destruct (Hs bd Hbd) as [e He]. rewrite He, (Hpos bd e Hbd He Hi). reflexivity.
  - intros d' H. destruct (Hin d' H) as [(ad & Ha & Ei & ->)|(bd & Hbd & ->)]; [eapply si_ne; eauto|].
    cbn. destruct (Hs bd Hbd) as [e He]. rewrite He. destruct M1; discriminate.
Qed.

Lemma aligned_then c1 M1 c2 : aligned c1 M1 -> flat1 c2 -> aligned (conj_then c1 c2) (M1 ++ Mc c2).
Proof.
  intros A1 F2. pose proof (flat1_aligned c2 F2) as A2.
  destruct (sel_data c1) as [|a0 al] eqn:E1.
  - (* nothing on the left *)
    destruct A1 as [[_ ->]|I]; [|destruct (si_full _ _ I) as (d & Hd & _); rewrite E1 in Hd; contradiction].
    assert (Hd : sel_data (conj_then c1 c2) = sel_data c2).
    { unfold conj_then. rewrite E1. cbn [map app]. fold (nodata c1) (nodata c2).
      rewrite !sel_data_app, !sel_data_nodata. cbn [app]. apply (sel_data_chains (sel_data c2)). }
    cbn [app]. unfold aligned. rewrite Hd. exact A2.
  - destruct A1 as [[E _]|I]; [rewrite E1 in E; discriminate|].
    destruct (sel_data c2) as [|b0 bl] eqn:E2.
    + assert (HM : Mc c2 = []).
      { unfold Mc. destruct (pos_els c2) as [|x r] eqn:Ep; [reflexivity|]. exfalso.
        assert (In x (pos_els c2)) by (rewrite Ep; left; reflexivity). apply (pos_els_in c2 x (proj1 F2)) in H.
        apply sel_data_in in H. rewrite E2 in H. contradiction. }
      rewrite HM, app_nil_r. right.
      assert (Hd : sel_data (conj_then c1 c2) = sel_data c1).
      { unfold conj_then. rewrite E1, E2. cbn [map]. fold (nodata c1) (nodata c2).
        rewrite app_nil_r, !sel_data_app, !sel_data_nodata. cbn [app]. apply (sel_data_chains (a0 :: al)). }
      rewrite Hd. exact I.
    + right. rewrite conj_then_unfold by (rewrite ?E1, ?E2; discriminate).
      rewrite sel_data_app, sel_data_app, !sel_data_nodata. cbn [app]. rewrite sel_data_chains.
      destruct F2 as [Hf Hsame]. unfold pos_same in Hsame.
      assert (Hsingle : forall bd, In bd (sel_data c2) -> single bd) by (intros bd Hb; apply Hf; apply sel_data_in; exact Hb).
      assert (Hposel : forall bd e, In bd (sel_data c2) -> d_el bd = [e] -> d_inv bd = false -> In e (pos_els c2)).
      { intros bd e Hb He Hi. apply (pos_els_in c2 e Hf). apply sel_data_in in Hb. destruct bd as [els inv]. cbn in *. subst. exact Hb. }
      apply then_stepl_inv; auto.
      * rewrite E2. discriminate.
      * apply Forall_forall. exact Hsingle.
      * intros bd e Hb He Hi. pose proof (Hposel bd e Hb He Hi) as Hin. unfold Mc.
        destruct (pos_els c2) as [|x r] eqn:Ep; [contradiction|].
        rewrite (Hsame e x Hin (or_introl eq_refl)). reflexivity.
      * intros HM bd Hb. destruct (d_inv bd) eqn:Ei; [reflexivity|]. exfalso. destruct (Hsingle bd Hb) as [e He].
        pose proof (Hposel bd e Hb He Ei) as Hin. unfold Mc in HM. destruct (pos_els c2); [contradiction|discriminate].
      * intros e HM. unfold Mc in HM. destruct (pos_els c2) as [|x r] eqn:Ep; [discriminate|]. inversion HM; subst.
        apply sel_data_in. apply (pos_els_in c2 e Hf). rewrite Ep. left. reflexivity.
      * unfold Mc. destruct (pos_els c2); [left; reflexivity|right; eexists; reflexivity].
Qed.

(* ------------------------------------------------------------------ chains *)
Fixpoint chain (e : expr) : bool :=
  match e with
  | EOr a b => chain a && chain b
  | EThen a g => chain a && lgrp g
  | _ => lgrp e
  end.

Definition ends_le1 (a : expr) : Prop := forall v i p E, run v a i p = Some E -> (length E <= 1)%nat.

Definition chain_ok (a : expr) (cs : cset) : Prop :=
  cs <> [] /\ cset_wf cs /\ Forall (fun c => aligned c (Mof c)) cs /\
  forall v, val_ok v -> forall K : option N -> bool,
    existsb (fun c => eval_conj v c && K (cpos v (Mof c))) cs =
    existsb (fun i => match run v a i (v_start v) with Some E => K (hd_error E) | None => false end) (seqn (readings a)).

Lemma cpos_Mc v c : cpos v (Mc c) = cendo v c.
Proof.
  unfold cpos, Mc, cendo, pos_of. destruct (pos_els c) as [|x r]; [reflexivity|]. cbn [run_all].
  destruct (v_nxt v x (v_start v)); reflexivity.
Qed.

Lemma group_chain_ok a cs : group_ok a cs -> chain_ok a cs.
Proof.
  intros (N & W & F & _ & S). rewrite Forall_forall in F.
  assert (HM : forall c, In c cs -> Mof c = Mc c) by (intros c Hc; apply Mof_aligned; apply flat1_aligned; auto).
  split; [exact N|]. split; [exact W|]. split.
  - apply Forall_forall. intros c Hc. rewrite (HM c Hc). apply flat1_aligned. auto.
  - intros v ok K. rewrite <- (S v ok K). apply existsb_ext_in. intros c Hc. rewrite (HM c Hc), cpos_Mc. reflexivity.
Qed.

Lemma chain_or a b xa xb : chain_ok a xa -> chain_ok b xb -> chain_ok (EOr a b) (cs_or xa xb).
Proof.
  intros (Na & Wa & Fa & Sa) (Nb & Wb & Fb & Sb). unfold cs_or. split; [|split; [|split]].
  - destruct xa; [congruence|discriminate].
  - apply cset_wf_app; auto.
  - apply Forall_app; split; auto.
  - intros v ok K. rewrite existsb_app, (Sa v ok K), (Sb v ok K). cbn [readings]. unfold seqn. rewrite existsb_seq_app. f_equal.
    + apply existsb_ext_in. intros i Hi. apply in_seq in Hi. cbn [run]. destruct (Nat.ltb_spec i (readings a)); [reflexivity|lia].
    + apply existsb_ext_in. intros k _. cbn [run]. destruct (Nat.ltb_spec (readings a + k) (readings a)); [lia|].
      replace (readings a + k - readings a)%nat with k by lia. reflexivity.
Qed.

Lemma aligned_pos v c M : aligned c M -> eval_conj v c = true -> exists q, pos_of v M = Some q.
Proof.
  intros [[_ ->]|I] He; [exists (v_start v); reflexivity|].
  rewrite (eval_conj_split v c) in He. apply andb_true_iff in He as [_ He].
  destruct (si_full _ _ I) as (d & Hd & Hm). rewrite forallb_forall in He.
  pose proof (eval_matched_runs v d (si_ne _ _ I d Hd) (He d Hd)) as Hp. rewrite Hm in Hp.
  destruct (pos_of v M) as [q|]; [exists q; reflexivity|congruence].
Qed.

Lemma existsb_false {A} (l : list A) : existsb (fun _ => false) l = false.
Proof. induction l; cbn; auto. Qed.

Lemma merge_none o : merge None o = o.
Proof. destruct o; reflexivity. Qed.

Lemma chain_then a g xa xg :
  ends_le1 a -> nots_plain g = true -> (data_ends g <= 1)%nat ->
  chain_ok a xa -> group_ok g xg -> chain_ok (EThen a g) (cs_then xa xg).
Proof.
  intros He Hpg Hdg (Na & Wa & Fa & Sa) Gg. pose proof Gg as (Ng & Wg & Fg & _ & Sg).
  assert (Hshape : cs_then xa xg = flat_map (fun c1 => map (fun c2 => conj_then c1 c2) xg) xa).
  { unfold cs_then. destruct xa; [congruence|]. destruct xg; [congruence|]. reflexivity. }
  rewrite Forall_forall in Fa, Fg. unfold cset_wf in Wa, Wg. rewrite Forall_forall in Wa, Wg.
  assert (HMof : forall c1 c2, In c1 xa -> In c2 xg -> aligned (conj_then c1 c2) (Mof c1 ++ Mc c2)).
  { intros c1 c2 H1 H2. apply aligned_then; auto. }
  split; [|split; [|split]].
  - rewrite Hshape. destruct xa; [congruence|]. destruct xg; [congruence|]. cbn. discriminate.
  - rewrite Hshape. apply Forall_forall. intros c Hc. apply in_flat_map in Hc as (c1 & H1 & Hc). apply in_map_iff in Hc as (c2 & <- & H2).
    apply conj_then_wf; auto.
  - rewrite Hshape. apply Forall_forall. intros c Hc. apply in_flat_map in Hc as (c1 & H1 & Hc). apply in_map_iff in Hc as (c2 & <- & H2).
    rewrite (Mof_aligned _ _ (HMof c1 c2 H1 H2)). apply HMof; auto.
  - intros v ok K. rewrite Hshape, existsb_flat_map'.
    set (F := fun o : option N =>
                existsb (fun j => match run v g j (opos v o) with Some E => K (merge o (hd_error E)) | None => false end) (seqn (readings g))).
    transitivity (existsb (fun c1 => eval_conj v c1 && F (cpos v (Mof c1))) xa).
    + apply existsb_ext_in. intros c1 H1. rewrite existsb_map'.
      pose proof (Fa c1 H1) as A1. set (M1 := Mof c1) in *.
      destruct (eval_conj v c1) eqn:E1; cbn [andb].
      2:{ transitivity (existsb (fun _ : conj => false) xg); [|apply existsb_false].
          apply existsb_ext_in. intros c2 H2. rewrite (conj_then_sem2 v c1 M1 c2 A1 (Wg c2 H2)), E1. reflexivity. }
      destruct (aligned_pos v c1 M1 A1 E1) as (q1 & Hq1). pose proof (pos_of_cpos v M1 q1 Hq1) as Ho.
      transitivity (existsb (fun c2 => eval_conj (at_pos v q1) c2 && K (merge (cpos v M1) (cendo (at_pos v q1) c2))) xg).
      * apply existsb_ext_in. intros c2 H2.
        rewrite (conj_then_sem2 v c1 M1 c2 A1 (Wg c2 H2)), E1, Hq1. cbn [andb].
        rewrite (Mof_aligned _ _ (HMof c1 c2 H1 H2)). fold M1.
        destruct (eval_conj (at_pos v q1) c2) eqn:E2; [|reflexivity]. cbn [andb]. f_equal.
        unfold Mc, cendo. destruct (pos_els c2) as [|y r] eqn:Ep.
        -- rewrite app_nil_r. reflexivity.
        -- cbn [v_nxt v_start at_pos]. unfold cpos at 1. destruct (M1 ++ [y]) eqn:Em; [destruct M1; discriminate|]. rewrite <- Em.
           rewrite pos_of_snoc, Hq1.
           (* c2 holds from q1, so its matched filter y is found there *)
           destruct (Fg c2 H2) as [Hf _].
           assert (Hin : In (CData (mkData [y] false)) c2) by (apply (pos_els_in c2 y Hf); rewrite Ep; left; reflexivity).
           unfold eval_conj in E2. rewrite forallb_forall in E2. specialize (E2 _ Hin). cbn in E2. unfold eval_data in E2. cbn in E2.
           destruct (v_nxt v y q1); [reflexivity|discriminate].
      * rewrite (Sg (at_pos v q1) (val_ok_at v q1 ok) (fun o2 => K (merge (cpos v M1) o2))).
        unfold F. rewrite Ho. apply existsb_ext_in. intros j _. cbn [v_start at_pos]. rewrite run_at. reflexivity.
    + rewrite (Sa v ok F). cbn [readings]. unfold seqn. symmetry.
      set (G := fun i j => match then_run (run v a i (v_start v)) (fun q => run v g j q) (v_start v) with
                           | Some E => K (hd_error E) | None => false end).
      transitivity (existsb (fun k => G (k / readings g)%nat (k mod readings g)%nat) (seq 0 (readings a * readings g))).
      { apply existsb_ext_in. intros k _. unfold G. rewrite run_then. reflexivity. }
      rewrite (existsb_seq_prod2 G). apply existsb_ext_in. intros i _. unfold G.
      destruct (run v a i (v_start v)) as [E1|] eqn:Ea; [|apply existsb_false].
      pose proof (He v i (v_start v) E1 Ea) as Hl. unfold F, seqn.
      destruct E1 as [|q1 [|q2 r]]; [| |cbn in Hl; lia]; cbn [hd_error opos then_run fold_right].
      * apply existsb_ext_in. intros j _. destruct (run v g j (v_start v)); [rewrite merge_none|]; reflexivity.
      * apply existsb_ext_in. intros j _. destruct (run v g j q1) as [[|y ys]|]; cbn; try reflexivity.
Qed.

Lemma lgrp_ends a : lgrp a = true -> ends_le1 a.
Proof.
  unfold lgrp. intros H v i p E Hr. apply andb_true_iff in H as [Hn Hd]. apply Nat.leb_le in Hd.
  pose proof (run_ends v a Hn i p E Hr). lia.
Qed.

Lemma then_ends a g : ends_le1 a -> ends_le1 g -> ends_le1 (EThen a g).
Proof.
  intros Ha Hg v i p E Hr. rewrite run_then in Hr.
  destruct (run v a (i / readings g) p) as [E1|] eqn:Ea; [|discriminate]. pose proof (Ha _ _ _ _ Ea) as Hl.
  destruct E1 as [|q1 [|q2 r]]; [| |cbn in Hl; lia]; cbn [then_run fold_right] in Hr.
  - apply (Hg _ _ _ _ Hr).
  - destruct (run v g (i mod readings g) q1) as [[|y ys]|] eqn:Eg; inversion Hr; subst; cbn; [lia|].
    pose proof (Hg _ _ _ _ Eg). rewrite app_nil_r. exact H.
Qed.
Lemma or_ends a b : ends_le1 a -> ends_le1 b -> ends_le1 (EOr a b).
Proof. intros Ha Hb v i p E Hr. cbn [run] in Hr. destruct (Nat.ltb i (readings a)); eauto. Qed.

Theorem chain_sound a : chain a = true -> expr_wf a ->
  exists cs, norm a = Some cs /\ chain_ok a cs /\ ends_le1 a /\ strip a = Some a /\ wf_seq false a = true /\ multi_end a = false.
Proof.
  assert (Hbase : forall a, lgrp a = true -> expr_wf a ->
            exists cs, norm a = Some cs /\ chain_ok a cs /\ ends_le1 a /\ strip a = Some a /\ wf_seq false a = true /\ multi_end a = false).
  { intros x Hl Hw. pose proof Hl as Hl'. unfold lgrp in Hl'. apply andb_true_iff in Hl' as [Hn Hd]. apply Nat.leb_le in Hd.
    destruct (group_sound x Hn Hd Hw) as (cs & En & G). destruct (nots_plain_facts x Hn) as (_ & _ & Hs & _).
    destruct (lgrp_wf x Hl) as [W1 W2].
    exists cs. split; [exact En|]. split; [apply group_chain_ok; exact G|]. split; [apply lgrp_ends; exact Hl|]. auto. }
  induction a as [x| |x IH|x IHx y IHy|x IHx y IHy|x IHx y IHy]; cbn [chain expr_wf]; intros Hc Hw.
  - apply Hbase; auto.
  - apply Hbase; auto.
  - apply Hbase; auto.
  - apply Hbase; auto.
  - apply andb_true_iff in Hc as [Hx Hy]. destruct Hw as [Wx Wy].
    destruct (IHx Hx Wx) as (xa & Ea & Ca & La & Sa & Fa & Ma). destruct (IHy Hy Wy) as (xb & Eb & Cb & Lb & Sb & Fb & Mb).
    exists (cs_or xa xb). cbn [norm strip wf_seq multi_end]. rewrite Ea, Eb, Sa, Sb, Fa, Fb, Ma, Mb.
    split; [reflexivity|]. split; [apply chain_or; auto|]. split; [apply or_ends; auto|]. auto.
  - apply andb_true_iff in Hc as [Hx Hy]. destruct Hw as [Wx Wy].
    destruct (IHx Hx Wx) as (xa & Ea & Ca & La & Sa & Fa & Ma).
    pose proof Hy as Hy'. unfold lgrp in Hy'. apply andb_true_iff in Hy' as [Hn Hd]. apply Nat.leb_le in Hd.
    destruct (group_sound y Hn Hd Wy) as (xg & Eg & Gg). destruct (nots_plain_facts y Hn) as (_ & _ & Sy & _).
    destruct (lgrp_wf y Hy) as [Fy My].
    exists (cs_then xa xg). cbn [norm strip wf_seq multi_end]. rewrite Ea, Eg, Sa, Sy, Fa, Fy, Ma, My.
    split; [reflexivity|]. split; [apply chain_then; auto|]. split; [apply then_ends; [exact La|apply lgrp_ends; exact Hy]|]. auto.
Qed.

(* THEN: a chain on the left, anything with a sound set on the right *)
Lemma then_sound_chain v a b' xa yb :
  chain_ok a xa -> ends_le1 a -> val_ok v -> cset_wf yb -> yb <> [] ->
  (forall q, eval_set (at_pos v q) yb = holds v b' q) ->
  eval_set v (cs_then xa yb) = holds v (EThen a b') (v_start v).
Proof.
  intros (Na & Wa & Fa & Sa) He ok Wb Nb Hb.
  assert (Hshape : cs_then xa yb = flat_map (fun c1 => map (fun c2 => conj_then c1 c2) yb) xa).
  { unfold cs_then. destruct xa; [congruence|]. destruct yb; [congruence|]. reflexivity. }
  set (K := fun o : option N => holds v b' (opos v o)).
  rewrite Hshape. unfold eval_set. rewrite existsb_flat_map'.
  transitivity (existsb (fun c1 => eval_conj v c1 && K (cpos v (Mof c1))) xa).
  - apply existsb_ext_in. intros c1 H1. rewrite existsb_map'.
    rewrite Forall_forall in Fa. pose proof (Fa c1 H1) as A1.
    transitivity (existsb (fun c2 => eval_conj v c1 && match pos_of v (Mof c1) with Some q => eval_conj (at_pos v q) c2 | None => false end) yb).
    { apply existsb_ext_in. intros c2 H2. apply conj_then_sem2; [exact A1|]. unfold cset_wf in Wb. rewrite Forall_forall in Wb. auto. }
    destruct (eval_conj v c1) eqn:E1; cbn [andb]; [|apply existsb_false].
    destruct (aligned_pos v c1 _ A1 E1) as (q1 & Hq1). rewrite Hq1. unfold K. rewrite (pos_of_cpos v _ q1 Hq1).
    fold (eval_set (at_pos v q1) yb). apply Hb.
  - rewrite (Sa v ok K), holds_then. unfold seqn. apply existsb_ext_in. intros i _.
    transitivity (existsb (fun j => match run v a i (v_start v) with
                                    | None => false
                                    | Some [] => is_some (run v b' j (v_start v))
                                    | Some (q :: _) => is_some (run v b' j q)
                                    end) (seq 0 (readings b'))).
    2:{ apply existsb_ext_in. intros j _. symmetry. apply is_some_then_run. intros E HE. apply (He _ _ _ _ HE). }
    destruct (run v a i (v_start v)) as [[|q r]|]; unfold K; cbn [hd_error opos]; try reflexivity.
    symmetry. apply existsb_false.
Qed.

(* ------------------------------------------------------------------ the class of the headline theorems *)
Fixpoint class3 (e : expr) : bool :=
  match e with
  | EAtom _ | ESkip => true
  | ENot a => class3 a
  | EAnd a b | EOr a b => class3 a && class3 b
  | EThen a b => chain a && class3 b
  end.

Theorem norm_sound_class3 e :
  class3 e = true -> expr_wf e ->
  match norm e with
  | Some cs => cs <> [] /\ cset_wf cs /\
               exists e', strip e = Some e' /\
                          forall v, val_ok v -> eval_set v cs = holds v e' (v_start v)
  | None => strip e = None
  end.
Proof.
  induction e as [a| |a IH|a IHa b IHb|a IHa b IHb|a IHa b IHb]; intros Hf Hw; cbn [class3 expr_wf norm strip] in *.
  - apply (norm_sound_then (EAtom a) eq_refl Hw).
  - reflexivity.
  - specialize (IH Hf Hw). destruct (norm a) as [cs|].
    + destruct IH as (N & W & e' & Es & Ee). rewrite Es. split; [|split].
      * apply (cs_invert_sound v0 v0_ok cs N W).
      * apply (cs_invert_sound v0 v0_ok cs N W).
      * exists (ENot e'). split; [reflexivity|]. intros v ok. rewrite holds_not, <- (Ee v ok). apply (cs_invert_sound v ok cs N W).
    + rewrite IH. reflexivity.
  - apply andb_true_iff in Hf as [Hfa Hfb]. destruct Hw as [Hwa Hwb].
    specialize (IHa Hfa Hwa). specialize (IHb Hfb Hwb).
    destruct (norm a) as [x|], (norm b) as [y|].
    + destruct IHa as (Na & Wa & ea & Esa & Eea). destruct IHb as (Nb & Wb & eb & Esb & Eeb). rewrite Esa, Esb.
      destruct (cs_and_sound v0 v0_ok x y Na Nb Wa Wb) as (_ & W & N). split; [exact N|]. split; [exact W|].
      exists (EAnd ea eb). split; [reflexivity|]. intros v ok. rewrite holds_and, <- (Eea v ok), <- (Eeb v ok).
      apply (cs_and_sound v ok x y Na Nb Wa Wb).
    + destruct IHa as (Na & Wa & ea & Esa & Eea). rewrite Esa, IHb. split; [exact Na|]. split; [exact Wa|]. exists ea. auto.
    + destruct IHb as (Nb & Wb & eb & Esb & Eeb). rewrite IHa, Esb. split; [exact Nb|]. split; [exact Wb|]. exists eb. auto.
    + rewrite IHa, IHb. reflexivity.
  - apply andb_true_iff in Hf as [Hfa Hfb]. destruct Hw as [Hwa Hwb].
    specialize (IHa Hfa Hwa). specialize (IHb Hfb Hwb).
    destruct (norm a) as [x|], (norm b) as [y|].
    + destruct IHa as (Na & Wa & ea & Esa & Eea). destruct IHb as (Nb & Wb & eb & Esb & Eeb). rewrite Esa, Esb.
      split; [unfold cs_or; destruct x; [congruence|discriminate]|]. split; [apply cset_wf_app; auto|].
      exists (EOr ea eb). split; [reflexivity|]. intros v ok. rewrite holds_or, cs_or_sound, (Eea v ok), (Eeb v ok). reflexivity.
    + destruct IHa as (Na & Wa & ea & Esa & Eea). rewrite Esa, IHb. split; [exact Na|]. split; [exact Wa|]. exists ea. auto.
    + destruct IHb as (Nb & Wb & eb & Esb & Eeb). rewrite IHa, Esb. split; [exact Nb|]. split; [exact Wb|]. exists eb. auto.
    + rewrite IHa, IHb. reflexivity.
  - (* THEN: a chain on the left *)
    apply andb_true_iff in Hf as [Hfa Hfb]. destruct Hw as [Hwa Hwb]. specialize (IHb Hfb Hwb). clear IHa.
    destruct (chain_sound a Hfa Hwa) as (xa & Ea & Ca & La & Sta & _ & _). rewrite Ea, Sta.
    pose proof Ca as (Na & Wa & Fa & Sa).
    destruct (norm b) as [y|].
    + destruct IHb as (Nb & Wb & eb & Esb & Eeb). rewrite Esb. split; [|split].
      * unfold cs_then. destruct xa; [congruence|]. destruct y; [congruence|]. discriminate.
      * unfold cs_then. destruct xa as [|x0 xs] eqn:Ex; [congruence|]. destruct y as [|y0 ys] eqn:Ey; [congruence|]. rewrite <- Ex, <- Ey in *.
        unfold cset_wf in *. rewrite Forall_forall in *. intros c Hc.
        apply in_flat_map in Hc as (c1 & H1 & Hc). apply in_map_iff in Hc as (c2 & <- & H2). apply conj_then_wf; auto.
      * exists (EThen a eb). split; [reflexivity|]. intros v ok.
        apply (then_sound_chain v a eb xa y Ca La ok Wb Nb). intros q. rewrite (Eeb (at_pos v q) (val_ok_at v q ok)). apply holds_at.
    + rewrite IHb. split; [exact Na|]. split; [exact Wa|]. exists a. split; [reflexivity|]. intros v ok.
      pose proof (Sa v ok (fun _ => true)) as S1. unfold eval_set, holds.
      transitivity (existsb (fun c => eval_conj v c && true) xa); [apply existsb_ext_in; intros; rewrite andb_true_r; reflexivity|].
      rewrite S1. apply existsb_ext_in. intros i _. destruct (run v a i (v_start v)); reflexivity.
Qed.

Theorem normalisation_preserves_meaning_class3 v e :
  val_ok v -> ids_ok v -> class3 e = true -> expr_wf e ->
  eval_set v (parse_conditions e) = sem v e.
Proof.
  intros ok iok Hf Hw. pose proof (norm_sound_class3 e Hf Hw) as H.
  destruct (norm e) as [cs|] eqn:En.
  - destruct H as (N & W & e' & Es & Ee). rewrite (parse_final_sound v e cs ok iok En N W).
    unfold sem. rewrite Es. apply Ee. exact ok.
  - unfold parse_conditions, sem. rewrite En, H. reflexivity.
Qed.

Theorem impossible_only_if_unsatisfiable_class3 e :
  class3 e = true -> expr_wf e -> parse_conditions e = [] ->
  forall v, val_ok v -> ids_ok v -> sem v e = false.
Proof.
  intros Hf Hw Hp v ok iok. rewrite <- (normalisation_preserves_meaning_class3 v e ok iok Hf Hw), Hp. reflexivity.
Qed.

(* the class contains the earlier ones and lies inside the judged fragment *)
Lemma grp_lgrp g : grp g = true -> lgrp g = true.
Proof.
  unfold lgrp. induction g as [a| |a IH|a IHa b IHb|a IHa b IHb|a IHa b IHb]; cbn [grp]; intros H; try discriminate.
  - destruct a; try discriminate. reflexivity.
  - destruct a as [[| | | | |sub [|el [|]]]| | | | |]; try discriminate. reflexivity.
  - apply andb_true_iff in H as [Ha Hb]. specialize (IHa Ha). specialize (IHb Hb).
    apply andb_true_iff in IHa as [A1 A2]. apply andb_true_iff in IHb as [B1 B2]. apply Nat.leb_le in A2, B2.
    cbn [nots_plain data_ends]. rewrite A1, B1. cbn. apply Nat.leb_le. lia.
Qed.
Lemma lgrp_chain e : lgrp e = true -> chain e = true.
Proof.
  induction e as [a| |a IH|a IHa b IHb|a IHa b IHb|a IHa b IHb]; cbn [chain]; intros H; auto.
  - unfold lgrp in *. apply andb_true_iff in H as [Hn Hd]. cbn [nots_plain data_ends] in *. apply andb_true_iff in Hn as [Ha Hb].
    apply Nat.leb_le in Hd. rewrite IHa, IHb; [reflexivity| |]; apply andb_true_iff; split; auto; apply Nat.leb_le; lia.
  - unfold lgrp in H. cbn [nots_plain] in H. discriminate.
Qed.
Lemma seqs_chain e : seqs e = true -> chain e = true.
Proof.
  induction e as [a| |a IH|a IHa b IHb|a IHa b IHb|a IHa b IHb]; cbn [seqs chain]; intros H; try discriminate.
  - apply (grp_lgrp (EAtom a) H).
  - apply (grp_lgrp (ENot a) H).
  - apply andb_true_iff in H as [Ha Hb]. rewrite IHa, IHb; auto.
  - apply andb_true_iff in H as [Ha Hb]. rewrite IHa, (grp_lgrp b Hb); auto.
Qed.
Theorem class_ok_class3 e : class_ok e = true -> class3 e = true.
Proof.
  induction e as [a| |a IH|a IHa b IHb|a IHa b IHb|a IHa b IHb]; cbn [class_ok class3]; intros H; auto.
  - apply andb_true_iff in H as [Ha Hb]. rewrite IHa, IHb; auto.
  - apply andb_true_iff in H as [Ha Hb]. rewrite IHa, IHb; auto.
  - apply andb_true_iff in H as [Ha Hb]. rewrite (IHb Hb), andb_true_r.
    apply orb_true_iff in Ha as [Ha|Ha]; [apply seqs_chain|apply lgrp_chain]; exact Ha.
Qed.
Lemma chain_judged a : chain a = true -> strip a = Some a /\ wf_seq false a = true /\ multi_end a = false.
Proof.
  assert (Hbase : forall x, lgrp x = true -> strip x = Some x /\ wf_seq false x = true /\ multi_end x = false).
  { intros x Hl. pose proof Hl as Hl'. unfold lgrp in Hl'. apply andb_true_iff in Hl' as [Hn _].
    destruct (nots_plain_facts x Hn) as (_ & _ & Hs & _). destruct (lgrp_wf x Hl). auto. }
  induction a as [x| |x IH|x IHx y IHy|x IHx y IHy|x IHx y IHy]; cbn [chain]; intros Hc; try (apply Hbase; exact Hc).
  - apply andb_true_iff in Hc as [Hx Hy]. destruct (IHx Hx) as (S1 & W1 & M1). destruct (IHy Hy) as (S2 & W2 & M2).
    cbn [strip wf_seq multi_end]. rewrite S1, S2, W1, W2, M1, M2. auto.
  - apply andb_true_iff in Hc as [Hx Hy]. destruct (IHx Hx) as (S1 & W1 & M1). destruct (Hbase y Hy) as (S2 & W2 & M2).
    cbn [strip wf_seq multi_end]. rewrite S1, S2, W1, W2, M1, M2. auto.
Qed.
Theorem class3_judged e : class3 e = true -> wf_seq true e = true.
Proof.
  induction e as [x| |x IH|x IHx y IHy|x IHx y IHy|x IHx y IHy]; cbn [class3]; intros H; try reflexivity.
  - cbn. rewrite (IH H). reflexivity.
  - apply andb_true_iff in H as [Ha Hb]. cbn. rewrite (IHx Ha), (IHy Hb); auto.
  - apply andb_true_iff in H as [Ha Hb]. cbn. rewrite (IHx Ha), (IHy Hb); auto.
  - apply andb_true_iff in H as [Ha Hb].
    destruct (chain_judged x Ha) as (_ & A1 & A2). cbn. rewrite A1, A2, (IHy Hb). reflexivity.
Qed.
