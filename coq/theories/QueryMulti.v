(* QueryMulti.v -- THEN whose left operand ends at SEVERAL payload positions (AND groups with several payload
   filters), parenthesised THEN on the right of a THEN, directives inside sequences: the whole judged fragment. *)
From Coq Require Import List NArith ZArith Bool Lia Permutation Arith.
From Pk Require Import Query QuerySort QueryClean QueryFlags QueryHosts QueryOps QuerySet QueryAtoms QueryMain QuerySeq QueryThen QueryInv QueryGroup QueryChain.
Import ListNotations.
Open Scope Z_scope.

Definition seteq {A} (a b : list A) : Prop := forall x, In x a <-> In x b.
Lemma seteq_refl {A} (a : list A) : seteq a a.
Proof. intros x. tauto. Qed.
Lemma seteq_sym {A} (a b : list A) : seteq a b -> seteq b a.
Proof. intros H x. rewrite (H x). tauto. Qed.
Lemma seteq_trans {A} (a b c : list A) : seteq a b -> seteq b c -> seteq a c.
Proof. intros H1 H2 x. rewrite (H1 x). apply H2. Qed.
Lemma seteq_app {A} (a a' b b' : list A) : seteq a a' -> seteq b b' -> seteq (a ++ b) (a' ++ b').
Proof. intros H1 H2 x. rewrite !in_app_iff, (H1 x), (H2 x). tauto. Qed.
Lemma seteq_nil {A} (a : list A) : seteq a [] -> a = [].
Proof. intros H. destruct a as [|x a]; [reflexivity|]. destruct (proj1 (H x) (or_introl eq_refl)). Qed.
Lemma seteq_forallb {A} (f : A -> bool) a b : seteq a b -> forallb f a = forallb f b.
Proof.
  intros H. apply bool_eq_iff. rewrite !forallb_forall. split; intros G x Hx; apply G; apply H; exact Hx.
Qed.
Lemma seteq_flat_map {A B} (f g : A -> list B) a b : seteq a b -> (forall x, In x a -> seteq (f x) (g x)) -> seteq (flat_map f a) (flat_map g b).
Proof.
  intros H Hf y. rewrite !in_flat_map. split.
  - intros (x & Hx & Hy). exists x. split; [apply H; exact Hx|apply (Hf x Hx); exact Hy].
  - intros (x & Hx & Hy). apply H in Hx. exists x. split; [exact Hx|apply (Hf x Hx); exact Hy].
Qed.

(* ------------------------------------------------------------------ several matched parts *)
Record ms_inv (ds : list datac) (Ms : list (list N)) : Prop := {
  mi_prefix : forall d, In d ds -> exists M, In M Ms /\ is_prefix (matched d) M = true;
  mi_full : forall M, In M Ms -> exists d, In d ds /\ matched d = M;
  mi_pos : forall d, In d ds -> d_inv d = false -> In (d_el d) Ms;
  mi_ne : forall d, In d ds -> d_el d <> [];
  mi_anti : forall M M', In M Ms -> In M' Ms -> is_prefix M M' = true -> M = M';
  mi_some : ds <> []
}.

Definition inMs (M : list N) (Ms : list (list N)) : bool := existsb (list_eqb N.eqb M) Ms.
Lemma inMs_iff M Ms : inMs M Ms = true <-> In M Ms.
Proof.
  unfold inMs. rewrite existsb_exists. split.
  - intros (x & Hx & E). apply Nl_eqb_eq in E. subst. exact Hx.
  - intros H. exists M. split; [exact H|]. apply list_eqb_refl. apply N.eqb_refl.
Qed.

Lemma ms_nonempty ds Ms : ms_inv ds Ms -> Ms <> [].
Proof.
  intros I E. pose proof (mi_some _ _ I) as Hn. destruct ds as [|d r]; [congruence|].
  destruct (mi_prefix _ _ I d (or_introl eq_refl)) as (M & HM & _). rewrite E in HM. contradiction.
Qed.

Lemma covered_multi ds Ms ad : ms_inv ds Ms -> In ad ds ->
  existsb (fun o => proper_prefix (matched ad) (matched o)) ds = negb (inMs (matched ad) Ms).
Proof.
  intros I Hin. destruct (inMs (matched ad) Ms) eqn:E; cbn [negb].
  - apply inMs_iff in E.
    destruct (existsb _ ds) eqn:Ex; [|reflexivity]. apply existsb_exists in Ex as (o & Ho & Hpp).
    unfold proper_prefix in Hpp. apply andb_true_iff in Hpp as [Hl Hp]. apply Nat.ltb_lt in Hl.
    destruct (mi_prefix _ _ I o Ho) as (M' & HM' & Hp').
    pose proof (is_prefix_trans _ _ _ Hp Hp') as Hp2.
    pose proof (mi_anti _ _ I _ _ E HM' Hp2) as Heq.
    pose proof (is_prefix_length _ _ Hp') as Hl2. rewrite <- Heq in Hl2. lia.
  - destruct (mi_prefix _ _ I ad Hin) as (M & HM & Hp). destruct (mi_full _ _ I M HM) as (o & Ho & Hm).
    apply existsb_exists. exists o. split; [exact Ho|]. unfold proper_prefix. rewrite Hm, Hp, andb_true_r. apply Nat.ltb_lt.
    pose proof (is_prefix_length _ _ Hp) as Hle.
    destruct (Nat.eq_dec (length (matched ad)) (length M)) as [El|]; [|lia].
    rewrite (is_prefix_same_length _ _ Hp El) in E. apply inMs_iff in HM. congruence.
Qed.

(* f holds behind every matched part *)
Definition at_all (v : valuation) (Ms : list (list N)) (f : valuation -> bool) : bool :=
  forallb (fun M => match pos_of v M with Some q => f (at_pos v q) | None => false end) Ms.

Lemma then_stepl_eval_multi v ds Ms bds : ms_inv ds Ms -> bds <> [] -> Forall data_wf bds ->
  forallb (eval_data v) (then_stepl ds bds) =
  forallb (eval_data v) ds && at_all v Ms (fun w => forallb (eval_data w) bds).
Proof.
  intros I Hb Hw.
  assert (Hcont : forall M bd, In bd bds ->
            eval_data v (mkData (M ++ d_el bd) (d_inv bd)) =
            match pos_of v M with Some q => eval_data (at_pos v q) bd | None => false end).
  { intros M bd Hin. unfold eval_data, pos_of. cbn [d_el d_inv v_nxt v_start at_pos]. rewrite Forall_forall in Hw.
    apply eval_chain_app. apply (Hw bd Hin). }
  assert (Hfull_in : forall ad, In ad ds -> In (matched ad) Ms ->
            forall bd, In bd bds -> In (mkData (matched ad ++ d_el bd) (d_inv bd)) (then_stepl ds bds)).
  { intros ad Ha Hm bd Hbd. unfold then_stepl. apply in_flat_map. exists ad. split; [auto|].
    assert (Hin : In (mkData (matched ad ++ d_el bd) (d_inv bd)) (map (fun bd0 => mkData (matched ad ++ d_el bd0) (d_inv bd0)) bds)).
    { apply in_map_iff. exists bd. auto. }
    destruct (d_inv ad) eqn:Ei; [right|exact Hin].
    rewrite (covered_multi ds Ms ad I Ha). apply inMs_iff in Hm. rewrite Hm. cbn [negb]. exact Hin. }
  destruct bds as [|b0 bs]; [congruence|]. set (bds := b0 :: bs) in *.
  apply bool_eq_iff. rewrite andb_true_iff. unfold at_all. rewrite !forallb_forall. split.
  - intros H. split.
    + intros ad Ha. destruct (d_inv ad) eqn:Ei.
      * apply H. unfold then_stepl. apply in_flat_map. exists ad. split; [auto|]. rewrite Ei. left. reflexivity.
      * assert (Em : matched ad = d_el ad) by (unfold matched; rewrite Ei; reflexivity).
        pose proof (mi_pos _ _ I ad Ha Ei) as HM. rewrite <- Em in HM.
        pose proof (H _ (Hfull_in ad Ha HM b0 (or_introl eq_refl))) as H0. rewrite (Hcont _ b0 (or_introl eq_refl)) in H0.
        destruct (pos_of v (matched ad)) as [q|] eqn:Ep; [|discriminate].
        unfold eval_data. rewrite Ei, eval_chain_pos, <- Em. unfold pos_of in Ep. rewrite Ep. reflexivity.
    + intros M HM. destruct (mi_full _ _ I M HM) as (ad0 & Ha0 & Hm0). rewrite <- Hm0 in HM.
      pose proof (H _ (Hfull_in ad0 Ha0 HM b0 (or_introl eq_refl))) as H0. rewrite (Hcont _ b0 (or_introl eq_refl)), Hm0 in H0.
      destruct (pos_of v M) as [q|] eqn:Ep; [|discriminate]. apply forallb_forall. intros bd Hbd.
      pose proof (H _ (Hfull_in ad0 Ha0 HM bd Hbd)) as H1. rewrite (Hcont _ bd Hbd), Hm0, Ep in H1. exact H1.
  - intros [H Ht] d' Hd'.
    unfold then_stepl in Hd'. apply in_flat_map in Hd' as (ad & Ha & Hd').
    assert (Hc : In d' (map (fun bd => mkData (matched ad ++ d_el bd) (d_inv bd)) bds) -> In (matched ad) Ms -> eval_data v d' = true).
    { intros Hin Hm. apply in_map_iff in Hin as (bd & <- & Hbd). rewrite (Hcont _ bd Hbd).
      specialize (Ht _ Hm). destruct (pos_of v (matched ad)) as [q|]; [|discriminate]. rewrite forallb_forall in Ht. apply Ht. exact Hbd. }
    destruct (d_inv ad) eqn:Ei.
    + destruct Hd' as [<-|Hd']; [apply H; auto|]. rewrite (covered_multi ds Ms ad I Ha) in Hd'.
      destruct (inMs (matched ad) Ms) eqn:E; cbn [negb] in Hd'; [|contradiction].
      apply inMs_iff in E. apply Hc; auto.
    + apply Hc; auto. unfold matched. rewrite Ei. apply (mi_pos _ _ I ad Ha Ei).
Qed.

Definition mal (c : conj) (Ms : list (list N)) : Prop := (sel_data c = [] /\ Ms = [[]]) \/ ms_inv (sel_data c) Ms.

Theorem conj_then_semN v c1 Ms c2 :
  mal c1 Ms -> conj_wf c2 ->
  eval_conj v (conj_then c1 c2) = eval_conj v c1 && at_all v Ms (fun w => eval_conj w c2).
Proof.
  intros HM W.
  destruct HM as [[E1 ->]|I].
  - unfold at_all, pos_of. cbn [forallb run_all]. rewrite eval_conj_at_start, andb_true_r.
    unfold conj_then. rewrite E1. cbn [map app]. fold (nodata c1) (nodata c2).
    rewrite !eval_conj_app, (eval_nodata_only v c1 E1), (eval_conj_split v c2).
    rewrite (eval_conj_map v CData (eval_data v)) by reflexivity. rewrite andb_assoc. reflexivity.
  - pose proof (mi_some _ _ I) as Hne.
    assert (Hpos : forallb (eval_data v) (sel_data c1) = true -> forall M, In M Ms -> pos_of v M <> None).
    { intros H M HM. destruct (mi_full _ _ I M HM) as (d & Hd & Hm). rewrite forallb_forall in H.
      rewrite <- Hm. apply (eval_matched_runs v d (mi_ne _ _ I d Hd) (H d Hd)). }
    rewrite (eval_conj_split v c1).
    destruct (sel_data c2) as [|b0 bs] eqn:Eb.
    + assert (Hc2 : forall q, eval_conj (at_pos v q) c2 = eval_conj v (nodata c2)).
      { intros q. rewrite (eval_conj_split (at_pos v q) c2), Eb, nodata_at. cbn. apply andb_true_r. }
      assert (Hct : conj_then c1 c2 = (nodata c1 ++ nodata c2) ++ map CData (sel_data c1)).
      { unfold conj_then. fold (nodata c1) (nodata c2). rewrite Eb. destruct (sel_data c1); [congruence|].
        cbn [map]. rewrite app_nil_r. reflexivity. }
      rewrite Hct, !eval_conj_app, (eval_conj_map v CData (eval_data v)) by reflexivity.
      destruct (forallb (eval_data v) (sel_data c1)) eqn:E1.
      * assert (Ha : at_all v Ms (fun w => eval_conj w c2) = eval_conj v (nodata c2)).
        { unfold at_all. pose proof (ms_nonempty _ _ I) as Hn. specialize (Hpos eq_refl).
          destruct (eval_conj v (nodata c2)) eqn:Ek.
          - apply forallb_forall. intros M HM. specialize (Hpos M HM). destruct (pos_of v M) as [q|]; [|congruence]. rewrite Hc2. reflexivity.
          - destruct Ms as [|M0 Mr]; [congruence|]. cbn [forallb]. specialize (Hpos M0 (or_introl eq_refl)).
            destruct (pos_of v M0) as [q|]; [|congruence]. rewrite Hc2. reflexivity. }
        rewrite Ha. destruct (eval_conj v (nodata c1)), (eval_conj v (nodata c2)); reflexivity.
      * rewrite !andb_false_r. reflexivity.
    + rewrite conj_then_unfold by (auto; rewrite Eb; discriminate). rewrite Eb, !eval_conj_app, eval_chains.
      rewrite (then_stepl_eval_multi v (sel_data c1) Ms (b0 :: bs) I ltac:(discriminate)) by (rewrite <- Eb; apply sel_data_wf; exact W).
      assert (Ha : at_all v Ms (fun w => eval_conj w c2) = eval_conj v (nodata c2) && at_all v Ms (fun w => forallb (eval_data w) (b0 :: bs)) || negb (eval_conj v (nodata c2)) && at_all v Ms (fun w => eval_conj w c2)).
      { destruct (eval_conj v (nodata c2)) eqn:Ek; cbn [andb negb orb]; [|reflexivity]. rewrite orb_false_r.
        unfold at_all. apply forallb_ext_in'. intros M _. destruct (pos_of v M) as [q|]; [|reflexivity].
        rewrite (eval_conj_split (at_pos v q) c2), Eb, nodata_at, Ek. reflexivity. }
      destruct (eval_conj v (nodata c2)) eqn:Ek.
      * rewrite Ha. cbn [andb negb orb]. rewrite orb_false_r.
        destruct (eval_conj v (nodata c1)), (forallb (eval_data v) (sel_data c1)); reflexivity.
      * assert (Hf : forallb (eval_data v) (sel_data c1) = true -> at_all v Ms (fun w => eval_conj w c2) = false).
        { intros H1. specialize (Hpos H1). pose proof (ms_nonempty _ _ I) as Hn. unfold at_all.
          destruct Ms as [|M0 Mr]; [congruence|]. cbn [forallb]. specialize (Hpos M0 (or_introl eq_refl)).
          destruct (pos_of v M0) as [q|]; [|congruence]. rewrite (eval_conj_split (at_pos v q) c2), nodata_at, Ek. reflexivity. }
        rewrite andb_false_r. cbn [andb]. 
        destruct (forallb (eval_data v) (sel_data c1)) eqn:E1; [rewrite (Hf eq_refl)|]; rewrite ?andb_false_r; reflexivity.
Qed.

(* ------------------------------------------------------------------ Conditions.then keeps the invariant *)
Definition mprod (A B : list (list N)) : list (list N) := flat_map (fun M => map (fun M2 => M ++ M2) B) A.
Lemma in_mprod A B X : In X (mprod A B) <-> exists M M2, In M A /\ In M2 B /\ X = M ++ M2.
Proof.
  unfold mprod. rewrite in_flat_map. split.
  - intros (M & HM & H). apply in_map_iff in H as (M2 & <- & H2). eauto.
  - intros (M & M2 & HM & H2 & ->). exists M. split; [exact HM|]. apply in_map_iff. eauto.
Qed.
Lemma mprod_nil_l B : mprod [[]] B = B.
Proof. unfold mprod. cbn. rewrite app_nil_r. apply map_id. Qed.
Lemma mprod_nil_r A : mprod A [[]] = A.
Proof. unfold mprod. induction A as [|M A IH]; [reflexivity|]. cbn. rewrite app_nil_r. f_equal. exact IH. Qed.

Lemma prefix_comparable A X B Y : is_prefix (A ++ X) (B ++ Y) = true -> is_prefix A B = true \/ is_prefix B A = true.
Proof.
  revert B; induction A as [|a A IH]; intros B H; [left; reflexivity|].
  destruct B as [|b B]; [right; reflexivity|]. cbn in H |- *. apply andb_true_iff in H as [E H].
  rewrite E. apply N.eqb_eq in E. subst. rewrite N.eqb_refl. cbn. apply IH. exact H.
Qed.
Lemma is_prefix_app_cancel M A B : is_prefix (M ++ A) (M ++ B) = is_prefix A B.
Proof. induction M as [|m M IH]; [reflexivity|]. cbn. rewrite N.eqb_refl. exact IH. Qed.
Lemma is_prefix_antisym A B : is_prefix A B = true -> is_prefix B A = true -> A = B.
Proof.
  intros H1 H2. apply is_prefix_same_length; [exact H1|].
  pose proof (is_prefix_length _ _ H1). pose proof (is_prefix_length _ _ H2). lia.
Qed.
Lemma matched_cont M bd : d_el bd <> [] -> matched (mkData (M ++ d_el bd) (d_inv bd)) = M ++ matched bd.
Proof.
  intros H. unfold matched. cbn [d_el d_inv]. destruct (d_inv bd); [|reflexivity]. apply removelast_app. exact H.
Qed.

Lemma then_stepl_active ds Ms bds ad bd : ms_inv ds Ms -> In ad ds -> In (matched ad) Ms -> In bd bds ->
  In (mkData (matched ad ++ d_el bd) (d_inv bd)) (then_stepl ds bds).
Proof.
  intros I Ha Hm Hbd. unfold then_stepl. apply in_flat_map. exists ad. split; [auto|].
  assert (Hin : In (mkData (matched ad ++ d_el bd) (d_inv bd)) (map (fun bd0 => mkData (matched ad ++ d_el bd0) (d_inv bd0)) bds)).
  { apply in_map_iff. exists bd. auto. }
  destruct (d_inv ad) eqn:Ei; [right|exact Hin].
  rewrite (covered_multi ds Ms ad I Ha). apply inMs_iff in Hm. rewrite Hm. cbn [negb]. exact Hin.
Qed.
Lemma then_stepl_in ds Ms bds d' : ms_inv ds Ms -> In d' (then_stepl ds bds) ->
  (In d' ds /\ d_inv d' = true) \/
  (exists ad bd, In ad ds /\ In (matched ad) Ms /\ In bd bds /\ d' = mkData (matched ad ++ d_el bd) (d_inv bd)).
Proof.
  intros I H. unfold then_stepl in H. apply in_flat_map in H as (ad & Ha & H).
  assert (Hc : In d' (map (fun bd => mkData (matched ad ++ d_el bd) (d_inv bd)) bds) -> In (matched ad) Ms ->
               exists ad bd, In ad ds /\ In (matched ad) Ms /\ In bd bds /\ d' = mkData (matched ad ++ d_el bd) (d_inv bd)).
  { intros Hm0 Hm. apply in_map_iff in Hm0 as (bd & <- & Hbd). exists ad, bd. auto. }
  destruct (d_inv ad) eqn:Ei.
  - destruct H as [<-|H]; [left; auto|]. rewrite (covered_multi ds Ms ad I Ha) in H.
    destruct (inMs (matched ad) Ms) eqn:E; cbn [negb] in H; [|contradiction].
    apply inMs_iff in E. right. apply Hc; auto.
  - right. apply Hc; auto. unfold matched. rewrite Ei. apply (mi_pos _ _ I ad Ha Ei).
Qed.

Lemma then_stepl_ms ds Ms bds Ms2 : ms_inv ds Ms -> ms_inv bds Ms2 -> ms_inv (then_stepl ds bds) (mprod Ms Ms2).
Proof.
  intros I I2.
  pose proof (ms_nonempty _ _ I) as N1. pose proof (ms_nonempty _ _ I2) as N2.
  assert (Hfull : forall X, In X (mprod Ms Ms2) -> exists d, In d (then_stepl ds bds) /\ matched d = X).
  { intros X HX. apply in_mprod in HX as (M & M2 & HM & HM2 & ->).
    destruct (mi_full _ _ I M HM) as (ad & Ha & Hma). destruct (mi_full _ _ I2 M2 HM2) as (bd & Hb & Hmb).
    exists (mkData (matched ad ++ d_el bd) (d_inv bd)). split.
    - apply (then_stepl_active ds Ms bds ad bd I Ha); [rewrite Hma; exact HM|exact Hb].
    - rewrite matched_cont by (apply (mi_ne _ _ I2 bd Hb)). rewrite Hma, Hmb. reflexivity. }
  constructor.
  - intros d' H. destruct (then_stepl_in ds Ms bds d' I H) as [[Hd Hi]|(ad & bd & Ha & Hm & Hb & ->)].
    + destruct (mi_prefix _ _ I d' Hd) as (M & HM & Hp). destruct Ms2 as [|M2 r2]; [congruence|].
      exists (M ++ M2). split; [apply in_mprod; exists M, M2; cbn; auto|].
      eapply is_prefix_trans; [exact Hp|apply is_prefix_app_r].
    + destruct (mi_prefix _ _ I2 bd Hb) as (M2 & HM2 & Hp). exists (matched ad ++ M2). split; [apply in_mprod; eauto|].
      rewrite matched_cont by (apply (mi_ne _ _ I2 bd Hb)). rewrite is_prefix_app_cancel. exact Hp.
  - exact Hfull.
  - intros d' H Hi. destruct (then_stepl_in ds Ms bds d' I H) as [[Hd Hi']|(ad & bd & Ha & Hm & Hb & ->)]; [congruence|].
    cbn [d_el d_inv] in *. apply in_mprod. exists (matched ad), (d_el bd). split; [exact Hm|]. split; [|reflexivity].
    apply (mi_pos _ _ I2 bd Hb Hi).
  - intros d' H. destruct (then_stepl_in ds Ms bds d' I H) as [[Hd Hi']|(ad & bd & Ha & Hm & Hb & ->)]; [apply (mi_ne _ _ I d' Hd)|].
    cbn [d_el]. intros E. apply app_eq_nil in E as [_ E]. apply (mi_ne _ _ I2 bd Hb E).
  - intros X X' HX HX' Hp. apply in_mprod in HX as (M & M2 & HM & HM2 & ->). apply in_mprod in HX' as (M' & M2' & HM' & HM2' & ->).
    assert (M = M').
    { destruct (prefix_comparable _ _ _ _ Hp) as [H|H]; [apply (mi_anti _ _ I _ _ HM HM' H)|symmetry; apply (mi_anti _ _ I _ _ HM' HM H)]. }
    subst M'. rewrite is_prefix_app_cancel in Hp. rewrite (mi_anti _ _ I2 _ _ HM2 HM2' Hp). reflexivity.
  - destruct Ms as [|M r]; [congruence|]. destruct Ms2 as [|M2 r2]; [congruence|].
    destruct (Hfull (M ++ M2)) as (d & Hd & _); [apply in_mprod; exists M, M2; cbn; auto|].
    intros E. rewrite E in Hd. contradiction.
Qed.

Lemma mal_then c1 Ms1 c2 Ms2 : mal c1 Ms1 -> mal c2 Ms2 -> mal (conj_then c1 c2) (mprod Ms1 Ms2).
Proof.
  intros A1 A2.
  destruct (sel_data c1) as [|a0 al] eqn:E1.
  - destruct A1 as [[_ ->]|I]; [|exfalso; apply (mi_some _ _ I); exact E1].
    assert (Hd : sel_data (conj_then c1 c2) = sel_data c2).
    { unfold conj_then. rewrite E1. cbn [map app]. fold (nodata c1) (nodata c2).
      rewrite !sel_data_app, !sel_data_nodata. cbn [app]. apply (sel_data_chains (sel_data c2)). }
    rewrite mprod_nil_l. unfold mal. rewrite Hd. exact A2.
  - destruct A1 as [[E _]|I]; [rewrite E1 in E; discriminate|].
    destruct (sel_data c2) as [|b0 bl] eqn:E2.
    + destruct A2 as [[_ ->]|I2]; [|exfalso; apply (mi_some _ _ I2); exact E2].
      rewrite mprod_nil_r. right.
      assert (Hd : sel_data (conj_then c1 c2) = sel_data c1).
      { unfold conj_then. rewrite E1, E2. cbn [map]. fold (nodata c1) (nodata c2).
        rewrite app_nil_r, !sel_data_app, !sel_data_nodata. cbn [app]. apply (sel_data_chains (a0 :: al)). }
      rewrite Hd. exact I.
    + destruct A2 as [[E _]|I2]; [rewrite E2 in E; discriminate|].
      right. rewrite conj_then_unfold by (rewrite ?E1, ?E2; discriminate).
      rewrite sel_data_app, sel_data_app, !sel_data_nodata. cbn [app]. rewrite sel_data_chains.
      apply then_stepl_ms; assumption.
Qed.

(* ------------------------------------------------------------------ where a conjunct ends *)
Definition posq (v : valuation) (q : N) (M : list N) : option N := run_all (v_nxt v) M q.
Lemma pos_of_at v q M : pos_of (at_pos v q) M = posq v q M.
Proof. reflexivity. Qed.
Lemma posq_app v q A B : posq v q (A ++ B) = match posq v q A with Some e => posq v e B | None => None end.
Proof. apply run_all_app. Qed.

(* payload positions reached (none for the empty matched part) *)
Definition cendsM (v : valuation) (q : N) (Ms : list (list N)) : list N :=
  flat_map (fun M => match M with [] => [] | _ => match posq v q M with Some e => [e] | None => [] end end) Ms.
(* the positions a continuation starts from *)
Definition endsM (v : valuation) (q : N) (Ms : list (list N)) : list N :=
  flat_map (fun M => match posq v q M with Some e => [e] | None => [] end) Ms.
Definition ends_or (q : N) (E : list N) : list N := match E with [] => [q] | _ => E end.
Definition alldef (v : valuation) (q : N) (Ms : list (list N)) : Prop := forall M, In M Ms -> posq v q M <> None.

Definition allnil (Ms : list (list N)) : Prop := forall M, In M Ms -> M = [].
Definition nonil (Ms : list (list N)) : Prop := forall M, In M Ms -> M <> [].
Lemma mal_shape c Ms : mal c Ms -> Ms <> [] /\ (allnil Ms \/ nonil Ms).
Proof.
  intros [[_ ->]|I].
  - split; [discriminate|]. left. intros M [<-|[]]. reflexivity.
  - split; [apply (ms_nonempty _ _ I)|].
    destruct (existsb (fun M => match M with [] => true | _ => false end) Ms) eqn:E.
    + left. apply existsb_exists in E as (M0 & H0 & E0). destruct M0; [|discriminate].
      intros M HM. symmetry. apply (mi_anti _ _ I [] M H0 HM). reflexivity.
    + right. intros M HM EM. subst M. assert (existsb (fun M => match M with [] => true | _ => false end) Ms = true); [|congruence].
      apply existsb_exists. exists []. auto.
Qed.

Lemma in_cendsM v q Ms x : In x (cendsM v q Ms) <-> exists M, In M Ms /\ M <> [] /\ posq v q M = Some x.
Proof.
  unfold cendsM. rewrite in_flat_map. split.
  - intros (M & HM & H). exists M. split; [exact HM|]. destruct M as [|m M]; [contradiction|]. split; [discriminate|].
    destruct (posq v q (m :: M)) as [e|]; [|contradiction]. destruct H as [<-|[]]. reflexivity.
  - intros (M & HM & Hn & Hp). exists M. split; [exact HM|]. destruct M as [|m M]; [congruence|]. rewrite Hp. left. reflexivity.
Qed.
Lemma in_endsM v q Ms x : In x (endsM v q Ms) <-> exists M, In M Ms /\ posq v q M = Some x.
Proof.
  unfold endsM. rewrite in_flat_map. split.
  - intros (M & HM & H). exists M. split; [exact HM|]. destruct (posq v q M) as [e|]; [|contradiction]. destruct H as [<-|[]]. reflexivity.
  - intros (M & HM & Hp). exists M. split; [exact HM|]. rewrite Hp. left. reflexivity.
Qed.
Lemma cendsM_allnil v q Ms : allnil Ms -> cendsM v q Ms = [].
Proof.
  intros H. destruct (cendsM v q Ms) as [|x r] eqn:E; [reflexivity|]. exfalso.
  assert (Hx : In x (cendsM v q Ms)) by (rewrite E; left; reflexivity).
  apply in_cendsM in Hx as (M & HM & Hn & _). apply Hn. apply H. exact HM.
Qed.
Lemma cendsM_nonil v q Ms : nonil Ms -> Ms <> [] -> alldef v q Ms -> cendsM v q Ms <> [] /\ seteq (cendsM v q Ms) (endsM v q Ms).
Proof.
  intros Hn Hne Hd. split.
  - destruct Ms as [|M r]; [congruence|]. specialize (Hd M (or_introl eq_refl)). specialize (Hn M (or_introl eq_refl)).
    destruct (posq v q M) as [e|] eqn:Ep; [|congruence].
    intros E. assert (Hx : In e (cendsM v q (M :: r))) by (apply in_cendsM; exists M; cbn; auto).
    rewrite E in Hx. contradiction.
  - intros x. rewrite in_cendsM, in_endsM. split.
    + intros (M & HM & _ & Hp). eauto.
    + intros (M & HM & Hp). exists M. auto.
Qed.
Lemma ends_or_endsM v q Ms : Ms <> [] -> allnil Ms \/ nonil Ms -> alldef v q Ms ->
  seteq (ends_or q (cendsM v q Ms)) (endsM v q Ms).
Proof.
  intros Hne [Ha|Hn] Hd.
  - rewrite (cendsM_allnil v q Ms Ha). cbn [ends_or]. intros x. rewrite in_endsM. split.
    + intros [<-|[]]. destruct Ms as [|M r]; [congruence|]. exists M. split; [left; reflexivity|].
      rewrite (Ha M (or_introl eq_refl)). reflexivity.
    + intros (M & HM & Hp). rewrite (Ha M HM) in Hp. cbn in Hp. inversion Hp. left. reflexivity.
  - destruct (cendsM_nonil v q Ms Hn Hne Hd) as [H1 H2]. destruct (cendsM v q Ms) as [|x r] eqn:E; [congruence|]. exact H2.
Qed.

Lemma at_all_endsM v q Ms f : alldef v q Ms ->
  at_all (at_pos v q) Ms f = forallb (fun e => f (at_pos v e)) (endsM v q Ms).
Proof.
  intros Hd. unfold at_all, endsM. induction Ms as [|M r IH]; [reflexivity|].
  cbn [forallb flat_map]. rewrite forallb_app, <- IH by (intros M' H'; apply Hd; right; exact H').
  rewrite pos_of_at. specialize (Hd M (or_introl eq_refl)). destruct (posq v q M) as [e|]; [|congruence].
  cbn [forallb]. rewrite andb_true_r. reflexivity.
Qed.

(* a conjunct that holds reaches all its positions *)
Lemma mal_alldef v q c Ms : mal c Ms -> eval_conj (at_pos v q) c = true -> alldef v q Ms.
Proof.
  intros [[_ ->]|I] He M HM.
  - destruct HM as [<-|[]]. discriminate.
  - rewrite (eval_conj_split (at_pos v q) c) in He. apply andb_true_iff in He as [_ He]. rewrite forallb_forall in He.
    destruct (mi_full _ _ I M HM) as (d & Hd & Hm). rewrite <- Hm, <- pos_of_at.
    apply (eval_matched_runs (at_pos v q) d (mi_ne _ _ I d Hd) (He d Hd)).
Qed.

(* ends of a THEN *)
Definition then_ends (q : N) (E1 : list N) (F : N -> list N) : list N :=
  match E1 with [] => F q | _ => flat_map (fun e => ends_or e (F e)) E1 end.
Lemma seteq_ends_or q E E' : seteq E E' -> seteq (ends_or q E) (ends_or q E').
Proof.
  intros H. destruct E as [|x r].
  - rewrite (seteq_nil E' (seteq_sym _ _ H)). apply seteq_refl.
  - destruct E' as [|x' r']; [apply seteq_nil in H; discriminate|]. exact H.
Qed.
Lemma seteq_then_ends q E1 E1' F F' : seteq E1 E1' -> (forall e, seteq (F e) (F' e)) -> seteq (then_ends q E1 F) (then_ends q E1' F').
Proof.
  intros H HF. destruct E1 as [|x r].
  - rewrite (seteq_nil E1' (seteq_sym _ _ H)). apply HF.
  - destruct E1' as [|x' r']; [apply seteq_nil in H; discriminate|]. unfold then_ends.
    apply seteq_flat_map; [exact H|]. intros e _. apply seteq_ends_or. apply HF.
Qed.

Lemma cendsM_mprod v q Ms1 Ms2 :
  Ms1 <> [] -> allnil Ms1 \/ nonil Ms1 -> alldef v q Ms1 ->
  Ms2 <> [] -> allnil Ms2 \/ nonil Ms2 -> (forall e, In e (endsM v q Ms1) -> alldef v e Ms2) ->
  seteq (cendsM v q (mprod Ms1 Ms2)) (then_ends q (cendsM v q Ms1) (fun e => cendsM v e Ms2)).
Proof.
  intros N1 S1 D1 N2 S2 D2. destruct S1 as [A1|L1].
  - rewrite (cendsM_allnil v q Ms1 A1). cbn [then_ends]. intros x. rewrite !in_cendsM. split.
    + intros (X & HX & Hn & Hp). apply in_mprod in HX as (M & M2 & HM & HM2 & ->). rewrite (A1 M HM) in *. cbn [app] in *. eauto.
    + intros (M2 & HM2 & Hn & Hp). destruct Ms1 as [|M r]; [congruence|]. exists M2. split; [|auto].
      apply in_mprod. exists M, M2. split; [left; reflexivity|]. split; [exact HM2|]. rewrite (A1 M (or_introl eq_refl)). reflexivity.
  - destruct (cendsM_nonil v q Ms1 L1 N1 D1) as [Hne _]. unfold then_ends.
    destruct (cendsM v q Ms1) as [|x0 r0] eqn:E1; [congruence|]. rewrite <- E1. clear x0 r0 E1 Hne.
    intros x. rewrite in_flat_map, in_cendsM. split.
    + intros (X & HX & Hn & Hp). apply in_mprod in HX as (M & M2 & HM & HM2 & ->).
      rewrite posq_app in Hp. destruct (posq v q M) as [e1|] eqn:Ep1; [|discriminate].
      exists e1. split; [apply in_cendsM; exists M; auto|].
      destruct S2 as [A2|L2].
      * rewrite (cendsM_allnil v e1 Ms2 A2). rewrite (A2 M2 HM2) in Hp. cbn in Hp. inversion Hp. left. reflexivity.
      * assert (He1 : In e1 (endsM v q Ms1)) by (apply in_endsM; eauto).
        destruct (cendsM_nonil v e1 Ms2 L2 N2 (D2 e1 He1)) as [Hne2 _].
        assert (Hx : In x (cendsM v e1 Ms2)) by (apply in_cendsM; exists M2; auto).
        destruct (cendsM v e1 Ms2); [contradiction|exact Hx].
    + intros (e1 & He1 & Hx). apply in_cendsM in He1 as (M & HM & Hn & Hp).
      assert (He1 : In e1 (endsM v q Ms1)) by (apply in_endsM; eauto).
      destruct S2 as [A2|L2].
      * rewrite (cendsM_allnil v e1 Ms2 A2) in Hx. destruct Hx as [<-|[]].
        destruct Ms2 as [|M2 r2]; [congruence|]. exists (M ++ M2). split; [apply in_mprod; exists M, M2; cbn; auto|].
        rewrite (A2 M2 (or_introl eq_refl)), app_nil_r. auto.
      * destruct (cendsM_nonil v e1 Ms2 L2 N2 (D2 e1 He1)) as [Hne2 _].
        assert (Hx' : In x (cendsM v e1 Ms2)) by (destruct (cendsM v e1 Ms2) as [|y r]; [congruence|exact Hx]).
        apply in_cendsM in Hx' as (M2 & HM2 & Hn2 & Hp2). exists (M ++ M2). split; [apply in_mprod; eauto|].
        split; [destruct M; [congruence|discriminate]|]. rewrite posq_app, Hp. exact Hp2.
Qed.
Lemma endsM_mprod v q Ms1 Ms2 : seteq (endsM v q (mprod Ms1 Ms2)) (flat_map (fun e => endsM v e Ms2) (endsM v q Ms1)).
Proof.
  intros x. rewrite in_flat_map, in_endsM. split.
  - intros (X & HX & Hp). apply in_mprod in HX as (M & M2 & HM & HM2 & ->). rewrite posq_app in Hp.
    destruct (posq v q M) as [e1|] eqn:E1; [|discriminate]. exists e1. split; apply in_endsM; eauto.
  - intros (e1 & H1 & H2). apply in_endsM in H1 as (M & HM & Hp). apply in_endsM in H2 as (M2 & HM2 & Hp2).
    exists (M ++ M2). split; [apply in_mprod; eauto|]. rewrite posq_app, Hp. exact Hp2.
Qed.

(* ------------------------------------------------------------------ run of a THEN, spelled out *)
Definition getE (o : option (list N)) : list N := match o with Some x => x | None => [] end.
Lemma then_fold rb l :
  fold_right (fun q acc => match rb q, acc with
                           | Some [], Some r => Some (q :: r)
                           | Some ys, Some r => Some (ys ++ r)
                           | _, _ => None
                           end) (Some []) l =
  if forallb (fun e => is_some (rb e)) l then Some (flat_map (fun e => ends_or e (getE (rb e))) l) else None.
Proof.
  induction l as [|x l IH]; [reflexivity|]. cbn [fold_right forallb flat_map]. rewrite IH.
  destruct (rb x) as [[|y ys]|]; cbn [is_some andb getE ends_or]; destruct (forallb _ l); reflexivity.
Qed.
Lemma then_run_spec E1 rb p :
  then_run (Some E1) rb p =
  if forallb (fun e => is_some (rb e)) (ends_or p E1) then Some (then_ends p E1 (fun e => getE (rb e))) else None.
Proof.
  unfold then_run, then_ends. destruct E1 as [|q0 r].
  - cbn [ends_or forallb]. destruct (rb p); reflexivity.
  - rewrite then_fold. reflexivity.
Qed.
Lemma then_run_some ra rb p E : then_run ra rb p = Some E ->
  exists E1, ra = Some E1 /\ (forall e, In e (ends_or p E1) -> rb e <> None) /\ E = then_ends p E1 (fun e => getE (rb e)).
Proof.
  destruct ra as [E1|]; [|discriminate]. rewrite then_run_spec.
  destruct (forallb _ _) eqn:Ef; [|discriminate]. intros H. inversion H. exists E1. split; [reflexivity|]. split; [|reflexivity].
  rewrite forallb_forall in Ef. intros e He. specialize (Ef e He). destruct (rb e); [discriminate|discriminate].
Qed.
Lemma then_run_intro E1 rb p : (forall e, In e (ends_or p E1) -> rb e <> None) ->
  then_run (Some E1) rb p = Some (then_ends p E1 (fun e => getE (rb e))).
Proof.
  intros H. rewrite then_run_spec.
  replace (forallb (fun e => is_some (rb e)) (ends_or p E1)) with true; [reflexivity|].
  symmetry. apply forallb_forall. intros e He. specialize (H e He). destruct (rb e); [reflexivity|congruence].
Qed.
Lemma then_run_none_iff ra rb p : then_run ra rb p <> None <->
  exists E1, ra = Some E1 /\ forall e, In e (ends_or p E1) -> rb e <> None.
Proof.
  split.
  - intros H. destruct (then_run ra rb p) as [E|] eqn:Er; [|congruence]. destruct (then_run_some _ _ _ _ Er) as (E1 & H1 & H2 & _). eauto.
  - intros (E1 & -> & H). rewrite (then_run_intro E1 rb p H). discriminate.
Qed.

(* ------------------------------------------------------------------ conjuncts and readings, position by position *)
(* several start positions at once are only needed (and only possible) when NOT is over OR groups of filters (rule 3) *)
Definition uq (e : expr) (Q : list N) : Prop := (length Q <= 1)%nat \/ nots_or_only e = true.

Definition sim_m (a : expr) (cs : cset) : Prop :=
  (forall c, In c cs -> exists i Ms, (i < readings a)%nat /\ mal c Ms /\
      forall v, val_ok v -> forall q, eval_conj (at_pos v q) c = true ->
        exists E, run v a i q = Some E /\ seteq E (cendsM v q Ms)) /\
  (forall i, (i < readings a)%nat -> forall v, val_ok v -> forall Q, uq a Q -> (forall q, In q Q -> run v a i q <> None) ->
      exists c Ms, In c cs /\ mal c Ms /\
        forall q, In q Q -> eval_conj (at_pos v q) c = true /\ forall E, run v a i q = Some E -> seteq E (cendsM v q Ms)).

Lemma nodata_sel c : (forall d, ~ In (CData d) c) -> sel_data c = [].
Proof.
  intros H. destruct (sel_data c) as [|d r] eqn:E; [reflexivity|]. exfalso. apply (H d). apply sel_data_in. rewrite E. left. reflexivity.
Qed.
Lemma nodata_indep v q c : sel_data c = [] -> eval_conj (at_pos v q) c = eval_conj v c.
Proof. intros H. rewrite (eval_conj_split (at_pos v q) c), (eval_conj_split v c), H, nodata_at. reflexivity. Qed.
Lemma nodata_indep2 v q q' c : sel_data c = [] -> eval_conj (at_pos v q) c = eval_conj (at_pos v q') c.
Proof. intros H. rewrite (nodata_indep v q c H), (nodata_indep v q' c H). reflexivity. Qed.

Lemma atom_nd_facts a : (forall s els, a <> AData s els) ->
  readings (EAtom a) = 1%nat /\ (forall v i q, run v (EAtom a) i q = if atom_truth v a then Some [] else None) /\
  (forall v p, atom_holds v a p = atom_truth v a).
Proof. intros H. destruct a; try (split; [reflexivity|split; reflexivity]). exfalso. eapply H. reflexivity. Qed.

Lemma sim_atom a : atom_wf a -> sim_m (EAtom a) (conds_of_atom a).
Proof.
  intros Hw.
  assert (Hcase : (exists s els, a = AData s els) \/ forall s els, a <> AData s els) by (destruct a; try (right; discriminate); left; eauto).
  destruct Hcase as [(s & els & ->)|Hnd].
  - unfold sim_m. cbn [conds_of_atom readings]. split.
    + intros c Hc. apply in_map_iff in Hc as (e & <- & He). apply In_nth_error in He as (i & Hi).
      exists i, [[e]]. split; [apply nth_error_Some; congruence|]. split.
      * right. cbn. constructor.
        -- intros d [<-|[]]. exists [e]. split; [left; reflexivity|]. cbn. rewrite N.eqb_refl. reflexivity.
        -- intros M [<-|[]]. exists (mkData [e] false). split; [left; reflexivity|reflexivity].
        -- intros d [<-|[]] _. left. reflexivity.
        -- intros d [<-|[]]. discriminate.
        -- intros M M' [<-|[]] [<-|[]] _. reflexivity.
        -- discriminate.
      * intros v ok q He'. cbn [run]. rewrite Hi. unfold eval_conj, eval_data in He'. cbn in He'.
        unfold cendsM, posq. cbn. destruct (v_nxt v e q) as [q'|]; [|discriminate]. exists [q']. split; [reflexivity|apply seteq_refl].
    + intros i Hi v ok Q _ HQ. destruct (nth_error els i) as [e|] eqn:En; [|apply nth_error_None in En; lia].
      exists [CData (mkData [e] false)], [[e]]. split; [apply in_map_iff; exists e; split; [reflexivity|eapply nth_error_In; eauto]|]. split.
      * right. cbn. constructor.
        -- intros d [<-|[]]. exists [e]. split; [left; reflexivity|]. cbn. rewrite N.eqb_refl. reflexivity.
        -- intros M [<-|[]]. exists (mkData [e] false). split; [left; reflexivity|reflexivity].
        -- intros d [<-|[]] _. left. reflexivity.
        -- intros d [<-|[]]. discriminate.
        -- intros M M' [<-|[]] [<-|[]] _. reflexivity.
        -- discriminate.
      * intros q Hq. specialize (HQ q Hq). cbn [run] in HQ |- *. rewrite En in HQ |- *.
        unfold eval_conj, eval_data, cendsM, posq. cbn. destruct (v_nxt v e q) as [q'|]; [|congruence].
        split; [reflexivity|]. intros E HE. inversion HE. apply seteq_refl.
  - destruct (atom_nd_facts a Hnd) as (Hr & Hrun & Hh).
    assert (Hsel : forall c, In c (conds_of_atom a) -> sel_data c = []) by (intros c Hc; apply nodata_sel; apply (atom_nodata a Hnd c Hc)).
    split.
    + intros c Hc. exists 0%nat, [[]]. split; [rewrite Hr; lia|]. split; [left; auto|].
      intros v ok q He. exists []. split; [|cbn; apply seteq_refl]. rewrite Hrun.
      destruct (conds_of_atom_sound (at_pos v q) (val_ok_at v q ok) a Hw) as (Es & _).
      rewrite Hh, atom_truth_at in Es. rewrite <- Es. unfold eval_set.
      replace (existsb (eval_conj (at_pos v q)) (conds_of_atom a)) with true; [reflexivity|].
      symmetry. apply existsb_exists. eauto.
    + intros i Hi v ok Q _ HQ. destruct (conds_of_atom_sound v ok a Hw) as (_ & _ & Nn).
      destruct Q as [|q0 Qr].
      * destruct (conds_of_atom a) as [|c0 r] eqn:Ec; [congruence|]. exists c0, [[]]. split; [left; reflexivity|]. split; [left; split; [apply Hsel; left; reflexivity|reflexivity]|].
        intros q [].
      * pose proof (HQ q0 (or_introl eq_refl)) as H0. rewrite Hrun in H0.
        destruct (conds_of_atom_sound (at_pos v q0) (val_ok_at v q0 ok) a Hw) as (Es & _).
        rewrite Hh, atom_truth_at in Es. destruct (atom_truth v a) eqn:Et; [|congruence].
        apply existsb_exists in Es as (c & Hc & He). exists c, [[]]. split; [exact Hc|]. split; [left; auto|].
        intros q Hq. split; [rewrite (nodata_indep2 v q q0 c (Hsel c Hc)); exact He|].
        intros E HE. rewrite Hrun, Et in HE. inversion HE. cbn. apply seteq_refl.
Qed.

Lemma mal_unique c Ms Ms' : mal c Ms -> mal c Ms' -> seteq Ms Ms'.
Proof.
  assert (Hhalf : forall A B, ms_inv (sel_data c) A -> ms_inv (sel_data c) B -> forall M, In M A -> In M B).
  { intros A B IA IB M HM. destruct (mi_full _ _ IA M HM) as (d & Hd & Hm).
    destruct (mi_prefix _ _ IB d Hd) as (M' & HM' & Hp). destruct (mi_full _ _ IB M' HM') as (d' & Hd' & Hm').
    destruct (mi_prefix _ _ IA d' Hd') as (M'' & HM'' & Hp'). rewrite Hm in Hp. rewrite Hm' in Hp'.
    pose proof (mi_anti _ _ IA M M'' HM HM'' (is_prefix_trans _ _ _ Hp Hp')) as E. subst M''.
    rewrite (is_prefix_antisym _ _ Hp Hp'). exact HM'. }
  intros [[E ->]|I] [[E' ->]|I'].
  - apply seteq_refl.
  - exfalso. apply (mi_some _ _ I'). exact E.
  - exfalso. apply (mi_some _ _ I). exact E'.
  - intros M. split; apply Hhalf; assumption.
Qed.
Lemma cendsM_seteq v q Ms Ms' : seteq Ms Ms' -> seteq (cendsM v q Ms) (cendsM v q Ms').
Proof.
  intros H x. rewrite !in_cendsM. split; intros (M & HM & R); exists M; (split; [apply H; exact HM|exact R]).
Qed.

(* flat conjuncts: every payload filter on its own *)
Definition Msflat (c : conj) : list (list N) := match pos_els c with [] => [[]] | l => map (fun x => [x]) l end.
Definition fends (v : valuation) (q : N) (c : conj) : list N :=
  flat_map (fun x => match v_nxt v x q with Some e => [e] | None => [] end) (pos_els c).
Lemma cendsM_flat v q c : cendsM v q (Msflat c) = fends v q c.
Proof.
  unfold Msflat, fends. destruct (pos_els c) as [|x0 r]; [reflexivity|]. generalize (x0 :: r). intros l.
  unfold cendsM. induction l as [|x l IH]; [reflexivity|]. cbn [map flat_map]. rewrite IH. f_equal.
  unfold posq. cbn. destruct (v_nxt v x q); reflexivity.
Qed.
Lemma Msflat_cases c : (pos_els c = [] /\ Msflat c = [[]]) \/ ((exists x, In x (pos_els c)) /\ Msflat c = map (fun x => [x]) (pos_els c)).
Proof. unfold Msflat. destruct (pos_els c) as [|x r]; [left; auto|right]. split; [exists x; left; reflexivity|reflexivity]. Qed.
Lemma flat_mal c : data_flat c -> mal c (Msflat c).
Proof.
  intros Hf. assert (Hpi := fun x => pos_els_in c x Hf).
  assert (Hsingle : forall d, In d (sel_data c) -> single d) by (intros d Hd; apply Hf; apply sel_data_in; exact Hd).
  assert (Hposel : forall d e, In d (sel_data c) -> d_el d = [e] -> d_inv d = false -> In e (pos_els c)).
  { intros d e Hd He Hi. apply (Hpi e). apply sel_data_in in Hd. destruct d as [els inv]. cbn in *. subst. exact Hd. }
  assert (Hcase : sel_data c = [] \/ sel_data c <> []) by (destruct (sel_data c); [left; reflexivity|right; discriminate]).
  destruct Hcase as [Es|Hne].
  - left. split; [exact Es|]. destruct (Msflat_cases c) as [[_ E]|[[x Hx] _]]; [exact E|]. exfalso.
    apply Hpi in Hx. apply sel_data_in in Hx. rewrite Es in Hx. contradiction.
  - right. destruct (Msflat_cases c) as [[Ep ->]|[[x Hx0] ->]].
    + assert (Hinv : forall d, In d (sel_data c) -> d_inv d = true).
      { intros d Hd. destruct (d_inv d) eqn:Ei; [reflexivity|]. destruct (Hsingle d Hd) as [e He].
        exfalso. pose proof (Hposel d e Hd He Ei) as H. rewrite Ep in H. contradiction. }
      constructor.
      * intros d Hd. exists []. split; [left; reflexivity|]. unfold matched. rewrite (Hinv d Hd). destruct (Hsingle d Hd) as [e ->]. reflexivity.
      * intros M [<-|[]]. destruct (sel_data c) as [|d0 r] eqn:Es; [congruence|]. exists d0. split; [left; reflexivity|].
        unfold matched. rewrite (Hinv d0 (or_introl eq_refl)). destruct (Hsingle d0 (or_introl eq_refl)) as [e ->]. reflexivity.
      * intros d Hd Hi. rewrite (Hinv d Hd) in Hi. discriminate.
      * intros d Hd. destruct (Hsingle d Hd) as [e ->]. discriminate.
      * intros M M' [<-|[]] [<-|[]] _. reflexivity.
      * exact Hne.
    + constructor.
      * intros d Hd. unfold matched. destruct (Hsingle d Hd) as [e He]. rewrite He. destruct (d_inv d) eqn:Ei.
        -- exists [x]. split; [apply (in_map (fun x => [x])); exact Hx0|reflexivity].
        -- exists [e]. split; [apply (in_map (fun x => [x])); apply (Hposel d e Hd He Ei)|]. cbn. rewrite N.eqb_refl. reflexivity.
      * intros M HM. apply in_map_iff in HM as (e & <- & He). apply Hpi in He. exists (mkData [e] false). split; [apply sel_data_in; exact He|reflexivity].
      * intros d Hd Hi. destruct (Hsingle d Hd) as [e He]. rewrite He. apply (in_map (fun x => [x])). apply (Hposel d e Hd He Hi).
      * intros d Hd. destruct (Hsingle d Hd) as [e ->]. discriminate.
      * intros M M' HM HM' Hp. apply in_map_iff in HM as (e & <- & _). apply in_map_iff in HM' as (e' & <- & _).
        cbn in Hp. rewrite andb_true_r in Hp. apply N.eqb_eq in Hp. subst. reflexivity.
      * exact Hne.
Qed.
Lemma eval_not_impossible v c : eval_conj v c = true -> conj_impossible c = false.
Proof. destruct c as [|[] [|]]; try reflexivity. cbn. discriminate. Qed.
Lemma pos_els_and c1 c2 : data_flat c1 -> data_flat c2 -> conj_impossible (conj_clean (c1 ++ c2)) = false ->
  data_flat (conj_clean (c1 ++ c2)) /\ seteq (pos_els (conj_clean (c1 ++ c2))) (pos_els c1 ++ pos_els c2).
Proof.
  intros F1 F2 Hi.
  assert (F12 : data_flat (c1 ++ c2)) by (unfold data_flat; apply (data_pred_app single); assumption).
  assert (Fc : data_flat (conj_clean (c1 ++ c2))) by (unfold data_flat; apply (data_pred_clean single); exact F12).
  split; [exact Fc|]. intros x. rewrite <- pos_els_app, (pos_els_in _ x Fc), (pos_els_in _ x F12). split.
  - apply conj_clean_data_subset.
  - apply conj_clean_data_keeps; assumption.
Qed.
Lemma fends_seteq v q c c' : seteq (pos_els c) (pos_els c') -> seteq (fends v q c) (fends v q c').
Proof. intros H. unfold fends. apply seteq_flat_map; [exact H|]. intros x _. apply seteq_refl. Qed.
Lemma fends_app v q c1 c2 : fends v q (c1 ++ c2) = fends v q c1 ++ fends v q c2.
Proof. unfold fends. rewrite pos_els_app. apply flat_map_app. Qed.
Lemma mal_flat_ends v q c Ms : data_flat c -> mal c Ms -> seteq (cendsM v q Ms) (fends v q c).
Proof. intros Hf Hm. rewrite <- cendsM_flat. apply cendsM_seteq. apply (mal_unique c); [exact Hm|apply flat_mal; exact Hf]. Qed.

Lemma uq_bin (f : expr -> expr -> expr) a b Q :
  (nots_or_only (f a b) = nots_or_only a && nots_or_only b) -> uq (f a b) Q -> uq a Q /\ uq b Q.
Proof.
  intros E [H|H]; [split; left; exact H|]. rewrite E in H. apply andb_true_iff in H as [H1 H2]. split; right; assumption.
Qed.

Lemma sim_or a b xa xb : sim_m a xa -> sim_m b xb -> sim_m (EOr a b) (cs_or xa xb).
Proof.
  intros [Fa Ba] [Fb Bb]. unfold cs_or. split.
  - intros c Hc. apply in_app_or in Hc as [Hc|Hc].
    + destruct (Fa c Hc) as (i & Ms & Hi & Hm & H). exists i, Ms. cbn [readings]. split; [lia|]. split; [exact Hm|].
      intros v ok q He. cbn [run]. destruct (Nat.ltb_spec i (readings a)); [|lia]. apply H; assumption.
    + destruct (Fb c Hc) as (i & Ms & Hi & Hm & H). exists (readings a + i)%nat, Ms. cbn [readings]. split; [lia|]. split; [exact Hm|].
      intros v ok q He. cbn [run]. destruct (Nat.ltb_spec (readings a + i) (readings a)); [lia|].
      replace (readings a + i - readings a)%nat with i by lia. apply H; assumption.
  - intros i Hi v ok Q Hu HQ. cbn [readings] in Hi. destruct (uq_bin EOr a b Q eq_refl Hu) as [Ua Ub].
    destruct (Nat.ltb_spec i (readings a)) as [Hlt|Hge].
    + assert (HQ' : forall q, In q Q -> run v a i q <> None).
      { intros q Hq. specialize (HQ q Hq). cbn [run] in HQ. destruct (Nat.ltb_spec i (readings a)); [exact HQ|lia]. }
      destruct (Ba i Hlt v ok Q Ua HQ') as (c & Ms & Hc & Hm & H). exists c, Ms. split; [apply in_or_app; left; exact Hc|]. split; [exact Hm|].
      intros q Hq. cbn [run]. destruct (Nat.ltb_spec i (readings a)); [|lia]. apply H. exact Hq.
    + assert (HQ' : forall q, In q Q -> run v b (i - readings a) q <> None).
      { intros q Hq. specialize (HQ q Hq). cbn [run] in HQ. destruct (Nat.ltb_spec i (readings a)); [lia|exact HQ]. }
      destruct (Bb (i - readings a)%nat ltac:(lia) v ok Q Ub HQ') as (c & Ms & Hc & Hm & H). exists c, Ms. split; [apply in_or_app; right; exact Hc|]. split; [exact Hm|].
      intros q Hq. cbn [run]. destruct (Nat.ltb_spec i (readings a)); [lia|]. apply H. exact Hq.
Qed.

Lemma divmod_pair i1 i2 rb : (i2 < rb)%nat -> ((i1 * rb + i2) / rb = i1 /\ (i1 * rb + i2) mod rb = i2)%nat.
Proof.
  intros H. split.
  - rewrite Nat.div_add_l by lia. rewrite Nat.div_small by lia. lia.
  - rewrite Nat.add_comm, Nat.mod_add by lia. apply Nat.mod_small. exact H.
Qed.
Lemma divmod_bound i ra rb : (i < ra * rb)%nat -> (i / rb < ra /\ i mod rb < rb)%nat.
Proof.
  intros H. assert (rb <> 0)%nat by (intros E; subst; lia). split.
  - apply Nat.div_lt_upper_bound; [exact H0|lia].
  - apply Nat.mod_upper_bound. exact H0.
Qed.

Lemma in_cs_pairs (f : conj -> conj -> conj) xa xb c : xa <> [] -> xb <> [] ->
  (In c (match xa, xb with [], _ => xb | _, [] => xa | _, _ => flat_map (fun c1 => map (fun c2 => f c1 c2) xb) xa end) <->
   exists c1 c2, In c1 xa /\ In c2 xb /\ c = f c1 c2).
Proof.
  intros Na Nb. destruct xa as [|a0 ra]; [congruence|]. destruct xb as [|b0 rb]; [congruence|].
  rewrite in_flat_map. split.
  - intros (c1 & H1 & H). apply in_map_iff in H as (c2 & <- & H2). eauto.
  - intros (c1 & c2 & H1 & H2 & ->). exists c1. split; [exact H1|]. apply in_map_iff. eauto.
Qed.

Lemma sim_and a b xa xb :
  sim_m a xa -> sim_m b xb -> xa <> [] -> xb <> [] -> cset_wf xa -> cset_wf xb ->
  Forall data_flat xa -> Forall data_flat xb ->
  sim_m (EAnd a b) (cs_and xa xb) /\ Forall data_flat (cs_and xa xb).
Proof.
  intros [Fa Ba] [Fb Bb] Na Nb Wa Wb Da Db.
  unfold cset_wf in Wa, Wb. rewrite Forall_forall in Wa, Wb, Da, Db.
  assert (Hin := fun c => in_cs_pairs conj_and xa xb c Na Nb). fold (cs_and xa xb) in Hin.
  assert (Hflat : forall c1 c2, In c1 xa -> In c2 xb -> data_flat (conj_and c1 c2)).
  { intros c1 c2 H1 H2. unfold conj_and, data_flat. apply (data_pred_clean single). apply (data_pred_app single); [apply Da|apply Db]; assumption. }
  assert (Hev : forall v, val_ok v -> forall q c1 c2, In c1 xa -> In c2 xb ->
            eval_conj (at_pos v q) (conj_and c1 c2) = eval_conj (at_pos v q) c1 && eval_conj (at_pos v q) c2).
  { intros v ok q c1 c2 H1 H2. unfold conj_and.
    destruct (conj_clean_sound (at_pos v q) (val_ok_at v q ok) (c1 ++ c2)) as [E _]; [apply Forall_app; split; [apply Wa|apply Wb]; assumption|].
    rewrite E. apply eval_conj_app. }
  assert (Hends : forall v q c1 c2 Ms1 Ms2 E1 E2, In c1 xa -> In c2 xb -> mal c1 Ms1 -> mal c2 Ms2 ->
            eval_conj (at_pos v q) (conj_and c1 c2) = true ->
            seteq E1 (cendsM v q Ms1) -> seteq E2 (cendsM v q Ms2) ->
            seteq (E1 ++ E2) (cendsM v q (Msflat (conj_and c1 c2)))).
  { intros v q c1 c2 Ms1 Ms2 E1 E2 H1 H2 M1 M2 He S1 S2. rewrite cendsM_flat.
    destruct (pos_els_and c1 c2 (Da c1 H1) (Db c2 H2) (eval_not_impossible _ _ He)) as [_ Hp].
    eapply seteq_trans; [|apply seteq_sym; apply (fends_seteq v q _ (c1 ++ c2)); rewrite pos_els_app; exact Hp].
    rewrite fends_app. apply seteq_app.
    - eapply seteq_trans; [exact S1|]. apply mal_flat_ends; [apply Da; exact H1|exact M1].
    - eapply seteq_trans; [exact S2|]. apply mal_flat_ends; [apply Db; exact H2|exact M2]. }
  split; [split|].
  - intros c Hc. apply Hin in Hc as (c1 & c2 & H1 & H2 & ->).
    destruct (Fa c1 H1) as (i1 & Ms1 & Hi1 & Hm1 & R1). destruct (Fb c2 H2) as (i2 & Ms2 & Hi2 & Hm2 & R2).
    exists (i1 * readings b + i2)%nat, (Msflat (conj_and c1 c2)). cbn [readings]. split; [nia|]. split; [apply flat_mal; apply Hflat; assumption|].
    intros v ok q He. pose proof He as He'. rewrite (Hev v ok q c1 c2 H1 H2) in He'. apply andb_true_iff in He' as [He1 He2].
    destruct (R1 v ok q He1) as (E1 & Hr1 & S1). destruct (R2 v ok q He2) as (E2 & Hr2 & S2).
    cbn [run]. destruct (divmod_pair i1 i2 (readings b) Hi2) as [-> ->]. rewrite Hr1, Hr2. exists (E1 ++ E2). split; [reflexivity|].
    apply (Hends v q c1 c2 Ms1 Ms2 E1 E2); assumption.
  - intros i Hi v ok Q Hu HQ. cbn [readings] in Hi. destruct (divmod_bound i _ _ Hi) as [Hi1 Hi2].
    destruct (uq_bin EAnd a b Q eq_refl Hu) as [Ua Ub].
    assert (HQa : forall q, In q Q -> run v a (i / readings b) q <> None).
    { intros q Hq. specialize (HQ q Hq). cbn [run] in HQ. destruct (run v a (i / readings b) q); congruence. }
    assert (HQb : forall q, In q Q -> run v b (i mod readings b) q <> None).
    { intros q Hq. specialize (HQ q Hq). cbn [run] in HQ. destruct (run v a (i / readings b) q); [|congruence]. destruct (run v b (i mod readings b) q); congruence. }
    destruct (Ba _ Hi1 v ok Q Ua HQa) as (c1 & Ms1 & H1 & Hm1 & R1). destruct (Bb _ Hi2 v ok Q Ub HQb) as (c2 & Ms2 & H2 & Hm2 & R2).
    exists (conj_and c1 c2), (Msflat (conj_and c1 c2)). split; [apply Hin; eauto|]. split; [apply flat_mal; apply Hflat; assumption|].
    intros q Hq. destruct (R1 q Hq) as [He1 S1]. destruct (R2 q Hq) as [He2 S2].
    assert (He : eval_conj (at_pos v q) (conj_and c1 c2) = true) by (rewrite (Hev v ok q c1 c2 H1 H2), He1, He2; reflexivity).
    split; [exact He|]. intros E HE. cbn [run] in HE.
    destruct (run v a (i / readings b) q) as [E1|]; [|discriminate]. destruct (run v b (i mod readings b) q) as [E2|]; [|discriminate].
    inversion HE; subst E. apply (Hends v q c1 c2 Ms1 Ms2 E1 E2); auto.
  - apply Forall_forall. intros c Hc. apply Hin in Hc as (c1 & c2 & H1 & H2 & ->). apply Hflat; assumption.
Qed.

Lemma seteq_then_ends' q E1 E1' F F' : seteq E1 E1' -> (forall e, In e (ends_or q E1) -> seteq (F e) (F' e)) ->
  seteq (then_ends q E1 F) (then_ends q E1' F').
Proof.
  intros H HF. destruct E1 as [|x r].
  - rewrite (seteq_nil E1' (seteq_sym _ _ H)). apply HF. left. reflexivity.
  - destruct E1' as [|x' r']; [apply seteq_nil in H; discriminate|]. unfold then_ends.
    apply seteq_flat_map; [exact H|]. intros e He. apply seteq_ends_or. apply HF. exact He.
Qed.

(* the positions the right side of a THEN starts from, seen from the conjunct and from the reading *)
Lemma then_starts v q c1 Ms1 E1 : mal c1 Ms1 -> eval_conj (at_pos v q) c1 = true -> seteq E1 (cendsM v q Ms1) ->
  alldef v q Ms1 /\ seteq (ends_or q E1) (endsM v q Ms1).
Proof.
  intros Hm He S. pose proof (mal_alldef v q c1 Ms1 Hm He) as Hd. split; [exact Hd|].
  destruct (mal_shape c1 Ms1 Hm) as [Hn Hs].
  eapply seteq_trans; [apply seteq_ends_or; exact S|]. apply ends_or_endsM; assumption.
Qed.

Lemma then_eval v q c1 Ms1 c2 E1 : mal c1 Ms1 -> conj_wf c2 -> eval_conj (at_pos v q) c1 = true -> seteq E1 (cendsM v q Ms1) ->
  eval_conj (at_pos v q) (conj_then c1 c2) = forallb (fun e => eval_conj (at_pos v e) c2) (ends_or q E1).
Proof.
  intros Hm W He S. destruct (then_starts v q c1 Ms1 E1 Hm He S) as [Hd Hs].
  rewrite (conj_then_semN (at_pos v q) c1 Ms1 c2 Hm W), He. cbn [andb].
  rewrite (at_all_endsM v q Ms1 (fun w => eval_conj w c2) Hd). symmetry. apply seteq_forallb. exact Hs.
Qed.

Lemma then_ends_ok v q c1 Ms1 c2 Ms2 E1 (F : N -> list N) :
  mal c1 Ms1 -> mal c2 Ms2 -> eval_conj (at_pos v q) c1 = true -> seteq E1 (cendsM v q Ms1) ->
  (forall e, In e (ends_or q E1) -> eval_conj (at_pos v e) c2 = true /\ seteq (F e) (cendsM v e Ms2)) ->
  seteq (then_ends q E1 F) (cendsM v q (mprod Ms1 Ms2)).
Proof.
  intros Hm1 Hm2 He S H2. destruct (then_starts v q c1 Ms1 E1 Hm1 He S) as [Hd Hs].
  destruct (mal_shape c1 Ms1 Hm1) as [N1 S1]. destruct (mal_shape c2 Ms2 Hm2) as [N2 S2].
  eapply seteq_trans; [|apply seteq_sym; apply (cendsM_mprod v q Ms1 Ms2 N1 S1 Hd N2 S2)].
  - apply seteq_then_ends'; [exact S|]. intros e He'. apply H2. exact He'.
  - intros e He'. apply (mal_alldef v e c2 Ms2 Hm2). apply H2. apply Hs. exact He'.
Qed.

Definition ends_le1' (a : expr) : Prop := forall v i p E, run v a i p = Some E -> (length E <= 1)%nat.

Lemma sim_then a b xa xb :
  sim_m a xa -> sim_m b xb -> xa <> [] -> xb <> [] -> cset_wf xb ->
  ends_le1' a \/ nots_or_only b = true ->
  sim_m (EThen a b) (cs_then xa xb).
Proof.
  intros [Fa Ba] [Fb Bb] Na Nb Wb Hrule.
  unfold cset_wf in Wb. rewrite Forall_forall in Wb.
  assert (Hin := fun c => in_cs_pairs conj_then xa xb c Na Nb). fold (cs_then xa xb) in Hin.
  split.
  - intros c Hc. apply Hin in Hc as (c1 & c2 & H1 & H2 & ->).
    destruct (Fa c1 H1) as (i1 & Ms1 & Hi1 & Hm1 & R1). destruct (Fb c2 H2) as (i2 & Ms2 & Hi2 & Hm2 & R2).
    exists (i1 * readings b + i2)%nat, (mprod Ms1 Ms2). cbn [readings]. split; [nia|]. split; [apply mal_then; assumption|].
    intros v ok q He.
    assert (He1 : eval_conj (at_pos v q) c1 = true).
    { rewrite (conj_then_semN (at_pos v q) c1 Ms1 c2 Hm1 (Wb c2 H2)) in He. apply andb_true_iff in He as [He _]. exact He. }
    destruct (R1 v ok q He1) as (E1 & Hr1 & S1).
    rewrite (then_eval v q c1 Ms1 c2 E1 Hm1 (Wb c2 H2) He1 S1) in He. rewrite forallb_forall in He.
    rewrite run_then. destruct (divmod_pair i1 i2 (readings b) Hi2) as [-> ->]. rewrite Hr1.
    assert (H2e : forall e, In e (ends_or q E1) -> eval_conj (at_pos v e) c2 = true /\ seteq (getE (run v b i2 e)) (cendsM v e Ms2)).
    { intros e Hein. split; [apply He; exact Hein|]. destruct (R2 v ok e (He e Hein)) as (E2 & Hr2 & S2). rewrite Hr2. exact S2. }
    rewrite then_run_intro.
    + eexists. split; [reflexivity|]. apply (then_ends_ok v q c1 Ms1 c2 Ms2 E1); assumption.
    + intros e Hein. destruct (R2 v ok e (He e Hein)) as (E2 & Hr2 & _). congruence.
  - intros i Hi v ok Q Hu HQ. cbn [readings] in Hi. destruct (divmod_bound i _ _ Hi) as [Hi1 Hi2].
    destruct (uq_bin EThen a b Q eq_refl Hu) as [Ua Ub].
    set (i1 := (i / readings b)%nat) in *. set (i2 := (i mod readings b)%nat) in *.
    assert (HQ1 : forall q, In q Q -> exists E1, run v a i1 q = Some E1 /\ forall e, In e (ends_or q E1) -> run v b i2 e <> None).
    { intros q Hq. specialize (HQ q Hq). rewrite run_then in HQ. apply then_run_none_iff in HQ. exact HQ. }
    assert (HQa : forall q, In q Q -> run v a i1 q <> None).
    { intros q Hq. destruct (HQ1 q Hq) as (E1 & -> & _). discriminate. }
    destruct (Ba _ Hi1 v ok Q Ua HQa) as (c1 & Ms1 & H1 & Hm1 & R1).
    set (Q2 := flat_map (fun q => ends_or q (getE (run v a i1 q))) Q).
    assert (U2 : uq b Q2).
    { destruct Hrule as [Hle|Hn]; [|right; exact Hn]. destruct Hu as [Hl|Hn].
      - left. unfold Q2. destruct Q as [|q0 [|q1 r]]; [cbn; lia| |cbn in Hl; lia]. cbn [flat_map]. rewrite app_nil_r.
        destruct (run v a i1 q0) as [E1|] eqn:Er; cbn [getE]; [|cbn; lia]. pose proof (Hle _ _ _ _ Er). destruct E1 as [|x [|y r]]; cbn in *; lia.
      - right. cbn [nots_or_only] in Hn. apply andb_true_iff in Hn as [_ Hn]. exact Hn. }
    assert (HQb : forall e, In e Q2 -> run v b i2 e <> None).
    { intros e He. unfold Q2 in He. apply in_flat_map in He as (q & Hq & He). destruct (HQ1 q Hq) as (E1 & Hr & Hall).
      rewrite Hr in He. cbn [getE] in He. apply Hall. exact He. }
    destruct (Bb _ Hi2 v ok Q2 U2 HQb) as (c2 & Ms2 & H2 & Hm2 & R2).
    exists (conj_then c1 c2), (mprod Ms1 Ms2). split; [apply Hin; eauto|]. split; [apply mal_then; assumption|].
    intros q Hq. destruct (R1 q Hq) as [He1 S1]. destruct (HQ1 q Hq) as (E1 & Hr1 & Hall). specialize (S1 E1 Hr1).
    assert (Hsub : forall e, In e (ends_or q E1) -> In e Q2).
    { intros e He. unfold Q2. apply in_flat_map. exists q. split; [exact Hq|]. rewrite Hr1. exact He. }
    assert (H2e : forall e, In e (ends_or q E1) -> eval_conj (at_pos v e) c2 = true /\ seteq (getE (run v b i2 e)) (cendsM v e Ms2)).
    { intros e Hein. destruct (R2 e (Hsub e Hein)) as [He2 S2]. split; [exact He2|].
      destruct (run v b i2 e) as [E2|] eqn:Er2; [|exfalso; apply (Hall e Hein); exact Er2]. apply S2. reflexivity. }
    split.
    + rewrite (then_eval v q c1 Ms1 c2 E1 Hm1 (Wb c2 H2) He1 S1). apply forallb_forall. intros e Hein. apply H2e. exact Hein.
    + intros E HE. rewrite run_then in HE. fold i1 i2 in HE. rewrite Hr1, (then_run_intro E1 (fun e => run v b i2 e) q Hall) in HE. inversion HE; subst E.
      apply (then_ends_ok v q c1 Ms1 c2 Ms2 E1); assumption.
Qed.

(* ------------------------------------------------------------------ NOT: one conjunct for all positions (rule 3) *)
Definition Uni (cs : cset) : Prop := cs <> [] /\ cset_wf cs /\
  forall v, val_ok v -> forall Q, (forall q, In q Q -> eval_set (at_pos v q) cs = true) ->
    exists c, In c cs /\ forall q, In q Q -> eval_conj (at_pos v q) c = true.

Lemma Uni_and a b : Uni a -> Uni b -> Uni (cs_and a b).
Proof.
  intros (Na & Wa & Ua) (Nb & Wb & Ub). destruct (cs_and_sound v0 v0_ok a b Na Nb Wa Wb) as (_ & W & N).
  split; [exact N|]. split; [exact W|]. intros v ok Q HQ.
  assert (H2 : forall q, In q Q -> eval_set (at_pos v q) a = true /\ eval_set (at_pos v q) b = true).
  { intros q Hq. specialize (HQ q Hq). destruct (cs_and_sound (at_pos v q) (val_ok_at v q ok) a b Na Nb Wa Wb) as (E & _).
    rewrite E in HQ. apply andb_true_iff in HQ. exact HQ. }
  destruct (Ua v ok Q (fun q Hq => proj1 (H2 q Hq))) as (c1 & H1 & E1). destruct (Ub v ok Q (fun q Hq => proj2 (H2 q Hq))) as (c2 & H2' & E2).
  exists (conj_and c1 c2). split; [apply (in_cs_pairs conj_and a b _ Na Nb); eauto|].
  intros q Hq. unfold conj_and. unfold cset_wf in Wa, Wb. rewrite Forall_forall in Wa, Wb.
  destruct (conj_clean_sound (at_pos v q) (val_ok_at v q ok) (c1 ++ c2)) as [E _]; [apply Forall_app; split; [apply Wa|apply Wb]; assumption|].
  rewrite E, eval_conj_app, (E1 q Hq), (E2 q Hq). reflexivity.
Qed.
Lemma Uni_single c : conj_wf c -> Uni [c].
Proof.
  intros W. split; [discriminate|]. split; [constructor; [exact W|constructor]|]. intros v ok Q HQ. exists c. split; [left; reflexivity|].
  intros q Hq. specialize (HQ q Hq). cbn in HQ. rewrite orb_false_r in HQ. exact HQ.
Qed.
Lemma Uni_nodata cs : cs <> [] -> cset_wf cs -> (forall c, In c cs -> sel_data c = []) -> Uni cs.
Proof.
  intros N W Hs. split; [exact N|]. split; [exact W|]. intros v ok Q HQ. destruct Q as [|q0 r].
  - destruct cs as [|c0 cr]; [congruence|]. exists c0. split; [left; reflexivity|]. intros q [].
  - pose proof (HQ q0 (or_introl eq_refl)) as H0. apply existsb_exists in H0 as (c & Hc & He). exists c. split; [exact Hc|].
    intros q _. rewrite (nodata_indep2 v q q0 c (Hs c Hc)). exact He.
Qed.

Lemma cond_invert_nodata y : (forall d, y <> CData d) -> forall c, In c (cond_invert y) -> sel_data c = [].
Proof.
  intros H c Hc. apply nodata_sel. intros d Hd.
  destruct y as [t|f|h|n|tm|d0|]; cbn [cond_invert] in Hc; try (destruct Hc as [<-|[]]; destruct Hd as [Hd|[]]; discriminate).
  - destruct Hc as [<-|[]]. unfold flag_invert in Hd. apply in_map_iff in Hd as (u & Hu & _). discriminate.
  - exfalso. apply (H d0). reflexivity.
  - destruct Hc as [<-|[]]. contradiction.
Qed.
Lemma Uni_conj_invert cc : conj_wf cc -> (exists e, cc = [CData (mkData [e] false)]) \/ sel_data cc = [] -> Uni (conj_invert cc).
Proof.
  intros W [[e ->]|Hs].
  - cbn. apply Uni_single. destruct (conj_invert_sound v0 v0_ok _ W) as (_ & W' & _). cbn in W'. inversion W'. assumption.
  - destruct (conj_invert_sound v0 v0_ok cc W) as (_ & W' & N'). apply Uni_nodata; [exact N'|exact W'|].
    intros c Hc. destruct cc as [|x cc']; [destruct Hc as [<-|[]]; reflexivity|]. unfold conj_invert in Hc.
    apply in_flat_map in Hc as (y & Hy & Hc). apply (cond_invert_nodata y); [|exact Hc].
    intros d ->. apply sel_data_in in Hy. rewrite Hs in Hy. contradiction.
Qed.
Lemma Uni_invert csx : csx <> [] -> cset_wf csx ->
  (forall cc, In cc csx -> (exists e, cc = [CData (mkData [e] false)]) \/ sel_data cc = []) -> Uni (cs_invert csx).
Proof.
  intros N W H. destruct csx as [|c0 r]; [congruence|]. unfold cs_invert. cbn [fold_left cs_and].
  inversion W as [|? ? W0 Wr]; subst.
  assert (G : forall l acc, Uni acc -> cset_wf l -> (forall cc, In cc l -> (exists e, cc = [CData (mkData [e] false)]) \/ sel_data cc = []) ->
              Uni (fold_left (fun acc cc => cs_and acc (conj_invert cc)) l acc)).
  { induction l as [|c l IH]; intros acc Ha Wl Hl; cbn [fold_left]; [exact Ha|].
    inversion Wl as [|? ? Wc Wl']; subst. apply IH; [|exact Wl'|intros cc Hcc; apply Hl; right; exact Hcc].
    apply Uni_and; [exact Ha|]. apply Uni_conj_invert; [exact Wc|apply Hl; left; reflexivity]. }
  apply G; [|exact Wr|intros cc Hcc; apply H; right; exact Hcc].
  apply Uni_conj_invert; [exact W0|apply H; left; reflexivity].
Qed.

Lemma or_only_shape x : or_only x = true -> forall csx, norm x = Some csx ->
  forall cc, In cc csx -> (exists e, cc = [CData (mkData [e] false)]) \/ sel_data cc = [].
Proof.
  induction x as [a| |a IH|a IHa b IHb|a IHa b IHb|a IHa b IHb]; cbn [or_only norm]; intros Ho csx En cc Hcc; try discriminate.
  - inversion En; subst csx.
    assert (Hcase : (exists s els, a = AData s els) \/ forall s els, a <> AData s els) by (destruct a; try (right; discriminate); left; eauto).
    destruct Hcase as [(s & els & ->)|Hnd].
    + cbn [conds_of_atom] in Hcc. apply in_map_iff in Hcc as (e & <- & _). left. eauto.
    + right. apply nodata_sel. apply (atom_nodata a Hnd cc Hcc).
  - apply andb_true_iff in Ho as [Ha Hb]. destruct (norm a) as [xa|], (norm b) as [xb|]; inversion En; subst csx.
    + apply in_app_or in Hcc as [H|H]; [eapply IHa|eapply IHb]; eauto.
    + eapply IHa; eauto.
    + eapply IHb; eauto.
Qed.

Lemma negflat_mal c : negflat c -> mal c [[]].
Proof.
  intros H. assert (Hf : data_flat c) by (intros d Hd; apply (H d Hd)).
  pose proof (flat_mal c Hf) as Hm. unfold Msflat in Hm. rewrite (negflat_pos c H) in Hm. exact Hm.
Qed.

Lemma sim_not x : plain x = true -> expr_wf x ->
  exists cs, norm (ENot x) = Some cs /\ cs <> [] /\ cset_wf cs /\ Forall data_flat cs /\ sim_m (ENot x) cs.
Proof.
  intros Hp Hw. destruct (plain_simple x Hp) as (Hs & Hf & Ht & Hst).
  pose proof (norm_sound_then x Ht Hw) as Hn. cbn [norm].
  destruct (norm x) as [csx|] eqn:En; [|rewrite Hst in Hn; discriminate].
  destruct Hn as (N & W & x' & Es & Ee). rewrite Hst in Es. inversion Es; subst x'.
  exists (cs_invert csx). split; [reflexivity|].
  destruct (cs_invert_sound v0 v0_ok csx N W) as (_ & Wi & Ni).
  pose proof (cs_invert_negflat csx (norm_simple_posflat x csx Hs En)) as Hneg. rewrite Forall_forall in Hneg.
  split; [exact Ni|]. split; [exact Wi|]. split; [apply Forall_forall; intros c Hc d Hd; apply (Hneg c Hc d Hd)|].
  assert (Hev : forall v, val_ok v -> forall q, eval_set (at_pos v q) (cs_invert csx) = negb (holds v x q)).
  { intros v ok q. destruct (cs_invert_sound (at_pos v q) (val_ok_at v q ok) csx N W) as (E & _).
    rewrite E, (Ee (at_pos v q) (val_ok_at v q ok)), holds_at. reflexivity. }
  assert (Hrun : forall v i q, run v (ENot x) i q = if holds v x q then None else Some []) by reflexivity.
  split.
  - intros c Hc. exists 0%nat, [[]]. split; [cbn; lia|]. split; [apply negflat_mal; apply Hneg; exact Hc|].
    intros v ok q He. exists []. split; [|cbn; apply seteq_refl]. rewrite Hrun.
    assert (Hs' : eval_set (at_pos v q) (cs_invert csx) = true) by (apply existsb_exists; eauto).
    rewrite (Hev v ok q) in Hs'. destruct (holds v x q); [discriminate|reflexivity].
  - intros i Hi v ok Q Hu HQ.
    assert (HQ' : forall q, In q Q -> eval_set (at_pos v q) (cs_invert csx) = true).
    { intros q Hq. specialize (HQ q Hq). rewrite Hrun in HQ. rewrite (Hev v ok q). destruct (holds v x q); [congruence|reflexivity]. }
    assert (Hc : exists c, In c (cs_invert csx) /\ forall q, In q Q -> eval_conj (at_pos v q) c = true).
    { destruct Hu as [Hl|Ho].
      - destruct Q as [|q0 [|q1 r]]; [| |cbn in Hl; lia].
        + destruct (cs_invert csx) as [|c0 cr]; [congruence|]. exists c0. split; [left; reflexivity|]. intros q [].
        + pose proof (HQ' q0 (or_introl eq_refl)) as H0. apply existsb_exists in H0 as (c & Hc & He). exists c. split; [exact Hc|].
          intros q [<-|[]]. exact He.
      - cbn [nots_or_only] in Ho. destruct (Uni_invert csx N W (or_only_shape x Ho csx En)) as (_ & _ & U). apply (U v ok Q HQ'). }
    destruct Hc as (c & Hc & He). exists c, [[]]. split; [exact Hc|]. split; [apply negflat_mal; apply Hneg; exact Hc|].
    intros q Hq. split; [apply He; exact Hq|]. intros E HE. rewrite Hrun in HE. destruct (holds v x q); [discriminate|]. inversion HE. cbn. apply seteq_refl.
Qed.

(* ------------------------------------------------------------------ every non-last operand of the judged fragment *)
Fixpoint sf (e : expr) : bool :=
  match e with
  | EAtom _ => true
  | ESkip => false
  | ENot a => sf a
  | EAnd a b | EOr a b | EThen a b => sf a && sf b
  end.
Lemma simple_sf_plain e : simple e = true -> sf e = true -> plain e = true.
Proof.
  induction e as [a| |a IH|a IHa b IHb|a IHa b IHb|a IHa b IHb]; cbn [simple sf plain]; intros H1 H2; try discriminate; try reflexivity.
  - apply andb_true_iff in H1 as [? ?]. apply andb_true_iff in H2 as [? ?]. rewrite IHa, IHb; auto.
  - apply andb_true_iff in H1 as [? ?]. apply andb_true_iff in H2 as [? ?]. rewrite IHa, IHb; auto.
Qed.
Lemma flat_nots_plain e : sf e = true -> then_free e = true -> wf_seq false e = true -> nots_plain e = true.
Proof.
  induction e as [a| |a IH|a IHa b IHb|a IHa b IHb|a IHa b IHb]; cbn [sf then_free wf_seq nots_plain]; intros H1 H2 H3; try discriminate; try reflexivity.
  - apply andb_true_iff in H3 as [_ H3]. cbn [orb] in H3. apply simple_sf_plain; assumption.
  - apply andb_true_iff in H1 as [? ?]. apply andb_true_iff in H2 as [? ?]. apply andb_true_iff in H3 as [H3 _]. apply andb_true_iff in H3 as [? ?].
    rewrite IHa, IHb; auto.
  - apply andb_true_iff in H1 as [? ?]. apply andb_true_iff in H2 as [? ?]. apply andb_true_iff in H3 as [? ?].
    rewrite IHa, IHb; auto.
Qed.

Lemma single_end a : sf a = true -> wf_seq false a = true -> multi_end a = false -> ends_le1 a.
Proof.
  induction a as [x| |x IH|x IHx y IHy|x IHx y IHy|x IHx y IHy]; cbn [sf wf_seq multi_end]; intros H1 H2 H3.
  - intros v i p E Hr. destruct x as [| | | | |sub els]; cbn [run] in Hr;
      try (destruct (atom_truth v _); inversion Hr; cbn; lia).
    destruct (nth_error els i); [|discriminate]. destruct (v_nxt v n p); inversion Hr. cbn. lia.
  - discriminate.
  - intros v i p E Hr. cbn [run] in Hr. destruct (existsb _ _); inversion Hr. cbn. lia.
  - apply andb_true_iff in H1 as [Sx Sy]. apply andb_true_iff in H2 as [H2 Htf]. apply andb_true_iff in H2 as [Wx Wy].
    cbn [orb] in Htf. apply andb_true_iff in Htf as [Tx Ty]. apply Nat.leb_gt in H3.
    intros v i p E Hr. cbn [run] in Hr.
    destruct (run v x _ p) as [E1|] eqn:Ea; [|discriminate]. destruct (run v y _ p) as [E2|] eqn:Eb; [|discriminate].
    inversion Hr; subst. rewrite app_length.
    pose proof (run_ends v x (flat_nots_plain x Sx Tx Wx) _ _ _ Ea). pose proof (run_ends v y (flat_nots_plain y Sy Ty Wy) _ _ _ Eb). lia.
  - apply andb_true_iff in H1 as [Sx Sy]. apply andb_true_iff in H2 as [Wx Wy]. apply orb_false_iff in H3 as [Mx My].
    apply or_ends; auto.
  - apply andb_true_iff in H1 as [Sx Sy]. apply andb_true_iff in H2 as [H2 _]. apply andb_true_iff in H2 as [Wx Wy]. apply orb_false_iff in H3 as [Mx My].
    apply QueryChain.then_ends; auto.
Qed.

Theorem multi_sound a : sf a = true -> wf_seq false a = true -> expr_wf a ->
  exists cs, norm a = Some cs /\ cs <> [] /\ cset_wf cs /\ (then_free a = true -> Forall data_flat cs) /\ sim_m a cs.
Proof.
  induction a as [x| |x IH|x IHx y IHy|x IHx y IHy|x IHx y IHy]; cbn [sf wf_seq expr_wf norm]; intros Hs Hwf Hw.
  - destruct (conds_of_atom_sound v0 v0_ok x Hw) as (_ & W & N). exists (conds_of_atom x). split; [reflexivity|]. split; [exact N|]. split; [exact W|].
    split; [|apply sim_atom; exact Hw]. intros _. pose proof (conds_of_atom_posflat x) as Hp. rewrite Forall_forall in Hp |- *.
    intros c Hc d Hd. apply (Hp c Hc d Hd).
  - discriminate.
  - apply andb_true_iff in Hwf as [_ Hsim]. cbn [orb] in Hsim.
    destruct (sim_not x (simple_sf_plain x Hsim Hs) Hw) as (cs & En & N & W & F & S). cbn [norm] in En. exists cs. auto.
  - apply andb_true_iff in Hs as [Sx Sy]. apply andb_true_iff in Hwf as [Hwf Htf]. apply andb_true_iff in Hwf as [Wx Wy].
    cbn [orb] in Htf. apply andb_true_iff in Htf as [Tx Ty]. destruct Hw as [Hwx Hwy].
    destruct (IHx Sx Wx Hwx) as (xa & Ea & Na & Wa & Fa & Sa). destruct (IHy Sy Wy Hwy) as (xb & Eb & Nb & Wb & Fb & Sb).
    rewrite Ea, Eb. exists (cs_and xa xb). split; [reflexivity|].
    destruct (cs_and_sound v0 v0_ok xa xb Na Nb Wa Wb) as (_ & W & N).
    destruct (sim_and x y xa xb Sa Sb Na Nb Wa Wb (Fa Tx) (Fb Ty)) as [S F]. auto.
  - apply andb_true_iff in Hs as [Sx Sy]. apply andb_true_iff in Hwf as [Wx Wy]. destruct Hw as [Hwx Hwy].
    destruct (IHx Sx Wx Hwx) as (xa & Ea & Na & Wa & Fa & Sa). destruct (IHy Sy Wy Hwy) as (xb & Eb & Nb & Wb & Fb & Sb).
    rewrite Ea, Eb. exists (cs_or xa xb). split; [reflexivity|]. split; [unfold cs_or; destruct xa; [congruence|discriminate]|].
    split; [apply cset_wf_app; assumption|]. split; [|apply sim_or; assumption].
    cbn [then_free]. intros H. apply andb_true_iff in H as [Tx Ty]. apply Forall_app. split; auto.
  - apply andb_true_iff in Hs as [Sx Sy]. apply andb_true_iff in Hwf as [Hwf Hrule]. apply andb_true_iff in Hwf as [Wx Wy]. destruct Hw as [Hwx Hwy].
    destruct (IHx Sx Wx Hwx) as (xa & Ea & Na & Wa & Fa & Sa). destruct (IHy Sy Wy Hwy) as (xb & Eb & Nb & Wb & Fb & Sb).
    rewrite Ea, Eb. exists (cs_then xa xb). split; [reflexivity|].
    split; [unfold cs_then; destruct xa; [congruence|]; destruct xb; [congruence|discriminate]|].
    split.
    + assert (Hin := fun c => in_cs_pairs conj_then xa xb c Na Nb). fold (cs_then xa xb) in Hin.
      unfold cset_wf in *. rewrite Forall_forall in *. intros c Hc. apply Hin in Hc as (c1 & c2 & H1 & H2 & ->). apply conj_then_wf; auto.
    + split; [cbn [then_free]; discriminate|]. apply sim_then; try assumption.
      apply orb_true_iff in Hrule as [Hm|Hn]; [left|right; exact Hn]. apply negb_true_iff in Hm. apply (single_end x Sx Wx Hm).
Qed.

(* ------------------------------------------------------------------ the last operand: only truth matters *)
Definition sim_t (e : expr) (cs : cset) : Prop :=
  (forall c, In c cs -> exists j, (j < readings e)%nat /\
      forall v, val_ok v -> forall q, eval_conj (at_pos v q) c = true -> run v e j q <> None) /\
  (forall j, (j < readings e)%nat -> forall v, val_ok v -> forall Q, uq e Q -> (forall q, In q Q -> run v e j q <> None) ->
      exists c, In c cs /\ forall q, In q Q -> eval_conj (at_pos v q) c = true).

Lemma sim_m_t a cs : sim_m a cs -> sim_t a cs.
Proof.
  intros [F B]. split.
  - intros c Hc. destruct (F c Hc) as (i & Ms & Hi & _ & R). exists i. split; [exact Hi|].
    intros v ok q He. destruct (R v ok q He) as (E & -> & _). discriminate.
  - intros j Hj v ok Q Hu HQ. destruct (B j Hj v ok Q Hu HQ) as (c & Ms & Hc & _ & R). exists c. split; [exact Hc|].
    intros q Hq. apply R. exact Hq.
Qed.

Lemma sim_t_sound e cs : sim_t e cs -> forall v, val_ok v -> forall q, eval_set (at_pos v q) cs = holds v e q.
Proof.
  intros [F B] v ok q. apply bool_eq_iff. unfold eval_set, holds. rewrite !existsb_exists. split.
  - intros (c & Hc & He). destruct (F c Hc) as (j & Hj & R). exists j. split; [apply in_seq; lia|].
    specialize (R v ok q He). destruct (run v e j q); [reflexivity|congruence].
  - intros (j & Hj & Hr). apply in_seq in Hj.
    destruct (B j ltac:(lia) v ok [q] (or_introl (le_n 1))) as (c & Hc & He).
    + intros q' [<-|[]] E. rewrite E in Hr. discriminate.
    + exists c. split; [exact Hc|]. apply He. left. reflexivity.
Qed.

Lemma sim_t_or a b xa xb : sim_t a xa -> sim_t b xb -> sim_t (EOr a b) (cs_or xa xb).
Proof.
  intros [Fa Ba] [Fb Bb]. unfold cs_or. split.
  - intros c Hc. apply in_app_or in Hc as [Hc|Hc].
    + destruct (Fa c Hc) as (i & Hi & H). exists i. cbn [readings]. split; [lia|].
      intros v ok q He. cbn [run]. destruct (Nat.ltb_spec i (readings a)); [|lia]. apply H; assumption.
    + destruct (Fb c Hc) as (i & Hi & H). exists (readings a + i)%nat. cbn [readings]. split; [lia|].
      intros v ok q He. cbn [run]. destruct (Nat.ltb_spec (readings a + i) (readings a)); [lia|].
      replace (readings a + i - readings a)%nat with i by lia. apply H; assumption.
  - intros i Hi v ok Q Hu HQ. cbn [readings] in Hi. destruct (uq_bin EOr a b Q eq_refl Hu) as [Ua Ub].
    destruct (Nat.ltb_spec i (readings a)) as [Hlt|Hge].
    + assert (HQ' : forall q, In q Q -> run v a i q <> None).
      { intros q Hq. specialize (HQ q Hq). cbn [run] in HQ. destruct (Nat.ltb_spec i (readings a)); [exact HQ|lia]. }
      destruct (Ba i Hlt v ok Q Ua HQ') as (c & Hc & H). exists c. split; [apply in_or_app; left; exact Hc|exact H].
    + assert (HQ' : forall q, In q Q -> run v b (i - readings a) q <> None).
      { intros q Hq. specialize (HQ q Hq). cbn [run] in HQ. destruct (Nat.ltb_spec i (readings a)); [lia|exact HQ]. }
      destruct (Bb (i - readings a)%nat ltac:(lia) v ok Q Ub HQ') as (c & Hc & H). exists c. split; [apply in_or_app; right; exact Hc|exact H].
Qed.

Lemma sim_t_and a b xa xb :
  sim_t a xa -> sim_t b xb -> xa <> [] -> xb <> [] -> cset_wf xa -> cset_wf xb -> sim_t (EAnd a b) (cs_and xa xb).
Proof.
  intros [Fa Ba] [Fb Bb] Na Nb Wa Wb.
  unfold cset_wf in Wa, Wb. rewrite Forall_forall in Wa, Wb.
  assert (Hin := fun c => in_cs_pairs conj_and xa xb c Na Nb). fold (cs_and xa xb) in Hin.
  assert (Hev : forall v, val_ok v -> forall q c1 c2, In c1 xa -> In c2 xb ->
            eval_conj (at_pos v q) (conj_and c1 c2) = eval_conj (at_pos v q) c1 && eval_conj (at_pos v q) c2).
  { intros v ok q c1 c2 H1 H2. unfold conj_and.
    destruct (conj_clean_sound (at_pos v q) (val_ok_at v q ok) (c1 ++ c2)) as [E _]; [apply Forall_app; split; [apply Wa|apply Wb]; assumption|].
    rewrite E. apply eval_conj_app. }
  split.
  - intros c Hc. apply Hin in Hc as (c1 & c2 & H1 & H2 & ->).
    destruct (Fa c1 H1) as (i1 & Hi1 & R1). destruct (Fb c2 H2) as (i2 & Hi2 & R2).
    exists (i1 * readings b + i2)%nat. cbn [readings]. split; [nia|].
    intros v ok q He. rewrite (Hev v ok q c1 c2 H1 H2) in He. apply andb_true_iff in He as [He1 He2].
    specialize (R1 v ok q He1). specialize (R2 v ok q He2).
    cbn [run]. destruct (divmod_pair i1 i2 (readings b) Hi2) as [-> ->].
    destruct (run v a i1 q); [|congruence]. destruct (run v b i2 q); [discriminate|congruence].
  - intros i Hi v ok Q Hu HQ. cbn [readings] in Hi. destruct (divmod_bound i _ _ Hi) as [Hi1 Hi2].
    destruct (uq_bin EAnd a b Q eq_refl Hu) as [Ua Ub].
    assert (HQa : forall q, In q Q -> run v a (i / readings b) q <> None).
    { intros q Hq. specialize (HQ q Hq). cbn [run] in HQ. destruct (run v a (i / readings b) q); congruence. }
    assert (HQb : forall q, In q Q -> run v b (i mod readings b) q <> None).
    { intros q Hq. specialize (HQ q Hq). cbn [run] in HQ. destruct (run v a (i / readings b) q); [|congruence]. destruct (run v b (i mod readings b) q); congruence. }
    destruct (Ba _ Hi1 v ok Q Ua HQa) as (c1 & H1 & R1). destruct (Bb _ Hi2 v ok Q Ub HQb) as (c2 & H2 & R2).
    exists (conj_and c1 c2). split; [apply Hin; eauto|].
    intros q Hq. rewrite (Hev v ok q c1 c2 H1 H2), (R1 q Hq), (R2 q Hq). reflexivity.
Qed.

Lemma sim_t_then a b xa xb :
  sim_m a xa -> sim_t b xb -> xa <> [] -> xb <> [] -> cset_wf xb ->
  ends_le1 a \/ nots_or_only b = true ->
  sim_t (EThen a b) (cs_then xa xb).
Proof.
  intros [Fa Ba] [Fb Bb] Na Nb Wb Hrule.
  unfold cset_wf in Wb. rewrite Forall_forall in Wb.
  assert (Hin := fun c => in_cs_pairs conj_then xa xb c Na Nb). fold (cs_then xa xb) in Hin.
  split.
  - intros c Hc. apply Hin in Hc as (c1 & c2 & H1 & H2 & ->).
    destruct (Fa c1 H1) as (i1 & Ms1 & Hi1 & Hm1 & R1). destruct (Fb c2 H2) as (i2 & Hi2 & R2).
    exists (i1 * readings b + i2)%nat. cbn [readings]. split; [nia|].
    intros v ok q He.
    assert (He1 : eval_conj (at_pos v q) c1 = true).
    { rewrite (conj_then_semN (at_pos v q) c1 Ms1 c2 Hm1 (Wb c2 H2)) in He. apply andb_true_iff in He as [He _]. exact He. }
    destruct (R1 v ok q He1) as (E1 & Hr1 & S1).
    rewrite (then_eval v q c1 Ms1 c2 E1 Hm1 (Wb c2 H2) He1 S1) in He. rewrite forallb_forall in He.
    rewrite run_then. destruct (divmod_pair i1 i2 (readings b) Hi2) as [-> ->]. rewrite Hr1.
    apply then_run_none_iff. exists E1. split; [reflexivity|]. intros e Hein. apply (R2 v ok e). apply He. exact Hein.
  - intros i Hi v ok Q Hu HQ. cbn [readings] in Hi. destruct (divmod_bound i _ _ Hi) as [Hi1 Hi2].
    destruct (uq_bin EThen a b Q eq_refl Hu) as [Ua Ub].
    set (i1 := (i / readings b)%nat) in *. set (i2 := (i mod readings b)%nat) in *.
    assert (HQ1 : forall q, In q Q -> exists E1, run v a i1 q = Some E1 /\ forall e, In e (ends_or q E1) -> run v b i2 e <> None).
    { intros q Hq. specialize (HQ q Hq). rewrite run_then in HQ. apply then_run_none_iff in HQ. exact HQ. }
    assert (HQa : forall q, In q Q -> run v a i1 q <> None).
    { intros q Hq. destruct (HQ1 q Hq) as (E1 & -> & _). discriminate. }
    destruct (Ba _ Hi1 v ok Q Ua HQa) as (c1 & Ms1 & H1 & Hm1 & R1).
    set (Q2 := flat_map (fun q => ends_or q (getE (run v a i1 q))) Q).
    assert (U2 : uq b Q2).
    { destruct Hrule as [Hle|Hn]; [|right; exact Hn]. destruct Hu as [Hl|Hn].
      - left. unfold Q2. destruct Q as [|q0 [|q1 r]]; [cbn; lia| |cbn in Hl; lia]. cbn [flat_map]. rewrite app_nil_r.
        destruct (run v a i1 q0) as [E1|] eqn:Er; cbn [getE]; [|cbn; lia]. pose proof (Hle _ _ _ _ Er). destruct E1 as [|x [|y r]]; cbn in *; lia.
      - right. cbn [nots_or_only] in Hn. apply andb_true_iff in Hn as [_ Hn]. exact Hn. }
    assert (HQb : forall e, In e Q2 -> run v b i2 e <> None).
    { intros e He. unfold Q2 in He. apply in_flat_map in He as (q & Hq & He). destruct (HQ1 q Hq) as (E1 & Hr & Hall).
      rewrite Hr in He. cbn [getE] in He. apply Hall. exact He. }
    destruct (Bb _ Hi2 v ok Q2 U2 HQb) as (c2 & H2 & R2).
    exists (conj_then c1 c2). split; [apply Hin; eauto|].
    intros q Hq. destruct (R1 q Hq) as [He1 S1]. destruct (HQ1 q Hq) as (E1 & Hr1 & Hall). specialize (S1 E1 Hr1).
    rewrite (then_eval v q c1 Ms1 c2 E1 Hm1 (Wb c2 H2) He1 S1). apply forallb_forall. intros e Hein. apply R2.
    unfold Q2. apply in_flat_map. exists q. split; [exact Hq|]. rewrite Hr1. exact Hein.
Qed.

Lemma sim_t_not a xa : sim_t a xa -> norm a = Some xa -> xa <> [] -> cset_wf xa -> sim_t (ENot a) (cs_invert xa).
Proof.
  intros S En N W.
  assert (Hev : forall v, val_ok v -> forall q, eval_set (at_pos v q) (cs_invert xa) = negb (holds v a q)).
  { intros v ok q. destruct (cs_invert_sound (at_pos v q) (val_ok_at v q ok) xa N W) as (E & _).
    rewrite E, (sim_t_sound a xa S v ok q). reflexivity. }
  destruct (cs_invert_sound v0 v0_ok xa N W) as (_ & Wi & Ni).
  assert (Hrun : forall v i q, run v (ENot a) i q = if holds v a q then None else Some []) by reflexivity.
  split.
  - intros c Hc. exists 0%nat. split; [cbn; lia|]. intros v ok q He. rewrite Hrun.
    assert (Hs' : eval_set (at_pos v q) (cs_invert xa) = true) by (apply existsb_exists; eauto).
    rewrite (Hev v ok q) in Hs'. destruct (holds v a q); [discriminate|discriminate].
  - intros i Hi v ok Q Hu HQ.
    assert (HQ' : forall q, In q Q -> eval_set (at_pos v q) (cs_invert xa) = true).
    { intros q Hq. specialize (HQ q Hq). rewrite Hrun in HQ. rewrite (Hev v ok q). destruct (holds v a q); [congruence|reflexivity]. }
    destruct Hu as [Hl|Ho].
    + destruct Q as [|q0 [|q1 r]]; [| |cbn in Hl; lia].
      * destruct (cs_invert xa) as [|c0 cr]; [congruence|]. exists c0. split; [left; reflexivity|]. intros q [].
      * pose proof (HQ' q0 (or_introl eq_refl)) as H0. apply existsb_exists in H0 as (c & Hc & He). exists c. split; [exact Hc|].
        intros q [<-|[]]. exact He.
    + cbn [nots_or_only] in Ho. destruct (Uni_invert xa N W (or_only_shape a Ho xa En)) as (_ & _ & U). apply (U v ok Q HQ').
Qed.

Theorem tail_sound e : sf e = true -> wf_seq true e = true -> expr_wf e ->
  exists cs, norm e = Some cs /\ cs <> [] /\ cset_wf cs /\ sim_t e cs.
Proof.
  induction e as [x| |x IH|x IHx y IHy|x IHx y IHy|x IHx y IHy]; cbn [sf wf_seq expr_wf norm]; intros Hs Hwf Hw.
  - destruct (conds_of_atom_sound v0 v0_ok x Hw) as (_ & W & N). exists (conds_of_atom x). split; [reflexivity|]. split; [exact N|]. split; [exact W|].
    apply sim_m_t. apply sim_atom. exact Hw.
  - discriminate.
  - apply andb_true_iff in Hwf as [Hwf _]. destruct (IH Hs Hwf Hw) as (xa & Ea & Na & Wa & Sa). rewrite Ea.
    exists (cs_invert xa). split; [reflexivity|]. destruct (cs_invert_sound v0 v0_ok xa Na Wa) as (_ & Wi & Ni).
    split; [exact Ni|]. split; [exact Wi|]. apply sim_t_not; assumption.
  - apply andb_true_iff in Hs as [Sx Sy]. apply andb_true_iff in Hwf as [Hwf _]. apply andb_true_iff in Hwf as [Wx Wy]. destruct Hw as [Hwx Hwy].
    destruct (IHx Sx Wx Hwx) as (xa & Ea & Na & Wa & Sa). destruct (IHy Sy Wy Hwy) as (xb & Eb & Nb & Wb & Sb).
    rewrite Ea, Eb. exists (cs_and xa xb). split; [reflexivity|].
    destruct (cs_and_sound v0 v0_ok xa xb Na Nb Wa Wb) as (_ & W & N). split; [exact N|]. split; [exact W|]. apply sim_t_and; assumption.
  - apply andb_true_iff in Hs as [Sx Sy]. apply andb_true_iff in Hwf as [Wx Wy]. destruct Hw as [Hwx Hwy].
    destruct (IHx Sx Wx Hwx) as (xa & Ea & Na & Wa & Sa). destruct (IHy Sy Wy Hwy) as (xb & Eb & Nb & Wb & Sb).
    rewrite Ea, Eb. exists (cs_or xa xb). split; [reflexivity|]. split; [unfold cs_or; destruct xa; [congruence|discriminate]|].
    split; [apply cset_wf_app; assumption|]. apply sim_t_or; assumption.
  - apply andb_true_iff in Hs as [Sx Sy]. apply andb_true_iff in Hwf as [Hwf Hrule]. apply andb_true_iff in Hwf as [Wx Wy]. destruct Hw as [Hwx Hwy].
    destruct (multi_sound x Sx Wx Hwx) as (xa & Ea & Na & Wa & _ & Sa). destruct (IHy Sy Wy Hwy) as (xb & Eb & Nb & Wb & Sb).
    rewrite Ea, Eb. exists (cs_then xa xb). split; [reflexivity|].
    split; [unfold cs_then; destruct xa; [congruence|]; destruct xb; [congruence|discriminate]|].
    split.
    + assert (Hin := fun c => in_cs_pairs conj_then xa xb c Na Nb). fold (cs_then xa xb) in Hin.
      unfold cset_wf in *. rewrite Forall_forall in *. intros c Hc. apply Hin in Hc as (c1 & c2 & H1 & H2 & ->). apply conj_then_wf; auto.
    + apply sim_t_then; try assumption.
      apply orb_true_iff in Hrule as [Hm|Hn]; [left|right; exact Hn]. apply negb_true_iff in Hm. apply (single_end x Sx Wx Hm).
Qed.

(* ------------------------------------------------------------------ directives (sort / limit / group) drop out *)
Lemma strip_norm e : norm e = match strip e with Some e' => norm e' | None => None end.
Proof.
  induction e as [x| |x IH|x IHx y IHy|x IHx y IHy|x IHx y IHy]; cbn [norm strip]; try reflexivity.
  - rewrite IH. destruct (strip x); reflexivity.
  - rewrite IHx, IHy. destruct (strip x) as [x'|], (strip y) as [y'|]; cbn [norm]; try reflexivity. destruct (norm x'); reflexivity.
  - rewrite IHx, IHy. destruct (strip x) as [x'|], (strip y) as [y'|]; cbn [norm]; try reflexivity. destruct (norm x'); reflexivity.
  - rewrite IHx, IHy. destruct (strip x) as [x'|], (strip y) as [y'|]; cbn [norm]; try reflexivity. destruct (norm x'); reflexivity.
Qed.

Ltac strip_cases x y IHx IHy H :=
  cbn [strip] in H; destruct (strip x) as [?x'|] eqn:?Ex, (strip y) as [?y'|] eqn:?Ey; inversion H; subst; clear H.

Lemma strip_sf e : forall e', strip e = Some e' -> sf e' = true /\ (expr_wf e -> expr_wf e').
Proof.
  induction e as [x| |x IH|x IHx y IHy|x IHx y IHy|x IHx y IHy]; intros e' H.
  - inversion H; subst. split; [reflexivity|auto].
  - discriminate.
  - cbn [strip] in H. destruct (strip x) as [x'|]; inversion H; subst. destruct (IH x' eq_refl). cbn. auto.
  - strip_cases x y IHx IHy H; cbn [sf expr_wf].
    + destruct (IHx _ eq_refl) as [-> ?], (IHy _ eq_refl) as [-> ?]. split; [reflexivity|]. intros [? ?]. auto.
    + destruct (IHx _ eq_refl) as [-> ?]. split; [reflexivity|]. intros [? ?]. auto.
    + destruct (IHy _ eq_refl) as [-> ?]. split; [reflexivity|]. intros [? ?]. auto.
  - strip_cases x y IHx IHy H; cbn [sf expr_wf].
    + destruct (IHx _ eq_refl) as [-> ?], (IHy _ eq_refl) as [-> ?]. split; [reflexivity|]. intros [? ?]. auto.
    + destruct (IHx _ eq_refl) as [-> ?]. split; [reflexivity|]. intros [? ?]. auto.
    + destruct (IHy _ eq_refl) as [-> ?]. split; [reflexivity|]. intros [? ?]. auto.
  - strip_cases x y IHx IHy H; cbn [sf expr_wf].
    + destruct (IHx _ eq_refl) as [-> ?], (IHy _ eq_refl) as [-> ?]. split; [reflexivity|]. intros [? ?]. auto.
    + destruct (IHx _ eq_refl) as [-> ?]. split; [reflexivity|]. intros [? ?]. auto.
    + destruct (IHy _ eq_refl) as [-> ?]. split; [reflexivity|]. intros [? ?]. auto.
Qed.

Lemma strip_pres e : forall e', strip e = Some e' ->
  (simple e = true -> simple e' = true) /\ (then_free e = true -> then_free e' = true) /\
  (or_only e = true -> or_only e' = true) /\ (nots_or_only e = true -> nots_or_only e' = true) /\
  data_ends e' = data_ends e.
Proof.
  assert (Hnone : forall u, strip u = None -> data_ends u = 0%nat).
  { intros u. induction u as [x| |x IH|x IHx y IHy|x IHx y IHy|x IHx y IHy]; cbn [strip data_ends]; intros H; try discriminate; try reflexivity.
    - destruct (strip x), (strip y); try discriminate. rewrite IHx, IHy; auto.
    - destruct (strip x), (strip y); try discriminate. rewrite IHx, IHy; auto.
    - destruct (strip x), (strip y); try discriminate. rewrite IHx, IHy; auto. }
  induction e as [x| |x IH|x IHx y IHy|x IHx y IHy|x IHx y IHy]; intros e' H.
  - inversion H; subst. auto.
  - discriminate.
  - cbn [strip] in H. destruct (strip x) as [x'|] eqn:Ex; inversion H; subst. destruct (IH x' eq_refl) as (A & B & C & D & E).
    cbn [simple then_free or_only nots_or_only data_ends]. repeat split; auto; discriminate.
  - strip_cases x y IHx IHy H; cbn [simple then_free or_only nots_or_only data_ends].
    + destruct (IHx _ eq_refl) as (A & B & C & D & E), (IHy _ eq_refl) as (A' & B' & C' & D' & E').
      rewrite E, E'. repeat split; try discriminate; intros G; apply andb_true_iff in G as [? ?]; apply andb_true_iff; auto.
    + destruct (IHx _ eq_refl) as (A & B & C & D & E). rewrite E, (Hnone y Ey), Nat.add_0_r.
      repeat split; try discriminate; intros G; apply andb_true_iff in G as [? ?]; auto.
    + destruct (IHy _ eq_refl) as (A & B & C & D & E). rewrite E, (Hnone x Ex).
      repeat split; try discriminate; intros G; apply andb_true_iff in G as [? ?]; auto.
  - strip_cases x y IHx IHy H; cbn [simple then_free or_only nots_or_only data_ends].
    + destruct (IHx _ eq_refl) as (A & B & C & D & E), (IHy _ eq_refl) as (A' & B' & C' & D' & E').
      rewrite E, E'. repeat split; try discriminate; intros G; apply andb_true_iff in G as [? ?]; apply andb_true_iff; auto.
    + destruct (IHx _ eq_refl) as (A & B & C & D & E). rewrite E, (Hnone y Ey), Nat.max_0_r.
      repeat split; try discriminate; intros G; apply andb_true_iff in G as [? ?]; auto.
    + destruct (IHy _ eq_refl) as (A & B & C & D & E). rewrite E, (Hnone x Ex).
      repeat split; try discriminate; intros G; apply andb_true_iff in G as [? ?]; auto.
  - strip_cases x y IHx IHy H; cbn [simple then_free or_only nots_or_only data_ends].
    + destruct (IHx _ eq_refl) as (A & B & C & D & E), (IHy _ eq_refl) as (A' & B' & C' & D' & E').
      rewrite E, E'. repeat split; try discriminate; intros G; apply andb_true_iff in G as [? ?]; apply andb_true_iff; auto.
    + destruct (IHx _ eq_refl) as (A & B & C & D & E). rewrite E, (Hnone y Ey), Nat.add_0_r.
      repeat split; try discriminate; intros G; apply andb_true_iff in G as [? ?]; auto.
    + destruct (IHy _ eq_refl) as (A & B & C & D & E). rewrite E, (Hnone x Ex).
      repeat split; try discriminate; intros G; apply andb_true_iff in G as [? ?]; auto.
Qed.

Lemma multi_end_de e : multi_end e = true -> (2 <= data_ends e)%nat.
Proof.
  induction e as [x| |x IH|x IHx y IHy|x IHx y IHy|x IHx y IHy]; cbn [multi_end data_ends]; intros H; try discriminate.
  - apply Nat.leb_le in H. exact H.
  - apply orb_true_iff in H as [H|H]; [specialize (IHx H)|specialize (IHy H)]; lia.
  - apply orb_true_iff in H as [H|H]; [specialize (IHx H)|specialize (IHy H)]; lia.
Qed.
Lemma strip_multi e : forall e', strip e = Some e' -> multi_end e' = true -> multi_end e = true.
Proof.
  induction e as [x| |x IH|x IHx y IHy|x IHx y IHy|x IHx y IHy]; intros e' H Hm.
  - inversion H; subst. exact Hm.
  - discriminate.
  - cbn [strip] in H. destruct (strip x) as [x'|]; inversion H; subst. discriminate.
  - cbn [multi_end]. apply Nat.leb_le. strip_cases x y IHx IHy H.
    + cbn [multi_end] in Hm. apply Nat.leb_le in Hm.
      destruct (strip_pres x _ Ex) as (_ & _ & _ & _ & E1). destruct (strip_pres y _ Ey) as (_ & _ & _ & _ & E2). lia.
    + pose proof (multi_end_de _ Hm). destruct (strip_pres x _ Ex) as (_ & _ & _ & _ & E1). lia.
    + pose proof (multi_end_de _ Hm). destruct (strip_pres y _ Ey) as (_ & _ & _ & _ & E1). lia.
  - cbn [multi_end]. apply orb_true_iff. strip_cases x y IHx IHy H.
    + cbn [multi_end] in Hm. apply orb_true_iff in Hm as [Hm|Hm]; [left; eapply IHx|right; eapply IHy]; eauto.
    + left. eapply IHx; eauto.
    + right. eapply IHy; eauto.
  - cbn [multi_end]. apply orb_true_iff. strip_cases x y IHx IHy H.
    + cbn [multi_end] in Hm. apply orb_true_iff in Hm as [Hm|Hm]; [left; eapply IHx|right; eapply IHy]; eauto.
    + left. eapply IHx; eauto.
    + right. eapply IHy; eauto.
Qed.
Lemma wf_seq_mono e : wf_seq false e = true -> wf_seq true e = true.
Proof.
  induction e as [x| |x IH|x IHx y IHy|x IHx y IHy|x IHx y IHy]; cbn [wf_seq]; intros H; try reflexivity.
  - apply andb_true_iff in H as [H _]. rewrite H. reflexivity.
  - apply andb_true_iff in H as [H _]. apply andb_true_iff in H as [Hx Hy]. rewrite (IHx Hx), (IHy Hy). reflexivity.
  - apply andb_true_iff in H as [Hx Hy]. rewrite (IHx Hx), (IHy Hy). reflexivity.
  - apply andb_true_iff in H as [H Hr]. apply andb_true_iff in H as [Hx Hy]. rewrite Hx, (IHy Hy), Hr. reflexivity.
Qed.
Lemma strip_wf_seq e : forall t e', wf_seq t e = true -> strip e = Some e' -> wf_seq t e' = true.
Proof.
  induction e as [x| |x IH|x IHx y IHy|x IHx y IHy|x IHx y IHy]; intros t e' Hwf H.
  - inversion H; subst. reflexivity.
  - discriminate.
  - cbn [strip] in H. destruct (strip x) as [x'|] eqn:Ex; inversion H; subst. cbn [wf_seq] in *.
    apply andb_true_iff in Hwf as [Hx Hs]. rewrite (IH true x' Hx eq_refl). cbn [andb].
    destruct t; [reflexivity|]. cbn [orb] in *. apply (strip_pres x x' Ex). exact Hs.
  - cbn [wf_seq] in Hwf. apply andb_true_iff in Hwf as [Hwf Hs]. apply andb_true_iff in Hwf as [Hx Hy].
    strip_cases x y IHx IHy H; [|eapply IHx; eauto|eapply IHy; eauto].
    cbn [wf_seq]. rewrite (IHx t _ Hx eq_refl), (IHy t _ Hy eq_refl). cbn [andb].
    destruct t; [reflexivity|]. cbn [orb] in *. apply andb_true_iff in Hs as [Tx Ty].
    rewrite (proj1 (proj2 (strip_pres x _ Ex)) Tx), (proj1 (proj2 (strip_pres y _ Ey)) Ty). reflexivity.
  - cbn [wf_seq] in Hwf. apply andb_true_iff in Hwf as [Hx Hy].
    strip_cases x y IHx IHy H; [|eapply IHx; eauto|eapply IHy; eauto].
    cbn [wf_seq]. rewrite (IHx t _ Hx eq_refl), (IHy t _ Hy eq_refl). reflexivity.
  - cbn [wf_seq] in Hwf. apply andb_true_iff in Hwf as [Hwf Hr]. apply andb_true_iff in Hwf as [Hx Hy].
    strip_cases x y IHx IHy H.
    + cbn [wf_seq]. rewrite (IHx false _ Hx eq_refl), (IHy t _ Hy eq_refl). cbn [andb].
      destruct (multi_end x') eqn:Em; [|reflexivity]. cbn [negb orb].
      rewrite (strip_multi x _ Ex Em) in Hr. cbn [negb orb] in Hr.
      destruct (strip_pres y _ Ey) as (_ & _ & _ & D & _). apply D. exact Hr.
    + pose proof (IHx false _ Hx eq_refl) as G. destruct t; [apply wf_seq_mono; exact G|exact G].
    + eapply IHy; eauto.
Qed.

(* ------------------------------------------------------------------ the headline theorems: the whole judged fragment *)
Theorem normalisation_preserves_meaning_judged v e :
  val_ok v -> ids_ok v -> wf_seq true e = true -> expr_wf e ->
  eval_set v (parse_conditions e) = sem v e.
Proof.
  intros ok iok Hwf Hw. pose proof (strip_norm e) as Hn. unfold sem.
  destruct (strip e) as [e'|] eqn:Es.
  - destruct (strip_sf e e' Es) as [Hs Hw'].
    destruct (tail_sound e' Hs (strip_wf_seq e true e' Hwf Es) (Hw' Hw)) as (cs & En & N & W & S).
    rewrite En in Hn. rewrite (parse_final_sound v e cs ok iok Hn N W).
    rewrite <- (sim_t_sound e' cs S v ok (v_start v)). unfold eval_set. apply existsb_ext_in. intros c _.
    symmetry. apply eval_conj_at_start.
  - unfold parse_conditions. rewrite Hn. reflexivity.
Qed.

Theorem impossible_only_if_unsatisfiable_judged e :
  wf_seq true e = true -> expr_wf e -> parse_conditions e = [] ->
  forall v, val_ok v -> ids_ok v -> sem v e = false.
Proof.
  intros Hf Hw Hp v ok iok. rewrite <- (normalisation_preserves_meaning_judged v e ok iok Hf Hw), Hp. reflexivity.
Qed.

Lemma then_free_judged e : then_free e = true -> wf_seq true e = true.
Proof. intros H. apply tail_ok_judged. apply then_free_tail_ok. exact H. Qed.
