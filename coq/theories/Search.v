(* Model of /repo/internal/index/search.go (C02): SearchStreams / searchStreams without
   grouping, sub-queries, variables and converters.  Definitions only, no proofs.

   What a query *means* is not modelled here (C03 normalisation, C04 payload filters):
   a query is a list of conjuncts ("parts"); per index file the code compiles every part
   into [possible / lookups / filters] (buildSearchObjects) -- here a [qpart], given.
   SearchProofs.v states what a [qpart] must satisfy w.r.t. a predicate [matches].

   Times are absolute (ReferenceTime + ns), hosts are their bytes.  Index files are listed
   oldest first, as in the code.  [variant] switches the two defects of the pinned commit
   on or off, so the same definitions describe the unpatched and the patched code:
     v_fallthrough   searchStreams falls through into the lookup evaluation after the
                     sorted full scan (no `return nil`)                    (C02-fallthrough)
     v_multikey      the sorted scan with early exit is used although there are secondary
                     sort keys                                            (C02-early-exit) *)
From Coq Require Import List NArith ZArith Bool Arith.
Import ListNotations.

(* ------------------------------------------------------------------ *)
(* Streams, index files                                               *)
(* ------------------------------------------------------------------ *)
Record stream := mkStream {
  s_id : N;
  s_ftime : Z; s_ltime : Z;            (* absolute ns *)
  s_cbytes : N; s_sbytes : N;
  s_cport : N; s_sport : N;
  s_chost : list N; s_shost : list N   (* address bytes *)
}.

(* one index file: the stream table in file order and the three sorted sections
   (stream indexes ordered by id / first packet time / last packet time) *)
Record file := mkFile {
  f_streams : list stream;
  f_by_id : list nat;
  f_by_ftime : list nat;
  f_by_ltime : list nat
}.

(* result entry: (index of the file in the stack, stream index in the file, stream) *)
Definition entry := (nat * nat * stream)%type.
Definition e_stream (e : entry) : stream := snd e.
Definition e_pos (e : entry) : nat * nat := fst e.

Definition file_contains (f : file) (id : N) : bool :=
  existsb (fun s => N.eqb (s_id s) id) (f_streams f).

(* r2.containedStreamIds[s.StreamID] for some newer file r2 *)
Definition superseded (newer : list file) (s : stream) : bool :=
  existsb (fun f => file_contains f (s_id s)) newer.

(* ------------------------------------------------------------------ *)
(* Sort keys, comparators (sorterFunctions, sortingLess)              *)
(* ------------------------------------------------------------------ *)
Inductive skey := KId | KFtime | KLtime | KCbytes | KSbytes | KCport | KSport | KChost | KShost.

(* bytes.Compare(a, b) < 0 *)
Fixpoint bytes_lt (a b : list N) : bool :=
  match a, b with
  | [], [] => false
  | [], _ :: _ => true
  | _ :: _, [] => false
  | x :: a', y :: b' => if N.ltb x y then true else if N.ltb y x then false else bytes_lt a' b'
  end.

Definition key_lt (k : skey) (a b : stream) : bool :=
  match k with
  | KId => N.ltb (s_id a) (s_id b)
  | KFtime => Z.ltb (s_ftime a) (s_ftime b)
  | KLtime => Z.ltb (s_ltime a) (s_ltime b)
  | KCbytes => N.ltb (s_cbytes a) (s_cbytes b)
  | KSbytes => N.ltb (s_sbytes a) (s_sbytes b)
  | KCport => N.ltb (s_cport a) (s_cport b)
  | KSport => N.ltb (s_sport a) (s_sport b)
  | KChost => bytes_lt (s_chost a) (s_chost b)
  | KShost => bytes_lt (s_shost a) (s_shost b)
  end.

(* a sort key with its direction: true = descending *)
Definition sorting := (skey * bool)%type.

Definition sorter (kd : sorting) (a b : stream) : bool :=
  if snd kd then key_lt (fst kd) b a else key_lt (fst kd) a b.

Fixpoint sorting_less (ks : list sorting) (a b : stream) : bool :=
  match ks with
  | [] => false
  | kd :: ks' => if sorter kd a b then true else if sorter kd b a then false else sorting_less ks' a b
  end.

(* default search order is -ftime *)
Definition effective_sorting (ks : list sorting) : list sorting :=
  match ks with [] => [(KFtime, true)] | _ => ks end.

Definition entry_less (ks : list sorting) (a b : entry) : bool :=
  sorting_less ks (e_stream a) (e_stream b).

(* ------------------------------------------------------------------ *)
(* The result accumulator (resultData: streams, resultDropped)        *)
(* ------------------------------------------------------------------ *)
Record acc := mkAcc { a_streams : list entry; a_dropped : N }.

Definition acc0 : acc := mkAcc [] 0%N.

(* sort.Search(n, f): smallest i in [0,n] with f i, by bisection.  Fuel n + 1 is always
   enough (the interval shrinks in every round); out of fuel returns the lower bound. *)
Fixpoint bsearch_aux (fuel : nat) (f : nat -> bool) (i j : nat) : nat :=
  match fuel with
  | O => i
  | S fuel' =>
      if Nat.ltb i j then
        let h := Nat.div2 (i + j) in
        if f h then bsearch_aux fuel' f i h else bsearch_aux fuel' f (S h) j
      else i
  end.

Definition bsearch (f : nat -> bool) (n : nat) : nat := bsearch_aux (S n) f 0 n.

Section Accumulator.
  Variable less : entry -> entry -> bool.

  (* "insert the result at the right place": the free slot is the last one, the position
     is found by binary search over the other slots, the tail is shifted up by one *)
  Definition insert_sorted (e : entry) (l : list entry) : list entry :=
    let pos := bsearch (fun i => less e (nth i l e)) (length l) in
    firstn pos l ++ e :: skipn pos l.

  Definition limit_reached (limit : nat) (a : acc) : bool :=
    negb (N.eqb (a_dropped a) 0) && negb (Nat.eqb limit 0) && Nat.leb limit (length (a_streams a)).

  (* the part of filterAndAddToResult after the filters said "matching" *)
  Definition add_matching (limit : nat) (e : entry) (a : acc) : acc * bool :=
    let l := a_streams a in
    if Nat.eqb limit 0 || Nat.ltb (length l) limit then
      (* no limit or the limit is not yet reached *)
      (mkAcc (insert_sorted e l) (a_dropped a), false)
    else if less e (nth (limit - 1) l e) then
      (* better than the last: replace the last slot *)
      (mkAcc (insert_sorted e (removelast l)) (a_dropped a + 1), false)
    else
      (* worse than the last *)
      (mkAcc l (a_dropped a + 1), true).

  (* filterAndAddToResult for one stream; [matching] = some active part's filters pass
     (evaluated lazily in the code, a pure function here).  The flag is `limitReached`. *)
  Definition filter_and_add (limit : nat) (e : entry) (matching : bool) (a : acc) : acc * bool :=
    if limit_reached limit a && negb (less e (nth (limit - 1) (a_streams a) e)) then (a, true)
    else if negb matching then (a, false)
    else add_matching limit e a.
End Accumulator.

(* ------------------------------------------------------------------ *)
(* Compiled query parts, scan strategies (searchStreams)              *)
(* ------------------------------------------------------------------ *)
Record qpart := mkQpart {
  qp_possible : bool;
  qp_lookups : list (list nat);      (* each: stream indexes that may match *)
  qp_filter : nat -> bool            (* conjunction of the part's filters on stream index si *)
}.

Record variant := mkVariant { v_fallthrough : bool; v_multikey : bool }.
Definition v_orig : variant := mkVariant true true.
Definition v_fixed : variant := mkVariant false false.

Definition mem_nat (x : nat) (l : list nat) : bool := existsb (Nat.eqb x) l.

(* intersection of the lookups of one part, exactly as the loop computes it *)
Fixpoint inter_lookups (cur : list nat) (ls : list (list nat)) : list nat :=
  match ls with
  | [] => cur
  | l :: ls' =>
      match l with
      | [] => []                                           (* empty lookup: nil, break *)
      | _ =>
          match cur with
          | [] => inter_lookups l ls'                      (* len(streamIndexesOfQuery) == 0 *)
          | _ =>
              let c := filter (fun x => mem_nat x l) cur in
              match c with [] => [] | _ => inter_lookups c ls' end
          end
      end
  end.

Section FileSearch.
  Variable less : entry -> entry -> bool.
  Variable limit : nat.
  Variable idok : stream -> bool.           (* limitIDs filter, always true without restriction *)
  Variable newer : list file.               (* superseding indexes *)
  Variable fi : nat.
  Variable f : file.
  Variable parts : list qpart.

  Definition nstreams : nat := length (f_streams f).

  (* does stream si pass the filters of some part in [active]?  The caller-id filter and
     the superseding filter are the first filters of every part. *)
  Definition matching_at (active : list bool) (si : nat) (s : stream) : bool :=
    idok s && negb (superseded newer s) &&
    existsb (fun pa => snd pa && qp_filter (fst pa) si) (combine parts active).

  Definition step (active : nat -> list bool) (si : nat) (a : acc) : acc * bool :=
    match nth_error (f_streams f) si with
    | None => (a, false)                     (* index outside the file: not reachable *)
    | Some s => filter_and_add less limit (fi, si, s) (matching_at (active si) si s) a
    end.

  (* loops: without / with `break` on limitReached *)
  Fixpoint scan_all (active : nat -> list bool) (l : list nat) (a : acc) : acc :=
    match l with
    | [] => a
    | si :: l' => scan_all active l' (fst (step active si a))
    end.

  Fixpoint scan_break (active : nat -> list bool) (l : list nat) (a : acc) : acc :=
    match l with
    | [] => a
    | si :: l' => let r := step active si a in if snd r then fst r else scan_break active l' (fst r)
    end.

  Definition active_all : list bool := map qp_possible parts.
  Definition lookup_missing : bool :=
    existsb (fun p => qp_possible p && Nat.eqb (length (qp_lookups p)) 0) parts.

  (* which parts list stream index si in all their lookups *)
  Definition active_of (si : nat) : list bool :=
    map (fun p => qp_possible p && mem_nat si (inter_lookups [] (qp_lookups p))) parts.
  Definition candidate (si : nat) : bool := existsb (fun b => b) (active_of si).

  (* "all query parts have lookups": evaluation of the candidates, in file order or in the
     order of the sorting lookup *)
  Definition lookup_eval (sorting_lookup : option (list nat)) (a : acc) : acc :=
    match sorting_lookup with
    | None => scan_all active_of (filter candidate (seq 0 nstreams)) a
    | Some order => scan_break active_of (filter candidate order) a
    end.

  Definition search_file (v : variant) (sorting_lookup : option (list nat)) (a : acc) : acc :=
    if negb (existsb (fun b => b) active_all) then a
    else
      let sl := if Nat.eqb limit 0 then None else sorting_lookup in
      if lookup_missing then
        match sl with
        | None => scan_all (fun _ => active_all) (seq 0 nstreams) a
        | Some order =>
            let a' := scan_break (fun _ => active_all) order a in
            if v_fallthrough v then lookup_eval sl a' else a'
        end
      else lookup_eval sl a.
End FileSearch.

(* ------------------------------------------------------------------ *)
(* SearchStreams                                                      *)
(* ------------------------------------------------------------------ *)
Definition section_of (f : file) (k : skey) : option (list nat) :=
  match k with
  | KId => Some (f_by_id f)
  | KFtime => Some (f_by_ftime f)
  | KLtime => Some (f_by_ltime f)
  | _ => None
  end.

(* the sortingLookup closure of one file: only with a limit, only for id/ftime/ltime as first
   key; reversed for descending order *)
Definition sorting_lookup_of (v : variant) (ks : list sorting) (result_limit : nat) (f : file) : option (list nat) :=
  if Nat.eqb result_limit 0 then None
  else match ks with
       | [] => None
       | (k, desc) :: rest =>
           if v_multikey v || Nat.eqb (length rest) 0 then
             match section_of f k with
             | Some sec => Some (if desc then rev sec else sec)
             | None => None
             end
           else None
       end.

(* files oldest first (the head has index [fi] in the stack), each with its compiled parts;
   evaluated newest first *)
Fixpoint search_files (v : variant) (ks : list sorting) (result_limit : nat) (idok : stream -> bool)
         (fi : nat) (fs : list (file * list qpart)) (a : acc) : acc :=
  match fs with
  | [] => a
  | (f, parts) :: newer =>
      let a' := search_files v ks result_limit idok (S fi) newer a in
      search_file (entry_less ks) result_limit idok (map fst newer) fi f parts v
                  (sorting_lookup_of v ks result_limit f) a'
  end.

Definition search_algo (v : variant) (fs : list (file * list qpart)) (keys : list sorting)
           (limit skip : nat) (idok : stream -> bool) : list entry * bool :=
  let ks := effective_sorting keys in
  let a := search_files v ks (limit + skip) idok 0 fs acc0 in
  if Nat.leb (length (a_streams a)) skip then ([], false)
  else (skipn skip (a_streams a), negb (N.eqb (a_dropped a) 0)).

(* id restriction as a sorted id list (None = no restriction) *)
Definition idok_of (ids : option (list N)) (s : stream) : bool :=
  match ids with None => true | Some l => existsb (N.eqb (s_id s)) l end.

(* ------------------------------------------------------------------ *)
(* Specification                                                      *)
(* ------------------------------------------------------------------ *)
(* all entries of the stack, newest file first, file order inside a file *)
Fixpoint entries_from (fi : nat) (si : nat) (l : list stream) : list entry :=
  match l with [] => [] | s :: l' => (fi, si, s) :: entries_from fi (S si) l' end.

Fixpoint visible_from (fi : nat) (fs : list file) : list entry :=
  match fs with
  | [] => []
  | f :: newer =>
      visible_from (S fi) newer ++
      filter (fun e => negb (superseded newer (e_stream e))) (entries_from fi 0 (f_streams f))
  end.
Definition visible (fs : list file) : list entry := visible_from 0 fs.

Section Spec.
  Variable less : entry -> entry -> bool.

  (* stable insertion sort *)
  Fixpoint ins (e : entry) (l : list entry) : list entry :=
    match l with
    | [] => [e]
    | x :: l' => if less e x then e :: l else x :: ins e l'
    end.
  Definition sort_entries (l : list entry) : list entry := fold_right ins [] l.
End Spec.

Definition spec_matching (fs : list file) (idok sat : stream -> bool) : list entry :=
  filter (fun e => idok (e_stream e) && sat (e_stream e)) (visible fs).

Definition spec_full (fs : list file) (keys : list sorting) (idok sat : stream -> bool) : list entry :=
  sort_entries (entry_less (effective_sorting keys)) (spec_matching fs idok sat).

Definition spec_page (fs : list file) (keys : list sorting) (limit skip : nat) (idok sat : stream -> bool) : list entry :=
  let rest := skipn skip (spec_full fs keys idok sat) in
  if Nat.eqb limit 0 then rest else firstn limit rest.

Definition spec_more (fs : list file) (limit skip : nat) (idok sat : stream -> bool) : bool :=
  negb (Nat.eqb limit 0) && Nat.ltb (skip + limit) (length (spec_matching fs idok sat)).

(* ------------------------------------------------------------------ *)
(* Tag conditions and definition inlining (conditions.go inlineTagFilter) *)
(* ------------------------------------------------------------------ *)
(* Accept is a set of the four states of a (tag, stream) pair *)
Record accept := mkAccept { acc_m : bool; acc_f : bool; acc_um : bool; acc_uf : bool }.

Section Inline.
  Variable atom : Type.                       (* every condition that is not a tag condition *)
  Variable tagname : Type.

  Inductive cond :=
  | CAtom (x : atom)
  | CTag (t : tagname) (a : accept).

  Definition conj := list cond.               (* Conditions: AND *)
  Definition dnf := list conj.                (* ConditionsSet: OR *)

  Record tagdetails := mkTag {
    td_matches : N -> bool;                   (* Matches.IsSet(id) *)
    td_uncertain : N -> bool;                 (* Uncertain.IsSet(id) *)
    td_any_uncertain : bool;                  (* !Uncertain.IsZero() *)
    td_conditions : dnf
  }.

  Variable tags : tagname -> option tagdetails.
  Variable invert : dnf -> dnf.               (* ConditionsSet.invert, C03 *)

  Definition acc_certain (a : accept) : accept := mkAccept (acc_m a) (acc_f a) false false.
  Definition acc_uncertain : accept := mkAccept false false true true.

  (* csNew = append(csNew, csNew[:origLen]...) for every conjunct of the definition, then the
     tag condition (and, for the copies, the conjunct) appended to every element.
     [aliasing = true] describes the pinned commit, where the copies share their backing
     array with the originals: an append to a copy overwrites what was appended to the
     element it was copied from when that element has spare capacity.  The patched code
     copies, [aliasing = false].  Capacities are not modelled; the flag only selects the
     specification-level behaviour, the defect itself is reproduced on the code. *)
  Definition inline_step (t : tagname) (a : accept) (tcs : dnf) (cs_new : dnf) : dnf :=
    map (fun c => c ++ [CTag t (acc_certain a)]) cs_new ++
    flat_map (fun tc => map (fun c => c ++ CTag t acc_uncertain :: tc) cs_new) tcs.

  (* [rec] inlines a tag definition (td.Conditions.InlineTagFilters(tags), one nesting level
     deeper); None = out of fuel *)
  Section OneLevel.
    Variable rec : dnf -> option dnf.

    Fixpoint inline_conj_with (cs : conj) (cs_new : dnf) : option dnf :=
      match cs with
      | [] => Some cs_new
      | CAtom x :: rest => inline_conj_with rest (map (fun c => c ++ [CAtom x]) cs_new)
      | CTag t a :: rest =>
          let keep := inline_conj_with rest (map (fun c => c ++ [CTag t a]) cs_new) in
          if negb (acc_um a || acc_uf a) || (acc_um a && acc_uf a) then keep
          else match tags t with
               | None => keep
               | Some td =>
                   if negb (td_any_uncertain td) then keep
                   else match rec (td_conditions td) with
                        | None => None
                        | Some tcs =>
                            (* a negated reference inverts the definition; a definition that can never
                               match is stored as the empty set, whose negation is the conjunct without
                               conditions (invert() of the empty set is the empty set again; d05297f) *)
                            let tcs' := if acc_um a then tcs
                                        else match tcs with [] => [[]] | _ => invert tcs end in
                            inline_conj_with rest (inline_step t a tcs' cs_new)
                        end
               end
      end.

    Fixpoint inline_dnf_with (d : dnf) : option dnf :=
      match d with
      | [] => Some []
      | c :: d' =>
          match inline_conj_with c [[]], inline_dnf_with d' with
          | Some x, Some y => Some (x ++ y)
          | _, _ => None
          end
      end.
  End OneLevel.

  (* fuel = nesting depth of tag definitions that may still be inlined *)
  Fixpoint inline_dnf (fuel : nat) : dnf -> option dnf :=
    match fuel with
    | O => inline_dnf_with (fun _ => None)
    | S fuel' => inline_dnf_with (inline_dnf fuel')
    end.
End Inline.
Arguments CAtom {atom tagname} x.
Arguments CTag {atom tagname} t a.
Arguments td_matches {atom tagname} t.
Arguments td_uncertain {atom tagname} t.
Arguments td_any_uncertain {atom tagname} t.
Arguments td_conditions {atom tagname} t.
Arguments inline_step {atom tagname} t a tcs cs_new.
Arguments inline_conj_with {atom tagname} tags invert rec cs cs_new.
Arguments inline_dnf_with {atom tagname} tags invert rec d.
Arguments inline_dnf {atom tagname} tags invert fuel d.

(* ------------------------------------------------------------------ *)
(* Sub-queries                                                        *)
(* ------------------------------------------------------------------ *)
(* A sub-query is searched like the main query but without sort order (sorter = nil: every
   result is appended), without limit and without id restriction; with the empty key list
   [sorting_less] is constantly false and [insert_sorted] appends, so this is the same code. *)
Definition sub_search (v : variant) (fs : list (file * list qpart)) : list entry :=
  a_streams (search_files v [] 0 (fun _ => true) 0 fs acc0).

(* resultData.matchingQueryPart[p]: does the result entry match part p (filters of part p of its file) *)
Definition entry_matches_part (fs : list (file * list qpart)) (e : entry) (p : nat) : bool :=
  match nth_error fs (fst (e_pos e)) with
  | Some (_, parts) =>
      match nth_error parts p with
      | Some qp => qp_possible qp && qp_filter qp (snd (e_pos e))
      | None => false
      end
  | None => false
  end.

(* searchContext.allowedSubQueries: a list of maps sub-query -> allowed positions in that sub-query's
   result list; a combination of sub-query results is allowed iff some map allows every component.
   Sub-queries are numbered; a map is a function (only the sub-queries in play are ever looked at). *)
Definition selmap := nat -> list nat.
Definition subsel := list selmap.

Definition sel_upd (m : selmap) (sq : nat) (v : list nat) : selmap :=
  fun k => if Nat.eqb k sq then v else m k.

(* subQuerySelection.remove for one map: the combinations with component sqs[i] in forbidden[i] for all i
   are taken out; what stays is split into maps again *)
Fixpoint remove_one (sqs : list nat) (forbidden : list (list nat)) (m : selmap) : subsel :=
  match sqs, forbidden with
  | sq :: sqs', f :: forbidden' =>
      let old := m sq in
      let rem := filter (fun x => mem_nat x f) old in
      let keep := filter (fun x => negb (mem_nat x f)) old in
      match rem with
      | [] => [m]                                   (* remove.IsZero(): the map stays as it is *)
      | _ =>
          match keep with
          | [] => remove_one sqs' forbidden' m      (* keep.IsZero(): look at the next sub-query *)
          | _ => sel_upd m sq keep :: remove_one sqs' forbidden' (sel_upd m sq rem)
          end
      end
  | _, _ => []                                      (* forbidden in every component: dropped *)
  end.

Definition sel_remove (sqs : list nat) (forbidden : list (list nat)) (sel : subsel) : subsel :=
  flat_map (remove_one sqs forbidden) sel.

Definition sel_empty (sel : subsel) : bool := match sel with [] => true | _ => false end.

(* the filters of one part on one stream: every relation to sub-queries takes its forbidden
   combinations out of the same searchContext; the part matches iff something is left *)
Definition rel_filters (ops : list (list nat * list (list nat))) (sel : subsel) : bool :=
  negb (sel_empty (fold_left (fun s op => sel_remove (fst op) (snd op) s) ops sel)).

(* ------------------------------------------------------------------ *)
(* Number / time relations to sub-queries (buildSearchObjects)        *)
(* ------------------------------------------------------------------ *)
(* One NumberCondition (TimeCondition: the same code over durations) that mentions other sub-queries:
     n(s) + sum_i value_i(result of sub-query i) >= 0
   Per sub-query the distinct values of its results are collected with the positions that have them
   (map + append), sorted ascending (sort.Slice).  For the LAST sub-query the position sets are made
   cumulative.  The filter enumerates the value combinations of all but the last sub-query (odometer,
   first index fastest) and cuts the invalid part of the last one by binary search. *)
Definition sqdata := list (Z * list nat).

(* numbers[n] / append / sort.Slice: insertion into the ascending list of distinct values *)
Fixpoint ins_value (v : Z) (p : nat) (d : sqdata) : sqdata :=
  match d with
  | [] => [(v, [p])]
  | (w, r) :: d' =>
      if Z.ltb v w then (v, [p]) :: d
      else if Z.eqb v w then (w, r ++ [p]) :: d'
      else (w, r) :: ins_value v p d'
  end.

Fixpoint group_from (p : nat) (vals : list Z) (d : sqdata) : sqdata :=
  match vals with
  | [] => d
  | v :: vals' => group_from (S p) vals' (ins_value v p d)
  end.
Definition group_values (vals : list Z) : sqdata := group_from 0 vals [].

(* element n will contain the range of elements 0..n *)
Fixpoint cumulative (acc : list nat) (d : sqdata) : sqdata :=
  match d with
  | [] => []
  | (v, r) :: d' => (v, acc ++ r) :: cumulative (acc ++ r) d'
  end.

(* the value combinations of the sub-queries in front of the last one: (sum, position sets), first fastest *)
Fixpoint prefixes (ds : list sqdata) : list (Z * list (list nat)) :=
  match ds with
  | [] => [(0%Z, [])]
  | d :: ds' => flat_map (fun sr => map (fun vr => (Z.add (fst vr) (fst sr), snd vr :: snd sr)) d) (prefixes ds')
  end.

Definition first_value (d : sqdata) : Z := match d with [] => 0%Z | (v, _) :: _ => v end.
Definition last_value (d : sqdata) : Z := fst (last d (0%Z, [])).

(* one round of the loop: what is removed for the combination [pre] *)
Definition number_op (n : Z) (sqs : list nat) (lastd : sqdata) (pre : Z * list (list nat))
  : option (list nat * list (list nat)) :=
  let sqN := Z.add n (fst pre) in
  if Z.leb 0 (Z.add sqN (first_value lastd)) then None
  else if Z.ltb (Z.add sqN (last_value lastd)) 0 then Some (removelast sqs, snd pre)
  else
    let li := bsearch (fun i => Z.leb 0 (Z.add sqN (fst (nth (S i) lastd (0%Z, []))))) (length lastd - 2) in
    Some (sqs, snd pre ++ [snd (nth li (cumulative [] lastd) (0%Z, []))]).

(* the filter: [datas] in the order of [sqs], the last one is the one cut by binary search *)
Definition number_filter (n : Z) (sqs : list nat) (datas : list sqdata) (sel : subsel) : subsel * bool :=
  let min_sum := fold_right (fun d a => Z.add (first_value d) a) 0%Z datas in
  let max_sum := fold_right (fun d a => Z.add (last_value d) a) 0%Z datas in
  if Z.leb 0 (Z.add n min_sum) then (sel, true)
  else if Z.ltb (Z.add n max_sum) 0 then (sel, false)
  else
    let lastd := last datas [] in
    let sel' := fold_left (fun s pre => match number_op n sqs lastd pre with
                                        | Some op => sel_remove (fst op) (snd op) s
                                        | None => s
                                        end) (prefixes (removelast datas)) sel in
    (sel', negb (sel_empty sel')).

(* ------------------------------------------------------------------ *)
(* Host and flag (protocol) relations to a sub-query                   *)
(* ------------------------------------------------------------------ *)
(* both take the forbidden result positions of ONE other sub-query out of the selection *)
Definition single_remove (sq : nat) (forb : list nat) (sel : subsel) : subsel * bool :=
  let sel' := sel_remove [sq] [forb] sel in (sel', negb (sel_empty sel')).

(* HostCondition with two sources (this stream's client or server host, the sub-query stream's client or
   server host), no literal host: hosts are byte lists, [mask] is Mask4 or Mask6 according to this stream's
   host size.  for i := range myH { if (myH[i]^otherH[i])&mask[i] == 0 { continue } ... } *)
Definition bytes_differ (a b m : list N) : bool :=
  existsb (fun abm => negb (N.eqb (N.land (N.lxor (fst (fst abm)) (snd (fst abm))) (snd abm)) 0))
          (combine (combine a b) m).

(* is sub-query result [other] forbidden (after 2c56518: leave the byte loop at the first difference) *)
Definition host_forbidden (invert : bool) (myh mask other : list N) : bool :=
  if negb (Nat.eqb (length myh) (length other)) then negb invert      (* different IP version *)
  else if bytes_differ myh other mask then negb invert               (* the hosts differ *)
  else invert.                                                       (* the hosts are equal *)

Definition ipclass (h : list N) : nat := Nat.div (length h) 16.       (* hostSize/16 *)

(* [masks_zero]: Mask4 and Mask6 are both unspecified -> only the IP version is compared, per host group:
   otherHosts[size/16] collects the results, the two sets are swapped unless the condition is inverted, the
   forbidden set of this stream's host group is otherHosts[mySize/16] *)
Definition host_filter (invert masks_zero : bool) (myh mask : list N) (sq : nat) (others : list (list N))
           (sel : subsel) : subsel * bool :=
  let forb :=
    if masks_zero then
      filter (fun p => let same := Nat.eqb (ipclass (nth p others [])) (ipclass myh) in
                       if invert then same else negb same) (seq 0 (length others))
    else filter (fun p => host_forbidden invert myh mask (nth p others [])) (seq 0 (length others)) in
  single_remove sq forb sel.

(* FlagCondition over this stream and one other sub-query (what the parser builds for
   protocol:@a:protocol@): fulfilled when (own xor other) != value, all already masked.
   flagValues maps (value xor flag of a result) to the positions with that flag; the entry of this stream's
   flag is forbidden.  The table is the same grouping as for numbers. *)
Definition flag_filter (own value : N) (sq : nat) (flags : list N) (sel : subsel) : subsel * bool :=
  let table := group_values (map (fun f => Z.of_N (N.lxor value f)) flags) in
  match find (fun e => Z.eqb (fst e) (Z.of_N own)) table with
  | None => (sel, true)                       (* no combination of sub queries produces the forbidden result *)
  | Some (_, forb) =>
      if Nat.eqb (length table) 1 then (sel, false)   (* the only combination produces the forbidden result *)
      else single_remove sq forb sel
  end.

(* ------------------------------------------------------------------ *)
(* The per-file shortcut for time filters (buildSearchObjects)        *)
(* ------------------------------------------------------------------ *)
(* A TimeCondition on the stream alone is  d + a*ftime + b*ltime >= 0.  Before it becomes a filter it is
   evaluated on the file's (min ftime, min ltime) and (max ftime, max ltime): when both agree the filter is
   dropped (every stream of the file matches) or the file is skipped (none does).  The code only does this
   when the filter looks at ONE of the two times (myFactors.ftime == 0 || myFactors.ltime == 0);
   [guarded = false] describes the variant without that test. *)
Inductive shortcut := ScKeep | ScDrop | ScSkipFile.

Definition time_filter (a b d ft lt : Z) : bool := Z.leb 0 (d + a * ft + b * lt).

Definition time_shortcut (guarded : bool) (a b d fmin fmax lmin lmax : Z) : shortcut :=
  if negb guarded || Z.eqb a 0 || Z.eqb b 0 then
    let early := time_filter a b d fmin lmin in
    let late := time_filter a b d fmax lmax in
    if Bool.eqb early late then (if early then ScDrop else ScSkipFile) else ScKeep
  else ScKeep.
