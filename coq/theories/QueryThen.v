(* QueryThen.v -- THEN over groups. Left operand of a THEN: an OR group of sequences of plain / negated payload
   filters (recursively: sequences whose steps are OR groups of such filters); right operand: anything of the same
   kind (AND / OR / NOT groups, further THENs). For these expressions normalisation preserves meaning. *)
From Coq Require Import List NArith ZArith Bool Lia Permutation Arith.
From Pk Require Import Query QuerySort QueryClean QueryFlags QueryHosts QueryOps QuerySet QueryAtoms QueryMain QuerySeq.
Import ListNotations.
Open Scope Z_scope.

(* ------------------------------------------------------------------ evaluation from another position *)
Lemma val_ok_at v p : val_ok v -> val_ok (at_pos v p).
Proof. intros H sub. exact (H sub). Qed.
Lemma ids_ok_at v p : ids_ok v -> ids_ok (at_pos v p).
Proof. intros H. exact H. Qed.

Lemma host_fold_at v p srcs : forall h, host_fold (at_pos v p) h srcs = host_fold v h srcs.
Proof. induction srcs as [|s r IH]; intros h; cbn [host_fold]; [reflexivity|]. destruct h; [destruct (Nat.eqb _ _)|]; try apply IH; reflexivity. Qed.
Lemma eval_host_at v p c : eval_host (at_pos v p) c = eval_host v c.
Proof. unfold eval_host. rewrite host_fold_at. reflexivity. Qed.
Lemma num_fold_at v p l : forall a,
  fold_left (fun x s => x + ns_fac s * s_num (v_str (at_pos v p) (ns_sub s)) (ns_ty s)) l a =
  fold_left (fun x s => x + ns_fac s * s_num (v_str v (ns_sub s)) (ns_ty s)) l a.
Proof. reflexivity. Qed.

Lemma eval_cond_nodata_at v p x : is_data x = false -> eval_cond (at_pos v p) x = eval_cond v x.
Proof. destruct x; cbn [is_data eval_cond]; intros H; try reflexivity; [apply eval_host_at|discriminate]. Qed.

Lemma atom_truth_at v p a : atom_truth (at_pos v p) a = atom_truth v a.
Proof. destruct a; reflexivity. Qed.
Lemma run_at v p e : forall i q, run (at_pos v p) e i q = run v e i q.
Proof.
  induction e as [a| |a IH|a IHa b IHb|a IHa b IHb|a IHa b IHb]; intros i q; cbn [run].
  - destruct a; try (rewrite atom_truth_at; reflexivity). reflexivity.
  - reflexivity.
  - erewrite existsb_ext_in; [reflexivity|]. intros j _. cbn beta. rewrite IH. reflexivity.
  - rewrite IHa, IHb. reflexivity.
  - rewrite IHa, IHb. reflexivity.
  - rewrite IHa. destruct (run v a _ q) as [[|q0 ends]|]; try reflexivity; [apply IHb|].
    generalize (q0 :: ends). intros l. induction l as [|x l IHl]; cbn [fold_right]; [reflexivity|].
    rewrite IHb, IHl. reflexivity.
Qed.
Lemma holds_at v p e q : holds (at_pos v p) e q = holds v e q.
Proof. unfold holds. apply existsb_ext_in. intros j _. rewrite run_at. reflexivity. Qed.

(* ------------------------------------------------------------------ holds is compositional *)
Lemma holds_not v a p : holds v (ENot a) p = negb (holds v a p).
Proof. unfold holds, seqn. cbn [readings run seq existsb]. rewrite orb_false_r. fold (seqn (readings a)). destruct (existsb _ _); reflexivity. Qed.
Lemma holds_and v a b p : holds v (EAnd a b) p = holds v a p && holds v b p.
Proof.
  unfold holds, seqn. cbn [readings run]. rewrite <- existsb_seq_prod.
  apply existsb_ext_in. intros j _. destruct (run v a _ p), (run v b _ p); reflexivity.
Qed.
Lemma holds_or v a b p : holds v (EOr a b) p = holds v a p || holds v b p.
Proof.
  unfold holds, seqn. cbn [readings run]. rewrite existsb_seq_app. f_equal.
  - apply existsb_ext_in. intros j Hj. apply in_seq in Hj. destruct (Nat.ltb_spec j (readings a)); [reflexivity|lia].
  - apply existsb_ext_in. intros k _. destruct (Nat.ltb_spec (readings a + k) (readings a)); [lia|].
    replace (readings a + k - readings a)%nat with k by lia. reflexivity.
Qed.
Lemma holds_atom v a p : holds v (EAtom a) p = atom_holds v a p.
Proof. apply (holds_bsem v (EAtom a) eq_refl p). Qed.

Lemma existsb_seq_prod2 (F : nat -> nat -> bool) m n :
  existsb (fun k => F (k / n)%nat (k mod n)%nat) (seq 0 (m * n)) = existsb (fun i => existsb (fun j => F i j) (seq 0 n)) (seq 0 m).
Proof.
  apply bool_eq_iff. rewrite !existsb_exists. split.
  - intros (k & Hk & H). apply in_seq in Hk. assert (n <> 0)%nat by (intros ->; lia).
    exists (k / n)%nat. split; [apply in_seq; split; [lia|cbn; apply Nat.div_lt_upper_bound; lia]|].
    apply existsb_exists. exists (k mod n)%nat. split; [apply in_seq; split; [lia|cbn; apply Nat.mod_upper_bound; auto]|exact H].
  - intros (i & Hi & H). apply existsb_exists in H as (j & Hj & H). apply in_seq in Hi, Hj.
    exists (i * n + j)%nat. split; [apply in_seq; split; [lia|cbn; nia]|].
    assert (n <> 0)%nat by lia.
    rewrite Nat.div_add_l, Nat.div_small, Nat.add_0_r by lia.
    rewrite Nat.add_comm, Nat.mod_add, Nat.mod_small by lia. exact H.
Qed.

(* ------------------------------------------------------------------ sequences: conjunct and run side by side *)
Lemma seq_both v first rest :
  exists ds M,
    norm (seq_expr first rest) = Some [chains ds] /\ seq_inv ds M /\
    run v (seq_expr first rest) 0 (v_start v) = enc v M (forallb (eval_data v) ds) /\
    readings (seq_expr first rest) = 1%nat /\
    (forallb (eval_data v) ds = true -> pos_of v M <> None).
Proof.
  unfold seq_expr.
  set (M0 := matched_after [] first). set (ok0 := lit_test v [] first).
  assert (Hrun0 : run v (lit_expr first) 0 (v_start v) = enc v M0 ok0).
  { rewrite run_lit. unfold enc, M0, ok0, lit_test, matched_after, pos_of. cbn [run_all].
    destruct first as [s e|s e]; cbn [lit_neg lit_el xorb app run_all]; destruct (v_nxt v e (v_start v)); reflexivity. }
  assert (Hpos0 : ok0 = true -> M0 <> [] -> pos_of v M0 <> None) by (apply lit_test_pos).
  pose proof (run_seq v rest (lit_expr first) M0 ok0 (readings_lit first) Hpos0 Hrun0) as Hsem.
  assert (He0 : forallb (eval_data v) [lit_chain first] = ok0).
  { cbn [forallb]. rewrite andb_true_r. unfold lit_chain, ok0. rewrite <- (eval_cont v [] first). reflexivity. }
  pose proof (norm_seq v rest (lit_expr first) [lit_chain first] M0 ok0 (norm_lit first) (seq_inv_init first) He0) as Hnorm.
  destruct (seq_state v M0 ok0 rest) as [M' ok'].
  destruct Hsem as [Hrun Hread]. destruct Hnorm as (ds' & Hn & I' & He').
  exists ds', M'. split; [exact Hn|]. split; [exact I'|]. split; [rewrite He'; exact Hrun|]. split; [exact Hread|].
  intros Hok. destruct (si_full _ _ I') as (d & Hd & Hm). rewrite forallb_forall in Hok.
  rewrite <- Hm. apply (eval_matched_runs v d (si_ne _ _ I' d Hd) (Hok d Hd)).
Qed.

(* ------------------------------------------------------------------ Conditions.then with an arbitrary right side *)
Definition then_stepl (ds bds : list datac) : list datac :=
  flat_map (fun ad =>
              let cont := map (fun bd => mkData (matched ad ++ d_el bd) (d_inv bd)) bds in
              if d_inv ad
              then ad :: (if existsb (fun o => proper_prefix (matched ad) (matched o)) ds then [] else cont)
              else cont) ds.

Definition nodata (c : conj) : conj := filter (fun x => negb (is_data x)) c.

Lemma conj_then_general ds c2 : ds <> [] -> sel_data c2 <> [] ->
  conj_then (chains ds) c2 = nodata c2 ++ chains (then_stepl ds (sel_data c2)).
Proof.
  intros Hd Hb. unfold conj_then. rewrite sel_data_chains, nodata_chains. cbn [app]. fold (nodata c2).
  destruct ds as [|d0 ds']; [congruence|]. destruct (sel_data c2) as [|b0 bs]; [congruence|].
  f_equal. unfold then_stepl, chains. rewrite map_flat_map'. apply flat_map_ext. intros ad.
  destruct (d_inv ad); cbn [map]; [destruct (existsb _ _); cbn [map]; rewrite ?map_map; reflexivity|rewrite map_map; reflexivity].
Qed.

Lemma eval_conj_split v c : eval_conj v c = eval_conj v (nodata c) && forallb (eval_data v) (sel_data c).
Proof.
  unfold eval_conj, nodata. induction c as [|x c IH]; [reflexivity|]. cbn [forallb filter sel_data flat_map].
  fold (sel_data c). rewrite IH. destruct x; cbn [is_data negb forallb app eval_cond];
    repeat match goal with |- context [forallb ?f ?l] => destruct (forallb f l) end;
    repeat match goal with |- context [eval_tag ?a ?b] => destruct (eval_tag a b) end;
    repeat match goal with |- context [eval_flag ?a ?b] => destruct (eval_flag a b) end;
    repeat match goal with |- context [eval_host ?a ?b] => destruct (eval_host a b) end;
    repeat match goal with |- context [eval_num ?a ?b] => destruct (eval_num a b) end;
    repeat match goal with |- context [eval_time ?a ?b] => destruct (eval_time a b) end;
    repeat match goal with |- context [eval_data ?a ?b] => destruct (eval_data a b) end; reflexivity.
Qed.

Lemma nodata_at v p c : eval_conj (at_pos v p) (nodata c) = eval_conj v (nodata c).
Proof.
  unfold eval_conj, nodata. apply forallb_ext_in'. intros x Hx. apply filter_In in Hx as [_ Hx].
  apply eval_cond_nodata_at. apply negb_true_iff. exact Hx.
Qed.

Lemma eval_chain_app nxt M els inv p :
  els <> [] ->
  eval_chain nxt (M ++ els) inv p = match run_all nxt M p with Some q => eval_chain nxt els inv q | None => false end.
Proof.
  intros Hne. destruct els as [|x els'] using rev_ind; [congruence|]. clear IHels'.
  rewrite app_assoc, eval_chain_split, run_all_app. destruct (run_all nxt M p); [|reflexivity]. rewrite eval_chain_split. reflexivity.
Qed.

(* the position b starts from: behind the matched filters M, or where a started if there are none *)
Definition anchor (v : valuation) (M : list N) : option N := pos_of v M.

Lemma then_stepl_eval v ds M bds : seq_inv ds M -> bds <> [] -> Forall data_wf bds ->
  forallb (eval_data v) (then_stepl ds bds) =
  forallb (eval_data v) ds &&
  match pos_of v M with Some q => forallb (eval_data (at_pos v q)) bds | None => false end.
Proof.
  intros I Hb Hw.
  assert (Hcont : forall bd, In bd bds ->
            eval_data v (mkData (M ++ d_el bd) (d_inv bd)) =
            match pos_of v M with Some q => eval_data (at_pos v q) bd | None => false end).
  { intros bd Hin. unfold eval_data, pos_of. cbn [d_el d_inv v_nxt v_start at_pos]. rewrite Forall_forall in Hw.
    apply eval_chain_app. apply (Hw bd Hin). }
  assert (Hfull_in : forall ad, In ad ds -> matched ad = M ->
            forall bd, In bd bds -> In (mkData (M ++ d_el bd) (d_inv bd)) (then_stepl ds bds)).
  { intros ad Ha Hm bd Hbd. unfold then_stepl. apply in_flat_map. exists ad. split; [auto|].
    assert (Hin : In (mkData (M ++ d_el bd) (d_inv bd)) (map (fun bd0 => mkData (matched ad ++ d_el bd0) (d_inv bd0)) bds)).
    { apply in_map_iff. exists bd. rewrite Hm. auto. }
    destruct (d_inv ad) eqn:Ei; [right|exact Hin].
    rewrite (covered_iff ds M ad I Ha).
    replace (list_eqb N.eqb (matched ad) M) with true by (rewrite Hm; symmetry; apply list_eqb_refl; apply N.eqb_refl).
    cbn [negb]. exact Hin. }
  apply bool_eq_iff. rewrite andb_true_iff, !forallb_forall. split.
  - intros H. destruct (si_full _ _ I) as (ad0 & Ha0 & Hm0).
    assert (Hq : exists q, pos_of v M = Some q /\ forall bd, In bd bds -> eval_data (at_pos v q) bd = true).
    { destruct bds as [|b0 bs]; [congruence|].
      pose proof (H _ (Hfull_in ad0 Ha0 Hm0 b0 (or_introl eq_refl))) as H0. rewrite (Hcont b0 (or_introl eq_refl)) in H0.
      destruct (pos_of v M) as [q|] eqn:Ep; [|discriminate]. exists q. split; [reflexivity|].
      intros bd Hbd. pose proof (H _ (Hfull_in ad0 Ha0 Hm0 bd Hbd)) as H1. rewrite (Hcont bd Hbd) in H1. exact H1. }
    destruct Hq as (q & Ep & Hq). rewrite Ep. split; [|apply forallb_forall; exact Hq].
    intros ad Ha. destruct (d_inv ad) eqn:Ei.
    + apply H. unfold then_stepl. apply in_flat_map. exists ad. split; [auto|]. rewrite Ei. left. reflexivity.
    + unfold eval_data. rewrite Ei, eval_chain_pos, (si_pos _ _ I ad Ha Ei). unfold pos_of in Ep. rewrite Ep. reflexivity.
  - intros [H Ht] d' Hd'. destruct (pos_of v M) as [q|] eqn:Ep; [|discriminate]. rewrite forallb_forall in Ht.
    unfold then_stepl in Hd'. apply in_flat_map in Hd' as (ad & Ha & Hd').
    assert (Hc : In d' (map (fun bd => mkData (matched ad ++ d_el bd) (d_inv bd)) bds) -> matched ad = M -> eval_data v d' = true).
    { intros Hin Hm. apply in_map_iff in Hin as (bd & <- & Hbd). rewrite Hm, (Hcont bd Hbd). apply Ht. exact Hbd. }
    destruct (d_inv ad) eqn:Ei.
    + destruct Hd' as [<-|Hd']; [apply H; auto|]. rewrite (covered_iff ds M ad I Ha) in Hd'.
      destruct (list_eqb N.eqb (matched ad) M) eqn:E; cbn [negb] in Hd'; [|contradiction].
      apply Nl_eqb_eq in E. apply Hc; auto.
    + apply Hc; auto. unfold matched. rewrite Ei. apply (si_pos _ _ I ad Ha Ei).
Qed.

Lemma sel_data_wf' c : conj_wf c -> Forall data_wf (sel_data c).
Proof. apply sel_data_wf. Qed.

(* eval under at_pos v (v_start v) is eval under v *)
Lemma eval_conj_at_start v c : eval_conj (at_pos v (v_start v)) c = eval_conj v c.
Proof. unfold eval_conj. apply forallb_ext_in'. intros x _. destruct x; try reflexivity. apply eval_host_at. Qed.

Theorem conj_then_sem v ds M c2 :
  seq_inv ds M -> conj_wf c2 ->
  eval_conj v (conj_then (chains ds) c2) =
  eval_conj v (chains ds) &&
  match pos_of v M with Some q => eval_conj (at_pos v q) c2 | None => false end.
Proof.
  intros I W. assert (Hne : ds <> []) by (destruct (si_full _ _ I) as (d & Hd & _); destruct ds; [contradiction|discriminate]).
  assert (Hpos : eval_conj v (chains ds) = true -> pos_of v M <> None).
  { rewrite eval_chains. intros H. destruct (si_full _ _ I) as (d & Hd & Hm). rewrite forallb_forall in H.
    rewrite <- Hm. apply (eval_matched_runs v d (si_ne _ _ I d Hd) (H d Hd)). }
  destruct (sel_data c2) as [|b0 bs] eqn:Eb.
  - (* no payload filter on the right: nothing moves *)
    assert (Hc2 : forall q, eval_conj (at_pos v q) c2 = eval_conj v (nodata c2)).
    { intros q. rewrite (eval_conj_split (at_pos v q) c2), Eb, nodata_at. cbn. apply andb_true_r. }
    assert (Hct : conj_then (chains ds) c2 = nodata c2 ++ chains ds).
    { unfold conj_then. rewrite sel_data_chains, nodata_chains, Eb. cbn [app map]. fold (nodata c2).
      destruct ds; [congruence|]. rewrite app_nil_r. reflexivity. }
    rewrite Hct, eval_conj_app.
    destruct (eval_conj v (chains ds)) eqn:E1.
    + destruct (pos_of v M) as [q|]; [rewrite Hc2, andb_true_r; reflexivity|exfalso; apply Hpos; auto].
    + rewrite andb_false_r. reflexivity.
  - rewrite conj_then_general by (auto; rewrite Eb; discriminate). rewrite Eb, eval_conj_app, eval_chains.
    rewrite (then_stepl_eval v ds M (b0 :: bs) I ltac:(discriminate)) by (rewrite <- Eb; apply sel_data_wf; exact W).
    rewrite eval_chains. destruct (pos_of v M) as [q|].
    + rewrite (eval_conj_split (at_pos v q) c2), Eb, nodata_at.
      destruct (eval_conj v (nodata c2)), (forallb (eval_data v) ds), (forallb _ (b0 :: bs)); reflexivity.
    + rewrite !andb_false_r. reflexivity.
Qed.

Lemma conj_then_wf a b : conj_wf a -> conj_wf b -> conj_wf (conj_then a b).
Proof.
  intros Ha Hb. unfold conj_then.
  assert (Hnd : conj_wf (filter (fun x => negb (is_data x)) a ++ filter (fun x => negb (is_data x)) b)).
  { apply Forall_app; split; unfold conj_wf in *; rewrite Forall_forall in *; intros x Hx; apply filter_In in Hx as [Hx _]; auto. }
  pose proof (sel_data_wf a Ha) as Wa. pose proof (sel_data_wf b Hb) as Wb.
  assert (Hdata : forall l, Forall data_wf l -> conj_wf (map CData l)).
  { intros l Hl. apply Forall_map. eapply Forall_impl; [|exact Hl]. intros d Hd. exact Hd. }
  destruct (sel_data a) as [|a0 al] eqn:Ea; [apply Forall_app; split; [exact Hnd|apply Forall_app; split; apply Hdata; auto]|].
  destruct (sel_data b) as [|b0 bl] eqn:Eb; [apply Forall_app; split; [exact Hnd|apply Forall_app; split; apply Hdata; auto]|].
  apply Forall_app; split; [exact Hnd|]. apply Forall_forall. intros x Hx. apply in_flat_map in Hx as (ad & Had & Hx).
  rewrite Forall_forall in Wa, Wb.
  assert (Hcont : In x (map (fun bd => CData (mkData (matched ad ++ d_el bd) (d_inv bd))) (b0 :: bl)) -> cond_wf x).
  { intros Hin. apply in_map_iff in Hin as (bd & <- & Hbd). cbn. unfold data_wf. cbn.
    specialize (Wb bd Hbd). unfold data_wf in Wb. destruct (matched ad); [exact Wb|discriminate]. }
  destruct (d_inv ad).
  - destruct Hx as [<-|Hx]; [apply (Wa ad Had)|]. destruct (existsb _ _); [contradiction|auto].
  - auto.
Qed.
