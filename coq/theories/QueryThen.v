(* QueryThen.v -- THEN over groups. Left operand of a THEN: an OR group of sequences of plain / negated payload
   filters (recursively: sequences whose steps are OR groups of such filters); right operand: anything of the same
   kind (AND / OR / NOT groups, further THENs). For these expressions normalisation preserves meaning. *)
From Coq Require Import List NArith ZArith Bool Lia Permutation Arith.
From Pk Require Import Query QuerySort QueryClean QueryFlags QueryHosts QueryOps QuerySet QueryAtoms QueryMain QuerySeq.
Import ListNotations.
Open Scope Z_scope.

(* ------------------------------------------------------------------ evaluation from another position *)
Lemma val_ok_at v p : val_ok v -> val_ok (at_pos v p).
Proof. intros H sub. exact (H sub). Qed.
Lemma ids_ok_at v p : ids_ok v -> ids_ok (at_pos v p).
Proof. intros H. exact H. Qed.

Lemma host_fold_at v p srcs : forall h, host_fold (at_pos v p) h srcs = host_fold v h srcs.
Proof. induction srcs as [|s r IH]; intros h; cbn [host_fold]; [reflexivity|]. destruct h; [destruct (Nat.eqb _ _)|]; try apply IH; reflexivity. Qed.
Lemma eval_host_at v p c : eval_host (at_pos v p) c = eval_host v c.
Proof. unfold eval_host. rewrite host_fold_at. reflexivity. Qed.
Lemma num_fold_at v p l : forall a,
  fold_left (fun x s => x + ns_fac s * s_num (v_str (at_pos v p) (ns_sub s)) (ns_ty s)) l a =
  fold_left (fun x s => x + ns_fac s * s_num (v_str v (ns_sub s)) (ns_ty s)) l a.
Proof. reflexivity. Qed.

Lemma eval_cond_nodata_at v p x : is_data x = false -> eval_cond (at_pos v p) x = eval_cond v x.
Proof. destruct x; cbn [is_data eval_cond]; intros H; try reflexivity; [apply eval_host_at|discriminate]. Qed.

Lemma atom_truth_at v p a : atom_truth (at_pos v p) a = atom_truth v a.
Proof. destruct a; reflexivity. Qed.
Lemma run_at v p e : forall i q, run (at_pos v p) e i q = run v e i q.
Proof.
  induction e as [a| |a IH|a IHa b IHb|a IHa b IHb|a IHa b IHb]; intros i q; cbn [run].
  - destruct a; try (rewrite atom_truth_at; reflexivity). reflexivity.
  - reflexivity.
  - erewrite existsb_ext_in; [reflexivity|]. intros j _. cbn beta. rewrite IH. reflexivity.
  - rewrite IHa, IHb. reflexivity.
  - rewrite IHa, IHb. reflexivity.
  - rewrite IHa. destruct (run v a _ q) as [[|q0 ends]|]; try reflexivity; [apply IHb|].
    generalize (q0 :: ends). intros l. induction l as [|x l IHl]; cbn [fold_right]; [reflexivity|].
    rewrite IHb, IHl. reflexivity.
Qed.
Lemma holds_at v p e q : holds (at_pos v p) e q = holds v e q.
Proof. unfold holds. apply existsb_ext_in. intros j _. rewrite run_at. reflexivity. Qed.

(* ------------------------------------------------------------------ holds is compositional *)
Lemma holds_not v a p : holds v (ENot a) p = negb (holds v a p).
Proof. unfold holds, seqn. cbn [readings run seq existsb]. rewrite orb_false_r. fold (seqn (readings a)). destruct (existsb _ _); reflexivity. Qed.
Lemma holds_and v a b p : holds v (EAnd a b) p = holds v a p && holds v b p.
Proof.
  unfold holds, seqn. cbn [readings run]. rewrite <- existsb_seq_prod.
  apply existsb_ext_in. intros j _. destruct (run v a _ p), (run v b _ p); reflexivity.
Qed.
Lemma holds_or v a b p : holds v (EOr a b) p = holds v a p || holds v b p.
Proof.
  unfold holds, seqn. cbn [readings run]. rewrite existsb_seq_app. f_equal.
  - apply existsb_ext_in. intros j Hj. apply in_seq in Hj. destruct (Nat.ltb_spec j (readings a)); [reflexivity|lia].
  - apply existsb_ext_in. intros k _. destruct (Nat.ltb_spec (readings a + k) (readings a)); [lia|].
    replace (readings a + k - readings a)%nat with k by lia. reflexivity.
Qed.
Lemma holds_atom v a p : holds v (EAtom a) p = atom_holds v a p.
Proof. apply (holds_bsem v (EAtom a) eq_refl p). Qed.

Lemma existsb_seq_prod2 (F : nat -> nat -> bool) m n :
  existsb (fun k => F (k / n)%nat (k mod n)%nat) (seq 0 (m * n)) = existsb (fun i => existsb (fun j => F i j) (seq 0 n)) (seq 0 m).
Proof.
  apply bool_eq_iff. rewrite !existsb_exists. split.
  - intros (k & Hk & H). apply in_seq in Hk. assert (n <> 0)%nat by (intros ->; lia).
    exists (k / n)%nat. split; [apply in_seq; split; [lia|cbn; apply Nat.div_lt_upper_bound; lia]|].
    apply existsb_exists. exists (k mod n)%nat. split; [apply in_seq; split; [lia|cbn; apply Nat.mod_upper_bound; auto]|exact H].
  - intros (i & Hi & H). apply existsb_exists in H as (j & Hj & H). apply in_seq in Hi, Hj.
    exists (i * n + j)%nat. split; [apply in_seq; split; [lia|cbn; nia]|].
    assert (n <> 0)%nat by lia.
    rewrite Nat.div_add_l, Nat.div_small, Nat.add_0_r by lia.
    rewrite Nat.add_comm, Nat.mod_add, Nat.mod_small by lia. exact H.
Qed.

(* ------------------------------------------------------------------ sequences: conjunct and run side by side *)
Lemma seq_both v first rest :
  exists ds M,
    norm (seq_expr first rest) = Some [chains ds] /\ seq_inv ds M /\
    run v (seq_expr first rest) 0 (v_start v) = enc v M (forallb (eval_data v) ds) /\
    readings (seq_expr first rest) = 1%nat /\
    (forallb (eval_data v) ds = true -> pos_of v M <> None).
Proof.
  unfold seq_expr.
  set (M0 := matched_after [] first). set (ok0 := lit_test v [] first).
  assert (Hrun0 : run v (lit_expr first) 0 (v_start v) = enc v M0 ok0).
  { rewrite run_lit. unfold enc, M0, ok0, lit_test, matched_after, pos_of. cbn [run_all].
    destruct first as [s e|s e]; cbn [lit_neg lit_el xorb app run_all]; destruct (v_nxt v e (v_start v)); reflexivity. }
  assert (Hpos0 : ok0 = true -> M0 <> [] -> pos_of v M0 <> None) by (apply lit_test_pos).
  pose proof (run_seq v rest (lit_expr first) M0 ok0 (readings_lit first) Hpos0 Hrun0) as Hsem.
  assert (He0 : forallb (eval_data v) [lit_chain first] = ok0).
  { cbn [forallb]. rewrite andb_true_r. unfold lit_chain, ok0. rewrite <- (eval_cont v [] first). reflexivity. }
  pose proof (norm_seq v rest (lit_expr first) [lit_chain first] M0 ok0 (norm_lit first) (seq_inv_init first) He0) as Hnorm.
  destruct (seq_state v M0 ok0 rest) as [M' ok'].
  destruct Hsem as [Hrun Hread]. destruct Hnorm as (ds' & Hn & I' & He').
  exists ds', M'. split; [exact Hn|]. split; [exact I'|]. split; [rewrite He'; exact Hrun|]. split; [exact Hread|].
  intros Hok. destruct (si_full _ _ I') as (d & Hd & Hm). rewrite forallb_forall in Hok.
  rewrite <- Hm. apply (eval_matched_runs v d (si_ne _ _ I' d Hd) (Hok d Hd)).
Qed.

(* ------------------------------------------------------------------ Conditions.then with an arbitrary right side *)
Definition then_stepl (ds bds : list datac) : list datac :=
  flat_map (fun ad =>
              let cont := map (fun bd => mkData (matched ad ++ d_el bd) (d_inv bd)) bds in
              if d_inv ad
              then ad :: (if existsb (fun o => proper_prefix (matched ad) (matched o)) ds then [] else cont)
              else cont) ds.

Definition nodata (c : conj) : conj := filter (fun x => negb (is_data x)) c.

Lemma conj_then_general ds c2 : ds <> [] -> sel_data c2 <> [] ->
  conj_then (chains ds) c2 = nodata c2 ++ chains (then_stepl ds (sel_data c2)).
Proof.
  intros Hd Hb. unfold conj_then. rewrite sel_data_chains, nodata_chains. cbn [app]. fold (nodata c2).
  destruct ds as [|d0 ds']; [congruence|]. destruct (sel_data c2) as [|b0 bs]; [congruence|].
  f_equal. unfold then_stepl, chains. rewrite map_flat_map'. apply flat_map_ext. intros ad.
  destruct (d_inv ad); cbn [map]; [destruct (existsb _ _); cbn [map]; rewrite ?map_map; reflexivity|rewrite map_map; reflexivity].
Qed.

Lemma eval_conj_split v c : eval_conj v c = eval_conj v (nodata c) && forallb (eval_data v) (sel_data c).
Proof.
  unfold eval_conj, nodata. induction c as [|x c IH]; [reflexivity|]. cbn [forallb filter sel_data flat_map].
  fold (sel_data c). rewrite IH. destruct x; cbn [is_data negb forallb app eval_cond];
    repeat match goal with |- context [forallb ?f ?l] => destruct (forallb f l) end;
    repeat match goal with |- context [eval_tag ?a ?b] => destruct (eval_tag a b) end;
    repeat match goal with |- context [eval_flag ?a ?b] => destruct (eval_flag a b) end;
    repeat match goal with |- context [eval_host ?a ?b] => destruct (eval_host a b) end;
    repeat match goal with |- context [eval_num ?a ?b] => destruct (eval_num a b) end;
    repeat match goal with |- context [eval_time ?a ?b] => destruct (eval_time a b) end;
    repeat match goal with |- context [eval_data ?a ?b] => destruct (eval_data a b) end; reflexivity.
Qed.

Lemma nodata_at v p c : eval_conj (at_pos v p) (nodata c) = eval_conj v (nodata c).
Proof.
  unfold eval_conj, nodata. apply forallb_ext_in'. intros x Hx. apply filter_In in Hx as [_ Hx].
  apply eval_cond_nodata_at. apply negb_true_iff. exact Hx.
Qed.

Lemma eval_chain_app nxt M els inv p :
  els <> [] ->
  eval_chain nxt (M ++ els) inv p = match run_all nxt M p with Some q => eval_chain nxt els inv q | None => false end.
Proof.
  intros Hne. destruct els as [|x els'] using rev_ind; [congruence|]. clear IHels'.
  rewrite app_assoc, eval_chain_split, run_all_app. destruct (run_all nxt M p); [|reflexivity]. rewrite eval_chain_split. reflexivity.
Qed.

(* the position b starts from: behind the matched filters M, or where a started if there are none *)
Definition anchor (v : valuation) (M : list N) : option N := pos_of v M.

Lemma then_stepl_eval v ds M bds : seq_inv ds M -> bds <> [] -> Forall data_wf bds ->
  forallb (eval_data v) (then_stepl ds bds) =
  forallb (eval_data v) ds &&
  match pos_of v M with Some q => forallb (eval_data (at_pos v q)) bds | None => false end.
Proof.
  intros I Hb Hw.
  assert (Hcont : forall bd, In bd bds ->
            eval_data v (mkData (M ++ d_el bd) (d_inv bd)) =
            match pos_of v M with Some q => eval_data (at_pos v q) bd | None => false end).
  { intros bd Hin. unfold eval_data, pos_of. cbn [d_el d_inv v_nxt v_start at_pos]. rewrite Forall_forall in Hw.
    apply eval_chain_app. apply (Hw bd Hin). }
  assert (Hfull_in : forall ad, In ad ds -> matched ad = M ->
            forall bd, In bd bds -> In (mkData (M ++ d_el bd) (d_inv bd)) (then_stepl ds bds)).
  { intros ad Ha Hm bd Hbd. unfold then_stepl. apply in_flat_map. exists ad. split; [auto|].
    assert (Hin : In (mkData (M ++ d_el bd) (d_inv bd)) (map (fun bd0 => mkData (matched ad ++ d_el bd0) (d_inv bd0)) bds)).
    { apply in_map_iff. exists bd. rewrite Hm. auto. }
    destruct (d_inv ad) eqn:Ei; [right|exact Hin].
    rewrite (covered_iff ds M ad I Ha).
    replace (list_eqb N.eqb (matched ad) M) with true by (rewrite Hm; symmetry; apply list_eqb_refl; apply N.eqb_refl).
    cbn [negb]. exact Hin. }
  apply bool_eq_iff. rewrite andb_true_iff, !forallb_forall. split.
  - intros H. destruct (si_full _ _ I) as (ad0 & Ha0 & Hm0).
    assert (Hq : exists q, pos_of v M = Some q /\ forall bd, In bd bds -> eval_data (at_pos v q) bd = true).
    { destruct bds as [|b0 bs]; [congruence|].
      pose proof (H _ (Hfull_in ad0 Ha0 Hm0 b0 (or_introl eq_refl))) as H0. rewrite (Hcont b0 (or_introl eq_refl)) in H0.
      destruct (pos_of v M) as [q|] eqn:Ep; [|discriminate]. exists q. split; [reflexivity|].
      intros bd Hbd. pose proof (H _ (Hfull_in ad0 Ha0 Hm0 bd Hbd)) as H1. rewrite (Hcont bd Hbd) in H1. exact H1. }
    destruct Hq as (q & Ep & Hq). rewrite Ep. split; [|apply forallb_forall; exact Hq].
    intros ad Ha. destruct (d_inv ad) eqn:Ei.
    + apply H. unfold then_stepl. apply in_flat_map. exists ad. split; [auto|]. rewrite Ei. left. reflexivity.
    + unfold eval_data. rewrite Ei, eval_chain_pos, (si_pos _ _ I ad Ha Ei). unfold pos_of in Ep. rewrite Ep. reflexivity.
  - intros [H Ht] d' Hd'. destruct (pos_of v M) as [q|] eqn:Ep; [|discriminate]. rewrite forallb_forall in Ht.
    unfold then_stepl in Hd'. apply in_flat_map in Hd' as (ad & Ha & Hd').
    assert (Hc : In d' (map (fun bd => mkData (matched ad ++ d_el bd) (d_inv bd)) bds) -> matched ad = M -> eval_data v d' = true).
    { intros Hin Hm. apply in_map_iff in Hin as (bd & <- & Hbd). rewrite Hm, (Hcont bd Hbd). apply Ht. exact Hbd. }
    destruct (d_inv ad) eqn:Ei.
    + destruct Hd' as [<-|Hd']; [apply H; auto|]. rewrite (covered_iff ds M ad I Ha) in Hd'.
      destruct (list_eqb N.eqb (matched ad) M) eqn:E; cbn [negb] in Hd'; [|contradiction].
      apply Nl_eqb_eq in E. apply Hc; auto.
    + apply Hc; auto. unfold matched. rewrite Ei. apply (si_pos _ _ I ad Ha Ei).
Qed.

Lemma sel_data_wf' c : conj_wf c -> Forall data_wf (sel_data c).
Proof. apply sel_data_wf. Qed.

(* eval under at_pos v (v_start v) is eval under v *)
Lemma eval_conj_at_start v c : eval_conj (at_pos v (v_start v)) c = eval_conj v c.
Proof. unfold eval_conj. apply forallb_ext_in'. intros x _. destruct x; try reflexivity. apply eval_host_at. Qed.

Theorem conj_then_sem v ds M c2 :
  seq_inv ds M -> conj_wf c2 ->
  eval_conj v (conj_then (chains ds) c2) =
  eval_conj v (chains ds) &&
  match pos_of v M with Some q => eval_conj (at_pos v q) c2 | None => false end.
Proof.
  intros I W. assert (Hne : ds <> []) by (destruct (si_full _ _ I) as (d & Hd & _); destruct ds; [contradiction|discriminate]).
  assert (Hpos : eval_conj v (chains ds) = true -> pos_of v M <> None).
  { rewrite eval_chains. intros H. destruct (si_full _ _ I) as (d & Hd & Hm). rewrite forallb_forall in H.
    rewrite <- Hm. apply (eval_matched_runs v d (si_ne _ _ I d Hd) (H d Hd)). }
  destruct (sel_data c2) as [|b0 bs] eqn:Eb.
  - (* no payload filter on the right: nothing moves *)
    assert (Hc2 : forall q, eval_conj (at_pos v q) c2 = eval_conj v (nodata c2)).
    { intros q. rewrite (eval_conj_split (at_pos v q) c2), Eb, nodata_at. cbn. apply andb_true_r. }
    assert (Hct : conj_then (chains ds) c2 = nodata c2 ++ chains ds).
    { unfold conj_then. rewrite sel_data_chains, nodata_chains, Eb. cbn [app map]. fold (nodata c2).
      destruct ds; [congruence|]. rewrite app_nil_r. reflexivity. }
    rewrite Hct, eval_conj_app.
    destruct (eval_conj v (chains ds)) eqn:E1.
    + destruct (pos_of v M) as [q|]; [rewrite Hc2, andb_true_r; reflexivity|exfalso; apply Hpos; auto].
    + rewrite andb_false_r. reflexivity.
  - rewrite conj_then_general by (auto; rewrite Eb; discriminate). rewrite Eb, eval_conj_app, eval_chains.
    rewrite (then_stepl_eval v ds M (b0 :: bs) I ltac:(discriminate)) by (rewrite <- Eb; apply sel_data_wf; exact W).
    rewrite eval_chains. destruct (pos_of v M) as [q|].
    + rewrite (eval_conj_split (at_pos v q) c2), Eb, nodata_at.
      destruct (eval_conj v (nodata c2)), (forallb (eval_data v) ds), (forallb _ (b0 :: bs)); reflexivity.
    + rewrite !andb_false_r. reflexivity.
Qed.

Lemma conj_then_wf a b : conj_wf a -> conj_wf b -> conj_wf (conj_then a b).
Proof.
  intros Ha Hb. unfold conj_then.
  assert (Hnd : conj_wf (filter (fun x => negb (is_data x)) a ++ filter (fun x => negb (is_data x)) b)).
  { apply Forall_app; split; unfold conj_wf in *; rewrite Forall_forall in *; intros x Hx; apply filter_In in Hx as [Hx _]; auto. }
  pose proof (sel_data_wf a Ha) as Wa. pose proof (sel_data_wf b Hb) as Wb.
  assert (Hdata : forall l, Forall data_wf l -> conj_wf (map CData l)).
  { intros l Hl. apply Forall_map. eapply Forall_impl; [|exact Hl]. intros d Hd. exact Hd. }
  destruct (sel_data a) as [|a0 al] eqn:Ea; [apply Forall_app; split; [exact Hnd|apply Forall_app; split; apply Hdata; auto]|].
  destruct (sel_data b) as [|b0 bl] eqn:Eb; [apply Forall_app; split; [exact Hnd|apply Forall_app; split; apply Hdata; auto]|].
  apply Forall_app; split; [exact Hnd|]. apply Forall_forall. intros x Hx. apply in_flat_map in Hx as (ad & Had & Hx).
  rewrite Forall_forall in Wa, Wb.
  assert (Hcont : In x (map (fun bd => CData (mkData (matched ad ++ d_el bd) (d_inv bd))) (b0 :: bl)) -> cond_wf x).
  { intros Hin. apply in_map_iff in Hin as (bd & <- & Hbd). cbn. unfold data_wf. cbn.
    specialize (Wb bd Hbd). unfold data_wf in Wb. destruct (matched ad); [exact Wb|discriminate]. }
  destruct (d_inv ad).
  - destruct Hx as [<-|Hx]; [apply (Wa ad Had)|]. destruct (existsb _ _); [contradiction|auto].
  - auto.
Qed.

(* ------------------------------------------------------------------ the left side of a THEN: OR groups of sequences *)
(* a step: an OR group of payload filters (data: = both directions) and negated single-direction payload filters *)
Fixpoint grp (e : expr) : bool :=
  match e with
  | EAtom (AData _ els) => negb (is_nil els)
  | ENot (EAtom (AData _ [_])) => true
  | EOr a b => grp a && grp b
  | _ => false
  end.
(* sequences of steps, and OR groups of those *)
Fixpoint seqs (e : expr) : bool :=
  match e with
  | EOr a b => seqs a && seqs b
  | EThen a g => seqs a && grp g
  | _ => grp e
  end.

Fixpoint glit (g : expr) (i : nat) : lit :=
  match g with
  | EAtom (AData s els) => LPos s (nth i els 0%N)
  | ENot (EAtom (AData s [el])) => LNeg s el
  | EOr a b => if Nat.ltb i (readings a) then glit a i else glit b (i - readings a)
  | _ => LPos 0 0
  end.
Fixpoint rd (e : expr) (i : nat) : lit * list lit :=
  match e with
  | EOr a b => if Nat.ltb i (readings a) then rd a i else rd b (i - readings a)
  | EThen a g => let '(f, r) := rd a (i / readings g) in (f, r ++ [glit g (i mod readings g)])
  | _ => (glit e i, [])
  end.
Definition rseq (fr : lit * list lit) : expr := seq_expr (fst fr) (snd fr).

Lemma grp_readings g : grp g = true -> (0 < readings g)%nat.
Proof.
  induction g as [a| |a IH|a IHa b IHb|a IHa b IHb|a IHa b IHb]; cbn [grp readings]; intros H; try discriminate.
  - destruct a; try discriminate. destruct elems; [discriminate|cbn; lia].
  - lia.
  - apply andb_true_iff in H as [Ha Hb]. specialize (IHa Ha). lia.
Qed.
Lemma grp_seqs g : grp g = true -> seqs g = true.
Proof.
  induction g as [a| |a IH|a IHa b IHb|a IHa b IHb|a IHa b IHb]; cbn [grp seqs]; intros H; try discriminate; auto.
  apply andb_true_iff in H as [Ha Hb]. rewrite IHa, IHb by auto. reflexivity.
Qed.
Lemma seqs_readings e : seqs e = true -> (0 < readings e)%nat.
Proof.
  induction e as [a| |a IH|a IHa b IHb|a IHa b IHb|a IHa b IHb]; cbn [seqs]; intros H; try discriminate.
  - apply grp_readings. exact H.
  - apply grp_readings. exact H.
  - apply andb_true_iff in H as [Ha Hb]. specialize (IHa Ha). cbn. lia.
  - apply andb_true_iff in H as [Ha Hb]. specialize (IHa Ha). pose proof (grp_readings _ Hb). cbn. nia.
Qed.

(* ---- a step is one literal per reading *)
Lemma grp_run v g : grp g = true -> forall i q, (i < readings g)%nat -> run v g i q = run v (lit_expr (glit g i)) 0 q.
Proof.
  induction g as [a| |a IH|a IHa b IHb|a IHa b IHb|a IHa b IHb]; cbn [grp]; intros H i q Hi; try discriminate.
  - destruct a as [| | | | |sub els]; try discriminate. cbn [readings] in Hi. cbn [glit lit_expr run].
    rewrite (nth_error_nth' els 0%N Hi). cbn [nth_error]. reflexivity.
  - destruct a as [[| | | | |sub [|el [|]]]| | | | |]; try discriminate. reflexivity.
  - apply andb_true_iff in H as [Ha Hb]. cbn [readings] in Hi. cbn [run glit].
    destruct (Nat.ltb_spec i (readings a)); [apply IHa; auto|apply IHb; auto; lia].
Qed.

Lemma seq_shift_add n : forall m, seq m n = map (fun k => (m + k)%nat) (seq 0 n).
Proof.
  induction n as [|n IH]; intros m; [reflexivity|]. cbn [seq map]. rewrite Nat.add_0_r. f_equal.
  rewrite <- (seq_shift n 0), map_map, (IH (S m)). apply map_ext. intros k. lia.
Qed.
Lemma seqn_app m n : seqn (m + n) = seqn m ++ map (fun k => (m + k)%nat) (seqn n).
Proof. unfold seqn. rewrite seq_app. f_equal. apply seq_shift_add. Qed.

Lemma seqn_S m : seqn (S m) = 0%nat :: map S (seqn m).
Proof. unfold seqn. cbn [seq]. rewrite seq_shift. reflexivity. Qed.

Lemma map_nth_seqn {A B} (f : A -> B) (l : list A) d : map (fun i => f (nth i l d)) (seqn (length l)) = map f l.
Proof.
  induction l as [|x l IH]; [reflexivity|]. cbn [length]. rewrite seqn_S. cbn [map nth]. f_equal.
  rewrite map_map. exact IH.
Qed.

Lemma grp_norm g : grp g = true ->
  norm g = Some (map (fun i => chains [lit_chain (glit g i)]) (seqn (readings g))).
Proof.
  induction g as [a| |a IH|a IHa b IHb|a IHa b IHb|a IHa b IHb]; cbn [grp]; intros H; try discriminate.
  - destruct a as [| | | | |sub els]; try discriminate. cbn [norm conds_of_atom readings glit]. f_equal.
    symmetry. apply (map_nth_seqn (fun e => [CData (mkData [e] false)]) els 0%N).
  - destruct a as [[| | | | |sub [|el [|]]]| | | | |]; try discriminate. reflexivity.
  - apply andb_true_iff in H as [Ha Hb]. cbn [norm readings]. rewrite (IHa Ha), (IHb Hb). f_equal.
    unfold cs_or. rewrite seqn_app, map_app, map_map. f_equal.
    + apply map_ext_in. intros i Hi. apply in_seq in Hi. cbn [glit]. destruct (Nat.ltb_spec i (readings a)); [reflexivity|lia].
    + apply map_ext. intros k. cbn [glit]. destruct (Nat.ltb_spec (readings a + k) (readings a)); [lia|].
      replace (readings a + k - readings a)%nat with k by lia. reflexivity.
Qed.

(* run of a THEN only looks at the right side through its runs *)
Definition then_run (ra : option (list N)) (rb : N -> option (list N)) (p : N) : option (list N) :=
  match ra with
  | None => None
  | Some [] => rb p
  | Some ends =>
      fold_right (fun q acc => match rb q, acc with
                               | Some [], Some r => Some (q :: r)
                               | Some ys, Some r => Some (ys ++ r)
                               | _, _ => None
                               end) (Some []) ends
  end.
Lemma run_then v a b i p :
  run v (EThen a b) i p = then_run (run v a (i / readings b) p) (fun q => run v b (i mod readings b) q) p.
Proof. reflexivity. Qed.
Lemma then_run_ext ra rb rb' p : (forall q, rb q = rb' q) -> then_run ra rb p = then_run ra rb' p.
Proof.
  intros H. unfold then_run. destruct ra as [[|q0 ends]|]; auto.
  generalize (q0 :: ends). intros l. induction l as [|x l IH]; cbn [fold_right]; [reflexivity|]. rewrite H, IH. reflexivity.
Qed.

Lemma rseq_snoc f r l : rseq (f, r ++ [l]) = EThen (rseq (f, r)) (lit_expr l).
Proof. unfold rseq, seq_expr. cbn [fst snd]. rewrite fold_left_app. reflexivity. Qed.

Lemma seqs_run v e : seqs e = true -> forall i p, (i < readings e)%nat -> run v e i p = run v (rseq (rd e i)) 0 p.
Proof.
  induction e as [a| |a IH|a IHa b IHb|a IHa b IHb|a IHa b IHb]; cbn [seqs]; intros H i p Hi; try discriminate.
  - apply (grp_run v (EAtom a) H i p Hi).
  - apply (grp_run v (ENot a) H i p Hi).
  - apply andb_true_iff in H as [Ha Hb]. cbn [readings] in Hi. cbn [run rd].
    destruct (Nat.ltb_spec i (readings a)); [apply IHa; auto|apply IHb; auto; lia].
  - apply andb_true_iff in H as [Ha Hb]. cbn [readings] in Hi. pose proof (grp_readings _ Hb) as Hg.
    assert (Hi1 : (i / readings b < readings a)%nat) by (apply Nat.div_lt_upper_bound; lia).
    assert (Hi2 : (i mod readings b < readings b)%nat) by (apply Nat.mod_upper_bound; lia).
    cbn [rd]. destruct (rd a (i / readings b)) as [f r] eqn:Er.
    rewrite rseq_snoc, !run_then, readings_lit. cbn [Nat.div Nat.modulo Nat.divmod fst snd].
    rewrite (IHa Ha _ p Hi1), Er. apply then_run_ext. intros q. apply (grp_run v b Hb _ q Hi2).
Qed.

(* the conjunct of a sequence *)
Definition cj (fr : lit * list lit) : conj := match norm (rseq fr) with Some [c] => c | _ => [] end.

Lemma cj_lit l : cj (l, []) = chains [lit_chain l].
Proof. unfold cj, rseq, seq_expr. cbn [fst snd fold_left]. rewrite norm_lit. reflexivity. Qed.
Lemma norm_rseq fr : norm (rseq fr) = Some [cj fr].
Proof.
  destruct fr as [f r]. unfold cj.
  destruct (seq_both (mkVal (fun _ => mkStream (fun _ => 0) 0 0 0%N [] [] (fun _ => 1%N)) (fun _ _ => None) 0%N) f r) as (ds & M & Hn & _).
  unfold rseq. cbn [fst snd]. rewrite Hn. reflexivity.
Qed.
Lemma cj_snoc f r l : cj (f, r ++ [l]) = conj_then (cj (f, r)) (chains [lit_chain l]).
Proof.
  unfold cj at 1. rewrite rseq_snoc. cbn [norm]. rewrite norm_rseq, norm_lit. reflexivity.
Qed.

Lemma flat_map_grid {A B C} (F : A -> B -> C) (g : nat -> B) n : (0 < n)%nat -> forall m (f : nat -> A),
  flat_map (fun x => map (fun y => F x y) (map g (seqn n))) (map f (seqn m)) =
  map (fun k => F (f (k / n)%nat) (g (k mod n)%nat)) (seqn (m * n)).
Proof.
  intros Hn. induction m as [|m IH]; intros f0; [reflexivity|].
  rewrite seqn_S. cbn [map flat_map]. rewrite (map_map S f0 (seqn m)), (IH (fun i => f0 (S i))).
  change (S m * n)%nat with (n + m * n)%nat. rewrite seqn_app, map_app. f_equal.
  - rewrite map_map. apply map_ext_in. intros k Hk. apply in_seq in Hk.
    rewrite Nat.div_small, Nat.mod_small by lia. reflexivity.
  - rewrite map_map. apply map_ext. intros k.
    replace (n + k)%nat with (k + 1 * n)%nat by lia. rewrite Nat.div_add, Nat.mod_add by lia.
    replace (k / n + 1)%nat with (S (k / n)) by lia. reflexivity.
Qed.

Lemma seqs_norm e : seqs e = true -> norm e = Some (map (fun i => cj (rd e i)) (seqn (readings e))).
Proof.
  induction e as [a| |a IH|a IHa b IHb|a IHa b IHb|a IHa b IHb]; cbn [seqs]; intros H; try discriminate.
  - rewrite (grp_norm (EAtom a) H). f_equal. apply map_ext. intros i. cbn [rd]. rewrite cj_lit. reflexivity.
  - rewrite (grp_norm (ENot a) H). f_equal. apply map_ext. intros i. cbn [rd]. rewrite cj_lit. reflexivity.
  - apply andb_true_iff in H as [Ha Hb]. cbn [norm readings]. rewrite (IHa Ha), (IHb Hb). f_equal.
    unfold cs_or. rewrite seqn_app, map_app, map_map. f_equal.
    + apply map_ext_in. intros i Hi. apply in_seq in Hi. cbn [rd]. destruct (Nat.ltb_spec i (readings a)); [reflexivity|lia].
    + apply map_ext. intros k. cbn [rd]. destruct (Nat.ltb_spec (readings a + k) (readings a)); [lia|].
      replace (readings a + k - readings a)%nat with k by lia. reflexivity.
  - apply andb_true_iff in H as [Ha Hb]. cbn [norm readings]. rewrite (IHa Ha), (grp_norm b Hb).
    pose proof (seqs_readings a Ha) as Hra. pose proof (grp_readings b Hb) as Hrb.
    f_equal. unfold cs_then.
    destruct (map (fun i => cj (rd a i)) (seqn (readings a))) as [|x0 xs] eqn:Ex.
    { unfold seqn in Ex. destruct (readings a); [lia|discriminate]. }
    destruct (map (fun i => chains [lit_chain (glit b i)]) (seqn (readings b))) as [|y0 ys] eqn:Ey.
    { unfold seqn in Ey. destruct (readings b); [lia|discriminate]. }
    rewrite <- Ex, <- Ey.
    rewrite (flat_map_grid conj_then (fun i => chains [lit_chain (glit b i)]) (readings b) Hrb (readings a) (fun i => cj (rd a i))).
    apply map_ext. intros k. cbn [rd]. destruct (rd a (k / readings b)) as [f r]. rewrite cj_snoc. reflexivity.
Qed.

(* ------------------------------------------------------------------ the class of the theorem *)
Fixpoint tail_ok (e : expr) : bool :=
  match e with
  | EAtom _ | ESkip => true
  | ENot a => tail_ok a
  | EAnd a b | EOr a b => tail_ok a && tail_ok b
  | EThen a b => seqs a && tail_ok b
  end.

Lemma then_free_tail_ok e : then_free e = true -> tail_ok e = true.
Proof.
  induction e as [a| |a IH|a IHa b IHb|a IHa b IHb|a IHa b IHb]; cbn; intros H; auto; try discriminate;
    apply andb_true_iff in H as [Ha Hb]; rewrite IHa, IHb; auto.
Qed.

Lemma grp_strip g : grp g = true -> strip g = Some g.
Proof.
  induction g as [a| |a IH|a IHa b IHb|a IHa b IHb|a IHa b IHb]; cbn [grp]; intros H; try discriminate.
  - reflexivity.
  - destruct a as [[| | | | |sub [|el [|]]]| | | | |]; try discriminate. reflexivity.
  - apply andb_true_iff in H as [Ha Hb]. cbn [strip]. rewrite (IHa Ha), (IHb Hb). reflexivity.
Qed.
Lemma seqs_strip e : seqs e = true -> strip e = Some e.
Proof.
  induction e as [a| |a IH|a IHa b IHb|a IHa b IHb|a IHa b IHb]; cbn [seqs]; intros H; try discriminate.
  - reflexivity.
  - apply (grp_strip (ENot a) H).
  - apply andb_true_iff in H as [Ha Hb]. cbn [strip]. rewrite (IHa Ha), (IHb Hb). reflexivity.
  - apply andb_true_iff in H as [Ha Hb]. cbn [strip]. rewrite (IHa Ha), (grp_strip b Hb). reflexivity.
Qed.

(* one sequence: its conjunct and its run *)
Lemma cj_run v fr :
  exists ds M, cj fr = chains ds /\ seq_inv ds M /\
               run v (rseq fr) 0 (v_start v) = enc v M (eval_conj v (cj fr)) /\
               (eval_conj v (cj fr) = true -> pos_of v M <> None).
Proof.
  destruct fr as [f r]. destruct (seq_both v f r) as (ds & M & Hn & I & Hr & _ & Hp).
  assert (Hc : cj (f, r) = chains ds) by (unfold cj, rseq; cbn [fst snd]; rewrite Hn; reflexivity).
  exists ds, M. rewrite Hc, eval_chains. auto.
Qed.

Lemma is_some_enc v M ok : (ok = true -> pos_of v M <> None) -> is_some (enc v M ok) = ok.
Proof.
  intros H. unfold enc. destruct ok; [|reflexivity]. destruct M as [|m M']; [reflexivity|].
  destruct (pos_of v (m :: M')); [reflexivity|]. exfalso. apply H; reflexivity.
Qed.

Lemma cj_wf fr : conj_wf (cj fr).
Proof.
  destruct (cj_run (mkVal (fun _ => mkStream (fun _ => 0) 0 0 0%N [] [] (fun _ => 1%N)) (fun _ _ => None) 0%N) fr) as (ds & M & Hc & I & _).
  rewrite Hc. unfold chains, conj_wf. apply Forall_map. apply Forall_forall. intros d Hd. cbn. apply (si_ne _ _ I d Hd).
Qed.

Lemma existsb_map_seqn {A} (f : A -> bool) (g : nat -> A) n : existsb f (map g (seqn n)) = existsb (fun i => f (g i)) (seqn n).
Proof. apply existsb_map'. Qed.

(* OR groups of sequences: the whole set against holds *)
Lemma seqs_sound v e : seqs e = true ->
  eval_set v (map (fun i => cj (rd e i)) (seqn (readings e))) = holds v e (v_start v).
Proof.
  intros H. unfold eval_set, holds. rewrite existsb_map_seqn. apply existsb_ext_in. intros i Hi.
  apply in_seq in Hi. rewrite (seqs_run v e H i (v_start v)) by lia.
  destruct (cj_run v (rd e i)) as (ds & M & Hc & I & Hr & Hp). rewrite Hr, is_some_enc by exact Hp. reflexivity.
Qed.

Lemma is_some_then_run ra rb p :
  (forall E, ra = Some E -> (length E <= 1)%nat) ->
  is_some (then_run ra rb p) = match ra with
                               | None => false
                               | Some [] => is_some (rb p)
                               | Some (q :: _) => is_some (rb q)
                               end.
Proof.
  intros H. destruct ra as [[|q [|q2 r]]|]; try reflexivity.
  - cbn. destruct (rb q) as [[|y ys]|]; reflexivity.
  - specialize (H _ eq_refl). cbn in H. lia.
Qed.

Lemma enc_length v M ok E : enc v M ok = Some E -> (length E <= 1)%nat.
Proof.
  unfold enc. destruct ok; [|discriminate]. destruct M; [intros H; inversion H; cbn; lia|].
  destruct (pos_of v _); [intros H; inversion H; cbn; lia|discriminate].
Qed.

Lemma holds_then v a b p :
  holds v (EThen a b) p =
  existsb (fun i => existsb (fun j => is_some (then_run (run v a i p) (fun q => run v b j q) p)) (seq 0 (readings b))) (seq 0 (readings a)).
Proof.
  unfold holds, seqn. cbn [readings].
  rewrite <- (existsb_seq_prod2 (fun i j => is_some (then_run (run v a i p) (fun q => run v b j q) p))).
  apply existsb_ext_in. intros k _. reflexivity.
Qed.

(* THEN: sequences on the left, anything with a sound set on the right *)
Lemma then_sound v a b' yb : seqs a = true -> cset_wf yb -> yb <> [] ->
  (forall q, eval_set (at_pos v q) yb = holds v b' q) ->
  eval_set v (cs_then (map (fun i => cj (rd a i)) (seqn (readings a))) yb) = holds v (EThen a b') (v_start v).
Proof.
  intros Ha Wb Nb Hb. pose proof (seqs_readings a Ha) as Hra.
  unfold cs_then. destruct (map (fun i => cj (rd a i)) (seqn (readings a))) as [|x0 xs] eqn:Ex.
  { unfold seqn in Ex. destruct (readings a); [lia|discriminate]. }
  destruct yb as [|y0 ys] eqn:Ey; [congruence|]. rewrite <- Ex, <- Ey in *. clear Ex x0 xs.
  rewrite eval_set_flat_map, existsb_map_seqn.
  rewrite holds_then. unfold seqn.
  apply existsb_ext_in. intros i Hi. apply in_seq in Hi.
  destruct (cj_run v (rd a i)) as (ds & M & Hc & I & Hr & Hp).
  rewrite (seqs_run v a Ha i (v_start v)) by lia. rewrite Hr.
  (* the conjunct side *)
  transitivity (eval_conj v (cj (rd a i)) && match pos_of v M with Some q => eval_set (at_pos v q) yb | None => false end).
  { unfold eval_set at 1. rewrite existsb_map'. rewrite Hc.
    transitivity (existsb (fun c2 => eval_conj v (chains ds) && match pos_of v M with Some q => eval_conj (at_pos v q) c2 | None => false end) yb).
    - apply existsb_ext_in. intros c2 Hc2. apply conj_then_sem; auto. unfold cset_wf in Wb. rewrite Forall_forall in Wb. auto.
    - destruct (eval_conj v (chains ds)); cbn [andb].
      + destruct (pos_of v M); [reflexivity|]. clear. induction yb; cbn; auto.
      + clear. induction yb; cbn; auto. }
  (* the run side *)
  transitivity (existsb (fun j => match enc v M (eval_conj v (cj (rd a i))) with
                                  | None => false
                                  | Some [] => is_some (run v b' j (v_start v))
                                  | Some (q :: _) => is_some (run v b' j q)
                                  end) (seq 0 (readings b'))).
  2:{ apply existsb_ext_in. intros j _. symmetry. apply is_some_then_run. intros E HE. eapply enc_length; eauto. }
  unfold enc. destruct (eval_conj v (cj (rd a i))) eqn:E1; cbn [andb].
  - specialize (Hp eq_refl). destruct M as [|m M'].
    + unfold pos_of at 1. cbn [run_all]. rewrite Hb. reflexivity.
    + destruct (pos_of v (m :: M')) as [q|]; [|congruence]. rewrite Hb. reflexivity.
  - clear. induction (seq 0 (readings b')); cbn; auto.
Qed.

(* ------------------------------------------------------------------ the induction over the expression *)
Definition v0 : valuation := mkVal (fun _ => mkStream (fun _ => 0) 0 0 0%N [] [] (fun _ => 1%N)) (fun _ _ => None) 0%N.
Lemma v0_ok : val_ok v0.
Proof.
  intros sub. unfold stream_ok. cbn. split; [intros; lia|]. split; [lia|]. split; [reflexivity|].
  intros n. left. reflexivity.
Qed.

Theorem norm_sound_then e :
  tail_ok e = true -> expr_wf e ->
  match norm e with
  | Some cs => cs <> [] /\ cset_wf cs /\
               exists e', strip e = Some e' /\
                          forall v, val_ok v -> eval_set v cs = holds v e' (v_start v)
  | None => strip e = None
  end.
Proof.
  induction e as [a| |a IH|a IHa b IHb|a IHa b IHb|a IHa b IHb]; intros Hf Hw; cbn [tail_ok expr_wf norm strip] in *.
  - split; [|split].
    + apply (conds_of_atom_sound v0 v0_ok a Hw).
    + apply (conds_of_atom_sound v0 v0_ok a Hw).
    + exists (EAtom a). split; [reflexivity|]. intros v ok. rewrite holds_atom. apply (conds_of_atom_sound v ok a Hw).
  - reflexivity.
  - specialize (IH Hf Hw). destruct (norm a) as [cs|].
    + destruct IH as (N & W & e' & Es & Ee). rewrite Es.
      split; [|split].
      * apply (cs_invert_sound v0 v0_ok cs N W).
      * apply (cs_invert_sound v0 v0_ok cs N W).
      * exists (ENot e'). split; [reflexivity|]. intros v ok. rewrite holds_not, <- (Ee v ok).
        apply (cs_invert_sound v ok cs N W).
    + rewrite IH. reflexivity.
  - apply andb_true_iff in Hf as [Hfa Hfb]. destruct Hw as [Hwa Hwb].
    specialize (IHa Hfa Hwa). specialize (IHb Hfb Hwb).
    destruct (norm a) as [x|], (norm b) as [y|].
    + destruct IHa as (Na & Wa & ea & Esa & Eea). destruct IHb as (Nb & Wb & eb & Esb & Eeb). rewrite Esa, Esb.
      destruct (cs_and_sound v0 v0_ok x y Na Nb Wa Wb) as (_ & W & N). split; [exact N|]. split; [exact W|].
      exists (EAnd ea eb). split; [reflexivity|]. intros v ok. rewrite holds_and, <- (Eea v ok), <- (Eeb v ok).
      apply (cs_and_sound v ok x y Na Nb Wa Wb).
    + destruct IHa as (Na & Wa & ea & Esa & Eea). rewrite Esa, IHb. split; [exact Na|]. split; [exact Wa|]. exists ea. auto.
    + destruct IHb as (Nb & Wb & eb & Esb & Eeb). rewrite IHa, Esb. split; [exact Nb|]. split; [exact Wb|]. exists eb. auto.
    + rewrite IHa, IHb. reflexivity.
  - apply andb_true_iff in Hf as [Hfa Hfb]. destruct Hw as [Hwa Hwb].
    specialize (IHa Hfa Hwa). specialize (IHb Hfb Hwb).
    destruct (norm a) as [x|], (norm b) as [y|].
    + destruct IHa as (Na & Wa & ea & Esa & Eea). destruct IHb as (Nb & Wb & eb & Esb & Eeb). rewrite Esa, Esb.
      split; [unfold cs_or; destruct x; [congruence|discriminate]|]. split; [apply cset_wf_app; auto|].
      exists (EOr ea eb). split; [reflexivity|]. intros v ok. rewrite holds_or, cs_or_sound, (Eea v ok), (Eeb v ok). reflexivity.
    + destruct IHa as (Na & Wa & ea & Esa & Eea). rewrite Esa, IHb. split; [exact Na|]. split; [exact Wa|]. exists ea. auto.
    + destruct IHb as (Nb & Wb & eb & Esb & Eeb). rewrite IHa, Esb. split; [exact Nb|]. split; [exact Wb|]. exists eb. auto.
    + rewrite IHa, IHb. reflexivity.
  - (* THEN *)
    apply andb_true_iff in Hf as [Hfa Hfb]. destruct Hw as [Hwa Hwb]. specialize (IHb Hfb Hwb). clear IHa.
    rewrite (seqs_norm a Hfa), (seqs_strip a Hfa).
    pose proof (seqs_readings a Hfa) as Hra.
    assert (Nx : map (fun i => cj (rd a i)) (seqn (readings a)) <> []).
    { unfold seqn. destruct (readings a); [lia|discriminate]. }
    assert (Wx : cset_wf (map (fun i => cj (rd a i)) (seqn (readings a)))).
    { apply Forall_map. apply Forall_forall. intros i _. apply cj_wf. }
    destruct (norm b) as [y|].
    + destruct IHb as (Nb & Wb & eb & Esb & Eeb). rewrite Esb. split; [|split].
      * unfold cs_then. destruct (map _ (seqn (readings a))) as [|x0 xs]; [congruence|]. destruct y; [congruence|]. discriminate.
      * unfold cs_then. destruct (map (fun i => cj (rd a i)) (seqn (readings a))) as [|x0 xs] eqn:Ex; [congruence|].
        destruct y as [|y0 ys] eqn:Ey; [congruence|]. rewrite <- Ex, <- Ey in *.
        unfold cset_wf in *. rewrite Forall_forall in *. intros c Hc.
        apply in_flat_map in Hc as (c1 & H1 & Hc). apply in_map_iff in Hc as (c2 & <- & H2).
        apply conj_then_wf; auto.
      * exists (EThen a eb). split; [reflexivity|]. intros v ok.
        apply then_sound; auto. intros q. rewrite (Eeb (at_pos v q) (val_ok_at v q ok)). apply holds_at.
    + rewrite IHb. split; [exact Nx|]. split; [exact Wx|]. exists a. split; [reflexivity|].
      intros v ok. apply seqs_sound. exact Hfa.
Qed.

Theorem normalisation_preserves_meaning_then v e :
  val_ok v -> ids_ok v -> tail_ok e = true -> expr_wf e ->
  eval_set v (parse_conditions e) = sem v e.
Proof.
  intros ok iok Hf Hw. pose proof (norm_sound_then e Hf Hw) as H.
  destruct (norm e) as [cs|] eqn:En.
  - destruct H as (N & W & e' & Es & Ee). rewrite (parse_final_sound v e cs ok iok En N W).
    unfold sem. rewrite Es. apply Ee. exact ok.
  - unfold parse_conditions, sem. rewrite En, H. reflexivity.
Qed.

Theorem impossible_only_if_unsatisfiable_then e :
  tail_ok e = true -> expr_wf e -> parse_conditions e = [] ->
  forall v, val_ok v -> ids_ok v -> sem v e = false.
Proof.
  intros Hf Hw Hp v ok iok. rewrite <- (normalisation_preserves_meaning_then v e ok iok Hf Hw), Hp. reflexivity.
Qed.

(* the class lies inside the judged fragment *)
Lemma grp_simple_nots g : grp g = true -> wf_seq false g = true /\ multi_end g = false.
Proof.
  induction g as [a| |a IH|a IHa b IHb|a IHa b IHb|a IHa b IHb]; cbn [grp]; intros H; try discriminate.
  - split; reflexivity.
  - destruct a as [[| | | | |sub [|el [|]]]| | | | |]; try discriminate. split; reflexivity.
  - apply andb_true_iff in H as [Ha Hb]. destruct (IHa Ha) as [A1 A2]. destruct (IHb Hb) as [B1 B2].
    cbn. rewrite A1, A2, B1, B2. split; reflexivity.
Qed.
Lemma seqs_wf_seq a : seqs a = true -> wf_seq false a = true /\ multi_end a = false.
Proof.
  induction a as [x| |x IH|x IHx y IHy|x IHx y IHy|x IHx y IHy]; cbn [seqs]; intros H; try discriminate.
  - apply (grp_simple_nots (EAtom x) H).
  - apply (grp_simple_nots (ENot x) H).
  - apply andb_true_iff in H as [Ha Hb]. destruct (IHx Ha) as [A1 A2]. destruct (IHy Hb) as [B1 B2].
    cbn. rewrite A1, A2, B1, B2. split; reflexivity.
  - apply andb_true_iff in H as [Ha Hb]. destruct (IHx Ha) as [A1 A2]. destruct (grp_simple_nots y Hb) as [B1 B2].
    cbn. rewrite A1, A2, B1, B2. split; reflexivity.
Qed.
Theorem tail_ok_judged e : tail_ok e = true -> wf_seq true e = true.
Proof.
  induction e as [x| |x IH|x IHx y IHy|x IHx y IHy|x IHx y IHy]; cbn [tail_ok]; intros H; try reflexivity.
  - cbn. rewrite (IH H). reflexivity.
  - apply andb_true_iff in H as [Ha Hb]. cbn. rewrite (IHx Ha), (IHy Hb). reflexivity.
  - apply andb_true_iff in H as [Ha Hb]. cbn. rewrite (IHx Ha), (IHy Hb). reflexivity.
  - apply andb_true_iff in H as [Ha Hb]. destruct (seqs_wf_seq x Ha) as [A1 A2]. cbn. rewrite A1, A2, (IHy Hb). reflexivity.
Qed.
