(* C01, theorem 4: the byte image. decode_file (encode_file f) = Some f for every file whose
   record fields fit their widths.  Bottom-up: list access, LE codec, records, record lists,
   section layout, header. *)
From Coq Require Import Lia ZifyBool ZifyN ZifyNat Arith.
From Pk Require Import IndexFormat.     (* after Arith: le_dec below is the little-endian decoder *)
Open Scope N_scope.

(* ------------------------------------------------------------------ *)
(* list access by N                                                    *)
(* ------------------------------------------------------------------ *)
Lemma lenN_app {A} (a b : list A) : lenN (a ++ b) = lenN a + lenN b.
Proof. unfold lenN. rewrite app_length. lia. Qed.
Lemma lenN_nil {A} : lenN (@nil A) = 0.
Proof. reflexivity. Qed.
Lemma lenN_cons {A} (x : A) l : lenN (x :: l) = 1 + lenN l.
Proof. unfold lenN. simpl length. lia. Qed.

Lemma skipN_skipn {A} (l : list A) : forall n, skipN n l = skipn (N.to_nat n) l.
Proof.
  induction l as [|x r IH]; intros n; simpl.
  - now rewrite skipn_nil.
  - destruct (N.eqb_spec n 0) as [->|Hn]; [reflexivity|].
    rewrite IH. replace (N.to_nat n) with (S (N.to_nat (N.pred n))) by lia. reflexivity.
Qed.
Lemma takeN_firstn {A} (l : list A) : forall n, takeN n l = firstn (N.to_nat n) l.
Proof.
  induction l as [|x r IH]; intros n; simpl.
  - now rewrite firstn_nil.
  - destruct (N.eqb_spec n 0) as [->|Hn]; [reflexivity|].
    rewrite IH. replace (N.to_nat n) with (S (N.to_nat (N.pred n))) by lia. reflexivity.
Qed.
Lemma nthN_nth_error {A} (l : list A) : forall n, nthN l n = nth_error l (N.to_nat n).
Proof.
  induction l as [|x r IH]; intros n; simpl.
  - now destruct (N.to_nat n).
  - destruct (N.eqb_spec n 0) as [->|Hn]; [reflexivity|].
    rewrite IH. replace (N.to_nat n) with (S (N.to_nat (N.pred n))) by lia. reflexivity.
Qed.

Lemma skipN_app {A} (a b : list A) : skipN (lenN a) (a ++ b) = b.
Proof. rewrite skipN_skipn. unfold lenN. rewrite Nat2N.id. now rewrite skipn_app, skipn_all, Nat.sub_diag. Qed.
Lemma takeN_app {A} (a b : list A) : takeN (lenN a) (a ++ b) = a.
Proof. rewrite takeN_firstn. unfold lenN. rewrite Nat2N.id. now rewrite firstn_app, firstn_all, Nat.sub_diag, app_nil_r. Qed.
Lemma skipN_0 {A} (l : list A) : skipN 0 l = l.
Proof. now destruct l. Qed.
Lemma skipN_app_ge {A} (a b : list A) n : lenN a <= n -> skipN n (a ++ b) = skipN (n - lenN a) b.
Proof.
  intros H. rewrite !skipN_skipn, skipn_app. unfold lenN in *.
  rewrite (skipn_all2 a) by lia. simpl. f_equal. lia.
Qed.
Lemma sliceN_app3 {A} (a b c : list A) : sliceN (lenN a) (lenN a + lenN b) (a ++ b ++ c) = b.
Proof. unfold sliceN. rewrite skipN_app. replace (lenN a + lenN b - lenN a) with (lenN b) by lia. apply takeN_app. Qed.

(* ------------------------------------------------------------------ *)
(* little endian                                                       *)
(* ------------------------------------------------------------------ *)
Lemma lo8_mod v : lo8 v = v mod 256.
Proof. unfold lo8. change 255 with (N.ones 8). now rewrite N.land_ones. Qed.
Lemma hi8_div v : hi8 v = v / 256.
Proof. unfold hi8. now rewrite N.shiftr_div_pow2. Qed.

Lemma le_enc_length n : forall v, length (le_enc n v) = n.
Proof. induction n; intros; simpl; auto. Qed.

Lemma le_dec_enc n : forall v, v < 256 ^ N.of_nat n -> le_dec (le_enc n v) = v.
Proof.
  induction n as [|n IH]; intros v Hv.
  - simpl in *. lia.
  - cbn [le_enc le_dec]. rewrite lo8_mod, hi8_div.
    rewrite IH.
    + pose proof (N.div_mod v 256). lia.
    + rewrite Nat2N.inj_succ, N.pow_succ_r' in Hv. apply N.div_lt_upper_bound; lia.
Qed.

Lemma firstn_len_app {A} (a b : list A) n : length a = n -> firstn n (a ++ b) = a.
Proof. intros <-. now rewrite firstn_app, Nat.sub_diag, firstn_O, app_nil_r, firstn_all. Qed.
Lemma skipn_len_app {A} (a b : list A) n : length a = n -> skipn n (a ++ b) = b.
Proof. intros <-. now rewrite skipn_app, Nat.sub_diag, skipn_all, skipn_O. Qed.

(* field reader on an encoded field followed by anything *)
Lemma fld_enc n v rest : v < 256 ^ N.of_nat n -> fld n (le_enc n v ++ rest) = (v, rest).
Proof.
  intros H. unfold fld.
  rewrite (firstn_len_app _ _ _ (le_enc_length n v)), (skipn_len_app _ _ _ (le_enc_length n v)).
  now rewrite le_dec_enc.
Qed.

(* ------------------------------------------------------------------ *)
(* records                                                             *)
(* ------------------------------------------------------------------ *)
Definition fits_packet (p : packet_rec) : Prop :=
  pk_rel p < P32 /\ pk_imp p < P32 /\ pk_idx p < P32 /\ pk_size p < P16 /\ pk_skip p < P8 /\ pk_flags p < P8.
Definition fits_stream (s : stream_rec) : Prop :=
  st_id s < P64 /\ st_first s < P64 /\ st_last s < P64 /\ st_datastart s < P64 /\ st_cbytes s < P64 /\ st_sbytes s < P64 /\
  st_pktstart s < P32 /\ st_flags s < P16 /\ st_hg s < P16 /\ st_chost s < P16 /\ st_shost s < P16 /\ st_cport s < P16 /\ st_sport s < P16.
Definition fits_group (g : hg_entry) : Prop := he_start g < P32 /\ he_count g < P16 /\ he_flags g < P16.
Definition fits_import (e : imp_entry) : Prop := ie_name e < P64 /\ ie_off e < P64.

Ltac pow_simpl :=
  change (256 ^ N.of_nat 8) with P64 in *; change (256 ^ N.of_nat 4) with P32 in *;
  change (256 ^ N.of_nat 2) with P16 in *; change (256 ^ N.of_nat 1) with P8 in *.

Lemma dec_enc_packet p rest : fits_packet p -> dec_packet (enc_packet p ++ rest) = p.
Proof.
  intros (H1 & H2 & H3 & H4 & H5 & H6). destruct p as [a1 a2 a3 a4 a5 a6]; unfold pk_rel, pk_imp, pk_idx, pk_size, pk_skip, pk_flags in *.
  unfold dec_packet, enc_packet; unfold pk_rel, pk_imp, pk_idx, pk_size, pk_skip, pk_flags.
  rewrite <- !app_assoc.
  repeat (rewrite fld_enc by (pow_simpl; assumption)). reflexivity.
Qed.
Lemma enc_packet_length p : length (enc_packet p) = 16%nat.
Proof. unfold enc_packet. now rewrite !app_length, !le_enc_length. Qed.

Lemma dec_enc_stream s rest : fits_stream s -> dec_stream (enc_stream s ++ rest) = s.
Proof.
  intros (H1 & H2 & H3 & H4 & H5 & H6 & H7 & H8 & H9 & H10 & H11 & H12 & H13). destruct s as [a1 a2 a3 a4 a5 a6 a7 a8 a9 a10 a11 a12 a13]; unfold st_id, st_first, st_last, st_datastart, st_cbytes, st_sbytes, st_pktstart, st_flags, st_hg, st_chost, st_shost, st_cport, st_sport in *.
  unfold dec_stream, enc_stream; unfold st_id, st_first, st_last, st_datastart, st_cbytes, st_sbytes, st_pktstart, st_flags, st_hg, st_chost, st_shost, st_cport, st_sport.
  rewrite <- !app_assoc.
  repeat (rewrite fld_enc by (pow_simpl; assumption)). reflexivity.
Qed.
Lemma enc_stream_length s : length (enc_stream s) = 64%nat.
Proof. unfold enc_stream. now rewrite !app_length, !le_enc_length. Qed.

Lemma dec_enc_group g rest : fits_group g -> dec_group (enc_group g ++ rest) = g.
Proof.
  intros (H1 & H2 & H3). destruct g as [a1 a2 a3]; unfold he_start, he_count, he_flags in *. unfold dec_group, enc_group; unfold he_start, he_count, he_flags.
  rewrite <- !app_assoc. repeat (rewrite fld_enc by (pow_simpl; assumption)). reflexivity.
Qed.
Lemma enc_group_length g : length (enc_group g) = 8%nat.
Proof. unfold enc_group. now rewrite !app_length, !le_enc_length. Qed.

Lemma dec_enc_import e rest : fits_import e -> dec_import (enc_import e ++ rest) = e.
Proof.
  intros (H1 & H2). destruct e as [a1 a2]; unfold ie_name, ie_off in *. unfold dec_import, enc_import; unfold ie_name, ie_off.
  rewrite <- !app_assoc. repeat (rewrite fld_enc by (pow_simpl; assumption)). reflexivity.
Qed.
Lemma enc_import_length e : length (enc_import e) = 16%nat.
Proof. unfold enc_import. now rewrite !app_length, !le_enc_length. Qed.

Lemma dec_enc_u32 x rest : x < P32 -> dec_u32 (enc_u32 x ++ rest) = x.
Proof.
  intros H. unfold dec_u32, enc_u32. rewrite (firstn_len_app _ _ _ (le_enc_length 4 x)).
  apply le_dec_enc. pow_simpl. assumption.
Qed.
Lemma enc_u32_length x : length (enc_u32 x) = 4%nat.
Proof. apply le_enc_length. Qed.

(* ------------------------------------------------------------------ *)
(* record lists                                                        *)
(* ------------------------------------------------------------------ *)
Lemma enc_list_length {A} (enc : A -> bytes) (size : nat) (Hsize : forall x, length (enc x) = size) l :
  length (enc_list enc l) = (size * length l)%nat.
Proof. unfold enc_list. induction l; cbn [map concat length]; [lia|]. rewrite app_length, Hsize, IHl. lia. Qed.

Section RecList.
  Context {A : Type} (enc : A -> bytes) (dec : bytes -> A) (size : nat) (fits : A -> Prop).
  Hypothesis Hsize : forall x, length (enc x) = size.
  Hypothesis Hpos : (0 < size)%nat.
  Hypothesis Hdec : forall x rest, fits x -> dec (enc x ++ rest) = x.

  Lemma dec_list_aux_enc l rest : Forall fits l -> dec_list_aux (length l) size dec (enc_list enc l ++ rest) = l.
  Proof.
    induction l as [|x r IH]; intros HF; [reflexivity|].
    inversion HF; subst. unfold enc_list in *. cbn [map concat]. rewrite <- app_assoc.
    cbn [length dec_list_aux]. rewrite (firstn_len_app _ _ _ (Hsize x)), (skipn_len_app _ _ _ (Hsize x)).
    f_equal.
    - rewrite <- (app_nil_r (enc x)). now apply Hdec.
    - now apply IH.
  Qed.

  Lemma dec_enc_list l : Forall fits l -> dec_list size dec (enc_list enc l) = l.
  Proof.
    intros HF. unfold dec_list. rewrite (enc_list_length enc size Hsize).
    replace (Nat.div (size * length l) size) with (length l).
    - rewrite <- (app_nil_r (enc_list enc l)). now apply dec_list_aux_enc.
    - rewrite Nat.mul_comm. symmetry. apply Nat.div_mul. lia.
  Qed.
End RecList.

(* ------------------------------------------------------------------ *)
(* section layout                                                      *)
(* ------------------------------------------------------------------ *)
Definition pad8 (e : N) : N := (8 - e mod 8) mod 8.
Lemma layout_cons pos s r :
  layout pos (s :: r) = ((pos, pos + lenN s) :: fst (layout (pos + lenN s + pad8 (pos + lenN s)) r),
                         s ++ repeat 0 (N.to_nat (pad8 (pos + lenN s))) ++ snd (layout (pos + lenN s + pad8 (pos + lenN s)) r)).
Proof. cbn [layout]. fold (pad8 (pos + lenN s)). now destruct (layout _ r). Qed.
Lemma lenN_repeat {A} (x : A) n : lenN (repeat x n) = N.of_nat n.
Proof. unfold lenN. now rewrite repeat_length. Qed.
Lemma layout_nil pos : layout pos [] = ([], []).
Proof. reflexivity. Qed.

Lemma layout_length secs : forall pos, length (fst (layout pos secs)) = length secs.
Proof.
  induction secs as [|s r IH]; intros pos; [reflexivity|].
  rewrite layout_cons. cbn [fst length]. now rewrite IH.
Qed.

(* every section is found again at its (Begin, End) in any image that carries the body at offset pos *)
Lemma layout_slice secs : forall pos pre post k b e,
    lenN pre = pos ->
    nth_error (fst (layout pos secs)) k = Some (b, e) ->
    exists s, nth_error secs k = Some s /\ sliceN b e (pre ++ snd (layout pos secs) ++ post) = s.
Proof.
  induction secs as [|s r IH]; intros pos pre post k b e Hpre Hk.
  - rewrite layout_nil in Hk. destruct k; discriminate.
  - rewrite layout_cons in *. cbn [fst snd] in *.
    destruct k as [|k]; cbn [nth_error] in *.
    + inversion Hk; subst b e. exists s. split; [reflexivity|].
      rewrite <- app_assoc. rewrite <- Hpre. apply sliceN_app3.
    + set (pad := repeat 0 (N.to_nat (pad8 (pos + lenN s)))) in *.
      destruct (IH (pos + lenN s + pad8 (pos + lenN s)) (pre ++ s ++ pad) post k b e) as (s' & Hs' & Hsl); [|assumption|].
      * rewrite !lenN_app, Hpre. unfold pad. rewrite lenN_repeat. lia.
      * exists s'. split; [assumption|]. rewrite <- Hsl. f_equal. now rewrite <- !app_assoc.
Qed.

Lemma layout_bounds secs : forall pos k b e,
    nth_error (fst (layout pos secs)) k = Some (b, e) -> pos <= b /\ b <= e /\ e <= pos + lenN (snd (layout pos secs)).
Proof.
  induction secs as [|s r IH]; intros pos k b e Hk.
  - rewrite layout_nil in Hk. destruct k; discriminate.
  - rewrite layout_cons in *. cbn [fst snd] in *.
    destruct k as [|k]; cbn [nth_error] in Hk.
    + inversion Hk; subst. rewrite lenN_app. lia.
    + specialize (IH _ k b e Hk).
      rewrite !lenN_app, lenN_repeat. lia.
Qed.

(* ------------------------------------------------------------------ *)
(* the file                                                            *)
(* ------------------------------------------------------------------ *)
Definition fits_file (f : file) : Prop :=
  f_ref f < P64 /\
  Forall fits_packet (f_packets f) /\ Forall fits_stream (f_streams f) /\ Forall fits_group (f_groups f) /\
  Forall fits_import (f_imports f) /\
  Forall (fun x => x < P32) (f_by_id f) /\ Forall (fun x => x < P32) (f_by_src f) /\
  Forall (fun x => x < P32) (f_by_ftime f) /\ Forall (fun x => x < P32) (f_by_ltime f) /\
  (* every section offset fits the 8-byte header fields *)
  lenN (encode_file f) < P64.

Lemma dec_enc_sec be rest : fst be < P64 /\ snd be < P64 -> dec_sec (enc_sec be ++ rest) = be.
Proof.
  intros [H1 H2]. destruct be as [b e]. unfold dec_sec, enc_sec. simpl fst in *; simpl snd in *.
  rewrite <- !app_assoc. repeat (rewrite fld_enc by (pow_simpl; assumption)). reflexivity.
Qed.
Lemma enc_sec_length be : length (enc_sec be) = 16%nat.
Proof. unfold enc_sec. now rewrite !app_length, !le_enc_length. Qed.

Lemma nth_map_some {A B} (g : A -> B) l : forall i k d, nth_error l i = Some k -> nth i (map g l) d = g k.
Proof.
  induction l as [|x r IH]; intros [|i] k d H; cbn [nth_error map nth] in *; try discriminate.
  - now inversion H.
  - now apply IH.
Qed.

Lemma bytes_eqb_refl a : bytes_eqb a a = true.
Proof. induction a; simpl; auto. now rewrite N.eqb_refl. Qed.

Section File.
  Variable f : file.
  Hypothesis Hfit : fits_file f.

  Let offs := fst (layout header_size (write_order f)).
  Let body := snd (layout header_size (write_order f)).
  Let hsecs := map (fun k => nth k offs (0, 0)) header_perm.
  Let header := magic ++ le_enc 8 (f_ref f) ++ enc_list enc_sec hsecs.

  Lemma encode_file_eq : encode_file f = header ++ body.
  Proof.
    unfold encode_file, header, hsecs, offs, body. destruct (layout header_size (write_order f)). cbn [fst snd].
    now rewrite <- !app_assoc.
  Qed.

  Lemma header_len : lenN header = header_size.
  Proof.
    unfold header, lenN. rewrite !app_length, le_enc_length.
    rewrite (enc_list_length enc_sec 16%nat enc_sec_length). unfold hsecs. rewrite map_length. reflexivity.
  Qed.

  Lemma offs_len : length offs = 12%nat.
  Proof. unfold offs. now rewrite layout_length. Qed.

  Lemma hsecs_fit : Forall (fun be => fst be < P64 /\ snd be < P64) hsecs.
  Proof.
    destruct Hfit as (_ & _ & _ & _ & _ & _ & _ & _ & _ & Hlen).
    rewrite encode_file_eq, lenN_app, header_len in Hlen.
    unfold hsecs. apply Forall_map. apply Forall_forall. intros k Hk.
    destruct (nth_error offs k) as [[b e]|] eqn:En.
    - rewrite (nth_error_nth _ _ _ En). cbn [fst snd].
      pose proof (layout_bounds (write_order f) header_size k b e En). fold body in H. lia.
    - rewrite nth_overflow by (now apply nth_error_None). cbn [fst snd]. unfold P64. lia.
  Qed.

  Lemma header_sections_encode : header_sections (encode_file f) = hsecs.
  Proof.
    unfold header_sections. rewrite encode_file_eq. unfold header. rewrite <- !app_assoc.
    rewrite (app_assoc magic).
    rewrite (skipn_len_app (magic ++ le_enc 8 (f_ref f)) _ 24) by (rewrite app_length, le_enc_length; reflexivity).
    change 12%nat with (length hsecs).
    apply (dec_list_aux_enc enc_sec dec_sec 16%nat (fun be => fst be < P64 /\ snd be < P64) enc_sec_length dec_enc_sec).
    apply hsecs_fit.
  Qed.

  Lemma section_bytes_encode i k : nth_error header_perm i = Some k ->
    section_bytes (encode_file f) i = nth k (write_order f) [].
  Proof.
    intros Hi. unfold section_bytes. rewrite header_sections_encode.
    assert (Hk : (k < 12)%nat).
    { apply nth_error_In in Hi. simpl in Hi. intuition lia. }
    unfold hsecs. rewrite (nth_map_some _ _ _ _ _ Hi).
    destruct (nth_error offs k) as [[b e]|] eqn:En.
    2: { apply nth_error_None in En. rewrite offs_len in En. lia. }
    rewrite (nth_error_nth _ _ _ En).
    destruct (layout_slice (write_order f) header_size header [] k b e header_len En) as (s & Hs & Hsl).
    rewrite app_nil_r in Hsl. fold body in Hsl. rewrite encode_file_eq, Hsl. symmetry. now apply nth_error_nth.
  Qed.

  (* Theorem 4 *)
  Theorem decode_encode_file : decode_file (encode_file f) = Some f.
  Proof.
    unfold decode_file.
    assert (Hm : firstn 16 (encode_file f) = magic).
    { rewrite encode_file_eq. unfold header. rewrite <- !app_assoc. now rewrite (firstn_len_app magic _ 16 eq_refl). }
    rewrite Hm, bytes_eqb_refl. cbn [negb].
    destruct Hfit as (Href & Hp & Hs & Hg & Hi & H1 & H2 & H3 & H4 & Hlen).
    rewrite (section_bytes_encode 0 0), (section_bytes_encode 1 3), (section_bytes_encode 2 5), (section_bytes_encode 3 4),
      (section_bytes_encode 4 6), (section_bytes_encode 5 2), (section_bytes_encode 6 1), (section_bytes_encode 7 7),
      (section_bytes_encode 8 8), (section_bytes_encode 9 9), (section_bytes_encode 10 10), (section_bytes_encode 11 11) by reflexivity.
    cbn [write_order nth].
    rewrite (dec_enc_list enc_packet dec_packet 16%nat fits_packet enc_packet_length ltac:(lia) dec_enc_packet _ Hp).
    rewrite (dec_enc_list enc_group dec_group 8%nat fits_group enc_group_length ltac:(lia) dec_enc_group _ Hg).
    rewrite (dec_enc_list enc_import dec_import 16%nat fits_import enc_import_length ltac:(lia) dec_enc_import _ Hi).
    rewrite (dec_enc_list enc_stream dec_stream 64%nat fits_stream enc_stream_length ltac:(lia) dec_enc_stream _ Hs).
    rewrite (dec_enc_list enc_u32 dec_u32 4%nat (fun x => x < P32) enc_u32_length ltac:(lia) dec_enc_u32 _ H1).
    rewrite (dec_enc_list enc_u32 dec_u32 4%nat (fun x => x < P32) enc_u32_length ltac:(lia) dec_enc_u32 _ H2).
    rewrite (dec_enc_list enc_u32 dec_u32 4%nat (fun x => x < P32) enc_u32_length ltac:(lia) dec_enc_u32 _ H3).
    rewrite (dec_enc_list enc_u32 dec_u32 4%nat (fun x => x < P32) enc_u32_length ltac:(lia) dec_enc_u32 _ H4).
    assert (Hr : le_dec (firstn 8 (skipn 16 (encode_file f))) = f_ref f).
    { rewrite encode_file_eq. unfold header. rewrite <- !app_assoc.
      rewrite (skipn_len_app magic _ 16 eq_refl), (firstn_len_app _ _ 8 (le_enc_length 8 (f_ref f))).
      apply le_dec_enc. pow_simpl. assumption. }
    rewrite Hr. destruct f; reflexivity.
  Qed.
End File.
