(* Proofs about the packet ordering of FromPcap (model: BuilderOrder.v) -- C05 theorem (1):
   the lazy multi-capture loop hands the reassemblers exactly the sorted list of all needed
   packets, each once. *)
From Pk Require Import BuilderOrder.
From Coq Require Import Sorting.Sorted Sorting.Permutation Lia Morphisms RelationClasses.
From Coq Require Import ZifyBool ZifyN ZifyNat.

Definition kle (a b : packet) : Prop := key_leb a b = true.
Definition klt (a b : packet) : Prop := key_ltb a b = true.

Lemma key_ltb_spec a b :
  key_ltb a b = true <->
  (p_ts a < p_ts b \/ (p_ts a = p_ts b /\ (p_file a < p_file b \/ (p_file a = p_file b /\ p_idx a < p_idx b)))).
Proof.
  unfold key_ltb.
  destruct (N.eqb_spec (p_ts a) (p_ts b)); simpl.
  - destruct (N.eqb_spec (p_file a) (p_file b)); simpl; rewrite N.ltb_lt; lia.
  - rewrite N.ltb_lt; lia.
Qed.

Lemma key_ltb_false a b :
  key_ltb a b = false <->
  ~ (p_ts a < p_ts b \/ (p_ts a = p_ts b /\ (p_file a < p_file b \/ (p_file a = p_file b /\ p_idx a < p_idx b)))).
Proof. rewrite <- key_ltb_spec. destruct (key_ltb a b); split; congruence. Qed.

Lemma kle_spec a b :
  kle a b <-> ~ (p_ts b < p_ts a \/ (p_ts b = p_ts a /\ (p_file b < p_file a \/ (p_file b = p_file a /\ p_idx b < p_idx a)))).
Proof. unfold kle, key_leb. rewrite Bool.negb_true_iff. apply key_ltb_false. Qed.

Lemma kle_trans a b c : kle a b -> kle b c -> kle a c.
Proof. rewrite !kle_spec. lia. Qed.

Lemma kle_refl a : kle a a.
Proof. rewrite kle_spec. lia. Qed.

Lemma klt_kle a b : klt a b -> kle a b.
Proof. unfold klt. rewrite key_ltb_spec, kle_spec. lia. Qed.

Lemma nklt_kle a b : key_ltb a b = false -> kle b a.
Proof. unfold kle, key_leb. intros ->. reflexivity. Qed.

Lemma ts_lt_kle a b : p_ts a < p_ts b -> kle a b.
Proof. rewrite kle_spec. lia. Qed.

(* equal keys: same timestamp, capture file and index *)
Lemma kle_antisym a b : kle a b -> kle b a -> p_ts a = p_ts b /\ p_file a = p_file b /\ p_idx a = p_idx b.
Proof. rewrite !kle_spec. lia. Qed.

Global Instance kle_Transitive : Transitive (fun x y => is_true (PktOrder.leb x y)).
Proof. intros a b c. apply kle_trans. Qed.

Definition ssorted (l : list packet) : Prop := StronglySorted kle l.

Lemma sort_packets_sorted l : ssorted (sort_packets l).
Proof. apply PktSort.StronglySorted_sort. exact kle_Transitive. Qed.

Lemma sort_packets_perm l : Permutation l (sort_packets l).
Proof. apply PktSort.Permuted_sort. Qed.

Lemma ssorted_app l1 l2 :
  ssorted l1 -> ssorted l2 -> (forall x y, In x l1 -> In y l2 -> kle x y) -> ssorted (l1 ++ l2).
Proof.
  induction l1 as [|a l1 IH]; simpl; intros H1 H2 H; auto.
  inversion H1; subst. constructor.
  - apply IH; auto.
  - apply Forall_app; split; auto. apply Forall_forall; intros y Hy. apply H; auto.
Qed.

Lemma ssorted_tail a l : ssorted (a :: l) -> ssorted l.
Proof. inversion 1; auto. Qed.

Lemma ssorted_head a l : ssorted (a :: l) -> Forall (kle a) l.
Proof. inversion 1; auto. Qed.

(* ------------------------------------------------------------------ drain *)
Lemma below_lt l p : below (Some l) p = true -> p_ts p < l.
Proof. simpl. apply N.ltb_lt. Qed.

Definition drain_post (limit : option N) (old new e o' n' : list packet) : Prop :=
  Permutation (e ++ o' ++ n') (old ++ new) /\
  ssorted e /\ ssorted o' /\ ssorted n' /\
  (forall x y, In x e -> In y (o' ++ n') -> kle x y) /\
  Forall (fun p => below limit p = true) e /\
  (limit = None -> o' = [] /\ n' = []).

Lemma post_stop limit old new p :
  ssorted old -> ssorted new -> below limit p = false -> drain_post limit old new [] old new.
Proof.
  intros Ho Hn Hb. unfold drain_post. simpl.
  split; [reflexivity|]. split; [constructor|]. split; [auto|]. split; [auto|].
  split; [intros x y []|]. split; [constructor|].
  intros ->. discriminate.
Qed.

Lemma post_emit limit old new oldr newr x e1 o' n' :
  drain_post limit oldr newr e1 o' n' ->
  Forall (kle x) (oldr ++ newr) ->
  below limit x = true ->
  Permutation (x :: oldr ++ newr) (old ++ new) ->
  drain_post limit old new (x :: e1) o' n'.
Proof.
  intros (P & Se & So & Sn & Le & Be & Nn) Hall Hb Px.
  assert (Hall' : Forall (kle x) (e1 ++ o' ++ n')).
  { eapply Permutation_Forall; [symmetry; exact P|exact Hall]. }
  apply Forall_app in Hall' as [Hall1 Hall2].
  unfold drain_post.
  split. { simpl. rewrite <- Px. constructor. exact P. }
  split. { constructor; auto. }
  split; [auto|]. split; [auto|].
  split. { intros a y [<-|Ha] Hy; [|apply Le; auto]. rewrite Forall_forall in Hall2. apply Hall2; auto. }
  split. { constructor; auto. }
  exact Nn.
Qed.

Lemma drain_spec : forall fuel limit old new e o' n',
  (length old + length new < fuel)%nat ->
  ssorted old -> ssorted new ->
  drain fuel limit old new = (e, o', n') ->
  drain_post limit old new e o' n'.
Proof.
  induction fuel as [|f IH]; intros limit old new e o' n' Hf Ho Hn Hd; [lia|].
  simpl in Hd.
  destruct old as [|o old'], new as [|n new'].
  - inversion Hd; subst. unfold drain_post. simpl.
    split; [reflexivity|]. split; [constructor|]. split; [constructor|]. split; [constructor|].
    split; [intros x y []|]. split; [constructor|]. auto.
  - (* old empty *)
    destruct (below limit n) eqn:Hb.
    + destruct (drain f limit [] new') as [[e1 a1] b1] eqn:Hd1. inversion Hd; subst.
      eapply post_emit; [eapply IH; [| | |exact Hd1]| | |]; auto.
      * simpl in *; lia.
      * eapply ssorted_tail; eauto.
      * simpl. apply ssorted_head; auto.
    + inversion Hd; subst. eapply post_stop; eauto.
  - (* new empty *)
    destruct (below limit o) eqn:Hb.
    + destruct (drain f limit old' []) as [[e1 a1] b1] eqn:Hd1. inversion Hd; subst.
      eapply post_emit; [eapply IH; [| | |exact Hd1]| | |]; auto.
      * simpl in *; lia.
      * eapply ssorted_tail; eauto.
      * rewrite app_nil_r. apply ssorted_head; auto.
    + inversion Hd; subst. eapply post_stop; eauto.
  - destruct (key_ltb o n) eqn:Hlt.
    + destruct (below limit o) eqn:Hb.
      * destruct (drain f limit old' (n :: new')) as [[e1 a1] b1] eqn:Hd1. inversion Hd; subst.
        eapply post_emit; [eapply IH; [| | |exact Hd1]| | |]; auto.
        -- simpl in *; lia.
        -- eapply ssorted_tail; eauto.
        -- apply Forall_app; split.
           ++ apply ssorted_head; auto.
           ++ constructor; [apply klt_kle; exact Hlt|].
              eapply Forall_impl; [|apply ssorted_head; exact Hn]. intros z Hz.
              eapply kle_trans; [apply klt_kle; exact Hlt|exact Hz].
      * inversion Hd; subst. eapply post_stop; eauto.
    + destruct (below limit n) eqn:Hb.
      * destruct (drain f limit (o :: old') new') as [[e1 a1] b1] eqn:Hd1. inversion Hd; subst.
        eapply post_emit; [eapply IH; [| | |exact Hd1]| | |]; auto.
        -- simpl in *; lia.
        -- eapply ssorted_tail; eauto.
        -- apply Forall_app; split.
           ++ constructor; [apply nklt_kle; exact Hlt|].
              eapply Forall_impl; [|apply ssorted_head; exact Ho]. intros z Hz.
              eapply kle_trans; [apply nklt_kle; exact Hlt|exact Hz].
           ++ apply ssorted_head; auto.
        -- apply (Permutation_middle (o :: old') new' n).
      * inversion Hd; subst. eapply post_stop; eauto.
Qed.

(* ------------------------------------------------------------------ lazy loop *)
(* every packet of a capture is at least as young as the capture's PacketTimestampMin *)
Definition pcap_ok (pl : pcap_load) : Prop := Forall (fun p => fst pl <= p_ts p) (snd pl).
(* allNeededPcaps is ordered by PacketTimestampMin *)
Definition mins_sorted (pcaps : list pcap_load) : Prop := StronglySorted (fun a b => fst a <= fst b) pcaps.

Lemma lazy_loop_spec : forall pcaps old new,
  Forall pcap_ok pcaps -> mins_sorted pcaps -> ssorted old -> ssorted new ->
  ssorted (lazy_loop pcaps old new) /\
  Permutation (lazy_loop pcaps old new) (old ++ new ++ flat_map snd pcaps).
Proof.
  induction pcaps as [|[mn pk] rest IH]; intros old new Hok Hm Ho Hn; cbn [lazy_loop flat_map snd].
  - destruct (drain (drain_fuel old new) None old new) as [[e o'] n'] eqn:Hd.
    assert (Hfu : (length old + length new < drain_fuel old new)%nat) by (unfold drain_fuel; lia).
    destruct (drain_spec _ _ _ _ _ _ _ Hfu Ho Hn Hd) as (P & Se & _ & _ & _ & _ & Nn).
    destruct (Nn eq_refl) as [-> ->]. rewrite !app_nil_r in *. split; auto.
  - destruct (drain (drain_fuel old new) (Some mn) old new) as [[e o'] n'] eqn:Hd.
    assert (Hfu : (length old + length new < drain_fuel old new)%nat) by (unfold drain_fuel; lia).
    destruct (drain_spec _ _ _ _ _ _ _ Hfu Ho Hn Hd) as (P & Se & So & Sn & Le & Be & _).
    inversion Hok as [|? ? Hpk Hok']; subst. inversion Hm as [|? ? Hm' Hmn]; subst.
    destruct (IH (sort_packets (o' ++ pk)) n' Hok' Hm' (sort_packets_sorted _) Sn) as [S2 P2].
    assert (Pall : Permutation (lazy_loop rest (sort_packets (o' ++ pk)) n') (o' ++ n' ++ pk ++ flat_map snd rest)).
    { rewrite P2. rewrite <- (sort_packets_perm (o' ++ pk)). rewrite <- !app_assoc.
      apply Permutation_app_head. rewrite !app_assoc. apply Permutation_app_tail. apply Permutation_app_comm. }
    split.
    + apply ssorted_app; auto.
      intros x y Hx Hy.
      eapply Permutation_in in Hy; [|exact Pall].
      rewrite app_assoc in Hy. apply in_app_or in Hy as [Hy|Hy]; [apply Le; auto|].
      apply ts_lt_kle.
      rewrite Forall_forall in Be. specialize (Be _ Hx). apply below_lt in Be.
      apply in_app_or in Hy as [Hy|Hy].
      * unfold pcap_ok in Hpk; simpl in Hpk. rewrite Forall_forall in Hpk. specialize (Hpk _ Hy). lia.
      * apply in_flat_map in Hy as ([mn2 pk2] & Hin & Hy2).
        rewrite Forall_forall in Hmn. specialize (Hmn _ Hin). simpl in Hmn.
        rewrite Forall_forall in Hok'. specialize (Hok' _ Hin). unfold pcap_ok in Hok'. simpl in *.
        rewrite Forall_forall in Hok'. specialize (Hok' _ Hy2). lia.
    + rewrite Pall. simpl.
      transitivity ((e ++ o' ++ n') ++ pk ++ flat_map snd rest).
      { rewrite <- !app_assoc. reflexivity. }
      rewrite P. rewrite <- !app_assoc. reflexivity.
Qed.

(* C05 theorem (1) *)
Theorem feed_sorted_permutation : forall pcaps newPackets,
  Forall pcap_ok pcaps -> mins_sorted pcaps ->
  StronglySorted kle (feed pcaps newPackets) /\
  Permutation (feed pcaps newPackets) (newPackets ++ flat_map snd pcaps).
Proof.
  intros pcaps new Hok Hm. unfold feed.
  destruct (lazy_loop_spec pcaps [] (sort_packets new) Hok Hm (SSorted_nil _) (sort_packets_sorted _)) as [S P].
  split; auto. rewrite P. simpl. apply Permutation_app_tail. symmetry. apply sort_packets_perm.
Qed.

(* Two sorted lists with the same elements are equal when equal keys mean equal packets (a packet is
   identified by capture file and index), so the feed IS the globally sorted list. *)
Definition keys_identify (l : list packet) : Prop :=
  forall a b, In a l -> In b l -> p_ts a = p_ts b -> p_file a = p_file b -> p_idx a = p_idx b -> a = b.

Lemma sorted_perm_unique : forall l1 l2,
  ssorted l1 -> ssorted l2 -> Permutation l1 l2 -> keys_identify l1 -> l1 = l2.
Proof.
  induction l1 as [|a l1 IH]; intros l2 S1 S2 P K.
  - apply Permutation_nil in P. auto.
  - destruct l2 as [|b l2]; [apply Permutation_sym, Permutation_nil in P; discriminate|].
    assert (Hab : a = b).
    { assert (Ia : In a (b :: l2)) by (eapply Permutation_in; [exact P|left; auto]).
      assert (Ib : In b (a :: l1)) by (eapply Permutation_in; [symmetry; exact P|left; auto]).
      destruct Ia as [->|Ia]; auto. destruct Ib as [->|Ib]; auto.
      pose proof (ssorted_head _ _ S1) as H1. pose proof (ssorted_head _ _ S2) as H2.
      rewrite Forall_forall in H1, H2.
      destruct (kle_antisym a b (H1 _ Ib) (H2 _ Ia)) as (E1 & E2 & E3).
      apply K; auto; [left; auto|right; auto]. }
    subst b. f_equal. apply IH.
    + eapply ssorted_tail; eauto.
    + eapply ssorted_tail; eauto.
    + eapply Permutation_cons_inv; eauto.
    + intros x y Hx Hy. apply K; right; auto.
Qed.

Theorem feed_is_global_sort : forall pcaps newPackets,
  Forall pcap_ok pcaps -> mins_sorted pcaps ->
  keys_identify (newPackets ++ flat_map snd pcaps) ->
  feed pcaps newPackets = sort_packets (newPackets ++ flat_map snd pcaps).
Proof.
  intros pcaps new Hok Hm K.
  destruct (feed_sorted_permutation pcaps new Hok Hm) as [S P].
  apply sorted_perm_unique; auto.
  - apply sort_packets_sorted.
  - rewrite P. apply sort_packets_perm.
  - intros a b Ha Hb. apply K; eapply Permutation_in; eauto.
Qed.
