(* C07, part 4: merging is invisible for everything a stream shows, Packets() and Data() included.
   A stream record of an index file (or of a writer) HOLDS an input stream s when the file carries, at the
   record's offsets, exactly the packet block AddStream writes for s (relative to the file's import table) and
   the payload block of s (payload c2s, payload s2c, segmentation; AddIndex drops trailing empty runs).
   Packets() and Data() of a record that holds s are functions of s alone; AddIndex keeps what old records hold
   and makes every copied record hold what its source holds. *)
From Coq Require Import Lia ZifyBool ZifyN ZifyNat Arith.
From Pk Require Import IndexFormat IndexFormatCodec IndexFormatHosts IndexFormatWriter IndexFormatData IndexFormatPackets
     IndexFormatScan Merge MergeProofs MergeVisible MergeCopy.
Open Scope N_scope.

Definition wf_stream (s : istream) : Prop :=
  s_packets s <> [] /\ wf_packets s /\ wf_data s /\ names_ok s /\
  lenN (stream_payload s false) + lenN (stream_payload s true) < P64.

Record holds (imps : list (bytes * N)) (pkts : list packet_rec) (data : bytes) (ref : N) (rec : stream_rec) (s : istream) : Prop := {
  h_wf : wf_stream s;
  h_srcs : srcs_in imps (s_packets s);
  h_pkts : exists pre post, pkts = pre ++ stream_block imps s ++ post /\ st_pktstart rec = lenN pre;
  h_data : exists pre post runs1 runs0,
      data_runs (s_packets s) (s_data s) = runs1 ++ runs0 /\ zero_runs runs0 /\
      data = pre ++ (stream_payload s false ++ stream_payload s true ++ segmentation false runs1) ++ post /\
      st_datastart rec = lenN pre;
  h_cb : st_cbytes rec = lenN (stream_payload s false);
  h_sb : st_sbytes rec = lenN (stream_payload s true);
  h_first : ref * NS + st_first rec = first_ts s;
  h_last : ref * NS + st_last rec = last_ts s;
  h_order : first_ts s <= last_ts s < P64 }.

Definition rholds (r : reader) := holds (r_imports r) (f_packets (r_file r)) (f_data (r_file r)) (f_ref (r_file r)).
Definition wholds (w : writer) := holds (w_imports w) (w_packets w) (w_data w) (w_ref w).

(* ------------------------------------------------------------------ *)
(* what a record that holds s shows                                    *)
(* ------------------------------------------------------------------ *)
Definition data_canon (s : istream) : option (list chunk) :=
  let B := stream_block [] s in
  match data_scan (S (length B)) B ((last_ts s - first_ts s + 1000) / WRAP_NS) (first_ts s) 0 None [] [] with
  | None => None
  | Some (ptc, pts) => replay (S (length (stream_seg s))) false (stream_seg s) (stream_payload s false) (stream_payload s true) ptc pts
  end.

Lemma stream_block_blockify imps s : stream_block imps s = blockify (stream_records imps (first_ts s) (s_data s) 0 (s_packets s)) [].
Proof. unfold stream_block, blockify. now rewrite app_nil_r. Qed.
Lemma stream_block_sound imps s : wf_stream s -> sound (stream_block imps s).
Proof.
  intros (Hne & _ & (_ & _ & Hsrc) & _). rewrite stream_block_blockify. apply blockify_sound; [|apply stream_records_flags].
  destruct (s_packets s) as [|p0 ps]; [contradiction|]. apply stream_records_nonempty. now inversion Hsrc.
Qed.
Lemma stream_block_erase imps s : map (set_imp (fun _ => 0)) (stream_block imps s) = stream_block [] s.
Proof. apply stream_block_remap. intros p src _ _. reflexivity. Qed.

Lemma run_total_app d a b : run_total d (a ++ b) = run_total d a + run_total d b.
Proof. induction a as [|[d' z] r IH]; cbn [app run_total]; [reflexivity|]. rewrite IH. lia. Qed.

Lemma holds_packets r rec s : rholds r rec s -> packets r rec = Some (expect_packets (first_ts s) (s_packets s)).
Proof.
  intros H. destruct (h_pkts _ _ _ _ _ _ H) as (pre & post & Hp & Hs). destruct (h_wf _ _ _ _ _ _ H) as (_ & Hwp & _).
  unfold packets. rewrite Hp, Hs, skipN_app. unfold first_packet_time. rewrite (h_first _ _ _ _ _ _ H).
  apply packets_scan_stream; [assumption|apply (h_srcs _ _ _ _ _ _ H)].
Qed.

Lemma holds_data r rec s : rholds r rec s -> data r rec = data_canon s.
Proof.
  intros H. destruct (h_pkts _ _ _ _ _ _ H) as (pre & post & Hp & Hs).
  destruct (h_data _ _ _ _ _ _ H) as (dpre & dpost & runs1 & runs0 & Hruns & Hz & Hd & Hds).
  pose proof (h_wf _ _ _ _ _ _ H) as Hwf. destruct Hwf as (Hne & Hwp & Hwd & Hnm & HB).
  pose proof (h_first _ _ _ _ _ _ H) as Hf. pose proof (h_last _ _ _ _ _ _ H) as Hl. pose proof (h_order _ _ _ _ _ _ H) as Ho.
  unfold data, data_canon. cbv zeta. rewrite Hp, Hs, skipN_app.
  assert (Hexp : expect_wraps rec = (last_ts s - first_ts s + 1000) / WRAP_NS).
  { unfold expect_wraps. f_equal. set (X := f_ref (r_file r) * NS) in *. f_equal.
    replace (st_last rec + P64 - st_first rec) with ((st_last rec - st_first rec) + 1 * P64) by lia.
    unfold u64. rewrite N.mod_add by (unfold P64; lia). rewrite N.mod_small by lia. lia. }
  rewrite Hexp. unfold first_packet_time. rewrite Hf.
  pose proof (stream_block_sound (r_imports r) s (conj Hne (conj Hwp (conj Hwd (conj Hnm HB))))) as Hsound.
  (* the packet scan reads the stream's own records only, and no import ids *)
  rewrite (data_scan_local (S (length (stream_block (r_imports r) s ++ post))) (S (length (stream_block [] s)))
                           (stream_block (r_imports r) s) post _ _ _ _ _ _ Hsound)
    by (rewrite ?app_length, <- ?(stream_block_erase (r_imports r) s), ?map_length; lia).
  rewrite <- (data_scan_imp (fun _ => 0)), stream_block_erase.
  destruct (data_scan (S (length (stream_block [] s))) (stream_block [] s) _ (first_ts s) 0 None [] []) as [[ptc pts]|]; [|reflexivity].
  (* the payload and the segmentation *)
  rewrite Hds, Hd, skipN_app, (h_cb _ _ _ _ _ _ H), (h_sb _ _ _ _ _ _ H).
  rewrite <- !app_assoc. rewrite takeN_app, skipN_app, takeN_app, skipN_app, !N.eqb_refl. cbn [negb orb].
  unfold stream_seg. rewrite Hruns, segmentation_app.
  assert (Ht : forall d, run_total d runs1 = lenN (stream_payload s d)).
  { intros d. unfold stream_payload. rewrite <- run_total_data_runs, Hruns, run_total_app, (zero_runs_total d runs0 Hz). lia. }
  assert (Hb1 : Forall (fun x => snd x < P64) runs1).
  { pose proof (run_sizes_bounded (s_packets s) (s_data s) P64 HB) as Hb. rewrite Hruns in Hb. now apply Forall_app in Hb. }
  rewrite <- (app_nil_r (segmentation false runs1 ++ segmentation (want_after false runs1) runs0)), <- app_assoc.
  apply replay_tail; auto; rewrite !app_length; cbn [length]; lia.
Qed.

Lemma holds_observe r1 rec1 r2 rec2 s :
  rholds r1 rec1 s -> rholds r2 rec2 s -> rmeta r1 rec1 = rmeta r2 rec2 -> observe r1 rec1 = observe r2 rec2.
Proof.
  intros H1 H2 Hm. unfold observe. rewrite (holds_packets _ _ _ H1), (holds_packets _ _ _ H2), (holds_data _ _ _ H1), (holds_data _ _ _ H2).
  unfold rmeta in Hm. inversion Hm as [[E1 E2 E3 E4 E5 E6 E7 E8 E9 E10]]. now rewrite E1, E2, E3, E4, E5, E6, E7, E8, E9, E10.
Qed.

(* ------------------------------------------------------------------ *)
(* the structure of one AddIndex call                                  *)
(* ------------------------------------------------------------------ *)
Lemma merge_imports_forall (P : bytes * N -> Prop) rimps : forall wimps wimps' imap,
    Forall P wimps -> Forall P rimps -> merge_imports wimps rimps = (wimps', imap) -> Forall P wimps'.
Proof.
  induction rimps as [|[n o] r IH]; intros wimps wimps' imap Hw Hr H; cbn [merge_imports] in H.
  - now inversion H; subst.
  - inversion Hr; subst. destruct (find_import n o wimps 0).
    + destruct (merge_imports wimps r) as [w1 m1] eqn:E. inversion H; subst. exact (IH _ _ _ Hw H3 E).
    + destruct (merge_imports (wimps ++ [(n, o)]) r) as [w1 m1] eqn:E. inversion H; subst.
      refine (IH _ _ _ _ H3 E). apply Forall_app. split; [assumption|]. constructor; [assumption|constructor].
Qed.

Lemma NoDup_id_eq (l : list stream_rec) a b : NoDup (map st_id l) -> In a l -> In b l -> st_id a = st_id b -> a = b.
Proof.
  intros Hnd Ha Hb He. apply In_nth_error in Ha, Hb. destruct Ha as [i Hi], Hb as [j Hj].
  assert (i = j).
  { eapply (NoDup_nth_error (map st_id l)); eauto.
    - rewrite map_length. apply nth_error_Some. congruence.
    - rewrite !nth_error_map, Hi, Hj. cbn [option_map]. congruence. }
  subst. congruence.
Qed.

(* fields that re-basing leaves alone *)
Definition same_place (rec' rec : stream_rec) : Prop :=
  st_id rec' = st_id rec /\ st_pktstart rec' = st_pktstart rec /\ st_datastart rec' = st_datastart rec /\
  st_cbytes rec' = st_cbytes rec /\ st_sbytes rec' = st_sbytes rec.
Lemma shift_place d ss : Forall2 same_place (shift d ss) ss.
Proof.
  unfold shift. destruct (d =? 0).
  - induction ss; constructor; [repeat split|assumption].
  - induction ss; cbn [map]; constructor; [repeat split|assumption].
Qed.

(* where the stream loop of AddIndex puts what it copies *)
Definition placed (r : reader) (imap : list N) (pkts' : list packet_rec) (data' : bytes) (s' s : stream_rec) : Prop :=
  st_id s' = st_id s /\ st_cbytes s' = st_cbytes s /\ st_sbytes s' = st_sbytes s /\
  exists blk dblk ppre ppost dpre dpost,
    copy_packets imap (skipN (st_pktstart s) (f_packets (r_file r))) = Some blk /\
    copy_data (f_data (r_file r)) s = Some dblk /\
    pkts' = ppre ++ blk ++ ppost /\ st_pktstart s' = u32 (lenN ppre) /\
    data' = dpre ++ dblk ++ dpost /\ st_datastart s' = lenN dpre.

Lemma placed_ext r imap pkts data pe de s' s : placed r imap pkts data s' s -> placed r imap (pkts ++ pe) (data ++ de) s' s.
Proof.
  intros (A & B & C & blk & dblk & ppre & ppost & dpre & dpost & H1 & H2 & H3 & H4 & H5 & H6).
  split; [assumption|]. split; [assumption|]. split; [assumption|].
  exists blk, dblk, ppre, (ppost ++ pe), dpre, (dpost ++ de). rewrite H3, H5, <- !app_assoc. auto 10.
Qed.

Lemma copy_streams_blocks r imap gmap existing : forall ss pkts data news minf pkts' data' news' minf',
    copy_streams r imap gmap existing ss pkts data news minf = Some (pkts', data', news', minf') ->
    exists added pe de, news' = news ++ added /\ pkts' = pkts ++ pe /\ data' = data ++ de /\
                        Forall2 (placed r imap pkts' data') added (filter (fresh existing) ss).
Proof.
  induction ss as [|s rest IH]; intros pkts data news minf pkts' data' news' minf' H; cbn [copy_streams] in H.
  - inversion H; subst. exists [], [], []. rewrite !app_nil_r. repeat split; constructor.
  - cbn [filter]. unfold fresh at 1. destruct (has_id (st_id s) existing) eqn:Eh; cbn [negb].
    + now apply IH in H.
    + destruct (nthN gmap (st_hg s)) as [[g hmap]|]; [|discriminate].
      destruct (copy_packets imap _) as [ps|] eqn:Ep; [|discriminate].
      destruct (copy_data _ s) as [d|] eqn:Ed; [|discriminate].
      apply IH in H. destruct H as (added & pe & de & Hn & Hp & Hd & HF).
      eexists (_ :: added), (ps ++ pe), (d ++ de). rewrite Hn, Hp, Hd, <- !app_assoc.
      split; [reflexivity|]. split; [reflexivity|]. split; [reflexivity|].
      constructor.
      * split; [reflexivity|]. split; [reflexivity|]. split; [reflexivity|].
        exists ps, d, pkts, pe, data, de. cbn [st_pktstart st_datastart]. auto 10.
      * rewrite Hp, Hd, <- !app_assoc in HF. exact HF.
Qed.

Section Cap.
  Variable gcap : N.
  Hypothesis Hcap : 0 < gcap <= 4 * P16.

  Lemma add_index_struct w r w' :
    add_index gcap w r = Some w' ->
    exists imps imap groups gmap pkts data news minf,
      merge_imports (w_imports w) (r_imports r) = (imps, imap) /\
      merge_groups gcap (w_groups w) (r_groups r) = (groups, gmap) /\
      copy_streams r imap gmap (w_streams w) (f_streams (r_file r)) (w_packets w) (w_data w) [] (P64 - 1) = Some (pkts, data, news, minf) /\
      ((news = [] /\ w' = w) \/
       (news <> [] /\ exists nref od nd,
           w' = {| w_ref := nref; w_groups := groups; w_imports := imps; w_packets := pkts;
                   w_streams := shift od (w_streams w) ++ shift nd news; w_data := data |})).
  Proof.
    unfold add_index. intros H.
    destruct (merge_imports (w_imports w) (r_imports r)) as [imps imap] eqn:E1.
    destruct (merge_groups gcap (w_groups w) (r_groups r)) as [groups gmap] eqn:E2.
    destruct (copy_streams r imap gmap (w_streams w) (f_streams (r_file r)) (w_packets w) (w_data w) [] (P64 - 1))
      as [[[[pkts data] news] minf]|] eqn:E3; [|discriminate].
    exists imps, imap, groups, gmap, pkts, data, news, minf. split; [reflexivity|]. split; [reflexivity|]. split; [exact E3|].
    destruct news as [|n0 nr].
    - left. split; [reflexivity|]. now inversion H.
    - right. split; [discriminate|]. inversion H. eexists _, _, _. unfold shift. reflexivity.
  Qed.
End Cap.

(* ------------------------------------------------------------------ *)
(* what copy_data / copy_packets make of a held stream                  *)
(* ------------------------------------------------------------------ *)
Lemma copy_data_holds imps pkts data ref rec s :
  holds imps pkts data ref rec s ->
  exists runs1 runs0 dblk, copy_data data rec = Some dblk /\
    data_runs (s_packets s) (s_data s) = runs1 ++ runs0 /\ zero_runs runs0 /\
    dblk = stream_payload s false ++ stream_payload s true ++ segmentation false runs1.
Proof.
  intros H. destruct (h_data _ _ _ _ _ _ H) as (pre & post & r1 & r0 & Hruns & Hz & Hd & Hds).
  destruct (h_wf _ _ _ _ _ _ H) as (_ & _ & _ & _ & HB).
  set (pc := stream_payload s false) in *. set (psv := stream_payload s true) in *.
  assert (Ht : forall d, run_total d r1 = lenN (stream_payload s d)).
  { intros d. unfold stream_payload. rewrite <- run_total_data_runs, Hruns, run_total_app, (zero_runs_total d r0 Hz). lia. }
  assert (Hsum : run_sum r1 = lenN pc + lenN psv) by (rewrite run_sum_totals, !Ht; reflexivity).
  assert (Hb1 : Forall (fun x => snd x < P64) r1).
  { pose proof (run_sizes_bounded (s_packets s) (s_data s) P64 HB) as Hb. rewrite Hruns in Hb. now apply Forall_app in Hb. }
  unfold copy_data. rewrite (h_cb _ _ _ _ _ _ H), (h_sb _ _ _ _ _ _ H). fold pc psv.
  destruct (N.eqb_spec (lenN pc + lenN psv) 0) as [E0|E0].
  - exists [], (r1 ++ r0), []. split; [reflexivity|]. split; [assumption|].
    split; [apply Forall_app; split; [apply zero_runs_sum; lia|assumption]|].
    assert (pc = []) by (apply lenN_0_nil; lia). assert (psv = []) by (apply lenN_0_nil; lia). now rewrite H0, H1.
  - rewrite Hds, Hd, skipN_app.
    replace ((pc ++ psv ++ segmentation false r1) ++ post) with ((pc ++ psv) ++ segmentation false r1 ++ post) by now rewrite <- !app_assoc.
    rewrite <- (lenN_app pc psv). rewrite takeN_app, skipN_app, N.eqb_refl. cbn [negb].
    destruct (copy_segmentation_runs r1 (S (length ((pc ++ psv) ++ segmentation false r1 ++ post))) false (lenN (pc ++ psv)) post)
      as (t & z0 & Ht0 & Hz0 & Hc).
    + now rewrite lenN_app.
    + assumption.
    + rewrite !app_length. lia.
    + rewrite Hc. exists t, (z0 ++ r0), ((pc ++ psv) ++ segmentation false t). split; [reflexivity|].
      split; [now rewrite Hruns, Ht0, <- app_assoc|]. split; [apply Forall_app; split; assumption|]. now rewrite <- app_assoc.
Qed.

Lemma copy_packets_holds rimps pkts data ref rec s imps' imap :
  holds rimps pkts data ref rec s ->
  (forall i n o, nth_error rimps i = Some (n, o) -> exists j, nth_error imap i = Some j /\ find_import n o imps' 0 = Some j) ->
  copy_packets imap (skipN (st_pktstart rec) pkts) = Some (stream_block imps' s) /\ srcs_in imps' (s_packets s).
Proof.
  intros H Hm. destruct (h_pkts _ _ _ _ _ _ H) as (pre & post & Hp & Hs). pose proof (h_srcs _ _ _ _ _ _ H) as Hin.
  pose proof (h_wf _ _ _ _ _ _ H) as Hwf. pose proof Hwf as (Hne & _ & (_ & _ & Hsrc) & _).
  split.
  - rewrite Hp, Hs, skipN_app, stream_block_blockify, <- blockify_later.
    rewrite copy_packets_block; [| |apply stream_records_flags].
    + f_equal. rewrite <- stream_block_blockify. apply stream_block_remap.
      intros p src Hp0 Hs0. apply (remap_import_id rimps imps' imap src Hm). now apply (Hin p src).
    + destruct (s_packets s) as [|p0 ps]; [contradiction|]. apply stream_records_nonempty. now inversion Hsrc.
  - intros p src Hp0 Hs0. apply (remap_import_id rimps imps' imap src Hm). now apply (Hin p src).
Qed.

(* ------------------------------------------------------------------ *)
(* the full invariant of AddIndex                                      *)
(* ------------------------------------------------------------------ *)
Section Full.
  Variable gcap : N.
  Hypothesis Hcap : 0 < gcap <= 4 * P16.

  Definition names_imps (imps : list (bytes * N)) : Prop := Forall (fun i => no_nul (fst i)) imps.
  Record wgood2 (w : writer) : Prop := {
    w2_good : wgood gcap w;
    w2_names : names_imps (w_imports w);
    w2_holds : Forall (fun rec => exists s, wholds w rec s) (w_streams w) }.
  Record rgood2 (r : reader) : Prop := {
    r2_good : rgood gcap r;
    r2_names : names_imps (r_imports r);
    r2_holds : Forall (fun rec => exists s, rholds r rec s) (f_streams (r_file r)) }.

  Lemma new_writer_good2 : wgood2 new_writer.
  Proof. constructor; [apply new_writer_good|constructor|constructor]. Qed.

  Lemma wmeta_id w w' rec rec' : wmeta w' rec' = wmeta w rec -> st_id rec' = st_id rec.
  Proof. intros H. assert (E : m_id (wmeta w' rec') = m_id (wmeta w rec)) by now rewrite H. exact E. Qed.

  Lemma add_index_full w r w' :
    wgood2 w -> rgood2 r -> add_index gcap w r = Some w' -> lenN (w_packets w') < P32 ->
    wgood2 w' /\
    (forall rec s, In rec (w_streams w) -> wholds w rec s ->
                   exists rec', In rec' (w_streams w') /\ wmeta w' rec' = wmeta w rec /\ wholds w' rec' s) /\
    (forall srec s, In srec (f_streams (r_file r)) -> ~ In (st_id srec) (map st_id (w_streams w)) -> rholds r srec s ->
                    exists rec', In rec' (w_streams w') /\ wmeta w' rec' = rmeta r srec /\ wholds w' rec' s).
  Proof.
    intros [Gw Nw Hw] [Gr Nr Hr] Hadd Hcnt.
    destruct (add_index_good gcap Hcap w r w' Gw Gr Hadd) as (Gw' & Hold & Hnew & Hids).
    destruct (add_index_struct gcap w r w' Hadd) as (imps & imap & groups & gmap & pkts & data & news & minf & E1 & E2 & E3 & Hcase).
    destruct (merge_imports_spec _ _ _ _ E1) as ((ext & Hext) & Hm).
    pose proof (merge_imports_forall _ _ _ _ _ Nw Nr E1) as Nimps.
    destruct (copy_streams_blocks _ _ _ _ _ _ _ _ _ _ _ _ _ E3) as (added & pe & de & Hn & Hp & Hd & HF). cbn [app] in Hn. subst added.
    rewrite Forall_forall in Hw, Hr.
    destruct Hcase as [[Hnil ->]|(Hne & nref & od & nd & ->)].
    - (* nothing new *)
      split; [constructor; [assumption|assumption|now apply Forall_forall]|]. split.
      + intros rec s Hin Hh. exists rec. auto.
      + intros srec s Hin Hnot Hh. exfalso. destruct (Hnew _ Hin Hnot) as (rec' & Hin' & Hm').
        apply Hnot. assert (E : m_id (wmeta w rec') = m_id (rmeta r srec)) by now rewrite Hm'. cbn [wmeta rmeta m_id] in E.
        rewrite <- E. now apply in_map.
    - set (w' := {| w_ref := nref; w_groups := groups; w_imports := imps; w_packets := pkts;
                    w_streams := shift od (w_streams w) ++ shift nd news; w_data := data |}) in *.
      pose proof (wg_ids _ _ Gw') as Hnd'.
      (* old records *)
      assert (Old : forall rec s, In rec (w_streams w) -> wholds w rec s ->
                 exists rec', In rec' (w_streams w') /\ wmeta w' rec' = wmeta w rec /\ wholds w' rec' s).
      { intros rec s Hin Hh. destruct (Hold _ Hin) as (rec' & Hin' & Hm'). exists rec'. split; [assumption|]. split; [assumption|].
        destruct (Forall2_in_r _ _ _ (shift_place od (w_streams w)) _ Hin) as (rec'' & Hin'' & (P1 & P2 & P3 & P4 & P5)).
        assert (rec' = rec'').
        { apply (NoDup_id_eq (w_streams w')); auto.
          - cbn [w_streams w']. apply in_or_app. now left.
          - rewrite (wmeta_id _ _ _ _ Hm'). congruence. }
        subst rec''.
        destruct (h_pkts _ _ _ _ _ _ Hh) as (pre & post & Hpk & Hps).
        destruct (h_data _ _ _ _ _ _ Hh) as (dpre & dpost & r1 & r0 & Hruns & Hz & Hdd & Hds).
        pose proof (h_srcs _ _ _ _ _ _ Hh) as Hsr.
        assert (Ef : m_first (wmeta w' rec') = m_first (wmeta w rec)) by now rewrite Hm'.
        assert (El : m_last (wmeta w' rec') = m_last (wmeta w rec)) by now rewrite Hm'.
        cbn [wmeta m_first m_last w_ref w'] in Ef, El.
        constructor; cbn [w_imports w_packets w_data w_ref w'].
        - apply (h_wf _ _ _ _ _ _ Hh).
        - rewrite Hext. now apply srcs_in_app.
        - exists pre, (post ++ pe). rewrite Hext, stream_block_app by assumption. rewrite Hp, Hpk, <- !app_assoc. split; [reflexivity|congruence].
        - exists dpre, (dpost ++ de), r1, r0. split; [assumption|]. split; [assumption|]. rewrite Hd, Hdd, <- !app_assoc. split; [reflexivity|congruence].
        - rewrite P4. apply (h_cb _ _ _ _ _ _ Hh).
        - rewrite P5. apply (h_sb _ _ _ _ _ _ Hh).
        - rewrite Ef. apply (h_first _ _ _ _ _ _ Hh).
        - rewrite El. apply (h_last _ _ _ _ _ _ Hh).
        - apply (h_order _ _ _ _ _ _ Hh). }
      (* copied records *)
      assert (New : forall srec s, In srec (f_streams (r_file r)) -> ~ In (st_id srec) (map st_id (w_streams w)) -> rholds r srec s ->
                 exists rec', In rec' (w_streams w') /\ wmeta w' rec' = rmeta r srec /\ wholds w' rec' s).
      { intros srec s Hin Hnot Hh. destruct (Hnew _ Hin Hnot) as (rec' & Hin' & Hm'). exists rec'. split; [assumption|]. split; [assumption|].
        assert (Hfs : In srec (filter (fresh (w_streams w)) (f_streams (r_file r)))).
        { apply filter_In. split; [assumption|]. now apply fresh_not_in. }
        destruct (Forall2_in_r _ _ _ HF _ Hfs) as (s' & Hs' & (Q1 & Q2 & Q3 & blk & dblk & ppre & ppost & dpre & dpost & C1 & C2 & C3 & C4 & C5 & C6)).
        destruct (Forall2_in_r _ _ _ (shift_place nd news) _ Hs') as (rec'' & Hin'' & (P1 & P2 & P3 & P4 & P5)).
        assert (rec' = rec'').
        { apply (NoDup_id_eq (w_streams w')); auto.
          - cbn [w_streams w']. apply in_or_app. now right.
          - assert (E : m_id (wmeta w' rec') = m_id (rmeta r srec)) by now rewrite Hm'. cbn [wmeta rmeta m_id] in E. congruence. }
        subst rec''.
        destruct (copy_packets_holds _ _ _ _ _ _ imps imap Hh Hm) as (Cp & Hsr').
        destruct (copy_data_holds _ _ _ _ _ _ Hh) as (r1 & r0 & dblk' & Cd & Hruns & Hz & Hblk).
        unfold rholds in Hh. rewrite Cp in C1. rewrite Cd in C2.
        assert (Eb : blk = stream_block imps s) by congruence. assert (Ed : dblk = dblk') by congruence. subst blk dblk. clear C1 C2.
        assert (Hcnt' : lenN pkts < P32) by exact Hcnt.
        assert (Hpl : lenN ppre < P32) by (rewrite C3, lenN_app in Hcnt'; lia).
        assert (Ef : m_first (wmeta w' rec') = m_first (rmeta r srec)) by now rewrite Hm'.
        assert (El : m_last (wmeta w' rec') = m_last (rmeta r srec)) by now rewrite Hm'.
        cbn [wmeta rmeta m_first m_last w_ref w'] in Ef, El. unfold first_packet_time in Ef. unfold last_packet_time in El.
        constructor; cbn [w_imports w_packets w_data w_ref w'].
        - apply (h_wf _ _ _ _ _ _ Hh).
        - assumption.
        - exists ppre, ppost. split; [assumption|]. rewrite P2, C4. unfold u32. now apply N.mod_small.
        - exists dpre, dpost, r1, r0. split; [assumption|]. split; [assumption|]. rewrite C5, Hblk. split; [reflexivity|congruence].
        - rewrite P4, Q2. apply (h_cb _ _ _ _ _ _ Hh).
        - rewrite P5, Q3. apply (h_sb _ _ _ _ _ _ Hh).
        - rewrite Ef. apply (h_first _ _ _ _ _ _ Hh).
        - rewrite El. apply (h_last _ _ _ _ _ _ Hh).
        - apply (h_order _ _ _ _ _ _ Hh). }
      split; [|split; assumption].
      constructor; [assumption|assumption|]. apply Forall_forall. intros rec' Hin'. cbn [w_streams w'] in Hin'.
      apply in_app_or in Hin'. destruct Hin' as [Hin'|Hin'].
      + destruct (Forall2_in_l _ _ _ (shift_place od (w_streams w)) _ Hin') as (rec & Hin & (P1 & _)).
        destruct (Hw _ Hin) as (s & Hh). destruct (Old _ _ Hin Hh) as (rec1 & Hin1 & Hm1 & Hh1).
        exists s. replace rec' with rec1; [assumption|]. apply (NoDup_id_eq (w_streams w')); auto.
        * cbn [w_streams w']. apply in_or_app. now left.
        * rewrite (wmeta_id _ _ _ _ Hm1). congruence.
      + destruct (Forall2_in_l _ _ _ (shift_place nd news) _ Hin') as (s' & Hs' & (P1 & _)).
        destruct (Forall2_in_l _ _ _ HF _ Hs') as (srec & Hfs & (Q1 & _)).
        apply filter_In in Hfs. destruct Hfs as [Hin Hfr]. apply fresh_not_in in Hfr.
        destruct (Hr _ Hin) as (s & Hh). destruct (New _ _ Hin Hfr Hh) as (rec1 & Hin1 & Hm1 & Hh1).
        exists s. replace rec' with rec1; [assumption|]. apply (NoDup_id_eq (w_streams w')); auto.
        * cbn [w_streams w']. apply in_or_app. now right.
        * assert (E : m_id (wmeta w' rec1) = m_id (rmeta r srec)) by now rewrite Hm1. cbn [wmeta rmeta m_id] in E. congruence.
  Qed.
End Full.

(* ------------------------------------------------------------------ *)
(* Merge, newest first; the final theorems                             *)
(* ------------------------------------------------------------------ *)
Section Final.
  Variable gcap : N.
  Hypothesis Hcap : 0 < gcap <= 4 * P16.

  Lemma add_index_pkts_mono w r w' : add_index gcap w r = Some w' -> lenN (w_packets w) <= lenN (w_packets w').
  Proof.
    intros H. destruct (add_index_struct gcap w r w' H) as (imps & imap & groups & gmap & pkts & data & news & minf & E1 & E2 & E3 & Hcase).
    destruct (copy_streams_blocks _ _ _ _ _ _ _ _ _ _ _ _ _ E3) as (added & pe & de & _ & Hp & _).
    destruct Hcase as [[_ ->]|(_ & nref & od & nd & ->)]; [lia|]. cbn [w_packets]. rewrite Hp, lenN_app. lia.
  Qed.
  Lemma add_indexes_pkts_mono : forall Rs w w', add_indexes gcap w Rs = Some w' -> lenN (w_packets w) <= lenN (w_packets w').
  Proof.
    induction Rs as [|r rest IH]; intros w w' H; cbn [add_indexes] in H; [inversion H; lia|].
    destruct (add_index gcap w r) as [w1|] eqn:E; [|discriminate]. pose proof (add_index_pkts_mono _ _ _ E). specialize (IH _ _ H). lia.
  Qed.

  Definition minv2 (w : writer) (Rs : list reader) : Prop :=
    wgood2 gcap w /\
    forall id, match newest Rs id with
               | Some (r, srec) => exists rec s, In rec (w_streams w) /\ st_id rec = id /\ wmeta w rec = rmeta r srec /\
                                                wholds w rec s /\ rholds r srec s
               | None => ~ In id (map st_id (w_streams w))
               end.

  Lemma minv2_new : minv2 new_writer [].
  Proof. split; [apply new_writer_good2|]. intros id. cbn. tauto. Qed.

  Lemma minv2_step w Rs r w' :
    minv2 w Rs -> rgood2 gcap r -> add_index gcap w r = Some w' -> lenN (w_packets w') < P32 -> minv2 w' (Rs ++ [r]).
  Proof.
    intros [Gw Hv] Gr H Hcnt. destruct (add_index_full gcap Hcap w r w' Gw Gr H Hcnt) as (Gw' & Hold & Hnew).
    destruct (add_index_good gcap Hcap w r w' (w2_good _ _ Gw) (r2_good _ _ Gr) H) as (_ & _ & _ & Hids).
    split; [assumption|]. intros id. rewrite newest_app. specialize (Hv id).
    destruct (newest Rs id) as [[r0 s0]|].
    - destruct Hv as (rec & s & Hin & Hid & Hm & Hh & Hrh). destruct (Hold _ _ Hin Hh) as (rec' & Hin' & Hm' & Hh').
      exists rec', s. split; [assumption|]. split; [rewrite (wmeta_id _ _ _ _ Hm'); assumption|]. split; [congruence|]. split; assumption.
    - cbn [newest]. destruct (find (fun s => st_id s =? id) (f_streams (r_file r))) as [srec|] eqn:Ef.
      + apply find_some in Ef. destruct Ef as [Hin Hid]. apply N.eqb_eq in Hid. subst id.
        pose proof (r2_holds _ _ Gr) as Hr. rewrite Forall_forall in Hr. destruct (Hr _ Hin) as (s & Hh).
        destruct (Hnew _ _ Hin Hv Hh) as (rec' & Hin' & Hm' & Hh'). exists rec', s. split; [assumption|].
        split; [|auto]. assert (E : m_id (wmeta w' rec') = m_id (rmeta r srec)) by now rewrite Hm'. exact E.
      + intros Hi. apply Hids in Hi. destruct Hi as [Hi|Hi]; [contradiction|].
        apply in_map_iff in Hi. destruct Hi as (s & Hid & Hin). pose proof (find_none _ _ Ef _ Hin) as Hf. cbn in Hf.
        apply N.eqb_neq in Hf. contradiction.
  Qed.

  Lemma minv2_fold : forall Rs2 w Rs1 w', minv2 w Rs1 -> Forall (rgood2 gcap) Rs2 -> add_indexes gcap w Rs2 = Some w' ->
                                          lenN (w_packets w') < P32 -> minv2 w' (Rs1 ++ Rs2).
  Proof.
    induction Rs2 as [|r rest IH]; intros w Rs1 w' Hm Hg H Hcnt; cbn [add_indexes] in H.
    - inversion H; subst. now rewrite app_nil_r.
    - destruct (add_index gcap w r) as [w1|] eqn:E; [|discriminate]. inversion Hg; subst.
      replace (Rs1 ++ r :: rest) with ((Rs1 ++ [r]) ++ rest) by now rewrite <- app_assoc.
      eapply IH; eauto. eapply minv2_step; eauto. pose proof (add_indexes_pkts_mono _ _ _ H). lia.
  Qed.

  (* Finalize + NewReader keep what the records hold *)
  Lemma reader_of_good_writer2 w r :
    wgood2 gcap w -> total_hosts 4 (w_groups w) < P32 /\ total_hosts 16 (w_groups w) < P32 ->
    new_reader (finalize w) = Some r ->
    rgood2 gcap r /\ f_streams (r_file r) = w_streams w /\ (forall rec, rmeta r rec = wmeta w rec) /\
    (forall rec s, wholds w rec s -> rholds r rec s).
  Proof.
    intros [Gw Nw Hw] Ht Hr. destruct (reader_of_good_writer gcap Hcap w r Gw Ht Hr) as (Gr & Hs & Hmeta).
    assert (Hh : forall rec s, wholds w rec s -> rholds r rec s).
    { intros rec s H. unfold rholds, wholds in *.
      now rewrite (reader_imports w r Nw Hr), (rw_packets w r Hr), (rw_data w r Hr), (rw_ref w r Hr). }
    split; [|auto]. constructor; [assumption|now rewrite (reader_imports w r Nw Hr)|].
    rewrite Hs. eapply Forall_impl; [|exact Hw]. intros rec (s & H). exists s. now apply Hh.
  Qed.

  Lemma obs_eq r1 rec1 r2 rec2 s : rholds r1 rec1 s -> rholds r2 rec2 s -> rmeta r1 rec1 = rmeta r2 rec2 -> observe r1 rec1 = observe r2 rec2.
  Proof. apply holds_observe. Qed.

  (* Merge of good files: a good file that shows, for every id, exactly what the newest version shows *)
  Theorem merge_visible_full rs w m :
    Forall (rgood2 gcap) rs -> merge_writer gcap rs = Some w ->
    total_hosts 4 (w_groups w) < P32 /\ total_hosts 16 (w_groups w) < P32 -> lenN (w_packets w) < P32 ->
    new_reader (finalize w) = Some m ->
    rgood2 gcap m /\ forall id, visible [m] id = visible rs id.
  Proof.
    intros Hg Hw Ht Hcnt Hm. unfold merge_writer in Hw.
    assert (Hgr : Forall (rgood2 gcap) (rev rs)) by (apply Forall_rev; assumption).
    destruct (minv2_fold _ _ [] _ minv2_new Hgr Hw Hcnt) as [Gw Hv]. cbn [app] in Hv.
    destruct (reader_of_good_writer2 w m Gw Ht Hm) as (Gm & Hs & Hmeta & Hh).
    split; [assumption|]. intros id.
    assert (Hg1 : Forall (rgood gcap) rs) by (eapply Forall_impl; [|exact Hg]; intros a Ha; apply Ha).
    rewrite (visible_newest gcap rs id Hg1). specialize (Hv id). cbn [visible].
    destruct (newest (rev rs) id) as [[r srec]|].
    - destruct Hv as (rec & s & Hin & Hid & Hmr & Hwh & Hrh). rewrite <- Hs in Hin.
      destruct (rg_byid _ _ (r2_good _ _ Gm) _ Hin) as (k & Hk). rewrite Hid in Hk. rewrite Hk. f_equal.
      apply (holds_observe m rec r srec s); [now apply Hh|assumption|]. now rewrite Hmeta.
    - rewrite (rg_none _ _ (r2_good _ _ Gm)); [reflexivity|]. now rewrite Hs.
  Qed.

  (* the property *)
  Corollary merge_invisible_full pre rs w m :
    Forall (rgood2 gcap) rs -> merge_writer gcap rs = Some w ->
    total_hosts 4 (w_groups w) < P32 /\ total_hosts 16 (w_groups w) < P32 -> lenN (w_packets w) < P32 ->
    new_reader (finalize w) = Some m ->
    forall id, visible (pre ++ [m]) id = visible (pre ++ rs) id.
  Proof.
    intros Hg Hw Ht Hcnt Hm id. destruct (merge_visible_full rs w m Hg Hw Ht Hcnt Hm) as [_ Hv].
    now rewrite !visible_app, Hv.
  Qed.

  (* base case: files written by AddStream calls *)
  Lemma written_reader_good2 L w r :
    16 < gcap -> Forall (fun ids => wf_meta (snd ids)) L -> Forall (fun ids => wf_stream (snd ids)) L -> NoDup (ids_of L) ->
    add_streams gcap new_writer L = Some w ->
    total_hosts 4 (w_groups w) < P32 /\ total_hosts 16 (w_groups w) < P32 -> lenN (w_packets w) < P32 ->
    new_reader (finalize w) = Some r -> rgood2 gcap r.
  Proof.
    intros Hc Hwf Hws Hnd Hadd Ht Hcnt Hr.
    pose proof (add_streams_winv gcap ltac:(lia) L new_writer [] w (winv_new gcap) Hwf Hadd) as (HF & Hok & Hsz & _). cbn [app] in HF.
    assert (Gr : rgood gcap r) by (eapply written_reader_good; eauto).
    assert (Nw : names_imps (w_imports w)).
    { apply (add_streams_names gcap L new_writer w (Forall_nil _)); [|assumption].
      eapply Forall_impl; [|exact Hws]. intros a (_ & _ & _ & Hn & _). exact Hn. }
    constructor; [assumption|now rewrite (reader_imports w r Nw Hr)|].
    rewrite (rw_streams w r Hr). apply Forall_forall. intros rec Hin.
    destruct (Forall2_in_l _ _ _ HF _ Hin) as ([id s] & HinL & St). cbn [fst snd] in St.
    rewrite Forall_forall in Hws. pose proof (Hws _ HinL) as Hs. cbn [snd] in Hs.
    exists s. unfold rholds. rewrite (reader_imports w r Nw Hr), (rw_packets w r Hr), (rw_data w r Hr), (rw_ref w r Hr).
    destruct (sd_packets _ _ _ _ _ St) as (pre & post & Hp & Hps). destruct (sd_data _ _ _ _ _ St) as (dpre & dpost & Hd & Hds).
    destruct (sd_wf _ _ _ _ _ St) as (_ & Ho1 & Ho2).
    constructor.
    - assumption.
    - apply (sd_srcs _ _ _ _ _ St).
    - exists pre, post. split; [assumption|]. rewrite Hps. unfold u32. apply N.mod_small. rewrite Hp, lenN_app in Hcnt. lia.
    - exists dpre, dpost, (data_runs (s_packets s) (s_data s)), []. rewrite app_nil_r. split; [reflexivity|]. split; [constructor|].
      split; [exact Hd|assumption].
    - apply (sd_cbytes _ _ _ _ _ St).
    - apply (sd_sbytes _ _ _ _ _ St).
    - apply (sd_first _ _ _ _ _ St).
    - apply (sd_last _ _ _ _ _ St).
    - split; assumption.
  Qed.
End Final.
