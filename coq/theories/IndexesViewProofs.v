(* IndexesViewProofs.v -- C10 part of the model in Indexes.v: the visible map of the service list is
   exactly the newest version of every stream of every processed capture (for every action
   sequence, under the hypothesis that a merge writes the newest entry of every id -- property C07),
   and a view's snapshot is immutable. *)
From Coq Require Import List NArith Bool Arith Lia.
From Coq Require Import ZifyBool ZifyN ZifyNat.
Require Import Pk.Indexes Pk.IndexesProofs.
Import ListNotations.
Open Scope N_scope.

(* ================================================================ reading a stack of index files *)
Lemma find_ent_some : forall id es e, find_ent id es = Some e -> In e es /\ e_id e = id.
Proof.
  induction es; simpl; intros; [discriminate|].
  destruct (N.eqb_spec (e_id a) id).
  - inversion H; subst. auto.
  - destruct (IHes _ H). auto.
Qed.

Lemma find_ent_none : forall id es, find_ent id es = None <-> (forall e, In e es -> e_id e <> id).
Proof.
  induction es; simpl; split; intros.
  - tauto.
  - reflexivity.
  - destruct (N.eqb_spec (e_id a) id); [discriminate|].
    destruct H0; [subst; auto|]. apply IHes; auto.
  - destruct (N.eqb_spec (e_id a) id).
    + exfalso. apply (H a); auto.
    + apply IHes. intros. apply H. auto.
Qed.

Lemma lookup_vis_app : forall a b id,
  lookup_vis (a ++ b) id = match lookup_vis b id with Some e => Some e | None => lookup_vis a id end.
Proof.
  induction a; simpl; intros.
  - destruct (lookup_vis b id); reflexivity.
  - rewrite IHa. destruct (lookup_vis b id); reflexivity.
Qed.

Definition ents_of (fs : list file) : list entry := flat_map f_ents fs.

Lemma ents_of_app : forall a b, ents_of (a ++ b) = ents_of a ++ ents_of b.
Proof. intros. unfold ents_of. apply flat_map_app. Qed.

Lemma lookup_vis_some : forall fs id e, lookup_vis fs id = Some e -> In e (ents_of fs) /\ e_id e = id.
Proof.
  induction fs; simpl; intros; [discriminate|].
  destruct (lookup_vis fs id) eqn:E.
  - inversion H; subst. destruct (IHfs _ _ E). split; auto. apply in_or_app. auto.
  - apply find_ent_some in H. destruct H. split; auto. apply in_or_app. auto.
Qed.

Lemma lookup_vis_none : forall fs id, lookup_vis fs id = None <-> (forall e, In e (ents_of fs) -> e_id e <> id).
Proof.
  induction fs; simpl; split; intros.
  - tauto.
  - reflexivity.
  - destruct (lookup_vis fs id) eqn:E; [discriminate|].
    apply in_app_or in H0. destruct H0.
    + rewrite find_ent_none in H. auto.
    + rewrite IHfs in E. auto.
  - assert (E : lookup_vis fs id = None).
    { apply IHfs. intros. apply H. apply in_or_app. auto. }
    rewrite E. apply find_ent_none. intros. apply H. apply in_or_app. auto.
Qed.

Lemma ents_of_firstn_skipn : forall n fs e, In e (ents_of (firstn n fs)) \/ In e (ents_of (skipn n fs)) <-> In e (ents_of fs).
Proof.
  intros. rewrite <- (firstn_skipn n fs) at 3. rewrite ents_of_app, in_app_iff. tauto.
Qed.

(* ================================================================ the concrete merge satisfies the merge hypothesis *)
Lemma has_id_false_none : forall id r, existsb (has_id id) r = false <-> lookup_vis r id = None.
Proof.
  induction r; simpl; [tauto|].
  unfold has_id at 1. split; intros.
  - apply orb_false_iff in H. destruct H as [H1 H2]. apply IHr in H2. rewrite H2.
    destruct (find_ent id (f_ents a)); [discriminate|reflexivity].
  - destruct (lookup_vis r id) eqn:E; [discriminate|].
    rewrite H. simpl. apply IHr. reflexivity.
Qed.

Lemma find_ent_app : forall id a b, find_ent id (a ++ b) = match find_ent id a with Some e => Some e | None => find_ent id b end.
Proof. induction a; simpl; intros; [reflexivity|]. destruct (e_id a =? id); auto. Qed.

Lemma find_ent_filter : forall id (p : entry -> bool) es,
  (forall e, e_id e = id -> p e = true) -> find_ent id (filter p es) = find_ent id es.
Proof.
  induction es; simpl; intros; [reflexivity|].
  destruct (p a) eqn:P; simpl.
  - destruct (e_id a =? id); auto.
  - destruct (N.eqb_spec (e_id a) id); [rewrite (H a e) in P; discriminate|auto].
Qed.

Lemma find_ent_filter_none : forall id (p : entry -> bool) es,
  (forall e, e_id e = id -> p e = false) -> find_ent id (filter p es) = None.
Proof.
  induction es; simpl; intros; [reflexivity|].
  destruct (p a) eqn:P; simpl; auto.
  destruct (N.eqb_spec (e_id a) id); [rewrite (H a e) in P; discriminate|auto].
Qed.

Lemma merge_ents_lookup : forall fs id, find_ent id (merge_ents fs) = lookup_vis fs id.
Proof.
  unfold merge_ents. induction fs; simpl; intros; [reflexivity|].
  rewrite find_ent_app, IHfs.
  destruct (lookup_vis fs id) eqn:E; [reflexivity|].
  apply find_ent_filter. intros e He. subst id.
  apply has_id_false_none in E. rewrite E. reflexivity.
Qed.

Lemma merge_ents_sub : forall fs e, In e (merge_ents fs) -> In e (ents_of fs).
Proof.
  unfold merge_ents. induction fs; simpl; intros; [tauto|].
  apply in_app_or in H. apply in_or_app. destruct H.
  - right. auto.
  - left. apply filter_In in H. tauto.
Qed.

(* View.AllStreams returns exactly the visible map, every id once *)
Lemma all_streams_lookup : forall fs e, (forall f, In f fs -> NoDup (map e_id (f_ents f))) ->
  (In e (all_streams fs) <-> lookup_vis fs (e_id e) = Some e).
Proof.
  induction fs; simpl; intros e W; [split; [tauto|discriminate]|].
  assert (W' : forall f, In f fs -> NoDup (map e_id (f_ents f))) by auto.
  rewrite in_app_iff, (IHfs e W'), filter_In.
  destruct (lookup_vis fs (e_id e)) eqn:E.
  - split; intros H.
    + destruct H as [H|[_ H]]; [exact H|].
      assert (existsb (has_id (e_id e)) fs = true).
      { destruct (existsb (has_id (e_id e)) fs) eqn:X; [reflexivity|]. apply has_id_false_none in X. congruence. }
      rewrite H0 in H. discriminate.
    + left. exact H.
  - apply has_id_false_none in E. rewrite E. simpl.
    split; intros H.
    + destruct H as [H|[H _]]; [discriminate|].
      assert (N : NoDup (map e_id (f_ents a))) by auto.
      clear - H N. induction (f_ents a) as [|x r IH]; simpl in *; [tauto|].
      inversion N; subst. destruct H.
      * subst. rewrite N.eqb_refl. reflexivity.
      * destruct (N.eqb_spec (e_id x) (e_id e)); [|auto].
        exfalso. apply H2. rewrite e0. apply in_map. exact H.
    + right. apply find_ent_some in H. tauto.
Qed.

(* ================================================================ captures *)
Section Captures.
Variable capdb : N -> capture.

Definition ne (k : N) : bool := match capdb k with [] => false | _ => true end.

Lemma total_bytes_app : forall a b fl, total_bytes capdb (a ++ b) fl = total_bytes capdb a fl + total_bytes capdb b fl.
Proof. induction a; simpl; intros; [reflexivity|]. rewrite IHa. lia. Qed.

Lemma total_bytes_ne : forall ks fl, total_bytes capdb (filter ne ks) fl = total_bytes capdb ks fl.
Proof.
  induction ks; simpl; intros; [reflexivity|].
  unfold ne at 1. destruct (capdb a) eqn:E; simpl; rewrite IHks; [reflexivity|rewrite E; reflexivity].
Qed.

Lemma caps_flows_app : forall a b, caps_flows capdb (a ++ b) = caps_flows capdb a ++ caps_flows capdb b.
Proof. intros. unfold caps_flows. apply flat_map_app. Qed.

Lemma caps_flows_ne : forall ks, caps_flows capdb (filter ne ks) = caps_flows capdb ks.
Proof.
  unfold caps_flows. induction ks; simpl; [reflexivity|].
  unfold ne at 1. destruct (capdb a) eqn:E; simpl; rewrite IHks; [reflexivity|rewrite E; reflexivity].
Qed.

Lemma in_caps_iff : forall ks fl, in_caps capdb ks fl = true <-> In fl (caps_flows capdb ks).
Proof.
  intros. unfold in_caps. rewrite existsb_exists. split.
  - intros (x & H & E). apply N.eqb_eq in E. subst. exact H.
  - intros H. exists fl. split; [exact H|apply N.eqb_refl].
Qed.

Lemma in_caps_app : forall a b fl, in_caps capdb (a ++ b) fl = in_caps capdb a fl || in_caps capdb b fl.
Proof. intros. unfold in_caps. rewrite caps_flows_app, existsb_app. reflexivity. Qed.

Lemma in_caps_ne : forall ks fl, in_caps capdb (filter ne ks) fl = in_caps capdb ks fl.
Proof. intros. unfold in_caps. rewrite caps_flows_ne. reflexivity. Qed.

Lemma cap_bytes_zero : forall c fl, ~ In fl (map fst c) -> cap_bytes c fl = 0.
Proof.
  induction c as [|[f n] r]; simpl; intros; [reflexivity|].
  destruct (N.eqb_spec f fl); [exfalso; auto|]. rewrite IHr; auto.
Qed.

Lemma total_bytes_zero : forall ks fl, in_caps capdb ks fl = false -> total_bytes capdb ks fl = 0.
Proof.
  intros ks fl H. assert (N : ~ In fl (caps_flows capdb ks)).
  { intros X. apply in_caps_iff in X. congruence. }
  clear H. induction ks; simpl; [reflexivity|].
  unfold caps_flows in N. simpl in N. rewrite in_app_iff in N.
  rewrite cap_bytes_zero; [|tauto]. rewrite IHks; [reflexivity|]. unfold caps_flows. tauto.
Qed.

Lemma dedup_spec : forall l seen x, In x (dedup seen l) <-> In x l /\ ~ In x seen.
Proof.
  induction l; simpl; intros; [tauto|].
  destruct (existsb (N.eqb a) seen) eqn:E.
  - rewrite IHl. apply existsb_exists in E. destruct E as (y & Hy & Ey). apply N.eqb_eq in Ey. subst y.
    split; [tauto|]. intros [[H|H] N]; [subst; tauto|tauto].
  - simpl. rewrite IHl. simpl.
    assert (Na : ~ In a seen).
    { intros X. assert (existsb (N.eqb a) seen = true) by (apply existsb_exists; exists a; split; [auto|apply N.eqb_refl]). congruence. }
    split.
    + intros [H|[H1 H2]]; [subst; tauto|tauto].
    + intros [[H|H] N]; [auto|]. destruct (N.eq_dec a x); [auto|right; tauto].
Qed.

Lemma dedup_nodup : forall l seen, NoDup (dedup seen l).
Proof.
  induction l; simpl; intros; [constructor|].
  destruct (existsb (N.eqb a) seen); [apply IHl|].
  constructor; [|apply IHl]. rewrite dedup_spec. simpl. tauto.
Qed.

Lemma flows_of_iff : forall ks fl, In fl (flows_of capdb ks) <-> in_caps capdb ks fl = true.
Proof. intros. unfold flows_of. rewrite dedup_spec, in_caps_iff. simpl. tauto. Qed.

Lemma nodup_filter : forall (A : Type) (p : A -> bool) l, NoDup l -> NoDup (filter p l).
Proof.
  induction l; simpl; intros; [constructor|]. inversion H; subst.
  destruct (p a); [constructor; auto; rewrite filter_In; tauto|auto].
Qed.

(* ---------------------------------------------------------------- id assignment *)
Lemma find_flow_ents_some : forall fl es i, find_flow_ents fl es = Some i ->
  exists e, In e es /\ e_id e = i /\ e_flow e = fl.
Proof.
  induction es; simpl; intros; [discriminate|].
  destruct (N.eqb_spec (e_flow a) fl).
  - inversion H; subst. exists a. auto.
  - destruct (IHes _ H) as (e & ? & ? & ?). exists e. auto.
Qed.

Lemma find_flow_ents_none : forall fl es, find_flow_ents fl es = None -> forall e, In e es -> e_flow e <> fl.
Proof.
  induction es; simpl; intros; [tauto|].
  destruct (N.eqb_spec (e_flow a) fl); [discriminate|].
  destruct H0; [subst; auto|auto].
Qed.

Lemma find_flow_some : forall fl fs i, find_flow fl fs = Some i ->
  exists e, In e (ents_of fs) /\ e_id e = i /\ e_flow e = fl.
Proof.
  induction fs; simpl; intros; [discriminate|].
  destruct (find_flow_ents fl (f_ents a)) eqn:E.
  - inversion H; subst. destruct (find_flow_ents_some _ _ _ E) as (e & ? & ? & ?).
    exists e. split; [apply in_or_app; auto|auto].
  - destruct (IHfs _ H) as (e & ? & ? & ?). exists e. split; [apply in_or_app; auto|auto].
Qed.

Lemma find_flow_none : forall fl fs, find_flow fl fs = None -> forall e, In e (ents_of fs) -> e_flow e <> fl.
Proof.
  induction fs; simpl; intros; [tauto|].
  destruct (find_flow_ents fl (f_ents a)) eqn:E; [discriminate|].
  apply in_app_or in H0. destruct H0.
  - eapply find_flow_ents_none; eauto.
  - auto.
Qed.

Lemma max_id_ge : forall es e, In e es -> e_id e <= max_id es.
Proof.
  induction es; simpl; intros; [tauto|]. destruct H; [subst; lia|]. specialize (IHes _ H). lia.
Qed.

Lemma snap_next_gt : forall snap e, In e (ents_of snap) -> e_id e < snap_next snap.
Proof.
  unfold snap_next. intros snap.
  assert (G : forall nx e, (In e (ents_of snap) \/ e_id e < nx) ->
          e_id e < fold_left (fun nx f => if nx <=? max_id (f_ents f) then max_id (f_ents f) + 1 else nx) snap nx).
  { induction snap; simpl; intros nx e H.
    - destruct H; [tauto|exact H].
    - apply IHsnap. destruct H as [H|H].
      + apply in_app_or in H. destruct H; [|left; exact H].
        right. apply max_id_ge in H. destruct (N.leb_spec nx (max_id (f_ents a))); lia.
      + right. destruct (N.leb_spec nx (max_id (f_ents a))); lia. }
  intros e H. apply G. auto.
Qed.

Definition is_fresh (snap : list file) (e : entry) : Prop := find_flow (e_flow e) snap = None.

Lemma assign_spec : forall allk snap fls next es n,
  assign capdb allk snap fls next = (es, n) ->
  next <= n /\ map e_flow es = fls /\
  (forall e, In e es -> e_ver e = total_bytes capdb allk (e_flow e)) /\
  (forall e, In e es -> find_flow (e_flow e) snap = Some (e_id e) \/ (is_fresh snap e /\ next <= e_id e < n)) /\
  (forall e1 e2, In e1 es -> In e2 es -> is_fresh snap e1 -> is_fresh snap e2 -> e_id e1 = e_id e2 -> e_flow e1 = e_flow e2).
Proof.
  induction fls as [|fl r IH]; simpl; intros next es n H.
  - inversion H; subst. repeat split; try lia; simpl; tauto.
  - destruct (assign capdb allk snap r (snd match find_flow fl snap with Some i => (i, next) | None => (next, next + 1) end)) as [es' n'] eqn:E.
    inversion H; subst; clear H.
    destruct (IH _ _ _ E) as (L & M & V & F & D).
    destruct (find_flow fl snap) eqn:FF; simpl in *.
    + repeat split; try lia.
      * rewrite M. reflexivity.
      * intros e [He|He]; [subst; reflexivity|auto].
      * intros e [He|He]; [subst; simpl; left; exact FF|].
        destruct (F e He) as [X|[X Y]]; [left; exact X|right; split; [exact X|lia]].
      * intros e1 e2 [H1|H1] [H2|H2] F1 F2 Eq; try (subst; reflexivity).
        -- subst e1. unfold is_fresh in F1. simpl in F1. congruence.
        -- subst e2. unfold is_fresh in F2. simpl in F2. congruence.
        -- eapply D; eauto.
    + repeat split; try lia.
      * rewrite M. reflexivity.
      * intros e [He|He]; [subst; reflexivity|auto].
      * intros e [He|He]; [subst; simpl; right; split; [exact FF|lia]|].
        destruct (F e He) as [X|[X Y]]; [left; exact X|right; split; [exact X|lia]].
      * intros e1 e2 [H1|H1] [H2|H2] F1 F2 Eq; try (subst; reflexivity).
        -- subst e1. simpl in Eq. destruct (F e2 H2) as [X|[_ Y]]; [unfold is_fresh in F2; congruence|lia].
        -- subst e2. simpl in Eq. destruct (F e1 H1) as [X|[_ Y]]; [unfold is_fresh in F1; congruence|lia].
        -- eapply D; eauto.
Qed.

End Captures.

(* ================================================================ what FromPcap writes *)
Section View.
Variable capdb : N -> capture.
Variable bad : N -> bool.
Variable merge : list file -> list entry.
(* the merge hypothesis (property C07): the merged file holds the newest entry of every id and nothing else *)
Hypothesis merge_lookup : forall fs id, find_ent id (merge fs) = lookup_vis fs id.
Hypothesis merge_sub : forall fs e, In e (merge fs) -> In e (ents_of fs).

Definition created_entries (P caps : list N) (snap : list file) : list entry :=
  fst (fst (from_pcap capdb bad (filter (ne capdb) P) caps snap)).

(* the files a job accounts for: everything up to the first unreadable file (or that file alone) *)
Lemma good_prefix_firstn : forall ks, firstn (length (good_prefix bad ks)) ks = good_prefix bad ks.
Proof. induction ks; simpl; [reflexivity|]. destruct (bad a); simpl; [reflexivity|]. rewrite IHks. reflexivity. Qed.

Lemma proc_caps_firstn : forall ks, firstn (length (proc_caps bad ks)) ks = proc_caps bad ks.
Proof.
  intros ks. unfold proc_caps. destruct (good_prefix bad ks) eqn:E.
  - destruct ks; reflexivity.
  - rewrite <- E. apply good_prefix_firstn.
Qed.

Definition ids_ok (fs : list file) : Prop :=
  forall e1 e2, In e1 (ents_of fs) -> In e2 (ents_of fs) -> (e_id e1 = e_id e2 <-> e_flow e1 = e_flow e2).

Definition sub_pairs (a b : list file) : Prop :=
  forall e, In e (ents_of a) -> exists e', In e' (ents_of b) /\ e_id e' = e_id e /\ e_flow e' = e_flow e.

(* the visible map of fs = newest version of every stream of the captures P *)
Definition spec_ok (P : list N) (fs : list file) : Prop :=
  (forall id e, lookup_vis fs id = Some e ->
     in_caps capdb P (e_flow e) = true /\ e_ver e = total_bytes capdb P (e_flow e)) /\
  (forall fl, in_caps capdb P fl = true -> exists e, lookup_vis fs (e_id e) = Some e /\ e_flow e = fl).

Lemma spec_ok_ext : forall P a b, (forall id, lookup_vis a id = lookup_vis b id) -> spec_ok P b -> spec_ok P a.
Proof.
  intros P a b E [S1 S2]. split; intros.
  - rewrite E in H. eauto.
  - destruct (S2 _ H) as (e & ? & ?). exists e. rewrite E. auto.
Qed.

Lemma ids_ok_sub : forall a b, (forall e, In e (ents_of a) -> In e (ents_of b)) -> ids_ok b -> ids_ok a.
Proof. unfold ids_ok. intros. apply H0; auto. Qed.

Lemma sub_pairs_refl : forall a, sub_pairs a a.
Proof. intros a e H. exists e. auto. Qed.

Lemma sub_pairs_sub : forall a b c, (forall e, In e (ents_of a) -> In e (ents_of b)) -> sub_pairs b c -> sub_pairs a c.
Proof. unfold sub_pairs. intros. auto. Qed.

Lemma nodup_map_inj : forall (A B : Type) (f : A -> B) l x y,
  NoDup (map f l) -> In x l -> In y l -> f x = f y -> x = y.
Proof.
  induction l; simpl; intros x y N Hx Hy E; [tauto|]. inversion N; subst.
  destruct Hx, Hy; subst; auto.
  - exfalso. apply H1. rewrite E. apply in_map. auto.
  - exfalso. apply H1. rewrite <- E. apply in_map. auto.
Qed.

Lemma from_pcap_spec : forall P caps snap,
  let es := created_entries P caps snap in
  let pc := proc_caps bad caps in
  NoDup (map e_flow es) /\
  (forall fl, In fl (map e_flow es) <-> in_caps capdb pc fl = true) /\
  (forall e, In e es -> e_ver e = total_bytes capdb (P ++ pc) (e_flow e)) /\
  (forall e, In e es -> find_flow (e_flow e) snap = Some (e_id e) \/ (is_fresh snap e /\ snap_next snap <= e_id e)) /\
  (forall e1 e2, In e1 es -> In e2 es -> is_fresh snap e1 -> is_fresh snap e2 -> e_id e1 = e_id e2 -> e_flow e1 = e_flow e2) /\
  snd (from_pcap capdb bad (filter (ne capdb) P) caps snap) = filter (ne capdb) (P ++ pc) /\
  (es = [] -> filter (ne capdb) pc = []).
Proof.
  intros P caps snap. unfold created_entries, from_pcap.
  fold (ne capdb).
  set (pc := proc_caps bad caps).
  set (newk := filter (ne capdb) pc).
  set (allk := filter (ne capdb) P ++ newk).
  set (touched := filter (in_caps capdb newk) (flows_of capdb allk)).
  destruct (assign capdb allk snap touched (snap_next snap)) as [es n] eqn:E. simpl.
  destruct (assign_spec _ _ _ _ _ _ _ E) as (L & M & V & F & D).
  assert (T : forall fl, In fl touched <-> in_caps capdb pc fl = true).
  { intros fl. subst touched. rewrite filter_In, flows_of_iff. subst allk newk.
    rewrite in_caps_app, !in_caps_ne. destruct (in_caps capdb pc fl); simpl; [|split; [tauto|discriminate]].
    rewrite orb_true_r. tauto. }
  assert (A : forall fl, total_bytes capdb allk fl = total_bytes capdb (P ++ pc) fl).
  { intros fl. subst allk newk. rewrite !total_bytes_app, !total_bytes_ne. reflexivity. }
  repeat split.
  - rewrite M. subst touched. apply nodup_filter. unfold flows_of. apply dedup_nodup; try exact capdb.
  - rewrite M. apply T.
  - rewrite M. apply T.
  - intros e H. rewrite (V e H). apply A.
  - intros e H. destruct (F e H) as [X|[X Y]]; [left; exact X|right; split; [exact X|lia]].
  - exact D.
  - subst allk newk. rewrite filter_app. reflexivity.
  - intros Z. subst es. simpl in M.
    destruct newk as [|k r] eqn:Ek; [reflexivity|exfalso].
    assert (Hk : In k newk) by (rewrite Ek; left; reflexivity).
    subst newk. apply filter_In in Hk. destruct Hk as [Hk1 Hk2]. unfold ne in Hk2.
    destruct (capdb k) as [|[f b] c] eqn:Ec; [discriminate|].
    assert (in_caps capdb pc f = true).
    { apply in_caps_iff. unfold caps_flows. apply in_flat_map. exists k. split; [exact Hk1|]. rewrite Ec. left. reflexivity. }
    apply T in H. rewrite <- M in H. exact H.
Qed.

(* ================================================================ the invariant *)
Definition pending_caps (st : state) : list N :=
  match ijob st with
  | Some j => match ij_phase j with AtDone => proc_caps bad (ij_caps j) | AtStart => [] end
  | None => []
  end.

Definition mk_created (u : N) (es : list entry) : list file :=
  match es with [] => [] | _ => [mkFile u es] end.

Record inv10 (st : state) : Prop := {
  v_spec : spec_ok (processed st) (indexes st);
  v_ids : ids_ok (indexes st);
  v_known : known st = filter (ne capdb) (processed st ++ pending_caps st);
  v_ij : forall j, ijob st = Some j ->
           sub_pairs (indexes st) (ij_snap j) /\ ids_ok (ij_snap j) /\
           (ij_phase j = AtDone ->
              ij_nproc j = length (proc_caps bad (ij_caps j)) /\
              exists u, ij_created j = mk_created u (created_entries (processed st) (ij_caps j) (ij_snap j)));
  v_mj : forall j, mjob st = Some j ->
           firstn (length (mj_snap j)) (skipn (mj_off j) (indexes st)) = mj_snap j /\
           (mj_phase j = AtDone ->
              mj_merged j = [] \/    (* index.Merge failed *)
              exists u, mj_merged j = match mj_snap j with [] => [] | _ => [mkFile u (merge (mj_snap j))] end)
}.

Lemma inv10_same : forall st st',
  indexes st' = indexes st -> processed st' = processed st -> known st' = known st ->
  ijob st' = ijob st -> mjob st' = mjob st -> inv10 st -> inv10 st'.
Proof.
  intros st st' E1 E2 E3 E4 E5 [S I K J M].
  constructor; unfold pending_caps in *; rewrite ?E1, ?E2, ?E3, ?E4, ?E5; auto.
Qed.

Lemma inv10_start_tagging : forall st, inv10 st -> inv10 (start_tagging st).
Proof.
  intros st I. unfold start_tagging. destruct (tjob st); auto. destruct (unc st =? 0); auto.
  apply (inv10_same st); auto.
Qed.

Lemma inv10_start_converter : forall st, inv10 st -> inv10 (start_converter st).
Proof.
  intros st I. unfold start_converter. destruct (cjob st); auto. destruct (cwork st); auto.
  apply (inv10_same st); auto.
Qed.

Lemma inv10_set_used_disk : forall st md, inv10 st -> inv10 (set_used_disk st md).
Proof. intros. apply (inv10_same st); auto. Qed.

Lemma firstn_all_skipn : forall (A : Type) i (l : list A), firstn (length (skipn i l)) (skipn i l) = skipn i l.
Proof. intros. apply firstn_all. Qed.

Lemma inv10_start_merge : forall st, inv10 st -> mjob st = None -> inv10 (start_merge st).
Proof.
  intros st I Hm. unfold start_merge. rewrite Hm.
  destruct (tjob st); auto. destruct (cjob st); auto. destruct (unc st =? 0); auto.
  destruct (find_merge (nunm st) (indexes st)) as [i|]; auto.
  destruct I as [S I K J M].
  constructor; simpl; auto.
  intros j E. inversion E; subst; simpl. unfold copy_from. split; [apply firstn_all_skipn|discriminate].
Qed.

Lemma inv10_start_merge' : forall st, inv10 st -> inv10 (start_merge st).
Proof.
  intros st I. destruct (mjob st) eqn:Hm; [|apply inv10_start_merge; auto].
  unfold start_merge. rewrite Hm. exact I.
Qed.

Lemma inv10_launch_import : forall files st, inv10 st -> ijob st = None -> inv10 (launch_import files st).
Proof.
  intros files st [S I K J M] Hn.
  constructor; simpl; auto.
  - unfold pending_caps in *. simpl. rewrite Hn in K. exact K.
  - intros j E. inversion E; subst; simpl. unfold copy_from. simpl.
    split; [apply sub_pairs_refl|]. split; [exact I|discriminate].
Qed.

(* ================================================================ preservation, action by action *)
Variable rf : bool.
Variable junk : list N.      (* files manager.New could not load (IndexesProofs.v) *)
Notation stepm := (step capdb bad rf merge).

Lemma v_step_import : forall ks st, inv13 junk st -> inv10 st -> inv10 (stepm st (AImport ks)).
Proof.
  intros ks st I3 I. simpl. destruct ks as [|k ks']; [exact I|].
  set (ks := k :: ks') in *.
  destruct (ascending (next_cap st) ks); [|exact I].
  match goal with |- inv10 (if _ then launch_import ?f ?s else _) => set (st1 := s) end.
  assert (I1 : inv10 st1) by (apply (inv10_same st); auto).
  destruct (Nat.eqb_spec (length (queue st ++ ks)) (length ks)); [|exact I1].
  apply inv10_launch_import; [exact I1|]. simpl.
  apply length_app_eq_nil in e.
  destruct (ijob st) eqn:Hj; [|reflexivity].
  exfalso. apply (i_queue _ _ _ I3); [rewrite Hj; discriminate|exact e].
Qed.

Lemma v_step_view : forall v st, inv10 st -> inv10 (stepm st (AView v)).
Proof. intros v st I. simpl. destruct (view_of v (views st)); [exact I|]. apply (inv10_same st); auto. Qed.

Lemma v_step_read : forall v st, inv10 st -> inv10 (stepm st (ARead v)).
Proof.
  intros v st I. simpl. destruct (view_of v (views st)) as [[|f s]|]; try exact I.
  destruct rf; [|exact I]. apply (inv10_same st); auto.
Qed.

Lemma v_step_release : forall v st, inv10 st -> inv10 (stepm st (ARelease v)).
Proof. intros v st I. simpl. destruct (view_of v (views st)); [|exact I]. apply (inv10_same st); auto. Qed.

Lemma v_step_prefetch : forall v st, inv10 st -> inv10 (stepm st (APrefetch v)).
Proof.
  intros v st I. simpl. destruct (vtag_of v (vtags st)) as [[stamp b]|]; [|exact I]. apply (inv10_same st); auto.
Qed.

Lemma v_step_tagadd : forall st, inv10 st -> inv10 (stepm st ATagAdd).
Proof. intros st I. simpl. apply inv10_start_tagging. exact I. Qed.

Lemma v_step_tagdel : forall h st, inv10 st -> inv10 (stepm st (ATagDel h)).
Proof. intros h st I. simpl. apply inv10_start_tagging. apply (inv10_same st); auto. Qed.

Lemma v_step_tagupd : forall h st, inv10 st -> inv10 (stepm st (ATagUpd h)).
Proof.
  intros h st I. simpl. apply inv10_start_converter. apply inv10_start_tagging. apply (inv10_same st); auto.
Qed.

Lemma v_step_env : forall st a, inv10 st ->
  match a with AMarkNew | AMarkEdit | AConvSet | AConvRemove | AConvAdd | AEnvUnc _ | AEnvConvWork _ | ABoot => True | _ => False end ->
  inv10 (stepm st a).
Proof.
  intros st a I H. destruct a; try contradiction; simpl; try exact I.
  - apply (inv10_same st); auto.
  - apply inv10_start_converter. apply inv10_start_tagging. apply (inv10_same st); auto.
  - apply inv10_start_converter. apply inv10_start_tagging. exact I.
  - apply inv10_start_tagging. exact I.
  - apply (inv10_same st); auto.
  - apply (inv10_same st); auto.
  - apply inv10_start_merge'. apply inv10_start_converter. apply inv10_start_tagging. exact I.
Qed.

Lemma v_step_start_conv : forall st, inv10 st -> inv10 (stepm st (AStart KConvert)).
Proof.
  intros st I. simpl. destruct (cjob st) as [[snap [|]]|]; try exact I. apply (inv10_same st); auto.
Qed.

Lemma v_step_complete_conv : forall st, inv10 st -> inv10 (stepm st (AComplete KConvert)).
Proof.
  intros st I. simpl. destruct (cjob st) as [[snap [|]]|]; try exact I.
  apply inv10_set_used_disk. apply inv10_start_merge'. apply inv10_start_converter. apply inv10_start_tagging.
  apply (inv10_same st); auto.
Qed.

Lemma v_step_start_tag : forall st, inv10 st -> inv10 (stepm st (AStart KTag)).
Proof.
  intros st I. simpl. destruct (tjob st) as [[snap [|] vv]|]; try exact I. apply (inv10_same st); auto.
Qed.

Lemma v_step_complete_tag : forall st, inv10 st -> inv10 (stepm st (AComplete KTag)).
Proof.
  intros st I. simpl. destruct (tjob st) as [[snap [|] vv]|]; try exact I.
  apply inv10_set_used_disk. apply inv10_start_merge'. apply inv10_start_converter. apply inv10_start_tagging.
  apply (inv10_same st); auto.
Qed.

Lemma v_step_start_merge : forall st, inv10 st -> inv10 (stepm st (AStart KMerge)).
Proof.
  intros st I. simpl. destruct (mjob st) as [[off snap [|] mg]|] eqn:Hj; try exact I.
  destruct I as [S I K J M].
  constructor; simpl; auto.
  intros j E. inversion E; subst; simpl. destruct (M _ Hj) as [M1 _]. simpl in M1.
  split; [exact M1|]. intros _. right. exists (next_uid st). destruct snap; reflexivity.
Qed.

Lemma v_step_mergefail : forall st, inv10 st -> inv10 (stepm st AMergeFail).
Proof.
  intros st I. simpl. destruct (mjob st) as [[off snap [|] mg]|] eqn:Hj; try exact I.
  destruct I as [S I K J M].
  constructor; simpl; auto.
  intros j E. inversion E; subst; simpl. destruct (M _ Hj) as [M1 _]. simpl in M1.
  split; [exact M1|]. intros _. left. reflexivity.
Qed.

Lemma v_step_start_import : forall st, inv10 st -> inv10 (stepm st (AStart KImport)).
Proof.
  intros st I. simpl.
  destruct (ijob st) as [[caps nx snap [|] cr un np]|] eqn:Hj; try exact I.
  destruct I as [S I K J M].
  assert (K0 : known st = filter (ne capdb) (processed st)).
  { rewrite K. unfold pending_caps. rewrite Hj. simpl. rewrite app_nil_r. reflexivity. }
  pose proof (from_pcap_spec (processed st) caps snap) as SP. simpl in SP.
  destruct SP as (_ & _ & _ & _ & _ & SK & SE).
  unfold created_entries in SE. rewrite <- K0 in SK, SE.
  destruct (from_pcap capdb bad (known st) caps snap) as [[es usednew] allk] eqn:FP. simpl in SK, SE.
  constructor; simpl; auto.
  - unfold pending_caps. simpl. destruct es.
    + rewrite K0, filter_app, (SE eq_refl), app_nil_r. reflexivity.
    + rewrite SK. reflexivity.
  - intros j E. inversion E; subst; simpl. destruct (J _ Hj) as (J1 & J2 & _). simpl in J1, J2.
    split; [exact J1|]. split; [exact J2|]. intros _. split; [reflexivity|]. exists (next_uid st).
    unfold created_entries. rewrite <- K0, FP. simpl. destruct es; reflexivity.
Qed.

Lemma split_run : forall (A : Type) off n (l : list A),
  l = firstn off l ++ firstn n (skipn off l) ++ skipn (off + n) l.
Proof.
  intros. rewrite <- skipn_add. rewrite (firstn_skipn n (skipn off l)). rewrite firstn_skipn. reflexivity.
Qed.

Lemma lookup_vis_single : forall f id, lookup_vis [f] id = find_ent id (f_ents f).
Proof. reflexivity. Qed.

Lemma v_step_complete_merge : forall st, inv10 st -> inv10 (stepm st (AComplete KMerge)).
Proof.
  intros st I. simpl. destruct (mjob st) as [[off snap [|] mg]|] eqn:Hj; try exact I.
  apply inv10_set_used_disk.
  destruct (v_mj _ I _ Hj) as [M1 M2]. simpl in M1, M2.
  destruct mg as [|m0 mg'].
  - apply inv10_start_merge; [|reflexivity]. destruct I as [S I K J M].
    constructor; simpl; auto. intros j E. discriminate.
  - destruct (M2 eq_refl) as [Mg|[u Mg]]; [discriminate|]. clear M2.
    destruct snap as [|s0 snap']; [discriminate|].
    set (snap := s0 :: snap') in *. inversion Mg; subst m0 mg'. clear Mg.
    apply inv10_start_merge; [|reflexivity].
    set (pre := firstn off (indexes st)). set (post := skipn (off + length snap) (indexes st)).
    assert (D : indexes st = pre ++ snap ++ post).
    { rewrite <- M1 at 1. apply split_run. }
    set (mf := mkFile u (merge snap)).
    assert (LE : forall id, lookup_vis (pre ++ [mf] ++ post) id = lookup_vis (indexes st) id).
    { intros id. rewrite D, !lookup_vis_app, lookup_vis_single. simpl. rewrite merge_lookup. reflexivity. }
    assert (SUB : forall e, In e (ents_of (pre ++ [mf] ++ post)) -> In e (ents_of (indexes st))).
    { assert (EM : ents_of [mf] = merge snap) by (unfold ents_of; simpl; apply app_nil_r).
      intros e. rewrite D, !ents_of_app, EM, !in_app_iff.
      intros [H|[H|H]]; auto. }
    destruct I as [S I K J M].
    constructor; simpl; fold pre post snap mf.
    + eapply spec_ok_ext; [exact LE|exact S].
    + eapply ids_ok_sub; [exact SUB|exact I].
    + exact K.
    + intros j E. destruct (J j E) as (J1 & J2 & J3). split; [|split]; auto.
      eapply sub_pairs_sub; [exact SUB|exact J1].
    + intros j E. discriminate.
Qed.

Lemma firstn_skipn_app_keep : forall (A : Type) n off (l c : list A),
  length (firstn n (skipn off l)) = n -> firstn n (skipn off (l ++ c)) = firstn n (skipn off l).
Proof.
  intros A n off l c H. rewrite skipn_app, firstn_app.
  rewrite firstn_length in H.
  replace (n - length (skipn off l))%nat with 0%nat by lia. simpl. apply app_nil_r.
Qed.

(* what the completion of an import publishes *)
Lemma import_publish : forall P caps snap idx u,
  spec_ok P idx -> ids_ok idx -> sub_pairs idx snap -> ids_ok snap ->
  let es := created_entries P caps snap in
  spec_ok (P ++ proc_caps bad caps) (idx ++ mk_created u es) /\ ids_ok (idx ++ mk_created u es).
Proof.
  intros P caps0 snap idx u [S1 S2] I J1 J2. simpl.
  destruct (from_pcap_spec P caps0 snap) as (ND & FL & VER & IDS & FRESH & _ & _).
  remember (created_entries P caps0 snap) as es eqn:Ees0. clear Ees0.
  remember (proc_caps bad caps0) as caps eqn:Ecaps. clear Ecaps caps0.
  (* an entry of the new file against an entry of the snapshot *)
  assert (A1 : forall e p, In e es -> In p (ents_of snap) -> (e_id e = e_id p <-> e_flow e = e_flow p)).
  { intros e p He Hp. destruct (IDS e He) as [X|[X Y]].
    - destruct (find_flow_some _ _ _ X) as (q & Hq & Q1 & Q2).
      rewrite <- Q1, <- Q2. apply J2; auto.
    - split; intros Z.
      + pose proof (snap_next_gt capdb snap p Hp). lia.
      + exfalso. eapply (find_flow_none capdb); [exact X|exact Hp|auto]. }
  assert (A2 : forall e x, In e es -> In x (ents_of idx) -> (e_id e = e_id x <-> e_flow e = e_flow x)).
  { intros e x He Hx. destruct (J1 x Hx) as (p & Hp & P1 & P2). rewrite <- P1, <- P2. apply A1; auto. }
  assert (A3 : forall e1 e2, In e1 es -> In e2 es -> (e_id e1 = e_id e2 <-> e_flow e1 = e_flow e2)).
  { intros e1 e2 H1 H2. split; intros Z.
    - destruct (IDS e1 H1) as [X1|[X1 Y1]], (IDS e2 H2) as [X2|[X2 Y2]].
      + destruct (find_flow_some _ _ _ X2) as (q & Hq & Q1 & Q2).
        rewrite <- Q2. apply (A1 e1 q H1 Hq). congruence.
      + destruct (find_flow_some _ _ _ X1) as (q & Hq & Q1 & Q2).
        pose proof (snap_next_gt capdb snap q Hq). lia.
      + destruct (find_flow_some _ _ _ X2) as (q & Hq & Q1 & Q2).
        pose proof (snap_next_gt capdb snap q Hq). lia.
      + apply FRESH; auto.
    - assert (e1 = e2) by (eapply (nodup_map_inj _ _ e_flow); eauto). subst. reflexivity. }
  destruct es as [|e0 es'] eqn:Ees.
  - (* nothing created *)
    simpl. rewrite app_nil_r.
    assert (NC : forall fl, in_caps capdb caps fl = false).
    { intros fl. destruct (in_caps capdb caps fl) eqn:X; [|reflexivity]. apply FL in X. simpl in X. tauto. }
    split; [|exact I]. split.
    + intros id e H. destruct (S1 id e H) as [H1 H2].
      rewrite in_caps_app, H1, total_bytes_app, (total_bytes_zero capdb caps _ (NC _)), H2. split; [reflexivity|lia].
    + intros fl H. rewrite in_caps_app, NC, orb_false_r in H. apply S2. exact H.
  - assert (MK : mk_created u es = [mkFile u es]) by (rewrite Ees; reflexivity).
    rewrite <- Ees in *. clear Ees e0 es'.
    rewrite MK.
    assert (LK : forall id, lookup_vis (idx ++ [mkFile u es]) id =
                 match find_ent id es with Some e => Some e | None => lookup_vis idx id end).
    { intros id. rewrite lookup_vis_app, lookup_vis_single. reflexivity. }
    split.
    + split.
      * intros id e H. rewrite LK in H. destruct (find_ent id es) as [e'|] eqn:FE.
        -- inversion H; subst e'. apply find_ent_some in FE. destruct FE as [He _].
           rewrite (VER e He). split; [|reflexivity].
           rewrite in_caps_app. assert (in_caps capdb caps (e_flow e) = true) by (apply FL; apply in_map; exact He).
           rewrite H0. apply orb_true_r.
        -- destruct (S1 id e H) as [H1 H2].
           destruct (lookup_vis_some _ _ _ H) as [Hx Hid].
           assert (NC : in_caps capdb caps (e_flow e) = false).
           { destruct (in_caps capdb caps (e_flow e)) eqn:X; [|reflexivity]. exfalso.
             apply FL in X. apply in_map_iff in X. destruct X as (e' & Ef & He').
             assert (e_id e' = e_id e) by (apply (A2 e' e He' Hx); exact Ef).
             rewrite find_ent_none in FE. apply (FE e' He'). congruence. }
           rewrite in_caps_app, H1, total_bytes_app, (total_bytes_zero capdb caps _ NC), H2. split; [reflexivity|lia].
      * intros fl H. rewrite in_caps_app in H.
        destruct (in_caps capdb caps fl) eqn:X.
        -- apply FL in X. apply in_map_iff in X. destruct X as (e & Ef & He).
           destruct (find_ent (e_id e) es) as [e1|] eqn:FE.
           ++ destruct (find_ent_some _ _ _ FE) as [H1 H1id].
              exists e1. rewrite H1id in *. split.
              ** rewrite <- H1id at 1. rewrite LK. rewrite H1id, FE. reflexivity.
              ** rewrite <- Ef. apply (A3 e1 e H1 He). exact H1id.
           ++ exfalso. rewrite find_ent_none in FE. apply (FE e He). reflexivity.
        -- rewrite orb_false_r in H. destruct (S2 fl H) as (e & He & Ef).
           exists e. split; [|exact Ef]. rewrite LK.
           destruct (find_ent (e_id e) es) as [e1|] eqn:FE; [|exact He]. exfalso.
           destruct (find_ent_some _ _ _ FE) as [H1 H1id].
           destruct (lookup_vis_some _ _ _ He) as [Hx _].
           assert (e_flow e1 = e_flow e) by (apply (A2 e1 e H1 Hx); exact H1id).
           assert (in_caps capdb caps (e_flow e1) = true) by (apply FL; apply in_map; exact H1).
           congruence.
    + (* ids stay consistent *)
      intros x y Hx Hy. rewrite ents_of_app, in_app_iff in Hx, Hy.
      assert (EN : ents_of [mkFile u es] = es) by (unfold ents_of; simpl; apply app_nil_r).
      rewrite EN in Hx, Hy.
      destruct Hx as [Hx|Hx], Hy as [Hy|Hy].
      * apply I; auto.
      * split; intros Z; symmetry; apply (A2 y x Hy Hx); auto.
      * apply A2; auto.
      * apply A3; auto.
Qed.

Lemma v_step_complete_import : forall st, inv10 st -> inv10 (stepm st (AComplete KImport)).
Proof.
  intros st I. simpl.
  destruct (ijob st) as [[caps nx snap [|] cr un np]|] eqn:Hj; try exact I.
  apply inv10_start_merge'. apply inv10_start_converter. apply inv10_start_tagging.
  match goal with |- inv10 (match ?qq with [] => ?s1 | _ => _ end) => set (st1 := s1) end.
  assert (I1 : inv10 st1).
  { destruct I as [S I K J M].
    destruct (J _ Hj) as (J1 & J2 & J3). simpl in J1, J2, J3. destruct (J3 eq_refl) as [Np [u Cr]]. clear J3.
    subst np. subst st1. rewrite proc_caps_firstn.
    destruct (import_publish (processed st) caps snap (indexes st) u S I J1 J2) as [P1 P2].
    rewrite <- Cr in P1, P2.
    constructor; simpl; auto.
    - rewrite K. unfold pending_caps. rewrite Hj. simpl. rewrite app_nil_r. reflexivity.
    - intros j E. discriminate.
    - intros j E. destruct (M j E) as [M1 M2]. split; [|exact M2].
      rewrite firstn_skipn_app_keep; [exact M1|]. rewrite M1. reflexivity. }
  assert (Hij : ijob st1 = None) by reflexivity.
  clearbody st1.
  destruct (skipn np (queue st)); [exact I1|].
  apply inv10_launch_import; [exact I1|exact Hij].
Qed.

Theorem step_inv10 : forall st a, inv13 junk st -> inv10 st -> inv10 (stepm st a).
Proof.
  intros st a I3 I. destruct a as [ks|v|v|v|v| |h|h| | | | | |n|b| | |k|k].
  - apply v_step_import; auto.
  - apply v_step_view; auto.
  - apply v_step_read; auto.
  - apply v_step_release; auto.
  - apply v_step_prefetch; auto.
  - apply v_step_tagadd; auto.
  - apply v_step_tagdel; auto.
  - apply v_step_tagupd; auto.
  - apply v_step_env; simpl; auto.
  - apply v_step_env; simpl; auto.
  - apply v_step_env; simpl; auto.
  - apply v_step_env; simpl; auto.
  - apply v_step_env; simpl; auto.
  - apply v_step_env; simpl; auto.
  - apply v_step_env; simpl; auto.
  - apply v_step_env; simpl; auto.
  - apply v_step_mergefail; auto.
  - destruct k; [apply v_step_start_import|apply v_step_start_merge|apply v_step_start_tag|apply v_step_start_conv]; auto.
  - destruct k; [apply v_step_complete_import|apply v_step_complete_merge|apply v_step_complete_tag|apply v_step_complete_conv]; auto.
Qed.

Lemma inv10_init : inv10 init.
Proof.
  constructor; simpl; try (intros; discriminate).
  - split; simpl; intros; discriminate.
  - intros e1 e2 H. simpl in H. tauto.
  - reflexivity.
Qed.

Theorem run_inv10_from : forall acts st, inv13 junk st -> inv10 st -> inv10 (fold_left stepm acts st).
Proof. induction acts; simpl; intros; auto. apply IHacts; [apply step_inv13|apply step_inv10]; auto. Qed.

(* ================================================================ every served file lists an id at most once *)
Definition files_ok (fs : list file) : Prop := forall f, In f fs -> NoDup (map e_id (f_ents f)).
Hypothesis merge_nodup : forall fs, files_ok fs -> NoDup (map e_id (merge fs)).

Lemma nodup_map_transfer : forall (A B C : Type) (f : A -> B) (g : A -> C) l,
  NoDup (map f l) -> (forall x y, In x l -> In y l -> g x = g y -> f x = f y) -> NoDup (map g l).
Proof.
  induction l; simpl; intros N H; constructor; inversion N; subst.
  - intros X. apply in_map_iff in X. destruct X as (y & E & Hy).
    apply H2. rewrite <- (H y a); auto. apply in_map. exact Hy.
  - apply IHl; auto.
Qed.

Lemma in_firstn : forall (A : Type) n (l : list A) x, In x (firstn n l) -> In x l.
Proof. intros. rewrite <- (firstn_skipn n l). apply in_or_app. auto. Qed.

Lemma files_ok_firstn : forall n fs, files_ok fs -> files_ok (firstn n fs).
Proof. intros n fs H f Hf. apply H. eapply in_firstn. eauto. Qed.

Lemma in_skipn : forall (A : Type) n (l : list A) x, In x (skipn n l) -> In x l.
Proof. intros. rewrite <- (firstn_skipn n l). apply in_or_app. auto. Qed.

Lemma files_ok_skipn : forall n fs, files_ok fs -> files_ok (skipn n fs).
Proof. intros n fs H f Hf. apply H. eapply in_skipn. eauto. Qed.

Lemma step_files_ok : forall st a, inv10 st -> files_ok (indexes st) -> files_ok (indexes (stepm st a)).
Proof.
  intros st a I U. destruct a as [ks|v|v|v|v| |h|h| | | | | |n|b| | |k|k]; simpl; auto.
  - destruct ks; auto. destruct (ascending _ _); auto. destruct (_ =? _)%nat; auto.
  - destruct (view_of v (views st)); auto.
  - destruct (view_of v (views st)) as [[|]|]; auto. destruct rf; auto.
  - destruct (view_of v (views st)); auto.
  - destruct (vtag_of v (vtags st)) as [[stamp b0]|]; auto.
  - rewrite indexes_start_tagging. exact U.
  - rewrite indexes_start_tagging. exact U.
  - rewrite indexes_start_converter, indexes_start_tagging. exact U.
  - rewrite indexes_start_converter, indexes_start_tagging. exact U.
  - rewrite indexes_start_converter, indexes_start_tagging. exact U.
  - rewrite indexes_start_tagging. exact U.
  - rewrite indexes_start_merge, indexes_start_converter, indexes_start_tagging. exact U.
  - destruct (mjob st) as [[off snap [|] mg]|]; auto.
  - destruct k.
    + destruct (ijob st) as [[caps nx snap [|] cr un np]|]; auto.
      destruct (from_pcap capdb bad (known st) caps snap) as [[es usednew] allk]. auto.
    + destruct (mjob st) as [[off snap [|] mg]|]; auto.
    + destruct (tjob st) as [[snap [|] vv]|]; auto.
    + destruct (cjob st) as [[snap [|]]|]; auto.
  - destruct k.
    + destruct (ijob st) as [[caps nx snap [|] cr un np]|] eqn:Hj; auto.
      rewrite indexes_start_merge, indexes_start_converter, indexes_start_tagging.
      assert (E : forall s1 : state, indexes match skipn np (queue st) with [] => s1 | _ :: _ => launch_import (skipn np (queue st)) s1 end = indexes s1).
      { intros. destruct (skipn np (queue st)); reflexivity. }
      rewrite E. simpl.
      destruct (v_ij _ I _ Hj) as (J1 & J2 & J3). simpl in J1, J2, J3. destruct (J3 eq_refl) as [_ [u Cr]]. clear J3.
      destruct (import_publish (processed st) caps snap (indexes st) u (v_spec _ I) (v_ids _ I) J1 J2) as [_ P2].
      destruct (from_pcap_spec (processed st) caps snap) as (ND & _).
      rewrite Cr. intros f Hf. apply in_app_or in Hf. destruct Hf as [Hf|Hf]; [auto|].
      unfold mk_created in Hf, P2.
      destruct (created_entries (processed st) caps snap) as [|e0 es'] eqn:Ees; [simpl in Hf; tauto|].
      rewrite <- Ees in *. destruct Hf as [Hf|[]]. subst f. simpl.
      apply (nodup_map_transfer _ _ _ e_flow e_id); [exact ND|].
      intros x y Hx Hy Exy. apply P2; auto; rewrite ents_of_app; apply in_or_app; right; unfold ents_of; simpl; rewrite app_nil_r; auto.
    + destruct (mjob st) as [[off snap [|] mg]|] eqn:Hj; auto.
      rewrite indexes_set_used_disk, indexes_start_merge.
      destruct (v_mj _ I _ Hj) as [M1 M2]. simpl in M1, M2.
      destruct mg as [|m0 mg']; [exact U|].
      destruct (M2 eq_refl) as [Mg|[u Mg]]; [discriminate|]. clear M2.
      destruct snap as [|s0 snap']; [discriminate|].
      inversion Mg; subst m0 mg'. clear Mg. simpl indexes.
      intros f Hf. apply in_app_or in Hf. destruct Hf as [Hf|Hf]; [eapply files_ok_firstn; eauto|].
      simpl in Hf. destruct Hf as [Hf|Hf]; [|eapply files_ok_skipn; eauto].
      subst f. simpl. apply merge_nodup. rewrite <- M1. apply files_ok_firstn. apply files_ok_skipn. exact U.
    + destruct (tjob st) as [[snap [|] vv]|]; auto.
      rewrite indexes_set_used_disk, indexes_start_merge, indexes_start_converter, indexes_start_tagging. exact U.
    + destruct (cjob st) as [[snap [|]]|]; auto.
      rewrite indexes_set_used_disk, indexes_start_merge, indexes_start_converter, indexes_start_tagging. exact U.
Qed.

Theorem run_files_ok_from : forall acts st, inv13 junk st -> inv10 st -> files_ok (indexes st) ->
  files_ok (indexes (fold_left stepm acts st)).
Proof.
  induction acts; simpl; intros; auto. apply IHacts; [apply step_inv13|apply step_inv10|apply step_files_ok]; auto.
Qed.

(* ================================================================ views *)
Lemma views_start_tagging : forall st, views (start_tagging st) = views st.
Proof. intros. unfold start_tagging. destruct (tjob st); auto. destruct (unc st =? 0); auto. Qed.

Lemma views_start_merge : forall st, views (start_merge st) = views st.
Proof.
  intros. unfold start_merge. destruct (mjob st); auto. destruct (tjob st); auto. destruct (cjob st); auto.
  destruct (unc st =? 0); auto. destruct (find_merge (nunm st) (indexes st)); auto.
Qed.

Lemma views_start_converter : forall st, views (start_converter st) = views st.
Proof. intros. unfold start_converter. destruct (cjob st); auto. destruct (cwork st); auto. Qed.

Lemma view_of_app : forall v a b, view_of v (a ++ b) = match view_of v a with Some s => Some s | None => view_of v b end.
Proof. induction a as [|[w s] r]; simpl; intros; [reflexivity|]. destruct (w =? v); auto. Qed.

Lemma view_of_del_other : forall v w vs, v <> w -> view_of v (del_view w vs) = view_of v vs.
Proof.
  induction vs as [|[x s] r]; simpl; intros; [reflexivity|].
  destruct (N.eqb_spec x w).
  - subst. destruct (N.eqb_spec w v); [congruence|reflexivity].
  - simpl. destruct (x =? v); auto.
Qed.

Lemma view_of_in : forall v vs s, view_of v vs = Some s -> In (v, s) vs.
Proof.
  induction vs as [|[w s0] r]; simpl; intros; [discriminate|].
  destruct (N.eqb_spec w v); [inversion H; subst; auto|auto].
Qed.

(* opening a view takes the service list as it is *)
Lemma view_open : forall st v, view_of v (views st) = None ->
  view_of v (views (stepm st (AView v))) = Some (indexes st).
Proof.
  intros st v H. simpl. rewrite H. simpl. rewrite view_of_app, H. simpl. rewrite N.eqb_refl. reflexivity.
Qed.

(* with the fetched flag (code since /repo 7300a1b) nothing but its own Release touches a view's snapshot *)
Lemma view_step_stable : forall st a v s, rf = false -> view_of v (views st) = Some s -> a <> ARelease v ->
  view_of v (views (stepm st a)) = Some s.
Proof.
  intros st a v s Hrf H Ha. destruct a as [ks|w|w|w|w| |h|h| | | | | |n|b| | |k|k]; simpl; auto.
  - destruct ks; auto. destruct (ascending _ _); auto. destruct (_ =? _)%nat; auto.
  - destruct (view_of w (views st)) eqn:E; auto. simpl. rewrite view_of_app, H. reflexivity.
  - destruct (view_of w (views st)) as [[|]|]; auto. rewrite Hrf. auto.
  - destruct (view_of w (views st)) eqn:E; auto. simpl. rewrite view_of_del_other; auto. congruence.
  - destruct (vtag_of w (vtags st)) as [[stamp b0]|]; auto.
  - rewrite views_start_tagging. exact H.
  - rewrite views_start_tagging. exact H.
  - rewrite views_start_converter, views_start_tagging. exact H.
  - rewrite views_start_converter, views_start_tagging. exact H.
  - rewrite views_start_converter, views_start_tagging. exact H.
  - rewrite views_start_tagging. exact H.
  - rewrite views_start_merge, views_start_converter, views_start_tagging. exact H.
  - destruct (mjob st) as [[off snap [|] mg]|]; auto.
  - destruct k.
    + destruct (ijob st) as [[caps nx snap [|] cr un np]|]; auto.
      destruct (from_pcap capdb bad (known st) caps snap) as [[es usednew] allk]. auto.
    + destruct (mjob st) as [[off snap [|] mg]|]; auto.
    + destruct (tjob st) as [[snap [|] vv]|]; auto.
    + destruct (cjob st) as [[snap [|]]|]; auto.
  - destruct k.
    + destruct (ijob st) as [[caps nx snap [|] cr un np]|]; auto.
      rewrite views_start_merge, views_start_converter, views_start_tagging.
      destruct (skipn np (queue st)); exact H.
    + destruct (mjob st) as [[off snap [|] mg]|]; auto.
      unfold set_used_disk. simpl. rewrite views_start_merge. destruct mg; exact H.
    + destruct (tjob st) as [[snap [|] vv]|]; auto.
      unfold set_used_disk. simpl. rewrite views_start_merge, views_start_converter, views_start_tagging. exact H.
    + destruct (cjob st) as [[snap [|]]|]; auto.
      unfold set_used_disk. simpl. rewrite views_start_merge, views_start_converter, views_start_tagging. exact H.
Qed.

Lemma view_run_stable : forall acts st v s, rf = false -> view_of v (views st) = Some s ->
  (forall a, In a acts -> a <> ARelease v) ->
  view_of v (views (fold_left stepm acts st)) = Some s.
Proof.
  induction acts; simpl; intros; auto.
  apply IHacts; auto. apply view_step_stable; auto.
Qed.

(* ---------------------------------------------------------------- the view's own copy of the tag details (ghost) *)
Lemma vtags_start_tagging : forall st, vtags (start_tagging st) = vtags st.
Proof. intros. unfold start_tagging. destruct (tjob st); auto. destruct (unc st =? 0); auto. Qed.

Lemma vtags_start_converter : forall st, vtags (start_converter st) = vtags st.
Proof. intros. unfold start_converter. destruct (cjob st); auto. destruct (cwork st); auto. Qed.

Lemma vtags_start_merge : forall st, vtags (start_merge st) = vtags st.
Proof.
  intros. unfold start_merge. destruct (mjob st); auto. destruct (tjob st); auto. destruct (cjob st); auto.
  destruct (unc st =? 0); auto. destruct (find_merge (nunm st) (indexes st)); auto.
Qed.

Lemma vtag_of_app : forall v a b, vtag_of v (a ++ b) = match vtag_of v a with Some t => Some t | None => vtag_of v b end.
Proof. induction a as [|[w t] r]; simpl; intros; [reflexivity|]. destruct (w =? v); auto. Qed.

Lemma vtag_of_del_other : forall v w vs, v <> w -> vtag_of v (del_vtag w vs) = vtag_of v vs.
Proof.
  induction vs as [|[x t] r]; simpl; intros; [reflexivity|].
  destruct (N.eqb_spec x w).
  - subst. destruct (N.eqb_spec w v); [congruence|reflexivity].
  - simpl. destruct (x =? v); auto.
Qed.

Lemma vtag_of_set_other : forall v w t vs, v <> w -> vtag_of v (set_vtag w t vs) = vtag_of v vs.
Proof.
  induction vs as [|[x t0] r]; simpl; intros; [reflexivity|].
  destruct (N.eqb_spec x w); simpl.
  - subst. destruct (N.eqb_spec w v); [congruence|reflexivity].
  - destruct (x =? v); auto.
Qed.

Lemma vtag_of_set_same : forall v t vs t0, vtag_of v vs = Some t0 -> vtag_of v (set_vtag v t vs) = Some t.
Proof.
  induction vs as [|[x t1] r]; simpl; intros; [discriminate|].
  destruct (N.eqb_spec x v); simpl.
  - subst. rewrite N.eqb_refl. reflexivity.
  - destruct (N.eqb_spec x v); [congruence|]. eauto.
Qed.

(* Whatever happens -- tag changes, environment, OTHER views evaluating tags lazily -- the copy of the tag details a view
   took at fetch keeps its stamp; only the view's own prefetch sets its "evaluated" flag. *)
Lemma vtag_step_stable : forall st a v stamp b, rf = false ->
  vtag_of v (vtags st) = Some (stamp, b) -> a <> ARelease v ->
  vtag_of v (vtags (stepm st a)) = Some (stamp, if match a with APrefetch w => w =? v | _ => false end then true else b).
Proof.
  intros st a v stamp b Hrf H Ha. destruct a as [ks|w|w|w|w| |h|h| | | | | |n|b0| | |k|k]; simpl; auto.
  - destruct ks; auto. destruct (ascending _ _); auto. destruct (_ =? _)%nat; auto.
  - destruct (view_of w (views st)) eqn:E; auto. simpl. rewrite vtag_of_app, H. reflexivity.
  - destruct (view_of w (views st)) as [[|]|]; auto. rewrite Hrf. auto.
  - destruct (view_of w (views st)) eqn:E; auto. simpl. rewrite vtag_of_del_other; auto. congruence.
  - destruct (N.eqb_spec w v).
    + subst w. rewrite H. simpl. eapply vtag_of_set_same. exact H.
    + destruct (vtag_of w (vtags st)) as [[s0 b1]|]; auto. simpl. rewrite vtag_of_set_other; auto.
  - rewrite vtags_start_tagging. exact H.
  - rewrite vtags_start_tagging. exact H.
  - rewrite vtags_start_converter, vtags_start_tagging. exact H.
  - rewrite vtags_start_converter, vtags_start_tagging. exact H.
  - rewrite vtags_start_converter, vtags_start_tagging. exact H.
  - rewrite vtags_start_tagging. exact H.
  - rewrite vtags_start_merge, vtags_start_converter, vtags_start_tagging. exact H.
  - destruct (mjob st) as [[off snap [|] mg]|]; auto.
  - destruct k.
    + destruct (ijob st) as [[caps nx snap [|] cr un np]|]; auto.
      destruct (from_pcap capdb bad (known st) caps snap) as [[es usednew] allk]. auto.
    + destruct (mjob st) as [[off snap [|] mg]|]; auto.
    + destruct (tjob st) as [[snap [|] vv]|]; auto.
    + destruct (cjob st) as [[snap [|]]|]; auto.
  - destruct k.
    + destruct (ijob st) as [[caps nx snap [|] cr un np]|]; auto.
      rewrite vtags_start_merge, vtags_start_converter, vtags_start_tagging.
      destruct (skipn np (queue st)); exact H.
    + destruct (mjob st) as [[off snap [|] mg]|]; auto.
      unfold set_used_disk. simpl. rewrite vtags_start_merge. destruct mg; exact H.
    + destruct (tjob st) as [[snap [|] vv]|]; auto.
      unfold set_used_disk. simpl. rewrite vtags_start_merge, vtags_start_converter, vtags_start_tagging. exact H.
    + destruct (cjob st) as [[snap [|]]|]; auto.
      unfold set_used_disk. simpl. rewrite vtags_start_merge, vtags_start_converter, vtags_start_tagging. exact H.
Qed.

Lemma vtag_run_stable : forall acts st v stamp b, rf = false ->
  vtag_of v (vtags st) = Some (stamp, b) -> (forall a, In a acts -> a <> ARelease v) ->
  exists b', vtag_of v (vtags (fold_left stepm acts st)) = Some (stamp, b') /\
             ((forall a, In a acts -> a <> APrefetch v) -> b' = b).
Proof.
  induction acts as [|a r IH]; simpl; intros st v stamp b Hrf H Hr.
  - exists b. auto.
  - assert (Ha : a <> ARelease v) by (apply Hr; auto).
    pose proof (vtag_step_stable st a v stamp b Hrf H Ha) as S.
    destruct (IH _ _ _ _ Hrf S (fun x Hx => Hr x (or_intror Hx))) as (b' & E & P).
    exists b'. split; [exact E|]. intros NP. rewrite P; [|intros x Hx; apply NP; auto].
    destruct a; auto. destruct (N.eqb_spec v0 v); [|reflexivity]. subst. exfalso. apply (NP (APrefetch v)); auto.
Qed.

Lemma vtag_open : forall st v, view_of v (views st) = None -> vtag_of v (vtags st) = None ->
  vtag_of v (vtags (stepm st (AView v))) = Some (tagver st, false).
Proof.
  intros st v H1 H2. simpl. rewrite H1. simpl. rewrite vtag_of_app, H2. simpl. rewrite N.eqb_refl. reflexivity.
Qed.

End View.

(* ================================================================ the concrete merge (newest entry of every id) meets all three hypotheses *)
Lemma nodup_app_intro : forall (A : Type) (a b : list A),
  NoDup a -> NoDup b -> (forall x, In x a -> ~ In x b) -> NoDup (a ++ b).
Proof.
  induction a; simpl; intros; auto. inversion H; subst. constructor.
  - rewrite in_app_iff. intros [X|X]; [auto|]. apply (H1 a); auto.
  - apply IHa; auto.
Qed.

Lemma nodup_map_filter : forall (A B : Type) (f : A -> B) (p : A -> bool) l,
  NoDup (map f l) -> NoDup (map f (filter p l)).
Proof.
  induction l; simpl; intros; auto. inversion H; subst.
  destruct (p a); simpl; [constructor|]; auto.
  intros X. apply H2. apply in_map_iff in X. destruct X as (y & E & Hy). apply filter_In in Hy.
  rewrite <- E. apply in_map. tauto.
Qed.

Lemma merge_ents_nodup : forall fs, files_ok fs -> NoDup (map e_id (merge_ents fs)).
Proof.
  unfold merge_ents. induction fs; simpl; intros W; [constructor|].
  rewrite map_app. apply nodup_app_intro.
  - apply IHfs. intros f Hf. apply W. right. exact Hf.
  - apply nodup_map_filter. apply W. left. reflexivity.
  - intros x Hx Hy.
    apply in_map_iff in Hx. destruct Hx as (e & Ex & He).
    apply in_map_iff in Hy. destruct Hy as (e' & Ey & He').
    apply filter_In in He'. destruct He' as [_ P]. rewrite Ey in P.
    apply negb_true_iff in P. apply has_id_false_none in P.
    pose proof (merge_ents_sub fs e He) as Hs.
    rewrite lookup_vis_none in P. apply (P e Hs). exact Ex.
Qed.

(* ================================================================ what an import completion reports as processed *)
(* The files a job was handed are (still) the front of the import queue: ImportPcaps only appends behind them, nothing else
   touches the queue while the job is in flight. Hence the completion reports exactly the files it removes from the queue. *)
Definition caps_prefix (st : state) : Prop :=
  forall j, ijob st = Some j -> firstn (length (ij_caps j)) (queue st) = ij_caps j.

Lemma iq_start_tagging : forall st, ijob (start_tagging st) = ijob st /\ queue (start_tagging st) = queue st.
Proof. intros. unfold start_tagging. destruct (tjob st); auto. destruct (unc st =? 0); auto. Qed.

Lemma iq_start_converter : forall st, ijob (start_converter st) = ijob st /\ queue (start_converter st) = queue st.
Proof. intros. unfold start_converter. destruct (cjob st); auto. destruct (cwork st); auto. Qed.

Lemma iq_start_merge : forall st, ijob (start_merge st) = ijob st /\ queue (start_merge st) = queue st.
Proof.
  intros. unfold start_merge. destruct (mjob st); auto. destruct (tjob st); auto. destruct (cjob st); auto.
  destruct (unc st =? 0); auto. destruct (find_merge (nunm st) (indexes st)); auto.
Qed.

Lemma caps_prefix_same : forall st st', ijob st' = ijob st -> queue st' = queue st -> caps_prefix st -> caps_prefix st'.
Proof. unfold caps_prefix. intros st st' E1 E2 H j Hj. rewrite E1 in Hj. rewrite E2. auto. Qed.

Lemma firstn_length_firstn : forall (A : Type) n (l : list A), firstn (length (firstn n l)) l = firstn n l.
Proof.
  induction n; destruct l; simpl; auto. rewrite IHn. reflexivity.
Qed.

Section ReportedProcessed.
Variable capdb : N -> capture.
Variable bad : N -> bool.
Variable rf : bool.
Variable merge : list file -> list entry.
Notation stepq := (step capdb bad rf merge).

Ltac same_iq st :=
  apply (caps_prefix_same st); auto.

Lemma step_caps_prefix : forall st a, caps_prefix st -> caps_prefix (stepq st a).
Proof.
  intros st a H. destruct a as [ks|v|v|v|v| |h|h| | | | | |n|b| | |k|k]; simpl.
  - destruct ks as [|k0 ks']; auto. set (ks := k0 :: ks') in *. clearbody ks.
    destruct (ascending (next_cap st) ks); auto.
    destruct (Nat.eqb_spec (length (queue st ++ ks)) (length ks)).
    + intros j Hj. unfold launch_import in *. cbn [ijob queue] in *. inversion Hj; subst j; cbn [ij_caps].
      apply firstn_length_firstn.
    + intros j Hj. cbn [ijob queue] in *. specialize (H j Hj).
      assert (L : (length (ij_caps j) <= length (queue st))%nat).
      { rewrite <- H at 1. rewrite firstn_length. lia. }
      rewrite firstn_app. replace (length (ij_caps j) - length (queue st))%nat with 0%nat by lia.
      simpl. rewrite app_nil_r. exact H.
  - destruct (view_of v (views st)); auto; same_iq st.
  - destruct (view_of v (views st)) as [[|]|]; auto. destruct rf; auto; same_iq st.
  - destruct (view_of v (views st)); auto; same_iq st.
  - destruct (vtag_of v (vtags st)) as [[s0 b0]|]; auto; same_iq st.
  - destruct (iq_start_tagging st) as [A B]; apply (caps_prefix_same st); [rewrite A|rewrite B|]; auto.
  - match goal with |- caps_prefix (start_tagging ?s) => destruct (iq_start_tagging s) as [A B]; apply (caps_prefix_same st); [rewrite A|rewrite B|]; auto end.
  - match goal with |- caps_prefix (start_converter (start_tagging ?s)) =>
      destruct (iq_start_tagging s) as [A B]; destruct (iq_start_converter (start_tagging s)) as [A2 B2];
      apply (caps_prefix_same st); [rewrite A2, A|rewrite B2, B|]; auto end.
  - same_iq st.
  - match goal with |- caps_prefix (start_converter (start_tagging ?s)) =>
      destruct (iq_start_tagging s) as [A B]; destruct (iq_start_converter (start_tagging s)) as [A2 B2];
      apply (caps_prefix_same st); [rewrite A2, A|rewrite B2, B|]; auto end.
  - destruct (iq_start_tagging st) as [A B]. destruct (iq_start_converter (start_tagging st)) as [A2 B2].
    apply (caps_prefix_same st); [rewrite A2, A|rewrite B2, B|]; auto.
  - destruct (iq_start_tagging st) as [A B]; apply (caps_prefix_same st); [rewrite A|rewrite B|]; auto.
  - exact H.
  - same_iq st.
  - same_iq st.
  - destruct (iq_start_tagging st) as [A B]. destruct (iq_start_converter (start_tagging st)) as [A2 B2].
    destruct (iq_start_merge (start_converter (start_tagging st))) as [A3 B3].
    apply (caps_prefix_same st); [rewrite A3, A2, A|rewrite B3, B2, B|]; auto.
  - destruct (mjob st) as [[off snap [|] mg]|]; auto; same_iq st.
  - destruct k.
    + destruct (ijob st) as [[caps nx snap [|] cr un np]|] eqn:Hj; auto.
      destruct (from_pcap capdb bad (known st) caps snap) as [[es usednew] allk].
      intros j E. simpl in E. inversion E; subst; simpl. exact (H _ Hj).
    + destruct (mjob st) as [[off snap [|] mg]|]; auto; same_iq st.
    + destruct (tjob st) as [[snap [|] vv]|]; auto; same_iq st.
    + destruct (cjob st) as [[snap [|]]|]; auto; same_iq st.
  - destruct k.
    + destruct (ijob st) as [[caps nx snap [|] cr un np]|] eqn:Hj; auto.
      match goal with |- caps_prefix (start_merge (start_converter (start_tagging ?s))) =>
        destruct (iq_start_tagging s) as [A B]; destruct (iq_start_converter (start_tagging s)) as [A2 B2];
        destruct (iq_start_merge (start_converter (start_tagging s))) as [A3 B3];
        apply (caps_prefix_same s); [rewrite A3, A2, A|rewrite B3, B2, B|]; auto end.
      destruct (skipn np (queue st)) eqn:Q.
      * intros j E. discriminate.
      * intros j E. unfold launch_import in *. cbn [ijob queue] in *. inversion E; subst j; cbn [ij_caps]. apply firstn_all.
    + destruct (mjob st) as [[off snap [|] mg]|]; auto.
      match goal with |- caps_prefix (set_used_disk (start_merge ?s) _) =>
        destruct (iq_start_merge s) as [A B]; apply (caps_prefix_same st); simpl; [rewrite A|rewrite B|]; auto end;
      destruct mg; reflexivity.
    + destruct (tjob st) as [[snap [|] vv]|]; auto.
      match goal with |- caps_prefix (set_used_disk (start_merge (start_converter (start_tagging ?s))) _) =>
        destruct (iq_start_tagging s) as [A B]; destruct (iq_start_converter (start_tagging s)) as [A2 B2];
        destruct (iq_start_merge (start_converter (start_tagging s))) as [A3 B3];
        apply (caps_prefix_same st); simpl; [rewrite A3, A2, A|rewrite B3, B2, B|]; auto end.
    + destruct (cjob st) as [[snap [|]]|]; auto.
      match goal with |- caps_prefix (set_used_disk (start_merge (start_converter (start_tagging ?s))) _) =>
        destruct (iq_start_tagging s) as [A B]; destruct (iq_start_converter (start_tagging s)) as [A2 B2];
        destruct (iq_start_merge (start_converter (start_tagging s))) as [A3 B3];
        apply (caps_prefix_same st); simpl; [rewrite A3, A2, A|rewrite B3, B2, B|]; auto end.
Qed.

Lemma run_caps_prefix : forall acts st, caps_prefix st -> caps_prefix (fold_left stepq acts st).
Proof. induction acts; simpl; intros; auto. apply IHacts. apply step_caps_prefix. auto. Qed.

(* the completion of an import job: the captures it reports processed are exactly the files it takes off the queue *)
Lemma report_is_queue_front : forall st j, caps_prefix st -> ijob st = Some j -> ij_phase j = AtDone ->
  (ij_nproc j <= length (ij_caps j))%nat ->
  let st' := stepq st (AComplete KImport) in
  exists reported, processed st' = processed st ++ reported /\ queue st = reported ++ queue st'.
Proof.
  intros st j H Hj Hp Hn st'. exists (firstn (ij_nproc j) (ij_caps j)).
  subst st'. simpl. rewrite Hj. destruct j as [caps nx snap ph cr un np]. simpl in *. subst ph.
  match goal with |- processed (start_merge (start_converter (start_tagging ?s))) = _ /\ _ = _ ++ queue (start_merge (start_converter (start_tagging ?s))) =>
    destruct (iq_start_tagging s) as [A B]; destruct (iq_start_converter (start_tagging s)) as [A2 B2];
    destruct (iq_start_merge (start_converter (start_tagging s))) as [A3 B3]; rewrite B3, B2, B;
    assert (PR : processed (start_merge (start_converter (start_tagging s))) = processed s) end.
  { unfold start_merge, start_converter, start_tagging.
    repeat match goal with |- context [match ?x with _ => _ end] => destruct x; simpl end; reflexivity. }
  rewrite PR. clear PR A A2 A3 B B2 B3.
  assert (F : firstn np caps = firstn np (queue st)).
  { pose proof (H _ Hj) as HH. simpl in HH. rewrite <- HH at 1. rewrite firstn_firstn. replace (Init.Nat.min np (length caps)) with np by lia. reflexivity. }
  split.
  - destruct (skipn np (queue st)); reflexivity.
  - rewrite F. destruct (skipn np (queue st)) eqn:Q; simpl; rewrite <- Q; symmetry; apply firstn_skipn.
Qed.

End ReportedProcessed.

(* ================================================================ statements of C10 *)
Lemma visible_once : forall fs id1 id2 e1 e2, ids_ok fs ->
  lookup_vis fs id1 = Some e1 -> lookup_vis fs id2 = Some e2 -> e_flow e1 = e_flow e2 -> id1 = id2.
Proof.
  intros fs id1 id2 e1 e2 I H1 H2 E.
  destruct (lookup_vis_some _ _ _ H1) as [A1 B1]. destruct (lookup_vis_some _ _ _ H2) as [A2 B2].
  rewrite <- B1, <- B2. apply (I e1 e2 A1 A2). exact E.
Qed.

Lemma all_streams_sub : forall fs e, In e (all_streams fs) -> In e (ents_of fs).
Proof. exact merge_ents_sub. Qed.

Section Statements.
Variable capdb : N -> capture.
Variable bad : N -> bool.
Variable merge : list file -> list entry.
Hypothesis merge_lookup : forall fs id, find_ent id (merge fs) = lookup_vis fs id.
Hypothesis merge_sub : forall fs e, In e (merge fs) -> In e (ents_of fs).
Hypothesis merge_nodup : forall fs, files_ok fs -> NoDup (map e_id (merge fs)).
(* any start state that satisfies the invariants: the empty directory (init) or what manager.New loads (init_from) *)
Variable junk : list N.
Variable st0 : state.
Hypothesis start13 : inv13 junk st0.
Hypothesis start10 : inv10 capdb bad merge st0.
Hypothesis startF : files_ok (indexes st0).

Let runf (rf : bool) (acts : list action) : state := fold_left (step capdb bad rf merge) acts st0.

Lemma run_inv10_st0 : forall rf acts, inv10 capdb bad merge (runf rf acts).
Proof. intros. apply (run_inv10_from capdb bad merge merge_lookup merge_sub rf junk); auto. Qed.

Lemma run_files_ok_st0 : forall rf acts, files_ok (indexes (runf rf acts)).
Proof. intros. apply (run_files_ok_from capdb bad merge merge_lookup merge_sub rf junk merge_nodup); auto. Qed.

Lemma view_snapshot : forall acts1 acts2 v,
  let st1 := runf false acts1 in
  let st2 := runf false (acts1 ++ AView v :: acts2) in
  view_of v (views st1) = None -> (forall a, In a acts2 -> a <> ARelease v) ->
  view_of v (views st2) = Some (indexes st1) /\ (forall f, In f (indexes st1) -> In (f_uid f) (disk st2)).
Proof.
  intros acts1 acts2 v st1 st2 Hn Hr.
  assert (V : view_of v (views st2) = Some (indexes st1)).
  { subst st2. unfold runf. rewrite fold_left_app. simpl fold_left at 1. apply view_run_stable; auto. apply (view_open capdb bad merge false). exact Hn. }
  split; [exact V|]. intros f Hf.
  apply (inv13_holder_on_disk junk); [apply run_inv13_from; exact start13|]. right. left.
  exists v, (indexes st1). split; [apply view_of_in; exact V|exact Hf].
Qed.

(* what AllStreams over a file list returns, when the list satisfies the invariant for the captures P *)
Lemma all_streams_answer : forall P fs, spec_ok capdb P fs -> ids_ok fs -> files_ok fs ->
  (forall e, In e (all_streams fs) ->
     in_caps capdb P (e_flow e) = true /\ e_ver e = total_bytes capdb P (e_flow e)) /\
  (forall fl, in_caps capdb P fl = true -> exists e, In e (all_streams fs) /\ e_flow e = fl) /\
  NoDup (map e_flow (all_streams fs)).
Proof.
  intros P fs [S1 S2] I W. split; [|split].
  - intros e H. apply (all_streams_lookup fs e W) in H. eapply S1; eauto.
  - intros fl H. destruct (S2 fl H) as (e & L & F). exists e. split; [|exact F].
    apply (all_streams_lookup fs e W). exact L.
  - apply (nodup_map_transfer _ _ _ e_id e_flow).
    + apply merge_ents_nodup. exact W.
    + intros x y Hx Hy E. apply (I x y); auto using all_streams_sub.
Qed.

Theorem view_answers : forall acts1 acts2 v,
  let st1 := runf false acts1 in
  let st2 := runf false (acts1 ++ AView v :: acts2) in
  view_of v (views st1) = None -> (forall a, In a acts2 -> a <> ARelease v) ->
  exists s, view_of v (views st2) = Some s /\
    (forall e, In e (all_streams s) ->
       in_caps capdb (processed st1) (e_flow e) = true /\
       e_ver e = total_bytes capdb (processed st1) (e_flow e)) /\
    (forall fl, in_caps capdb (processed st1) fl = true -> exists e, In e (all_streams s) /\ e_flow e = fl) /\
    NoDup (map e_flow (all_streams s)) /\
    (forall f, In f s -> In (f_uid f) (disk st2)).
Proof.
  intros acts1 acts2 v st1 st2 Hn Hr.
  destruct (view_snapshot acts1 acts2 v Hn Hr) as [V D].
  exists (indexes st1). split; [exact V|].
  pose proof (run_inv10_st0 false acts1) as I.
  pose proof (run_files_ok_st0 false acts1) as W.
  destruct (all_streams_answer (processed st1) (indexes st1) (v_spec _ _ _ _ I) (v_ids _ _ _ _ I) W) as (A & B & C).
  split; [exact A|]. split; [exact B|]. split; [exact C|exact D].
Qed.

Hypothesis startQ : caps_prefix st0.

Lemma proc_caps_len : forall ks, (length (proc_caps bad ks) <= length ks)%nat.
Proof.
  intros ks. pose proof (proc_caps_firstn bad ks) as H.
  rewrite <- H at 1. rewrite firstn_length. lia.
Qed.

Theorem report_names_queue_front : forall rf acts j,
  let st := runf rf acts in
  ijob st = Some j -> ij_phase j = AtDone ->
  let st' := step capdb bad rf merge st (AComplete KImport) in
  exists reported, processed st' = processed st ++ reported /\ queue st = reported ++ queue st'.
Proof.
  intros rf acts j st Hj Hp.
  apply (report_is_queue_front capdb bad rf merge st j); auto.
  - apply run_caps_prefix. exact startQ.
  - destruct (v_ij _ _ _ _ (run_inv10_st0 rf acts) j Hj) as (_ & _ & J3).
    destruct (J3 Hp) as [Np _]. rewrite Np. apply proc_caps_len.
Qed.

End Statements.

(* ================================================================ the two start states *)
Section Starts.
Variable capdb : N -> capture.
Variable bad : N -> bool.
Variable merge : list file -> list entry.

Lemma start_init : inv13 [] init /\ inv10 capdb bad merge init /\ files_ok (indexes init).
Proof.
  split; [|split].
  - exact (run_inv13 capdb bad false merge []).
  - apply inv10_init.
  - intros f H. simpl in H. tauto.
Qed.

(* manager.New over an index directory: the loaded files (in name order) must be what earlier runs left behind, i.e.
   represent the captures P processed so far -- that they do after a crash or restart is property C12 *)
Lemma start_from : forall fs junk P,
  NoDup (map f_uid fs ++ junk) -> spec_ok capdb P fs -> ids_ok fs -> files_ok fs ->
  inv13 junk (init_from capdb fs junk P) /\ inv10 capdb bad merge (init_from capdb fs junk P) /\
  files_ok (indexes (init_from capdb fs junk P)).
Proof.
  intros fs junk P ND S I W. split; [|split].
  - apply inv13_init_from; auto.
  - constructor; simpl; try (intros; discriminate); auto.
    unfold pending_caps. simpl. rewrite app_nil_r. reflexivity.
  - exact W.
Qed.

End Starts.
