(* C20 -- happens-before, data races, and soundness of the static discipline. *)
From Coq Require Import List NArith Bool Arith Lia.
Import ListNotations.
Require Import Pk.Ownership.

(* ------------------------------------------------------------------ happens-before *)
Definition at_ (tr : trace) (i : nat) (t : N) (a : action) : Prop :=
  nth_error tr i = Some (mkEv t a).

Inductive edge (tr : trace) : nat -> nat -> Prop :=
| E_po : forall i j t a b, i < j -> at_ tr i t a -> at_ tr j t b -> edge tr i j
| E_spawn : forall i j t c b, i < j -> at_ tr i t (Spawn c) -> at_ tr j c b -> edge tr i j
| E_msg : forall i j t t' m, i < j -> at_ tr i t (Send m) -> at_ tr j t' (Recv m) -> edge tr i j
| E_lock : forall i j t t' k x y, i < j -> at_ tr i t (Unlock k x) -> at_ tr j t' (Lock k y) ->
    x || y = true -> edge tr i j.

Inductive hb (tr : trace) : nat -> nat -> Prop :=
| hb_edge : forall i j, edge tr i j -> hb tr i j
| hb_trans : forall i j k, hb tr i j -> hb tr j k -> hb tr i k.

Lemma at_fun : forall tr i t a t' a', at_ tr i t a -> at_ tr i t' a' -> t = t' /\ a = a'.
Proof. unfold at_. intros. rewrite H in H0. inversion H0. auto. Qed.

Lemma edge_lt : forall tr i j, edge tr i j -> i < j.
Proof. intros tr i j H. destruct H; auto. Qed.

Lemma hb_lt : forall tr i j, hb tr i j -> i < j.
Proof. intros tr i j H. induction H. eapply edge_lt; eauto. lia. Qed.

(* two conflicting accesses of different threads, instances of rows r1 r2, not ordered *)
Definition race (tbl : list access) (tr : trace) (i j : nat) : Prop :=
  i < j /\ exists t1 t2 r1 r2 a1 a2,
    at_ tr i t1 (Acc r1) /\ at_ tr j t2 (Acc r2) /\ t1 <> t2 /\
    nth_error tbl r1 = Some a1 /\ nth_error tbl r2 = Some a2 /\
    conflicting a1 a2 = true /\ ~ hb tr i j.

(* ------------------------------------------------------------------ (a) one goroutine *)
Lemma rule_same_thread : forall tr i j t a b, i < j -> at_ tr i t a -> at_ tr j t b -> hb tr i j.
Proof. intros. apply hb_edge. eapply E_po; eauto. Qed.

(* ------------------------------------------------------------------ (b) before a goroutine
   starts: i, later a spawn by the same thread, then anything in the child or in what the
   child (transitively) starts *)
Inductive descends (tr : trace) : nat -> N -> Prop :=
| D_child : forall s t c, at_ tr s t (Spawn c) -> descends tr s c
| D_grand : forall s s' c c', descends tr s c -> s < s' -> at_ tr s' c (Spawn c') -> descends tr s c'.

(* a goroutine runs nothing before it was started *)
Definition spawn_first (tr : trace) : Prop :=
  forall s t c j b, at_ tr s t (Spawn c) -> at_ tr j c b -> s < j.

Lemma descends_hb : forall tr s c, spawn_first tr -> descends tr s c ->
  forall j b, at_ tr j c b -> hb tr s j.
Proof.
  intros tr s c SF D. induction D; intros j b AJ.
  - apply hb_edge. eapply E_spawn; eauto.
  - apply hb_trans with s'.
    + eapply IHD; eauto.
    + apply hb_edge. eapply E_spawn; eauto.
Qed.

Lemma rule_before_start : forall tr i s t a c j b,
  spawn_first tr -> i < s -> at_ tr i t a -> (exists c0, at_ tr s t (Spawn c0)) ->
  descends tr s c -> at_ tr j c b -> hb tr i j.
Proof.
  intros tr i s t a c j b SF LT AI [c0 AS] D AJ.
  apply hb_trans with s.
  - eapply rule_same_thread; eauto.
  - eapply descends_hb; eauto.
Qed.

(* ------------------------------------------------------------------ (c) one common mutex *)
(* thread t is inside a critical section of k (mode x) at index i *)
Definition in_cs (tr : trace) (i : nat) (t : N) (k : N) (x : bool) : Prop :=
  exists a, a < i /\ at_ tr a t (Lock k x) /\ forall u, a < u -> u < i -> ~ at_ tr u t (Unlock k x).

(* what a mutex guarantees: two acquisitions by different threads, at least one exclusive,
   are separated by the release of the first *)
Definition mutex_sem (tr : trace) : Prop :=
  forall a b t t' k x y, a < b -> t <> t' -> at_ tr a t (Lock k x) -> at_ tr b t' (Lock k y) ->
    x || y = true -> exists u, a < u /\ u < b /\ at_ tr u t (Unlock k x).

Lemma rule_common_mutex : forall tr i j t t' ai aj k x y,
  mutex_sem tr -> i < j -> t <> t' ->
  at_ tr i t ai -> at_ tr j t' aj ->
  (forall kk xx, ai <> Unlock kk xx) ->
  in_cs tr i t k x -> in_cs tr j t' k y -> x || y = true ->
  hb tr i j.
Proof.
  intros tr i j t t' ai aj k x y MS LT NE AI AJ NU [a [LA [ALa FA]]] [b [LB [ALb FB]]] XY.
  destruct (Nat.lt_trichotomy a b) as [AB | [AB | AB]].
  - (* t locked first: its unlock lies after i *)
    destruct (MS a b t t' k x y AB NE ALa ALb XY) as [u [U1 [U2 AU]]].
    assert (IU : i < u).
    { destruct (Nat.lt_trichotomy u i) as [C | [C | C]]; auto.
      - exfalso. eapply FA; eauto.
      - subst u. destruct (at_fun _ _ _ _ _ _ AI AU) as [_ E]. exfalso. eapply NU; eauto. }
    apply hb_trans with u. { eapply rule_same_thread; eauto. }
    apply hb_trans with b. { apply hb_edge. eapply E_lock; eauto. }
    eapply rule_same_thread; eauto.
  - subst b. destruct (at_fun _ _ _ _ _ _ ALa ALb) as [E _]. contradiction.
  - (* t' locked first: it would have had to unlock before t's lock, i.e. before j *)
    assert (XY' : y || x = true) by (rewrite orb_comm; exact XY).
    assert (NE' : t' <> t) by (intro E; apply NE; auto).
    destruct (MS b a t' t k y x AB NE' ALb ALa XY') as [u [U1 [U2 AU]]].
    exfalso. eapply (FB u); eauto. lia.
Qed.

(* ------------------------------------------------------------------ (d) handed over by a
   closure: i, then the same thread sends m; the receiver of m (the service goroutine) is the
   thread of j, later -- or it starts the goroutine of j *)
Lemma rule_send_receive : forall tr i s r j t t' a m b,
  i < s -> s < r -> r < j ->
  at_ tr i t a -> at_ tr s t (Send m) -> at_ tr r t' (Recv m) -> at_ tr j t' b -> hb tr i j.
Proof.
  intros. apply hb_trans with s. { eapply rule_same_thread; eauto. }
  apply hb_trans with r. { apply hb_edge. eapply E_msg; eauto. }
  eapply rule_same_thread; eauto.
Qed.

(* serial jobs: job instance A posts its completion, the loop receives it and afterwards
   starts instance B: everything in A is before everything in B *)
Lemma rule_serial_jobs : forall tr i s r p j tA tL tB a m b,
  spawn_first tr ->
  i < s -> s < r -> r < p ->
  at_ tr i tA a -> at_ tr s tA (Send m) -> at_ tr r tL (Recv m) -> at_ tr p tL (Spawn tB) ->
  at_ tr j tB b -> hb tr i j.
Proof.
  intros tr i s r p j tA tL tB a m b SF L1 L2 L3 AI AS AR AP AJ.
  apply hb_trans with s. { eapply rule_same_thread; eauto. }
  apply hb_trans with r. { apply hb_edge. eapply E_msg; eauto. }
  apply hb_trans with p. { eapply rule_same_thread; eauto. }
  apply hb_edge. eapply E_spawn; eauto.
Qed.

(* ------------------------------------------------------------------ the four rules give
   race freedom *)
Theorem ordered_pairs_no_race : forall tbl tr,
  (forall i j t1 t2 r1 r2 a1 a2, i < j -> at_ tr i t1 (Acc r1) -> at_ tr j t2 (Acc r2) -> t1 <> t2 ->
     nth_error tbl r1 = Some a1 -> nth_error tbl r2 = Some a2 -> conflicting a1 a2 = true ->
     hb tr i j) ->
  forall i j, ~ race tbl tr i j.
Proof.
  intros tbl tr H i j [LT [t1 [t2 [r1 [r2 [a1 [a2 [A1 [A2 [NE [R1 [R2 [C NH]]]]]]]]]]]]].
  apply NH. eapply H; eauto.
Qed.

(* ------------------------------------------------------------------ static discipline *)
Lemma common_lock_spec : forall l1 l2, common_lock l1 l2 = true ->
  exists k x y, In (k, x) l1 /\ In (k, y) l2 /\ x || y = true.
Proof.
  intros l1 l2 H. unfold common_lock in H. apply existsb_exists in H. destruct H as [[k x] [I1 H]].
  apply existsb_exists in H. destruct H as [[k' y] [I2 H]]. simpl in H.
  apply andb_true_iff in H. destruct H as [E XY]. apply N.eqb_eq in E. subst k'.
  exists k, x, y. auto.
Qed.

Lemma discipline_pair : forall cs tbl r1 r2 a1 a2, discipline cs tbl = true ->
  nth_error tbl r1 = Some a1 -> nth_error tbl r2 = Some a2 -> pair_ok cs a1 a2 = true.
Proof.
  intros cs tbl r1 r2 a1 a2 D N1 N2. unfold discipline in D.
  rewrite forallb_forall in D. specialize (D a1 (nth_error_In _ _ N1)).
  rewrite forallb_forall in D. apply D. eapply nth_error_In; eauto.
Qed.

Section Soundness.
  Variable cs : list ctxinfo.
  Variable tbl : list access.
  Variable tr : trace.

  Definition ctx_of (a : access) : option ctxinfo := find_ctx cs (a_ctx a).

  (* --- what the runtime guarantees *)
  Hypothesis H_mutex : mutex_sem tr.

  (* --- what the translator claims about the rows (trusted) *)
  (* an access recorded with lock (k, x) runs inside a critical section of k in mode x *)
  Hypothesis H_locks : forall i t r a k x, at_ tr i t (Acc r) -> nth_error tbl r = Some a ->
    In (k, x) (a_locks a) -> in_cs tr i t k x.
  (* rows of functions nobody calls have no instances *)
  Hypothesis H_dead : forall i t r a c, at_ tr i t (Acc r) -> nth_error tbl r = Some a ->
    ctx_of a = Some c -> is_dead c = false.
  (* a class marked self-ordered: one goroutine, or serial instances (rule_serial_jobs) *)
  Hypothesis H_self : forall i j t1 t2 r1 r2 a1 a2 c, i < j ->
    at_ tr i t1 (Acc r1) -> at_ tr j t2 (Acc r2) -> t1 <> t2 ->
    nth_error tbl r1 = Some a1 -> nth_error tbl r2 = Some a2 ->
    ctx_of a1 = Some c -> ctx_of a2 = Some c -> c_self c = true -> hb tr i j.
  (* New's accesses come before every goroutine New did not start itself
     (rule_before_start: the service goroutine and everything it starts; API callers get the
     manager from New's return) *)
  Hypothesis H_init : forall x y t1 t2 r1 r2 a1 a2 c1 c2,
    at_ tr x t1 (Acc r1) -> at_ tr y t2 (Acc r2) -> t1 <> t2 ->
    nth_error tbl r1 = Some a1 -> nth_error tbl r2 = Some a2 ->
    ctx_of a1 = Some c1 -> ctx_of a2 = Some c2 ->
    is_init c1 = true -> c_early c2 = false -> c_id c1 <> c_id c2 -> hb tr x y.
  (* an object is written through the variable it was allocated into before any other
     goroutine can reach it *)
  Hypothesis H_fresh : forall x y t1 t2 r1 r2 a1 a2 c1,
    at_ tr x t1 (Acc r1) -> at_ tr y t2 (Acc r2) -> t1 <> t2 ->
    nth_error tbl r1 = Some a1 -> nth_error tbl r2 = Some a2 ->
    ctx_of a1 = Some c1 -> is_fresh c1 = true -> conflicting a1 a2 = true -> hb tr x y.

  Lemma conflicting_sym : forall a b, conflicting a b = conflicting b a.
  Proof. intros a b. unfold conflicting. rewrite N.eqb_sym, orb_comm. reflexivity. Qed.

  Theorem discipline_sound : discipline cs tbl = true -> forall i j, ~ race tbl tr i j.
  Proof.
    intro D. apply ordered_pairs_no_race.
    intros i j t1 t2 r1 r2 a1 a2 LT A1 A2 NE R1 R2 C.
    pose proof (discipline_pair cs tbl r1 r2 a1 a2 D R1 R2) as P.
    unfold pair_ok in P. rewrite C in P. simpl in P.
    apply orb_true_iff in P. destruct P as [P | P].
    - (* common lock *)
      destruct (common_lock_spec _ _ P) as [k [x [y [I1 [I2 XY]]]]].
      eapply rule_common_mutex with (k := k) (x := x) (y := y); eauto.
      intros kk xx E. discriminate E.
    - (* contexts *)
      fold (ctx_of a1) in P. fold (ctx_of a2) in P.
      destruct (ctx_of a1) as [c1|] eqn:E1; try discriminate.
      destruct (ctx_of a2) as [c2|] eqn:E2; try discriminate.
      unfold ctx_ordered in P. repeat rewrite orb_true_iff in P.
      destruct P as [[[[[[P | P] | P] | P] | P] | P] | P].
      + rewrite (H_dead i t1 r1 a1 c1 A1 R1 E1) in P. discriminate.
      + rewrite (H_dead j t2 r2 a2 c2 A2 R2 E2) in P. discriminate.
      + eapply H_fresh with (x := i) (y := j); eauto.
      + (* the later access is the fresh one: it would have to come first *)
        assert (NE' : t2 <> t1) by (intro E; apply NE; auto).
        rewrite conflicting_sym in C.
        pose proof (H_fresh j i t2 t1 r2 r1 a2 a1 c2 A2 A1 NE' R2 R1 E2 P C) as HB.
        apply hb_lt in HB. lia.
      + apply andb_true_iff in P. destruct P as [EQ SELF]. apply N.eqb_eq in EQ.
        assert (E2' : ctx_of a2 = Some c1).
        { unfold ctx_of in *. clear - E1 E2 EQ.
          assert (G : forall l id c, find_ctx l id = Some c -> c_id c = id).
          { induction l as [|h l IH]; simpl; intros id c H; try discriminate.
            destruct (N.eqb_spec (c_id h) id). inversion H; subst; auto. apply IH; auto. }
          pose proof (G _ _ _ E1) as G1. pose proof (G _ _ _ E2) as G2.
          assert (EI : a_ctx a1 = a_ctx a2) by congruence.
          rewrite <- EI, E1 in E2. rewrite <- EI. rewrite E1. reflexivity. }
        eapply H_self with (c := c1); eauto.
      + repeat rewrite andb_true_iff in P. destruct P as [[I NEa] NEQ].
        rewrite negb_true_iff in NEa, NEQ. apply N.eqb_neq in NEQ.
        eapply H_init with (x := i) (y := j) (c1 := c1) (c2 := c2); eauto.
      + repeat rewrite andb_true_iff in P. destruct P as [[I NEa] NEQ].
        rewrite negb_true_iff in NEa, NEQ. apply N.eqb_neq in NEQ.
        assert (NE' : t2 <> t1) by (intro E; apply NE; auto).
        assert (NEQ' : c_id c2 <> c_id c1) by (intro E; apply NEQ; auto).
        pose proof (H_init j i t2 t1 r2 r1 a2 a1 c2 c1 A2 A1 NE' R2 R1 E2 E1 I NEa NEQ') as HB.
        apply hb_lt in HB. lia.
  Qed.
End Soundness.
