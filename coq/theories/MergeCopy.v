(* C07, part 3: what AddIndex copies.  Import remap, the packet block and the payload block of one stream,
   and the locality of Stream.Data(): it reads nothing beyond the stream's own records and segmentation. *)
From Coq Require Import Lia ZifyBool ZifyN ZifyNat Arith.
From Pk Require Import IndexFormat IndexFormatCodec IndexFormatHosts IndexFormatWriter IndexFormatData IndexFormatPackets IndexFormatScan Merge.
Open Scope N_scope.

(* ------------------------------------------------------------------ *)
(* A. import remap                                                     *)
(* ------------------------------------------------------------------ *)
Lemma find_import_new n o a : forall i, find_import n o a i = None -> find_import n o (a ++ [(n, o)]) i = Some (i + lenN a).
Proof.
  induction a as [|[n' o'] r IH]; intros i H; cbn [find_import app] in *.
  - rewrite bytes_eqb_refl, N.eqb_refl. cbn [andb]. rewrite lenN_nil. f_equal. lia.
  - destruct (bytes_eqb n' n && (o' =? o)); [discriminate|]. rewrite IH by assumption. rewrite lenN_cons. f_equal. lia.
Qed.

Lemma merge_imports_spec rimps : forall wimps wimps' imap,
    merge_imports wimps rimps = (wimps', imap) ->
    (exists ext, wimps' = wimps ++ ext) /\
    forall i n o, nth_error rimps i = Some (n, o) -> exists j, nth_error imap i = Some j /\ find_import n o wimps' 0 = Some j.
Proof.
  induction rimps as [|[n o] r IH]; intros wimps wimps' imap H; cbn [merge_imports] in H.
  - inversion H; subst. split; [exists []; now rewrite app_nil_r|]. intros [|i] ? ? Hi; discriminate.
  - destruct (find_import n o wimps 0) as [k|] eqn:Ef.
    + destruct (merge_imports wimps r) as [w1 m1] eqn:E. inversion H; subst; clear H.
      destruct (IH _ _ _ E) as ((ext & Hext) & Hm). split; [eauto|].
      intros [|i] n1 o1 Hi; cbn [nth_error] in *.
      * inversion Hi; subst n1 o1. exists k. split; [reflexivity|]. rewrite Hext. now apply find_import_app.
      * now apply Hm.
    + destruct (merge_imports (wimps ++ [(n, o)]) r) as [w1 m1] eqn:E. inversion H; subst; clear H.
      destruct (IH _ _ _ E) as ((ext & Hext) & Hm). split; [exists ([(n, o)] ++ ext); now rewrite Hext, <- app_assoc|].
      intros [|i] n1 o1 Hi; cbn [nth_error] in *.
      * inversion Hi; subst n1 o1. exists (lenN wimps). split; [reflexivity|]. rewrite Hext. apply find_import_app.
        now rewrite (find_import_new _ _ _ _ Ef), N.add_0_l.
      * now apply Hm.
Qed.

Definition remap_imp (imap : list N) (i : N) : N := match nthN imap i with Some j => j | None => 0 end.

Lemma remap_import_id rimps wimps' imap src :
  (forall i n o, nth_error rimps i = Some (n, o) -> exists j, nth_error imap i = Some j /\ find_import n o wimps' 0 = Some j) ->
  has_import rimps src -> remap_imp imap (import_id rimps src) = import_id wimps' src /\ has_import wimps' src.
Proof.
  intros Hm Hin. unfold has_import, import_id in *.
  destruct (find_import (fst src) (idx_off (snd src)) rimps 0) as [i|] eqn:E; [|contradiction].
  apply find_import_nth in E. destruct E as [_ E]. rewrite N.sub_0_r in E.
  destruct (Hm _ _ _ E) as (j & Hj & Hf). unfold remap_imp. rewrite nthN_nth_error, Hj, Hf. split; [reflexivity|discriminate].
Qed.

(* ------------------------------------------------------------------ *)
(* B. the packet block                                                 *)
(* ------------------------------------------------------------------ *)
Definition set_imp (f : N -> N) (p : packet_rec) : packet_rec :=
  {| pk_rel := pk_rel p; pk_imp := f (pk_imp p); pk_idx := pk_idx p; pk_size := pk_size p; pk_skip := pk_skip p; pk_flags := pk_flags p |}.

Lemma set_skips_map f : forall R, set_skips (map (set_imp f) R) = (map (set_imp f) (fst (set_skips R)), snd (set_skips R)).
Proof.
  induction R as [|p rest IH]; [reflexivity|]. cbn [map set_skips]. rewrite IH.
  destruct (set_skips rest) as [rest' d]. cbn [fst snd map]. destruct rest; reflexivity.
Qed.
Lemma clear_last_next_map f : forall R, clear_last_next (map (set_imp f) R) = map (set_imp f) (clear_last_next R).
Proof.
  induction R as [|p rest IH]; [reflexivity|]. destruct rest as [|q r]; [reflexivity|].
  cbn [map clear_last_next] in *. now rewrite IH.
Qed.
Lemma blockify_map f R : blockify (map (set_imp f) R) [] = map (set_imp f) (blockify R []).
Proof. unfold blockify. rewrite !app_nil_r, set_skips_map. cbn [fst]. apply clear_last_next_map. Qed.
Lemma blockify_later R later : blockify R later = blockify R [] ++ later.
Proof. unfold blockify. now rewrite app_nil_r. Qed.

(* copy_packets copies exactly the stream's block, with the import ids remapped *)
Lemma copy_packets_block imap later : forall R, R <> [] -> Forall flags_ok R ->
  copy_packets imap (blockify R later) = Some (map (set_imp (remap_imp imap)) (blockify R [])).
Proof.
  induction R as [|p rest IH]; intros Hne Hf; [contradiction|]. inversion Hf as [|? ? Hp Hr]; subst.
  destruct rest as [|q r].
  - rewrite !blockify_one. cbn [copy_packets map]. destruct (flags_term p Hp) as [T1 _]. unfold has_next in T1.
    destruct (pk_flags (terminator p) mod 2 =? 0); [reflexivity|discriminate].
  - rewrite !blockify_cons. cbn [copy_packets map]. pose proof (flags_has_next p Hp) as Hn. unfold has_next in Hn.
    cbn [pk_flags with_skip]. destruct (pk_flags p mod 2 =? 0); [discriminate|].
    rewrite IH by (discriminate || assumption). reflexivity.
Qed.

Lemma packet_records_remap f imps imps' rel dfl ds : forall srcs first,
    (forall src, In src srcs -> f (import_id imps src) = import_id imps' src) ->
    map (set_imp f) (packet_records imps rel dfl ds first srcs) = packet_records imps' rel dfl ds first srcs.
Proof.
  induction srcs as [|s r IH]; intros first H; [reflexivity|]. cbn [packet_records]. rewrite map_app, map_map.
  rewrite (IH false) by (intros; apply H; now right). f_equal.
  apply map_ext. intros z. unfold set_imp. cbn [pk_rel pk_imp pk_idx pk_size pk_skip pk_flags]. rewrite H by now left. reflexivity.
Qed.
Lemma stream_records_remap f imps imps' t0 d : forall ps pi,
    (forall p src, In p ps -> In src (p_srcs p) -> f (import_id imps src) = import_id imps' src) ->
    map (set_imp f) (stream_records imps t0 d pi ps) = stream_records imps' t0 d pi ps.
Proof.
  induction ps as [|p r IH]; intros pi H; [reflexivity|]. cbn [stream_records]. rewrite map_app.
  rewrite IH by (intros q src Hq Hs; apply (H q src); [now right|assumption]).
  rewrite (packet_records_remap f imps imps') by (intros src Hs; apply (H p src); [now left|assumption]). reflexivity.
Qed.
Lemma stream_block_remap f imps imps' s :
  (forall p src, In p (s_packets s) -> In src (p_srcs p) -> f (import_id imps src) = import_id imps' src) ->
  map (set_imp f) (stream_block imps s) = stream_block imps' s.
Proof.
  intros H. unfold stream_block.
  rewrite <- (stream_records_remap f imps imps') by assumption.
  rewrite set_skips_map. cbn [fst]. now rewrite clear_last_next_map.
Qed.

(* ------------------------------------------------------------------ *)
(* C. the payload block                                                *)
(* ------------------------------------------------------------------ *)
Lemma copy_varint_read : forall bs acc,
    match copy_varint bs acc with
    | Some (v, rd, rest) => read_varint bs acc = Some (v, rest) /\ bs = rd ++ rest
    | None => read_varint bs acc = None
    end.
Proof.
  induction bs as [|b r IH]; intros acc; cbn [copy_varint read_varint]; [reflexivity|].
  destruct (b <? 128); [split; reflexivity|]. specialize (IH (u64 (acc * 128) + b mod 128)).
  destruct (copy_varint r (u64 (acc * 128) + b mod 128)) as [[[v rd] rest]|]; [|assumption].
  destruct IH as [H1 H2]. split; [assumption|]. cbn [app]. now rewrite H2.
Qed.
Lemma copy_varint_varint sz rest : sz < P64 -> copy_varint (varint sz ++ rest) 0 = Some (sz, varint sz, rest).
Proof.
  intros H. pose proof (copy_varint_read (varint sz ++ rest) 0) as Hc. rewrite (read_varint_varint sz rest H) in Hc.
  destruct (copy_varint (varint sz ++ rest) 0) as [[[v rd] rest']|]; [|discriminate].
  destruct Hc as [H1 H2]. inversion H1; subst. apply app_inv_tail in H2. now subst.
Qed.

Fixpoint run_sum (runs : list (bool * N)) : N := match runs with [] => 0 | (_, z) :: r => z + run_sum r end.
Definition zero_runs (runs : list (bool * N)) : Prop := Forall (fun r => snd r = 0) runs.

Lemma run_sum_totals runs : run_sum runs = run_total false runs + run_total true runs.
Proof. induction runs as [|[d z] r IH]; cbn [run_sum run_total]; [reflexivity|]. destruct d; cbn [Bool.eqb]; lia. Qed.
Lemma zero_runs_sum runs : run_sum runs = 0 -> zero_runs runs.
Proof.
  induction runs as [|[d z] r IH]; intros H; [constructor|]. cbn [run_sum] in H. constructor; [cbn [snd]; lia|apply IH; lia].
Qed.
Lemma zero_runs_total d runs : zero_runs runs -> run_total d runs = 0.
Proof. induction 1 as [|[d' z] r Hz Hr IH]; cbn [run_total]; [reflexivity|]. cbn [snd] in Hz. subst. rewrite IH. now destruct (Bool.eqb d' d). Qed.

(* the segmentation is copied up to the varint that uses up the byte count: a prefix t of the runs, the rest being empty runs *)
Lemma copy_segmentation_runs : forall runs fuel want count later,
    run_sum runs = count -> Forall (fun r => snd r < P64) runs ->
    (length (segmentation want runs ++ later) < fuel)%nat ->
    exists t z0, runs = t ++ z0 /\ zero_runs z0 /\
                 copy_segmentation fuel count (segmentation want runs ++ later) = Some (segmentation want t).
Proof.
  induction runs as [|[d z] rest IH]; intros fuel want count later Hsum Hb Hfuel.
  - cbn [run_sum] in Hsum. subst. exists [], []. destruct fuel; cbn [copy_segmentation N.eqb]; repeat split; constructor.
  - destruct (N.eqb_spec count 0) as [Hz|Hnz].
    + exists [], ((d, z) :: rest). split; [reflexivity|]. split; [apply zero_runs_sum; lia|].
      rewrite Hz. destruct fuel; reflexivity.
    + inversion Hb as [|? ? Hzb Hbr]; subst. cbn [snd] in Hzb. cbn [run_sum segmentation] in *.
      pose proof (varint_nonempty z) as Hvn.
      assert (Hvl : (0 < length (varint z))%nat) by (destruct (varint z); [congruence|cbn [length]; lia]).
      destruct (Bool.eqb d want) eqn:Edw.
      * destruct fuel as [|fu]; [lia|]. rewrite <- app_assoc in *. rewrite app_length in Hfuel.
        cbn [copy_segmentation]. destruct (N.eqb_spec (z + run_sum rest) 0); [lia|].
        rewrite (copy_varint_varint z _ Hzb). destruct (N.ltb_spec (z + run_sum rest) z); [lia|].
        destruct (IH fu (negb want) (z + run_sum rest - z) later ltac:(lia) Hbr ltac:(lia)) as (t & z0 & Ht & Hz0 & Hc).
        rewrite Hc. exists ((d, z) :: t), z0. split; [now rewrite Ht|]. split; [assumption|].
        cbn [segmentation]. now rewrite Edw.
      * destruct fuel as [|fu]; [lia|]. destruct fu as [|fu]; [cbn [app length] in Hfuel; rewrite !app_length in Hfuel; lia|].
        cbn [app] in *. rewrite <- app_assoc in *. cbn [length] in Hfuel. rewrite app_length in Hfuel.
        cbn [copy_segmentation copy_varint]. destruct (N.eqb_spec (z + run_sum rest) 0); [lia|].
        change (0 <? 128) with true. cbv iota. change (u64 (0 * 128) + 0 mod 128) with 0.
        destruct (N.ltb_spec (z + run_sum rest) 0); [lia|]. rewrite N.sub_0_r.
        destruct (N.eqb_spec (z + run_sum rest) 0); [lia|].
        rewrite (copy_varint_varint z _ Hzb). destruct (N.ltb_spec (z + run_sum rest) z); [lia|].
        destruct (IH fu want (z + run_sum rest - z) later ltac:(lia) Hbr ltac:(lia)) as (t & z0 & Ht & Hz0 & Hc).
        rewrite Hc. exists ((d, z) :: t), z0. split; [now rewrite Ht|]. split; [assumption|].
        cbn [segmentation app]. now rewrite Edw.
Qed.

(* ------------------------------------------------------------------ *)
(* D. Data() is local to the stream's own blocks                        *)
(* ------------------------------------------------------------------ *)
Lemma data_scan_imp f : forall fuel ps expect reft lastrel prev ptc pts,
    data_scan fuel (map (set_imp f) ps) expect reft lastrel prev ptc pts = data_scan fuel ps expect reft lastrel prev ptc pts.
Proof.
  induction fuel as [|fu IH]; intros ps expect reft lastrel prev ptc pts; [reflexivity|].
  destruct ps as [|p rest]; [reflexivity|]. cbn [map data_scan]. cbv zeta. cbn [set_imp pk_rel pk_size pk_flags pk_skip].
  destruct (if pk_size p =? 0 then (ptc, pts, prev) else _) as [[ptc1 pts1] prev1].
  destruct (pk_flags p mod 2 =? 0); [reflexivity|].
  destruct (negb (pk_skip p =? 0) && _); [rewrite skipN_map|]; apply IH.
Qed.
