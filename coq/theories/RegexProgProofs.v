(* C18: proofs about the analyses of RegexProg.v. *)
From Coq Require Import List NArith Bool Arith Lia.
From Coq Require Import ZifyBool ZifyN ZifyNat.
Import ListNotations.
Require Import Pk.RegexProg.
Local Open Scope N_scope.

(* ------------------------------------------------------------------ small facts *)
Lemma mem_In : forall a l, mem a l = true <-> In a l.
Proof.
  induction l; simpl; split; intros H; try discriminate; try tauto.
  - apply orb_true_iff in H. destruct H as [H|H].
    + apply Nat.eqb_eq in H. auto.
    + right. apply IHl. exact H.
  - apply orb_true_iff. destruct H as [H|H].
    + left. subst. apply Nat.eqb_refl.
    + right. apply IHl. exact H.
Qed.

Lemma mem_false_notin : forall a l, mem a l = false -> ~ In a l.
Proof. intros a l H HI. apply mem_In in HI. congruence. Qed.

Definition cap (x : N) : N := N.min x MAXU.

Lemma MAXU_val : MAXU = 18446744073709551615. Proof. reflexivity. Qed.
Opaque MAXU.

Lemma satadd_cap : forall a b, satadd a b = cap (a + b).
Proof. intros. unfold satadd, cap. destruct (N.ltb_spec MAXU (a + b)); lia. Qed.

Lemma inc_cap : forall v, v <= MAXU -> inc v = cap (v + 1).
Proof. intros. unfold inc, cap. destruct (N.eqb_spec v MAXU); lia. Qed.

Lemma count_acc : forall (rs : list inst) v, v <= MAXU ->
  fold_left (fun v _ => inc v) rs v = cap (v + N.of_nat (length rs)).
Proof.
  induction rs; intros v Hv; simpl.
  - unfold cap. lia.
  - rewrite IHrs.
    + rewrite inc_cap by assumption. unfold cap. lia.
    + rewrite inc_cap by assumption. unfold cap. lia.
Qed.

Lemma count_cap : forall rs, count rs = cap (N.of_nat (length rs)).
Proof. intros. unfold count. rewrite count_acc. reflexivity. rewrite MAXU_val. lia. Qed.

Definition len (w : list N) : N := N.of_nat (length w).

Lemma len_app : forall a b, len (a ++ b) = len a + len b.
Proof. intros. unfold len. rewrite app_length. lia. Qed.

(* ------------------------------------------------------------------ path semantics: structure *)
Lemma accA_mono : forall p S S' pc w, incl S' S -> accA p S pc w -> accA p S' pc w.
Proof.
  intros p S S' pc w Hi H. induction H.
  - eapply A_match; eauto.
  - eapply A_rune; eauto.
  - eapply A_eps; eauto.
  - eapply A_out; eauto.
  - eapply A_arg; eauto.
Qed.

Lemma accA_alt_inv : forall p S a i w, get p a = Some i -> is_alt (op i) = true -> accA p S a w ->
  ~ In a S /\ (accA p S (out i) w \/ accA p S (arg i) w).
Proof.
  intros p S a i w Hg Ha H.
  inversion H as [pc j G O | pc j b w' G R M A | pc j w' G E A | pc j w' G L NI A | pc j w' G L NI A]; subst;
    rewrite Hg in G; inversion G; subst j.
  - rewrite O in Ha. discriminate.
  - destruct (op i); simpl in *; discriminate.
  - destruct (op i); simpl in *; discriminate.
  - auto.
  - auto.
Qed.

(* cycle removal: a path either never passes the alternation a again, or its part after the
   last visit of a is a path (not longer) that leaves a by one of its two exits. *)
Lemma last_visit : forall p S a ia, get p a = Some ia -> is_alt (op ia) = true ->
  forall pc w, accA p S pc w ->
    accA p (a :: S) pc w \/
    exists w', len w' <= len w /\ (accA p (a :: S) (out ia) w' \/ accA p (a :: S) (arg ia) w').
Proof.
  intros p S a ia Hg Ha pc w H. induction H.
  - left. eapply A_match; eauto.
  - destruct IHaccA as [IH | [w' [Hl IH]]].
    + left. eapply A_rune; eauto.
    + right. exists w'. split; auto. unfold len in *. simpl. lia.
  - destruct IHaccA as [IH | [w' [Hl IH]]].
    + left. eapply A_eps; eauto.
    + right. exists w'. auto.
  - destruct (Nat.eq_dec pc a) as [E | E].
    + subst pc. rewrite Hg in H. inversion H; subst i.
      destruct IHaccA as [IH | [w' [Hl IH]]].
      * right. exists w. split; [lia | auto].
      * right. exists w'. auto.
    + destruct IHaccA as [IH | [w' [Hl IH]]].
      * left. eapply A_out; eauto. simpl. intros [F | F]; [congruence | auto].
      * right. exists w'. auto.
  - destruct (Nat.eq_dec pc a) as [E | E].
    + subst pc. rewrite Hg in H. inversion H; subst i.
      destruct IHaccA as [IH | [w' [Hl IH]]].
      * right. exists w. split; [lia | auto].
      * right. exists w'. auto.
    + destruct IHaccA as [IH | [w' [Hl IH]]].
      * left. eapply A_arg; eauto. simpl. intros [F | F]; [congruence | auto].
      * right. exists w'. auto.
Qed.

(* ------------------------------------------------------------------ the linear run *)
Definition matches_all (rs : list inst) (w : list N) : Prop :=
  Forall2 (fun i b => inst_matches i b = true) rs w.

Definition end_acc (p : prog) (S : list nat) (e : lin_end) (w : list N) : Prop :=
  match e with
  | LMatch => w = []
  | LFail => False
  | LAlt a _ _ => accA p S a w
  end.

Definition end_ok (p : prog) (e : lin_end) : Prop :=
  match e with
  | LAlt a o g => exists i, get p a = Some i /\ is_alt (op i) = true /\ out i = o /\ arg i = g
  | _ => True
  end.

Lemma get_In : forall p pc i, get p pc = Some i -> In i (insts p).
Proof. intros. eapply nth_error_In; eauto. Qed.

Lemma get_lt : forall p pc i, get p pc = Some i -> (pc < size p)%nat.
Proof. intros. unfold get, size in *. apply nth_error_Some. congruence. Qed.

Lemma lin_spec : forall p f pc rs e, lin p f pc = Some (rs, e) ->
  end_ok p e /\ Forall (fun i => In i (insts p) /\ is_rune (op i) = true) rs /\
  (forall S w, accA p S pc w -> exists w1 w2, w = w1 ++ w2 /\ matches_all rs w1 /\ end_acc p S e w2) /\
  (forall S w1 w2, matches_all rs w1 -> end_acc p S e w2 -> accA p S pc (w1 ++ w2)).
Proof.
  induction f; intros pc rs e H; simpl in H; [discriminate|].
  destruct (get p pc) as [i|] eqn:Hg; [|discriminate].
  destruct (op i) eqn:Ho.
  - (* IAlt *) inversion H; subst. repeat split.
    + exists i. rewrite Ho. auto.
    + constructor.
    + intros S w Hacc. exists [], w. repeat split; auto. constructor.
    + intros S w1 w2 Hm He. inversion Hm; subst. exact He.
  - (* IAltMatch *) inversion H; subst. repeat split.
    + exists i. rewrite Ho. auto.
    + constructor.
    + intros S w Hacc. exists [], w. repeat split; auto. constructor.
    + intros S w1 w2 Hm He. inversion Hm; subst. exact He.
  - (* ICapture *) destruct (IHf _ _ _ H) as [A [B [C D]]]. repeat split; auto.
    + intros S w Hacc. inversion Hacc; subst; rewrite Hg in H0; inversion H0; subst; rewrite Ho in *; simpl in *; try discriminate.
      eauto.
    + intros S w1 w2 Hm He. eapply A_eps; eauto. rewrite Ho. reflexivity.
  - (* IEmpty *) destruct (IHf _ _ _ H) as [A [B [C D]]]. repeat split; auto.
    + intros S w Hacc. inversion Hacc; subst; rewrite Hg in H0; inversion H0; subst; rewrite Ho in *; simpl in *; try discriminate.
      eauto.
    + intros S w1 w2 Hm He. eapply A_eps; eauto. rewrite Ho. reflexivity.
  - (* IMatch *) inversion H; subst. repeat split; simpl; auto.
    + intros S w Hacc. inversion Hacc; subst; rewrite Hg in H0; inversion H0; subst; rewrite Ho in *; simpl in *; try discriminate.
      exists [], []. repeat split; auto. constructor.
    + intros S w1 w2 Hm He. inversion Hm; subst. simpl. eapply A_match; eauto.
  - (* IFail *) inversion H; subst. repeat split; simpl; auto.
    + intros S w Hacc. inversion Hacc; subst; rewrite Hg in H0; inversion H0; subst; rewrite Ho in *; simpl in *; discriminate.
    + intros S w1 w2 Hm He. contradiction.
  - (* INop *) destruct (IHf _ _ _ H) as [A [B [C D]]]. repeat split; auto.
    + intros S w Hacc. inversion Hacc; subst; rewrite Hg in H0; inversion H0; subst; rewrite Ho in *; simpl in *; try discriminate.
      eauto.
    + intros S w1 w2 Hm He. eapply A_eps; eauto. rewrite Ho. reflexivity.
  - (* IRune *) destruct (lin p f (out i)) as [[rs' e']|] eqn:Hl; [|discriminate]. inversion H; subst.
    destruct (IHf _ _ _ Hl) as [A [B [C D]]]. repeat split; auto.
    + constructor; auto. split; [eapply get_In; eauto | rewrite Ho; reflexivity].
    + intros S w Hacc. inversion Hacc; subst; rewrite Hg in H0; inversion H0; subst; rewrite Ho in *; simpl in *; try discriminate.
      destruct (C _ _ H3) as [w1 [w2 [E [M F]]]]. exists (b :: w1), w2. subst. repeat split; auto. constructor; auto.
    + intros S w1 w2 Hm He. inversion Hm; subst. simpl. eapply A_rune; eauto. rewrite Ho. reflexivity.
  - (* IRune1 *) destruct (lin p f (out i)) as [[rs' e']|] eqn:Hl; [|discriminate]. inversion H; subst.
    destruct (IHf _ _ _ Hl) as [A [B [C D]]]. repeat split; auto.
    + constructor; auto. split; [eapply get_In; eauto | rewrite Ho; reflexivity].
    + intros S w Hacc. inversion Hacc; subst; rewrite Hg in H0; inversion H0; subst; rewrite Ho in *; simpl in *; try discriminate.
      destruct (C _ _ H3) as [w1 [w2 [E [M F]]]]. exists (b :: w1), w2. subst. repeat split; auto. constructor; auto.
    + intros S w1 w2 Hm He. inversion Hm; subst. simpl. eapply A_rune; eauto. rewrite Ho. reflexivity.
  - (* IRuneAny *) destruct (lin p f (out i)) as [[rs' e']|] eqn:Hl; [|discriminate]. inversion H; subst.
    destruct (IHf _ _ _ Hl) as [A [B [C D]]]. repeat split; auto.
    + constructor; auto. split; [eapply get_In; eauto | rewrite Ho; reflexivity].
    + intros S w Hacc. inversion Hacc; subst; rewrite Hg in H0; inversion H0; subst; rewrite Ho in *; simpl in *; try discriminate.
      destruct (C _ _ H3) as [w1 [w2 [E [M F]]]]. exists (b :: w1), w2. subst. repeat split; auto. constructor; auto.
    + intros S w1 w2 Hm He. inversion Hm; subst. simpl. eapply A_rune; eauto. rewrite Ho. reflexivity.
  - (* IRuneAnyNotNL *) destruct (lin p f (out i)) as [[rs' e']|] eqn:Hl; [|discriminate]. inversion H; subst.
    destruct (IHf _ _ _ Hl) as [A [B [C D]]]. repeat split; auto.
    + constructor; auto. split; [eapply get_In; eauto | rewrite Ho; reflexivity].
    + intros S w Hacc. inversion Hacc; subst; rewrite Hg in H0; inversion H0; subst; rewrite Ho in *; simpl in *; try discriminate.
      destruct (C _ _ H3) as [w1 [w2 [E [M F]]]]. exists (b :: w1), w2. subst. repeat split; auto. constructor; auto.
    + intros S w1 w2 Hm He. inversion Hm; subst. simpl. eapply A_rune; eauto. rewrite Ho. reflexivity.
  - discriminate.
Qed.
